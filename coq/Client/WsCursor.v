(* Model of `WebsocketStreamWrapper` (client/synchronous/threaded/ws_stream.rs:11-139): the adapter
   that turns a tungstenite WebSocket (messages) into the Read + Write byte stream the threaded
   driver uses.  Transcribed as written, including MessageCursor::read's source slice
   `data[..amount]` (not `data[index..]`) and the wrapper passing the WHOLE buffer (not the
   unfilled tail) to the cursor.

   tungstenite is modelled by its message-level contract:
   * `WebSocket::read()` yields the next message, or WouldBlock when the transport has nothing
     now, or an error: the arrival pattern of a connection is a [list wsread];
   * `WebSocket::send(m)` = queue the frame, then flush; a flush that hits WouldBlock reports it
     AFTER the frame was queued, and a later flush writes it. *)
From GM Require Import Base.Prelude.
Open Scope N_scope.

Inductive wsmsg :=
| MBinary (d : bytes)
| MText (d : bytes)
| MOther.                          (* Ping / Pong / Close / raw frame: MessageCursor::new gives None *)

Inductive wsread := RMsg (m : wsmsg) | RWouldBlock | RError.

(* MessageCursor *)
Record cursor := mkCursor { cu_data : bytes; cu_index : N }.

Definition cursor_new (m : wsmsg) : option cursor :=
  match m with
  | MBinary d | MText d => Some (mkCursor d 0)
  | MOther => None
  end.

(* MessageCursor::read(dest) (37-53, as repaired by 73a05c7): copies data[index..index+amount] into dest[..amount],
   amount = min(remaining, |dest|); [room] = |dest|.  Returns the cursor and the bytes copied. *)
Definition cursor_take (c : cursor) (room : N) : cursor * bytes :=
  if cu_index c <? len (cu_data c) then
    let amount := N.min (len (cu_data c) - cu_index c) room in
    if 0 <? amount then
      (mkCursor (cu_data c) (cu_index c + amount),
       firstn (N.to_nat amount) (skipn (N.to_nat (cu_index c)) (cu_data c)))
    else (c, [])
  else (c, []).

Record wstate := mkW { w_cur : option cursor; w_final : bool }.    (* current_read_message, final_error.is_some() *)
Definition w_init : wstate := mkW None false.

Inductive rres :=
| ROk (n : N)                      (* Ok(bytes_read) *)
| RErrWouldBlock
| RErrOther.

(* Read::read (73-118, as repaired): the cursor is handed the UNFILLED TAIL buf[bytes_read..], so the filled prefix of
   the buffer is exactly the bytes taken so far: [acc] = buf[..bytes_read].  [sock] = what WebSocket::read() will answer
   from now on (exhausted = WouldBlock); fuel bounds the `while bytes_read < buf.len()` loop *)
Fixpoint read_loop (fuel : nat) (w : wstate) (sock : list wsread) (size : N) (acc : bytes)
  : wstate * list wsread * bytes * rres :=
  match fuel with
  | O => (w, sock, acc, RErrOther)                       (* out of fuel: excluded by [read_fuel] *)
  | S fuel' =>
      if len acc <? size then
        let take := fun (c : cursor) (fin : bool) (sock' : list wsread) =>
          let (c', chunk) := cursor_take c (size - len acc) in
          let acc' := acc ++ chunk in
          read_loop fuel' (mkW (if len acc' <? size then None else Some c') fin) sock' size acc' in
        match w_cur w with
        | Some c => take c (w_final w) sock
        | None =>
            if w_final w then
              (if 0 <? len acc then (w, sock, acc, ROk (len acc))
               else (mkW None false, sock, acc, RErrOther))                 (* final_error.take() *)
            else
              match sock with
              | [] => (w, [], acc, if 0 <? len acc then ROk (len acc) else RErrWouldBlock)
              | RWouldBlock :: s' => (w, s', acc, if 0 <? len acc then ROk (len acc) else RErrWouldBlock)
              | RError :: s' => read_loop fuel' (mkW None true) s' size acc
              | RMsg m :: s' =>
                  match cursor_new m with
                  | Some c => take c false s'
                  | None => read_loop fuel' (mkW None false) s' size acc
                  end
              end
        end
      else (w, sock, acc, ROk (len acc))
  end.

Definition read_fuel (sock : list wsread) : nat := S (S (S (length sock))).

(* one Read::read with a buffer of [size] bytes: new state, remaining answers, the bytes placed in buf[..n], the result *)
Definition ws_read (w : wstate) (sock : list wsread) (size : N) : wstate * list wsread * bytes * rres :=
  read_loop (read_fuel sock) w sock size [].

(* what the driver feeds to the engine after a read: &inbound_data[..bytes_read] — out of range panics *)
Definition delivered (size : N) (data : bytes) (r : rres) : option bytes :=
  match r with
  | ROk n => if size <? n then None else Some data
  | _ => Some []
  end.

(* successive reads with a buffer of [size] bytes: the byte stream the driver sees; None = a read reported more bytes
   than the buffer holds *)
Fixpoint read_all (rounds : nat) (w : wstate) (sock : list wsread) (size : N) : option bytes :=
  match rounds with
  | O => Some []
  | S k =>
      match ws_read w sock size with
      | (w', sock', data, r) =>
          match delivered size data r with
          | None => None
          | Some d =>
              match read_all k w' sock' size with
              | Some rest => Some (d ++ rest)
              | None => None
              end
          end
      end
  end.

(* the specification: the byte stream is the concatenation of the data payloads, in order *)
Definition payload (r : wsread) : bytes :=
  match r with RMsg (MBinary d) | RMsg (MText d) => d | _ => [] end.
Definition stream_of (sock : list wsread) : bytes := flat_map payload sock.

(* ---- write side (121-139) ---- *)
Inductive tres := TOk | TBlock.          (* what the transport does when the queued frames are flushed *)
Record wout := mkOut { o_queue : list bytes; o_wire : list bytes }.
Definition out_init : wout := mkOut [] [].
Inductive wres := WrOk (n : N) | WrWouldBlock.

Definition ws_flush (o : wout) (t : tres) : wout * bool :=
  match t with
  | TOk => (mkOut [] (o_wire o ++ o_queue o), true)
  | TBlock => (o, false)
  end.
(* Write::write(buf) = stream.send(Message::Binary(buf)) = queue + flush; Ok => the WHOLE slice is reported written *)
Definition ws_write (o : wout) (data : bytes) (t : tres) : wout * wres :=
  let o1 := mkOut (o_queue o ++ [data]) (o_wire o) in
  match ws_flush o1 t with
  | (o2, true) => (o2, WrOk (len data))
  | (o2, false) => (o2, WrWouldBlock)
  end.

(* the threaded driver's write loop for ONE batch over this adapter: WouldBlock = "no progress", the same tail is
   offered again on the next iteration; Ok(n) advances the cursor by n = the whole tail *)
Fixpoint drive_batch (o : wout) (batch : bytes) (results : list tres) : wout * bool :=
  match results with
  | [] => (o, false)
  | t :: rest =>
      match ws_write o batch t with
      | (o', WrOk _) => (o', true)
      | (o', WrWouldBlock) => drive_batch o' batch rest
      end
  end.
