(* A tag-level toy engine satisfying the engine facts the lifecycle theorems assume: shows that
   the hypotheses of the C12 theorems are satisfiable (non-vacuity) and gives small executable
   runs of the driver model.  NOT a model of protocol.rs (that is Engine/Model.v). *)
From GM Require Import Base.Prelude Base.Outcome Client.Backoff Client.Impl Client.Driver.
Open Scope N_scope.

Definition me := (etag * bool)%type.           (* state tag, a user DISCONNECT is queued *)
Definition me_tag (e : me) : etag := fst e.
Definition me_user (e : me) (_ : N) (_ : unit) : me := e.
(* a user DISCONNECT is queued on a live connection, failed by the offline policy otherwise *)
Definition me_disc (e : me) (_ : N) (_ : unit) : me :=
  match fst e with
  | TConnected => (TConnected, true)
  | TPendingDisconnect => (THalted, false)
  | _ => e
  end.
Definition me_reset (e : me) (_ : N) : me :=
  match fst e with TDisconnected => (TDisconnected, false) | _ => (THalted, false) end.
Definition me_opened (e : me) (_ _ : N) : me * outcome unit :=
  match fst e with
  | TDisconnected => ((TPendingConnack, false), Ok tt)
  | _ => ((THalted, false), Err EInternalStateError)
  end.
Definition me_closed (e : me) (_ : N) : me * outcome unit :=
  match fst e with
  | TDisconnected => ((THalted, false), Err EInternalStateError)
  | _ => ((TDisconnected, false), Ok tt)
  end.
(* fragments: [1] successful CONNACK, [2] failing CONNACK, [3] a PUBLISH, anything else is malformed *)
Definition me_data (e : me) (_ : N) (data : bytes) : me * list pevent * outcome unit :=
  match fst e, data with
  | TPendingConnack, [1] => ((TConnected, snd e), [PeConnack true], Ok tt)
  | TPendingConnack, [2] => ((THalted, false), [PeConnack false], Err EConnectionEstablishmentFailure)
  | (TConnected | TPendingDisconnect), [3] => (e, [PePublish], Ok tt)
  | TDisconnected, _ => ((THalted, false), [], Err EInternalStateError)
  | _, _ => ((THalted, false), [], Err EProtocolError)
  end.
(* flushing the DISCONNECT ends the connection: write completion reports UserInitiatedDisconnect *)
Definition me_wc (e : me) (_ : N) : me * outcome unit :=
  match fst e with
  | TPendingDisconnect => ((THalted, false), Err EUserInitiatedDisconnect)
  | TDisconnected => ((THalted, false), Err EInternalStateError)
  | THalted => (e, Err EInternalStateError)
  | _ => (e, Ok tt)
  end.
Definition me_service (e : me) (_ _ : N) : me * bytes * outcome unit :=
  match fst e, snd e with
  | TConnected, true => ((TPendingDisconnect, false), [224; 0], Ok tt)
  | THalted, _ => (e, [], Err EInternalStateError)
  | _, _ => (e, [], Ok tt)
  end.
Definition me_nst (e : me) (now : N) : option N :=
  match fst e, snd e with TConnected, true => Some now | _, _ => None end.

Definition me_init : me := (TDisconnected, false).

Definition me_dstep (thr : bool) := dstep me unit unit me_tag me_user me_disc me_reset me_opened me_closed me_data me_wc me_service me_nst thr.
Definition me_drun (thr : bool) := drun me unit unit me_tag me_user me_disc me_reset me_opened me_closed me_data me_wc me_service me_nst thr.
Definition me_dinit : dstate me :=
  dinit me me_init {| c_jit := JNone; c_base := NANOS; c_max := 4 * NANOS; c_stab := 30 * NANOS |} (30 * NANOS).
