(* The client implementation and driver models instantiated with the protocol-engine model
   (Engine/Instance.v): executable whole-client behaviour, used for the `_refuted` witnesses
   (what the engine does with a user DISCONNECT during the handshake is the ENGINE model's
   answer, not an assumption of this file).  Client time is ns, engine time ms. *)
From GM Require Import Base.Prelude Base.Outcome Codec.Packets Codec.Settings Alias.Outbound
  Engine.Model Engine.Instance Client.Backoff Client.Impl Client.Driver.
Open Scope N_scope.

Definition tag_of (p : pstate) : etag :=
  match p with
  | Disconnected => TDisconnected | PendingConnack => TPendingConnack | Connected => TConnected
  | PendingDisconnect => TPendingDisconnect | Halted => THalted
  end.

Definition pevents_of (p : packet) : list pevent :=
  match p with
  | Connack c => [PeConnack (ca_rc c =? 0)]
  | Publish _ => [PePublish]
  | Disconnect _ => [PeDisconnect]
  | _ => []
  end.

Section Inst.
  Variable cfg : config.
  Definition ms (t : N) : N := t / 1000000.
  Definition U := (packet * option N)%type.     (* submission: packet, ack timeout (ms) *)
  Definition ie_tag (e : istate) : etag := tag_of (s_st e).
  Definition ie_user (e : istate) (now : N) (u : U) : istate := fst (i_step cfg e (EvUser (ms now) (fst u) (snd u))).
  Definition ie_disc (e : istate) (now : N) (d : packet) : istate := fst (i_step cfg e (EvUser (ms now) d None)).
  Definition ie_reset (e : istate) (now : N) : istate := fst (i_step cfg e (EvReset (ms now))).
  Definition ie_opened (e : istate) (now dl : N) : istate * outcome unit :=
    let (e', o) := i_step cfg e (EvOpen (ms now) (ms dl)) in (e', o_res o).
  Definition ie_closed (e : istate) (now : N) : istate * outcome unit :=
    let (e', o) := i_step cfg e (EvClose (ms now)) in (e', o_res o).
  Definition ie_data (e : istate) (now : N) (data : bytes) : istate * list pevent * outcome unit :=
    let (e', o) := i_step cfg e (EvData (ms now) data) in (e', flat_map pevents_of (o_events o), o_res o).
  Definition ie_wc (e : istate) (now : N) : istate * outcome unit :=
    let (e', o) := i_step cfg e (EvWriteComplete (ms now)) in (e', o_res o).
  Definition ie_service (e : istate) (now fill : N) : istate * bytes * outcome unit :=
    let (e', o) := i_step cfg e (EvService (ms now) 4096 fill) in (e', o_bytes o, o_res o).
  Definition ie_nst (e : istate) (now : N) : option N :=
    match o_nst (snd (i_step cfg e (EvNextService (ms now)))) with
    | Some (Some t) => Some (t * 1000000)
    | _ => None
    end.

  Definition idev := dev U packet.
  Definition idstate := dstate istate.
  Definition i_dstep (thr : bool) : idstate -> N -> idev -> idstate :=
    dstep istate U packet ie_tag ie_user ie_disc ie_reset ie_opened ie_closed ie_data ie_wc ie_service ie_nst thr.
  Definition i_drun (thr : bool) : idstate -> list (N * idev) -> idstate :=
    drun istate U packet ie_tag ie_user ie_disc ie_reset ie_opened ie_closed ie_data ie_wc ie_service ie_nst thr.
  Definition i_dinit (k : resolver_kind) (bc : Backoff.cfg) (timeout : N) : idstate :=
    dinit istate (i_init cfg k) bc timeout.
End Inst.

(* ---- a concrete client: MQTT 5, PreserveAll offline policy, no keep-alive, client id "aa" ---- *)
Definition w_connect : connect_opts :=
  {| co_keep_alive := Some 0; co_rejoin := 0; co_client_id := Some [97; 97]; co_username := None; co_password := None;
     co_sei := None; co_rri := None; co_rpi := None; co_receive_max := None; co_tam := None; co_max_packet := None;
     co_will_delay := None; co_will := None; co_up := None |}.
Definition w_cfg : config := mkConfig V5 0 false None 10000 w_connect.
Definition w_backoff : Backoff.cfg := {| c_jit := JNone; c_base := NANOS; c_max := 4 * NANOS; c_stab := 30 * NANOS |}.
Definition w_init : idstate := i_dinit w_cfg RNull w_backoff (30 * NANOS).

Definition w_disconnect : packet :=
  Disconnect {| d_rc := 0; d_sei := None; d_reason := None; d_up := None; d_server_ref := None |}.
Definition w_connack_bytes : bytes := [32; 3; 0; 0; 0].          (* CONNACK, session absent, Success, no properties *)

(* n healthy loop iterations of an established, idle connection *)
Fixpoint w_idle (n : nat) : list (N * idev) :=
  match n with O => [] | S k => (0, DReadBlocked) :: (0, DService) :: (0, DCheck) :: w_idle k end.

(* D13: stop-with-DISCONNECT requested during the CONNECT/CONNACK handshake *)
Definition w_d13_prefix : list (N * idev) :=
  [ (0, DOp OpStart); (0, DCheck);                 (* Stopped -> Connecting: Attempt *)
    (0, DConnOk);                                   (* transport up: Connecting -> Connected, engine awaits CONNACK *)
    (0, DOp (OpStop (Some w_disconnect))); (0, DCheck);  (* the stop request arrives during the handshake *)
    (0, DService); (0, DWrite (WOk 17)); (0, DFlush true); (0, DCheck);   (* CONNECT written and flushed *)
    (0, DRead w_connack_bytes); (0, DCheck) ].      (* successful CONNACK *)
