(* The operation channel into the event loop and the per-operation result channel out of it, as a
   small transition system (who holds which end, and what dropping an end does).

   tokio     (client/asynchronous/tokio/mod.rs:348-375): unbounded mpsc of OperationOptions; the response handler
             owns a oneshot sender, the caller's future awaits the receiver: a DROPPED sender resolves the future
             with an error (`rx.await?`); a failed channel send resolves it with OperationChannelFailure.
   threaded  (client/synchronous/threaded/mod.rs:406-460, client/synchronous/mod.rs:19-99): std mpsc; the handler
             owns a `SyncResultSender` (Mutex<Option<T>> + Condvar), the caller holds the `SyncResultReceiver`
             (recv() waits on the condvar until the slot is filled); `SyncResultSender` has NO Drop: a sender
             dropped without `apply` never wakes the receiver.  A failed channel send fills the slot through the
             `late_sender` clone.
   An operation is identified by a number.  Buckets: in the channel, tracked by the engine (handler not yet
   run), result delivered, lost (every sender dropped, no result: the caller waits forever). *)
From GM Require Import Base.Prelude.
Open Scope N_scope.

Inductive rresult := ResEngine | ResClientClosed | ResChannelFailure | ResSenderDropped.

Inductive rev :=
| RSubmit (id : N)           (* a caller submits a (valid) operation through a client handle *)
| RTake                      (* the loop receives the head of the channel and hands it to the engine *)
| RComplete (id : N)         (* the engine completes a tracked operation (ack, failure, policy, timeout): its handler runs *)
| RShutdown                  (* the loop handles close(): engine reset fails every tracked operation, then the loop exits *)
| RDie                       (* the loop exits abnormally (failed transition, panic): engine and channel are dropped *)
| RDropReceiver (id : N).    (* the caller drops the future / receiver *)

Record rs := mkRs {
  r_alive : bool;                       (* the loop (and with it the channel's receiving end) exists *)
  r_chan : list N;
  r_eng : list N;
  r_done : list (N * rresult);
  r_lost : list N;
  r_dropped : list N }.

Definition rs_init : rs := mkRs true [] [] [] [] [].

Fixpoint remove_first (id : N) (l : list N) : list N :=
  match l with
  | [] => []
  | x :: r => if x =? id then r else x :: remove_first id r
  end.
Definition memN (id : N) (l : list N) : bool := existsb (N.eqb id) l.

(* what happens to operations whose senders are all dropped without a result *)
Definition orphan (thr : bool) (s : rs) (ids : list N) : rs :=
  if thr then mkRs (r_alive s) (r_chan s) (r_eng s) (r_done s) (r_lost s ++ ids) (r_dropped s)
  else mkRs (r_alive s) (r_chan s) (r_eng s) (r_done s ++ map (fun id => (id, ResSenderDropped)) ids) (r_lost s) (r_dropped s).

Definition rstep (thr : bool) (s : rs) (e : rev) : rs :=
  match e with
  | RSubmit id =>
      if r_alive s then mkRs true (r_chan s ++ [id]) (r_eng s) (r_done s) (r_lost s) (r_dropped s)
      else mkRs false (r_chan s) (r_eng s) (r_done s ++ [(id, ResChannelFailure)]) (r_lost s) (r_dropped s)
  | RTake =>
      if r_alive s then
        match r_chan s with
        | id :: rest => mkRs true rest (r_eng s ++ [id]) (r_done s) (r_lost s) (r_dropped s)
        | [] => s
        end
      else s
  | RComplete id =>
      if r_alive s && memN id (r_eng s)
      then mkRs true (r_chan s) (remove_first id (r_eng s)) (r_done s ++ [(id, ResEngine)]) (r_lost s) (r_dropped s)
      else s
  | RShutdown =>
      if r_alive s then
        let s1 := mkRs false [] [] (r_done s ++ map (fun id => (id, ResClientClosed)) (r_eng s)) (r_lost s) (r_dropped s) in
        orphan thr s1 (r_chan s)
      else s
  | RDie =>
      if r_alive s then
        orphan thr (mkRs false [] [] (r_done s) (r_lost s) (r_dropped s)) (r_eng s ++ r_chan s)
      else s
  | RDropReceiver id => mkRs (r_alive s) (r_chan s) (r_eng s) (r_done s) (r_lost s) (id :: r_dropped s)
  end.

Definition rrun (thr : bool) (evs : list rev) : rs := fold_left (rstep thr) evs rs_init.

Definition submitted (evs : list rev) : list N :=
  flat_map (fun e => match e with RSubmit id => [id] | _ => [] end) evs.
Definition loop_exits (evs : list rev) : bool :=
  existsb (fun e => match e with RShutdown | RDie => true | _ => false end) evs.

Definition cnt (id : N) (l : list N) : nat := count_occ N.eq_dec l id.
(* in how many buckets-places an operation is accounted for *)
Definition accounted (id : N) (s : rs) : nat :=
  (cnt id (r_chan s) + cnt id (r_eng s) + cnt id (map fst (r_done s)) + cnt id (r_lost s))%nat.
Definition results_of (id : N) (s : rs) : nat := cnt id (map fst (r_done s)).
