(* Model of `MqttClientImpl`, the driver-level state machine of the client
   (gneiss-mqtt/src/client/mod.rs 563-1037): current / desired state, pending stop options,
   operation intake, packet-event dispatch, compute_optional_state_transition,
   transition_to_state with its two short-circuits, emitted client events and the
   last_connack / last_disconnect / last_error bookkeeping.  A transcription of what the code
   DOES (DESIGN.md Appendix D), not of what it should do.

   The protocol engine (`ProtocolState`) is abstract here: a type [E] with one function per
   entry point the client implementation calls, plus [e_tag], the engine's state tag.  The
   theorems of ClientProofs/ImplP.v name the few engine facts they need as Section
   hypotheses, phrased through the executable predicates [fact_*] below; the same predicates
   (extracted) are evaluated on the REAL engine's observable behaviour by the C12 driver, and
   Client/ImplEngine.v instantiates [E] with the engine model of Engine/Instance.v.

   Time: [now] is an argument of every entry point (the code calls Instant::now()); N
   nanoseconds on an arbitrary monotone clock, [IMAX] = end of the Instant range
   (`Instant + Duration` panics beyond it: client/mod.rs:981). *)
From GM Require Import Base.Prelude Base.Outcome Client.Backoff.
Open Scope N_scope.

(* ---- ClientImplState (client/mod.rs:541-547) ---- *)
Inductive cstate := CStopped | CConnecting | CConnected | CPendingReconnect | CShutdown.
Definition cstate_eqb (a b : cstate) : bool :=
  match a, b with
  | CStopped, CStopped | CConnecting, CConnecting | CConnected, CConnected
  | CPendingReconnect, CPendingReconnect | CShutdown, CShutdown => true
  | _, _ => false
  end.
Definition all_cstates : list cstate := [CStopped; CConnecting; CConnected; CPendingReconnect; CShutdown].

(* ---- ProtocolStateType (protocol.rs:183-190) ---- *)
Inductive etag := TDisconnected | TPendingConnack | TConnected | TPendingDisconnect | THalted.
Definition etag_eqb (a b : etag) : bool :=
  match a, b with
  | TDisconnected, TDisconnected | TPendingConnack, TPendingConnack | TConnected, TConnected
  | TPendingDisconnect, TPendingDisconnect | THalted, THalted => true
  | _, _ => false
  end.

(* ---- shapes of `desired_stop_options : Option<StopOptionsInternal>` ----
   SNone = None; SPlain = Some{disconnect: None}; SDisc = Some{disconnect: Some(packet)} *)
Inductive stopshape := SNone | SPlain | SDisc.
Definition all_stopshapes : list stopshape := [SNone; SPlain; SDisc].

(* ---- PacketEvent (protocol.rs:134-138), as far as the client implementation looks at it ---- *)
Inductive pevent := PePublish | PeDisconnect | PeConnack (success : bool).

(* ---- ClientEvent (client/mod.rs), with what the lifecycle property talks about ---- *)
Inductive cev :=
| EvAttempt
| EvSuccess
| EvFailure (e : errkind) (connack : bool)          (* error kind; a CONNACK was attached *)
| EvDisconnection (e : errkind) (disconnect : bool) (* error kind; a server DISCONNECT was attached *)
| EvStopped
| EvPublish.

(* Instant range: i64 seconds since an unspecified epoch, in ns *)
Definition IMAX : N := 9223372036854775807 * NANOS.
Definition add_instant (site t d : N) : outcome N := if IMAX <? t + d then Panic site else Ok (t + d).
(* add_duration_saturating (client/mod.rs, fix 8daf4ff): base.checked_add(d), else base + u32::MAX seconds
   (that fallback addition is a plain `+`: it still panics if even it leaves the Instant range) *)
Definition U32S : N := 4294967295 * NANOS.
Definition add_saturating (site t d : N) : outcome N :=
  if IMAX <? t + d then add_instant site t U32S else Ok (t + d).

(* ---- compute_optional_state_transition (client/mod.rs:842-878) ---- *)
Definition cost (cur des : cstate) (stop : stopshape) : option cstate :=
  match cur with
  | CStopped =>
      match des with
      | CConnected => Some CConnecting
      | CShutdown => Some CShutdown
      | _ => None
      end
  | CConnecting | CPendingReconnect =>
      if negb (cstate_eqb des CConnected) then Some CStopped else None
  | CConnected =>
      if negb (cstate_eqb des CConnected) then
        match stop with
        | SDisc => None
        | SPlain => Some CStopped
        | SNone => Some CStopped
        end
      else None
  | CShutdown => None
  end.

(* ---- the facts about the engine the client-level theorems rely on, as executable
   predicates over (tag before, result, tag after) of one engine call ---- *)

(* ConnectionOpened: succeeds exactly from Disconnected, then awaits the CONNACK *)
Definition fact_opened (tb : etag) (ok : bool) (ta : etag) : bool :=
  if etag_eqb tb TDisconnected then ok && etag_eqb ta TPendingConnack
  else negb ok && etag_eqb ta THalted.
(* ConnectionClosed: succeeds from every state but Disconnected (after fix cc6f008 also with a
   user DISCONNECT pending), and leaves the engine Disconnected *)
Definition fact_closed (tb : etag) (ok : bool) (ta : etag) : bool :=
  if etag_eqb tb TDisconnected then negb ok && etag_eqb ta THalted
  else ok && etag_eqb ta TDisconnected.
(* every other entry point: Disconnected is neither left nor entered, PendingConnack is not entered *)
Definition fact_other (tb ta : etag) : bool :=
  (if etag_eqb tb TDisconnected then etag_eqb ta TDisconnected || etag_eqb ta THalted
   else negb (etag_eqb ta TDisconnected))
  && (etag_eqb tb TPendingConnack || negb (etag_eqb ta TPendingConnack)).
(* user events and reset keep a Disconnected engine Disconnected *)
Definition fact_user (tb ta : etag) : bool :=
  fact_other tb ta && (negb (etag_eqb tb TDisconnected) || etag_eqb ta TDisconnected).
(* packet events of one IncomingData call: CONNACK events only while awaiting the CONNACK, at
   most one per call, and a successful one ends the wait *)
Definition is_connack (p : pevent) : bool := match p with PeConnack _ => true | _ => false end.
Definition is_success (p : pevent) : bool := match p with PeConnack true => true | _ => false end.
Definition count_connacks (l : list pevent) : nat := length (filter is_connack l).
Definition fact_data (tb : etag) (pes : list pevent) (ta : etag) : bool :=
  fact_other tb ta
  && (Nat.leb (count_connacks pes) 1)
  && (etag_eqb tb TPendingConnack || Nat.eqb (count_connacks pes) 0)
  && (negb (existsb is_success pes) || negb (etag_eqb ta TPendingConnack)).

Section Client.

  (* ---- the abstract engine ---- *)
  Variable E : Type.                    (* ProtocolState *)
  Variable U : Type.                    (* a publish / subscribe / unsubscribe submission *)
  Variable D : Type.                    (* a user DISCONNECT packet *)
  Variable e_tag : E -> etag.
  Variable e_user : E -> N -> U -> E.                              (* handle_user_event(Publish|Subscribe|Unsubscribe) *)
  Variable e_disc : E -> N -> D -> E.                              (* handle_user_event(Disconnect) *)
  Variable e_reset : E -> N -> E.                                  (* reset *)
  Variable e_opened : E -> N -> N -> E * outcome unit.             (* now, establishment deadline *)
  Variable e_closed : E -> N -> E * outcome unit.
  Variable e_data : E -> N -> bytes -> E * list pevent * outcome unit.
  Variable e_wc : E -> N -> E * outcome unit.
  Variable e_service : E -> N -> N -> E * bytes * outcome unit.    (* now, bytes already in the buffer -> appended bytes *)
  Variable e_nst : E -> N -> option N.                             (* get_next_service_timepoint *)

  (* ---- OperationOptions (client/mod.rs:529-538) ---- *)
  Inductive cop :=
  | OpUser (u : U)
  | OpStart
  | OpStop (d : option D)
  | OpShutdown
  | OpListener.                        (* AddListener / RemoveListener: no effect on the state machine *)

  Record st := mkSt {
    c_eng : E;
    c_cur : cstate;
    c_des : cstate;
    c_stop : stopshape;                (* desired_stop_options *)
    c_connack : option bool;           (* last_connack: Some (reason code = Success) *)
    c_disc : bool;                     (* last_disconnect.is_some() *)
    c_err : option errkind;            (* last_error *)
    c_start : option N;                (* last_start_connect_time *)
    c_bo : Backoff.st;                 (* reconnect options, next_reconnect_period, successful_connect_time *)
    c_timeout : N }.                   (* connect_timeout *)

  Definition set_eng (s : st) (e : E) : st :=
    mkSt e (c_cur s) (c_des s) (c_stop s) (c_connack s) (c_disc s) (c_err s) (c_start s) (c_bo s) (c_timeout s).
  Definition set_cur (s : st) (c : cstate) : st :=
    mkSt (c_eng s) c (c_des s) (c_stop s) (c_connack s) (c_disc s) (c_err s) (c_start s) (c_bo s) (c_timeout s).
  Definition set_des (s : st) (c : cstate) : st :=
    mkSt (c_eng s) (c_cur s) c (c_stop s) (c_connack s) (c_disc s) (c_err s) (c_start s) (c_bo s) (c_timeout s).
  Definition set_stop (s : st) (x : stopshape) : st :=
    mkSt (c_eng s) (c_cur s) (c_des s) x (c_connack s) (c_disc s) (c_err s) (c_start s) (c_bo s) (c_timeout s).
  Definition set_connack (s : st) (x : option bool) : st :=
    mkSt (c_eng s) (c_cur s) (c_des s) (c_stop s) x (c_disc s) (c_err s) (c_start s) (c_bo s) (c_timeout s).
  Definition set_disc (s : st) (x : bool) : st :=
    mkSt (c_eng s) (c_cur s) (c_des s) (c_stop s) (c_connack s) x (c_err s) (c_start s) (c_bo s) (c_timeout s).
  Definition set_err (s : st) (x : option errkind) : st :=
    mkSt (c_eng s) (c_cur s) (c_des s) (c_stop s) (c_connack s) (c_disc s) x (c_start s) (c_bo s) (c_timeout s).
  Definition set_start (s : st) (x : option N) : st :=
    mkSt (c_eng s) (c_cur s) (c_des s) (c_stop s) (c_connack s) (c_disc s) (c_err s) x (c_bo s) (c_timeout s).
  Definition set_bo (s : st) (x : Backoff.st) : st :=
    mkSt (c_eng s) (c_cur s) (c_des s) (c_stop s) (c_connack s) (c_disc s) (c_err s) (c_start s) x (c_timeout s).

  (* MqttClientImpl::new (591-628) *)
  Definition init (e : E) (bc : Backoff.cfg) (timeout : N) : st :=
    mkSt e CStopped CStopped SNone None false None None (Backoff.init bc) timeout.

  (* apply_error (658-664): the first error wins *)
  Definition apply_error (s : st) (k : errkind) : st :=
    match c_err s with Some _ => s | None => set_err s (Some k) end.

  (* handle_incoming_operation (666-737) *)
  Definition handle_op (s : st) (now : N) (o : cop) : st :=
    match o with
    | OpUser u => set_eng s (e_user (c_eng s) now u)
    | OpStart => set_des (set_stop s SNone) CConnected
    | OpStop d =>
        let s1 := match d with Some pkt => set_eng s (e_disc (c_eng s) now pkt) | None => s end in
        (* fix d52fbbc: the DISCONNECT is only waited for when a connection is established AFTER it was submitted
           (otherwise the engine has just failed it by the offline-queue policy) *)
        let s2 := set_stop s1 (match d with
                               | Some _ => if etag_eqb (e_tag (c_eng s1)) TConnected then SDisc else SPlain
                               | None => SPlain end) in
        set_des (apply_error s2 EUserInitiatedDisconnect) CStopped
    | OpShutdown => set_des (set_eng s (e_reset (c_eng s) now)) CShutdown
    | OpListener => s
    end.

  (* dispatch_packet_events (739-771) *)
  Definition dispatch1 (now : N) (acc : st * list cev) (p : pevent) : st * list cev :=
    let (s, evs) := acc in
    match p with
    | PePublish => (s, evs ++ [EvPublish])
    | PeDisconnect => (set_disc s true, evs)
    | PeConnack ok =>
        let s1 := set_connack s (Some ok) in
        if ok then (set_bo s1 (fst (Backoff.step (c_bo s1) (Success now))), evs ++ [EvSuccess])
        else (s1, evs)
    end.
  Definition dispatch (s : st) (now : N) (pes : list pevent) : st * list cev :=
    fold_left (dispatch1 now) pes (s, []).

  (* handle_incoming_bytes (773-785): the events are dispatched whatever the result *)
  Definition handle_incoming_bytes (s : st) (now : N) (data : bytes) : st * list cev * outcome unit :=
    match e_data (c_eng s) now data with
    | (e', pes, r) => let (s1, evs) := dispatch (set_eng s e') now pes in (s1, evs, r)
    end.

  (* handle_write_completion (787-797), handle_service (799-808) *)
  Definition handle_write_completion (s : st) (now : N) : st * outcome unit :=
    let (e', r) := e_wc (c_eng s) now in (set_eng s e', r).
  Definition handle_service (s : st) (now fill : N) : st * bytes * outcome unit :=
    match e_service (c_eng s) now fill with (e', out, r) => (set_eng s e', out, r) end.

  (* get_next_connected_service_time (880-886) *)
  Definition next_service_time (s : st) (now : N) : option N :=
    if cstate_eqb (c_cur s) CConnected then e_nst (c_eng s) now else None.

  (* advance_reconnect_period (828-840): Client/Backoff.v *)
  Definition advance_reconnect_period (s : st) (j : N) : st * N :=
    let (b, w) := Backoff.advance (c_bo s) j in (set_bo s b, w).

  Definition compute_optional_state_transition (s : st) : option cstate :=
    cost (c_cur s) (c_des s) (c_stop s).

  (* emit_connection_failure_event (906-917), emit_disconnection_event (919-930): last_error is TAKEN *)
  Definition emit_failure (s : st) : st * list cev :=
    (set_err s None,
     [EvFailure (match c_err s with Some k => k | None => EConnectionEstablishmentFailure end)
                (match c_connack s with Some _ => true | None => false end)]).
  Definition emit_disconnection (s : st) : st * list cev :=
    (set_err s None,
     [EvDisconnection (match c_err s with Some k => k | None => EConnectionClosed end) (c_disc s)]).

  (* reset_state_for_new_connection (939-947) *)
  Definition reset_for_new_connection (s : st) (now : N) : st * list cev :=
    (set_start (set_disc (set_connack (set_err (set_stop s SNone) None) None) false) (Some now), [EvAttempt]).

  (* the two short-circuits (970-976) *)
  Definition effective_target (s : st) (target : cstate) : cstate :=
    let n1 := if cstate_eqb target CPendingReconnect && negb (cstate_eqb (c_des s) CConnected) then CStopped else target in
    if cstate_eqb n1 CStopped && cstate_eqb (c_des s) CShutdown then CShutdown else n1.

  (* transition_to_state (949-1037) *)
  Definition transition (s : st) (now : N) (target : cstate) : st * list cev * outcome unit :=
    let old := c_cur s in
    if cstate_eqb old target then (s, [], Ok tt) else
    let nw := effective_target s target in
    (* engine notification; `?` returns before anything else happened *)
    let notified : st * outcome unit :=
      if cstate_eqb nw CConnected then
        match c_start s with
        | None => (s, Panic 981)                                   (* last_start_connect_time.unwrap() *)
        | Some t0 =>
            match add_saturating 981 t0 (c_timeout s) with
            | Ok deadline => let (e', r) := e_opened (c_eng s) now deadline in (set_eng s e', r)
            | Err k => (s, Err k)
            | Panic site => (s, Panic site)
            end
        end
      else if cstate_eqb old CConnected then
        let (e', r) := e_closed (c_eng s) now in (set_eng s e', r)
      else (s, Ok tt) in
    match snd notified with
    | Err k => (fst notified, [], Err k)
    | Panic site => (fst notified, [], Panic site)
    | Ok _ =>
        let s1 := fst notified in
        let (s2, ev2) := if cstate_eqb nw CConnecting then reset_for_new_connection s1 now else (s1, []) in
        let (s3, ev3) := if cstate_eqb old CConnecting && negb (cstate_eqb nw CConnected)
                         then emit_failure s2 else (s2, []) in
        let (s4, ev4) :=
          if cstate_eqb old CConnected then
            let (sa, eva) := match c_connack s3 with
                             | Some true => emit_disconnection s3
                             | _ => emit_failure s3
                             end in
            (set_bo sa (fst (Backoff.step (c_bo sa) (ConnEnd now))), eva)
          else (s3, []) in
        let (s5, ev5) := if cstate_eqb nw CStopped then (set_stop s4 SNone, [EvStopped]) else (s4, []) in
        (set_cur s5 nw, ev2 ++ ev3 ++ ev4 ++ ev5, Ok tt)
    end.

End Client.

Arguments OpUser {U D} u.
Arguments OpStart {U D}.
Arguments OpStop {U D} d.
Arguments OpShutdown {U D}.
Arguments OpListener {U D}.
Arguments mkSt {E} _ _ _ _ _ _ _ _ _ _.
Arguments c_eng {E} _.
Arguments c_cur {E} _.
Arguments c_des {E} _.
Arguments c_stop {E} _.
Arguments c_connack {E} _.
Arguments c_disc {E} _.
Arguments c_err {E} _.
Arguments c_start {E} _.
Arguments c_bo {E} _.
Arguments c_timeout {E} _.
Arguments set_eng {E} _ _.
Arguments set_cur {E} _ _.
Arguments set_des {E} _ _.
Arguments set_stop {E} _ _.
Arguments set_err {E} _ _.
Arguments set_connack {E} _ _.
Arguments set_disc {E} _ _.
Arguments set_start {E} _ _.
Arguments set_bo {E} _ _.
Arguments apply_error {E} _ _.
Arguments compute_optional_state_transition {E} _.
Arguments effective_target {E} _ _.
Arguments init {E} _ _ _.

(* ---- the transition table as data: what the exhaustive theorem and the table tie talk about ---- *)
Definition cost_domain : list (cstate * cstate * stopshape) :=
  flat_map (fun c => flat_map (fun d => map (fun s => (c, d, s)) all_stopshapes) all_cstates) all_cstates.
Definition cost_table : list (option cstate) := map (fun '(c, d, s) => cost c d s) cost_domain.

(* Specification of the table, written independently of the code's case analysis:
   the client moves towards its desired state whenever the current state allows leaving:
   - Stopped leaves only for Connecting (desired Connected) or Shutdown (desired Shutdown);
   - an attempt / a back-off wait / a connection is abandoned as soon as the desired state is
     not Connected — EXCEPT a live connection whose stop request carries a DISCONNECT packet,
     which waits for that packet to be flushed (the engine then ends the connection);
   - Shutdown is never left. *)
Definition cost_spec (cur des : cstate) (stop : stopshape) : option cstate :=
  match cur, des with
  | CShutdown, _ => None
  | CStopped, CConnected => Some CConnecting
  | CStopped, CShutdown => Some CShutdown
  | CStopped, _ => None
  | _, CConnected => None
  | CConnected, _ => match stop with SDisc => None | _ => Some CStopped end
  | _, _ => Some CStopped
  end.
