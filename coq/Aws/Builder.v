(* Model of the AWS IoT builder glue, gneiss-mqtt-aws/src/lib.rs (line numbers of the pinned tree):
     AwsCustomAuthOptionsBuilder::build_query_params   438-461
     AwsCustomAuthOptionsBuilder::build                464-479
     AwsClientBuilder::build_final_connect_options     813-833
     apply_aws_defaults                                864-879
   and of the two option structures of gneiss-mqtt/src/client/config.rs it rewrites
   (ConnectOptions 502-531, MqttClientOptions 909-925), field for field in declaration order.
   Transcribes what the code DOES (e.g. the token key and value are inserted raw).  The client-id rule
   is the one of /repo commit cf4ca1c (an empty user-supplied client id counts as absent; before
   that fix `Some("")` was kept — D19, regression case in corpus/C20). *)
From Coq Require Import Strings.String Strings.Ascii.
From GM Require Import Base.Prelude Codec.Packets Aws.UrlEncode.
Open Scope N_scope.

Definition bytes_of_string (s : string) : bytes := map (fun a => N_of_ascii a) (list_ascii_of_string s).

(* lib.rs 343-344 *)
Definition NAME_PARAM : bytes := Eval vm_compute in bytes_of_string "x-amz-customauthorizer-name".
Definition SIG_PARAM : bytes := Eval vm_compute in bytes_of_string "x-amz-customauthorizer-signature".

(* ---- custom authentication (lib.rs 386-480) ---- *)

(* The builder's state as reachable through its public constructors: new_unsigned sets only the
   name; new_signed sets signature, token key name and token key value together. *)
Record auth_input := {
  a_name : option bytes;
  a_signed : option (bytes * bytes * bytes);   (* signature, token key name, token key value *)
  a_user : option bytes;                       (* with_username *)
  a_pass : option bytes }.                     (* with_password *)

(* 446-451: encode unless the signature contains '%' *)
Definition final_sig (s : bytes) : bytes := if contains PCT s then s else enc s.

Definition param (k v : bytes) : bytes := k ++ [EQS] ++ v.          (* format!("{}={}", k, v) *)

Definition build_query_params (a : auth_input) : list bytes :=
  (match a_name a with Some n => [param NAME_PARAM n] | None => [] end) ++
  (match a_signed a with
   | Some (sg, k, v) => [param SIG_PARAM (final_sig sg); param k v]
   | None => []
   end).

(* Vec<String>::join *)
Fixpoint join (sep : bytes) (l : list bytes) : bytes :=
  match l with
  | [] => []
  | [x] => x
  | x :: r => x ++ sep ++ join sep r
  end.

Definition opt_bytes (o : option bytes) : bytes := match o with Some b => b | None => [] end.

Definition query_of (a : auth_input) : bytes := join [AMP] (build_query_params a).

(* 464-479 *)
Definition build_username (a : auth_input) : bytes := opt_bytes (a_user a) ++ [QM] ++ query_of a.

(* AwsCustomAuthOptions { username, password } *)
Definition build_auth (a : auth_input) : bytes * option bytes := (build_username a, a_pass a).

(* ---- ConnectOptions (config.rs 502-531) ---- *)

Inductive rejoin := PostSuccess | Always | Never.

Record connect_options := {
  co_keep_alive : option N;
  co_rejoin : rejoin;
  co_client_id : option bytes;
  co_username : option bytes;
  co_password : option bytes;
  co_sei : option N;
  co_rri : option bool;
  co_rpi : option bool;
  co_receive_max : option N;
  co_tam : option N;
  co_max_packet : option N;
  co_will_delay : option N;
  co_will : option publish;
  co_up : option (list user_property) }.

(* ConnectOptionsBuilder::with_username / with_password / with_client_id (config.rs 657-676) *)
Definition with_username (o : connect_options) (u : bytes) : connect_options :=
  {| co_keep_alive := co_keep_alive o; co_rejoin := co_rejoin o; co_client_id := co_client_id o;
     co_username := Some u; co_password := co_password o; co_sei := co_sei o; co_rri := co_rri o;
     co_rpi := co_rpi o; co_receive_max := co_receive_max o; co_tam := co_tam o;
     co_max_packet := co_max_packet o; co_will_delay := co_will_delay o; co_will := co_will o;
     co_up := co_up o |}.

Definition with_password (o : connect_options) (p : bytes) : connect_options :=
  {| co_keep_alive := co_keep_alive o; co_rejoin := co_rejoin o; co_client_id := co_client_id o;
     co_username := co_username o; co_password := Some p; co_sei := co_sei o; co_rri := co_rri o;
     co_rpi := co_rpi o; co_receive_max := co_receive_max o; co_tam := co_tam o;
     co_max_packet := co_max_packet o; co_will_delay := co_will_delay o; co_will := co_will o;
     co_up := co_up o |}.

Definition with_client_id (o : connect_options) (c : bytes) : connect_options :=
  {| co_keep_alive := co_keep_alive o; co_rejoin := co_rejoin o; co_client_id := Some c;
     co_username := co_username o; co_password := co_password o; co_sei := co_sei o; co_rri := co_rri o;
     co_rpi := co_rpi o; co_receive_max := co_receive_max o; co_tam := co_tam o;
     co_max_packet := co_max_packet o; co_will_delay := co_will_delay o; co_will := co_will o;
     co_up := co_up o |}.

(* build_final_connect_options (lib.rs 813-833).  [uuid] is the value uuid::Uuid::new_v4().to_string()
   returns when it is called (an oracle: the theorems only assume it is non-empty); [auth] is the
   builder's custom_auth_options (username, password). *)
Definition final_connect_options (uuid : bytes) (auth : option (bytes * option bytes))
           (o : connect_options) : connect_options :=
  let is_auto_assigned :=                                  (* 814: client_id().as_ref().map_or(true, |id| id.is_empty()) *)
    match co_client_id o with None => true | Some [] => true | Some (_ :: _) => false end in
  let o1 :=
    match auth with
    | Some (u, p) =>
      let o' := with_username o u in                                                         (* 818 *)
      match p with Some pw => with_password o' pw | None => o' end                           (* 819-821 *)
    | None => o
    end in
  if is_auto_assigned then with_client_id o1 uuid else o1.                                   (* 827-830 *)

(* ConnectOptionsBuilder::new (config.rs 598-617): what build_tokio / build_threaded start from
   when the user registered no connect options *)
Definition default_connect_options : connect_options :=
  {| co_keep_alive := Some 1200; co_rejoin := PostSuccess; co_client_id := None; co_username := None;
     co_password := None; co_sei := None; co_rri := None; co_rpi := None; co_receive_max := None;
     co_tam := None; co_max_packet := None; co_will_delay := None; co_will := None; co_up := None |}.

(* ---- MqttClientOptions (config.rs 909-925) ---- *)

Inductive offline_policy := PreserveAll | PreserveAcknowledged | PreserveQos1PlusPublishes | PreserveNothing.
Inductive jitter := JitterNone | JitterUniform.
Inductive drain_policy := DrainNone | OneAtATime.

Record client_options := {
  cl_offline : offline_policy;
  cl_connect_timeout : N;          (* nanoseconds *)
  cl_ping_timeout : N;
  cl_resolver : option N;          (* outbound alias resolver factory: identity of the Arc only *)
  cl_jitter : jitter;
  cl_base : N;
  cl_max : N;
  cl_stability : N;
  cl_protocol : version;
  cl_drain : option drain_policy;
  cl_retries : option N }.

Definition is_none {A} (o : option A) : bool := match o with None => true | Some _ => false end.

(* with_post_reconnect_queue_drain_policy(OneAtATime).with_max_interrupted_retries(2) (lib.rs 871-875) *)
Definition with_aws_defaults (o : client_options) : client_options :=
  {| cl_offline := cl_offline o; cl_connect_timeout := cl_connect_timeout o; cl_ping_timeout := cl_ping_timeout o;
     cl_resolver := cl_resolver o; cl_jitter := cl_jitter o; cl_base := cl_base o; cl_max := cl_max o;
     cl_stability := cl_stability o; cl_protocol := cl_protocol o;
     cl_drain := Some OneAtATime; cl_retries := Some 2 |}.

(* lib.rs 864-879 *)
Definition defaults_apply (o : client_options) : bool :=
  version_eqb (cl_protocol o) V311 && is_none (cl_drain o) && is_none (cl_retries o).

Definition apply_aws_defaults (o : client_options) : client_options :=
  if defaults_apply o then with_aws_defaults o else o.

(* MqttClientOptionsBuilder::new (config.rs 980-993) *)
Definition default_client_options : client_options :=
  {| cl_offline := PreserveAcknowledged; cl_connect_timeout := 30000000000; cl_ping_timeout := 10000000000;
     cl_resolver := None; cl_jitter := JitterUniform; cl_base := 1000000000; cl_max := 120000000000;
     cl_stability := 30000000000; cl_protocol := V5; cl_drain := None; cl_retries := None |}.

(* ---- the whole builder: what build_tokio / build_threaded hand to the client builder
        (lib.rs 730-752 / 782-804) ---- *)
Definition aws_build (uuid : bytes) (auth : option auth_input)
           (user_connect : option connect_options) (user_client : option client_options)
  : connect_options * client_options :=
  (final_connect_options uuid (option_map build_auth auth)
     (match user_connect with Some o => o | None => default_connect_options end),
   apply_aws_defaults (match user_client with Some o => o | None => default_client_options end)).

(* ---- vocabulary of the C20 statements ---- *)

(* the (key, value) pairs a configuration stands for; [sigv] is the signature's value *)
Definition raw_pairs (a : auth_input) (sigv : bytes) : list (bytes * bytes) :=
  (match a_name a with Some n => [(NAME_PARAM, n)] | None => [] end) ++
  (match a_signed a with
   | Some (_, k, v) => [(SIG_PARAM, sigv); (k, v)]
   | None => []
   end).

(* authorizer name, token key name and token key value can stand in a query string as they are *)
Definition auth_safe (a : auth_input) : bool :=
  (match a_name a with Some n => query_safe n | None => true end) &&
  (match a_signed a with Some (_, k, v) => query_safe k && query_safe v | None => true end).

(* weaker requirement matching the crate's documentation ("authorizer name and token key name must be
   valid URI-encoded values"): name and key are themselves well-formed query text without & and =
   (escapes allowed); the token value, documented as arbitrary, must still be safe as it is *)
Definition uri_encoded (x : bytes) : bool := query_wf x && negb (contains AMP x) && negb (contains EQS x).
Definition auth_encoded (a : auth_input) : bool :=
  (match a_name a with Some n => uri_encoded n | None => true end) &&
  (match a_signed a with Some (_, k, v) => uri_encoded k && query_safe v | None => true end).

(* the configured signature [sg] is the raw base64 text [s] or its percent-encoding *)
Definition sig_is (a : auth_input) (s : bytes) : Prop :=
  forall sg k v, a_signed a = Some (sg, k, v) -> base64 s = true /\ (sg = s \/ sg = enc s).

(* ---- executable monitors of the property, evaluated on the IMPLEMENTATION's outputs ---- *)

Definition bytes_eqb (a b : bytes) : bool :=
  (length a =? length b)%nat && forallb (fun p => fst p =? snd p) (combine a b).

Definition pairs_eqb (a b : list (bytes * bytes)) : bool :=
  (length a =? length b)%nat &&
  forallb (fun p => bytes_eqb (fst (fst p)) (fst (snd p)) && bytes_eqb (snd (fst p)) (snd (snd p))) (combine a b).

Fixpoint strip_prefix (p s : bytes) : option bytes :=
  match p, s with
  | [], _ => Some s
  | x :: p', y :: s' => if x =? y then strip_prefix p' s' else None
  | _ :: _, [] => None
  end.

(* the pairs the username's query string must decode to: authorizer name and token key name are
   documented as caller-URI-encoded (judged after decoding); the signature's logical value
   [sig_logical] is the raw base64 text; the token value is documented as arbitrary (judged raw) *)
Definition expected_pairs (a : auth_input) (sig_logical : bytes) : list (bytes * bytes) :=
  (match a_name a with Some n => [(NAME_PARAM, pct_decode n)] | None => [] end) ++
  (match a_signed a with
   | Some (_, k, v) => [(SIG_PARAM, sig_logical); (pct_decode k, v)]
   | None => []
   end).

Definition monitor_username (a : auth_input) (sig_logical : bytes) (username : bytes) : bool :=
  match strip_prefix (opt_bytes (a_user a) ++ [QM]) username with
  | None => false
  | Some q => query_wf q && pairs_eqb (parse_query q) (expected_pairs a sig_logical)
  end.

Definition monitor_client_id (user : option bytes) (final : option bytes) : bool :=
  match final with
  | None | Some [] => false
  | Some c => match user with Some (x :: u) => bytes_eqb (x :: u) c | _ => true end
  end.
