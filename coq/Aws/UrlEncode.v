(* Percent-encoding as done by the `urlencoding` crate (v2.1.3, enc.rs `encode_into`), which
   gneiss-mqtt-aws applies to an unencoded custom-auth signature, and the reference decoder /
   query-string parser the C20 statements are written against.

   encode: every byte except ASCII alphanumerics and - . _ ~ becomes %XX, XX upper-case hex.
   The single-byte table of the compiled crate (256 entries) is compared with [enc_byte] on every
   check run (driver area c20, command AWSENCTABLE). *)
From GM Require Import Base.Prelude.
Open Scope N_scope.

Definition PCT : N := 37.   (* % *)
Definition AMP : N := 38.   (* & *)
Definition EQS : N := 61.   (* = *)
Definition QM  : N := 63.   (* ? *)

Definition between (lo hi b : N) : bool := (lo <=? b) && (b <=? hi).
Definition is_digit (b : N) : bool := between 48 57 b.
Definition is_upper (b : N) : bool := between 65 90 b.
Definition is_lower (b : N) : bool := between 97 122 b.

(* enc.rs: matches!(c, b'0'..=b'9' | b'A'..=b'Z' | b'a'..=b'z' | b'-' | b'.' | b'_' | b'~') *)
Definition unreserved (b : N) : bool :=
  is_digit b || is_upper b || is_lower b || (b =? 45) || (b =? 46) || (b =? 95) || (b =? 126).

(* enc.rs to_hex_digit: upper-case *)
Definition hex_digit (n : N) : N := if n <? 10 then 48 + n else 55 + n.

Definition enc_byte (b : N) : bytes :=
  if unreserved b then [b] else [PCT; hex_digit (b / 16); hex_digit (b mod 16)].

Definition enc (s : bytes) : bytes := flat_map enc_byte s.

(* the regenerated table is compared with this list *)
Definition enc_table : list bytes := map (fun i => enc_byte (N.of_nat i)) (seq 0 256).

(* ---- reference decoder (RFC 3986 percent-decoding; `+` is literal; malformed escapes are kept
        literally, as urlencoding::decode and most servers do) ---- *)
Definition hex_val (c : N) : option N :=
  if is_digit c then Some (c - 48)
  else if between 65 70 c then Some (c - 55)
  else if between 97 102 c then Some (c - 87)
  else None.

Fixpoint pct_decode (s : bytes) : bytes :=
  match s with
  | [] => []
  | c :: rest =>
    if c =? PCT then
      match rest with
      | h :: l :: rest' =>
        match hex_val h, hex_val l with
        | Some a, Some b => (16 * a + b) :: pct_decode rest'
        | _, _ => c :: pct_decode rest
        end
      | _ => c :: pct_decode rest
      end
    else c :: pct_decode rest
  end.

(* ---- query strings ---- *)

(* split at every occurrence of [sep]; never returns the empty list *)
Fixpoint split_on (sep : N) (s : bytes) : list bytes :=
  match s with
  | [] => [[]]
  | c :: rest =>
    if c =? sep then [] :: split_on sep rest
    else match split_on sep rest with
         | [] => [[c]]                       (* unreachable *)
         | x :: xs => (c :: x) :: xs
         end
  end.

(* split at the first occurrence of [sep] *)
Fixpoint split_first (sep : N) (s : bytes) : bytes * option bytes :=
  match s with
  | [] => ([], None)
  | c :: rest =>
    if c =? sep then ([], Some rest)
    else let (a, b) := split_first sep rest in (c :: a, b)
  end.

(* key/value pairs of a query string, undecoded: pairs separated by &, key and value by the first = *)
Definition split_query (q : bytes) : list (bytes * bytes) :=
  match q with
  | [] => []
  | _ => map (fun p => match split_first EQS p with
                       | (k, Some v) => (k, v)
                       | (k, None) => (k, [])
                       end) (split_on AMP q)
  end.

Definition parse_query (q : bytes) : list (bytes * bytes) :=
  map (fun kv => (pct_decode (fst kv), pct_decode (snd kv))) (split_query q).

(* RFC 3986: query = *( pchar / "/" / "?" ), pchar = unreserved / pct-encoded / sub-delims / ":" / "@" *)
Definition mem_n (b : N) (l : list N) : bool := existsb (N.eqb b) l.
Definition sub_delim (b : N) : bool := mem_n b [33; 36; 38; 39; 40; 41; 42; 43; 44; 59; 61].  (* ! $ & ' ( ) * + , ; = *)
Definition qchar (b : N) : bool := unreserved b || sub_delim b || mem_n b [58; 64; 47; 63].   (* : @ / ? *)
Definition is_hex (c : N) : bool := match hex_val c with Some _ => true | None => false end.

Fixpoint query_wf (s : bytes) : bool :=
  match s with
  | [] => true
  | c :: rest =>
    if c =? PCT then
      match rest with
      | h :: l :: rest' => is_hex h && is_hex l && query_wf rest'
      | _ => false
      end
    else qchar c && query_wf rest
  end.

(* a value that can stand in a query string as it is and decodes to itself: query characters
   other than & and = (and, not being query characters, no % # space control or non-ASCII bytes) *)
Definition safe_char (b : N) : bool := qchar b && negb (b =? AMP) && negb (b =? EQS).
Definition query_safe (v : bytes) : bool := forallb safe_char v.

(* base64 alphabet incl. padding: A-Z a-z 0-9 + / = *)
Definition base64_char (b : N) : bool := is_digit b || is_upper b || is_lower b || (b =? 43) || (b =? 47) || (b =? 61).
Definition base64 (s : bytes) : bool := forallb base64_char s.

Definition contains (b : N) (s : bytes) : bool := existsb (N.eqb b) s.
