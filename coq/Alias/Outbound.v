(* Outbound topic-alias resolvers of gneiss-mqtt/src/alias.rs:98-254, transcribed line by line.

   NullOutboundAliasResolver 91-111, ManualOutboundAliasResolver 114-172,
   LruOutboundAliasResolver 174-254.

   The `lru` crate's LruCache<String,u16> is modelled as an association list, most recently used
   entry FIRST (so the least recently used entry is the LAST element); only the operations the
   resolver uses are modelled: peek / promote / push / pop_lru / peek_lru / len / clear.
   The model of the crate is checked against the real crate by the C17r correspondence.

   HashMap<u16,String> of the manual resolver: association list, at most one entry per key
   (insert removes the old entry first); only `get`, `insert`, `clear` are used, so the order of
   the list is unobservable. *)
From GM Require Import Base.Prelude Base.Outcome Codec.Packets Codec.Prim.
Open Scope N_scope.

Inductive resolver_kind := RNull | RManual | RLru (max : N).

(* ---- byte-string equality (String == / HashMap key equality) ---- *)
Fixpoint bytes_eqb (a b : bytes) : bool :=
  match a, b with
  | [], [] => true
  | x :: a', y :: b' => (x =? y) && bytes_eqb a' b'
  | _, _ => false
  end.

(* ---- HashMap<u16, String> ---- *)
Definition amap := list (N * bytes).
Fixpoint amap_get (m : amap) (k : N) : option bytes :=
  match m with
  | [] => None
  | (k', v) :: m' => if k' =? k then Some v else amap_get m' k
  end.
Definition amap_remove (m : amap) (k : N) : amap := filter (fun e => negb (fst e =? k)) m.
Definition amap_insert (m : amap) (k : N) (v : bytes) : amap := (k, v) :: amap_remove m k.

(* ---- lru::LruCache<String, u16>, MRU first ---- *)
Definition lru := list (bytes * N).

(* LruCache::peek: value of the key, recency order untouched *)
Fixpoint lru_peek (c : lru) (k : bytes) : option N :=
  match c with
  | [] => None
  | (k', v) :: c' => if bytes_eqb k' k then Some v else lru_peek c' k
  end.
Definition lru_remove (c : lru) (k : bytes) : lru := filter (fun e => negb (bytes_eqb (fst e) k)) c.
(* LruCache::promote: move the entry to the MRU position if the key is present *)
Definition lru_promote (c : lru) (k : bytes) : lru :=
  match lru_peek c k with
  | Some v => (k, v) :: lru_remove c k
  | None => c
  end.
(* LruCache::pop_lru: remove the LRU (= last) entry *)
Definition lru_pop_lru (c : lru) : lru := removelast c.
(* LruCache::peek_lru *)
Definition lru_peek_lru (c : lru) : option (bytes * N) :=
  match c with [] => None | _ => Some (last c ([], 0)) end.
(* LruCache::push (capacity cap >= 1): an existing key is updated and promoted; otherwise, when
   the cache is full the LRU entry is evicted, and the new entry becomes the MRU *)
Definition lru_push (cap : N) (c : lru) (k : bytes) (v : N) : lru :=
  match lru_peek c k with
  | Some _ => (k, v) :: lru_remove c k
  | None => if len c =? cap then (k, v) :: lru_pop_lru c else (k, v) :: c
  end.

(* ---- resolver state ---- *)
Inductive ores :=
| ONull
| OManual (maximum_alias_value : N) (current_aliases : amap)
| OLru (current_maximum_alias_value maximum_alias_value : N) (cache : lru).

(* constructors: Null::new 95, Manual::new 122-127, Lru::new 181-187 *)
Definition ores_init (k : resolver_kind) : ores :=
  match k with
  | RNull => ONull
  | RManual => OManual 0 []
  | RLru m => OLru 0 m []
  end.

(* the cache capacity: NonZeroUsize::new(u16::max(1, maximum_alias_value)) 185 *)
Definition lru_capacity (maximum_alias_value : N) : N := N.max 1 maximum_alias_value.

(* reset_for_new_connection: 104, 159-162, 229-232 *)
Definition ores_reset (s : ores) (max_aliases : N) : ores :=
  match s with
  | ONull => ONull
  | OManual _ _ => OManual max_aliases []
  | OLru _ conf _ => OLru (N.min conf max_aliases) conf []
  end.

(* ManualOutboundAliasResolver::resolve_topic_alias 129-150 *)
Definition manual_resolve_topic_alias (maximum_alias_value : N) (m : amap) (alias : option N) (topic : bytes) : resolution :=
  match alias with
  | Some alias_value =>
      let existing_matches :=
        match amap_get m alias_value with
        | Some existing_alias => bytes_eqb existing_alias topic
        | None => false
        end in
      if existing_matches then {| r_skip_topic := true; r_alias := Some alias_value |}
      else if (0 <? alias_value) && (alias_value <? maximum_alias_value)     (* sic: `<`, not `<=` (line 142) *)
      then {| r_skip_topic := false; r_alias := Some alias_value |}
      else no_resolution
  | None => no_resolution
  end.

(* LruOutboundAliasResolver::resolve_topic_alias 189-221 (after fix 10d5c82 of D22: the recycle
   condition is `self.cache.len() >= self.current_maximum_alias_value as usize`; before the fix it
   was `alias_value > current_maximum` with alias_value = `(len + 1) as u16`, which wrapped to 0
   for len = 65535).  The candidate is still computed as `(self.cache.len() + 1) as u16`. *)
Definition lru_resolve_topic_alias (cur : N) (c : lru) (topic : bytes) : outcome resolution :=
  if cur =? 0 then Ok {| r_skip_topic := false; r_alias := None |}
  else match lru_peek c topic with
  | Some alias_value => Ok {| r_skip_topic := true; r_alias := Some alias_value |}
  | None =>
      let alias_value := u16 (len c + 1) in
      if cur <=? len c then
        match lru_peek_lru c with
        | Some (_, recycled_alias) => Ok {| r_skip_topic := false; r_alias := Some recycled_alias |}
        | None => Panic 40                       (* panic!("Illegal state in LRU ...") line 211 *)
        end
      else Ok {| r_skip_topic := false; r_alias := Some alias_value |}
  end.

(* resolve_and_apply_topic_alias: 106-110, 164-172, 234-253 *)
Definition ores_resolve (s : ores) (alias : option N) (topic : bytes) : outcome (ores * resolution) :=
  match s with
  | ONull => Ok (ONull, no_resolution)
  | OManual mx m =>
      let resolution := manual_resolve_topic_alias mx m alias topic in
      match r_alias resolution with
      | Some resolved_alias =>
          if negb (r_skip_topic resolution)
          then Ok (OManual mx (amap_insert m resolved_alias topic), resolution)
          else Ok (s, resolution)
      | None => Ok (s, resolution)
      end
  | OLru cur conf c =>
      do resolution <- lru_resolve_topic_alias cur c topic;
      match r_alias resolution with
      | None => Ok (s, resolution)
      | Some resolved_alias =>
          if r_skip_topic resolution then Ok (OLru cur conf (lru_promote c topic), resolution)
          else
            let c1 := if len c =? cur then lru_pop_lru c else c in
            Ok (OLru cur conf (lru_push (lru_capacity conf) c1 topic resolved_alias), resolution)
      end
  end.
