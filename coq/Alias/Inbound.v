(* InboundAliasResolver of gneiss-mqtt/src/alias.rs:256-296.  HashMap<u16,String> as in
   Alias/Outbound.v (association list, one entry per key). *)
From GM Require Import Base.Prelude Base.Outcome Codec.Packets Alias.Outbound.
Open Scope N_scope.

Record ires := { i_maximum_alias_value : N; i_current_aliases : amap }.

(* InboundAliasResolver::new 263-268 *)
Definition ires_init (max : N) : ires := {| i_maximum_alias_value := max; i_current_aliases := [] |}.

(* reset_for_new_connection 270-272 *)
Definition ires_reset (s : ires) : ires :=
  {| i_maximum_alias_value := i_maximum_alias_value s; i_current_aliases := [] |}.

(* resolve_topic_alias 274-295: the topic is an in-out parameter; the result is the topic after
   the call *)
Definition ires_resolve (s : ires) (alias : option N) (topic : bytes) : outcome (ires * bytes) :=
  match alias with
  | Some alias_value =>
      match topic with
      | [] =>
          match amap_get (i_current_aliases s) alias_value with
          | Some existing_topic => Ok (s, existing_topic)
          | None => Err EInvalidInboundTopicAlias
          end
      | _ =>
          if (alias_value =? 0) || (i_maximum_alias_value s <? alias_value)
          then Err EInvalidInboundTopicAlias
          else Ok ({| i_maximum_alias_value := i_maximum_alias_value s;
                      i_current_aliases := amap_insert (i_current_aliases s) alias_value topic |}, topic)
      end
  | None => Ok (s, topic)
  end.
