(* The engine model instantiated with the codec / validation / alias models. *)
From GM Require Import Base.Prelude Base.Outcome Codec.Packets Codec.Settings Codec.Steps Codec.ImplEncode
  Codec.Framing Alias.Outbound Alias.Inbound Validate.Rules Engine.Model.
Open Scope N_scope.

Definition enc := list Steps.step.
Definition enc_done (e : enc) : bool := match e with [] => true | _ => false end.

Definition istate := state enc decoder ores ires.

(* ProtocolState::new (414-451): the inbound resolver is sized by the CONNECT's topic alias maximum *)
Definition i_init (cfg : config) (k : resolver_kind) : istate :=
  init enc decoder decoder_init ores ires (ores_init k)
       (ires_init (match co_tam (cf_connect cfg) with Some m => m | None => 0 end)).

Definition i_step (cfg : config) : istate -> event -> istate * output :=
  Model.step enc impl_steps encode_call enc_done decoder decoder_init decode_bytes
       ores ores_reset ores_resolve ires ires_reset ires_resolve
       validate_outbound_internal validate_inbound_internal cfg.

Definition i_run (cfg : config) : istate -> list event -> istate * list output :=
  Model.run enc impl_steps encode_call enc_done decoder decoder_init decode_bytes
      ores ores_reset ores_resolve ires ires_reset ires_resolve
      validate_outbound_internal validate_inbound_internal cfg.
