(* Observation of an engine run at the level the properties talk about: the client->server packet
   stream decoded by the independent wire specification, the server->client packets, submissions,
   completions, surfaced packets, outcomes and reported service times — in order, with the
   virtual clock.  The same function is applied (after extraction) to the MODEL's run and to
   the IMPLEMENTATION's run, so the monitors of Engine/Monitors.v see both through the same eyes. *)
From GM Require Import Base.Prelude Base.Outcome Codec.Packets Codec.Prim Codec.Settings Codec.SpecDecodeC2S Codec.Framing
  Engine.Model.
Open Scope N_scope.

(* what the monitors may look at in the bookkeeping after each call (facade snapshot) *)
Record snap := mkSnap {
  sn_st : pstate;
  sn_pwc : bool;
  sn_cur : option N;
  sn_ops : list N;                 (* ids of incomplete operations *)
  sn_alloc : list (N * N);         (* packet id -> operation id *)
  sn_ppub : list (N * N);
  sn_pnon : list (N * N);
  sn_uq : list N; sn_rq : list N; sn_hq : list N; sn_pwco : list N;
  sn_q2in : list N;
  sn_next_pid : N;
  sn_ss_count : N;
  sn_next_ping : option N;
  sn_ping_to : option N;
  sn_tmo : N }.                    (* number of armed ack-timeout records *)

Definition snap_of {enc dec ores ires} (s : state enc dec ores ires) : snap :=
  mkSnap (s_st s) (s_pwc s) (s_cur s) (map fst (s_ops s)) (s_alloc s) (s_ppub s) (s_pnon s)
         (s_uq s) (s_rq s) (s_hq s) (s_pwco s) (s_q2in s) (s_next_pid s) (s_ss_count s) (s_next_ping s) (s_ping_to s) (len (s_tmo s)).

Record entry := mkEntry { e_ev : event; e_out : output; e_snap : snap }.

Inductive wev :=
| WOpen (now : N)
| WClose (now : N) (r : outcome unit)
| WReset (now : N)
| WSubmit (now id : N) (p : packet) (timeout : option N)
| WSent (now : N) (p : packet) (owner : option N)   (* owner: operation bound to the packet's id after the call *)
| WRecv (now : N) (p : packet)                      (* packet completed by a data call that returned Ok *)
| WRecvErr (now : N) (p : packet)                   (* packet completed by a data call that returned an error *)
| WDone (now id : N) (c : completion)
| WDeliver (now : N) (p : packet)
| WCall (now : N) (e : event) (r : outcome unit) (after : snap)   (* every entry-point call, after its effects *)
| WNst (now : N) (t : option N) (after : snap)
| WStray (now : N) (b : bytes).                     (* emitted bytes the wire specification cannot parse *)

Definition event_time (e : event) : N :=
  match e with
  | EvUser now _ _ | EvOpen now _ | EvClose now | EvData now _ | EvWriteComplete now
  | EvService now _ _ | EvNextService now | EvReset now => now
  end.

Definition packet_pid (p : packet) : option N :=
  match p with
  | Publish pb => if pub_qos pb =? 0 then None else Some (pub_pid pb)
  | Puback a | Pubrec a | Pubrel a | Pubcomp a => Some (ack_pid a)
  | Subscribe x => Some (s_pid x)
  | Unsubscribe x => Some (u_pid x)
  | Suback x => Some (sa_pid x)
  | Unsuback x => Some (ua_pid x)
  | _ => None
  end.

Definition owner_of (sn : snap) (p : packet) : option N :=
  match p with
  | Publish _ | Pubrel _ | Subscribe _ | Unsubscribe _ =>
      match packet_pid p with Some pid => lookup pid (sn_alloc sn) | None => None end
  | _ => None
  end.

(* frame boundary: first byte, Remaining Length (1-4 byte VBI), body; None if incomplete or the
   length field is malformed *)
Definition frame_length (buf : bytes) : option N :=
  match buf with
  | [] => None
  | _ :: r =>
      match Prim.decode_vli r with
      | Prim.VliValue v rest => Some (1 + (len r - len rest) + v)
      | _ => None
      end
  end.

(* one item of the outbound stream: a packet the wire specification accepts, or a complete frame
   it rejects *)
Inductive oitem := OPacket (p : packet) | OStray (frame : bytes).

(* decode as many complete client->server frames as the buffer holds *)
Fixpoint drain (fuel : nat) (v : version) (buf : bytes) (acc : list oitem) : list oitem * bytes :=
  match fuel with
  | O => (rev acc, buf)
  | S f =>
      match frame_length buf with
      | None => (rev acc, buf)
      | Some n =>
          if len buf <? n then (rev acc, buf) else
          let frame := Prim.take n buf in
          let rest := Prim.drop n buf in
          match spec_decode v frame with
          | Some (p, []) => drain f v rest (OPacket p :: acc)
          | _ => drain f v rest (OStray frame :: acc)
          end
      end
  end.

(* observation state: unparsed outbound bytes, inbound framing decoder *)
Record ostate := mkOstate { os_buf : bytes; os_dec : decoder }.

Definition observe_entry (v : version) (max_in : N) (os : ostate) (e : entry) : ostate * list wev :=
  let now := event_time (e_ev e) in
  let o := e_out e in
  let sn := e_snap e in
  let dones := map (fun '(id, c) => WDone now id c) (o_done o) in
  let delivers := map (fun p => WDeliver now p) (o_events o) in
  match e_ev e with
  | EvUser _ p t =>
      (os, (match o_id o with Some id => [WSubmit now id p t] | None => [] end) ++ dones ++ [WCall now (e_ev e) (o_res o) sn])
  | EvOpen _ _ => (mkOstate [] decoder_init, [WOpen now] ++ dones ++ [WCall now (e_ev e) (o_res o) sn])
  | EvClose _ => (mkOstate [] decoder_init, dones ++ [WCall now (e_ev e) (o_res o) sn; WClose now (o_res o)])
  | EvReset _ => (os, dones ++ [WCall now (e_ev e) (o_res o) sn; WReset now])
  | EvWriteComplete _ => (os, dones ++ [WCall now (e_ev e) (o_res o) sn])
  | EvNextService _ =>
      (os, match o_nst o with Some t => [WNst now t sn] | None => [WCall now (e_ev e) (o_res o) sn] end)
  | EvData _ data =>
      let '(d', ps, _) := decode_bytes v max_in (os_dec os) data in
      (mkOstate (os_buf os) d',
       map (fun p => match o_res o with Ok _ => WRecv now p | _ => WRecvErr now p end) ps
       ++ dones ++ delivers ++ [WCall now (e_ev e) (o_res o) sn])
  | EvService _ _ _ =>
      let buf := os_buf os ++ o_bytes o in
      let '(ps, rest) := drain (S (length buf)) v buf [] in
      (mkOstate rest (os_dec os),
       map (fun it => match it with OPacket p => WSent now p (owner_of sn p) | OStray fr => WStray now fr end) ps
       ++ dones ++ [WCall now (e_ev e) (o_res o) sn])
  end.

Fixpoint observe_from (v : version) (max_in : N) (os : ostate) (tr : list entry) : list wev :=
  match tr with
  | [] => []
  | e :: r => let (os', w) := observe_entry v max_in os e in w ++ observe_from v max_in os' r
  end.

Definition observe (cfg : config) (tr : list entry) : list wev :=
  observe_from (cf_version cfg)
               (match co_max_packet (cf_connect cfg) with Some m => m | None => 268435455 end)
               (mkOstate [] decoder_init) tr.

(* the model's own trace *)
Section ModelTrace.
  Context {enc dec ores ires : Type}.
  Variable stepf : state enc dec ores ires -> event -> state enc dec ores ires * output.
  Fixpoint trace_of (s : state enc dec ores ires) (h : list event) : list entry :=
    match h with
    | [] => []
    | e :: r => let (s', o) := stepf s e in mkEntry e o (snap_of s') :: trace_of s' r
    end.
End ModelTrace.
