(* Executable monitors: each property's wire-level statement as a boolean function of the
   observation (Engine/Observe.v).  The same extracted functions judge the model's run and the
   implementation's run.  A monitor returning false on the implementation's observation is a
   concrete failing input for the property. *)
From GM Require Import Base.Prelude Base.Outcome Codec.Packets Codec.Settings Engine.Model Engine.Observe Validate.Spec Codec.Framing.
Open Scope N_scope.

Definition is_okb {A} (o : outcome A) : bool := match o with Ok _ => true | _ => false end.
Definition is_panicb {A} (o : outcome A) : bool := match o with Panic _ => true | _ => false end.
Definition is_errb {A} (o : outcome A) : bool := match o with Err _ => true | _ => false end.

Definition isnil {A} (l : list A) : bool := match l with [] => true | _ => false end.
Fixpoint obytes_eqb_pre (a b : list N) : bool :=
  match a, b with
  | [], [] => true
  | x :: a', y :: b' => (x =? y) && obytes_eqb_pre a' b'
  | _, _ => false
  end.

(* ------------------------------------------------------------------ C02: everything emitted is a well-formed packet *)
Definition mon_no_stray (ws : list wev) : bool :=
  forallb (fun w => match w with WStray _ _ => false | _ => true end) ws.

(* ------------------------------------------------------------------ C11: no panic; errors absorb *)
Definition mon_no_panic (ws : list wev) : bool :=
  forallb (fun w => match w with
                    | WCall _ _ r _ => negb (is_panicb r)
                    | WClose _ r => negb (is_panicb r)
                    | _ => true end) ws.

(* closing a connection always succeeds and leaves the engine Disconnected (it was not
   Disconnected before: the drivers only close what they opened) *)
Fixpoint mon_close_clean (prev_st : pstate) (ws : list wev) : bool :=
  match ws with
  | [] => true
  | WCall _ (EvClose _) r sn :: rest =>
      (if pstate_eqb prev_st Disconnected then true
       else is_okb r && pstate_eqb (sn_st sn) Disconnected) && mon_close_clean (sn_st sn) rest
  | WCall _ _ _ sn :: rest => mon_close_clean (sn_st sn) rest
  | WNst _ _ sn :: rest => mon_close_clean (sn_st sn) rest
  | _ :: rest => mon_close_clean prev_st rest
  end.

(* after an error from a network / service call the engine is Halted (or Disconnected) and emits
   nothing more on that connection *)
Fixpoint mon_error_absorbing (halted : bool) (ws : list wev) : bool :=
  match ws with
  | [] => true
  | WOpen _ :: rest => mon_error_absorbing false rest
  | WClose _ _ :: rest => mon_error_absorbing false rest
  | WSent _ _ _ :: rest => negb halted && mon_error_absorbing halted rest
  | WCall _ e r sn :: rest =>
      match e with
      | EvUser _ _ _ | EvReset _ | EvNextService _ => mon_error_absorbing halted rest
      | _ =>
          if is_errb r then
            (pstate_eqb (sn_st sn) Halted || pstate_eqb (sn_st sn) Disconnected) && mon_error_absorbing true rest
          else mon_error_absorbing halted rest
      end
  | _ :: rest => mon_error_absorbing halted rest
  end.

(* ------------------------------------------------------------------ C01: exactly-once completion *)
Fixpoint mon_unique_completion (submitted done : list N) (ws : list wev) : bool :=
  match ws with
  | [] => true
  | WSubmit _ id _ _ :: rest => mon_unique_completion (id :: submitted) done rest
  | WDone _ id _ :: rest => mem id submitted && negb (mem id done) && mon_unique_completion submitted (id :: done) rest
  | _ :: rest => mon_unique_completion submitted done rest
  end.

(* own acknowledgement: a success carries the ack type of the operation's kind, for the packet id
   the operation was last sent with, and one reason code per requested entry *)
Definition ack_matches (p : packet) (last_pid : option N) (c : completion) : bool :=
  match c with
  | CompErr _ => true
  | CompOk None => match p with Publish pb => pub_qos pb =? 0 | _ => false end
  | CompOk (Some a) =>
      match p, a with
      | Publish pb, Puback x => (pub_qos pb =? 1) && (match last_pid with Some q => q =? ack_pid x | None => false end)
      | Publish pb, Pubcomp x => (pub_qos pb =? 2) && (match last_pid with Some q => q =? ack_pid x | None => false end)
      | Publish pb, Pubrec x => (pub_qos pb =? 2) && (128 <=? ack_rc x) && (match last_pid with Some q => q =? ack_pid x | None => false end)
      | Subscribe s, Suback x => (len (sa_codes x) =? len (s_subs s)) && (match last_pid with Some q => q =? sa_pid x | None => false end)
      | Unsubscribe u, Unsuback x => (len (ua_codes x) =? len (u_filters u)) && (match last_pid with Some q => q =? ua_pid x | None => false end)
      | _, _ => false
      end
  end.

(* ops: id -> (submitted packet, packet id it was last sent with) *)
Fixpoint mon_own_ack (ops : list (N * (packet * option N))) (ws : list wev) : bool :=
  match ws with
  | [] => true
  | WSubmit _ id p _ :: rest => mon_own_ack (insert id (p, None) ops) rest
  | WSent _ p (Some id) :: rest =>
      mon_own_ack (update id (fun '(sp, _) => (sp, packet_pid p)) ops) rest
  | WDone _ id c :: rest =>
      (match lookup id ops with Some (p, lp) => ack_matches p lp c | None => false end) && mon_own_ack ops rest
  | _ :: rest => mon_own_ack ops rest
  end.

(* never silently dropped: after every call each incomplete operation is tracked in at least one place
   (an intake queue, the current operation, a pending table) - an operation that exists but is tracked
   nowhere can never be sent, acknowledged or failed *)
Definition mon_tracked (ws : list wev) : bool :=
  forallb (fun w => match w with
                    | WCall _ _ r sn =>
                        if is_panicb r then true else
                        forallb (fun id => mem id (sn_uq sn) || mem id (sn_rq sn) || mem id (sn_hq sn) || mem id (sn_pwco sn)
                                           || mem id (map snd (sn_ppub sn)) || mem id (map snd (sn_pnon sn))
                                           || (match sn_cur sn with Some c => c =? id | None => false end)) (sn_ops sn)
                    | _ => true end) ws.

(* after reset nothing stays tracked *)
Definition mon_reset_clears (ws : list wev) : bool :=
  forallb (fun w => match w with
                    | WCall _ (EvReset _) _ sn =>
                        isnil (sn_ops sn) && isnil (sn_alloc sn) && isnil (sn_ppub sn) && isnil (sn_pnon sn)
                        && isnil (sn_uq sn) && isnil (sn_rq sn) && isnil (sn_hq sn) && isnil (sn_pwco sn)
                        && (match sn_cur sn with None => true | Some _ => false end)
                    | _ => true end) ws.

(* ------------------------------------------------------------------ C04: QoS 1/2 delivery protocol *)
Inductive pubst :=
| PNotSent                  (* never transmitted in the current session *)
| PSent (pid : N)           (* PUBLISH transmitted on this connection *)
| PInterrupted (pid : N)    (* transmitted earlier, connection lost *)
| PReleased (pid : N) (rel_sent : bool)   (* PUBREC received; rel_sent: PUBREL transmitted on this connection *)
| PReleasedOff (pid : N)    (* PUBREC received, connection lost *)
| PDone
| PAny.                     (* the server misbehaved for this message: no further judgement *)

Record c04 := mkC04 { c4_ops : list (N * pubst); c4_session : bool (* last CONNACK on this connection reported a session *) }.

Definition c04_close (st : pubst) : pubst :=
  match st with
  | PSent pid => PInterrupted pid
  | PReleased pid _ => PReleasedOff pid
  | x => x
  end.
(* a CONNACK without session: everything starts over *)
Definition c04_nosession (st : pubst) : pubst :=
  match st with PInterrupted _ | PReleasedOff _ => PNotSent | x => x end.

Fixpoint find_by_pid (pid : N) (l : list (N * pubst)) : option N :=
  match l with
  | [] => None
  | (id, PSent q) :: r | (id, PReleased q _) :: r => if q =? pid then Some id else find_by_pid pid r
  | _ :: r => find_by_pid pid r
  end.

Fixpoint mon_c04 (s : c04) (ws : list wev) : bool :=
  match ws with
  | [] => true
  | WSubmit _ id (Publish pb) _ :: rest =>
      if pub_qos pb =? 0 then mon_c04 s rest else mon_c04 (mkC04 (insert id PNotSent (c4_ops s)) (c4_session s)) rest
  | WClose _ _ :: rest => mon_c04 (mkC04 (map (fun '(id, st) => (id, c04_close st)) (c4_ops s)) false) rest
  | WReset _ :: rest => mon_c04 (mkC04 [] false) rest
  | WRecv _ (Connack c) :: rest =>
      if ca_rc c =? 0 then
        if ca_session_present c then mon_c04 (mkC04 (c4_ops s) true) rest
        else mon_c04 (mkC04 (map (fun '(id, st) => (id, c04_nosession st)) (c4_ops s)) false) rest
      else mon_c04 s rest
  | WSent _ (Publish pb) (Some id) :: rest =>
      if pub_qos pb =? 0 then mon_c04 s rest else
      match lookup id (c4_ops s) with
      | Some PNotSent => negb (pub_dup pb) && mon_c04 (mkC04 (insert id (PSent (pub_pid pb)) (c4_ops s)) (c4_session s)) rest
      | Some (PInterrupted pid) =>
          c4_session s && pub_dup pb && (pid =? pub_pid pb) && mon_c04 (mkC04 (insert id (PSent pid) (c4_ops s)) (c4_session s)) rest
      | Some PAny => mon_c04 s rest
      | _ => false        (* repeated within a connection, after PUBREC, or after completion *)
      end
  | WSent _ (Pubrel a) (Some id) :: rest =>
      match lookup id (c4_ops s) with
      | Some (PReleased pid false) => (pid =? ack_pid a) && mon_c04 (mkC04 (insert id (PReleased pid true) (c4_ops s)) (c4_session s)) rest
      | Some (PReleasedOff pid) => c4_session s && (pid =? ack_pid a) && mon_c04 (mkC04 (insert id (PReleased pid true) (c4_ops s)) (c4_session s)) rest
      | Some PAny => mon_c04 s rest
      | _ => false
      end
  | WRecv _ (Pubrec a) :: rest =>
      match find_by_pid (ack_pid a) (c4_ops s) with
      | Some id =>
          match lookup id (c4_ops s) with
          | Some (PSent pid) => if ack_rc a <? 128 then mon_c04 (mkC04 (insert id (PReleased pid false) (c4_ops s)) (c4_session s)) rest
                                else mon_c04 s rest
          | Some (PReleased _ _) => mon_c04 (mkC04 (insert id PAny (c4_ops s)) (c4_session s)) rest   (* duplicate PUBREC *)
          | _ => mon_c04 s rest
          end
      | None => mon_c04 s rest
      end
  | WDone _ id _ :: rest => mon_c04 (mkC04 (match lookup id (c4_ops s) with Some _ => insert id PDone (c4_ops s) | None => c4_ops s end) (c4_session s)) rest
  | _ :: rest => mon_c04 s rest
  end.

(* ------------------------------------------------------------------ C06: packet identifiers *)
(* inflight: packet id -> operation that currently holds it on the wire *)
Fixpoint mon_c06 (inflight : list (N * N)) (ws : list wev) : bool :=
  match ws with
  | [] => true
  | WSent _ p owner :: rest =>
      match p with
      | Publish _ | Subscribe _ | Unsubscribe _ =>
          match packet_pid p with
          | None => mon_c06 inflight rest                 (* QoS 0 *)
          | Some pid =>
              negb (pid =? 0) &&
              match owner with
              | None => mon_c06 inflight rest              (* owner unknown: the operation completed within the same call *)
              | Some id =>
                  (match lookup pid inflight with Some other => other =? id | None => true end)
                  && mon_c06 (insert pid id inflight) rest
              end
          end
      | _ => mon_c06 inflight rest
      end
  | WDone _ id _ :: rest => mon_c06 (filter (fun '(_, o) => negb (o =? id)) inflight) rest
  | WRecv _ (Connack c) :: rest =>
      if (ca_rc c =? 0) && negb (ca_session_present c) then mon_c06 [] rest else mon_c06 inflight rest
  | WReset _ :: rest => mon_c06 [] rest
  | WCall _ _ _ sn :: rest =>
      (* no leak: nothing reserved once no operation is incomplete *)
      (if isnil (sn_ops sn) then isnil (sn_alloc sn) else true) && mon_c06 inflight rest
  | _ :: rest => mon_c06 inflight rest
  end.

(* a retransmission reuses the identifier of the original: [sent] = operation -> packet id its PUBLISH was
   last completely transmitted with in the current session; a DUP publish and the PUBREL of that
   operation must carry the same identifier *)
Fixpoint mon_c06_retx (sent : list (N * N)) (ws : list wev) : bool :=
  match ws with
  | [] => true
  | WSent _ (Publish pb) (Some id) :: rest =>
      if pub_qos pb =? 0 then mon_c06_retx sent rest
      else (if pub_dup pb then match lookup id sent with Some pid => pid =? pub_pid pb | None => true end else true)
           && mon_c06_retx (insert id (pub_pid pb) sent) rest
  | WSent _ (Pubrel a) (Some id) :: rest =>
      match lookup id sent with Some pid => pid =? ack_pid a | None => true end && mon_c06_retx sent rest
  | WDone _ id _ :: rest => mon_c06_retx (filter (fun '(o, _) => negb (o =? id)) sent) rest
  | WRecv _ (Connack c) :: rest =>
      if (ca_rc c =? 0) && negb (ca_session_present c) then mon_c06_retx [] rest else mon_c06_retx sent rest
  | WReset _ :: rest => mon_c06_retx [] rest
  | _ :: rest => mon_c06_retx sent rest
  end.

(* an identifier stays reserved as long as its operation is incomplete: [pubs] = packet id -> operation for
   QoS>0 publishes completely transmitted in the current session and not completed; after every call the
   reservation table still gives that identifier to that operation (subscribes / unsubscribes restart
   with a fresh identifier after a reconnect, so only publishes are judged) *)
Fixpoint mon_c06_reserved (pubs : list (N * N)) (ws : list wev) : bool :=
  match ws with
  | [] => true
  | WSent _ (Publish pb) (Some id) :: rest =>
      if pub_qos pb =? 0 then mon_c06_reserved pubs rest
      else mon_c06_reserved (insert (pub_pid pb) id (filter (fun '(_, o) => negb (o =? id)) pubs)) rest
  | WDone _ id _ :: rest => mon_c06_reserved (filter (fun '(_, o) => negb (o =? id)) pubs) rest
  | WRecv _ (Connack c) :: rest =>
      if (ca_rc c =? 0) && negb (ca_session_present c) then mon_c06_reserved [] rest else mon_c06_reserved pubs rest
  | WReset _ :: rest => mon_c06_reserved [] rest
  | WCall _ _ r sn :: rest =>
      (if is_panicb r then true else
       forallb (fun '(pid, id) => if mem id (sn_ops sn) then match lookup pid (sn_alloc sn) with Some o => o =? id | None => false end else true) pubs)
      && mon_c06_reserved pubs rest
  | _ :: rest => mon_c06_reserved pubs rest
  end.

(* every identifier on the wire is a RESERVED one: an id-bearing packet whose identifier is not in the reservation table after
   the call that emitted it must be explained by an operation that completed during that same call (a completion releases
   the id); [unowned] / [dones] count the unexplained sends and the completions of the current call (observation order
   within a call: sends, completions, the call record).  An operation that keeps a stale identifier after the table was
   cleared (session lost) and is then retransmitted with it is caught at that transmission, long before the allocator
   wraps around and hands the same identifier to a second operation. *)
Fixpoint mon_c06_sent_reserved (unowned dones : N) (ws : list wev) : bool :=
  match ws with
  | [] => true
  | WSent _ p None :: rest =>
      match p with
      | Publish _ | Subscribe _ | Unsubscribe _ =>
          match packet_pid p with
          | Some _ => mon_c06_sent_reserved (unowned + 1) dones rest
          | None => mon_c06_sent_reserved unowned dones rest
          end
      | _ => mon_c06_sent_reserved unowned dones rest
      end
  | WDone _ _ _ :: rest => mon_c06_sent_reserved unowned (dones + 1) rest
  | WCall _ _ r _ :: rest => (is_panicb r || (unowned <=? dones)) && mon_c06_sent_reserved 0 0 rest
  | _ :: rest => mon_c06_sent_reserved unowned dones rest
  end.

(* ------------------------------------------------------------------ C07: handshake discipline *)
(* phase: 0 = nothing sent yet on this connection, 1 = CONNECT sent, 2 = successful CONNACK
   processed, 3 = DISCONNECT sent, 4 = not connected *)
Fixpoint mon_c07 (phase : N) (ws : list wev) : bool :=
  match ws with
  | [] => true
  | WOpen _ :: rest => mon_c07 0 rest
  | WClose _ _ :: rest => mon_c07 4 rest
  | WSent _ p _ :: rest =>
      match p with
      | Connect _ => (phase =? 0) && mon_c07 1 rest
      | Disconnect _ => (phase =? 2) && mon_c07 3 rest
      | _ => (phase =? 2) && mon_c07 phase rest
      end
  | WStray _ _ :: rest => if phase =? 0 then mon_c07 1 rest else mon_c07 phase rest   (* judged by C02 *)
  | WCall _ (EvData _ _) r sn :: rest =>
      if (phase =? 1) && pstate_eqb (sn_st sn) Connected then mon_c07 2 rest else mon_c07 phase rest
  | _ :: rest => mon_c07 phase rest
  end.

(* the CONNECT on the wire reflects the configured options: every field the protocol version carries
   equals the option; clean start follows the rejoin policy and the connection history ([cb] = a
   CONNACK was accepted since the last reset); a configured client id is used verbatim *)
Definition oN_eqb (a b : option N) : bool :=
  match a, b with Some x, Some y => x =? y | None, None => true | _, _ => false end.
Definition obool_eqb (a b : option bool) : bool :=
  match a, b with Some x, Some y => Bool.eqb x y | None, None => true | _, _ => false end.
Definition olist_eqb (a b : option (list N)) : bool :=
  match a, b with Some x, Some y => obytes_eqb_pre x y | None, None => true | _, _ => false end.
Definition connect_faithful (v5 : bool) (o : connect_opts) (cb : bool) (c : connect) : bool :=
  let e := to_connect_packet o cb in
  (con_keep_alive c =? con_keep_alive e) && Bool.eqb (con_clean_start c) (con_clean_start e) &&
  match co_client_id o with Some i => olist_eqb (con_client_id c) (Some i) | None => true end &&
  olist_eqb (con_username c) (con_username e) && olist_eqb (con_password c) (con_password e) &&
  match con_will c, con_will e with
  | Some w, Some w' => obytes_eqb_pre (pub_topic w) (pub_topic w') && (pub_qos w =? pub_qos w') && Bool.eqb (pub_retain w) (pub_retain w') &&
                       olist_eqb (pub_payload w) (pub_payload w')
  | None, None => true
  | _, _ => false
  end &&
  (if v5 then
     oN_eqb (con_sei c) (con_sei e) && obool_eqb (con_rri c) (con_rri e) && obool_eqb (con_rpi c) (con_rpi e) &&
     oN_eqb (con_receive_max c) (con_receive_max e) && oN_eqb (con_tam c) (con_tam e) && oN_eqb (con_max_packet c) (con_max_packet e) &&
     oN_eqb (con_will_delay c) (con_will_delay e) && olist_eqb (con_auth_method c) None
   else true).
Fixpoint mon_c07_faithful (v5 : bool) (o : connect_opts) (cb : bool) (ws : list wev) : bool :=
  match ws with
  | [] => true
  | WSent _ (Connect c) _ :: rest => connect_faithful v5 o cb c && mon_c07_faithful v5 o cb rest
  | WRecv _ (Connack c) :: rest => mon_c07_faithful v5 o (cb || (ca_rc c =? 0)) rest
  | WReset _ :: rest => mon_c07_faithful v5 o false rest
  | _ :: rest => mon_c07_faithful v5 o cb rest
  end.

(* the engine is Connected only after a successful CONNACK was fed to it on this connection *)
Fixpoint mon_c07_connected (seen_connack : bool) (ws : list wev) : bool :=
  match ws with
  | [] => true
  | WOpen _ :: rest => mon_c07_connected false rest
  | WRecv _ (Connack c) :: rest => mon_c07_connected (seen_connack || (ca_rc c =? 0)) rest
  | WCall _ _ _ sn :: rest =>
      (if pstate_eqb (sn_st sn) Connected then seen_connack else true) && mon_c07_connected seen_connack rest
  | _ :: rest => mon_c07_connected seen_connack rest
  end.

(* ------------------------------------------------------------------ C08: service-time contract *)
(* no lost wake-up (state form): whenever the engine can produce output right now — a current
   operation with bytes left or a non-empty high-priority queue, no write pending, connection
   in a servicing state — the reported time is not later than now *)
Definition mon_c08_wakeup (ws : list wev) : bool :=
  forallb (fun w => match w with
                    | WNst now t sn =>
                        if (pstate_eqb (sn_st sn) PendingConnack || pstate_eqb (sn_st sn) Connected)
                           && negb (sn_pwc sn)
                           && ((match sn_cur sn with Some _ => true | None => false end) || negb (isnil (sn_hq sn)))
                        then match t with Some t' => t' <=? now | None => false end
                        else true
                    | _ => true end) ws.

(* timers honoured: the reported next service time is never later than a deadline the engine is known
   to hold: the CONNACK deadline given at open (PendingConnack), the PINGRESP deadline and (unless a write
   is pending) the next ping time of the snapshot (Connected), and w + T for every still incomplete
   operation whose acknowledged packet was completely written on this connection at w with ack timeout T
   (Connected / PendingDisconnect); "never" counts as later than everything *)
Definition le_opt (r : option N) (bound : N) : bool := match r with Some t => t <=? bound | None => false end.
Fixpoint mon_c08_timers (cdl : option N) (tmo : list (N * N)) (written : list (N * N)) (ws : list wev) : bool :=
  match ws with
  | [] => true
  | WSubmit _ id _ (Some d) :: rest => mon_c08_timers cdl (insert id d tmo) written rest
  | WCall _ (EvOpen _ d) _ _ :: rest => mon_c08_timers (Some d) tmo [] rest
  | WClose _ _ :: rest => mon_c08_timers None tmo [] rest
  | WReset _ :: rest => mon_c08_timers None [] [] rest
  | WSent now p (Some id) :: rest =>
      match p, packet_pid p with
      | Publish _, Some _ | Subscribe _, Some _ | Unsubscribe _, Some _ | Pubrel _, Some _ => mon_c08_timers cdl tmo ((id, now) :: written) rest
      | _, _ => mon_c08_timers cdl tmo written rest
      end
  | WDone _ id _ :: rest => mon_c08_timers cdl tmo (filter (fun '(i, _) => negb (i =? id)) written) rest
  | WNst _ r sn :: rest =>
      let acks := forallb (fun '(id, w) => match lookup id tmo with
                                           | Some d => if (d <? 4611686018427387904) && mem id (sn_ops sn) then le_opt r (w + d) else true
                                           | None => true end) written in
      (match sn_st sn with
       | PendingConnack => match cdl with Some d => le_opt r d | None => true end
       | Connected =>
           match sn_ping_to sn with Some p => le_opt r p | None => true end &&
           (if sn_pwc sn then true else match sn_next_ping sn with Some n => le_opt r n | None => true end) && acks
       | PendingDisconnect => acks
       | _ => true
       end) && mon_c08_timers cdl tmo written rest
  | _ :: rest => mon_c08_timers cdl tmo written rest
  end.

(* no idle spinning: "service me now" followed by a service call at that instant which changes
   nothing *)
Fixpoint mon_c08_spin (pending : option (N * snap)) (ws : list wev) : bool :=
  match ws with
  | [] => true
  | WNst now (Some t) sn :: rest => if t <=? now then mon_c08_spin (Some (now, sn)) rest else mon_c08_spin None rest
  | WSent _ _ _ :: rest => mon_c08_spin None rest
  | WDone _ _ _ :: rest => mon_c08_spin None rest
  | WCall now (EvService _ _ fill) r sn :: rest =>
      match pending with
      | Some (t0, sn0) =>
          (if (t0 =? now) && is_okb r then
             negb (pstate_eqb (sn_st sn) (sn_st sn0) && Bool.eqb (sn_pwc sn) (sn_pwc sn0)
                   && (len (sn_hq sn) =? len (sn_hq sn0)) && (len (sn_uq sn) =? len (sn_uq sn0))
                   && (len (sn_rq sn) =? len (sn_rq sn0)) && (len (sn_ops sn) =? len (sn_ops sn0))
                   && (match sn_cur sn, sn_cur sn0 with None, None => true | Some a, Some b => a =? b | _, _ => false end)
                   && (len (sn_pwco sn) =? len (sn_pwco sn0)) && (sn_tmo sn =? sn_tmo sn0)
                   && (match sn_ping_to sn, sn_ping_to sn0 with None, None => true | Some a, Some b => a =? b | _, _ => false end))
             || negb (fill =? 0)
           else true) && mon_c08_spin None rest
      | None => mon_c08_spin None rest
      end
  | WCall _ _ _ _ :: rest => mon_c08_spin None rest
  | _ :: rest => mon_c08_spin pending rest
  end.

(* ------------------------------------------------------------------ C09: flow control *)
Fixpoint mon_c09_recvmax (limit : N) (ws : list wev) : bool :=
  match ws with
  | [] => true
  | WRecv _ (Connack c) :: rest =>
      if ca_rc c =? 0 then mon_c09_recvmax (match ca_receive_max c with Some m => m | None => 65535 end) rest
      else mon_c09_recvmax limit rest
  | WCall _ _ _ sn :: rest =>
      (if pstate_eqb (sn_st sn) Connected then len (sn_ppub sn) <=? limit else true) && mon_c09_recvmax limit rest
  | _ :: rest => mon_c09_recvmax limit rest
  end.

(* slow start: [interrupted] = operations that a disconnection of an ESTABLISHED connection caught
   sent-but-unacknowledged and that are still unresolved; while that set is non-empty at most one
   acknowledgement-requiring operation is outstanding *)
Fixpoint mon_c09_slowstart (established : bool) (last : snap) (interrupted : list N) (ws : list wev) : bool :=
  match ws with
  | [] => true
  | WOpen _ :: rest => mon_c09_slowstart false last interrupted rest
  | WDone _ id _ :: rest => mon_c09_slowstart established last (filter (fun x => negb (x =? id)) interrupted) rest
  | WReset _ :: rest => mon_c09_slowstart false last [] rest
  | WCall _ (EvClose _) _ sn :: rest =>
      let caught := if established then map snd (sn_ppub last) ++ map snd (sn_pnon last) else [] in
      mon_c09_slowstart false sn (filter (fun id => mem id (sn_ops sn)) (caught ++ interrupted)) rest
  | WCall _ _ _ sn :: rest =>
      let est := established || pstate_eqb (sn_st sn) Connected in
      (if pstate_eqb (sn_st sn) Connected && negb (isnil interrupted)
       then len (sn_ppub sn) + len (sn_pnon sn) <=? 1 else true)
      && mon_c09_slowstart est sn interrupted rest
  | _ :: rest => mon_c09_slowstart established last interrupted rest
  end.

(* ------------------------------------------------------------------ C10: ordering *)
(* per connection: retransmissions (DUP publishes / resumed PUBRELs) in increasing operation id,
   then first transmissions in increasing operation id, retransmissions first *)
Fixpoint mon_c10 (seen : list N) (last_re last_first : N) (first_started : bool) (ws : list wev) : bool :=
  match ws with
  | [] => true
  | WOpen _ :: rest => mon_c10 [] 0 0 false rest
  | WSent _ p (Some id) :: rest =>
      if mem id seen then mon_c10 seen last_re last_first first_started rest else
      let retrans := match p with Publish pb => pub_dup pb | Pubrel _ => true | _ => false end in
      match p with
      | Publish _ | Subscribe _ | Unsubscribe _ | Pubrel _ =>
          if retrans then negb first_started && (last_re <? id) && mon_c10 (id :: seen) id last_first first_started rest
          else (last_first <? id) && mon_c10 (id :: seen) last_re id true rest
      | _ => mon_c10 seen last_re last_first first_started rest
      end
  | _ :: rest => mon_c10 seen last_re last_first first_started rest
  end.

(* ------------------------------------------------------------------ C14: keep-alive *)
(* keep-alive deadline arithmetic and failure, judged on the facade snapshot:
   - when a ping deadline is armed by a service call at time now it equals now + min(ping timeout, K/2)
     (K in seconds, so K/2 = K*500 ms), K being the negotiated keep-alive;
   - a keep-alive failure (ConnectionClosed from a service call while Connected) happens only at or
     after an armed deadline *)
Fixpoint mon_c14_deadline (cfg : config) (k : N) (prev_to : option N) (ws : list wev) : bool :=
  match ws with
  | [] => true
  | WOpen _ :: rest => mon_c14_deadline cfg 0 None rest
  | WRecv _ (Connack c) :: rest =>
      if ca_rc c =? 0 then
        let k' := match ca_server_keep_alive c with Some x => x | None => match co_keep_alive (cf_connect cfg) with Some x => x | None => 0 end end in
        mon_c14_deadline cfg k' prev_to rest
      else mon_c14_deadline cfg k prev_to rest
  | WCall now (EvService _ _ _) r sn :: rest =>
      (match r with
       | Err EConnectionClosed => match prev_to with Some t => t <=? now | None => false end
       | _ =>
           match prev_to, sn_ping_to sn with
           | None, Some t => t =? now + N.min (cf_ping_timeout cfg) (k * 500)
           | _, _ => true
           end
       end) && mon_c14_deadline cfg k (sn_ping_to sn) rest
  | WCall _ _ _ sn :: rest => mon_c14_deadline cfg k (sn_ping_to sn) rest
  | WNst _ _ sn :: rest => mon_c14_deadline cfg k (sn_ping_to sn) rest
  | _ :: rest => mon_c14_deadline cfg k prev_to rest
  end.

(* a PINGRESP delivered while a ping is outstanding clears the deadline: a live peer is not timed out *)
Fixpoint mon_c14_live (got_resp : bool) (ws : list wev) : bool :=
  match ws with
  | [] => true
  | WRecv _ Pingresp :: rest => mon_c14_live true rest
  | WCall _ (EvData _ _) r sn :: rest =>
      (if got_resp && is_okb r then match sn_ping_to sn with None => true | Some _ => false end else true) && mon_c14_live false rest
  | WCall _ _ _ _ :: rest => mon_c14_live false rest
  | _ :: rest => mon_c14_live got_resp rest
  end.

(* pings when needed, failure at the deadline (completeness half of the keep-alive contract), on the snapshots:
   [prev] = snapshot after the previous call; [last] = time of the CONNACK or of the latest complete
   transmission on this connection; [armed] = latest time a PINGRESP deadline was armed.
   - Connected with K > 0: a next ping time exists and is at most max(last, armed) + K s: the engine never
     plans to stay silent for more than K seconds after its latest transmission;
   - a successful service call at or after the planned ping time, with no ping outstanding, arms a PINGRESP
     deadline (the PINGREQ is queued);
   - a service call at or after an armed PINGRESP deadline fails the connection. *)
Fixpoint mon_c14_pings (cfg : config) (k : N) (prev : option snap) (last armed : N) (ws : list wev) : bool :=
  match ws with
  | [] => true
  | WOpen _ :: rest => mon_c14_pings cfg 0 prev 0 0 rest
  | WRecv now (Connack c) :: rest =>
      if ca_rc c =? 0 then
        let k' := match ca_server_keep_alive c with Some x => x | None => match co_keep_alive (cf_connect cfg) with Some x => x | None => 0 end end in
        mon_c14_pings cfg k' prev (N.max last now) armed rest
      else mon_c14_pings cfg k prev last armed rest
  | WSent now _ _ :: rest => mon_c14_pings cfg k prev (N.max last now) armed rest
  | WCall now e r sn :: rest =>
      let armed' := match prev with
                    | Some p => match sn_ping_to p, sn_ping_to sn with None, Some _ => now | _, _ => armed end
                    | None => armed end in
      (match e, prev with
       | EvService _ _ _, Some p =>
           if pstate_eqb (sn_st p) Connected then
             match sn_ping_to p with
             | Some pt => if pt <=? now then match r with Err EConnectionClosed => true | _ => false end else true
             | None =>
                 match sn_next_ping p with
                 | Some n => if (n <=? now) && is_okb r then match sn_ping_to sn with Some _ => true | None => false end else true
                 | None => true
                 end
             end
           else true
       | _, _ => true
       end) &&
      (if pstate_eqb (sn_st sn) Connected && (0 <? k) && is_okb r then
         match sn_next_ping sn with Some n => n <=? N.max last armed' + k * 1000 | None => false end
       else true) && mon_c14_pings cfg k (Some sn) last armed' rest
  | WNst _ _ sn :: rest => mon_c14_pings cfg k (Some sn) last armed rest
  | _ :: rest => mon_c14_pings cfg k prev last armed rest
  end.

(* with K = 0 no PINGREQ is ever sent *)
Fixpoint mon_c14_zero (cfg : config) (k : N) (ws : list wev) : bool :=
  match ws with
  | [] => true
  | WRecv _ (Connack c) :: rest =>
      if ca_rc c =? 0 then
        mon_c14_zero cfg (match ca_server_keep_alive c with Some x => x | None => match co_keep_alive (cf_connect cfg) with Some x => x | None => 0 end end) rest
      else mon_c14_zero cfg k rest
  | WSent _ Pingreq _ :: rest => negb (k =? 0) && mon_c14_zero cfg k rest
  | WOpen _ :: rest => mon_c14_zero cfg 1 rest            (* not negotiated yet on this connection *)
  | WCall _ (EvService _ _ _) r _ :: rest =>
      (* with K = 0 no keep-alive failure occurs (ConnectionClosed is the keep-alive failure of a service call) *)
      (if k =? 0 then match r with Err EConnectionClosed => false | _ => true end else true) && mon_c14_zero cfg k rest
  | WCall _ (EvClose _) r sn :: rest =>
      (* a keep-alive deadline never outlives its connection *)
      (if is_okb r then match sn_ping_to sn, sn_next_ping sn with None, None => true | _, _ => false end else true)
      && mon_c14_zero cfg k rest
  | _ :: rest => mon_c14_zero cfg k rest
  end.

(* ------------------------------------------------------------------ C15: offline policy *)
Fixpoint mon_c15 (policy : N) (ops : list (N * packet)) (ws : list wev) : bool :=
  match ws with
  | [] => true
  | WSubmit _ id p _ :: rest => mon_c15 policy (insert id p ops) rest
  | WDone _ id c :: rest =>
      (match c, lookup id ops with
       | CompErr EOfflineQueuePolicyFailed, Some p => negb (passes_policy policy p)
       | _, _ => true end) && mon_c15 policy ops rest
  | WCall _ (EvClose _) r sn :: rest =>
      (* after a close every retained user operation is of a preserved kind, or is an in-flight
         QoS>=1 publish waiting in the resubmit queue *)
      (if is_okb r then
         forallb (fun id => match lookup id ops with
                            | Some p => passes_policy policy p || mem id (sn_rq sn)
                            | None => true end) (sn_ops sn)
       else true) && mon_c15 policy ops rest
  | _ :: rest => mon_c15 policy ops rest
  end.

(* at submission: while no connection is established (the engine was not Connected when the call was
   made) an operation of a kind the policy rejects is failed with the offline-policy error within the
   submitting call; in every other case the submission is not failed for lack of a connection.
   [prev]: protocol state after the previous call; [pending]: the submission being judged and
   whether the offline-policy failure of that very operation has been seen in this call *)
Fixpoint mon_c15_submit (policy : N) (prev : pstate) (pending : option (N * packet * bool)) (ws : list wev) : bool :=
  match ws with
  | [] => true
  | WSubmit _ id p _ :: rest =>
      (* a DISCONNECT has no result channel: its fate is not observable as a completion *)
      mon_c15_submit policy prev (if is_disconnect p then None else Some (id, p, false)) rest
  | WDone _ id c :: rest =>
      match pending, c with
      | Some (id0, p, _), CompErr EOfflineQueuePolicyFailed =>
          if id0 =? id then mon_c15_submit policy prev (Some (id0, p, true)) rest else mon_c15_submit policy prev pending rest
      | _, _ => mon_c15_submit policy prev pending rest
      end
  | WCall _ (EvUser _ _ _) r sn :: rest =>
      (match pending with
       | Some (_, p, failed) =>
           if is_okb r then Bool.eqb failed (negb (pstate_eqb prev Connected) && negb (passes_policy policy p)) else true
       | None => true
       end) && mon_c15_submit policy (sn_st sn) None rest
  | WCall _ _ _ sn :: rest => mon_c15_submit policy (sn_st sn) None rest
  | WNst _ _ sn :: rest => mon_c15_submit policy (sn_st sn) pending rest
  | _ :: rest => mon_c15_submit policy prev pending rest
  end.

(* the mandated exception: a QoS 1/2 publish that was completely transmitted in the current session and is
   not completed is retained across disconnections; it meets the offline policy only when a CONNACK
   reports that the session is gone ([nosess]: such a CONNACK was accepted in the current call) *)
Fixpoint mon_c15_inflight (inflight : list N) (nosess : bool) (ws : list wev) : bool :=
  match ws with
  | [] => true
  | WSent _ (Publish pb) (Some id) :: rest =>
      if pub_qos pb =? 0 then mon_c15_inflight inflight nosess rest
      else mon_c15_inflight (if mem id inflight then inflight else id :: inflight) nosess rest
  | WRecv _ (Connack c) :: rest =>
      mon_c15_inflight inflight (nosess || ((ca_rc c =? 0) && negb (ca_session_present c))) rest
  | WDone _ id c :: rest =>
      (match c with
       | CompErr EOfflineQueuePolicyFailed => if mem id inflight then nosess else true
       | _ => true
       end) && mon_c15_inflight (filter (fun x => negb (x =? id)) inflight) nosess rest
  | WReset _ :: rest => mon_c15_inflight [] false rest
  | WCall _ _ _ _ :: rest => mon_c15_inflight (if nosess then [] else inflight) false rest
  | _ :: rest => mon_c15_inflight inflight nosess rest
  end.

(* ------------------------------------------------------------------ C16: server limits on the wire *)
(* what the last accepted CONNACK of this connection announced (specification defaults when absent) *)
Record caps := mkCaps { cp_maxqos : N; cp_retain : bool; cp_wildcard : bool; cp_shared : bool; cp_maxpkt : N }.
Definition caps_default : caps := mkCaps 2 true true true 268435460.
Definition caps_of (c : connack) : caps :=
  mkCaps (match ca_max_qos c with Some q => q | None => 2 end)
         (match ca_retain_avail c with Some b => b | None => true end)
         (match ca_wildcard c with Some b => b | None => true end)
         (match ca_shared c with Some b => b | None => true end)
         (match ca_max_packet c with Some m => m | None => 268435460 end).
(* size of a packet as it appears on the wire (MQTT 5): the decoded packet already carries the wire topic and alias *)
Definition wire_size (p : packet) : N :=
  spec_total_size p {| r_skip_topic := false; r_alias := match p with Publish pb => pub_alias pb | _ => None end |}.
Definition filter_allowed (c : caps) (f : bytes) : bool :=
  (if filter_has_wildcard f then cp_wildcard c else true) && (if spec_shared_filter f then cp_shared c else true).
(* nothing on the wire exceeds what the server announced: QoS, retain, wildcard / shared filters in a
   SUBSCRIBE, the Maximum Packet Size (MQTT 5), and the static list rules *)
Fixpoint mon_c16_wire (v5 : bool) (c : caps) (ws : list wev) : bool :=
  match ws with
  | [] => true
  | WOpen _ :: rest => mon_c16_wire v5 caps_default rest
  | WRecv _ (Connack k) :: rest => if ca_rc k =? 0 then mon_c16_wire v5 (caps_of k) rest else mon_c16_wire v5 c rest
  | WSent _ p _ :: rest =>
      (if v5 then match p with Connect _ => true | _ => wire_size p <=? cp_maxpkt c end else true) &&
      match p with
      | Publish pb => (pub_qos pb <=? cp_maxqos c) && (if pub_retain pb then cp_retain c else true)
      | Subscribe x => negb (isnil (s_subs x)) && forallb (fun sb => filter_allowed c (sub_filter sb)) (s_subs x)
      | Unsubscribe x => negb (isnil (u_filters x))
      | _ => true
      end && mon_c16_wire v5 c rest
  | _ :: rest => mon_c16_wire v5 c rest
  end.

(* ------------------------------------------------------------------ C17: outbound topic aliases *)
(* server-side table of the current connection: alias -> topic *)
Fixpoint mon_c17_out (v5 : bool) (maxalias : N) (table : list (N * bytes)) (subm : list (N * bytes)) (ws : list wev) : bool :=
  match ws with
  | [] => true
  | WSubmit _ id (Publish pb) _ :: rest => mon_c17_out v5 maxalias table (insert id (pub_topic pb) subm) rest
  | WOpen _ :: rest => mon_c17_out v5 0 [] subm rest
  | WRecv _ (Connack c) :: rest =>
      if ca_rc c =? 0 then mon_c17_out v5 (match ca_tam c with Some m => m | None => 0 end) [] subm rest
      else mon_c17_out v5 maxalias table subm rest
  | WSent _ (Publish pb) owner :: rest =>
      let expected := match owner with Some id => lookup id subm | None => None end in
      let same (t : bytes) := match expected with Some e => if list_eq_dec N.eq_dec e t then true else false | None => true end in
      match pub_alias pb with
      | None => negb (isnil (pub_topic pb)) && same (pub_topic pb) && mon_c17_out v5 maxalias table subm rest
      | Some a =>
          v5 && (1 <=? a) && (a <=? maxalias) &&
          match pub_topic pb with
          | [] => (match lookup a table with Some t => same t | None => false end) && mon_c17_out v5 maxalias table subm rest
          | t => same t && mon_c17_out v5 maxalias (insert a t table) subm rest
          end
      end
  | _ :: rest => mon_c17_out v5 maxalias table subm rest
  end.

(* ------------------------------------------------------------------ C18: ack timeouts, retry limit *)
(* written: id -> time its acknowledged packet was last completely written on this connection *)
(* [anon]: times of acknowledged packets sent on this connection whose owner is unknown because the
   operation completed within the same call (the snapshot no longer holds its packet id) *)
Fixpoint mon_c18_timeout (tmo : list (N * N)) (written : list (N * N)) (anon : list N) (ws : list wev) : bool :=
  match ws with
  | [] => true
  | WSubmit _ id _ (Some d) :: rest => mon_c18_timeout (insert id d tmo) written anon rest
  | WOpen _ :: rest => mon_c18_timeout tmo [] [] rest
  | WClose _ _ :: rest => mon_c18_timeout tmo [] [] rest
  | WSent now p owner :: rest =>
      match p, packet_pid p with
      | Publish _, Some _ | Subscribe _, Some _ | Unsubscribe _, Some _ | Pubrel _, Some _ =>
          match owner with
          | Some id => mon_c18_timeout tmo ((id, now) :: written) anon rest   (* every complete write (re)starts a timer *)
          | None => mon_c18_timeout tmo written (now :: anon) rest
          end
      | Publish _, None => mon_c18_timeout tmo written (now :: anon) rest   (* QoS 0: resolved at write completion *)
      | _, _ => mon_c18_timeout tmo written anon rest
      end
  | WDone now id c :: rest =>
      (match c with
       | CompErr EAckTimeout =>
           match lookup id tmo with
           | Some d =>
               (* never earlier than the deadline of one of its completely written packets *)
               existsb (fun '(i, w) => (i =? id) && (w + d <=? now)) written
               || (negb (existsb (fun '(i, _) => i =? id) written) && existsb (fun w => w + d <=? now) anon)
           | None => false                          (* no timeout configured *)
           end
       | _ => true end) && mon_c18_timeout tmo (filter (fun '(i, _) => negb (i =? id)) written) anon rest
  | _ :: rest => mon_c18_timeout tmo written anon rest
  end.

(* not later: a service call at time t that succeeds leaves no operation incomplete whose acknowledged
   packet was completely written on this connection at w with w + T <= t (the engine processes ack
   timeouts at the end of every successful service call in the Connected / PendingDisconnect states) *)
Fixpoint mon_c18_late (tmo : list (N * N)) (written : list (N * N)) (ws : list wev) : bool :=
  match ws with
  | [] => true
  | WSubmit _ id _ (Some d) :: rest => mon_c18_late (insert id d tmo) written rest
  | WOpen _ :: rest => mon_c18_late tmo [] rest
  | WClose _ _ :: rest => mon_c18_late tmo [] rest
  | WReset _ :: rest => mon_c18_late [] [] rest
  | WSent now p (Some id) :: rest =>
      match p, packet_pid p with
      | Publish _, Some _ | Subscribe _, Some _ | Unsubscribe _, Some _ | Pubrel _, Some _ => mon_c18_late tmo ((id, now) :: written) rest
      | _, _ => mon_c18_late tmo written rest
      end
  | WDone _ id _ :: rest => mon_c18_late tmo (filter (fun '(i, _) => negb (i =? id)) written) rest
  | WCall t (EvService _ _ _) r sn :: rest =>
      (if is_okb r && (pstate_eqb (sn_st sn) Connected || pstate_eqb (sn_st sn) PendingDisconnect) then
         forallb (fun '(id, w) => match lookup id tmo with
                                  | Some d => if w + d <=? t then negb (mem id (sn_ops sn)) else true
                                  | None => true end) written
       else true) && mon_c18_late tmo written rest
  | _ :: rest => mon_c18_late tmo written rest
  end.

(* interrupted-retry limit: failure with MaxInterruptedRetriesExceeded exactly at the (N+1)-th
   close that catches the operation unacknowledged *)
Fixpoint mon_c18_retry (limit : option N) (last : snap) (counts : list (N * N)) (ws : list wev) : bool :=
  match ws with
  | [] => true
  | WCall _ (EvClose _) _ sn :: rest =>
      let caught := map snd (sn_ppub last) ++ map snd (sn_pnon last) in
      let counts' := fold_left (fun c id => insert id (match lookup id c with Some n => n + 1 | None => 1 end) c) caught counts in
      mon_c18_retry limit sn counts' rest
  | WCall _ _ _ sn :: rest => mon_c18_retry limit sn counts rest
  | WNst _ _ sn :: rest => mon_c18_retry limit sn counts rest
  | WReset _ :: rest => mon_c18_retry limit last [] rest
  | WDone _ id c :: rest =>
      (* completions of a close are observed before the close's own snapshot: the interruption being
         counted is the one in progress, visible in the previous snapshot *)
      (match c with
       | CompErr EMaxInterruptedRetriesExceeded =>
           let caught_now := mem id (map snd (sn_ppub last) ++ map snd (sn_pnon last)) in
           let before := match lookup id counts with Some k => k | None => 0 end in
           match limit with
           | Some n => caught_now && (before + 1 =? n + 1)
           | None => false
           end
       | _ => true end) && mon_c18_retry limit last counts rest
  | _ :: rest => mon_c18_retry limit last counts rest
  end.

(* ------------------------------------------------------------------ C05: inbound publishes *)
(* owed: acknowledgements the client still owes on this connection, in arrival order *)
Inductive owed := OwPuback (pid : N) | OwPubrec (pid : N) | OwPubcomp (pid : N).
Definition owed_eqb (a b : owed) : bool :=
  match a, b with
  | OwPuback x, OwPuback y | OwPubrec x, OwPubrec y | OwPubcomp x, OwPubcomp y => x =? y
  | _, _ => false
  end.

(* acks leave in the order of what they answer; each answer is owed *)
Fixpoint mon_c05_acks (alive : bool) (owing : list owed) (ws : list wev) : bool :=
  match ws with
  | [] => true
  | WOpen _ :: rest => mon_c05_acks true [] rest
  | WClose _ _ :: rest => mon_c05_acks false [] rest
  | WCall _ (EvData _ _) r _ :: rest => mon_c05_acks (alive && is_okb r) owing rest
  | WRecv _ (Publish pb) :: rest =>
      if negb alive then mon_c05_acks alive owing rest
      else if pub_qos pb =? 1 then mon_c05_acks alive (owing ++ [OwPuback (pub_pid pb)]) rest
      else if pub_qos pb =? 2 then mon_c05_acks alive (owing ++ [OwPubrec (pub_pid pb)]) rest
      else mon_c05_acks alive owing rest
  | WRecv _ (Pubrel a) :: rest =>
      if alive then mon_c05_acks alive (owing ++ [OwPubcomp (ack_pid a)]) rest else mon_c05_acks alive owing rest
  | WSent _ (Puback a) _ :: rest =>
      match owing with o :: r => owed_eqb o (OwPuback (ack_pid a)) && mon_c05_acks alive r rest | [] => false end
  | WSent _ (Pubrec a) _ :: rest =>
      match owing with o :: r => owed_eqb o (OwPubrec (ack_pid a)) && mon_c05_acks alive r rest | [] => false end
  | WSent _ (Pubcomp a) _ :: rest =>
      match owing with o :: r => owed_eqb o (OwPubcomp (ack_pid a)) && mon_c05_acks alive r rest | [] => false end
  | _ :: rest => mon_c05_acks alive owing rest
  end.

(* QoS 2 exactly-once surfacing; QoS 0/1 surfaced each time, in wire order.
   [known]: QoS 2 packet ids received in the current session and not yet released by a PUBREL;
   [unsure]: ids touched by a data call that returned an error (the engine may have processed any
             prefix of that call's packets): not judged until the next PUBREL / session reset;
   [expect]: publishes received by the current data call that must be surfaced, in wire order
             (flag true = optional: surfacing it or not are both acceptable). *)
Fixpoint obytes_eqb (a b : list N) : bool :=
  match a, b with
  | [], [] => true
  | x :: a', y :: b' => (x =? y) && obytes_eqb a' b'
  | _, _ => false
  end.
Definition same_message (a b : publish) : bool :=
  (pub_qos a =? pub_qos b) && (pub_pid a =? pub_pid b) && Bool.eqb (pub_retain a) (pub_retain b) &&
  match pub_payload a, pub_payload b with
  | None, None => true
  | Some x, Some y => obytes_eqb x y
  | Some x, None => isnil x
  | None, Some y => isnil y
  end.
Definition memN (x : N) (l : list N) : bool := existsb (fun y => y =? x) l.
Definition dropN (x : N) (l : list N) : list N := filter (fun y => negb (y =? x)) l.
(* consume the expectation a surfaced publish answers: optional ones in front of it may be skipped *)
Fixpoint take_expected (p : publish) (expect : list (publish * bool)) : option (list (publish * bool)) :=
  match expect with
  | [] => None
  | (q, optional) :: r =>
      if same_message p q then Some r
      else if optional then take_expected p r else None
  end.
Fixpoint mon_c05_deliver (known unsure : list N) (expect : list (publish * bool)) (ws : list wev) : bool :=
  match ws with
  | [] => true
  | WReset _ :: rest => mon_c05_deliver [] [] [] rest
  | WRecv _ (Connack c) :: rest =>
      if (ca_rc c =? 0) && negb (ca_session_present c) then mon_c05_deliver [] [] expect rest
      else mon_c05_deliver known unsure expect rest
  | WRecv _ (Pubrel a) :: rest => mon_c05_deliver (dropN (ack_pid a) known) (dropN (ack_pid a) unsure) expect rest
  | WRecvErr _ (Pubrel a) :: rest => mon_c05_deliver known (ack_pid a :: unsure) expect rest
  | WRecv _ (Publish pb) :: rest =>
      if pub_qos pb =? 2 then
        if memN (pub_pid pb) unsure then mon_c05_deliver known unsure (expect ++ [(pb, true)]) rest
        else if memN (pub_pid pb) known then mon_c05_deliver known unsure expect rest     (* duplicate: acknowledged, not surfaced *)
        else mon_c05_deliver (pub_pid pb :: known) unsure (expect ++ [(pb, false)]) rest
      else mon_c05_deliver known unsure (expect ++ [(pb, false)]) rest
  | WRecvErr _ (Publish pb) :: rest =>
      mon_c05_deliver known (if pub_qos pb =? 2 then pub_pid pb :: unsure else unsure) (expect ++ [(pb, true)]) rest
  | WDeliver _ (Publish pb) :: rest =>
      match take_expected pb expect with
      | Some e' => mon_c05_deliver known unsure e' rest
      | None => false           (* surfaced although not received, a second time, or out of order *)
      end
  | WCall _ _ _ _ :: rest =>
      forallb (fun e => snd e) expect && mon_c05_deliver known unsure [] rest     (* every mandatory one was surfaced *)
  | _ :: rest => mon_c05_deliver known unsure expect rest
  end.

(* ------------------------------------------------------------------ C17: inbound topic aliases *)
(* client-side table of the current connection as the SERVER's packets define it: alias -> topic.
   A publish accepted by a data call that returned Ok: its alias is in 1..the maximum the CONNECT
   announced, an empty topic refers to a bound alias, and the message is surfaced with the topic the
   table gives (every expectation is optional here: whether it is surfaced is C05's business). *)
Fixpoint find_topic (p : publish) (expect : list (publish * bytes)) : option bytes :=
  match expect with
  | [] => None
  | (q, t) :: r => if same_message p q then Some t else find_topic p r
  end.
Fixpoint mon_c17_in (maxin : N) (table : list (N * bytes)) (expect : list (publish * bytes)) (ws : list wev) : bool :=
  match ws with
  | [] => true
  | WOpen _ :: rest => mon_c17_in maxin [] [] rest
  | WClose _ _ :: rest => mon_c17_in maxin [] [] rest
  | WReset _ :: rest => mon_c17_in maxin [] [] rest
  | WRecv _ (Publish pb) :: rest =>
      match pub_alias pb with
      | None => negb (isnil (pub_topic pb)) && mon_c17_in maxin table (expect ++ [(pb, pub_topic pb)]) rest
      | Some a =>
          match pub_topic pb with
          | [] => match lookup a table with
                  | Some t => mon_c17_in maxin table (expect ++ [(pb, t)]) rest
                  | None => false                      (* unknown alias accepted *)
                  end
          | t => (1 <=? a) && (a <=? maxin) && mon_c17_in maxin (insert a t table) (expect ++ [(pb, t)]) rest
          end
      end
  | WDeliver _ (Publish pb) :: rest =>
      negb (isnil (pub_topic pb)) &&
      match find_topic pb expect with
      | Some t => obytes_eqb t (pub_topic pb)
      | None => true
      end && mon_c17_in maxin table expect rest
  | WCall _ _ _ _ :: rest => mon_c17_in maxin table [] rest
  | _ :: rest => mon_c17_in maxin table expect rest
  end.

(* a server that follows the protocol is never reported as violating it (decoding clause): on every connection, as long as
   no call has failed yet, the reads are fed to a fresh reference framing decoder (the model decoder of Codec/Framing.v, which
   Properties/C03 proves to accept exactly the well-formed packet streams, for every chunking); when the reference accepts
   the stream so far (complete packets plus an incomplete tail), the engine must not answer the read with DecodingFailure.
   A decoder that is not reset between connections, or that keeps state from an earlier error, is caught here. *)
Fixpoint mon_c11_honest_decode (v : version) (max_in : N) (st : option decoder) (ws : list wev) : bool :=
  match ws with
  | [] => true
  | WOpen _ :: rest => mon_c11_honest_decode v max_in (Some decoder_init) rest
  | WClose _ _ :: rest => mon_c11_honest_decode v max_in None rest
  | WReset _ :: rest => mon_c11_honest_decode v max_in None rest
  | WCall _ e r _ :: rest =>
      match e with
      | EvUser _ _ _ | EvNextService _ => mon_c11_honest_decode v max_in st rest
      | EvData _ data =>
          match st with
          | None => mon_c11_honest_decode v max_in None rest
          | Some d =>
              let '(d', _, rr) := decode_bytes v max_in d data in
              match r with
              | Ok _ => mon_c11_honest_decode v max_in (if is_okb rr then Some d' else None) rest
              | Err k => negb (is_okb rr && errkind_eqb k EDecodingFailure) && mon_c11_honest_decode v max_in None rest
              | Panic _ => mon_c11_honest_decode v max_in None rest
              end
          end
      | _ => mon_c11_honest_decode v max_in (if is_okb r then st else None) rest
      end
  | _ :: rest => mon_c11_honest_decode v max_in st rest
  end.

(* ------------------------------------------------------------------ all monitors, tagged *)
(* tag = property number * 100 + index *)
Definition all_monitors (cfg : config) (ws : list wev) : list (N * bool) :=
  let v5 := version_eqb (cf_version cfg) V5 in
  let dummy := mkSnap Disconnected false None [] [] [] [] [] [] [] [] [] 1 0 None None 0 in
  [ (201, mon_no_stray ws);
    (1101, mon_no_panic ws);
    (1102, mon_close_clean Disconnected ws);
    (1103, mon_error_absorbing false ws);
    (1104, mon_c11_honest_decode (cf_version cfg) (match co_max_packet (cf_connect cfg) with Some m => m | None => 268435455 end) None ws);
    (101, mon_unique_completion [] [] ws);
    (102, mon_own_ack [] ws);
    (103, mon_reset_clears ws);
    (104, mon_tracked ws);
    (401, mon_c04 (mkC04 [] false) ws);
    (501, mon_c05_acks false [] ws);
    (502, mon_c05_deliver [] [] [] ws);
    (601, mon_c06 [] ws);
    (602, mon_c06_retx [] ws);
    (603, mon_c06_reserved [] ws);
    (604, mon_c06_sent_reserved 0 0 ws);
    (701, mon_c07 4 ws);
    (702, mon_c07_connected false ws);
    (703, mon_c07_faithful v5 (cf_connect cfg) false ws);
    (801, mon_c08_wakeup ws);
    (802, mon_c08_spin None ws);
    (803, mon_c08_timers None [] [] ws);
    (901, mon_c09_recvmax 65535 ws);
    (902, if cf_drain_one cfg then mon_c09_slowstart false dummy [] ws else true);
    (1001, mon_c10 [] 0 0 false ws);
    (1401, mon_c14_deadline cfg 0 None ws);
    (1403, mon_c14_live false ws);
    (1402, mon_c14_zero cfg 0 ws);
    (1404, mon_c14_pings cfg 0 None 0 0 ws);
    (1501, mon_c15 (cf_policy cfg) [] ws);
    (1502, mon_c15_submit (cf_policy cfg) Disconnected None ws);
    (1503, mon_c15_inflight [] false ws);
    (1601, mon_c16_wire v5 caps_default ws);
    (1701, mon_c17_out v5 0 [] [] ws);
    (1702, mon_c17_in (match co_tam (cf_connect cfg) with Some m => m | None => 0 end) [] [] ws);
    (1801, mon_c18_timeout [] [] [] ws);
    (1803, mon_c18_late [] [] ws);
    (1802, mon_c18_retry (cf_retry cfg) dummy [] ws) ].
