(* Model of the protocol engine `ProtocolState` (gneiss-mqtt/src/protocol.rs), following the
   transcription sheet of DESIGN.md Appendix C line by line.  The codec, the validators and the
   alias resolvers are Section variables here (instantiated in Engine/Instance.v with the models
   of Codec/, Validate/, Alias/), so that every engine theorem holds for ANY codec.

   Conventions: time = N milliseconds since the engine's base timestamp; HashMap = association
   list sorted by key; HashSet = sorted list; VecDeque = list (front = head); BinaryHeap of ack
   timeouts = list of (id, deadline).  Iteration over a hash container is modelled in key order
   (the observable differences are canonicalised by the correspondence check: completions of
   one step are compared sorted by operation id, the intake queues are compared as multisets
   between a connection close and the next CONNACK, where the code itself re-sorts them).
   Every unwrap / assert / panic site is an explicit [Panic site]; the site numbers are the
   line numbers of protocol.rs at the pinned commit. *)
From GM Require Import Base.Prelude Base.Outcome Codec.Packets Codec.Settings.
From RecordUpdate Require Import RecordSet.
Import RecordSetNotations.
Open Scope N_scope.

Inductive pstate := Disconnected | PendingConnack | Connected | PendingDisconnect | Halted.
Definition pstate_eqb (a b : pstate) : bool :=
  match a, b with
  | Disconnected, Disconnected | PendingConnack, PendingConnack | Connected, Connected
  | PendingDisconnect, PendingDisconnect | Halted, Halted => true
  | _, _ => false
  end.

(* OfflineQueuePolicy: 0 PreserveAll, 1 PreserveAcknowledged, 2 PreserveQos1PlusPublishes, 3 PreserveNothing *)
Record config := mkConfig {
  cf_version : version;
  cf_policy : N;
  cf_drain_one : bool;            (* PostReconnectQueueDrainPolicy::OneAtATime *)
  cf_retry : option N;            (* max_interrupted_retries *)
  cf_ping_timeout : N;            (* ms *)
  cf_connect : connect_opts }.

Record op := mkOp {
  op_packet : packet;
  op_pubrel : option packet;
  op_pid : option N;
  op_user : bool;                 (* options.is_some(): a user operation with a handler *)
  op_timeout : option N;          (* ack_timeout in ms *)
  op_ext : option N;              (* ping_extension_base_timepoint *)
  op_ss : N;                      (* slow_start_ack_value *)
  op_intr : N }.                  (* interruption_count *)
#[export] Instance etaOp : Settable _ :=
  settable! mkOp <op_packet; op_pubrel; op_pid; op_user; op_timeout; op_ext; op_ss; op_intr>.

(* what a completion callback receives *)
Inductive completion := CompOk (ack : option packet) | CompErr (k : errkind).

(* does_packet_pass_offline_queue_policy (protocol.rs:2316-2332) *)
Definition passes_policy (policy : N) (p : packet) : bool :=
  match p with
  | Subscribe _ | Unsubscribe _ => negb ((policy =? 2) || (policy =? 3))
  | Publish pb =>
      if policy =? 3 then false
      else if (policy =? 2) || (policy =? 1) then negb (pub_qos pb =? 0)
      else true
  | _ => false
  end.

(* ---- association lists keyed by N ---- *)
Section Assoc.
  Context {A : Type}.
  Fixpoint lookup (k : N) (l : list (N * A)) : option A :=
    match l with [] => None | (k', v) :: r => if k' =? k then Some v else lookup k r end.
  Fixpoint remove (k : N) (l : list (N * A)) : list (N * A) :=
    match l with [] => [] | (k', v) :: r => if k' =? k then remove k r else (k', v) :: remove k r end.
  Fixpoint insert (k : N) (v : A) (l : list (N * A)) : list (N * A) :=
    match l with
    | [] => [(k, v)]
    | (k', v') :: r => if k <? k' then (k, v) :: l else if k' =? k then (k, v) :: r else (k', v') :: insert k v r
    end.
  Fixpoint update (k : N) (f : A -> A) (l : list (N * A)) : list (N * A) :=
    match l with [] => [] | (k', v) :: r => if k' =? k then (k', f v) :: r else (k', v) :: update k f r end.
End Assoc.
Definition mem (k : N) (l : list N) : bool := existsb (N.eqb k) l.
Fixpoint set_insert (k : N) (l : list N) : list N :=
  match l with [] => [k] | x :: r => if k <? x then k :: l else if x =? k then l else x :: set_insert k r end.
Definition set_remove (k : N) (l : list N) : list N := filter (fun x => negb (x =? k)) l.
Fixpoint sort_ins (k : N) (l : list N) : list N :=
  match l with [] => [k] | x :: r => if k <=? x then k :: l else x :: sort_ins k r end.
Definition sort (l : list N) : list N := fold_right sort_ins [] l.

Definition IMAX : N := 9223372036854775807000.   (* Instant range in ms: `Instant + Duration` panics beyond *)
Definition add_time (site now d : N) : outcome N := if IMAX <? now + d then Panic site else Ok (now + d).

Section Engine.

  (* ---- abstract components ---- *)
  Variable enc : Type.
  Variable enc_reset : version -> packet -> resolution -> outcome enc.
  Variable enc_call : enc -> N -> N -> outcome (bytes * enc).       (* steps, fill, capacity *)
  Variable enc_done : enc -> bool.
  Variable dec : Type.
  Variable dec_init : dec.
  Variable dec_feed : version -> N -> dec -> bytes -> dec * list packet * outcome unit.
  Variable ores : Type.
  Variable ores_reset : ores -> N -> ores.
  Variable ores_resolve : ores -> option N -> bytes -> outcome (ores * resolution).
  Variable ires : Type.
  Variable ires_reset : ires -> ires.
  Variable ires_resolve : ires -> option N -> bytes -> outcome (ires * bytes).
  Variable v_out : option settings -> connect_opts -> resolution -> packet -> outcome unit.
  Variable v_in : option settings -> packet -> outcome unit.

  Record state := mkState {
    s_st : pstate;
    s_pwc : bool;
    s_ops : list (N * op);
    s_tmo : list (N * N);
    s_uq : list N;
    s_rq : list N;
    s_hq : list N;
    s_cur : option N;
    s_enc : option enc;
    s_q2in : list N;
    s_alloc : list (N * N);
    s_ppub : list (N * N);
    s_pnon : list (N * N);
    s_pwco : list N;
    s_settings : option settings;
    s_next_id : N;
    s_next_pid : N;
    s_connected_before : bool;
    s_dec : dec;
    s_next_ping : option N;
    s_ping_to : option N;
    s_connack_to : option N;
    s_ores : ores;
    s_ires : ires;
    s_ss_count : N }.
  #[export] Instance etaState : Settable _ :=
    settable! mkState <s_st; s_pwc; s_ops; s_tmo; s_uq; s_rq; s_hq; s_cur; s_enc; s_q2in; s_alloc; s_ppub;
                       s_pnon; s_pwco; s_settings; s_next_id; s_next_pid; s_connected_before; s_dec;
                       s_next_ping; s_ping_to; s_connack_to; s_ores; s_ires; s_ss_count>.

  Variable cfg : config.

  Definition init (o : ores) (i : ires) : state :=
    {| s_st := Disconnected; s_pwc := false; s_ops := []; s_tmo := []; s_uq := []; s_rq := []; s_hq := [];
       s_cur := None; s_enc := None; s_q2in := []; s_alloc := []; s_ppub := []; s_pnon := []; s_pwco := [];
       s_settings := None; s_next_id := 1; s_next_pid := 1; s_connected_before := false; s_dec := dec_init;
       s_next_ping := None; s_ping_to := None; s_connack_to := None; s_ores := o; s_ires := i; s_ss_count := 0 |}.

  (* results of internal functions: new state, completion callbacks fired (in order), outcome *)
  Definition dones := list (N * completion).
  Record res := mkRes { r_s : state; r_done : dones; r_out : outcome unit }.

  Definition fold_result (base new : outcome unit) : outcome unit :=
    match new with Ok _ => base | _ => new end.                   (* error.rs fold_mqtt_result *)

  Definition is_disconnect (p : packet) : bool := match p with Disconnect _ => true | _ => false end.
  Definition is_connect (p : packet) : bool := match p with Connect _ => true | _ => false end.

  (* shared prefix of complete_operation_as_success / _failure (778-832): remove the operation,
     release its packet id, slow-start accounting *)
  Definition release (s : state) (id : N) (o : op) : outcome state :=
    let s1 := s <| s_ops := remove id (s_ops s) |> in
    let s2 := match op_pid o with
              | Some p => s1 <| s_alloc := remove p (s_alloc s1) |> <| s_ppub := remove p (s_ppub s1) |>
                             <| s_pnon := remove p (s_pnon s1) |>
              | None => s1 end in
    (* apply_ackable_completion (737-756) *)
    if cf_drain_one cfg && pstate_eqb (s_st s2) Connected && negb (op_ss o =? 0) then
      if op_ss o <=? s_ss_count s2 then Ok (s2 <| s_ss_count := s_ss_count s2 - op_ss o |>)
      else Panic 755
    else Ok s2.

  (* apply_disconnect_completion (725-735) *)
  Definition disconnect_completion (s : state) (o : op) : state * outcome unit :=
    if is_disconnect (op_packet o) then
      ((if pstate_eqb (s_st s) PendingDisconnect then s <| s_st := Halted |> else s), Err EUserInitiatedDisconnect)
    else (s, Ok tt).

  Definition fail_op (s : state) (id : N) (e : errkind) : res :=
    match lookup id (s_ops s) with
    | None => mkRes s [] (Ok tt)
    | Some o =>
        match release s id o with
        | Ok s1 =>
            let (s2, r) := disconnect_completion s1 o in
            match r with
            | Ok _ => if op_user o then mkRes s2 [(id, CompErr e)] (Ok tt) else mkRes s2 [] (Ok tt)
            | _ => mkRes s2 [] r
            end
        | Err k => mkRes s [] (Err k)
        | Panic site => mkRes s [] (Panic site)
        end
    end.

  (* apply_ping_extension_on_operation_success (1318-1339) *)
  Definition ping_extension (s : state) (o : op) : state :=
    let base := match op_packet o with
                | Subscribe _ | Unsubscribe _ => op_ext o
                | Publish pb => if pub_qos pb =? 0 then None else op_ext o
                | _ => None end in
    match base, s_settings s, s_next_ping s with
    | Some b, Some st, Some np =>
        let ext := b + st_server_keep_alive st * 1000 in
        if np <? ext then s <| s_next_ping := Some ext |> else s
    | _, _, _ => s
    end.

  (* complete_operation_with_result (2259-2295): which callback value, or an error *)
  Definition success_value (o : op) (resp : option packet) : outcome completion :=
    match op_packet o with
    | Publish _ =>
        match resp with
        | None => Ok (CompOk None)
        | Some (Puback a) => Ok (CompOk (Some (Puback a)))
        | Some (Pubrec a) => Ok (CompOk (Some (Pubrec a)))
        | Some (Pubcomp a) => Ok (CompOk (Some (Pubcomp a)))
        | Some _ => Err EInternalStateError
        end
    | Subscribe _ =>
        match resp with
        | None => Panic 2277
        | Some (Suback a) => Ok (CompOk (Some (Suback a)))
        | Some _ => Err EInternalStateError
        end
    | Unsubscribe _ =>
        match resp with
        | None => Panic 2285
        | Some (Unsuback a) => Ok (CompOk (Some (Unsuback a)))
        | Some _ => Err EInternalStateError
        end
    | _ => Err EInternalStateError
    end.

  Definition succeed_op (s : state) (id : N) (resp : option packet) : res :=
    match lookup id (s_ops s) with
    | None => mkRes s [] (Err EInternalStateError)
    | Some o =>
        match release s id o with
        | Ok s1 =>
            let s1' := ping_extension s1 o in
            let (s2, r) := disconnect_completion s1' o in
            match r with
            | Ok _ =>
                if op_user o then
                  match success_value o resp with
                  | Ok c => mkRes s2 [(id, c)] (Ok tt)
                  | Err k => mkRes s2 [] (Err k)
                  | Panic site => mkRes s2 [] (Panic site)
                  end
                else mkRes s2 [] (Ok tt)
            | _ => mkRes s2 [] r
            end
        | Err k => mkRes s [] (Err k)
        | Panic site => mkRes s [] (Panic site)
        end
    end.

  (* complete_operation_sequence_as_failure / _as_empty_success: every item is processed, the
     LAST error wins; a panic aborts *)
  Fixpoint fail_all (s : state) (ids : list N) (e : errkind) : res :=
    match ids with
    | [] => mkRes s [] (Ok tt)
    | id :: rest =>
        let r1 := fail_op s id e in
        if is_panic (r_out r1) then r1 else
        let r2 := fail_all (r_s r1) rest e in
        if is_panic (r_out r2) then mkRes (r_s r2) (r_done r1 ++ r_done r2) (r_out r2)
        else mkRes (r_s r2) (r_done r1 ++ r_done r2) (fold_result (r_out r1) (r_out r2))
    end.
  Fixpoint succeed_all (s : state) (ids : list N) : res :=
    match ids with
    | [] => mkRes s [] (Ok tt)
    | id :: rest =>
        let r1 := succeed_op s id None in
        if is_panic (r_out r1) then r1 else
        let r2 := succeed_all (r_s r1) rest in
        if is_panic (r_out r2) then mkRes (r_s r2) (r_done r1 ++ r_done r2) (r_out r2)
        else mkRes (r_s r2) (r_done r1 ++ r_done r2) (fold_result (r_out r1) (r_out r2))
    end.

  (* sequencing helper: continue with [f] unless the result so far is a panic; `?` = stop on Err *)
  Definition andthen (r : res) (f : state -> res) : res :=   (* accumulate, fold results *)
    if is_panic (r_out r) then r else
    let r2 := f (r_s r) in
    if is_panic (r_out r2) then mkRes (r_s r2) (r_done r ++ r_done r2) (r_out r2)
    else mkRes (r_s r2) (r_done r ++ r_done r2) (fold_result (r_out r) (r_out r2)).
  Definition try_ (r : res) (f : state -> res) : res :=      (* Rust `?`: stop on Err or Panic *)
    match r_out r with
    | Ok _ => let r2 := f (r_s r) in mkRes (r_s r2) (r_done r ++ r_done r2) (r_out r2)
    | _ => r
    end.
  Definition pure (s : state) : res := mkRes s [] (Ok tt).

  (* ---- user events (509-543) ---- *)
  Definition new_op (p : packet) (user : bool) (timeout : option N) : op :=
    mkOp p None None user timeout None 0 0.
  Definition create_operation (s : state) (o : op) : state * N :=
    let id := s_next_id s in
    (s <| s_next_id := id + 1 |> <| s_ops := s_ops s ++ [(id, o)] |>, id).

  Definition passes_now (s : state) (p : packet) : bool :=
    if pstate_eqb (s_st s) Connected then true else passes_policy (cf_policy cfg) p.

  Definition user_event (s : state) (p : packet) (timeout : option N) : res :=
    let is_disc := is_disconnect p in
    let (s1, id) := create_operation s (new_op p (negb is_disc) (if is_disc then None else timeout)) in
    if negb (passes_now s1 p) then
      let r := fail_op s1 id EOfflineQueuePolicyFailed in
      mkRes (r_s r) (r_done r) (if is_panic (r_out r) then r_out r else Ok tt)     (* `let _ =` *)
    else if is_disc then pure (s1 <| s_hq := id :: s_hq s1 |>)
    else pure (s1 <| s_uq := s_uq s1 ++ [id] |>).

  (* ---- connection opened (854-883) ---- *)
  Definition create_connect (s : state) : packet :=
    let c := to_connect_packet (cf_connect cfg) (s_connected_before s) in
    match con_client_id c, s_settings s with
    | None, Some st =>
        Connect {| con_keep_alive := con_keep_alive c; con_clean_start := con_clean_start c;
                   con_client_id := Some (st_client_id st); con_username := con_username c;
                   con_password := con_password c; con_sei := con_sei c; con_rri := con_rri c; con_rpi := con_rpi c;
                   con_receive_max := con_receive_max c; con_tam := con_tam c; con_max_packet := con_max_packet c;
                   con_auth_method := con_auth_method c; con_auth_data := con_auth_data c;
                   con_will_delay := con_will_delay c; con_will := con_will c; con_up := con_up c |}
    | _, _ => Connect c
    end.

  Definition net_opened (s : state) (deadline : N) : res :=
    if negb (pstate_eqb (s_st s) Disconnected) then mkRes (s <| s_st := Halted |>) [] (Err EInternalStateError)
    else
      let s1 := s <| s_st := PendingConnack |> <| s_cur := None |> <| s_pwc := false |> <| s_dec := dec_init |> in
      let (s2, id) := create_operation s1 (new_op (create_connect s1) false None) in
      pure (s2 <| s_hq := id :: s_hq s2 |> <| s_connack_to := Some deadline |>).

  (* ---- connection closed (885-1085) ---- *)
  Definition op_exists (s : state) (id : N) : bool := match lookup id (s_ops s) with Some _ => true | None => false end.
  Definition op_passes (s : state) (id : N) : bool :=
    match lookup id (s_ops s) with Some o => passes_policy (cf_policy cfg) (op_packet o) | None => false end.
  (* partition_operation_queue_by_queue_policy: existing operations only *)
  Definition partition_policy (s : state) (q : list N) : list N * list N :=
    let ex := filter (op_exists s) q in (filter (op_passes s) ex, filter (fun id => negb (op_passes s id)) ex).

  Definition closed_current (s : state) : res :=          (* 885-917 *)
    match s_cur s with
    | None => pure (s <| s_cur := None |>)
    | Some id =>
        let r :=
          match lookup id (s_ops s) with
          | None => pure s
          | Some o =>
              match op_packet o with
              | Subscribe _ | Unsubscribe _ =>
                  if passes_policy (cf_policy cfg) (op_packet o) then pure (s <| s_uq := id :: s_uq s |>)
                  else fail_op s id EOfflineQueuePolicyFailed
              | Publish pb =>
                  if pub_dup pb then
                    (match lookup (pub_pid pb) (s_ppub s) with
                     | Some _ => pure s          (* still pending: the sweep below re-queues it *)
                     | None => pure (s <| s_rq := id :: s_rq s |>) end)
                  else if (pub_qos pb =? 2) && (match op_pubrel o with Some _ => true | None => false end)
                       then pure (s <| s_hq := id :: s_hq s |>)
                  else if passes_policy (cf_policy cfg) (op_packet o) then pure (s <| s_uq := id :: s_uq s |>)
                  else fail_op s id EOfflineQueuePolicyFailed
              | _ =>
                  let rf := fail_op s id EConnectionClosed in
                  mkRes (r_s rf) (r_done rf) (if is_panic (r_out rf) then r_out rf else Ok tt)   (* `let _ =` *)
              end
          end in
        try_ r (fun s' => pure (s' <| s_cur := None |>))
    end.

  Definition set_ss (v : N) (o : op) : op := o <| op_ss := v |>.
  Definition slow_start_init (s : state) : outcome state :=     (* 919-945 *)
    if negb (cf_drain_one cfg) then Ok s else
    let ops0 := s_ops s in          (* marks of earlier disconnections persist *)
    let pend := map snd (s_pnon s) ++ map snd (s_ppub s) in
    if forallb (fun id => match lookup id ops0 with Some _ => true | None => false end) pend
    then Ok (s <| s_ops := fold_left (fun ops id => update id (set_ss 1) ops) pend ops0 |>)
    else Panic 936.

  Definition bump_intr (o : op) : op := o <| op_intr := op_intr o + 1 |>.
  Definition update_retries (s : state) : outcome state :=      (* 947-963 *)
    match cf_retry cfg with
    | None => Ok s
    | Some _ =>
        let pend := map snd (s_pnon s) ++ map snd (s_ppub s) in
        if forallb (op_exists s) pend
        then Ok (s <| s_ops := fold_left (fun ops id => update id bump_intr ops) pend (s_ops s) |>)
        else Panic 954
    end.

  Definition fail_exceeding (s : state) : res :=                (* 965-986 *)
    match cf_retry cfg with
    | None => pure s
    | Some limit =>
        let over (st : state) (id : N) := match lookup id (s_ops st) with Some o => limit <? op_intr o | None => false end in
        if negb (forallb (op_exists s) (map snd (s_pnon s))) then mkRes s [] (Panic 971) else
        let r1 := fail_all s (filter (over s) (map snd (s_pnon s))) EMaxInterruptedRetriesExceeded in
        andthen r1 (fun s1 =>
          if negb (forallb (op_exists s1) (map snd (s_ppub s1))) then mkRes s1 [] (Panic 978) else
          fail_all s1 (filter (over s1) (map snd (s_ppub s1))) EMaxInterruptedRetriesExceeded)
    end.

  Definition has_pubrel (s : state) (id : N) : bool :=
    match lookup id (s_ops s) with Some o => match op_pubrel o with Some _ => true | None => false end | None => false end.

  Definition set_dup (v : bool) (o : op) : op :=
    match op_packet o with
    | Publish pb =>
        o <| op_packet := Publish {| pub_pid := pub_pid pb; pub_topic := pub_topic pb; pub_qos := pub_qos pb; pub_dup := v;
               pub_retain := pub_retain pb; pub_payload := pub_payload pb; pub_pfi := pub_pfi pb; pub_mei := pub_mei pb;
               pub_alias := pub_alias pb; pub_response_topic := pub_response_topic pb; pub_correlation := pub_correlation pb;
               pub_subids := pub_subids pb; pub_content_type := pub_content_type pb; pub_up := pub_up pb |} |>
    | _ => o
    end.

  Definition net_closed_raw (s : state) : res :=
    if pstate_eqb (s_st s) Disconnected then mkRes s [] (Err EInternalStateError) else
    let s0 := s <| s_st := Disconnected |> <| s_connack_to := None |> <| s_next_ping := None |>
                <| s_ping_to := None |> <| s_tmo := [] |> in
    try_ (closed_current s0) (fun s1 =>
      match slow_start_init s1 with
      | Panic site => mkRes s1 [] (Panic site) | Err k => mkRes s1 [] (Err k)
      | Ok s2 =>
      match update_retries s2 with
      | Panic site => mkRes s2 [] (Panic site) | Err k => mkRes s2 [] (Err k)
      | Ok s3 =>
        (* high-priority queue: pubrel carriers dropped silently, everything else failed *)
        let hq := s_hq s3 in
        let s4 := s3 <| s_hq := [] |> in
        let r4 := fail_all s4 (filter (fun id => negb (has_pubrel s4 id)) hq) EConnectionClosed in
        andthen r4 (fun s5 =>
          let pwco := s_pwco s5 in
          let (kept, rejected) := partition_policy s5 pwco in
          let s6 := s5 <| s_pwco := [] |> <| s_uq := s_uq s5 ++ kept |> in
          andthen (fail_all s6 rejected EOfflineQueuePolicyFailed) (fun s7 =>
            andthen (fail_exceeding s7) (fun s8 =>
              (* unacked publishes: dup := true, back of the resubmit queue (key order) *)
              let pubs := map snd (s_ppub s8) in
              let s9 := s8 <| s_ppub := [] |>
                           <| s_ops := fold_left (fun ops id => update id (set_dup true) ops) pubs (s_ops s8) |>
                           <| s_rq := s_rq s8 ++ pubs |> in
              (* unacked subscribes / unsubscribes: front of the user queue, one by one *)
              let nons := map snd (s_pnon s9) in
              let s10 := s9 <| s_pnon := [] |> <| s_uq := rev nons ++ s_uq s9 |> in
              let (kept_u, rejected_u) := partition_policy s10 (s_uq s10) in
              let s11 := s10 <| s_uq := [] |> in
              andthen (fail_all s11 rejected_u EOfflineQueuePolicyFailed) (fun s12 =>
                pure (s12 <| s_uq := s_uq s12 ++ kept_u |>)))))
      end end).

  (* a failed user DISCONNECT signals UserInitiatedDisconnect: not a failure of the close *)
  Definition net_closed (s : state) : res :=
    let r := net_closed_raw s in
    if pstate_eqb (s_st s) Disconnected then r else
    match r_out r with
    | Err EUserInitiatedDisconnect => mkRes (r_s r) (r_done r) (Ok tt)
    | _ => r
    end.

  (* ---- write completion (1087-1109) ---- *)
  Definition net_write_completion (s : state) : res :=
    if pstate_eqb (s_st s) Halted || pstate_eqb (s_st s) Disconnected then mkRes s [] (Err EInternalStateError)
    else if negb (s_pwc s) then mkRes (s <| s_st := Halted |>) [] (Err EInternalStateError)
    else
      let ids := s_pwco s in
      succeed_all (s <| s_pwc := false |> <| s_pwco := [] |>) ids.

  (* ---- packet ids (2154-2203) ---- *)
  Fixpoint first_gap (keys : list N) (lo hi : N) : option N :=
    match keys with
    | [] => if lo <=? hi then Some lo else None
    | k :: r => if hi <? lo then None
                else if k <? lo then first_gap r lo hi
                else if k =? lo then first_gap r (lo + 1) hi
                else Some lo
    end.
  Definition acquire_free_pid (s : state) (id : N) : outcome (state * N) :=
    let keys := map fst (s_alloc s) in
    let start := s_next_pid s in
    let found := match first_gap keys start 65535 with
                 | Some c => Some c
                 | None => first_gap keys 1 (start - 1) end in
    match found with
    | Some c => Ok (s <| s_next_pid := (if c =? 65535 then 1 else c + 1) |> <| s_alloc := insert c id (s_alloc s) |>, c)
    | None => Err EInternalStateError
    end.

  Definition with_pid (pid : N) (p : packet) : outcome packet :=
    match p with
    | Subscribe x => Ok (Subscribe {| s_pid := pid; s_subs := s_subs x; s_subid := s_subid x; s_up := s_up x |})
    | Unsubscribe x => Ok (Unsubscribe {| u_pid := pid; u_filters := u_filters x; u_up := u_up x |})
    | Publish pb => Ok (Publish {| pub_pid := pid; pub_topic := pub_topic pb; pub_qos := pub_qos pb; pub_dup := pub_dup pb;
               pub_retain := pub_retain pb; pub_payload := pub_payload pb; pub_pfi := pub_pfi pb; pub_mei := pub_mei pb;
               pub_alias := pub_alias pb; pub_response_topic := pub_response_topic pb; pub_correlation := pub_correlation pb;
               pub_subids := pub_subids pb; pub_content_type := pub_content_type pb; pub_up := pub_up pb |})
    | _ => Panic 104
    end.

  Definition needs_pid (p : packet) : bool :=
    match p with
    | Subscribe _ | Unsubscribe _ => true
    | Publish pb => negb (pub_qos pb =? 0)
    | _ => false
    end.

  Definition acquire_pid_for (s : state) (id : N) : outcome state :=
    match lookup id (s_ops s) with
    | None => Panic 2180
    | Some o =>
        match op_pid o with
        | Some _ => Ok s
        | None =>
            if negb (needs_pid (op_packet o)) then Ok s else
            do (s1, pid) <- acquire_free_pid s id ;
            do p' <- with_pid pid (op_packet o) ;
            Ok (s1 <| s_ops := update id (fun o => o <| op_pid := Some pid |> <| op_packet := p' |>) (s_ops s1) |>)
        end
    end.

  (* unbind_operation_packet_id (1599-1606) + clear_qos2_state *)
  Definition unbind (s : state) (id : N) : state :=
    match lookup id (s_ops s) with
    | None => s
    | Some o =>
        let s1 := match op_pid o with
                  | Some pid =>
                      match with_pid 0 (op_packet o) with
                      | Ok p' => s <| s_alloc := remove pid (s_alloc s) |>
                                   <| s_ops := update id (fun o => o <| op_pid := None |> <| op_packet := p' |>) (s_ops s) |>
                      | _ => s   (* unreachable: only sub/unsub/publish get a packet id *)
                      end
                  | None => s end in
        s1 <| s_ops := update id (fun o => o <| op_pubrel := None |>) (s_ops s1) |>
    end.

  (* ---- flow control and dequeue (1197-1245) ---- *)
  Definition passes_receive_max (s : state) (id : N) : bool :=
    match s_settings s with
    | Some st =>
        if st_receive_maximum_from_server st <=? len (s_ppub s) then
          match lookup id (s_ops s) with
          | Some o => match op_packet o with Publish pb => pub_qos pb =? 0 | _ => true end
          | None => true
          end
        else true
    | None => true
    end.
  Definition throttled (s : state) : bool :=
    cf_drain_one cfg && pstate_eqb (s_st s) Connected && negb (s_ss_count s =? 0).
  Definition has_pending_ack (s : state) : bool :=
    negb (match s_ppub s with [] => true | _ => false end) || negb (match s_pnon s with [] => true | _ => false end).

  (* mode_all = ProtocolQueueServiceMode::All *)
  Definition dequeue (s : state) (mode_all : bool) : state * option N :=
    if s_pwc s then (s, None) else
    match s_hq s with
    | id :: r => (s <| s_hq := r |>, Some id)
    | [] =>
        if negb mode_all then (s, None) else
        if throttled s && has_pending_ack s then (s, None) else
        match s_rq s with
        | id :: r => if passes_receive_max s id then (s <| s_rq := r |>, Some id) else (s, None)
        | [] =>
            match s_uq s with
            | id :: r => if passes_receive_max s id then (s <| s_uq := r |>, Some id) else (s, None)
            | [] => (s, None)
            end
        end
    end.

  (* ---- fully written (1341-1373) ---- *)
  Definition fully_written (s : state) (now : N) : outcome state :=
    match s_cur s with
    | None => Panic 1342
    | Some id =>
        match lookup id (s_ops s) with
        | None => Panic 1342
        | Some o =>
            let s1 :=
              match op_packet o with
              | Subscribe x => s <| s_pnon := insert (s_pid x) id (s_pnon s) |>
              | Unsubscribe x => s <| s_pnon := insert (u_pid x) id (s_pnon s) |>
              | Publish pb => if pub_qos pb =? 0 then s <| s_pwco := s_pwco s ++ [id] |>
                              else s <| s_ppub := insert (pub_pid pb) id (s_ppub s) |>
              | Disconnect _ => s <| s_st := PendingDisconnect |> <| s_pwco := s_pwco s ++ [id] |>
              | _ => s <| s_pwco := s_pwco s ++ [id] |>
              end in
            let s2 := s1 <| s_ops := update id (fun o => o <| op_ext := Some now |>) (s_ops s1) |> in
            do s3 <- (match (if op_user o then op_timeout o else None) with
                      | Some d => if IMAX <? now + d then Ok s2 else Ok (s2 <| s_tmo := s_tmo s2 ++ [(id, now + d)] |>)
                      | None => Ok s2 end) ;
            Ok (s3 <| s_cur := None |>)
        end
    end.

  (* ---- service queue (1380-1459) ---- *)
  Definition is_publish (p : packet) : bool := match p with Publish _ => true | _ => false end.

  (* result of the loop: state, bytes appended, completions, outcome *)
  Record sres := mkSres { sr_s : state; sr_bytes : bytes; sr_done : dones; sr_out : outcome unit }.

  (* outcome of seating a current operation (1382-1431) *)
  Inductive seat :=
  | SeatStop (r : sres)                       (* return from service_queue_aux *)
  | SeatContinue (s : state) (dn : dones)     (* `continue` *)
  | SeatEncode (s : state).                   (* a current operation is seated: go on to encode *)

  Definition seat_current (s : state) (mode_all : bool) (acc : bytes) (dn : dones) : seat :=
    match s_cur s with
    | Some _ => SeatEncode s
    | None =>
        let (s1, next) := dequeue s mode_all in
        match next with
        | None => SeatStop (mkSres s1 acc dn (Ok tt))
        | Some id =>
            let s2 := s1 <| s_cur := Some id |> in
            if negb (op_exists s2 id) then SeatContinue (s2 <| s_cur := None |>) dn else
            match acquire_pid_for s2 id with
            | Err k => SeatStop (mkSres s2 acc dn (Err k))
            | Panic site => SeatStop (mkSres s2 acc dn (Panic site))
            | Ok s3 =>
                match lookup id (s_ops s3) with
                | None => SeatStop (mkSres s3 acc dn (Panic 1399))
                | Some o =>
                    let packet := match op_pubrel o with Some pr => pr | None => op_packet o end in
                    let resolved : outcome (state * resolution) :=
                      match packet with
                      | Publish pb =>
                          do (o', r) <- ores_resolve (s_ores s3) (pub_alias pb) (pub_topic pb) ;
                          Ok (s3 <| s_ores := o' |>, r)
                      | _ => Ok (s3, no_resolution)
                      end in
                    match resolved with
                    | Err k => SeatStop (mkSres s3 acc dn (Err k))
                    | Panic site => SeatStop (mkSres s3 acc dn (Panic site))
                    | Ok (s4, r) =>
                        match v_out (s_settings s4) (cf_connect cfg) r packet with
                        | Err k =>
                            let s4 := match r_alias r with
                                      | Some _ => s4 <| s_ores := ores_reset (s_ores s4)
                                                    (match s_settings s4 with Some st => st_topic_alias_maximum_to_server st | None => 0 end) |>
                                      | None => s4 end in
                            let rf := fail_op (s4 <| s_cur := None |>) id k in
                            match r_out rf with
                            | Ok _ => SeatContinue (r_s rf) (dn ++ r_done rf)
                            | _ => SeatStop (mkSres (r_s rf) acc (dn ++ r_done rf) (r_out rf))
                            end
                        | Panic site => SeatStop (mkSres s4 acc dn (Panic site))
                        | Ok _ =>
                            match enc_reset (cf_version cfg) packet r with
                            | Err k => SeatStop (mkSres s4 acc dn (Err k))
                            | Panic site => SeatStop (mkSres s4 acc dn (Panic site))
                            | Ok e => SeatEncode (s4 <| s_enc := Some e |>)
                            end
                        end
                    end
                end
            end
        end
    end.

  Fixpoint service_loop (fuel : nat) (s : state) (mode_all : bool) (now cap fill : N) (acc : bytes) (dn : dones) : sres :=
    match fuel with
    | O => mkSres s acc dn (Panic 9999)         (* out of fuel: shown unreachable *)
    | S f =>
      if negb (pstate_eqb (s_st s) PendingConnack || pstate_eqb (s_st s) Connected) then mkSres s acc dn (Ok tt) else
      match seat_current s mode_all acc dn with
      | SeatStop r => r
      | SeatContinue s5 dn' => service_loop f s5 mode_all now cap fill acc dn'
      | SeatEncode s5 =>
          match s_cur s5 with
          | None => mkSres s5 acc dn (Panic 1433)
          | Some id =>
              if negb (op_exists s5 id) then mkSres s5 acc dn (Err EInternalStateError) else
              match s_enc s5 with
              | None => mkSres s5 acc dn (Panic 1436)
              | Some e =>
                  match enc_call e (fill + len acc) cap with
                  | Err k => mkSres s5 acc dn (Err k)
                  | Panic site => mkSres s5 acc dn (Panic site)
                  | Ok (out, e') =>
                      let s6 := s5 <| s_enc := Some e' |> in
                      if enc_done e' then
                        match fully_written s6 now with
                        | Ok s7 => service_loop f s7 mode_all now cap fill (acc ++ out) dn
                        | Err k => mkSres s6 (acc ++ out) dn (Err k)
                        | Panic site => mkSres s6 (acc ++ out) dn (Panic site)
                        end
                      else mkSres s6 (acc ++ out) dn (Ok tt)
                  end
              end
          end
      end
    end.

  Definition service_queue (s : state) (mode_all : bool) (now cap fill : N) : sres :=
    let fuel := S (S (length (s_hq s) + length (s_rq s) + length (s_uq s))) in
    let r := service_loop (fuel + fuel) s mode_all now cap fill [] [] in
    match sr_bytes r with
    | [] => r
    | _ => mkSres (sr_s r <| s_pwc := true |>) (sr_bytes r) (sr_done r) (sr_out r)
    end.

  (* ---- keep-alive (1474-1502) ---- *)
  Definition service_keep_alive (s : state) (now : N) : outcome state :=
    match s_ping_to s with
    | Some pt => if pt <=? now then Err EConnectionClosed else Ok s
    | None =>
        match s_next_ping s with
        | Some np =>
            if np <=? now then
              let (s1, id) := create_operation s (new_op Pingreq false None) in
              let s2 := s1 <| s_hq := id :: s_hq s1 |> in
              match s_settings s2 with
              | None => Panic 1488
              | Some st =>
                  let k := st_server_keep_alive st in
                  let final := N.min (cf_ping_timeout cfg) (k * 500) in
                  do pt <- add_time 1493 now final ;
                  let s3 := s2 <| s_ping_to := Some pt |> in
                  if 0 <? k then Ok (s3 <| s_next_ping := Some (now + k * 1000) |>) else Ok s3
              end
            else Ok s
        | None => Ok s
        end
    end.

  (* ---- ack timeouts (1255-1275) ---- *)
  Definition process_ack_timeouts (s : state) (now : N) : res :=
    let due := filter (fun '(_, t) => t <=? now) (s_tmo s) in
    let rest := filter (fun '(_, t) => negb (t <=? now)) (s_tmo s) in
    fail_all (s <| s_tmo := rest |>) (map fst due) EAckTimeout.

  (* ---- service (484-507, 1461-1520) ---- *)
  Definition halt_on_error (s : state) (r : outcome unit) : state :=
    match r with Ok _ => s | _ => s <| s_st := Halted |> end.

  Definition service (s : state) (now cap fill : N) : sres :=
    let r :=
      match s_st s with
      | Disconnected => mkSres s [] [] (Ok tt)
      | Halted => mkSres s [] [] (Err EInternalStateError)
      | PendingConnack =>
          match s_connack_to s with
          | None => mkSres s [] [] (Panic 1464)
          | Some t => if t <=? now then mkSres s [] [] (Err EConnectionEstablishmentFailure)
                      else service_queue s false now cap fill
          end
      | Connected =>
          match service_keep_alive s now with
          | Err k => mkSres s [] [] (Err k)
          | Panic site => mkSres s [] [] (Panic site)
          | Ok s1 =>
              let q := service_queue s1 true now cap fill in
              match sr_out q with
              | Ok _ =>
                  let t := process_ack_timeouts (sr_s q) now in
                  mkSres (r_s t) (sr_bytes q) (sr_done q ++ r_done t) (r_out t)
              | _ => q
              end
          end
      | PendingDisconnect =>
          let t := process_ack_timeouts s now in mkSres (r_s t) [] (r_done t) (r_out t)
      end in
    mkSres (halt_on_error (sr_s r) (sr_out r)) (sr_bytes r) (sr_done r) (sr_out r).

  (* ---- next service time (545-564, 1522-1597) ---- *)
  Definition opt_min (a b : option N) : option N :=
    match a, b with
    | Some x, Some y => Some (N.min x y)
    | Some x, None => Some x
    | None, y => y
    end.
  Definition earliest_tmo (s : state) : option N :=
    fold_left (fun acc '(_, t) => opt_min acc (Some t)) (s_tmo s) None.

  Definition nst_queue (s : state) (mode_all : bool) (now : N) : option N :=
    if s_pwc s then None else
    match s_cur s with Some _ => Some now | None =>
    match s_hq s with
    | _ :: _ => Some now
    | [] =>
        if negb mode_all then None else
        if throttled s && has_pending_ack s then None else
        let blocked :=
          match s_settings s with
          | Some st =>
              if st_receive_maximum_from_server st <=? len (s_ppub s) then
                let head := match s_rq s with id :: _ => Some id | [] => match s_uq s with id :: _ => Some id | [] => None end end in
                match head with
                | Some id => match lookup id (s_ops s) with
                             | Some o => match op_packet o with Publish pb => negb (pub_qos pb =? 0) | _ => false end
                             | None => false end
                | None => false
                end
              else false
          | None => false
          end in
        if blocked then None else
        match s_rq s, s_uq s with
        | [], [] => None
        | _, _ => Some now
        end
    end end.

  Definition next_service_time (s : state) (now : N) : outcome (option N) :=
    match s_st s with
    | Disconnected | Halted => Ok None
    | PendingConnack =>
        match s_connack_to s with
        | None => Panic 1570
        | Some t => Ok (opt_min (nst_queue s false now) (Some t))
        end
    | Connected =>
        let t := opt_min (s_ping_to s) (earliest_tmo s) in
        if s_pwc s then Ok t
        else Ok (opt_min (nst_queue s true now) (opt_min t (s_next_ping s)))
    | PendingDisconnect => Ok (opt_min (nst_queue s false now) (earliest_tmo s))
    end.

  (* ---- negotiated settings (2223-2257) ---- *)
  Definition build_settings (s : state) (c : connack) : settings :=
    let co := cf_connect cfg in
    let dflt {A} (o : option A) (d : A) : A := match o with Some x => x | None => d end in
    {| st_maximum_qos := dflt (ca_max_qos c) 2;
       st_session_expiry_interval := dflt (ca_sei c) (dflt (co_sei co) 0);
       st_receive_maximum_from_server := dflt (ca_receive_max c) 65535;
       st_maximum_packet_size_to_server := dflt (ca_max_packet c) 268435455;
       st_topic_alias_maximum_to_server := dflt (ca_tam c) 0;
       st_server_keep_alive := dflt (ca_server_keep_alive c) (dflt (co_keep_alive co) 0);
       st_retain_available := dflt (ca_retain_avail c) true;
       st_wildcard_subscriptions_available := dflt (ca_wildcard c) true;
       st_subscription_identifiers_available := dflt (ca_subid_avail c) true;
       st_shared_subscriptions_available := dflt (ca_shared c) true;
       st_rejoined_session := ca_session_present c;
       st_client_id := match ca_assigned_id c with
                       | Some i => i
                       | None => match co_client_id co with
                                 | Some i => i
                                 | None => match s_settings s with Some st => st_client_id st | None => [] end
                                 end
                       end |}.

  (* ---- session handling (1623-1673) ---- *)
  Definition apply_session (s : state) (session_present : bool) : res :=
    let r1 :=
      if session_present then pure s else
      let rq := s_rq s in
      let (kept, rejected) := partition_policy s rq in
      let s1 := s <| s_rq := [] |>
                  <| s_ops := fold_left (fun ops id => update id (set_dup false) ops) kept (s_ops s) |>
                  <| s_uq := s_uq s ++ kept |> in
      let r := fail_all s1 rejected EOfflineQueuePolicyFailed in
      if is_panic (r_out r) then r else
      mkRes (r_s r <| s_q2in := [] |> <| s_alloc := [] |>) (r_done r) (r_out r) in
    if is_panic (r_out r1) then r1 else
    let s2 := fold_left unbind (s_uq (r_s r1)) (r_s r1) in
    let s3 := s2 <| s_rq := sort (s_rq s2) |> <| s_uq := sort (s_uq s2) |> in
    let check (b : bool) (site : N) (k : res) : res := if b then k else mkRes s3 (r_done r1) (Panic site) in
    check (match s_hq s3 with [] => true | _ => false end) 1666
   (check (match s_ppub s3 with [] => true | _ => false end) 1667
   (check (match s_pnon s3 with [] => true | _ => false end) 1668
   (check (match s_tmo s3 with [] => true | _ => false end) 1669
   (check (match s_pwco s3 with [] => true | _ => false end) 1670
      (mkRes s3 (r_done r1) (r_out r1)))))).

  (* result of a packet handler: state, completions, packet events, outcome *)
  Record hres := mkHres { h_s : state; h_done : dones; h_ev : list packet; h_out : outcome unit }.
  Definition hres_of (r : res) (ev : list packet) : hres := mkHres (r_s r) (r_done r) ev (r_out r).

  Definition pre_connack (s : state) : bool := pstate_eqb (s_st s) Disconnected || pstate_eqb (s_st s) PendingConnack.

  Definition sum_ss (s : state) : N := fold_left (fun acc '(_, o) => acc + op_ss o) (s_ops s) 0.

  Definition handle_connack (s : state) (now : N) (c : connack) : hres :=
    if negb (pstate_eqb (s_st s) PendingConnack) then mkHres s [] [] (Err EProtocolError)
    else if negb (ca_rc c =? 0) then mkHres s [] [Connack c] (Err EConnectionEstablishmentFailure)
    else
      match v_in None (Connack c) with     (* validate_connack_packet_inbound_internal, again *)
      | Err k => mkHres s [] [] (Err k)
      | Panic site => mkHres s [] [] (Panic site)
      | Ok _ =>
          let st := build_settings s c in
          let k := st_server_keep_alive st in
          let s1 := s <| s_st := Connected |> <| s_connected_before := true |> <| s_settings := Some st |>
                      <| s_connack_to := None |>
                      <| s_ores := ores_reset (s_ores s) (match ca_tam c with Some m => m | None => 0 end) |>
                      <| s_ires := ires_reset (s_ires s) |>
                      <| s_ping_to := None |>
                      <| s_next_ping := (if 0 <? k then Some (now + k * 1000) else None) |> in
          let s2 := if cf_drain_one cfg then s1 <| s_ss_count := sum_ss s1 |> else s1 in
          let r := apply_session s2 (ca_session_present c) in
          match r_out r with
          | Ok _ => mkHres (r_s r) (r_done r) [Connack c] (Ok tt)
          | _ => mkHres (r_s r) (r_done r) [] (r_out r)
          end
      end.

  Definition handle_pingresp (s : state) : hres :=
    match s_st s with
    | Connected | PendingDisconnect =>
        match s_ping_to s with
        | Some _ => mkHres (s <| s_ping_to := None |>) [] [] (Ok tt)
        | None => mkHres s [] [] (Err EProtocolError)
        end
    | _ => mkHres s [] [] (Err EProtocolError)
    end.

  Definition handle_suback (s : state) (a : suback) : hres :=
    if pre_connack s then mkHres s [] [] (Err EProtocolError) else
    match lookup (sa_pid a) (s_pnon s) with
    | None => mkHres s [] [] (Err EProtocolError)
    | Some id =>
        match lookup id (s_ops s) with
        | None => mkHres s [] [] (Panic 1769)
        | Some o =>
            match op_packet o with
            | Subscribe sub =>
                if negb (len (sa_codes a) =? len (s_subs sub)) then mkHres s [] [] (Err EProtocolError)
                else hres_of (succeed_op s id (Some (Suback a))) []
            | _ => mkHres s [] [] (Err EProtocolError)
            end
        end
    end.

  Definition handle_unsuback (s : state) (a : unsuback) : hres :=
    if pre_connack s then mkHres s [] [] (Err EProtocolError) else
    match lookup (ua_pid a) (s_pnon s) with
    | None => mkHres s [] [] (Err EProtocolError)
    | Some id =>
        match lookup id (s_ops s) with
        | None => mkHres s [] [] (Panic 1804)
        | Some o =>
            match op_packet o with
            | Unsubscribe un =>
                let n := len (u_filters un) in
                if version_eqb (cf_version cfg) V311 then
                  let a' := {| ua_pid := ua_pid a; ua_reason := ua_reason a; ua_up := ua_up a;
                               ua_codes := repeat 0 (length (u_filters un)) |} in
                  hres_of (succeed_op s id (Some (Unsuback a'))) []
                else if negb (len (ua_codes a) =? n) then mkHres s [] [] (Err EProtocolError)
                else hres_of (succeed_op s id (Some (Unsuback a))) []
            | _ => mkHres s [] [] (Err EProtocolError)
            end
        end
    end.

  Definition publish_qos_of (s : state) (id : N) : option N :=
    match lookup id (s_ops s) with
    | Some o => match op_packet o with Publish pb => Some (pub_qos pb) | _ => None end
    | None => None
    end.

  Definition handle_puback (s : state) (a : ack) : hres :=
    if pre_connack s then mkHres s [] [] (Err EProtocolError) else
    match lookup (ack_pid a) (s_ppub s) with
    | None => mkHres s [] [] (Err EProtocolError)
    | Some id =>
        match publish_qos_of s id with
        | Some 1 => hres_of (succeed_op s id (Some (Puback a))) []
        | _ => mkHres s [] [] (Err EProtocolError)
        end
    end.

  Definition handle_pubrec (s : state) (a : ack) : hres :=
    if pre_connack s then mkHres s [] [] (Err EProtocolError) else
    match lookup (ack_pid a) (s_ppub s) with
    | None => mkHres s [] [] (Err EProtocolError)
    | Some id =>
        match lookup id (s_ops s) with
        | None => mkHres s [] [] (Ok tt)
        | Some o =>
            match op_packet o with
            | Publish pb =>
                if pub_qos pb =? 2 then
                  if 128 <=? ack_rc a then hres_of (succeed_op s id (Some (Pubrec a))) []
                  else
                    let s1 := s <| s_ops := update id (fun o => o <| op_pubrel := Some (Pubrel (default_ack (ack_pid a))) |>) (s_ops s) |>
                                <| s_hq := s_hq s ++ [id] |> in
                    mkHres s1 [] [] (Ok tt)
                else mkHres s [] [] (Err EProtocolError)
            | _ => mkHres s [] [] (Err EProtocolError)
            end
        end
    end.

  Definition handle_pubrel (s : state) (a : ack) : hres :=
    if pre_connack s then mkHres s [] [] (Err EProtocolError) else
    let s1 := s <| s_q2in := set_remove (ack_pid a) (s_q2in s) |> in
    let (s2, id) := create_operation s1 (new_op (Pubcomp (default_ack (ack_pid a))) false None) in
    mkHres (s2 <| s_hq := s_hq s2 ++ [id] |>) [] [] (Ok tt).

  Definition handle_pubcomp (s : state) (a : ack) : hres :=
    if pre_connack s then mkHres s [] [] (Err EProtocolError) else
    match lookup (ack_pid a) (s_ppub s) with
    | None => mkHres s [] [] (Err EProtocolError)
    | Some id =>
        match lookup id (s_ops s) with
        | None => mkHres s [] [] (Panic 1960)
        | Some o =>
            match op_packet o with
            | Publish pb =>
                if pub_qos pb =? 2 then
                  match op_pubrel o with
                  | Some _ => hres_of (succeed_op s id (Some (Pubcomp a))) []
                  | None => mkHres s [] [] (Err EProtocolError)
                  end
                else mkHres s [] [] (Err EProtocolError)
            | _ => mkHres s [] [] (Panic 1974)
            end
        end
    end.

  Definition handle_publish (s : state) (pb : publish) : hres :=
    if pre_connack s then mkHres s [] [] (Err EProtocolError) else
    if pub_qos pb =? 0 then mkHres s [] [Publish pb] (Ok tt)
    else if pub_qos pb =? 1 then
      let (s1, id) := create_operation s (new_op (Puback (default_ack (pub_pid pb))) false None) in
      mkHres (s1 <| s_hq := s_hq s1 ++ [id] |>) [] [Publish pb] (Ok tt)
    else
      let known := mem (pub_pid pb) (s_q2in s) in
      let s0 := if known then s else s <| s_q2in := set_insert (pub_pid pb) (s_q2in s) |> in
      let (s1, id) := create_operation s0 (new_op (Pubrec (default_ack (pub_pid pb))) false None) in
      mkHres (s1 <| s_hq := s_hq s1 ++ [id] |>) [] (if known then [] else [Publish pb]) (Ok tt).

  Definition handle_disconnect (s : state) (d : disconnect) : hres :=
    if pre_connack s then mkHres s [] [] (Err EProtocolError)
    else if version_eqb (cf_version cfg) V311 then mkHres s [] [] (Err EProtocolError)
    else mkHres s [] [Disconnect d] (Err EConnectionClosed).

  Definition handle_packet (s : state) (now : N) (p : packet) : hres :=
    match p with
    | Connack c => handle_connack s now c
    | Publish pb => handle_publish s pb
    | Pingresp => handle_pingresp s
    | Disconnect d => handle_disconnect s d
    | Suback a => handle_suback s a
    | Unsuback a => handle_unsuback s a
    | Puback a => handle_puback s a
    | Pubcomp a => handle_pubcomp s a
    | Pubrel a => handle_pubrel s a
    | Pubrec a => handle_pubrec s a
    | Auth _ => mkHres s [] [] (Err EUnimplemented)
    | _ => mkHres s [] [] (Err EProtocolError)
    end.

  (* ---- incoming data (1128-1187) ---- *)
  Definition with_topic (pb : publish) (t : bytes) : publish :=
    {| pub_pid := pub_pid pb; pub_topic := t; pub_qos := pub_qos pb; pub_dup := pub_dup pb;
       pub_retain := pub_retain pb; pub_payload := pub_payload pb; pub_pfi := pub_pfi pb; pub_mei := pub_mei pb;
       pub_alias := pub_alias pb; pub_response_topic := pub_response_topic pb; pub_correlation := pub_correlation pb;
       pub_subids := pub_subids pb; pub_content_type := pub_content_type pb; pub_up := pub_up pb |}.

  Fixpoint handle_packets (s : state) (now : N) (ps : list packet) (dn : dones) (ev : list packet) : hres :=
    match ps with
    | [] => mkHres s dn ev (Ok tt)
    | p :: rest =>
        let resolved : outcome (state * packet) :=
          match p with
          | Publish pb =>
              do (i', t) <- ires_resolve (s_ires s) (pub_alias pb) (pub_topic pb) ;
              Ok (s <| s_ires := i' |>, Publish (with_topic pb t))
          | _ => Ok (s, p)
          end in
        match resolved with
        | Err k => mkHres s dn ev (Err k)
        | Panic site => mkHres s dn ev (Panic site)
        | Ok (s1, p1) =>
            match v_in (s_settings s1) p1 with
            | Err k => mkHres (s1 <| s_st := Halted |>) dn ev (Err k)
            | Panic site => mkHres s1 dn ev (Panic site)
            | Ok _ =>
                let h := handle_packet s1 now p1 in
                match h_out h with
                | Ok _ => handle_packets (h_s h) now rest (dn ++ h_done h) (ev ++ h_ev h)
                | Err k => mkHres (h_s h <| s_st := Halted |>) (dn ++ h_done h) (ev ++ h_ev h) (Err k)
                | Panic site => mkHres (h_s h) (dn ++ h_done h) (ev ++ h_ev h) (Panic site)
                end
            end
        end
    end.

  Definition is_connect_op (s : state) (id : N) : bool :=
    match lookup id (s_ops s) with Some o => is_connect (op_packet o) | None => false end.
  Definition connect_in_queue (s : state) : bool :=
    existsb (is_connect_op s) (s_hq s)
    || (match s_cur s with Some id => is_connect_op s id | None => false end)
    || existsb (is_connect_op s) (s_pwco s).

  Definition max_incoming_size : N :=
    match co_max_packet (cf_connect cfg) with Some m => m | None => 268435455 end.

  Definition net_data (s : state) (now : N) (data : bytes) : hres :=
    if pstate_eqb (s_st s) Disconnected || pstate_eqb (s_st s) Halted then mkHres s [] [] (Err EInternalStateError)
    else if pstate_eqb (s_st s) PendingConnack && connect_in_queue s then
      mkHres (s <| s_st := Halted |>) [] [] (Err EProtocolError)
    else
      match dec_feed (cf_version cfg) max_incoming_size (s_dec s) data with
      | (d', ps, r) =>
          let s1 := s <| s_dec := d' |> in
          match r with
          | Ok _ => handle_packets s1 now ps [] []
          | Err k => mkHres (s1 <| s_st := Halted |>) [] [] (Err k)
          | Panic site => mkHres s1 [] [] (Panic site)
          end
      end.

  (* ---- reset (566-596) ---- *)
  Definition reset (s : state) : res :=
    let s0 := if pstate_eqb (s_st s) Disconnected then s else s <| s_st := Halted |> in
    (* results of the individual failures are ignored (`let _ =`), panics are not *)
    let r := fold_left (fun (acc : res) (id : N) =>
                          if is_panic (r_out acc) then acc else
                          let r1 := fail_op (r_s acc) id EClientClosed in
                          mkRes (r_s r1) (r_done acc ++ r_done r1) (if is_panic (r_out r1) then r_out r1 else Ok tt))
                       (map fst (s_ops s0)) (pure s0) in
    if is_panic (r_out r) then r else
    let s1 := r_s r in
    mkRes (s1 <| s_pwc := false |> <| s_ops := [] |> <| s_tmo := [] |> <| s_uq := [] |> <| s_rq := [] |> <| s_hq := [] |>
              <| s_cur := None |> <| s_q2in := [] |> <| s_alloc := [] |> <| s_ppub := [] |> <| s_pnon := [] |> <| s_pwco := [] |>
              <| s_settings := None |> <| s_next_pid := 1 |> <| s_connected_before := false |> <| s_next_ping := None |>
              <| s_ping_to := None |> <| s_connack_to := None |>)
          (r_done r) (Ok tt).

  (* ---- entry points: events and outputs ---- *)
  Inductive event :=
  | EvUser (now : N) (p : packet) (timeout : option N)
  | EvOpen (now deadline : N)
  | EvClose (now : N)
  | EvData (now : N) (data : bytes)
  | EvWriteComplete (now : N)
  | EvService (now cap fill : N)
  | EvNextService (now : N)
  | EvReset (now : N).

  Record output := mkOutput {
    o_res : outcome unit;
    o_bytes : bytes;
    o_done : dones;
    o_events : list packet;
    o_nst : option (option N);
    o_id : option N }.             (* EvUser: the operation id assigned to the submission *)

  Definition out_of_res (r : res) (halt : bool) : state * output :=
    ((if halt then halt_on_error (r_s r) (r_out r) else r_s r), mkOutput (r_out r) [] (r_done r) [] None None).

  Definition step (s : state) (e : event) : state * output :=
    match e with
    | EvUser _ p t =>
        let (s', o) := out_of_res (user_event s p t) false in
        (s', mkOutput (o_res o) [] (o_done o) [] None (Some (s_next_id s)))
    | EvOpen _ deadline => out_of_res (net_opened s deadline) true
    | EvClose _ => out_of_res (net_closed s) true
    | EvWriteComplete _ => out_of_res (net_write_completion s) true
    | EvData now data =>
        let h := net_data s now data in
        (halt_on_error (h_s h) (h_out h), mkOutput (h_out h) [] (h_done h) (h_ev h) None None)
    | EvService now cap fill =>
        let r := service s now cap fill in
        (sr_s r, mkOutput (sr_out r) (sr_bytes r) (sr_done r) [] None None)
    | EvNextService now =>
        match next_service_time s now with
        | Ok t => (s, mkOutput (Ok tt) [] [] [] (Some t) None)
        | Err k => (s, mkOutput (Err k) [] [] [] None None)
        | Panic site => (s, mkOutput (Panic site) [] [] [] None None)
        end
    | EvReset _ => out_of_res (reset s) false
    end.

  Fixpoint run (s : state) (h : list event) : state * list output :=
    match h with
    | [] => (s, [])
    | e :: r => let (s1, o) := step s e in
                let (s2, os) := run s1 r in (s2, o :: os)
    end.

End Engine.

(* the component types are implicit everywhere outside the section *)
Arguments s_st {enc dec ores ires} _.
Arguments s_pwc {enc dec ores ires} _.
Arguments s_ops {enc dec ores ires} _.
Arguments s_tmo {enc dec ores ires} _.
Arguments s_uq {enc dec ores ires} _.
Arguments s_rq {enc dec ores ires} _.
Arguments s_hq {enc dec ores ires} _.
Arguments s_cur {enc dec ores ires} _.
Arguments s_enc {enc dec ores ires} _.
Arguments s_q2in {enc dec ores ires} _.
Arguments s_alloc {enc dec ores ires} _.
Arguments s_ppub {enc dec ores ires} _.
Arguments s_pnon {enc dec ores ires} _.
Arguments s_pwco {enc dec ores ires} _.
Arguments s_settings {enc dec ores ires} _.
Arguments s_next_id {enc dec ores ires} _.
Arguments s_next_pid {enc dec ores ires} _.
Arguments s_connected_before {enc dec ores ires} _.
Arguments s_dec {enc dec ores ires} _.
Arguments s_next_ping {enc dec ores ires} _.
Arguments s_ping_to {enc dec ores ires} _.
Arguments s_connack_to {enc dec ores ires} _.
Arguments s_ores {enc dec ores ires} _.
Arguments s_ires {enc dec ores ires} _.
Arguments s_ss_count {enc dec ores ires} _.
Arguments mkRes {enc dec ores ires} _ _ _.
Arguments r_s {enc dec ores ires} _.
Arguments r_done {enc dec ores ires} _.
Arguments r_out {enc dec ores ires} _.
Arguments mkSres {enc dec ores ires} _ _ _ _.
Arguments sr_s {enc dec ores ires} _.
Arguments sr_bytes {enc dec ores ires} _.
Arguments sr_done {enc dec ores ires} _.
Arguments sr_out {enc dec ores ires} _.
Arguments mkHres {enc dec ores ires} _ _ _ _.
Arguments h_s {enc dec ores ires} _.
Arguments h_done {enc dec ores ires} _.
Arguments h_ev {enc dec ores ires} _.
Arguments h_out {enc dec ores ires} _.
