(* C10 at run level, part 4 (PARTIAL strict version): no operation id occurs twice in the intake queues.
   [DQ s] = NoDup (s_uq s ++ s_rq s).  Proved here: DQ is preserved by EVERY step other than a connection
   close (step_DQ), hence in every run without EvClose - in particular during the whole first connection -
   the queues of a Connected state are STRICTLY sorted by operation id
   (queues_strictly_sorted_first_connection), and more generally from any reachable state with DQ
   onwards as long as no connection closes (queues_strictly_sorted_partial).
   NOT proved: that EvClose re-establishes DQ.  net_closed_raw merges the seated operation, the written
   list s_pwco and the values of the pending tables s_ppub / s_pnon into the queues; that this creates no
   duplicate needs a disjointness invariant over all these places (see the report of the C10 run-level
   work: NoDup of the ids held in uq, rq, pwco, ppub, pnon and in cur/hq when not also pending as a
   PUBREL carrier).  It held on every adversarial run computed on the instance. *)
From GM Require Import Base.Prelude Base.Outcome Codec.Packets Codec.Settings Engine.Model
  EngineProofs.AssocLemmas EngineProofs.WFLemmas EngineProofs.WFDefs EngineProofs.WFStep
  EngineProofs.HandshakeRunTrace EngineProofs.HandshakeRunSt EngineProofs.Order
  EngineProofs.OrderRun EngineProofs.OrderRunMain.
From Coq Require Import Sorting.Sorted Sorting.Permutation.
From RecordUpdate Require Import RecordSet.
Import RecordSetNotations.
Open Scope N_scope.

(* the four component types are implicit in the engine functions, locally to this file *)
(* the four component types are implicit in the engine functions, locally to this file *)
#[local] Arguments init {enc dec} _ {ores ires} _ _.
#[local] Arguments release {enc dec ores ires} _ _ _ _.
#[local] Arguments disconnect_completion {enc dec ores ires} _ _.
#[local] Arguments fail_op {enc dec ores ires} _ _ _ _.
#[local] Arguments ping_extension {enc dec ores ires} _ _.
#[local] Arguments succeed_op {enc dec ores ires} _ _ _ _.
#[local] Arguments fail_all {enc dec ores ires} _ _ _ _.
#[local] Arguments succeed_all {enc dec ores ires} _ _ _.
#[local] Arguments andthen {enc dec ores ires} _ _.
#[local] Arguments try_ {enc dec ores ires} _ _.
#[local] Arguments pure {enc dec ores ires} _.
#[local] Arguments create_operation {enc dec ores ires} _ _.
#[local] Arguments passes_now {enc dec ores ires} _ _ _.
#[local] Arguments user_event {enc dec ores ires} _ _ _ _.
#[local] Arguments create_connect {enc dec ores ires} _ _.
#[local] Arguments net_opened {enc dec} _ {ores ires} _ _ _.
#[local] Arguments op_exists {enc dec ores ires} _ _.
#[local] Arguments op_passes {enc dec ores ires} _ _ _.
#[local] Arguments partition_policy {enc dec ores ires} _ _ _.
#[local] Arguments closed_current {enc dec ores ires} _ _.
#[local] Arguments slow_start_init {enc dec ores ires} _ _.
#[local] Arguments update_retries {enc dec ores ires} _ _.
#[local] Arguments fail_exceeding {enc dec ores ires} _ _.
#[local] Arguments has_pubrel {enc dec ores ires} _ _.
#[local] Arguments net_closed_raw {enc dec ores ires} _ _.
#[local] Arguments net_closed {enc dec ores ires} _ _.
#[local] Arguments net_write_completion {enc dec ores ires} _ _.
#[local] Arguments acquire_free_pid {enc dec ores ires} _ _.
#[local] Arguments acquire_pid_for {enc dec ores ires} _ _.
#[local] Arguments unbind {enc dec ores ires} _ _.
#[local] Arguments passes_receive_max {enc dec ores ires} _ _.
#[local] Arguments throttled {enc dec ores ires} _ _.
#[local] Arguments has_pending_ack {enc dec ores ires} _.
#[local] Arguments dequeue {enc dec ores ires} _ _ _.
#[local] Arguments fully_written {enc dec ores ires} _ _.
#[local] Arguments service_keep_alive {enc dec ores ires} _ _ _.
#[local] Arguments process_ack_timeouts {enc dec ores ires} _ _ _.
#[local] Arguments halt_on_error {enc dec ores ires} _ _.
#[local] Arguments next_service_time {enc dec ores ires} _ _ _.
#[local] Arguments build_settings {enc dec ores ires} _ _ _.
#[local] Arguments apply_session {enc dec ores ires} _ _ _.
#[local] Arguments hres_of {enc dec ores ires} _ _.
#[local] Arguments pre_connack {enc dec ores ires} _.
#[local] Arguments sum_ss {enc dec ores ires} _.
#[local] Arguments handle_pingresp {enc dec ores ires} _.
#[local] Arguments handle_suback {enc dec ores ires} _ _ _.
#[local] Arguments handle_unsuback {enc dec ores ires} _ _ _.
#[local] Arguments publish_qos_of {enc dec ores ires} _ _.
#[local] Arguments handle_puback {enc dec ores ires} _ _ _.
#[local] Arguments handle_pubrec {enc dec ores ires} _ _ _.
#[local] Arguments handle_pubrel {enc dec ores ires} _ _.
#[local] Arguments handle_pubcomp {enc dec ores ires} _ _ _.
#[local] Arguments handle_publish {enc dec ores ires} _ _.
#[local] Arguments handle_disconnect {enc dec ores ires} _ _ _.
#[local] Arguments is_connect_op {enc dec ores ires} _ _.
#[local] Arguments connect_in_queue {enc dec ores ires} _.
#[local] Arguments reset {enc dec ores ires} _ _.
#[local] Arguments out_of_res {enc dec ores ires} _ _.
#[local] Arguments nst_queue {enc dec ores ires} _ _ _ _.
#[local] Arguments earliest_tmo {enc dec ores ires} _.
#[local] Arguments SeatStop {enc dec ores ires} _.
#[local] Arguments SeatContinue {enc dec ores ires} _ _.
#[local] Arguments SeatEncode {enc dec ores ires} _.

(* ---- lists ---- *)
Lemma nodup_app_iff {A} (a b : list A) : NoDup (a ++ b) <-> NoDup a /\ NoDup b /\ (forall x, In x a -> ~ In x b).
Proof.
  induction a as [|x a IH]; cbn [app].
  - split; [intros H; split; [constructor|split; [exact H|intros x []]]|intros (_ & H & _); exact H].
  - rewrite !NoDup_cons_iff, IH, in_app_iff. split.
    + intros (Hx & Ha & Hb & Hd). split; [split; [tauto|exact Ha]|]. split; [exact Hb|]. intros y [<-|Hy]; [tauto|auto].
    + intros ((Hx & Ha) & Hb & Hd). split; [intros [H|H]; [tauto|exact (Hd x (or_introl eq_refl) H)]|].
      split; [exact Ha|]. split; [exact Hb|]. intros y Hy. apply Hd. right. exact Hy.
Qed.

Lemma nodup_app_sub {A} (u r u' r' : list A) :
  NoDup (u ++ r) -> NoDup u' -> NoDup r' -> incl u' u -> incl r' r -> NoDup (u' ++ r').
Proof.
  intros H Hu Hr Iu Ir. apply nodup_app_iff in H. destruct H as (_ & _ & Hd). apply nodup_app_iff.
  split; [exact Hu|]. split; [exact Hr|]. intros x Hx Hx'. exact (Hd x (Iu x Hx) (Ir x Hx')).
Qed.

Definition sorted_lt (l : list N) : Prop := StronglySorted N.lt l.

Lemma sorted_le_nodup_lt l : sorted_le l -> NoDup l -> sorted_lt l.
Proof.
  induction 1 as [|x l Hs IH Hf]; intros Hn; [constructor|]. inversion Hn; subst.
  constructor; [apply IH; assumption|]. rewrite Forall_forall in *. intros y Hy. specialize (Hf y Hy).
  assert (x <> y) by (intros ->; contradiction). lia.
Qed.

Section Strict.
  Variable enc : Type.
  Variable enc_reset : version -> packet -> resolution -> outcome enc.
  Variable enc_call : enc -> N -> N -> outcome (bytes * enc).
  Variable enc_done : enc -> bool.
  Variable dec : Type.
  Variable dec_init : dec.
  Variable dec_feed : version -> N -> dec -> bytes -> dec * list packet * outcome unit.
  Variable ores : Type.
  Variable ores_reset : ores -> N -> ores.
  Variable ores_resolve : ores -> option N -> bytes -> outcome (ores * resolution).
  Variable ires : Type.
  Variable ires_reset : ires -> ires.
  Variable ires_resolve : ires -> option N -> bytes -> outcome (ires * bytes).
  Variable v_out : option settings -> connect_opts -> resolution -> packet -> outcome unit.
  Variable v_in : option settings -> packet -> outcome unit.
  Variable cfg : config.
  Variable HC : comps_ok enc enc_reset enc_call dec dec_init dec_feed ores ores_reset ores_resolve ires ires_reset ires_resolve v_out v_in.
  Hypothesis Hcfg : ok_cfg cfg.

  Notation state := (state enc dec ores ires).
  Notation res := (res enc dec ores ires).
  Notation step := (step enc enc_reset enc_call enc_done dec dec_init dec_feed ores ores_reset ores_resolve
                         ires ires_reset ires_resolve v_out v_in cfg).
  Notation run := (run enc enc_reset enc_call enc_done dec dec_init dec_feed ores ores_reset ores_resolve
                       ires ires_reset ires_resolve v_out v_in cfg).
  Notation init := (init (enc:=enc) dec_init).
  Notation service := (service enc enc_reset enc_call enc_done dec ores ores_reset ores_resolve ires v_out cfg).
  Notation handle_connack := (handle_connack enc dec ores ores_reset ires ires_reset v_in cfg).
  Notation handle_packet := (handle_packet enc dec ores ores_reset ires ires_reset v_in cfg).
  Notation handle_packets := (handle_packets enc dec ores ores_reset ires ires_reset ires_resolve v_in cfg).
  Notation net_data := (net_data enc dec dec_feed ores ores_reset ires ires_reset ires_resolve v_in cfg).
  Notation WFX := (WFX enc enc_reset enc_call dec dec_init dec_feed ores ores_reset ores_resolve ires ires_reset ires_resolve v_out v_in cfg HC).
  Notation OS := (OS enc dec ores ires).
  Notation QF := (QF enc dec ores ires).
  Notation qlt := (WFX_qlt enc enc_reset enc_call dec dec_init dec_feed ores ores_reset ores_resolve ires ires_reset ires_resolve v_out v_in cfg HC).

  Definition DQ (s : state) : Prop := NoDup (s_uq s ++ s_rq s).

  Lemma DQ_eq (s s' : state) : s_uq s' = s_uq s -> s_rq s' = s_rq s -> DQ s -> DQ s'.
  Proof. unfold DQ. intros -> ->. auto. Qed.

  Lemma QF_DQ (s s' : state) : QF s s' -> DQ s -> DQ s'.
  Proof. intros (_ & E1 & E2). apply DQ_eq; assumption. Qed.

  (* ---- session handling: the resubmit queue may move behind the user queue, then both are sorted ---- *)
  Lemma apply_session_DQ (s : state) sp : DQ s -> DQ (r_s (apply_session cfg s sp)).
  Proof.
    intros Hd. unfold apply_session.
    set (r1 := if sp then _ else _).
    assert (H1 : DQ (r_s r1)).
    { unfold r1. destruct sp; [exact Hd|]. unfold partition_policy. cbv zeta.
      match goal with |- context [fail_all cfg ?sx ?l ?e] =>
        destruct (qs_fields _ _ _ _ _ _ (fail_all_qs enc dec ores ires cfg l sx e)) as (_ & Q2 & Q3); set (rf := fail_all cfg sx l e) in * end.
      assert (Hq : DQ (r_s rf)).
      { unfold DQ. rewrite Q2, Q3. cbn. rewrite app_nil_r. unfold DQ in Hd. pose proof Hd as Hd'. apply nodup_app_iff in Hd'.
        destruct Hd' as (Hu & Hr & _). eapply nodup_app_sub; [exact Hd|exact Hu|apply NoDup_filter, NoDup_filter; exact Hr|apply incl_refl|].
        intros x Hx. apply filter_In in Hx. destruct Hx as [Hx _]. apply filter_In in Hx. tauto. }
      destruct (is_panic (r_out rf)); [exact Hq|]. cbn [r_s]. eapply DQ_eq; [| |exact Hq]; reflexivity. }
    clearbody r1. destruct (is_panic (r_out r1)); [exact H1|].
    set (s2 := fold_left unbind (s_uq (r_s r1)) (r_s r1)).
    destruct (fold_unbind_queues enc dec ores ires (s_uq (r_s r1)) (r_s r1)) as [U2 R2]. fold s2 in U2, R2.
    set (s3 := s2 <| s_rq := Model.sort (s_rq s2) |> <| s_uq := Model.sort (s_uq s2) |>).
    assert (H3 : DQ s3).
    { unfold DQ, s3. cbn. rewrite U2, R2. eapply Permutation_NoDup; [|exact H1].
      apply Permutation_app; apply Permutation_sym, sort_perm. }
    cbv zeta.
    repeat match goal with |- context [if ?b then _ else _] => destruct b end; cbn [r_s]; exact H3.
  Qed.

  Lemma handle_connack_DQ (s : state) now c : DQ s -> DQ (h_s (handle_connack s now c)).
  Proof.
    intros Hd. unfold Model.handle_connack. destruct (negb (pstate_eqb (s_st s) PendingConnack)); [exact Hd|].
    destruct (negb (ca_rc c =? 0)); [exact Hd|]. destruct (v_in None (Connack c)); [|exact Hd|exact Hd].
    cbv zeta.
    match goal with |- context [apply_session cfg ?sx ?sp] =>
      assert (Hx : DQ sx) by (destruct (cf_drain_one cfg); exact Hd);
      pose proof (apply_session_DQ sx sp Hx) as Ha; set (r := apply_session cfg sx sp) in * end.
    clearbody r. destruct (r_out r); cbn [h_s]; exact Ha.
  Qed.

  Lemma handle_packet_DQ (s : state) now p : DQ s -> DQ (h_s (handle_packet s now p)).
  Proof.
    intros Hd. pose proof (handle_packet_QF enc dec ores ores_reset ires ires_reset v_in cfg s now p) as Hq.
    destruct p as [c0|c|pb|a1|a2|a3|a4|sb|s0|un|u1| | |d1|au]; cbv beta iota in Hq; try exact (QF_DQ _ _ Hq Hd).
    exact (handle_connack_DQ s now c Hd).
  Qed.

  Lemma handle_packets_DQ now : forall ps (s : state) dn ev, DQ s -> DQ (h_s (handle_packets s now ps dn ev)).
  Proof.
    induction ps as [|p rest IH]; intros s dn ev Hd; cbn [Model.handle_packets]; [exact Hd|].
    assert (Hres : forall x : outcome (state * packet),
              x = match p with
                  | Publish pb => do (i', t) <- ires_resolve (s_ires s) (pub_alias pb) (pub_topic pb) ;
                                  Ok (s <| s_ires := i' |>, Publish (with_topic pb t))
                  | _ => Ok (s, p) end ->
              match x with Ok (s1, _) => DQ s1 | _ => True end).
    { intros x ->. destruct p; try exact Hd. destruct (ires_resolve _ _ _) as [[i' t]| |]; cbn; try exact I. exact Hd. }
    specialize (Hres _ eq_refl).
    destruct (match p with Publish pb => _ | _ => _ end) as [[s1 p1]|k|site]; [|exact Hd|exact Hd].
    destruct (v_in (s_settings s1) p1); [|exact Hres|exact Hres].
    pose proof (handle_packet_DQ s1 now p1 Hres) as Hh.
    destruct (h_out (handle_packet s1 now p1)); cbn [h_s]; [apply IH; exact Hh|exact Hh|exact Hh].
  Qed.

  Lemma net_data_DQ (s : state) now data : DQ s -> DQ (h_s (net_data s now data)).
  Proof.
    intros Hd. unfold Model.net_data. destruct (_ || _); [exact Hd|]. destruct (_ && _); [exact Hd|].
    destruct (dec_feed _ _ _ _) as [[d' ps] r]. destruct r; [|exact Hd|exact Hd].
    apply handle_packets_DQ. exact Hd.
  Qed.

  (* ---- the other events ---- *)
  Lemma net_opened_q (s : state) dl :
    s_uq (r_s (net_opened dec_init cfg s dl)) = s_uq s /\ s_rq (r_s (net_opened dec_init cfg s dl)) = s_rq s.
  Proof. unfold net_opened. destruct (negb _); cbn; split; reflexivity. Qed.

  Lemma net_write_completion_q (s : state) :
    s_uq (r_s (net_write_completion cfg s)) = s_uq s /\ s_rq (r_s (net_write_completion cfg s)) = s_rq s.
  Proof.
    unfold net_write_completion. destruct (_ || _); [split; reflexivity|]. destruct (negb (s_pwc s)); [split; reflexivity|].
    match goal with |- context [succeed_all cfg ?sx ?ids] => destruct (succeed_all_QF enc dec ores ires cfg ids sx) as (_ & E1 & E2) end.
    rewrite E1, E2. split; reflexivity.
  Qed.

  Lemma reset_DQ (s : state) : DQ s -> DQ (r_s (reset cfg s)).
  Proof.
    intros Hd. unfold reset.
    set (s0 := if pstate_eqb (s_st s) Disconnected then s else s <| s_st := Halted |>).
    assert (H0 : DQ s0) by (unfold s0; destruct (pstate_eqb (s_st s) Disconnected); exact Hd).
    assert (Hf : forall ids (acc : res), DQ (r_s acc) ->
              DQ (r_s (fold_left (fun (acc : res) (id : N) =>
                          if is_panic (r_out acc) then acc else
                          let r1 := fail_op cfg (r_s acc) id EClientClosed in
                          mkRes (r_s r1) (r_done acc ++ r_done r1) (if is_panic (r_out r1) then r_out r1 else Ok tt)) ids acc))).
    { induction ids as [|a r IH]; intros acc Ha; cbn [fold_left]; [exact Ha|]. apply IH.
      destruct (is_panic (r_out acc)); [exact Ha|]. cbn [r_s].
      destruct (qs_fields _ _ _ _ _ _ (fail_op_qs enc dec ores ires cfg (r_s acc) a EClientClosed)) as (_ & Q2 & Q3).
      eapply DQ_eq; [exact Q3|exact Q2|exact Ha]. }
    specialize (Hf (map fst (s_ops s0)) (pure s0) H0). cbv zeta.
    destruct (is_panic _); [exact Hf|]. unfold DQ. cbn. constructor.
  Qed.

  Definition no_close (e : event) : Prop := match e with EvClose _ => False | _ => True end.

  (* every step other than a connection close keeps the intake queues free of duplicates *)
  Theorem step_DQ (s : state) e : WFX s -> no_close e -> DQ s -> DQ (fst (step s e)).
  Proof.
    intros HX Hnc Hd.
    destruct e as [now p t|now dl|now|now data|now|now cap fill|now|now]; cbn [Model.step no_close] in *; try contradiction.
    - unfold out_of_res. cbn [fst].
      destruct (user_event_q enc dec ores ires cfg s p t) as (E1 & [E2|E2]); unfold DQ; rewrite E1, E2; [exact Hd|].
      eapply Permutation_NoDup; [|apply NoDup_cons; [|exact Hd]].
      + rewrite <- app_assoc. cbn [app]. apply Permutation_middle.
      + intros Hin. assert (s_next_id s < s_next_id s); [|lia]. apply (qlt s HX). apply in_app_or in Hin. tauto.
    - unfold out_of_res. cbn [fst]. destruct (net_opened_q s dl) as [E1 E2].
      match goal with |- context [halt_on_error ?a ?b] => destruct (halt_on_error_q enc dec ores ires a b) as (_ & F2 & F3) end.
      eapply DQ_eq; [rewrite F3; exact E1|rewrite F2; exact E2|exact Hd].
    - cbn [fst].
      match goal with |- context [halt_on_error ?a ?b] => destruct (halt_on_error_q enc dec ores ires a b) as (_ & F2 & F3) end.
      eapply DQ_eq; [exact F3|exact F2|]. apply net_data_DQ. exact Hd.
    - unfold out_of_res. cbn [fst]. destruct (net_write_completion_q s) as [E1 E2].
      match goal with |- context [halt_on_error ?a ?b] => destruct (halt_on_error_q enc dec ores ires a b) as (_ & F2 & F3) end.
      eapply DQ_eq; [rewrite F3; exact E1|rewrite F2; exact E2|exact Hd].
    - cbn [fst].
      destruct (service_seats_prefix enc enc_reset enc_call enc_done dec ores ores_reset ores_resolve ires v_out cfg s now cap fill) as [R U].
      unfold DQ in *. rewrite R, U in Hd. pose proof Hd as Hd'. apply nodup_app_iff in Hd'. destruct Hd' as (Hu & Hr & _).
      apply nodup_app_iff in Hu. apply nodup_app_iff in Hr.
      eapply nodup_app_sub; [exact Hd|tauto|tauto|intros x Hx; apply in_or_app; right; exact Hx|intros x Hx; apply in_or_app; right; exact Hx].
    - destruct (next_service_time cfg s now); cbn [fst]; exact Hd.
    - unfold out_of_res. cbn [fst]. apply reset_DQ. exact Hd.
  Qed.

  Theorem run_DQ : forall h (s : state), WFX s -> DQ s -> Forall ok_event h -> Forall no_close h -> DQ (fst (run s h)).
  Proof.
    induction h as [|e r IH]; intros s HWF Hd Hall Hnc; cbn [Model.run]; [exact Hd|].
    inversion Hall as [|? ? He Hr]; subst. inversion Hnc as [|? ? Hn Hnr]; subst.
    pose proof (WF_step _ _ _ enc_done _ _ _ _ _ _ _ _ _ _ _ _ HC Hcfg s e HWF He) as HW1.
    pose proof (step_DQ s e HWF Hn Hd) as Hd1.
    destruct (step s e) as [s1 o]. cbn [fst] in *. specialize (IH s1 HW1 Hd1 Hr Hnr).
    destruct (run s1 r) as [s2 os]. exact IH.
  Qed.

  Lemma run_app : forall h1 h2 (s : state), fst (run s (h1 ++ h2)) = fst (run (fst (run s h1)) h2).
  Proof.
    induction h1 as [|e r IH]; intros h2 s; cbn [app Model.run fst]; [reflexivity|].
    destruct (step s e) as [s1 o]. specialize (IH h2 s1). destruct (run s1 (r ++ h2)). destruct (run s1 r). exact IH.
  Qed.

  (* strictly sorted queues, from a reachable duplicate-free state onwards, as long as no connection closes *)
  Theorem queues_strictly_sorted_partial (o : ores) (i : ires) h1 h2 :
    ores_inv HC o -> ires_inv HC i -> Forall ok_event h1 -> Forall ok_event h2 -> Forall no_close h2 ->
    DQ (fst (run (init o i) h1)) ->
    s_st (fst (run (init o i) (h1 ++ h2))) = Connected ->
    sorted_lt (s_rq (fst (run (init o i) (h1 ++ h2)))) /\ sorted_lt (s_uq (fst (run (init o i) (h1 ++ h2)))) /\
    NoDup (s_uq (fst (run (init o i) (h1 ++ h2))) ++ s_rq (fst (run (init o i) (h1 ++ h2)))).
  Proof.
    intros Ho Hi H1 H2 Hnc Hd Hc.
    destruct (reachable_WFX_OS enc enc_reset enc_call enc_done dec dec_init dec_feed ores ores_reset ores_resolve
                ires ires_reset ires_resolve v_out v_in cfg HC Hcfg o i h1 Ho Hi H1) as [HX1 _].
    assert (H12 : Forall ok_event (h1 ++ h2)) by (apply Forall_app; split; assumption).
    destruct (reachable_WFX_OS enc enc_reset enc_call enc_done dec dec_init dec_feed ores ores_reset ores_resolve
                ires ires_reset ires_resolve v_out v_in cfg HC Hcfg o i (h1 ++ h2) Ho Hi H12) as [_ HO].
    destruct (HO Hc) as [Sr Su].
    pose proof (run_DQ h2 _ HX1 Hd H2 Hnc) as Hd2. rewrite <- run_app in Hd2.
    pose proof Hd2 as Hd3. apply nodup_app_iff in Hd3. destruct Hd3 as (Nu & Nr & _).
    split; [apply sorted_le_nodup_lt; assumption|]. split; [apply sorted_le_nodup_lt; assumption|exact Hd2].
  Qed.

  (* in particular during the whole first connection (and any run in which no connection closes) *)
  Theorem queues_strictly_sorted_first_connection (o : ores) (i : ires) h :
    ores_inv HC o -> ires_inv HC i -> Forall ok_event h -> Forall no_close h ->
    s_st (fst (run (init o i) h)) = Connected ->
    sorted_lt (s_rq (fst (run (init o i) h))) /\ sorted_lt (s_uq (fst (run (init o i) h))) /\
    NoDup (s_uq (fst (run (init o i) h)) ++ s_rq (fst (run (init o i) h))).
  Proof.
    intros Ho Hi Hall Hnc Hc.
    apply (queues_strictly_sorted_partial o i [] h Ho Hi (Forall_nil _) Hall Hnc); [|exact Hc].
    unfold DQ. cbn. constructor.
  Qed.
End Strict.
