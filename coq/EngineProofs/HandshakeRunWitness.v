(* Non-vacuity witnesses for the run-level C07 theorems (HandshakeRun.v) on the instantiated engine
   (Engine/Instance.v), by computation:
   - a reachable PendingConnack state whose service call seats exactly the CONNECT (small buffer: it stays
     on the encoder; then the next call seats nothing);
   - a reachable Connected state (the history splits at the CONNACK as connected_only_after_connack says) in
     which no CONNECT operation exists;
   - why the user_ok hypothesis is needed: a CONNECT packet submitted as a user operation while Connected is
     queued and its bytes (first byte 16) are emitted - the client API cannot submit one;
   - a DISCONNECT is submitted and completely written: PendingDisconnect, and later events emit nothing. *)
From GM Require Import Base.Prelude Base.Outcome Codec.Packets Codec.Settings Codec.Steps Codec.ImplEncode
  Codec.Framing Alias.Outbound Alias.Inbound Validate.Rules Engine.Model Engine.Instance
  EngineProofs.AssocLemmas EngineProofs.WFDefs EngineProofs.HandshakeRunTrace EngineProofs.HandshakeRunFrame2
  EngineProofs.HandshakeRunInv EngineProofs.HandshakeRun EngineProofs.IdsWitness.
From RecordUpdate Require Import RecordSet.
Import RecordSetNotations.
Open Scope N_scope.

Definition hw_service (cfg : config) : istate -> N -> N -> N -> sres enc decoder ores ires :=
  service enc impl_steps encode_call enc_done decoder ores ores_reset ores_resolve ires validate_outbound_internal cfg.
Definition hw_seats (cfg : config) : istate -> N -> N -> N -> list seat_ev :=
  service_seats enc impl_steps encode_call enc_done decoder ores ores_reset ores_resolve ires validate_outbound_internal cfg.

Definition hw_cfg : config := x_cfg 0.

Lemma hw_cfg_ok : ok_cfg hw_cfg.
Proof. unfold ok_cfg, TMAX. cbn. lia. Qed.

(* ---- awaiting the CONNACK ---- *)
Definition hw_hist_pc : list event := [EvOpen 0 1000; EvUser 0 (x_pub 1) (Some 5000)].
Definition hw_pc : istate := x_state hw_cfg hw_hist_pc.
Definition hw_pc2 : istate := sr_s (hw_service hw_cfg hw_pc 0 8 0).

Lemma hw_hist_pc_ok : Forall ok_event hw_hist_pc /\ Forall user_ok hw_hist_pc.
Proof. split; repeat constructor. Qed.

Example hw_only_connect :
  Forall ok_event hw_hist_pc /\ Forall user_ok hw_hist_pc /\ s_st hw_pc = PendingConnack /\
  s_hq hw_pc = [1] /\ s_uq hw_pc = [2] /\
  hw_seats hw_cfg hw_pc 0 8 0 = [(QH, 1)] /\ sr_bytes (hw_service hw_cfg hw_pc 0 8 0) <> [] /\
  s_cur hw_pc2 = Some 1 /\ s_st hw_pc2 = PendingConnack /\ s_uq hw_pc2 = [2] /\
  hw_seats hw_cfg (hw_pc2 <| s_pwc := false |>) 0 4096 8 = [] /\
  map (fun x => (fst x, is_connect (op_packet (snd x)))) (s_ops hw_pc) = [(1, true); (2, false)].
Proof.
  split; [apply hw_hist_pc_ok|]. split; [apply hw_hist_pc_ok|]. vm_compute. repeat split; try reflexivity. discriminate.
Qed.

(* ---- connected ---- *)
Definition hw_hist_conn : list event := x_connect_events x_connack_bytes ++ [EvUser 1 (x_pub 1) (Some 5000)].
Definition hw_conn : istate := x_state hw_cfg hw_hist_conn.

Lemma hw_hist_conn_ok : Forall ok_event hw_hist_conn /\ Forall user_ok hw_hist_conn.
Proof. unfold hw_hist_conn, x_connect_events. cbn [app]. split; repeat constructor; cbn; unfold TMAX; lia. Qed.

Example hw_connected :
  Forall ok_event hw_hist_conn /\ Forall user_ok hw_hist_conn /\ s_st hw_conn = Connected /\
  hw_hist_conn = [EvOpen 0 1000; EvService 0 4096 0; EvWriteComplete 0] ++ EvData 0 x_connack_bytes :: [EvUser 1 (x_pub 1) (Some 5000)] /\
  s_st (x_state hw_cfg [EvOpen 0 1000; EvService 0 4096 0; EvWriteComplete 0]) = PendingConnack /\
  map (fun x => is_connect (op_packet (snd x))) (s_ops hw_conn) = [false].
Proof.
  split; [apply hw_hist_conn_ok|]. split; [apply hw_hist_conn_ok|]. vm_compute. repeat split; reflexivity.
Qed.

(* ---- a user-submitted CONNECT while Connected is sent: the hypothesis user_ok is necessary ---- *)
Definition hw_user_connect : packet := Connect (to_connect_packet (x_connect 0) true).
Definition hw_hist_uc : list event := x_connect_events x_connack_bytes ++ [EvUser 1 hw_user_connect (Some 5000)].
Definition hw_uc : istate := x_state hw_cfg hw_hist_uc.

Example hw_user_connect_is_sent :
  Forall ok_event hw_hist_uc /\ ~ Forall user_ok hw_hist_uc /\ s_st hw_uc = Connected /\ s_uq hw_uc = [2] /\
  hw_seats hw_cfg hw_uc 1 4096 0 = [(QU, 2)] /\ hd 0 (sr_bytes (hw_service hw_cfg hw_uc 1 4096 0)) = 16.
Proof.
  split; [unfold hw_hist_uc, x_connect_events; cbn [app]; repeat constructor; cbn; unfold TMAX; lia|].
  split.
  - intros H. unfold hw_hist_uc, x_connect_events in H. cbn [app] in H.
    repeat match goal with H : Forall _ (_ :: _) |- _ => inversion H; clear H; subst end.
    match goal with H : user_ok (EvUser _ _ _) |- _ => cbn in H; discriminate end.
  - vm_compute. repeat split; reflexivity.
Qed.

(* ---- DISCONNECT written: silence ---- *)
Definition hw_disconnect : packet :=
  Disconnect {| d_rc := 0; d_sei := None; d_reason := None; d_up := None; d_server_ref := None |}.
Definition hw_hist_disc : list event :=
  x_connect_events x_connack_bytes ++ [EvUser 1 (x_pub 1) (Some 5000); EvUser 1 hw_disconnect None; EvService 1 4096 0].
Definition hw_disc : istate := x_state hw_cfg hw_hist_disc.
Definition hw_after : list event := [EvWriteComplete 2; EvUser 2 (x_pub 1) (Some 5000); EvService 3 4096 0; EvService 4 4096 0].

Example hw_nothing_after_disconnect :
  Forall ok_event hw_hist_disc /\ Forall ok_event hw_after /\ Forall not_close hw_after /\
  s_st hw_disc = PendingDisconnect /\
  (* the DISCONNECT went out ahead of the publish submitted before it, which is never sent *)
  hd 0 (o_bytes (last (x_outs hw_cfg hw_hist_disc) (mkOutput (Ok tt) [] [] [] None None))) = 224 /\
  s_uq hw_disc = [2] /\
  map o_bytes (snd (i_run hw_cfg hw_disc hw_after)) = [[]; []; []; []].
Proof.
  split; [unfold hw_hist_disc, x_connect_events; cbn [app]; repeat constructor; cbn; unfold TMAX; lia|].
  split; [repeat constructor; cbn; unfold TMAX; lia|]. split; [repeat constructor|].
  vm_compute. repeat split; reflexivity.
Qed.
