(* C18 / C14 run level, part 4: the connection close.  Every phase of net_closed_raw except
   update_retries keeps the frame relations and creates no operation; update_retries adds exactly
   one to the interruption count of the operations of the pending tables.  Hence (close_intr) the
   count of a surviving operation grows by one iff the close caught it in s_ppub / s_pnon, and
   (net_closed_ka) no keep-alive deadline survives the close. *)
From GM Require Import Base.Prelude Base.Outcome Codec.Packets Codec.Settings Engine.Model
  EngineProofs.AssocLemmas EngineProofs.WFLemmas EngineProofs.SvcTimeout EngineProofs.IdsHelpers
  EngineProofs.WFDefs EngineProofs.WFCore EngineProofs.WFComplete EngineProofs.WFClose EngineProofs.WFClose2 EngineProofs.WFEvents
  EngineProofs.TimersRunDefs.
From RecordUpdate Require Import RecordSet.
Import RecordSetNotations.
Open Scope N_scope.

Lemma nodup_snd (l : list (N * N)) :
  NoDup (keys l) -> (forall p p' i, In (p, i) l -> In (p', i) l -> p = p') -> NoDup (map snd l).
Proof.
  induction l as [|[k v] r IH]; cbn; intros Hn Hi; [constructor|].
  inversion Hn as [|? ? Hk Hr]; subst. constructor.
  - intros Hv. apply In_snd_inv in Hv. destruct Hv as (k' & Hk').
    assert (k' = k) by (eapply Hi; [right; exact Hk'|left; reflexivity]). subst k'. apply Hk. eapply In_keys. exact Hk'.
  - apply IH; [exact Hr|]. intros p p' i A B. eapply Hi; right; eassumption.
Qed.

Section Close.
  Variable enc : Type.
  Variable enc_reset : version -> packet -> resolution -> outcome enc.
  Variable enc_call : enc -> N -> N -> outcome (bytes * enc).
  Variable enc_done : enc -> bool.
  Variable dec : Type.
  Variable dec_init : dec.
  Variable dec_feed : version -> N -> dec -> bytes -> dec * list packet * outcome unit.
  Variable ores : Type.
  Variable ores_reset : ores -> N -> ores.
  Variable ores_resolve : ores -> option N -> bytes -> outcome (ores * resolution).
  Variable ires : Type.
  Variable ires_reset : ires -> ires.
  Variable ires_resolve : ires -> option N -> bytes -> outcome (ires * bytes).
  Variable v_out : option settings -> connect_opts -> resolution -> packet -> outcome unit.
  Variable v_in : option settings -> packet -> outcome unit.
  Variable cfg : config.

  Notation state := (Model.state enc dec ores ires).
  Notation init := (Model.init enc dec dec_init ores ires).
  Notation res := (Model.res enc dec ores ires).
  Notation release := (Model.release enc dec ores ires cfg).
  Notation disconnect_completion := (Model.disconnect_completion enc dec ores ires).
  Notation fail_op := (Model.fail_op enc dec ores ires cfg).
  Notation ping_extension := (Model.ping_extension enc dec ores ires).
  Notation succeed_op := (Model.succeed_op enc dec ores ires cfg).
  Notation fail_all := (Model.fail_all enc dec ores ires cfg).
  Notation succeed_all := (Model.succeed_all enc dec ores ires cfg).
  Notation andthen := (Model.andthen enc dec ores ires).
  Notation try_ := (Model.try_ enc dec ores ires).
  Notation pure := (Model.pure enc dec ores ires).
  Notation create_operation := (Model.create_operation enc dec ores ires).
  Notation passes_now := (Model.passes_now enc dec ores ires cfg).
  Notation user_event := (Model.user_event enc dec ores ires cfg).
  Notation create_connect := (Model.create_connect enc dec ores ires cfg).
  Notation net_opened := (Model.net_opened enc dec dec_init ores ires cfg).
  Notation op_exists := (Model.op_exists enc dec ores ires).
  Notation op_passes := (Model.op_passes enc dec ores ires cfg).
  Notation partition_policy := (Model.partition_policy enc dec ores ires cfg).
  Notation closed_current := (Model.closed_current enc dec ores ires cfg).
  Notation slow_start_init := (Model.slow_start_init enc dec ores ires cfg).
  Notation update_retries := (Model.update_retries enc dec ores ires cfg).
  Notation fail_exceeding := (Model.fail_exceeding enc dec ores ires cfg).
  Notation has_pubrel := (Model.has_pubrel enc dec ores ires).
  Notation net_closed_raw := (Model.net_closed_raw enc dec ores ires cfg).
  Notation net_closed := (Model.net_closed enc dec ores ires cfg).
  Notation net_write_completion := (Model.net_write_completion enc dec ores ires cfg).
  Notation acquire_free_pid := (Model.acquire_free_pid enc dec ores ires).
  Notation acquire_pid_for := (Model.acquire_pid_for enc dec ores ires).
  Notation unbind := (Model.unbind enc dec ores ires).
  Notation passes_receive_max := (Model.passes_receive_max enc dec ores ires).
  Notation throttled := (Model.throttled enc dec ores ires cfg).
  Notation has_pending_ack := (Model.has_pending_ack enc dec ores ires).
  Notation dequeue := (Model.dequeue enc dec ores ires cfg).
  Notation fully_written := (Model.fully_written enc dec ores ires).
  Notation sres := (Model.sres enc dec ores ires).
  Notation seat := (Model.seat enc dec ores ires).
  Notation seat_current := (Model.seat_current enc enc_reset dec ores ores_reset ores_resolve ires v_out cfg).
  Notation service_loop := (Model.service_loop enc enc_reset enc_call enc_done dec ores ores_reset ores_resolve ires v_out cfg).
  Notation service_queue := (Model.service_queue enc enc_reset enc_call enc_done dec ores ores_reset ores_resolve ires v_out cfg).
  Notation service_keep_alive := (Model.service_keep_alive enc dec ores ires cfg).
  Notation process_ack_timeouts := (Model.process_ack_timeouts enc dec ores ires cfg).
  Notation halt_on_error := (Model.halt_on_error enc dec ores ires).
  Notation service := (Model.service enc enc_reset enc_call enc_done dec ores ores_reset ores_resolve ires v_out cfg).
  Notation earliest_tmo := (Model.earliest_tmo enc dec ores ires).
  Notation nst_queue := (Model.nst_queue enc dec ores ires cfg).
  Notation next_service_time := (Model.next_service_time enc dec ores ires cfg).
  Notation build_settings := (Model.build_settings enc dec ores ires cfg).
  Notation apply_session := (Model.apply_session enc dec ores ires cfg).
  Notation hres := (Model.hres enc dec ores ires).
  Notation hres_of := (Model.hres_of enc dec ores ires).
  Notation pre_connack := (Model.pre_connack enc dec ores ires).
  Notation sum_ss := (Model.sum_ss enc dec ores ires).
  Notation handle_connack := (Model.handle_connack enc dec ores ores_reset ires ires_reset v_in cfg).
  Notation handle_pingresp := (Model.handle_pingresp enc dec ores ires).
  Notation handle_suback := (Model.handle_suback enc dec ores ires cfg).
  Notation handle_unsuback := (Model.handle_unsuback enc dec ores ires cfg).
  Notation publish_qos_of := (Model.publish_qos_of enc dec ores ires).
  Notation handle_puback := (Model.handle_puback enc dec ores ires cfg).
  Notation handle_pubrec := (Model.handle_pubrec enc dec ores ires cfg).
  Notation handle_pubrel := (Model.handle_pubrel enc dec ores ires).
  Notation handle_pubcomp := (Model.handle_pubcomp enc dec ores ires cfg).
  Notation handle_publish := (Model.handle_publish enc dec ores ires).
  Notation handle_disconnect := (Model.handle_disconnect enc dec ores ires cfg).
  Notation handle_packet := (Model.handle_packet enc dec ores ores_reset ires ires_reset v_in cfg).
  Notation handle_packets := (Model.handle_packets enc dec ores ores_reset ires ires_reset ires_resolve v_in cfg).
  Notation is_connect_op := (Model.is_connect_op enc dec ores ires).
  Notation connect_in_queue := (Model.connect_in_queue enc dec ores ires).
  Notation max_incoming_size := (Model.max_incoming_size cfg).
  Notation net_data := (Model.net_data enc dec dec_feed ores ores_reset ires ires_reset ires_resolve v_in cfg).
  Notation reset := (Model.reset enc dec ores ires cfg).
  Notation out_of_res := (Model.out_of_res enc dec ores ires).
  Notation step := (Model.step enc enc_reset enc_call enc_done dec dec_init dec_feed ores ores_reset ores_resolve ires ires_reset ires_resolve v_out v_in cfg).
  Notation run := (Model.run enc enc_reset enc_call enc_done dec dec_init dec_feed ores ores_reset ores_resolve ires ires_reset ires_resolve v_out v_in cfg).
  Notation SeatStop := (Model.SeatStop enc dec ores ires).
  Notation SeatContinue := (Model.SeatContinue enc dec ores ires).
  Notation SeatEncode := (Model.SeatEncode enc dec ores ires).
  Notation mkState := (Model.mkState enc dec ores ires).

  Ltac slia := try clear v_in; try clear v_out; try clear ires_resolve; try clear ires_reset; try clear ores_resolve;
    try clear ores_reset; try clear dec_feed; try clear dec_init; try clear enc_done; try clear enc_call; try clear enc_reset; lia.
  Ltac dm := match goal with
    | |- context [match ?x with _ => _ end] => destruct x eqn:?
    end.

  Ltac dmh H := match type of H with
    | context [match ?x with _ => _ end] => destruct x eqn:?
    end.
  Notation FR := (TimersRunDefs.FR enc dec ores ires).
  Notation NW := (TimersRunDefs.NW enc dec ores ires).
  Notation KR := (TimersRunDefs.KR enc dec ores ires).
  Notation ORi := (TimersRunDefs.OR enc dec ores ires isame TimersRunDefs.fresh_i).
  Notation ORt := (TimersRunDefs.OR enc dec ores ires tsame fresh_op).
  Notation fv := (TimersRunDefs.fv enc dec ores ires).
  Notation FR_refl := (TimersRunDefs.FR_refl enc dec ores ires).
  Notation FR_trans := (TimersRunDefs.FR_trans enc dec ores ires).
  Notation NW_refl := (TimersRunDefs.NW_refl enc dec ores ires).
  Notation NW_trans := (TimersRunDefs.NW_trans enc dec ores ires).
  Notation KR_refl := (TimersRunDefs.KR_refl enc dec ores ires).
  Notation KR_trans := (TimersRunDefs.KR_trans enc dec ores ires).
  Notation FR_view := (TimersRunDefs.FR_view enc dec ores ires).
  Notation KR_view := (TimersRunDefs.KR_view enc dec ores ires).
  Notation NW_view := (TimersRunDefs.NW_view enc dec ores ires).
  Notation FR_sub := (TimersRunDefs.FR_sub enc dec ores ires).
  Notation FR_from := (TimersRunDefs.FR_from enc dec ores ires).
  Notation FR_ops := (TimersRunDefs.FR_ops enc dec ores ires).
  Notation FR_update := (TimersRunDefs.FR_update enc dec ores ires).
  Notation FR_fold := (TimersRunDefs.FR_fold enc dec ores ires).
  Notation ORt_ORi := (TimersRunDefs.ORt_ORi enc dec ores ires).
  Notation ORi_refl := (TimersRunDefs.ORi_refl enc dec ores ires).
  Notation ORi_trans := (TimersRunDefs.ORi_trans enc dec ores ires).
  Notation create_FR := (TimersRunDefs.create_FR enc dec ores ires).
  Notation halt_on_error_FR := (TimersRunDefs.halt_on_error_FR enc dec ores ires).
  Notation unbind_FR := (TimersRunDefs.unbind_FR enc dec ores ires).
  Notation fold_unbind_FR := (TimersRunDefs.fold_unbind_FR enc dec ores ires).
  Notation andthen_R := (TimersRunDefs.andthen_R enc dec ores ires).
  Notation try_R := (TimersRunDefs.try_R enc dec ores ires).
  Notation fail_all_R := (TimersRunDefs.fail_all_R enc dec ores ires cfg).
  Notation fail_op_FR := (TimersRunDefs.fail_op_FR enc dec ores ires cfg).
  Notation succeed_op_FR := (TimersRunDefs.succeed_op_FR enc dec ores ires cfg).
  Notation fail_all_FR := (TimersRunDefs.fail_all_FR enc dec ores ires cfg).
  Notation succeed_all_FR := (TimersRunDefs.succeed_all_FR enc dec ores ires cfg).
  Notation user_event_FR := (TimersRunDefs.user_event_FR enc dec ores ires cfg).
  Notation net_opened_NW := (TimersRunDefs.net_opened_NW enc dec dec_init ores ires cfg).
  Notation net_write_completion_FR := (TimersRunDefs.net_write_completion_FR enc dec ores ires cfg).
  Notation service_keep_alive_NW := (TimersRunDefs.service_keep_alive_NW enc dec ores ires cfg).
  Notation seat_current_FR := (TimersRunDefs.seat_current_FR enc enc_reset dec ores ores_reset ores_resolve ires v_out cfg).
  Ltac splits := repeat match goal with |- _ /\ _ => split end.
  Ltac frv := apply FR_view; reflexivity.
  Notation pending_ids := (SvcTimeout.pending_ids enc dec ores ires).
  Notation WFS := (@WFDefs.WFS enc dec ores ires).

  (* ---- frame relation + no operation created ---- *)
  Definition R0 (a b : state) : Prop := FR a b /\ s_next_id b = s_next_id a.
  Lemma R0_refl s : R0 s s.
  Proof. split; [apply FR_refl|reflexivity]. Qed.
  Lemma R0_trans a b c : R0 a b -> R0 b c -> R0 a c.
  Proof. intros [A1 A2] [B1 B2]. split; [eapply FR_trans; eassumption|congruence]. Qed.
  Lemma R0_view a b : fv b = fv a -> R0 a b.
  Proof. intros H. split; [apply FR_view; exact H|]. unfold TimersRunDefs.fv in H. repeat (apply pair_equal_spec in H; destruct H as [H ?]). assumption. Qed.
  Ltac r0v := apply R0_view; reflexivity.

  Lemma fail_op_R0 s id e : R0 s (r_s (fail_op s id e)).
  Proof. split; [apply fail_op_FR|]. destruct (IdsHelpers.fail_op_spec enc dec ores ires cfg s id e) as [En _]. exact En. Qed.
  Lemma fail_all_R0 ids s e : R0 s (r_s (fail_all s ids e)).
  Proof. apply (fail_all_R R0 R0_refl R0_trans). apply fail_op_R0. Qed.

  (* no operation is created: every surviving operation is an old one *)
  Lemma R0_old a b : R0 a b -> forall i o', lookup i (s_ops b) = Some o' -> exists o, lookup i (s_ops a) = Some o /\ tsame o o'.
  Proof.
    intros [[[_ [_ N] _ _] _] E] i o' H. destruct (N _ _ H) as [G|[G _]]; [exact G|slia].
  Qed.

  Lemma FR_ops_sub s s' :
    (forall i o', lookup i (s_ops s') = Some o' -> exists o, lookup i (s_ops s) = Some o /\ tsame o o') ->
    s_tmo s' = s_tmo s -> s_next_id s' = s_next_id s ->
    (forall x, In x (s_ppub s') -> In x (s_ppub s)) -> (forall x, In x (s_pnon s') -> In x (s_pnon s)) ->
    (s_st s', s_settings s', s_ping_to s', s_next_ping s') = (s_st s, s_settings s, s_ping_to s, s_next_ping s) -> R0 s s'.
  Proof.
    intros Ho A B C D K. split; [|exact B]. split; [|apply KR_view; exact K]. constructor; auto.
    split; [slia|]. intros i o' Hl. left. auto.
  Qed.

  Lemma closed_current_R0 s : R0 s (r_s (closed_current s)).
  Proof.
    unfold Model.closed_current. destruct (s_cur s) as [id|]; [|cbn; r0v].
    apply (try_R R0 R0_trans); [|intros s1; cbn; r0v].
    destruct (lookup id (s_ops s)) as [o|]; [|apply R0_refl].
    destruct (op_packet o); repeat dm; cbn [Model.pure r_s]; try apply R0_refl; try r0v; apply fail_op_R0.
  Qed.

  Lemma slow_start_init_R0 s s' : slow_start_init s = Ok s' -> R0 s s'.
  Proof.
    unfold Model.slow_start_init. destruct (negb (cf_drain_one cfg)); [intros H; inversion H; apply R0_refl|].
    destruct (forallb _ _); [|discriminate]. intros H; inversion H; subst. split; [|reflexivity].
    eapply FR_fold; [apply (tsame_set_ss 1)|cbn; reflexivity|reflexivity].
  Qed.

  Lemma fail_exceeding_R0 s : R0 s (r_s (fail_exceeding s)).
  Proof.
    unfold Model.fail_exceeding. destruct (cf_retry cfg) as [limit|]; [|apply R0_refl].
    destruct (negb (forallb _ _)); [apply R0_refl|].
    apply (andthen_R R0 R0_trans); [apply fail_all_R0|]. intros s1. destruct (negb (forallb _ _)); [apply R0_refl|apply fail_all_R0].
  Qed.

  Lemma phaseC_R0 s : R0 s (r_s (phaseC cfg s)).
  Proof.
    unfold phaseC. cbv zeta.
    match goal with |- context [partition_policy ?sx ?q] => set (s10 := sx); destruct (partition_policy s10 q) as [kept rejected] end.
    assert (H10 : R0 s s10).
    { unfold s10. apply FR_ops_sub; [|reflexivity|reflexivity|cbn; intros x []|cbn; intros x []|reflexivity].
      intros i o'. cbn. apply (lookup_fold_upd tsame (set_dup true) _ tsame_refl tsame_trans (tsame_set_dup true)). }
    apply (andthen_R R0 R0_trans).
    - eapply R0_trans; [exact H10|]. eapply R0_trans; [|apply fail_all_R0]. r0v.
    - intros s12. cbn. r0v.
  Qed.

  Lemma phaseB_R0 s : R0 s (r_s (phaseB cfg s)).
  Proof.
    unfold phaseB. cbv zeta. destruct (partition_policy s (s_pwco s)) as [kept rejected].
    apply (andthen_R R0 R0_trans).
    - eapply R0_trans; [|apply fail_all_R0]. r0v.
    - intros s7. apply (andthen_R R0 R0_trans); [apply fail_exceeding_R0|intros s8; apply phaseC_R0].
  Qed.

  Lemma phaseA_R0 s : R0 s (r_s (phaseA cfg s)).
  Proof.
    unfold phaseA. cbv zeta. apply (andthen_R R0 R0_trans).
    - eapply R0_trans; [|apply fail_all_R0]. r0v.
    - intros s5. apply phaseB_R0.
  Qed.

  Lemma update_retries_view s s' : update_retries s = Ok s' ->
    (s_tmo s', s_next_id s', s_ppub s', s_pnon s', s_st s', s_settings s', s_ping_to s', s_next_ping s') =
    (s_tmo s, s_next_id s, s_ppub s, s_pnon s, s_st s, s_settings s, s_ping_to s, s_next_ping s).
  Proof.
    unfold Model.update_retries. destruct (cf_retry cfg); [|intros H; inversion H; reflexivity].
    destruct (forallb _ _); [|discriminate]. intros H; inversion H; reflexivity.
  Qed.

  (* ---- no keep-alive deadline survives the close ---- *)
  Lemma net_closed_ka s : s_st s <> Disconnected ->
    s_next_ping (r_s (net_closed s)) = None /\ s_ping_to (r_s (net_closed s)) = None.
  Proof.
    intros Hst. assert (Hr : r_s (net_closed s) = r_s (net_closed_raw s)).
    { unfold Model.net_closed. destruct (pstate_eqb (s_st s) Disconnected); [reflexivity|].
      destruct (r_out (net_closed_raw s)) as [|k|]; try reflexivity. destruct k; reflexivity. }
    rewrite Hr, net_closed_raw_unfold. apply pstate_eqb_neq in Hst. rewrite Hst. cbv zeta.
    match goal with |- context [closed_current ?sx] => set (s0 := sx) end.
    assert (HK : KR s0 (r_s (try_ (closed_current s0) (fun s1 =>
              match slow_start_init s1 with
              | Ok s2 => match update_retries s2 with
                         | Ok s3 => phaseA cfg s3
                         | Err k => Model.mkRes s2 [] (Err k)
                         | Panic site => Model.mkRes s2 [] (Panic site) end
              | Err k => Model.mkRes s1 [] (Err k)
              | Panic site => Model.mkRes s1 [] (Panic site) end)))).
    { apply (try_R KR KR_trans); [apply closed_current_R0|]. intros s1.
      destruct (slow_start_init s1) as [s2| |] eqn:E2; [|apply KR_refl..].
      assert (K2 : KR s1 s2) by (apply (slow_start_init_R0 _ _ E2)).
      destruct (update_retries s2) as [s3| |] eqn:E3; [|exact K2..].
      eapply KR_trans; [exact K2|]. eapply KR_trans; [|apply phaseA_R0].
      pose proof (update_retries_view _ _ E3) as V. repeat (apply pair_equal_spec in V; destruct V as [V ?]).
      apply KR_view. congruence. }
    destruct HK as [_ _ K3 K4]. cbn in K4. split; [exact K4|]. destruct K3 as [K3|K3]; [rewrite K3; reflexivity|exact K3].
  Qed.

  (* ---- packet ids of the pending tables are held by the operation recorded there ---- *)
  Definition PC2 (s : state) : Prop :=
    forall p i, In (p, i) (s_ppub s) \/ In (p, i) (s_pnon s) ->
      forall j o, lookup j (s_ops s) = Some o -> op_pid o = Some p -> j = i.

  Lemma WFS_PC2 s : WFS s -> PC2 s.
  Proof.
    intros HW p i [Hin|Hin] j o Hl Hp; symmetry.
    - eapply (wfc_ppub_owner [] (core_of s)); eauto.
    - eapply (wfc_pnon_owner [] (core_of s)); eauto.
  Qed.

  Lemma PC2_view s s' : (s_ops s', s_ppub s', s_pnon s') = (s_ops s, s_ppub s, s_pnon s) -> PC2 s -> PC2 s'.
  Proof. intros H. repeat (apply pair_equal_spec in H; destruct H as [H ?]). unfold PC2. rewrite H, H0, H1. auto. Qed.

  Lemma release_tables s id o s1 : release s id o = Ok s1 ->
    s_ops s1 = remove id (s_ops s) /\
    s_ppub s1 = match op_pid o with Some p => remove p (s_ppub s) | None => s_ppub s end /\
    s_pnon s1 = match op_pid o with Some p => remove p (s_pnon s) | None => s_pnon s end.
  Proof. unfold Model.release. destruct (op_pid o); cbn; repeat dm; intros H; inversion H; repeat split. Qed.

  Lemma disconnect_completion_tables s o :
    s_ops (fst (disconnect_completion s o)) = s_ops s /\ s_ppub (fst (disconnect_completion s o)) = s_ppub s /\
    s_pnon (fst (disconnect_completion s o)) = s_pnon s.
  Proof. unfold Model.disconnect_completion. repeat dm; repeat split. Qed.

  (* one failure: the failed operation leaves, every other entry of the pending tables stays *)
  Lemma fail_op_keeps s k e : PC2 s ->
    PC2 (r_s (fail_op s k e)) /\
    forall p i, lookup i (s_ops (r_s (fail_op s k e))) <> None ->
      (In (p, i) (s_ppub s) -> In (p, i) (s_ppub (r_s (fail_op s k e)))) /\
      (In (p, i) (s_pnon s) -> In (p, i) (s_pnon (r_s (fail_op s k e)))).
  Proof.
    intros HC. unfold Model.fail_op. destruct (lookup k (s_ops s)) as [o|] eqn:El; [|cbn [r_s]; split; [exact HC|tauto]].
    destruct (release s k o) as [s1| |] eqn:Er; [|cbn [r_s]; split; [exact HC|tauto]..].
    destruct (release_tables _ _ _ _ Er) as (A1 & A2 & A3). destruct (disconnect_completion_tables s1 o) as (B1 & B2 & B3).
    destruct (disconnect_completion s1 o) as [s2 r0]. cbn [fst] in B1, B2, B3.
    assert (G : PC2 s2 /\ forall p i, lookup i (s_ops s2) <> None ->
              (In (p, i) (s_ppub s) -> In (p, i) (s_ppub s2)) /\ (In (p, i) (s_pnon s) -> In (p, i) (s_pnon s2))).
    { rewrite B1, B2, B3, A1, A2, A3. split.
      - intros p i Hin j o' Hl Hp. rewrite B1, A1 in Hl. apply lookup_remove_inv in Hl. destruct Hl as [Hl _].
        rewrite B2, B3, A2, A3 in Hin. eapply (HC p i); [|exact Hl|exact Hp].
        destruct Hin as [Hin|Hin]; [left|right]; destruct (op_pid o); try exact Hin; eapply in_remove_values; exact Hin.
      - intros p i Hex. assert (Hne : i <> k) by (intros ->; apply Hex; apply lookup_remove_eq).
        destruct (op_pid o) as [pk|] eqn:Ep; [|tauto].
        assert (Hp : forall q, In (q, i) (s_ppub s) \/ In (q, i) (s_pnon s) -> q <> pk).
        { intros q Hq ->. apply Hne. symmetry. eapply (HC pk i Hq k o); assumption. }
        split; intros Hin; apply In_remove; (split; [exact Hin|apply Hp; tauto]). }
    repeat dm; cbn [r_s]; exact G.
  Qed.

  Lemma fail_all_keeps ids : forall s e, PC2 s ->
    PC2 (r_s (fail_all s ids e)) /\
    forall p i, lookup i (s_ops (r_s (fail_all s ids e))) <> None ->
      (In (p, i) (s_ppub s) -> In (p, i) (s_ppub (r_s (fail_all s ids e)))) /\
      (In (p, i) (s_pnon s) -> In (p, i) (s_pnon (r_s (fail_all s ids e)))).
  Proof.
    induction ids as [|k r IH]; intros s e HC; cbn [Model.fail_all]; [cbn [r_s]; tauto|].
    destruct (fail_op_keeps s k e HC) as [HC1 K1].
    destruct (is_panic _); [split; assumption|].
    destruct (IH (r_s (fail_op s k e)) e HC1) as [HC2 K2].
    assert (G : PC2 (r_s (fail_all (r_s (fail_op s k e)) r e)) /\
              forall p i, lookup i (s_ops (r_s (fail_all (r_s (fail_op s k e)) r e))) <> None ->
                (In (p, i) (s_ppub s) -> In (p, i) (s_ppub (r_s (fail_all (r_s (fail_op s k e)) r e)))) /\
                (In (p, i) (s_pnon s) -> In (p, i) (s_pnon (r_s (fail_all (r_s (fail_op s k e)) r e))))).
    { split; [exact HC2|]. intros p i Hex.
      assert (Hex1 : lookup i (s_ops (r_s (fail_op s k e))) <> None).
      { destruct (lookup i (s_ops (r_s (fail_all (r_s (fail_op s k e)) r e)))) as [o|] eqn:E; [|congruence].
        apply (SvcTimeout.fail_all_sub enc dec ores ires cfg) in E. congruence. }
      destruct (K1 p i Hex1) as [A B]. destruct (K2 p i Hex) as [C D]. tauto. }
    destruct (is_panic _); cbn [r_s]; exact G.
  Qed.

  (* the seated operation leaves its seat: the pending tables lose at most its own entry *)
  Lemma closed_current_keeps s : PC2 s ->
    forall p i, lookup i (s_ops (r_s (closed_current s))) <> None ->
      (In (p, i) (s_ppub s) -> In (p, i) (s_ppub (r_s (closed_current s)))) /\
      (In (p, i) (s_pnon s) -> In (p, i) (s_pnon (r_s (closed_current s)))).
  Proof.
    intros HC. unfold Model.closed_current. destruct (s_cur s) as [id|]; [|cbn; tauto].
    match goal with |- context [try_ ?r ?f] => set (r1 := r) end.
    assert (Ht : (s_ops (r_s (try_ r1 (fun s' => pure (s' <| s_cur := None |>)))),
                  s_ppub (r_s (try_ r1 (fun s' => pure (s' <| s_cur := None |>)))),
                  s_pnon (r_s (try_ r1 (fun s' => pure (s' <| s_cur := None |>))))) = (s_ops (r_s r1), s_ppub (r_s r1), s_pnon (r_s r1))).
    { unfold Model.try_. destruct (r_out r1); reflexivity. }
    apply pair_equal_spec in Ht. destruct Ht as [Ht E3]. apply pair_equal_spec in Ht. destruct Ht as [E1 E2].
    rewrite E1, E2, E3. clear E1 E2 E3.
    assert (Hf : forall e p i, lookup i (s_ops (r_s (fail_op s id e))) <> None ->
              (In (p, i) (s_ppub s) -> In (p, i) (s_ppub (r_s (fail_op s id e)))) /\
              (In (p, i) (s_pnon s) -> In (p, i) (s_pnon (r_s (fail_op s id e))))).
    { intros e. apply (fail_op_keeps s id e HC). }
    unfold r1. destruct (lookup id (s_ops s)) as [o|]; [|cbn; tauto].
    destruct (op_packet o); repeat dm; cbn [Model.pure r_s]; try (cbn; tauto); apply Hf.
  Qed.

  (* ---- the pending ids of a well-formed state are duplicate-free ---- *)
  Lemma pending_nodup s : WFS s -> NoDup (pending_ids s).
  Proof.
    intros HW. unfold SvcTimeout.pending_ids. apply WFEvents.nodup_app_intro.
    - apply nodup_snd; [apply inc_NoDup; exact (w_pnon_inc _ _ HW)|]. intros p p' i A B.
      destruct (w_pnon _ _ HW _ _ A) as (o & Ho & Hp & _). destruct (w_pnon _ _ HW _ _ B) as (o' & Ho' & Hp' & _). congruence.
    - apply nodup_snd; [apply inc_NoDup; exact (w_ppub_inc _ _ HW)|]. intros p p' i A B.
      destruct (w_ppub _ _ HW _ _ A) as (o & Ho & Hp & _). destruct (w_ppub _ _ HW _ _ B) as (o' & Ho' & Hp' & _). congruence.
    - intros i A B. apply In_snd_inv in A. apply In_snd_inv in B. destruct A as (p & A). destruct B as (p' & B).
      destruct (w_pnon _ _ HW _ _ A) as (o & Ho & _ & Hk). destruct (w_ppub _ _ HW _ _ B) as (o' & Ho' & _ & Hk').
      assert (o' = o) by congruence. subst o'. destruct (op_packet o); cbn in Hk, Hk'; discriminate.
  Qed.

  (* ---- the interruption count through a close ---- *)
  Lemma net_closed_rs s : r_s (net_closed s) = r_s (net_closed_raw s).
  Proof.
    unfold Model.net_closed. destruct (pstate_eqb (s_st s) Disconnected); [reflexivity|].
    destruct (r_out (net_closed_raw s)) as [|k|]; try reflexivity. destruct k; reflexivity.
  Qed.

  Lemma net_closed_done s : r_done (net_closed s) = r_done (net_closed_raw s).
  Proof.
    unfold Model.net_closed. destruct (pstate_eqb (s_st s) Disconnected); [reflexivity|].
    destruct (r_out (net_closed_raw s)) as [|k|]; try reflexivity. destruct k; reflexivity.
  Qed.

  Lemma slow_start_init_tables s s' : slow_start_init s = Ok s' -> s_ppub s' = s_ppub s /\ s_pnon s' = s_pnon s.
  Proof.
    unfold Model.slow_start_init. destruct (negb (cf_drain_one cfg)); [intros H; inversion H; split; reflexivity|].
    destruct (forallb _ _); [|discriminate]. intros H; inversion H; split; reflexivity.
  Qed.

  Lemma pend_iff (a b : state) i :
    (forall p, In (p, i) (s_ppub a) <-> In (p, i) (s_ppub b)) -> (forall p, In (p, i) (s_pnon a) <-> In (p, i) (s_pnon b)) ->
    mem i (pending_ids a) = mem i (pending_ids b).
  Proof.
    intros Hp Hn.
    assert (H : In i (pending_ids a) <-> In i (pending_ids b)).
    { unfold SvcTimeout.pending_ids. rewrite !in_app_iff. split; intros [H|H]; apply In_snd_inv in H; destruct H as (p & H);
        [left; apply (In_snd p); apply Hn|right; apply (In_snd p); apply Hp|left; apply (In_snd p); apply Hn|right; apply (In_snd p); apply Hp]; exact H. }
    destruct (mem i (pending_ids a)) eqn:Ea, (mem i (pending_ids b)) eqn:Eb; try reflexivity.
    - apply mem_In in Ea. apply H in Ea. apply mem_In in Ea. congruence.
    - apply mem_In in Eb. apply H in Eb. apply mem_In in Eb. congruence.
  Qed.

  Lemma fail_op_done s id e i c : In (i, c) (r_done (fail_op s id e)) -> c = CompErr e.
  Proof.
    unfold Model.fail_op. destruct (lookup id (s_ops s)) as [o|]; [|intros []].
    destruct (release s id o) as [s1| |]; [|intros []..]. destruct (disconnect_completion s1 o) as [s2 r0].
    destruct r0 as [[]| |]; [|intros []..]. destruct (op_user o); [|intros []]. intros [H|[]]. inversion H. reflexivity.
  Qed.

  Lemma closed_current_done s i c : In (i, c) (r_done (closed_current s)) -> c <> CompErr EMaxInterruptedRetriesExceeded.
  Proof.
    unfold Model.closed_current. destruct (s_cur s) as [id|]; [|intros []].
    match goal with |- context [try_ ?r ?f] => set (r1 := r) end.
    assert (H1 : In (i, c) (r_done r1) -> c <> CompErr EMaxInterruptedRetriesExceeded).
    { unfold r1. destruct (lookup id (s_ops s)) as [o|]; [|intros []].
      destruct (op_packet o); repeat dm; cbn [Model.pure r_done]; try (intros []); intros H; apply fail_op_done in H; subst c; discriminate. }
    unfold Model.try_. destruct (r_out r1); [|exact H1..]. cbn [r_done Model.pure]. rewrite app_nil_r. exact H1.
  Qed.

  (* the state in which update_retries runs, and the state it produces *)
  Lemma close_phases s : WFS s -> s_st s <> Disconnected ->
    exists s2 s3, update_retries s2 = Ok s3 /\ WFS s2 /\ WFS s3 /\ R0 s3 (r_s (net_closed s)) /\
      r_s (net_closed s) = r_s (phaseA cfg s3) /\
      (forall i o2, lookup i (s_ops s2) = Some o2 -> exists o, lookup i (s_ops s) = Some o /\ tsame o o2) /\
      (forall i, lookup i (s_ops s2) <> None -> mem i (pending_ids s2) = mem i (pending_ids s)) /\
      s_next_id s3 = s_next_id s /\
      r_out (net_closed_raw s) = r_out (phaseA cfg s3) /\
      exists d0, r_done (net_closed_raw s) = d0 ++ r_done (phaseA cfg s3) /\
                 forall i c, In (i, c) d0 -> c <> CompErr EMaxInterruptedRetriesExceeded.
  Proof.
    intros HW Hst. rewrite net_closed_rs.
    rewrite net_closed_raw_unfold. apply pstate_eqb_neq in Hst. rewrite Hst. cbv zeta.
    match goal with |- context [closed_current ?sx] => set (s0 := sx) end.
    assert (HW0 : WFS s0) by exact HW.
    destruct (closed_current_spec cfg s0 HW0 eq_refl) as (A1 & A2 & _).
    pose proof (closed_current_R0 s0) as A3. pose proof (closed_current_keeps s0 (WFS_PC2 s0 HW0)) as A4.
    unfold Model.try_. rewrite A1. cbn [r_s r_out r_done]. set (s1 := r_s (closed_current s0)) in *.
    destruct (slow_start_init_spec cfg s1 A2) as (s2 & E2 & B1 & _). rewrite E2.
    destruct (update_retries_spec cfg s2 B1) as (s3 & E3 & C1 & _). rewrite E3.
    exists s2, s3. split; [exact E3|]. split; [exact B1|]. split; [exact C1|]. split; [apply phaseA_R0|]. split; [reflexivity|].
    pose proof (slow_start_init_R0 _ _ E2) as B2. destruct (slow_start_init_tables _ _ E2) as [B3 B4].
    split; [|split; [|split; [|split; [reflexivity|]]]].
    4:{ exists (r_done (closed_current s0)). split; [reflexivity|]. intros i c. apply closed_current_done. }
    - intros i o2 H2. destruct (R0_old _ _ B2 _ _ H2) as (o1 & H1 & T1). destruct (R0_old _ _ A3 _ _ H1) as (o0 & H0 & T0).
      exists o0. split; [exact H0|eapply tsame_trans; eassumption].
    - intros i Hex. assert (Hex1 : lookup i (s_ops s1) <> None).
      { destruct (lookup i (s_ops s2)) as [o2|] eqn:E; [|congruence]. destruct (R0_old _ _ B2 _ _ E) as (o1 & H1 & _). congruence. }
      apply pend_iff; intros p; rewrite ?B3, ?B4; (split; [|apply (A4 p i Hex1)]).
      + destruct A3 as [[[_ _ N _] _] _]. apply N.
      + destruct A3 as [[[_ _ _ N] _] _]. apply N.
    - pose proof (update_retries_view _ _ E3) as V. repeat (apply pair_equal_spec in V; destruct V as [V ?]).
      destruct B2 as [_ B2]. destruct A3 as [_ A3]. unfold s1 in *. change (s_next_id s0) with (s_next_id s) in A3. congruence.
  Qed.

  Definition caught_inc (s : state) (i : N) : N :=
    match cf_retry cfg with Some _ => if mem i (pending_ids s) then 1 else 0 | None => 0 end.

  Theorem close_intr s : WFS s -> s_st s <> Disconnected ->
    forall i o', lookup i (s_ops (r_s (net_closed s))) = Some o' ->
      exists o, lookup i (s_ops s) = Some o /\ op_user o' = op_user o /\ op_timeout o' = op_timeout o /\ op_ext o' = op_ext o /\
                op_intr o' = op_intr o + caught_inc s i.
  Proof.
    intros HW Hst i o' Hl. destruct (close_phases s HW Hst) as (s2 & s3 & E3 & W2 & W3 & D & _ & Hold & Hpend & _ & _ & _).
    destruct (R0_old _ _ D _ _ Hl) as (o3 & H3 & T31 & T32 & T33 & T34).
    pose proof (update_retries_exact enc dec ores ires cfg s2 s3 E3 (pending_nodup s2 W2)) as X. unfold caught_inc.
    destruct (cf_retry cfg) as [limit|].
    - destruct X as [_ X]. rewrite X in H3.
      assert (Hex : lookup i (s_ops s2) <> None) by (destruct (lookup i (s_ops s2)); [discriminate|destruct (mem _ _); discriminate]).
      rewrite <- (Hpend i Hex). destruct (lookup i (s_ops s2)) as [o2|] eqn:E2; [|congruence].
      destruct (Hold _ _ E2) as (o & Ho & T1 & T2 & T3 & T4). exists o. split; [exact Ho|].
      destruct (mem i (pending_ids s2)); cbn in H3; inversion H3; subst o3; cbn in *; repeat split; try congruence; slia.
    - subst s3. destruct (Hold _ _ H3) as (o & Ho & T1 & T2 & T3 & T4). exists o. split; [exact Ho|]. repeat split; try congruence. slia.
  Qed.

  Lemma close_nid s : WFS s -> s_st s <> Disconnected -> s_next_id (r_s (net_closed s)) = s_next_id s.
  Proof.
    intros HW Hst. destruct (close_phases s HW Hst) as (s2 & s3 & _ & _ & _ & [_ D] & _ & _ & _ & Hn & _ & _). congruence.
  Qed.
End Close.
