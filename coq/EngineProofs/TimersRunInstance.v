(* C18 / C14 run level for the concrete engine of Engine/Instance.v (the functions the correspondence
   check executes): the component hypotheses are discharged by WFInstance.instance_comps_ok. *)
From GM Require Import Base.Prelude Base.Outcome Codec.Packets Codec.Settings Codec.Steps Codec.ImplEncode
  Codec.Framing Alias.Outbound Alias.Inbound Validate.Rules Engine.Model Engine.Instance
  EngineProofs.SvcTimeout EngineProofs.WFDefs EngineProofs.WFInstance
  EngineProofs.TimersRunData EngineProofs.TimersRun EngineProofs.TimersRunThms EngineProofs.TimersRunPing EngineProofs.TimersRunRetry EngineProofs.TimersRunFire.
Open Scope N_scope.

(* the ghosts, for the instance *)
Definition i_intr_count (cfg : config) : istate -> list event -> N -> N :=
  TimersRun.intr_count enc impl_steps encode_call enc_done decoder decoder_init decode_bytes ores ores_reset ores_resolve
    ires ires_reset ires_resolve validate_outbound_internal validate_inbound_internal cfg.
Definition i_arm_ghost (cfg : config) : istate -> list event -> option N -> option N :=
  TimersRunPing.arm_ghost enc impl_steps encode_call enc_done decoder decoder_init decode_bytes ores ores_reset ores_resolve
    ires ires_reset ires_resolve validate_outbound_internal validate_inbound_internal cfg.
Definition i_timely (cfg : config) : istate -> list event -> option N -> Prop :=
  TimersRunPing.timely enc impl_steps encode_call enc_done decoder decoder_init decode_bytes ores ores_reset ores_resolve
    ires ires_reset ires_resolve validate_outbound_internal validate_inbound_internal cfg.
Definition i_no_ka_timeout (cfg : config) : istate -> list event -> Prop :=
  TimersRunPing.no_ka_timeout enc impl_steps encode_call enc_done decoder decoder_init decode_bytes ores ores_reset ores_resolve
    ires ires_reset ires_resolve validate_outbound_internal validate_inbound_internal cfg.
Definition i_keep_alive (cfg : config) : istate -> N -> outcome istate := service_keep_alive enc decoder ores ires cfg.
Definition i_pending : istate -> list N := SvcTimeout.pending_ids enc decoder ores ires.

Section Instance.
  Variable cfg : config.
  Hypothesis Hcfg : ok_cfg cfg.
  Variable k : resolver_kind.
  Variable h : list event.
  Hypothesis Hh : Forall ok_event h.

  Let o0 := ores_init k.
  Let i0 := ires_init (match co_tam (cf_connect cfg) with Some m => m | None => 0 end).
  Notation sI := (fst (i_run cfg (i_init cfg k) h)).

  Theorem instance_run_armed : forall p i o T w,
    In (p, i) (s_ppub sI) \/ In (p, i) (s_pnon sI) -> lookup i (s_ops sI) = Some o ->
    op_user o = true -> op_timeout o = Some T -> op_ext o = Some w -> w + T <= IMAX -> In (i, w + T) (s_tmo sI).
  Proof. exact (run_armed _ _ _ enc_done _ _ _ _ _ _ _ _ _ _ _ cfg instance_comps_ok Hcfg o0 i0 h I I Hh). Qed.

  Theorem instance_run_timeout_fires : forall p i o T w now cap fill,
    In (p, i) (s_ppub sI) \/ In (p, i) (s_pnon sI) -> lookup i (s_ops sI) = Some o ->
    op_user o = true -> op_timeout o = Some T -> op_ext o = Some w -> w + T <= IMAX ->
    w + T <= now -> o_res (snd (i_step cfg sI (EvService now cap fill))) = Ok tt ->
    lookup i (s_ops (fst (i_step cfg sI (EvService now cap fill)))) = None.
  Proof. exact (run_timeout_fires _ _ _ enc_done _ _ _ _ _ _ _ _ _ _ _ cfg instance_comps_ok Hcfg o0 i0 h I I Hh). Qed.

  Theorem instance_run_timeout_acktimeout : forall p i o T w now cap fill,
    In (p, i) (s_ppub sI) \/ In (p, i) (s_pnon sI) -> lookup i (s_ops sI) = Some o ->
    op_user o = true -> op_timeout o = Some T -> op_ext o = Some w -> w + T <= IMAX -> w + T <= now ->
    ~ In i (s_hq sI) -> ~ In i (s_rq sI) -> ~ In i (s_uq sI) -> s_cur sI <> Some i ->
    o_res (snd (i_step cfg sI (EvService now cap fill))) = Ok tt ->
    In (i, CompErr EAckTimeout) (o_done (snd (i_step cfg sI (EvService now cap fill)))).
  Proof. exact (run_timeout_acktimeout _ _ _ enc_done _ _ _ _ _ _ _ _ _ _ _ cfg instance_comps_ok Hcfg o0 i0 h I I Hh). Qed.

  Theorem instance_run_records_sound : forall i t, In (i, t) (s_tmo sI) ->
    t <= IMAX /\ exists w T, t = w + T /\ In w (epoch h) /\
      forall o, lookup i (s_ops sI) = Some o ->
        op_user o = true /\ op_timeout o = Some T /\ exists we, op_ext o = Some we /\ In we (epoch h).
  Proof. exact (run_records_sound _ _ _ enc_done _ _ _ _ _ _ _ _ _ _ _ cfg instance_comps_ok Hcfg o0 i0 h I I Hh). Qed.

  Theorem instance_run_record_written : forall i t o, In (i, t) (s_tmo sI) -> lookup i (s_ops sI) = Some o ->
    exists we h1 cap fill h2, op_ext o = Some we /\ h = h1 ++ EvService we cap fill :: h2 /\ Forall no_close h2.
  Proof. exact (run_record_written _ _ _ enc_done _ _ _ _ _ _ _ _ _ _ _ cfg instance_comps_ok Hcfg o0 i0 h I I Hh). Qed.

  Theorem instance_run_no_record : forall i o, lookup i (s_ops sI) = Some o ->
    op_user o = false \/ op_timeout o = None \/ op_ext o = None -> forall t, ~ In (i, t) (s_tmo sI).
  Proof. exact (run_no_record _ _ _ enc_done _ _ _ _ _ _ _ _ _ _ _ cfg instance_comps_ok Hcfg o0 i0 h I I Hh). Qed.

  Theorem instance_run_tmo_empty : s_st sI = Disconnected \/ s_st sI = PendingConnack -> s_tmo sI = [].
  Proof. exact (run_tmo_empty _ _ _ enc_done _ _ _ _ _ _ _ _ _ _ _ cfg instance_comps_ok Hcfg o0 i0 h I I Hh). Qed.

  Theorem instance_run_intr_count : forall i o, lookup i (s_ops sI) = Some o -> op_intr o = i_intr_count cfg (i_init cfg k) h i.
  Proof. exact (run_intr_count _ _ _ enc_done _ _ _ _ _ _ _ _ _ _ _ cfg instance_comps_ok Hcfg o0 i0 h I I Hh). Qed.

  Theorem instance_run_limit : forall limit, cf_retry cfg = Some limit ->
    forall i o, lookup i (s_ops sI) = Some o -> op_intr o <= limit.
  Proof. exact (run_limit _ _ _ enc_done _ _ _ _ _ _ _ _ _ _ _ cfg instance_comps_ok Hcfg o0 i0 h I I Hh). Qed.

  Theorem instance_run_maxintr_sound : forall now i,
    In (i, CompErr EMaxInterruptedRetriesExceeded) (o_done (snd (i_step cfg sI (EvClose now)))) ->
    s_st sI <> Disconnected /\ exists limit o, cf_retry cfg = Some limit /\ lookup i (s_ops sI) = Some o /\ op_user o = true /\
      In i (i_pending sI) /\ op_intr o = limit.
  Proof. exact (run_maxintr_sound _ _ _ enc_done _ _ _ _ _ _ _ _ _ _ _ cfg instance_comps_ok Hcfg o0 i0 h I I Hh). Qed.

  Theorem instance_run_maxintr_complete : forall now i o limit,
    s_st sI <> Disconnected -> cf_retry cfg = Some limit -> lookup i (s_ops sI) = Some o -> In i (i_pending sI) -> op_intr o = limit ->
    lookup i (s_ops (fst (i_step cfg sI (EvClose now)))) = None.
  Proof. exact (run_maxintr_complete _ _ _ enc_done _ _ _ _ _ _ _ _ _ _ _ cfg instance_comps_ok Hcfg o0 i0 h I I Hh). Qed.

  Theorem instance_run_ka_connected : s_st sI = Connected ->
    exists st, s_settings sI = Some st /\
      (0 < st_server_keep_alive st -> exists n, s_next_ping sI = Some n /\
         forall t, s_ping_to sI = Some t -> t + st_server_keep_alive st * 1000 <= n + ka_final cfg (st_server_keep_alive st)) /\
      (st_server_keep_alive st = 0 -> s_next_ping sI = None /\ s_ping_to sI = None /\ forall now, i_keep_alive cfg sI now = Ok sI).
  Proof. exact (run_ka_connected _ _ _ enc_done _ _ _ _ _ _ _ _ _ _ _ cfg instance_comps_ok Hcfg o0 i0 h I I Hh). Qed.

  Theorem instance_run_ka_unconnected : s_st sI = Disconnected \/ s_st sI = PendingConnack -> s_next_ping sI = None /\ s_ping_to sI = None.
  Proof. exact (run_ka_unconnected _ _ _ enc_done _ _ _ _ _ _ _ _ _ _ _ cfg instance_comps_ok Hcfg o0 i0 h I I Hh). Qed.

  Theorem instance_run_ping_deadline : forall t, s_ping_to sI = Some t ->
    exists now0 st, i_arm_ghost cfg (i_init cfg k) h None = Some now0 /\ s_settings sI = Some st /\
      t = now0 + N.min (cf_ping_timeout cfg) (st_server_keep_alive st * 500).
  Proof. exact (run_ping_deadline _ _ _ enc_done _ _ _ _ _ _ _ _ _ _ _ cfg instance_comps_ok Hcfg o0 i0 h I I Hh). Qed.

  Theorem instance_run_timely_no_timeout : i_timely cfg (i_init cfg k) h None -> i_no_ka_timeout cfg (i_init cfg k) h.
  Proof. exact (run_timely_no_timeout _ _ _ enc_done _ _ _ _ _ _ _ _ _ _ _ cfg instance_comps_ok Hcfg o0 i0 h I I Hh). Qed.
End Instance.
