(* C04, same_packets continued: the packet handlers other than a CONNACK in the PendingConnack state, incoming
   data, reset, and the step function.  A CONNACK handled outside PendingConnack is rejected with the state
   unchanged, so the ONLY events that can change the DUP flag or unbind a packet id are EvClose (DeliveryClose.v)
   and an EvData delivered in the PendingConnack state (the CONNACK: DeliverySession.v). *)
From GM Require Import Base.Prelude Base.Outcome Codec.Packets Codec.Settings Engine.Model
  EngineProofs.AssocLemmas EngineProofs.WFLemmas EngineProofs.IdsFrame EngineProofs.IdsHelpers EngineProofs.SvcTimeout
  EngineProofs.DeliveryBase EngineProofs.DeliveryAck EngineProofs.DeliveryFrame.
From RecordUpdate Require Import RecordSet.
Import RecordSetNotations.
Open Scope N_scope.

Section Frame2.
  Variable enc : Type.
  Variable enc_reset : version -> packet -> resolution -> outcome enc.
  Variable enc_call : enc -> N -> N -> outcome (bytes * enc).
  Variable enc_done : enc -> bool.
  Variable dec : Type.
  Variable dec_init : dec.
  Variable dec_feed : version -> N -> dec -> bytes -> dec * list packet * outcome unit.
  Variable ores : Type.
  Variable ores_reset : ores -> N -> ores.
  Variable ores_resolve : ores -> option N -> bytes -> outcome (ores * resolution).
  Variable ires : Type.
  Variable ires_reset : ires -> ires.
  Variable ires_resolve : ires -> option N -> bytes -> outcome (ires * bytes).
  Variable v_out : option settings -> connect_opts -> resolution -> packet -> outcome unit.
  Variable v_in : option settings -> packet -> outcome unit.
  Variable cfg : config.

  Notation state := (Model.state enc dec ores ires).
  Notation init := (Model.init enc dec dec_init ores ires).
  Notation res := (Model.res enc dec ores ires).
  Notation release := (Model.release enc dec ores ires cfg).
  Notation disconnect_completion := (Model.disconnect_completion enc dec ores ires).
  Notation fail_op := (Model.fail_op enc dec ores ires cfg).
  Notation ping_extension := (Model.ping_extension enc dec ores ires).
  Notation succeed_op := (Model.succeed_op enc dec ores ires cfg).
  Notation fail_all := (Model.fail_all enc dec ores ires cfg).
  Notation succeed_all := (Model.succeed_all enc dec ores ires cfg).
  Notation andthen := (Model.andthen enc dec ores ires).
  Notation try_ := (Model.try_ enc dec ores ires).
  Notation pure := (Model.pure enc dec ores ires).
  Notation create_operation := (Model.create_operation enc dec ores ires).
  Notation passes_now := (Model.passes_now enc dec ores ires cfg).
  Notation user_event := (Model.user_event enc dec ores ires cfg).
  Notation create_connect := (Model.create_connect enc dec ores ires cfg).
  Notation net_opened := (Model.net_opened enc dec dec_init ores ires cfg).
  Notation op_exists := (Model.op_exists enc dec ores ires).
  Notation op_passes := (Model.op_passes enc dec ores ires cfg).
  Notation partition_policy := (Model.partition_policy enc dec ores ires cfg).
  Notation closed_current := (Model.closed_current enc dec ores ires cfg).
  Notation slow_start_init := (Model.slow_start_init enc dec ores ires cfg).
  Notation update_retries := (Model.update_retries enc dec ores ires cfg).
  Notation fail_exceeding := (Model.fail_exceeding enc dec ores ires cfg).
  Notation has_pubrel := (Model.has_pubrel enc dec ores ires).
  Notation net_closed_raw := (Model.net_closed_raw enc dec ores ires cfg).
  Notation net_closed := (Model.net_closed enc dec ores ires cfg).
  Notation net_write_completion := (Model.net_write_completion enc dec ores ires cfg).
  Notation acquire_free_pid := (Model.acquire_free_pid enc dec ores ires).
  Notation acquire_pid_for := (Model.acquire_pid_for enc dec ores ires).
  Notation unbind := (Model.unbind enc dec ores ires).
  Notation passes_receive_max := (Model.passes_receive_max enc dec ores ires).
  Notation throttled := (Model.throttled enc dec ores ires cfg).
  Notation has_pending_ack := (Model.has_pending_ack enc dec ores ires).
  Notation dequeue := (Model.dequeue enc dec ores ires cfg).
  Notation fully_written := (Model.fully_written enc dec ores ires).
  Notation sres := (Model.sres enc dec ores ires).
  Notation seat := (Model.seat enc dec ores ires).
  Notation seat_current := (Model.seat_current enc enc_reset dec ores ores_reset ores_resolve ires v_out cfg).
  Notation service_loop := (Model.service_loop enc enc_reset enc_call enc_done dec ores ores_reset ores_resolve ires v_out cfg).
  Notation service_queue := (Model.service_queue enc enc_reset enc_call enc_done dec ores ores_reset ores_resolve ires v_out cfg).
  Notation service_keep_alive := (Model.service_keep_alive enc dec ores ires cfg).
  Notation process_ack_timeouts := (Model.process_ack_timeouts enc dec ores ires cfg).
  Notation halt_on_error := (Model.halt_on_error enc dec ores ires).
  Notation service := (Model.service enc enc_reset enc_call enc_done dec ores ores_reset ores_resolve ires v_out cfg).
  Notation earliest_tmo := (Model.earliest_tmo enc dec ores ires).
  Notation nst_queue := (Model.nst_queue enc dec ores ires cfg).
  Notation next_service_time := (Model.next_service_time enc dec ores ires cfg).
  Notation build_settings := (Model.build_settings enc dec ores ires cfg).
  Notation apply_session := (Model.apply_session enc dec ores ires cfg).
  Notation hres := (Model.hres enc dec ores ires).
  Notation hres_of := (Model.hres_of enc dec ores ires).
  Notation pre_connack := (Model.pre_connack enc dec ores ires).
  Notation sum_ss := (Model.sum_ss enc dec ores ires).
  Notation handle_connack := (Model.handle_connack enc dec ores ores_reset ires ires_reset v_in cfg).
  Notation handle_pingresp := (Model.handle_pingresp enc dec ores ires).
  Notation handle_suback := (Model.handle_suback enc dec ores ires cfg).
  Notation handle_unsuback := (Model.handle_unsuback enc dec ores ires cfg).
  Notation publish_qos_of := (Model.publish_qos_of enc dec ores ires).
  Notation handle_puback := (Model.handle_puback enc dec ores ires cfg).
  Notation handle_pubrec := (Model.handle_pubrec enc dec ores ires cfg).
  Notation handle_pubrel := (Model.handle_pubrel enc dec ores ires).
  Notation handle_pubcomp := (Model.handle_pubcomp enc dec ores ires cfg).
  Notation handle_publish := (Model.handle_publish enc dec ores ires).
  Notation handle_disconnect := (Model.handle_disconnect enc dec ores ires cfg).
  Notation handle_packet := (Model.handle_packet enc dec ores ores_reset ires ires_reset v_in cfg).
  Notation handle_packets := (Model.handle_packets enc dec ores ores_reset ires ires_reset ires_resolve v_in cfg).
  Notation is_connect_op := (Model.is_connect_op enc dec ores ires).
  Notation connect_in_queue := (Model.connect_in_queue enc dec ores ires).
  Notation max_incoming_size := (Model.max_incoming_size cfg).
  Notation net_data := (Model.net_data enc dec dec_feed ores ores_reset ires ires_reset ires_resolve v_in cfg).
  Notation reset := (Model.reset enc dec ores ires cfg).
  Notation out_of_res := (Model.out_of_res enc dec ores ires).
  Notation step := (Model.step enc enc_reset enc_call enc_done dec dec_init dec_feed ores ores_reset ores_resolve ires ires_reset ires_resolve v_out v_in cfg).
  Notation run := (Model.run enc enc_reset enc_call enc_done dec dec_init dec_feed ores ores_reset ores_resolve ires ires_reset ires_resolve v_out v_in cfg).
  Notation SeatStop := (Model.SeatStop enc dec ores ires).
  Notation SeatContinue := (Model.SeatContinue enc dec ores ires).
  Notation SeatEncode := (Model.SeatEncode enc dec ores ires).
  Notation mkState := (Model.mkState enc dec ores ires).

  Ltac slia := try clear v_in; try clear v_out; try clear ires_resolve; try clear ires_reset; try clear ores_resolve;
    try clear ores_reset; try clear dec_feed; try clear dec_init; try clear enc_done; try clear enc_call; try clear enc_reset; lia.
  Ltac dm := match goal with
    | |- context [match ?x with _ => _ end] => destruct x eqn:?
    end.
  Notation gop := (DeliveryBase.gop enc dec ores ires).
  Notation same_packets := (DeliveryFrame.same_packets enc dec ores ires).

  (* a handler result: packets kept, and the protocol state is unchanged or Halted *)
  Definition hok (s : state) (h : hres) : Prop :=
    same_packets s (h_s h) /\ (s_st (h_s h) = s_st s \/ s_st (h_s h) = Halted).

  Lemma hok_same s s' ev out dn : s_ops s' = s_ops s -> s_next_id s' = s_next_id s -> s_st s' = s_st s ->
    hok s (Model.mkHres s' dn ev out).
  Proof. intros A B C. split; cbn [h_s]; [apply sp_same; assumption|left; exact C]. Qed.
  Ltac hsame := apply hok_same; reflexivity.

  Lemma succeed_op_st s id resp : s_st (r_s (succeed_op s id resp)) = s_st s \/ s_st (r_s (succeed_op s id resp)) = Halted.
  Proof.
    unfold Model.succeed_op. destruct (lookup id (s_ops s)) as [o|]; [|left; reflexivity].
    destruct (release s id o) as [s1| |] eqn:Er; [|left; reflexivity..].
    pose proof (ping_extension_released enc dec ores ires s id o o s1 (release_exact enc dec ores ires cfg _ _ _ _ Er)) as Hrel.
    assert (Hst : s_st (ping_extension s1 o) = s_st s) by (destruct Hrel as (_ & _ & _ & _ & _ & _ & _ & _ & _ & _ & _ & H); exact H).
    unfold Model.disconnect_completion. destruct (is_disconnect (op_packet o)).
    - destruct (pstate_eqb (s_st (ping_extension s1 o)) PendingDisconnect); cbn; auto.
    - destruct (op_user o); [destruct (success_value o resp)|]; cbn; auto.
  Qed.

  Lemma hok_succeed s id resp ev : hok s (hres_of (succeed_op s id resp) ev).
  Proof. split; cbn [Model.hres_of h_s]; [apply succeed_op_sp|apply succeed_op_st]. Qed.

  Lemma hok_create s (s0 : state) o (g : state -> state) ev out :
    s_ops s0 = s_ops s -> s_next_id s0 = s_next_id s -> s_st s0 = s_st s ->
    (forall x, s_ops (g x) = s_ops x /\ s_next_id (g x) = s_next_id x /\ s_st (g x) = s_st x) ->
    hok s (Model.mkHres (g (fst (create_operation s0 o))) [] ev out).
  Proof.
    intros A B C Hg. destruct (Hg (fst (create_operation s0 o))) as (G1 & G2 & G3). split; cbn [h_s].
    - eapply sp_from; [symmetry; exact A|symmetry; exact B|]. eapply sp_trans; [apply sp_create|apply sp_same; [exact G1|exact G2]].
    - left. rewrite G3. unfold Model.create_operation. cbn. exact C.
  Qed.

  Lemma handle_pingresp_hok s : hok s (handle_pingresp s).
  Proof. unfold Model.handle_pingresp. repeat dm; hsame. Qed.

  Lemma handle_suback_hok s a : hok s (handle_suback s a).
  Proof. unfold Model.handle_suback. repeat dm; try hsame; apply hok_succeed. Qed.

  Lemma handle_unsuback_hok s a : hok s (handle_unsuback s a).
  Proof. unfold Model.handle_unsuback. repeat dm; try hsame; apply hok_succeed. Qed.

  Lemma handle_puback_hok s a : hok s (handle_puback s a).
  Proof. unfold Model.handle_puback. repeat dm; try hsame; apply hok_succeed. Qed.

  Lemma handle_pubcomp_hok s a : hok s (handle_pubcomp s a).
  Proof. unfold Model.handle_pubcomp. repeat dm; try hsame; apply hok_succeed. Qed.

  Lemma handle_pubrec_hok s a : hok s (handle_pubrec s a).
  Proof.
    unfold Model.handle_pubrec. dm; [hsame|]. destruct (lookup (ack_pid a) (s_ppub s)) as [id|]; [|hsame].
    destruct (lookup id (s_ops s)) as [o|] eqn:El; [|hsame]. destruct (op_packet o) eqn:Ep; try hsame.
    dm; [|hsame]. dm; [apply hok_succeed|]. split; cbn [h_s]; [|left; reflexivity].
    eapply (sp_update _ _ _ _ s _ id); [|cbn; reflexivity|reflexivity]. intros o0. left. split; reflexivity.
  Qed.

  Lemma handle_pubrel_hok s a : hok s (handle_pubrel s a).
  Proof.
    unfold Model.handle_pubrel. dm; [hsame|].
    match goal with |- context [create_operation ?s1 ?o] =>
      pose proof (hok_create s s1 o (fun s2 => s2 <| s_hq := s_hq s2 ++ [snd (create_operation s1 o)] |>) [] (Ok tt)) as H end.
    cbn beta in H. unfold Model.create_operation in *. cbn [fst snd] in *. apply H; try reflexivity. intros x. repeat split.
  Qed.

  Lemma handle_publish_hok s pb : hok s (handle_publish s pb).
  Proof.
    unfold Model.handle_publish. dm; [hsame|]. dm; [hsame|].
    dm.
    - match goal with |- context [create_operation ?s1 ?o] =>
        pose proof (hok_create s s1 o (fun s2 => s2 <| s_hq := s_hq s2 ++ [snd (create_operation s1 o)] |>) [Publish pb] (Ok tt)) as H end.
      cbn beta in H. unfold Model.create_operation in *. cbn [fst snd] in *. apply H; try reflexivity. intros x. repeat split.
    - match goal with |- context [create_operation ?s1 ?o] =>
        pose proof (fun ev => hok_create s s1 o (fun s2 => s2 <| s_hq := s_hq s2 ++ [snd (create_operation s1 o)] |>) ev (Ok tt)) as H end.
      cbn beta in H. unfold Model.create_operation in *. cbn [fst snd] in *. apply H; try (destruct (mem _ _); reflexivity). intros x. repeat split.
  Qed.

  Lemma handle_disconnect_hok s d : hok s (handle_disconnect s d).
  Proof. unfold Model.handle_disconnect. repeat dm; hsame. Qed.

  Lemma handle_connack_rejected s now c : s_st s <> PendingConnack -> handle_connack s now c = Model.mkHres s [] [] (Err EProtocolError).
  Proof. intros H. unfold Model.handle_connack. destruct (s_st s); try reflexivity. congruence. Qed.

  Theorem handle_packet_hok s now p : s_st s <> PendingConnack -> hok s (handle_packet s now p).
  Proof.
    intros Hst. destruct p; cbn [Model.handle_packet]; try hsame.
    - rewrite (handle_connack_rejected s now _ Hst). hsame.
    - apply handle_publish_hok. - apply handle_puback_hok. - apply handle_pubrec_hok.
    - apply handle_pubrel_hok. - apply handle_pubcomp_hok. - apply handle_suback_hok. - apply handle_unsuback_hok.
    - apply handle_pingresp_hok. - apply handle_disconnect_hok.
  Qed.

  Lemma handle_packets_sp ps : forall s now dn ev, s_st s <> PendingConnack -> same_packets s (h_s (handle_packets s now ps dn ev)).
  Proof.
    induction ps as [|p rest IH]; intros s now dn ev Hst; cbn [Model.handle_packets]; [apply sp_refl|].
    match goal with |- context [match ?res with Ok _ => _ | Err _ => _ | Panic _ => _ end] =>
      assert (Hres : forall s1 p1, res = Ok (s1, p1) -> s_ops s1 = s_ops s /\ s_next_id s1 = s_next_id s /\ s_st s1 = s_st s);
      [|destruct res as [[s1 p1]| |] eqn:Eres] end.
    { intros s1 p1. unfold obind. repeat dm; intros H; inversion H; subst; repeat split. }
    2,3: apply sp_refl.
    destruct (Hres s1 p1 eq_refl) as (Ho1 & Hn1 & Hs1). assert (H1 : same_packets s s1) by (apply sp_same; assumption).
    destruct (v_in (s_settings s1) p1); [|cbn [h_s]; eapply sp_trans; [exact H1|apply sp_same; reflexivity]|exact H1].
    assert (Hst1 : s_st s1 <> PendingConnack) by congruence.
    destruct (handle_packet_hok s1 now p1 Hst1) as [Hh Hhs].
    destruct (h_out (handle_packet s1 now p1)); cbn [h_s].
    - eapply sp_trans; [exact H1|]. eapply sp_trans; [exact Hh|]. apply IH. destruct Hhs as [->| ->]; [exact Hst1|discriminate].
    - eapply sp_trans; [exact H1|]. eapply sp_trans; [exact Hh|apply sp_same; reflexivity].
    - eapply sp_trans; eassumption.
  Qed.

  Theorem net_data_sp s now data : s_st s <> PendingConnack -> same_packets s (h_s (net_data s now data)).
  Proof.
    intros Hst. unfold Model.net_data. dm; [apply sp_refl|]. dm; [cbn [h_s]; apply sp_same; reflexivity|].
    destruct (dec_feed _ _ _ _) as [[d' ps] r]. destruct r; cbn [h_s]; [|apply sp_same; reflexivity..].
    eapply sp_from; [| |apply handle_packets_sp]; try reflexivity. exact Hst.
  Qed.

  (* reset fails every operation: the table is emptied (or, on a panic, only shrinks) *)
  Lemma reset_fold_sp s0 ids : forall acc : res, same_packets s0 (r_s acc) ->
    same_packets s0 (r_s (fold_left (fun (acc : res) (id : N) =>
                        if is_panic (r_out acc) then acc else
                        let r1 := fail_op (r_s acc) id EClientClosed in
                        Model.mkRes (r_s r1) (r_done acc ++ r_done r1) (if is_panic (r_out r1) then r_out r1 else Ok tt))
                     ids acc)).
  Proof.
    induction ids as [|id r IH]; intros acc Ha; cbn [fold_left]; [exact Ha|]. apply IH.
    destruct (is_panic (r_out acc)); [exact Ha|]. cbn [r_s]. eapply sp_trans; [exact Ha|apply fail_op_sp].
  Qed.

  Theorem reset_sp s : same_packets s (r_s (reset s)).
  Proof.
    unfold Model.reset.
    match goal with |- context [fold_left ?f ?ids (pure ?s0)] =>
      assert (H : same_packets s (r_s (fold_left f ids (pure s0)))); [|set (r := fold_left f ids (pure s0)) in *] end.
    { apply reset_fold_sp. destruct (pstate_eqb (s_st s) Disconnected); cbn [Model.pure r_s]; apply sp_same; reflexivity. }
    destruct (is_panic (r_out r)); [exact H|]. cbn [r_s]. eapply sp_trans; [exact H|].
    split; [cbn; slia|]. intros i o'. unfold DeliveryBase.gop. cbn. discriminate.
  Qed.

  (* ---- the step function: every event except the close and a delivery while awaiting the CONNACK ---- *)
  Definition keeps_packets (s : state) (e : event) : Prop :=
    match e with
    | EvClose _ => False
    | EvData _ _ => s_st s <> PendingConnack
    | _ => True
    end.

  Theorem step_same_packets s e : keeps_packets s e -> same_packets s (fst (step s e)).
  Proof.
    destruct e; cbn [keeps_packets Model.step]; intros Hk.
    - unfold Model.out_of_res. cbn [fst]. apply user_event_sp.
    - unfold Model.out_of_res. cbn [fst]. apply sp_halt. apply net_opened_sp.
    - contradiction.
    - cbn [fst]. apply sp_halt. apply net_data_sp. exact Hk.
    - unfold Model.out_of_res. cbn [fst]. apply sp_halt. apply net_write_completion_sp.
    - cbn [fst]. apply service_sp.
    - destruct (next_service_time s now); cbn [fst]; apply sp_refl.
    - unfold Model.out_of_res. cbn [fst]. apply reset_sp.
  Qed.
End Frame2.
