(* C17, engine level, inbound: the packet loop of a data call threads the inbound resolver; the
   reference machine [istep] accepts its log; an accepted CONNACK resets both resolvers. *)
From GM Require Import Base.Prelude Base.Outcome Codec.Packets Codec.Settings Engine.Model
  EngineProofs.AssocLemmas EngineProofs.HandshakeRunTrace EngineProofs.AliasRunFrames EngineProofs.AliasRunLog EngineProofs.AliasRunOut.
From RecordUpdate Require Import RecordSet.
Import RecordSetNotations.
Open Scope N_scope.
#[local] Set Default Proof Using "Type".

(* the four component types are implicit in the engine functions, locally to this file *)
#[local] Arguments init {enc dec} _ {ores ires} _ _.
#[local] Arguments release {enc dec ores ires} _ _ _ _.
#[local] Arguments disconnect_completion {enc dec ores ires} _ _.
#[local] Arguments fail_op {enc dec ores ires} _ _ _ _.
#[local] Arguments ping_extension {enc dec ores ires} _ _.
#[local] Arguments succeed_op {enc dec ores ires} _ _ _ _.
#[local] Arguments fail_all {enc dec ores ires} _ _ _ _.
#[local] Arguments succeed_all {enc dec ores ires} _ _ _.
#[local] Arguments andthen {enc dec ores ires} _ _.
#[local] Arguments try_ {enc dec ores ires} _ _.
#[local] Arguments pure {enc dec ores ires} _.
#[local] Arguments create_operation {enc dec ores ires} _ _.
#[local] Arguments passes_now {enc dec ores ires} _ _ _.
#[local] Arguments user_event {enc dec ores ires} _ _ _ _.
#[local] Arguments create_connect {enc dec ores ires} _ _.
#[local] Arguments net_opened {enc dec} _ {ores ires} _ _ _.
#[local] Arguments op_exists {enc dec ores ires} _ _.
#[local] Arguments op_passes {enc dec ores ires} _ _ _.
#[local] Arguments partition_policy {enc dec ores ires} _ _ _.
#[local] Arguments closed_current {enc dec ores ires} _ _.
#[local] Arguments slow_start_init {enc dec ores ires} _ _.
#[local] Arguments update_retries {enc dec ores ires} _ _.
#[local] Arguments fail_exceeding {enc dec ores ires} _ _.
#[local] Arguments has_pubrel {enc dec ores ires} _ _.
#[local] Arguments net_closed_raw {enc dec ores ires} _ _.
#[local] Arguments net_closed {enc dec ores ires} _ _.
#[local] Arguments net_write_completion {enc dec ores ires} _ _.
#[local] Arguments acquire_free_pid {enc dec ores ires} _ _.
#[local] Arguments acquire_pid_for {enc dec ores ires} _ _.
#[local] Arguments unbind {enc dec ores ires} _ _.
#[local] Arguments passes_receive_max {enc dec ores ires} _ _.
#[local] Arguments throttled {enc dec ores ires} _ _.
#[local] Arguments has_pending_ack {enc dec ores ires} _.
#[local] Arguments dequeue {enc dec ores ires} _ _ _.
#[local] Arguments fully_written {enc dec ores ires} _ _.
#[local] Arguments service_keep_alive {enc dec ores ires} _ _ _.
#[local] Arguments process_ack_timeouts {enc dec ores ires} _ _ _.
#[local] Arguments halt_on_error {enc dec ores ires} _ _.
#[local] Arguments next_service_time {enc dec ores ires} _ _ _.
#[local] Arguments build_settings {enc dec ores ires} _ _ _.
#[local] Arguments apply_session {enc dec ores ires} _ _ _.
#[local] Arguments hres_of {enc dec ores ires} _ _.
#[local] Arguments pre_connack {enc dec ores ires} _.
#[local] Arguments sum_ss {enc dec ores ires} _.
#[local] Arguments handle_pingresp {enc dec ores ires} _.
#[local] Arguments handle_suback {enc dec ores ires} _ _ _.
#[local] Arguments handle_unsuback {enc dec ores ires} _ _ _.
#[local] Arguments publish_qos_of {enc dec ores ires} _ _.
#[local] Arguments handle_puback {enc dec ores ires} _ _ _.
#[local] Arguments handle_pubrec {enc dec ores ires} _ _ _.
#[local] Arguments handle_pubrel {enc dec ores ires} _ _.
#[local] Arguments handle_pubcomp {enc dec ores ires} _ _ _.
#[local] Arguments handle_publish {enc dec ores ires} _ _.
#[local] Arguments handle_disconnect {enc dec ores ires} _ _ _.
#[local] Arguments is_connect_op {enc dec ores ires} _ _.
#[local] Arguments connect_in_queue {enc dec ores ires} _.
#[local] Arguments reset {enc dec ores ires} _ _.
#[local] Arguments out_of_res {enc dec ores ires} _ _.
#[local] Arguments nst_queue {enc dec ores ires} _ _ _ _.
#[local] Arguments earliest_tmo {enc dec ores ires} _.
#[local] Arguments SeatStop {enc dec ores ires} _.
#[local] Arguments SeatContinue {enc dec ores ires} _ _.
#[local] Arguments SeatEncode {enc dec ores ires} _.



Definition surfaced (l : list iev) : list publish :=
  flat_map (fun e => match e with ISurface pb => [pb] | _ => [] end) l.

Lemma surfaced_app a b : surfaced (a ++ b) = surfaced a ++ surfaced b.
Proof. unfold surfaced. apply flat_map_app. Qed.

Lemma surfaced_map l : surfaced (map ISurface l) = l.
Proof. induction l as [|a l IH]; cbn; [reflexivity|]. f_equal. exact IH. Qed.

Lemma publishes_app a b : publishes (a ++ b) = publishes a ++ publishes b.
Proof. unfold publishes. apply flat_map_app. Qed.

Lemma match_nonpub {A} (p : packet) (f : publish -> A) (b : A) :
  (forall pb, p <> Publish pb) -> match p with Publish pb => f pb | _ => b end = b.
Proof. destruct p; auto. intros H. exfalso. eapply H. reflexivity. Qed.

Lemma publish_or_not (p : packet) : (exists pb, p = Publish pb) \/ (forall pb, p <> Publish pb).
Proof. destruct p; try (right; intros; discriminate). left. eexists. reflexivity. Qed.


(* a failing resolver call is the last event of a data call's log *)
Fixpoint err_last (l : list iev) : Prop :=
  match l with
  | [] => True
  | IResolve _ (Ok _) :: r => err_last r
  | IResolve _ _ :: r => r = []
  | _ :: r => err_last r
  end.

Definition not_resolve (e : iev) : Prop := match e with IResolve _ _ => False | _ => True end.

Lemma err_last_skip a : Forall not_resolve a -> forall b, err_last b -> err_last (a ++ b).
Proof. induction 1 as [|e a He _ IH]; intros b Hb; cbn; [exact Hb|]. destruct e; try destruct He; apply IH; exact Hb. Qed.

Lemma err_last_split l : err_last l -> forall pre pb k post, l = pre ++ IResolve pb (Err k) :: post -> post = [].
Proof.
  induction l as [|e l IH]; intros H pre pb k post E; [destruct pre; discriminate|].
  destruct pre as [|e' pre]; cbn in E; inversion E; subst.
  - exact H.
  - apply (IH) with (pre := pre) (pb := pb) (k := k); [|reflexivity].
    destruct e' as [|pb' [t| |]|pb']; cbn in H; try exact H; destruct pre; discriminate.
Qed.

Lemma not_resolve_map l : Forall not_resolve (map ISurface l).
Proof. induction l; cbn; constructor; auto. exact I. Qed.

Section In.
  Variable enc : Type.
  Variable enc_reset : version -> packet -> resolution -> outcome enc.
  Variable enc_call : enc -> N -> N -> outcome (bytes * enc).
  Variable enc_done : enc -> bool.
  Variable dec : Type.
  Variable dec_init : dec.
  Variable dec_feed : version -> N -> dec -> bytes -> dec * list packet * outcome unit.
  Variable ores : Type.
  Variable ores_reset : ores -> N -> ores.
  Variable ores_resolve : ores -> option N -> bytes -> outcome (ores * resolution).
  Variable ires : Type.
  Variable ires_reset : ires -> ires.
  Variable ires_resolve : ires -> option N -> bytes -> outcome (ires * bytes).
  Variable v_out : option settings -> connect_opts -> resolution -> packet -> outcome unit.
  Variable v_in : option settings -> packet -> outcome unit.
  Variable cfg : config.

  Notation state := (state enc dec ores ires).
  Notation sres := (sres enc dec ores ires).
  Notation hres := (hres enc dec ores ires).
  Notation res := (res enc dec ores ires).
  Notation seat := (seat enc dec ores ires).
  Notation step := (step enc enc_reset enc_call enc_done dec dec_init dec_feed ores ores_reset ores_resolve
                         ires ires_reset ires_resolve v_out v_in cfg).
  Notation run := (run enc enc_reset enc_call enc_done dec dec_init dec_feed ores ores_reset ores_resolve
                       ires ires_reset ires_resolve v_out v_in cfg).
  Notation seat_current := (seat_current enc enc_reset dec ores ores_reset ores_resolve ires v_out cfg).
  Notation service_loop := (service_loop enc enc_reset enc_call enc_done dec ores ores_reset ores_resolve ires v_out cfg).
  Notation service_queue := (service_queue enc enc_reset enc_call enc_done dec ores ores_reset ores_resolve ires v_out cfg).
  Notation service := (service enc enc_reset enc_call enc_done dec ores ores_reset ores_resolve ires v_out cfg).
  Notation handle_connack := (handle_connack enc dec ores ores_reset ires ires_reset v_in cfg).
  Notation handle_packet := (handle_packet enc dec ores ores_reset ires ires_reset v_in cfg).
  Notation handle_packets := (handle_packets enc dec ores ores_reset ires ires_reset ires_resolve v_in cfg).
  Notation net_data := (net_data enc dec dec_feed ores ores_reset ires ires_reset ires_resolve v_in cfg).
  Notation encode_next := (encode_next enc enc_call enc_done dec ores ires).
  Notation queue_fuel := (queue_fuel enc dec ores ires).
  Notation seat_state := (seat_state enc dec ores ires).

  Notation connack_accepted := (connack_accepted enc dec ores ires v_in).
  Notation handle_packets_a := (handle_packets_a enc dec ores ores_reset ires ires_reset ires_resolve v_in cfg).
  Notation data_logs := (data_logs enc dec dec_feed ores ores_reset ires ires_reset ires_resolve v_in cfg).
  Notation packet_log := (packet_log enc dec ores ores_reset ires ires_reset v_in cfg).
  Notation packet_olog := (packet_olog enc dec ores ires v_in).
  Notation gst := (gst ores).
  Notation gstep := (gstep ores ores_reset ores_resolve).
  Notation gruns := (gruns ores ores_reset ores_resolve).
  Notation mkG := (mkG ores).
  Notation Rel := (Rel enc dec ores ires).

  (* ---- the reference machine of the inbound log ---- *)
  Record gis := mkGi { gi_res : ires; gi_last : option (publish * bytes) }.

  Definition istep (g : gis) (e : iev) (g' : gis) : Prop :=
    match e with
    | IConnack => g' = mkGi (ires_reset (gi_res g)) None
    | IResolve pb res =>
        res = res_of (ires_resolve (gi_res g) (pub_alias pb) (pub_topic pb)) /\
        g' = match ires_resolve (gi_res g) (pub_alias pb) (pub_topic pb) with
             | Ok (i', t) => mkGi i' (Some (pb, t))
             | _ => mkGi (gi_res g) None
             end
    | ISurface pb' => exists pb t, gi_last g = Some (pb, t) /\ pb' = with_topic pb t /\ g' = mkGi (gi_res g) None
    end.

  Fixpoint iruns (g : gis) (l : list iev) (g' : gis) : Prop :=
    match l with
    | [] => g' = g
    | e :: r => exists g1, istep g e g1 /\ iruns g1 r g'
    end.

  Lemma iruns_app l1 : forall g l2 g1 g2, iruns g l1 g1 -> iruns g1 l2 g2 -> iruns g (l1 ++ l2) g2.
  Proof.
    induction l1 as [|e l1 IH]; intros g l2 g1 g2 H1 H2; cbn in *; [subst; exact H2|].
    destruct H1 as (g' & S1 & R1). exists g'. split; [exact S1|]. eapply IH; eauto.
  Qed.

  Lemma iruns_app_inv l1 : forall g l2 g2, iruns g (l1 ++ l2) g2 -> exists g1, iruns g l1 g1 /\ iruns g1 l2 g2.
  Proof.
    induction l1 as [|e l1 IH]; intros g l2 g2 H; cbn in *; [exists g; auto|].
    destruct H as (g' & S1 & R1). destruct (IH _ _ _ R1) as (g1 & A & B). exists g1. split; [exists g'; auto|exact B].
  Qed.

  (* the resolver component is the plain replay of the resolver calls *)
  Definition ireplay_step (i : ires) (e : iev) : ires :=
    match e with
    | IConnack => ires_reset i
    | IResolve pb _ => match ires_resolve i (pub_alias pb) (pub_topic pb) with Ok (i', _) => i' | _ => i end
    | ISurface _ => i
    end.
  Definition ireplay (i : ires) (l : list iev) : ires := fold_left ireplay_step l i.

  Lemma iruns_replay l : forall g g', iruns g l g' -> gi_res g' = ireplay (gi_res g) l.
  Proof.
    induction l as [|e l IH]; intros g g' H; cbn in *; [subst; reflexivity|].
    destruct H as (g1 & S1 & R1). rewrite (IH _ _ R1). f_equal.
    destruct e as [|pb res|pb]; cbn in S1 |- *.
    - subst. reflexivity.
    - destruct S1 as [_ ->]. destruct (ires_resolve _ _ _) as [[i' t]| |]; reflexivity.
    - destruct S1 as (pb0 & t & _ & _ & ->). reflexivity.
  Qed.

  (* ---- the CONNACK handler ---- *)
  Lemma handle_connack_al (s : state) now c :
    let h := handle_connack s now c in
    publishes (h_ev h) = [] /\ s_cur (h_s h) = s_cur s /\
    if connack_accepted s c then
      s_ores (h_s h) = ores_reset (s_ores s) (match ca_tam c with Some m => m | None => 0 end) /\
      s_ires (h_s h) = ires_reset (s_ires s) /\
      exists st, s_settings (h_s h) = Some st /\
                 st_topic_alias_maximum_to_server st = (match ca_tam c with Some m => m | None => 0 end)
    else al_of (h_s h) = al_of s.
  Proof.
    cbv zeta. unfold Model.handle_connack, AliasRunLog.connack_accepted.
    destruct (pstate_eqb (s_st s) PendingConnack); cbn [negb andb]; [|cbn; auto].
    destruct (ca_rc c =? 0); cbn [negb andb]; [|cbn; auto].
    destruct (v_in None (Connack c)) as [u|k|site]; cbn [is_ok]; [|cbn; auto..].
    match goal with |- context [apply_session cfg ?x ?sp] => pose proof (apply_session_al cfg x sp) as Ha; set (r := apply_session cfg x sp) in * end.
    destruct (al_fields _ _ Ha) as (A1 & A2 & A3 & A4).
    assert (Hs : s_ores (r_s r) = ores_reset (s_ores s) (match ca_tam c with Some m => m | None => 0 end) /\
                 s_ires (r_s r) = ires_reset (s_ires s) /\ s_cur (r_s r) = s_cur s /\
                 s_settings (r_s r) = Some (build_settings cfg s c)).
    { rewrite A1, A2, A3, A4. destruct (cf_drain_one cfg); cbn; auto. }
    destruct Hs as (S1 & S2 & S3 & S4).
    assert (Ht : st_topic_alias_maximum_to_server (build_settings cfg s c) = match ca_tam c with Some m => m | None => 0 end) by reflexivity.
    destruct (r_out r); cbn [h_s h_ev]; (split; [reflexivity|]); (split; [exact S3|]); (split; [exact S1|]); (split; [exact S2|]); eexists; split; eauto.
  Qed.

  Lemma handle_packet_al (s : state) now p :
    let h := handle_packet s now p in
    s_cur (h_s h) = s_cur s /\
    (publishes (h_ev h) = [] \/ exists pb, p = Publish pb /\ publishes (h_ev h) = [pb]) /\
    match p with
    | Connack c =>
        if connack_accepted s c then
          s_ores (h_s h) = ores_reset (s_ores s) (match ca_tam c with Some m => m | None => 0 end) /\
          s_ires (h_s h) = ires_reset (s_ires s) /\
          exists st, s_settings (h_s h) = Some st /\
                     st_topic_alias_maximum_to_server st = (match ca_tam c with Some m => m | None => 0 end)
        else al_of (h_s h) = al_of s
    | _ => al_of (h_s h) = al_of s
    end.
  Proof.
    cbv zeta.
    assert (Hal : forall h : hres, al_of (h_s h) = al_of s -> publishes (h_ev h) = [] ->
              s_cur (h_s h) = s_cur s /\ (publishes (h_ev h) = [] \/ exists pb, p = Publish pb /\ publishes (h_ev h) = [pb]) /\
              al_of (h_s h) = al_of s).
    { intros h A B. destruct (al_fields _ _ A) as (_ & _ & A3 & _). auto. }
    destruct p as [c|c|pb|a|a|a|a|sb|a|un|a| | |d|a]; cbn [Model.handle_packet]; try (apply Hal; reflexivity).
    - destruct (handle_connack_al s now c) as (A & B & C). cbv zeta in A, B, C. split; [exact B|]. split; [left; exact A|exact C].
    - pose proof (handle_publish_al s pb) as A. destruct (al_fields _ _ A) as (_ & _ & A3 & _).
      split; [exact A3|]. split; [|exact A]. destruct (handle_publish_ev s pb) as [E|E]; [left; exact E|right; exists pb; auto].
    - apply Hal; [apply handle_puback_al|apply handle_puback_ev].
    - apply Hal; [apply handle_pubrec_al|apply handle_pubrec_ev].
    - apply Hal; [apply handle_pubrel_al|apply handle_pubrel_ev].
    - apply Hal; [apply handle_pubcomp_al|apply handle_pubcomp_ev].
    - apply Hal; [apply handle_suback_al|apply handle_suback_ev].
    - apply Hal; [apply handle_unsuback_al|apply handle_unsuback_ev].
    - apply Hal; [apply handle_pingresp_al|apply handle_pingresp_ev].
    - apply Hal; [apply handle_disconnect_al|apply handle_disconnect_ev].
  Qed.

  (* one validated packet: both machines follow *)
  Lemma packet_spec (s1 : state) now p1 (g : gst) (gi : gis) :
    Rel s1 g -> s_ires s1 = gi_res gi ->
    (forall pb, p1 = Publish pb -> exists pb0 t, gi_last gi = Some (pb0, t) /\ pb = with_topic pb0 t) ->
    let h := handle_packet s1 now p1 in
    exists g' gi', gruns g (packet_olog s1 p1) g' /\ Rel (h_s h) g' /\
                   iruns gi (packet_log s1 now p1) gi' /\ s_ires (h_s h) = gi_res gi' /\
                   surfaced (packet_log s1 now p1) = publishes (h_ev h).
  Proof.
    intros HR Hi Hp. cbv zeta. destruct (handle_packet_al s1 now p1) as (A & B & C). cbv zeta in A, B, C.
    unfold AliasRunLog.packet_olog, AliasRunLog.packet_log.
    destruct (publish_or_not p1) as [(pb & ->)|Hn].
    - (* a PUBLISH: no reset; at most the packet itself is surfaced *)
      destruct (al_fields _ _ C) as (C1 & C2 & C3 & C4). cbn [app].
      exists g. destruct (Hp pb eq_refl) as (pb0 & t & L1 & L2).
      destruct B as [B|(pb' & B1 & B2)].
      + rewrite B. exists gi. split; [reflexivity|]. split; [eapply Rel_al; eauto|]. split; [reflexivity|split; [congruence|reflexivity]].
      + inversion B1; subst pb'. rewrite B2. exists (mkGi (gi_res gi) None). cbn [map].
        split; [reflexivity|]. split; [eapply Rel_al; eauto|].
        split; [cbn; eexists; split; [exists pb0, t; split; [exact L1|split; [exact L2|reflexivity]]|reflexivity]|].
        split; [cbn [gi_res]; congruence|reflexivity].
    - assert (Be : publishes (h_ev (handle_packet s1 now p1)) = []).
      { destruct B as [B|(pb & B1 & _)]; [exact B|exfalso; eapply Hn; eauto]. }
      rewrite Be. cbn [map]. rewrite app_nil_r.
      assert (Hplain : al_of (h_s (handle_packet s1 now p1)) = al_of s1 ->
                exists g' gi', gruns g [] g' /\ Rel (h_s (handle_packet s1 now p1)) g' /\ iruns gi [] gi' /\
                               s_ires (h_s (handle_packet s1 now p1)) = gi_res gi' /\ surfaced [] = []).
      { intros E. destruct (al_fields _ _ E) as (_ & E2 & _). exists g, gi. cbn.
        split; [reflexivity|]. split; [eapply Rel_al; eauto|]. split; [reflexivity|split; [congruence|reflexivity]]. }
      destruct p1 as [c|c|pb|a|a|a|a|sb|a|un|a| | |d|a]; try (apply Hplain; exact C).
      destruct (connack_accepted s1 c); [|apply Hplain; exact C].
      destruct C as (C1 & C2 & st & C3 & C4). destruct HR as (R1 & R2 & R3).
      set (m := match ca_tam c with Some m => m | None => 0 end) in *.
      exists (mkG (ores_reset (g_ores ores g) m) (g_ph ores g) m), (mkGi (ires_reset (gi_res gi)) None).
      split; [cbn; eexists; split; [split; [rewrite R2; destruct (s_cur s1); [right; eexists; reflexivity|left; reflexivity]|reflexivity]|reflexivity]|]. split; [unfold AliasRunOut.Rel; cbn [g_ores g_ph g_cm]; rewrite C1, A, C3, R1; cbn [tam_ok]; auto|].
      split; [cbn; eexists; split; reflexivity|]. split; [cbn [gi_res]; congruence|reflexivity].
  Qed.

  (* ---- the packet loop ---- *)
  Theorem handle_packets_a_spec now : forall ps (s : state) dn ev (g : gst) (gi : gis),
    Rel s g -> s_ires s = gi_res gi ->
    let rt := handle_packets_a s now ps dn ev in
    exists g' gi', gruns g (snd (snd rt)) g' /\ Rel (h_s (fst rt)) g' /\
                   iruns gi (fst (snd rt)) gi' /\ s_ires (h_s (fst rt)) = gi_res gi' /\
                   publishes (h_ev (fst rt)) = publishes ev ++ surfaced (fst (snd rt)).
  Proof.
    induction ps as [|p rest IH]; intros s dn ev g gi HR Hi; cbn [AliasRunLog.handle_packets_a].
    { exists g, gi. cbn. rewrite app_nil_r. auto. }
    cbv zeta.
    assert (Hhalt : forall (s' : state) g0, Rel s' g0 -> Rel (s' <| s_st := Halted |>) g0) by (intros s' g0 H; exact H).
    destruct (publish_or_not p) as [(pb & ->)|Hn].
    - (* a PUBLISH: the resolver is called first *)
      rewrite Hi. destruct (ires_resolve (gi_res gi) (pub_alias pb) (pub_topic pb)) as [[i' t]|k|site] eqn:Er; cbn [obind res_of].
      2,3: exists g, (mkGi (gi_res gi) None); cbn [fst snd h_s h_ev]; (split; [reflexivity|]); (split; [exact HR|]);
           (split; [cbn; eexists; split; [split; [rewrite Er; reflexivity|rewrite Er; reflexivity]|reflexivity]|]);
           (split; [exact Hi|cbn; rewrite app_nil_r; reflexivity]).
      set (s1 := s <| s_ires := i' |>). set (p1 := Publish (with_topic pb t)).
      set (gi1 := mkGi i' (Some (pb, t))).
      assert (Hstep : iruns gi [IResolve pb (Ok t)] gi1).
      { cbn. eexists. split; [split; [rewrite Er; reflexivity|rewrite Er; reflexivity]|reflexivity]. }
      assert (HR1 : Rel s1 g) by exact HR.
      destruct (v_in (s_settings s1) p1) as [u|k|site].
      2,3: exists g, gi1; cbn [fst snd h_s h_ev]; (split; [reflexivity|]); (split; [exact HR1|]); (split; [exact Hstep|]);
           (split; [reflexivity|cbn; rewrite app_nil_r; reflexivity]).
      destruct (packet_spec s1 now p1 g gi1 HR1 eq_refl) as (g2 & gi2 & P1 & P2 & P3 & P4 & P5).
      { intros pb' E. inversion E; subst pb'. exists pb, t. split; reflexivity. }
      cbv zeta in P2, P4, P5.
      destruct (h_out (handle_packet s1 now p1)) as [u'|k|site].
      + destruct (IH (h_s (handle_packet s1 now p1)) (dn ++ h_done (handle_packet s1 now p1)) (ev ++ h_ev (handle_packet s1 now p1)) g2 gi2 P2 P4)
          as (g3 & gi3 & I1 & I2 & I3 & I4 & I5). cbv zeta in I1, I2, I3, I4, I5.
        exists g3, gi3. cbn [fst snd]. split; [eapply gruns_app; eauto|]. split; [exact I2|].
        split; [eapply iruns_app; [eapply iruns_app; [exact Hstep|exact P3]|exact I3]|].
        split; [exact I4|]. rewrite I5, publishes_app, !surfaced_app, <- P5.
        change (surfaced [IResolve pb (Ok t)]) with (@nil publish). cbn [app]. rewrite <- app_assoc. reflexivity.
      + exists g2, gi2. cbn [fst snd h_s h_ev]. split; [exact P1|]. split; [exact P2|].
        split; [eapply iruns_app; [exact Hstep|exact P3]|].
        split; [exact P4|]. rewrite publishes_app, surfaced_app, <- P5. reflexivity.
      + exists g2, gi2. cbn [fst snd h_s h_ev]. split; [exact P1|]. split; [exact P2|].
        split; [eapply iruns_app; [exact Hstep|exact P3]|].
        split; [exact P4|]. rewrite publishes_app, surfaced_app, <- P5. reflexivity.
    - rewrite !(match_nonpub p _ _ Hn).
      destruct (v_in (s_settings s) p) as [u|k|site].
      2,3: exists g, gi; cbn [fst snd h_s h_ev]; (split; [reflexivity|]); (split; [exact HR|]); (split; [reflexivity|]);
           (split; [exact Hi|cbn; rewrite app_nil_r; reflexivity]).
      destruct (packet_spec s now p g gi HR Hi) as (g2 & gi2 & P1 & P2 & P3 & P4 & P5).
      { intros pb E. exfalso. eapply Hn; eauto. }
      cbv zeta in P2, P4, P5. cbn [app].
      destruct (h_out (handle_packet s now p)) as [u'|k|site].
      + destruct (IH (h_s (handle_packet s now p)) (dn ++ h_done (handle_packet s now p)) (ev ++ h_ev (handle_packet s now p)) g2 gi2 P2 P4)
          as (g3 & gi3 & I1 & I2 & I3 & I4 & I5). cbv zeta in I1, I2, I3, I4, I5.
        exists g3, gi3. cbn [fst snd]. split; [eapply gruns_app; eauto|]. split; [exact I2|].
        split; [eapply iruns_app; eauto|]. split; [exact I4|]. rewrite I5, publishes_app, <- P5, surfaced_app, <- app_assoc. reflexivity.
      + exists g2, gi2. cbn [fst snd h_s h_ev]. split; [exact P1|]. split; [exact P2|]. split; [exact P3|].
        split; [exact P4|]. rewrite publishes_app, <- P5. reflexivity.
      + exists g2, gi2. cbn [fst snd h_s h_ev]. split; [exact P1|]. split; [exact P2|]. split; [exact P3|].
        split; [exact P4|]. rewrite publishes_app, <- P5. reflexivity.
  Qed.

  Lemma packet_log_plain (s1 : state) now p1 : Forall not_resolve (packet_log s1 now p1).
  Proof.
    unfold AliasRunLog.packet_log. apply Forall_app. split; [|apply not_resolve_map].
    destruct p1 as [c|c|pb|a|a|a|a|sb|a|un|a| | |d|a]; try constructor. destruct (connack_accepted s1 c); constructor; [exact I|constructor].
  Qed.

  (* a resolver error fails the data call, and nothing follows it in the log: nothing is surfaced
     for that packet, no later packet is processed *)
  Theorem handle_packets_a_err now : forall ps (s : state) dn ev,
    let rt := handle_packets_a s now ps dn ev in
    err_last (fst (snd rt)) /\ forall pb k, In (IResolve pb (Err k)) (fst (snd rt)) -> h_out (fst rt) = Err k.
  Proof.
    induction ps as [|p rest IH]; intros s dn ev; cbn [AliasRunLog.handle_packets_a]; [cbn; split; [exact I|intros ? ? []]|].
    cbv zeta.
    assert (Hpl : forall (s1 : state) p1 pb k, ~ In (IResolve pb (Err k)) (packet_log s1 now p1)).
    { intros s1 p1 pb k Hin. pose proof (packet_log_plain s1 now p1) as Hf. rewrite Forall_forall in Hf. exact (Hf _ Hin). }
    destruct (publish_or_not p) as [(pb & ->)|Hn].
    - destruct (ires_resolve (s_ires s) (pub_alias pb) (pub_topic pb)) as [[i' t]|k|site] eqn:Er; cbn [obind res_of].
      2:{ cbn [fst snd h_out]. split; [reflexivity|]. intros pb' k' [E|[]]. inversion E. reflexivity. }
      2:{ cbn [fst snd h_out]. split; [reflexivity|]. intros pb' k' [E|[]]. inversion E. }
      set (s1 := s <| s_ires := i' |>). set (p1 := Publish (with_topic pb t)).
      destruct (v_in (s_settings s1) p1) as [u|k|site].
      2,3: cbn [fst snd]; split; [exact I|intros pb' k' [E|[]]; inversion E].
      destruct (h_out (handle_packet s1 now p1)) as [u'|k|site].
      + destruct (IH (h_s (handle_packet s1 now p1)) (dn ++ h_done (handle_packet s1 now p1)) (ev ++ h_ev (handle_packet s1 now p1))) as [I1 I2].
        cbv zeta in I1, I2. cbn [fst snd]. split.
        * rewrite <- app_assoc. cbn [app err_last]. apply err_last_skip; [apply packet_log_plain|exact I1].
        * intros pb' k' Hin. apply in_app_or in Hin. destruct Hin as [Hin|Hin]; [|exact (I2 _ _ Hin)].
          apply in_app_or in Hin. destruct Hin as [[E|[]]|Hin]; [inversion E|exfalso; exact (Hpl _ _ _ _ Hin)].
      + cbn [fst snd]. split.
        * cbn [app err_last]. rewrite (app_nil_end (packet_log s1 now p1)). apply err_last_skip; [apply packet_log_plain|exact I].
        * intros pb' k' Hin. apply in_app_or in Hin. destruct Hin as [[E|[]]|Hin]; [inversion E|exfalso; exact (Hpl _ _ _ _ Hin)].
      + cbn [fst snd]. split.
        * cbn [app err_last]. rewrite (app_nil_end (packet_log s1 now p1)). apply err_last_skip; [apply packet_log_plain|exact I].
        * intros pb' k' Hin. apply in_app_or in Hin. destruct Hin as [[E|[]]|Hin]; [inversion E|exfalso; exact (Hpl _ _ _ _ Hin)].
    - rewrite !(match_nonpub p _ _ Hn).
      destruct (v_in (s_settings s) p) as [u|k|site].
      2,3: cbn [fst snd]; split; [exact I|intros pb' k' []].
      cbn [app].
      destruct (h_out (handle_packet s now p)) as [u'|k|site].
      + destruct (IH (h_s (handle_packet s now p)) (dn ++ h_done (handle_packet s now p)) (ev ++ h_ev (handle_packet s now p))) as [I1 I2].
        cbv zeta in I1, I2. cbn [fst snd]. split; [apply err_last_skip; [apply packet_log_plain|exact I1]|].
        intros pb' k' Hin. apply in_app_or in Hin. destruct Hin as [Hin|Hin]; [exfalso; exact (Hpl _ _ _ _ Hin)|exact (I2 _ _ Hin)].
      + cbn [fst snd]. split; [rewrite (app_nil_end (packet_log s now p)); apply err_last_skip; [apply packet_log_plain|exact I]|].
        intros pb' k' Hin. exfalso; exact (Hpl _ _ _ _ Hin).
      + cbn [fst snd]. split; [rewrite (app_nil_end (packet_log s now p)); apply err_last_skip; [apply packet_log_plain|exact I]|].
        intros pb' k' Hin. exfalso; exact (Hpl _ _ _ _ Hin).
  Qed.

  (* ---- one data call ---- *)
  Theorem net_data_a_spec (s : state) now data (g : gst) (gi : gis) :
    Rel s g -> s_ires s = gi_res gi ->
    let h := net_data s now data in
    let lg := data_logs s now data in
    exists g' gi', gruns g (snd lg) g' /\ Rel (h_s h) g' /\ iruns gi (fst lg) gi' /\ s_ires (h_s h) = gi_res gi' /\
                   publishes (h_ev h) = surfaced (fst lg) /\ err_last (fst lg) /\
                   (forall pb k, In (IResolve pb (Err k)) (fst lg) -> h_out h = Err k).
  Proof.
    intros HR Hi. cbv zeta. unfold Model.net_data, AliasRunLog.data_logs.
    assert (Hnone : forall (s' : state) out, al_of s' = al_of s ->
              exists g' gi', gruns g [] g' /\ Rel (h_s (mkHres s' [] [] out)) g' /\ iruns gi [] gi' /\
                             s_ires (h_s (mkHres s' [] [] out)) = gi_res gi' /\
                             publishes (h_ev (mkHres s' [] [] out)) = surfaced [] /\ err_last [] /\
                             (forall pb k, In (IResolve pb (Err k)) [] -> h_out (mkHres s' [] [] out) = Err k)).
    { intros s' out E. destruct (al_fields _ _ E) as (_ & E2 & _). exists g, gi. cbn [h_s h_ev h_out].
      split; [reflexivity|]. split; [eapply Rel_al; eauto|]. split; [reflexivity|]. split; [congruence|].
      split; [reflexivity|]. split; [exact I|intros ? ? []]. }
    destruct (pstate_eqb (s_st s) Disconnected || pstate_eqb (s_st s) Halted); [apply Hnone; reflexivity|].
    destruct (pstate_eqb (s_st s) PendingConnack && connect_in_queue s); [apply (Hnone (s <| s_st := Halted |>)); reflexivity|].
    destruct (dec_feed (cf_version cfg) (max_incoming_size cfg) (s_dec s) data) as [[d' ps] r].
    destruct r as [u|k|site]; [|apply (Hnone (s <| s_dec := d' |> <| s_st := Halted |>)); reflexivity|apply (Hnone (s <| s_dec := d' |>)); reflexivity].
    set (s1 := s <| s_dec := d' |>).
    assert (HR1 : Rel s1 g) by exact HR. assert (Hi1 : s_ires s1 = gi_res gi) by exact Hi.
    rewrite <- (handle_packets_a_fst enc dec ores ores_reset ires ires_reset ires_resolve v_in cfg now ps s1 [] []).
    destruct (handle_packets_a_spec now ps s1 [] [] g gi HR1 Hi1) as (g' & gi' & A1 & A2 & A3 & A4 & A5).
    destruct (handle_packets_a_err now ps s1 [] []) as [B1 B2].
    cbv zeta in A1, A2, A3, A4, A5, B1, B2. exists g', gi'.
    split; [exact A1|]. split; [exact A2|]. split; [exact A3|]. split; [exact A4|]. split; [exact A5|]. split; [exact B1|exact B2].
  Qed.
End In.
