(* C17, engine level: in every history a PUBLISH is handed to the encoder only on a live connection
   (accepted CONNACK, no close / reset / failed seat since).  Uses the WF invariant (while the CONNACK is
   awaited the high-priority queue holds only the CONNECT) and the protocol-state table of C07. *)
From GM Require Import Base.Prelude Base.Outcome Codec.Packets Codec.Settings Engine.Model
  EngineProofs.AssocLemmas EngineProofs.HandshakeRunTrace EngineProofs.HandshakeRunSt EngineProofs.HandshakeRunInv EngineProofs.WFDefs
  EngineProofs.WFStep EngineProofs.AliasRunFrames EngineProofs.AliasRunLog EngineProofs.AliasRunShape.
From RecordUpdate Require Import RecordSet.
Import RecordSetNotations.
Open Scope N_scope.

(* the four component types are implicit in the engine functions, locally to this file *)
#[local] Arguments init {enc dec} _ {ores ires} _ _.
#[local] Arguments release {enc dec ores ires} _ _ _ _.
#[local] Arguments disconnect_completion {enc dec ores ires} _ _.
#[local] Arguments fail_op {enc dec ores ires} _ _ _ _.
#[local] Arguments ping_extension {enc dec ores ires} _ _.
#[local] Arguments succeed_op {enc dec ores ires} _ _ _ _.
#[local] Arguments fail_all {enc dec ores ires} _ _ _ _.
#[local] Arguments succeed_all {enc dec ores ires} _ _ _.
#[local] Arguments andthen {enc dec ores ires} _ _.
#[local] Arguments try_ {enc dec ores ires} _ _.
#[local] Arguments pure {enc dec ores ires} _.
#[local] Arguments create_operation {enc dec ores ires} _ _.
#[local] Arguments passes_now {enc dec ores ires} _ _ _.
#[local] Arguments user_event {enc dec ores ires} _ _ _ _.
#[local] Arguments create_connect {enc dec ores ires} _ _.
#[local] Arguments net_opened {enc dec} _ {ores ires} _ _ _.
#[local] Arguments op_exists {enc dec ores ires} _ _.
#[local] Arguments op_passes {enc dec ores ires} _ _ _.
#[local] Arguments partition_policy {enc dec ores ires} _ _ _.
#[local] Arguments closed_current {enc dec ores ires} _ _.
#[local] Arguments slow_start_init {enc dec ores ires} _ _.
#[local] Arguments update_retries {enc dec ores ires} _ _.
#[local] Arguments fail_exceeding {enc dec ores ires} _ _.
#[local] Arguments has_pubrel {enc dec ores ires} _ _.
#[local] Arguments net_closed_raw {enc dec ores ires} _ _.
#[local] Arguments net_closed {enc dec ores ires} _ _.
#[local] Arguments net_write_completion {enc dec ores ires} _ _.
#[local] Arguments acquire_free_pid {enc dec ores ires} _ _.
#[local] Arguments acquire_pid_for {enc dec ores ires} _ _.
#[local] Arguments unbind {enc dec ores ires} _ _.
#[local] Arguments passes_receive_max {enc dec ores ires} _ _.
#[local] Arguments throttled {enc dec ores ires} _ _.
#[local] Arguments has_pending_ack {enc dec ores ires} _.
#[local] Arguments dequeue {enc dec ores ires} _ _ _.
#[local] Arguments fully_written {enc dec ores ires} _ _.
#[local] Arguments service_keep_alive {enc dec ores ires} _ _ _.
#[local] Arguments process_ack_timeouts {enc dec ores ires} _ _ _.
#[local] Arguments halt_on_error {enc dec ores ires} _ _.
#[local] Arguments next_service_time {enc dec ores ires} _ _ _.
#[local] Arguments build_settings {enc dec ores ires} _ _ _.
#[local] Arguments apply_session {enc dec ores ires} _ _ _.
#[local] Arguments hres_of {enc dec ores ires} _ _.
#[local] Arguments pre_connack {enc dec ores ires} _.
#[local] Arguments sum_ss {enc dec ores ires} _.
#[local] Arguments handle_pingresp {enc dec ores ires} _.
#[local] Arguments handle_suback {enc dec ores ires} _ _ _.
#[local] Arguments handle_unsuback {enc dec ores ires} _ _ _.
#[local] Arguments publish_qos_of {enc dec ores ires} _ _.
#[local] Arguments handle_puback {enc dec ores ires} _ _ _.
#[local] Arguments handle_pubrec {enc dec ores ires} _ _ _.
#[local] Arguments handle_pubrel {enc dec ores ires} _ _.
#[local] Arguments handle_pubcomp {enc dec ores ires} _ _ _.
#[local] Arguments handle_publish {enc dec ores ires} _ _.
#[local] Arguments handle_disconnect {enc dec ores ires} _ _ _.
#[local] Arguments is_connect_op {enc dec ores ires} _ _.
#[local] Arguments connect_in_queue {enc dec ores ires} _.
#[local] Arguments reset {enc dec ores ires} _ _.
#[local] Arguments out_of_res {enc dec ores ires} _ _.
#[local] Arguments nst_queue {enc dec ores ires} _ _ _ _.
#[local] Arguments earliest_tmo {enc dec ores ires} _.
#[local] Arguments SeatStop {enc dec ores ires} _.
#[local] Arguments SeatContinue {enc dec ores ires} _ _.
#[local] Arguments SeatEncode {enc dec ores ires} _.



Definition is_connack_ev (e : oev) : bool := match e with OConnack _ => true | _ => false end.

Lemma pcc_connacks l : forallb is_connack_ev l = true -> forall live, pcc live l.
Proof.
  induction l as [|e l IH]; intros H live; [exact I|]. cbn in H. apply andb_true_iff in H as [H1 H2].
  destruct e; try discriminate. cbn. apply IH. exact H2.
Qed.

Lemma live_connacks l : forallb is_connack_ev l = true -> forall live, l <> [] \/ live = true -> live_after live l = true.
Proof.
  induction l as [|e l IH]; intros H live Hl; [destruct Hl as [Hl|Hl]; [congruence|exact Hl]|].
  cbn in H. apply andb_true_iff in H as [H1 H2]. destruct e; try discriminate.
  cbn [live_after fold_left live_step]. apply (IH H2). right. reflexivity.
Qed.

Section Pcc.
  Variable enc : Type.
  Variable enc_reset : version -> packet -> resolution -> outcome enc.
  Variable enc_call : enc -> N -> N -> outcome (bytes * enc).
  Variable enc_done : enc -> bool.
  Variable dec : Type.
  Variable dec_init : dec.
  Variable dec_feed : version -> N -> dec -> bytes -> dec * list packet * outcome unit.
  Variable ores : Type.
  Variable ores_reset : ores -> N -> ores.
  Variable ores_resolve : ores -> option N -> bytes -> outcome (ores * resolution).
  Variable ires : Type.
  Variable ires_reset : ires -> ires.
  Variable ires_resolve : ires -> option N -> bytes -> outcome (ires * bytes).
  Variable v_out : option settings -> connect_opts -> resolution -> packet -> outcome unit.
  Variable v_in : option settings -> packet -> outcome unit.
  Variable cfg : config.
  Variable HC : comps_ok enc enc_reset enc_call dec dec_init dec_feed ores ores_reset ores_resolve ires ires_reset ires_resolve v_out v_in.
  Hypothesis Hcfg : ok_cfg cfg.

  Notation state := (state enc dec ores ires).
  Notation sres := (sres enc dec ores ires).
  Notation hres := (hres enc dec ores ires).
  Notation res := (res enc dec ores ires).
  Notation seat := (seat enc dec ores ires).
  Notation step := (step enc enc_reset enc_call enc_done dec dec_init dec_feed ores ores_reset ores_resolve
                         ires ires_reset ires_resolve v_out v_in cfg).
  Notation run := (run enc enc_reset enc_call enc_done dec dec_init dec_feed ores ores_reset ores_resolve
                       ires ires_reset ires_resolve v_out v_in cfg).
  Notation seat_current := (seat_current enc enc_reset dec ores ores_reset ores_resolve ires v_out cfg).
  Notation service_loop := (service_loop enc enc_reset enc_call enc_done dec ores ores_reset ores_resolve ires v_out cfg).
  Notation service_queue := (service_queue enc enc_reset enc_call enc_done dec ores ores_reset ores_resolve ires v_out cfg).
  Notation service := (service enc enc_reset enc_call enc_done dec ores ores_reset ores_resolve ires v_out cfg).
  Notation handle_connack := (handle_connack enc dec ores ores_reset ires ires_reset v_in cfg).
  Notation handle_packet := (handle_packet enc dec ores ores_reset ires ires_reset v_in cfg).
  Notation handle_packets := (handle_packets enc dec ores ores_reset ires ires_reset ires_resolve v_in cfg).
  Notation net_data := (net_data enc dec dec_feed ores ores_reset ires ires_reset ires_resolve v_in cfg).
  Notation encode_next := (encode_next enc enc_call enc_done dec ores ires).
  Notation queue_fuel := (queue_fuel enc dec ores ires).
  Notation seat_state := (seat_state enc dec ores ires).

  Notation init := (init (enc:=enc) dec_init).
  Notation WFX := (WFX enc enc_reset enc_call dec dec_init dec_feed ores ores_reset ores_resolve ires ires_reset ires_resolve v_out v_in cfg HC).
  Notation step_olog := (step_olog enc enc_reset enc_call enc_done dec dec_feed ores ores_reset ores_resolve ires ires_reset ires_resolve v_out v_in cfg).
  Notation run_olog := (run_olog enc enc_reset enc_call enc_done dec dec_init dec_feed ores ores_reset ores_resolve ires ires_reset ires_resolve v_out v_in cfg).
  Notation service_log := (service_log enc enc_reset enc_call enc_done dec ores ores_reset ores_resolve ires v_out cfg).
  Notation connack_accepted := (connack_accepted enc dec ores ires v_in).
  Notation handle_packets_a := (handle_packets_a enc dec ores ores_reset ires ires_reset ires_resolve v_in cfg).
  Notation data_logs := (data_logs enc dec dec_feed ores ores_reset ires ires_reset ires_resolve v_in cfg).
  Notation packet_olog := (packet_olog enc dec ores ires v_in).

  (* ---- the data step: the engine becomes Connected only with an accepted CONNACK in the log ---- *)
  Lemma handle_packet_pc (s : state) now p :
    s_st s = PendingConnack -> packet_olog s p = [] -> s_st (h_s (handle_packet s now p)) = PendingConnack.
  Proof.
    intros Hst Hl.
    assert (Hpre : pre_connack s = true) by (unfold pre_connack; rewrite Hst; reflexivity).
    destruct p as [c|c|pb|a|a|a|a|sb|a|un|a| | |d|a]; cbn [Model.handle_packet]; try exact Hst.
    - unfold AliasRunLog.packet_olog, AliasRunLog.connack_accepted in Hl. unfold Model.handle_connack. rewrite Hst in *. cbn [pstate_eqb negb andb] in *.
      destruct (ca_rc c =? 0); cbn [negb andb] in *; [|exact Hst].
      destruct (v_in None (Connack c)); cbn [is_ok] in *; [discriminate|exact Hst|exact Hst].
    - unfold handle_publish. rewrite Hpre. exact Hst.
    - unfold handle_puback. rewrite Hpre. exact Hst.
    - unfold handle_pubrec. rewrite Hpre. exact Hst.
    - unfold handle_pubrel. rewrite Hpre. exact Hst.
    - unfold handle_pubcomp. rewrite Hpre. exact Hst.
    - unfold handle_suback. rewrite Hpre. exact Hst.
    - unfold handle_unsuback. rewrite Hpre. exact Hst.
    - unfold handle_pingresp. rewrite Hst. exact Hst.
    - unfold handle_disconnect. rewrite Hpre. exact Hst.
  Qed.

  Lemma packet_olog_connacks (s : state) p : forallb is_connack_ev (packet_olog s p) = true.
  Proof. unfold AliasRunLog.packet_olog. destruct p as [c|c|pb|a|a|a|a|sb|a|un|a| | |d|a]; try reflexivity. destruct (connack_accepted s c); reflexivity. Qed.

  Lemma handle_packets_a_K now : forall ps (s : state) dn ev,
    let rt := handle_packets_a s now ps dn ev in
    forallb is_connack_ev (snd (snd rt)) = true /\
    (s_st s <> Connected -> s_st (h_s (fst rt)) = Connected -> snd (snd rt) <> []).
  Proof.
    induction ps as [|p rest IH]; intros s dn ev; cbn [AliasRunLog.handle_packets_a]; [cbn; split; [reflexivity|congruence]|].
    cbv zeta.
    assert (Hres : forall x : outcome (state * packet),
              x = match p with
                  | Publish pb => do (i', t) <- ires_resolve (s_ires s) (pub_alias pb) (pub_topic pb) ;
                                  Ok (s <| s_ires := i' |>, Publish (with_topic pb t))
                  | _ => Ok (s, p) end ->
              match x with Ok (s1, _) => s_st s1 = s_st s | _ => True end).
    { intros x ->. destruct p; try reflexivity. destruct (ires_resolve _ _ _) as [[i' t]| |]; cbn; try exact I. reflexivity. }
    specialize (Hres _ eq_refl).
    destruct (match p with Publish pb => _ | _ => _ end) as [[s1 p1]|k|site]; [|cbn; split; [reflexivity|congruence]..].
    destruct (v_in (s_settings s1) p1); [|cbn; split; [reflexivity|intros _ H; discriminate]|cbn; split; [reflexivity|congruence]].
    pose proof (packet_olog_connacks s1 p1) as Hc.
    destruct (handle_packet_HT enc dec ores ores_reset ires ires_reset v_in cfg s1 now p1) as [Hh _].
    assert (Hstep : s_st s <> Connected -> packet_olog s1 p1 = [] -> s_st (h_s (handle_packet s1 now p1)) <> Connected).
    { intros Hn Hl Hcn. destruct Hh as [[Hh|[_ Hh]]|[Hh _]]; [congruence|congruence|].
      rewrite (handle_packet_pc s1 now p1 Hh Hl) in Hcn. discriminate. }
    destruct (h_out (handle_packet s1 now p1)) as [u'|k|site]; cbn [fst snd h_s].
    - destruct (IH (h_s (handle_packet s1 now p1)) (dn ++ h_done (handle_packet s1 now p1)) (ev ++ h_ev (handle_packet s1 now p1))) as [I1 I2].
      cbv zeta in I1, I2. split; [rewrite forallb_app, Hc, I1; reflexivity|].
      intros Hn Hcn. destruct (packet_olog s1 p1) eqn:El; [|discriminate]. cbn [app]. apply I2; [apply Hstep; auto|exact Hcn].
    - split; [exact Hc|]. intros _ H. discriminate.
    - split; [exact Hc|]. intros Hn Hcn. destruct (packet_olog s1 p1) eqn:El; [|discriminate]. exfalso. exact (Hstep Hn eq_refl Hcn).
  Qed.

  Lemma data_olog_K (s : state) now data :
    forallb is_connack_ev (snd (data_logs s now data)) = true /\
    (s_st s <> Connected -> s_st (h_s (net_data s now data)) = Connected -> snd (data_logs s now data) <> []).
  Proof.
    unfold Model.net_data, AliasRunLog.data_logs.
    destruct (pstate_eqb (s_st s) Disconnected || pstate_eqb (s_st s) Halted); [cbn; split; [reflexivity|congruence]|].
    destruct (pstate_eqb (s_st s) PendingConnack && connect_in_queue s); [cbn; split; [reflexivity|intros _ H; discriminate]|].
    destruct (dec_feed (cf_version cfg) (max_incoming_size cfg) (s_dec s) data) as [[d' ps] r].
    destruct r as [u|k|site]; [|cbn; split; [reflexivity|intros _ H; discriminate]|cbn; split; [reflexivity|congruence]].
    set (s1 := s <| s_dec := d' |>).
    rewrite <- (handle_packets_a_fst enc dec ores ores_reset ires ires_reset ires_resolve v_in cfg now ps s1 [] []).
    exact (handle_packets_a_K now ps s1 [] []).
  Qed.

  (* ---- one step ---- *)
  Theorem step_pcc (s : state) e live :
    WFX s -> ok_event e -> (s_st s = Connected -> live = true) ->
    pcc live (step_olog s e) /\ (s_st (fst (step s e)) = Connected -> live_after live (step_olog s e) = true).
  Proof.
    intros [[HW HP] HI] Hev HK.
    pose proof (step_st enc enc_reset enc_call enc_done dec dec_init dec_feed ores ores_reset ores_resolve ires ires_reset ires_resolve v_out v_in cfg s e HW) as T.
    destruct e as [now p t|now dl|now|now data|now|now cap fill|now|now]; cbn [AliasRunLog.step_olog]; cbn [st_step] in T.
    - split; [exact I|]. intros Hc. cbn. apply HK. destruct T as [T|[_ T]]; congruence.
    - split; [destruct (pstate_eqb (s_st s) Disconnected); exact I|]. intros Hc. rewrite T in Hc. destruct (s_st s); discriminate.
    - split; [destruct (pstate_eqb (s_st s) Disconnected); exact I|]. intros Hc. rewrite T in Hc. destruct (s_st s); discriminate.
    - destruct (data_olog_K s now data) as [D1 D2]. split; [apply pcc_connacks; exact D1|].
      intros Hc. apply live_connacks; [exact D1|]. cbn [Model.step fst] in Hc.
      destruct (pstate_eqb (s_st s) Connected) eqn:Ec.
      + right. apply HK. destruct (s_st s); cbn in Ec; congruence.
      + left. apply D2; [intros E; rewrite E in Ec; discriminate|].
        destruct (h_out (net_data s now data)); cbn [halt_on_error] in Hc; [exact Hc|discriminate|discriminate].
    - split; [exact I|]. intros Hc. cbn. apply HK. destruct (s_st s); try congruence; destruct T as [T|T]; congruence.
    - destruct (service_shape enc enc_reset enc_call enc_done dec ores ores_reset ores_resolve ires v_out cfg s now cap fill) as [S1 S2].
      cbn [Model.step fst] in T |- *. destruct (s_st s) eqn:Est.
      + unfold AliasRunLog.service_log. rewrite Est. split; [exact I|]. intros Hc. congruence.
      + split; [apply pcc_no_pub; apply service_pc; [split; assumption|exact Est]|]. intros Hc. destruct T as [T|[T|T]]; congruence.
      + rewrite (HK eq_refl). split; [apply pcc_brk_pos; exact S1|]. intros Hc.
        destruct (has_brk (service_log s now cap fill)) eqn:Hb; [rewrite (S2 eq_refl) in Hc; discriminate|].
        apply live_clean; [exact Hb|reflexivity].
      + unfold AliasRunLog.service_log. rewrite Est. split; [exact I|]. intros Hc. destruct T as [T|T]; congruence.
      + unfold AliasRunLog.service_log. rewrite Est. split; [exact I|]. intros Hc. congruence.
    - split; [exact I|]. intros Hc. cbn. apply HK. congruence.
    - split; [exact I|]. intros Hc. rewrite T in Hc. destruct (s_st s); discriminate.
  Qed.

  Theorem run_pcc : forall h (s : state) live,
    WFX s -> Forall ok_event h -> (s_st s = Connected -> live = true) -> pcc live (run_olog s h).
  Proof.
    induction h as [|e r IH]; intros s live HW Hall HK; cbn [AliasRunLog.run_olog]; [exact I|].
    inversion Hall as [|? ? He Hr]; subst.
    destruct (step_pcc s e live HW He HK) as [P1 P2]. apply pcc_app. split; [exact P1|].
    apply IH; [|exact Hr|exact P2].
    exact (WF_step enc enc_reset enc_call enc_done dec dec_init dec_feed ores ores_reset ores_resolve ires ires_reset ires_resolve v_out v_in cfg HC Hcfg s e HW He).
  Qed.

  (* every PUBLISH handed to the encoder, in every history, is handed over after an accepted CONNACK of the
     current connection with no failed seat since: never while the CONNACK is awaited, never after a
     close / reset / failed service call without a new CONNACK *)
  Theorem publish_only_on_live_connection (o : ores) (i : ires) h :
    ores_inv HC o -> ires_inv HC i -> Forall ok_event h -> pcc false (run_olog (init o i) h).
  Proof.
    intros Ho Hi Hall. apply run_pcc; [exact (WF_init _ _ _ _ _ _ _ _ _ _ _ _ _ _ _ HC o i Ho Hi)|exact Hall|]. cbn. discriminate.
  Qed.

  (* ---- inbound: nothing is surfaced on a new connection before its CONNACK was accepted ---- *)
  Notation packet_log := (packet_log enc dec ores ores_reset ires ires_reset v_in cfg).
  Notation step_ilog := (step_ilog enc dec dec_feed ores ores_reset ires ires_reset ires_resolve v_in cfg).

  Lemma handle_packet_pc_ev (s : state) now p :
    s_st s = PendingConnack -> packet_olog s p = [] -> packet_log s now p = [].
  Proof.
    intros Hst Hl.
    assert (Hpre : pre_connack s = true) by (unfold pre_connack; rewrite Hst; reflexivity).
    unfold AliasRunLog.packet_log.
    destruct p as [c|c|pb|a|a|a|a|sb|a|un|a| | |d|a]; cbn [Model.handle_packet app]; try reflexivity.
    - unfold AliasRunLog.packet_olog in Hl. destruct (connack_accepted s c) eqn:Ea; [discriminate|]. cbn [app].
      unfold AliasRunLog.connack_accepted in Ea. unfold Model.handle_connack. rewrite Hst in *. cbn [pstate_eqb negb andb] in *.
      destruct (ca_rc c =? 0); cbn [negb andb] in *; [|reflexivity].
      destruct (v_in None (Connack c)); cbn [is_ok] in *; [discriminate|reflexivity|reflexivity].
    - unfold handle_publish. rewrite Hpre. reflexivity.
    - unfold handle_puback. rewrite Hpre. reflexivity.
    - unfold handle_pubrec. rewrite Hpre. reflexivity.
    - unfold handle_pubrel. rewrite Hpre. reflexivity.
    - unfold handle_pubcomp. rewrite Hpre. reflexivity.
    - unfold handle_suback. rewrite Hpre. reflexivity.
    - unfold handle_unsuback. rewrite Hpre. reflexivity.
    - unfold handle_pingresp. rewrite Hst. reflexivity.
    - unfold handle_disconnect. rewrite Hpre. reflexivity.
  Qed.

  Lemma packet_log_accepted (s : state) now p : packet_olog s p <> [] -> exists l, packet_log s now p = IConnack :: l.
  Proof.
    unfold AliasRunLog.packet_olog, AliasRunLog.packet_log.
    destruct p as [c|c|pb|a|a|a|a|sb|a|un|a| | |d|a]; try congruence.
    destruct (connack_accepted s c); [|congruence]. intros _. eexists. reflexivity.
  Qed.

  Lemma handle_packets_a_surface now : forall ps (s : state) dn ev pb,
    s_st s = PendingConnack ->
    In (ISurface pb) (fst (snd (handle_packets_a s now ps dn ev))) ->
    exists l1 l2, fst (snd (handle_packets_a s now ps dn ev)) = l1 ++ IConnack :: l2 /\ In (ISurface pb) l2.
  Proof.
    induction ps as [|p rest IH]; intros s dn ev pb Hst Hin; cbn [AliasRunLog.handle_packets_a] in *; [destruct Hin|].
    cbv zeta in *.
    set (li := match p with
               | Publish pb0 => [IResolve pb0 (res_of (ires_resolve (s_ires s) (pub_alias pb0) (pub_topic pb0)))]
               | _ => [] end) in *.
    assert (Hli : ~ In (ISurface pb) li).
    { subst li. destruct p; cbn [In]; intros H; repeat (match type of H with _ \/ _ => destruct H as [H|H]; [discriminate H|] end); exact H. }
    assert (Hres : forall x : outcome (state * packet),
              x = match p with
                  | Publish pb0 => do (i', t) <- ires_resolve (s_ires s) (pub_alias pb0) (pub_topic pb0) ;
                                   Ok (s <| s_ires := i' |>, Publish (with_topic pb0 t))
                  | _ => Ok (s, p) end ->
              match x with Ok (s1, _) => s_st s1 = s_st s | _ => True end).
    { intros x ->. destruct p; try reflexivity. destruct (ires_resolve _ _ _) as [[i' t]| |]; cbn; try exact I. reflexivity. }
    specialize (Hres _ eq_refl). clearbody li.
    destruct (match p with Publish pb0 => _ | _ => _ end) as [[s1 p1]|k|site]; cbn [fst snd] in Hin |- *; [|contradiction..].
    destruct (v_in (s_settings s1) p1); cbn [fst snd] in Hin |- *; [|contradiction..].
    assert (Hst1 : s_st s1 = PendingConnack) by congruence.
    destruct (packet_olog s1 p1) eqn:El.
    - (* no accepted CONNACK: nothing surfaced by this packet, the engine keeps waiting *)
      pose proof (handle_packet_pc_ev s1 now p1 Hst1 El) as Epl. pose proof (handle_packet_pc s1 now p1 Hst1 El) as Est.
      destruct (h_out (handle_packet s1 now p1)); cbn [fst snd] in Hin |- *; rewrite Epl, app_nil_r in *; try contradiction.
      apply in_app_or in Hin. destruct Hin as [Hin|Hin]; [contradiction|].
      destruct (IH _ _ _ pb Est Hin) as (l1 & l2 & E & Hl2). exists (li ++ l1), l2. rewrite E, app_assoc. auto.
    - (* an accepted CONNACK comes first *)
      destruct (packet_log_accepted s1 now p1) as (lc & Epl); [rewrite El; discriminate|].
      assert (Hsplit : forall tl, In (ISurface pb) ((li ++ packet_log s1 now p1) ++ tl) ->
                exists l1 l2, (li ++ packet_log s1 now p1) ++ tl = l1 ++ IConnack :: l2 /\ In (ISurface pb) l2).
      { intros tl H. rewrite Epl in *. exists li, (lc ++ tl). split; [rewrite <- app_assoc; reflexivity|].
        apply in_app_or in H. destruct H as [H|H]; [|apply in_or_app; right; exact H].
        apply in_app_or in H. destruct H as [H|[H|H]]; [contradiction|discriminate|apply in_or_app; left; exact H]. }
      destruct (h_out (handle_packet s1 now p1)); cbn [fst snd] in Hin |- *; [apply Hsplit; exact Hin|..];
        rewrite (app_nil_end (li ++ packet_log s1 now p1)) in Hin |- *; apply Hsplit; exact Hin.
  Qed.

  (* every state: a PUBLISH is surfaced by a data call only when the engine was Connected / PendingDisconnect
     before the call, or was waiting for the CONNACK and accepted it EARLIER IN THE SAME CALL (which reset
     the inbound resolver): bindings of an earlier connection are never used *)
  Theorem surface_needs_connack (s : state) now data pb :
    In (ISurface pb) (step_ilog s (EvData now data)) ->
    s_st s = Connected \/ s_st s = PendingDisconnect \/
    (s_st s = PendingConnack /\
     exists l1 l2, step_ilog s (EvData now data) = l1 ++ IConnack :: l2 /\ In (ISurface pb) l2).
  Proof.
    cbn [AliasRunLog.step_ilog]. unfold AliasRunLog.data_logs.
    destruct (s_st s) eqn:Est; cbn [pstate_eqb orb andb]; try (intros []); auto.
    destruct (connect_in_queue s); [intros []|].
    destruct (dec_feed (cf_version cfg) (max_incoming_size cfg) (s_dec s) data) as [[d' ps] r].
    destruct r as [u|k|site]; [|intros []..].
    intros Hin. right. right. split; [reflexivity|].
    apply (handle_packets_a_surface now ps (s <| s_dec := d' |>) [] [] pb); [exact Est|exact Hin].
  Qed.
End Pcc.
