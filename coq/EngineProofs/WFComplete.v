(* Well-formedness through the completion helpers: release, fail_op, succeed_op, fail_all,
   succeed_all and the sequencing combinators. *)
From GM Require Import Base.Prelude Base.Outcome Codec.Packets Codec.Settings Engine.Model
  EngineProofs.AssocLemmas EngineProofs.WFLemmas EngineProofs.WFDefs EngineProofs.WFCore.
From Coq Require Import Sorting.Sorted.
From RecordUpdate Require Import RecordSet.
Import RecordSetNotations.
Open Scope N_scope.

(* the four component types are implicit in the engine functions, locally to this file *)
#[local] Arguments init {enc dec} _ {ores ires} _ _.
#[local] Arguments release {enc dec ores ires} _ _ _ _.
#[local] Arguments disconnect_completion {enc dec ores ires} _ _.
#[local] Arguments fail_op {enc dec ores ires} _ _ _ _.
#[local] Arguments ping_extension {enc dec ores ires} _ _.
#[local] Arguments succeed_op {enc dec ores ires} _ _ _ _.
#[local] Arguments fail_all {enc dec ores ires} _ _ _ _.
#[local] Arguments succeed_all {enc dec ores ires} _ _ _.
#[local] Arguments andthen {enc dec ores ires} _ _.
#[local] Arguments try_ {enc dec ores ires} _ _.
#[local] Arguments pure {enc dec ores ires} _.
#[local] Arguments create_operation {enc dec ores ires} _ _.
#[local] Arguments passes_now {enc dec ores ires} _ _ _.
#[local] Arguments user_event {enc dec ores ires} _ _ _ _.
#[local] Arguments create_connect {enc dec ores ires} _ _.
#[local] Arguments net_opened {enc dec} _ {ores ires} _ _ _.
#[local] Arguments op_exists {enc dec ores ires} _ _.
#[local] Arguments op_passes {enc dec ores ires} _ _ _.
#[local] Arguments partition_policy {enc dec ores ires} _ _ _.
#[local] Arguments closed_current {enc dec ores ires} _ _.
#[local] Arguments slow_start_init {enc dec ores ires} _ _.
#[local] Arguments update_retries {enc dec ores ires} _ _.
#[local] Arguments fail_exceeding {enc dec ores ires} _ _.
#[local] Arguments has_pubrel {enc dec ores ires} _ _.
#[local] Arguments net_closed_raw {enc dec ores ires} _ _.
#[local] Arguments net_closed {enc dec ores ires} _ _.
#[local] Arguments net_write_completion {enc dec ores ires} _ _.
#[local] Arguments acquire_free_pid {enc dec ores ires} _ _.
#[local] Arguments acquire_pid_for {enc dec ores ires} _ _.
#[local] Arguments unbind {enc dec ores ires} _ _.
#[local] Arguments passes_receive_max {enc dec ores ires} _ _.
#[local] Arguments throttled {enc dec ores ires} _ _.
#[local] Arguments has_pending_ack {enc dec ores ires} _.
#[local] Arguments dequeue {enc dec ores ires} _ _ _.
#[local] Arguments fully_written {enc dec ores ires} _ _.
#[local] Arguments service_keep_alive {enc dec ores ires} _ _ _.
#[local] Arguments process_ack_timeouts {enc dec ores ires} _ _ _.
#[local] Arguments halt_on_error {enc dec ores ires} _ _.
#[local] Arguments next_service_time {enc dec ores ires} _ _ _.
#[local] Arguments build_settings {enc dec ores ires} _ _ _.
#[local] Arguments apply_session {enc dec ores ires} _ _ _.
#[local] Arguments hres_of {enc dec ores ires} _ _.
#[local] Arguments pre_connack {enc dec ores ires} _.
#[local] Arguments sum_ss {enc dec ores ires} _.
#[local] Arguments handle_pingresp {enc dec ores ires} _.
#[local] Arguments handle_suback {enc dec ores ires} _ _ _.
#[local] Arguments handle_unsuback {enc dec ores ires} _ _ _.
#[local] Arguments publish_qos_of {enc dec ores ires} _ _.
#[local] Arguments handle_puback {enc dec ores ires} _ _ _.
#[local] Arguments handle_pubrec {enc dec ores ires} _ _ _.
#[local] Arguments handle_pubrel {enc dec ores ires} _ _.
#[local] Arguments handle_pubcomp {enc dec ores ires} _ _ _.
#[local] Arguments handle_publish {enc dec ores ires} _ _.
#[local] Arguments handle_disconnect {enc dec ores ires} _ _ _.
#[local] Arguments is_connect_op {enc dec ores ires} _ _.
#[local] Arguments connect_in_queue {enc dec ores ires} _.
#[local] Arguments reset {enc dec ores ires} _ _.
#[local] Arguments out_of_res {enc dec ores ires} _ _.
#[local] Arguments nst_queue {enc dec ores ires} _ _ _ _.
#[local] Arguments earliest_tmo {enc dec ores ires} _.
#[local] Arguments SeatStop {enc dec ores ires} _.
#[local] Arguments SeatContinue {enc dec ores ires} _ _.
#[local] Arguments SeatEncode {enc dec ores ires} _.


(* slow-start sums *)
Lemma sumss_cons k v r : sumss ((k, v) :: r) = op_ss v + sumss r.
Proof. reflexivity. Qed.

Lemma sumss_remove ops id o :
  inc (keys ops) -> lookup id ops = Some o -> sumss ops = op_ss o + sumss (remove id ops).
Proof.
  induction ops as [|[k v] r IH]; cbn [lookup remove keys map fst]; [discriminate|].
  intros Hinc Hl. inversion Hinc as [|? ? Hr Hall]; subst. rewrite sumss_cons. destruct (k =? id) eqn:E.
  - inversion Hl; subst. assert (k = id) by lia. subst.
    rewrite remove_not_in; [reflexivity|]. intros Hin. rewrite Forall_forall in Hall. specialize (Hall _ Hin). lia.
  - rewrite sumss_cons. rewrite (IH Hr Hl). lia.
Qed.

Lemma sumss_app ops ops' : sumss (ops ++ ops') = sumss ops + sumss ops'.
Proof.
  induction ops as [|[k v] r IH]; cbn [app]; [change (sumss []) with 0; lia|]. rewrite !sumss_cons, IH. lia.
Qed.

Lemma sumss_update ops id f : (forall o, op_ss (f o) = op_ss o) -> sumss (update id f ops) = sumss ops.
Proof.
  intros Hf. induction ops as [|[k v] r IH]; cbn [update]; [reflexivity|].
  destruct (k =? id); rewrite !sumss_cons; [rewrite Hf; reflexivity|]. rewrite IH. reflexivity.
Qed.

Lemma sumss_upd_all f ids : (forall o, op_ss (f o) = op_ss o) -> forall ops, sumss (upd_all f ids ops) = sumss ops.
Proof.
  intros Hf. unfold upd_all. induction ids as [|a r IH]; intros ops; cbn [fold_left]; [reflexivity|].
  rewrite IH. apply sumss_update. exact Hf.
Qed.

Section Complete.
  Context {enc dec ores ires : Type}.
  Notation state := (state enc dec ores ires).
  Notation res := (res enc dec ores ires).
  Variable cfg : config.

  (* fields never touched by a completion *)
  Definition rest_of (s : state) :=
    (s_uq s, s_rq s, s_hq s, s_cur s, s_pwco s, s_tmo s, s_pwc s, s_settings s, s_next_id s, s_next_pid s,
     s_enc s, s_connack_to s, s_ping_to s, s_q2in s, s_connected_before s, s_dec s, s_ores s, s_ires s).

  Definition W9 (s : state) : Prop := s_st s = Connected -> ss_ok cfg s.

  Record frame_c (ids : list N) (s s' : state) : Prop := mkFrameC {
    fc_rest : rest_of s' = rest_of s;
    fc_st : s_st s' = s_st s \/ (s_st s = PendingDisconnect /\ s_st s' = Halted);
    fc_keep : forall i, ~ In i ids -> getop s' i = getop s i;
    fc_sub : forall i o, getop s' i = Some o -> getop s i = Some o;
    fc_ppub : forall x, In x (s_ppub s') -> In x (s_ppub s);
    fc_pnon : forall x, In x (s_pnon s') -> In x (s_pnon s) }.

  Lemma rest_comp (s s' : state) : rest_of s' = rest_of s -> comp_of s' = comp_of s.
  Proof.
    unfold rest_of, comp_of. intros H. repeat (apply pair_equal_spec in H; destruct H as [H ?]). congruence.
  Qed.

  Lemma frame_c_refl s : frame_c [] s s.
  Proof. constructor; auto. Qed.

  Lemma frame_c_weaken ids ids' s s' : frame_c ids s s' -> (forall i, In i ids -> In i ids') -> frame_c ids' s s'.
  Proof. intros [] Hi. constructor; auto. Qed.

  Lemma frame_c_trans ids1 ids2 s1 s2 s3 : frame_c ids1 s1 s2 -> frame_c ids2 s2 s3 -> frame_c (ids1 ++ ids2) s1 s3.
  Proof.
    intros [A1 A2 A3 A4 A5 A6] [B1 B2 B3 B4 B5 B6]. constructor; auto.
    - congruence.
    - destruct B2 as [B2|[B2 B2']]; destruct A2 as [A2|[A2 A2']]; try (left; congruence); try (right; split; congruence).
    - intros i Hi. rewrite B3, A3; [reflexivity| |]; intros Hx; apply Hi; apply in_or_app; tauto.
  Qed.

  Lemma subset_nil {A} (l l' : list A) : (forall x, In x l' -> In x l) -> l = [] -> l' = [].
  Proof. intros H ->. destruct l' as [|x r]; [reflexivity|]. destruct (H x). left. reflexivity. Qed.

  (* ---- release ---- *)
  Lemma release_spec X (s : state) id o :
    WFSx X s -> W9 s -> getop s id = Some o ->
    exists s', release cfg s id o = Ok s' /\ WFSx X s' /\ W9 s' /\ s_st s' = s_st s /\ rest_of s' = rest_of s /\
               s_ops s' = remove id (s_ops s) /\ s_next_ping s' = s_next_ping s /\
               (forall x, In x (s_ppub s') -> In x (s_ppub s)) /\ (forall x, In x (s_pnon s') -> In x (s_pnon s)).
  Proof.
    intros HW H9 Hid. unfold release.
    set (s2 := match op_pid o with
               | Some p => s <| s_ops := remove id (s_ops s) |> <| s_alloc := remove p (s_alloc (s <| s_ops := remove id (s_ops s) |>)) |>
                             <| s_ppub := remove p (s_ppub (s <| s_ops := remove id (s_ops s) |>)) |>
                             <| s_pnon := remove p (s_pnon (s <| s_ops := remove id (s_ops s) |>)) |>
               | None => s <| s_ops := remove id (s_ops s) |> end).
    assert (Hw2 : WFSx X s2).
    { eapply WFc_release; [exact HW|exact Hid|]. unfold s2. destruct (op_pid o); reflexivity. }
    assert (Hst2 : s_st s2 = s_st s) by (unfold s2; destruct (op_pid o); reflexivity).
    assert (Hr2 : rest_of s2 = rest_of s) by (unfold s2; destruct (op_pid o); reflexivity).
    assert (Ho2 : s_ops s2 = remove id (s_ops s)) by (unfold s2; destruct (op_pid o); reflexivity).
    assert (Hc2 : s_ss_count s2 = s_ss_count s) by (unfold s2; destruct (op_pid o); reflexivity).
    assert (Hn2 : s_next_ping s2 = s_next_ping s) by (unfold s2; destruct (op_pid o); reflexivity).
    assert (Hp2 : forall x, In x (s_ppub s2) -> In x (s_ppub s)).
    { unfold s2; destruct (op_pid o); cbn; [|tauto]. intros [k v] Hx. apply In_remove in Hx. tauto. }
    assert (Hq2 : forall x, In x (s_pnon s2) -> In x (s_pnon s)).
    { unfold s2; destruct (op_pid o); cbn; [|tauto]. intros [k v] Hx. apply In_remove in Hx. tauto. }
    assert (Hsum : sumss (s_ops s) = op_ss o + sumss (s_ops s2)).
    { rewrite Ho2. apply sumss_remove; [apply HW|exact Hid]. }
    clearbody s2.
    destruct (cf_drain_one cfg && pstate_eqb (s_st s2) Connected && negb (op_ss o =? 0)) eqn:Ec.
    - apply andb_prop in Ec. destruct Ec as [Ec Ess]. apply andb_prop in Ec. destruct Ec as [Ed Est].
      assert (Hconn : s_st s = Connected) by (rewrite <- Hst2; destruct (s_st s2); cbn in Est; congruence).
      pose proof (H9 Hconn Ed) as Hcount. rewrite Hsum in Hcount.
      destruct (op_ss o <=? s_ss_count s2) eqn:El; [|lia].
      eexists. split; [reflexivity|]. split; [exact Hw2|]. split; [|cbn; repeat split; assumption].
      intros _ _. cbn. lia.
    - eexists. split; [reflexivity|]. split; [exact Hw2|]. split; [|repeat split; assumption].
      intros Hconn Hd. rewrite Hst2 in Hconn. unfold ss_ok in *. specialize (H9 Hconn Hd).
      rewrite Hc2, H9, Hsum. rewrite Hst2, Hconn, Hd in Ec. cbn in Ec. destruct (op_ss o =? 0) eqn:E0; [lia|discriminate].
  Qed.

  (* ---- what failing a set of operations does ---- *)
  Record fail_spec (X ids : list N) (s : state) (r : res) : Prop := mkFailSpec {
    fs_nopanic : forall site, r_out r <> Panic site;
    fs_wfs : WFSx X (r_s r);
    fs_w9 : W9 (r_s r);
    fs_frame : frame_c ids s (r_s r);
    fs_gone : forall i, In i ids -> getop (r_s r) i = None;
    fs_ping : s_next_ping (r_s r) = s_next_ping s;
    fs_out : r_out r = Ok tt \/
             (r_out r = Err EUserInitiatedDisconnect /\
              exists i o, In i ids /\ getop s i = Some o /\ is_disconnect (op_packet o) = true) }.

  Lemma frame_release (s s' : state) id :
    s_st s' = s_st s -> rest_of s' = rest_of s -> s_ops s' = remove id (s_ops s) ->
    (forall x, In x (s_ppub s') -> In x (s_ppub s)) -> (forall x, In x (s_pnon s') -> In x (s_pnon s)) ->
    frame_c [id] s s'.
  Proof.
    intros E1 E2 E3 E4 E5. constructor; auto; unfold getop; rewrite E3.
    - intros i Hi. apply lookup_remove_neq. intros ->. apply Hi. left. reflexivity.
    - intros i o Hi. apply lookup_remove_inv in Hi. tauto.
  Qed.

  Lemma frame_c_st (ids : list N) (s s' s'' : state) :
    frame_c ids s s' -> s_ops s'' = s_ops s' -> rest_of s'' = rest_of s' -> s_ppub s'' = s_ppub s' -> s_pnon s'' = s_pnon s' ->
    (s_st s'' = s_st s' \/ (s_st s' = PendingDisconnect /\ s_st s'' = Halted)) -> frame_c ids s s''.
  Proof.
    intros [A1 A2 A3 A4 A5 A6] E1 E2 E3 E4 E5. constructor; unfold getop in *; try rewrite E1; try rewrite E3; try rewrite E4; auto.
    - congruence.
    - destruct E5 as [E5|[E5 E5']]; destruct A2 as [A2|[A2 A2']]; try (left; congruence); try (right; split; congruence).
  Qed.

  Lemma fail_op_spec X (s : state) id e :
    WFSx X s -> W9 s -> fail_spec X [id] s (fail_op cfg s id e).
  Proof.
    intros HW H9. unfold fail_op. destruct (lookup id (s_ops s)) as [o|] eqn:Hid.
    - destruct (release_spec X s id o HW H9 Hid) as (s1 & -> & Hw1 & H91 & Hst1 & Hr1 & Ho1 & Hn1 & Hp1 & Hq1).
      pose proof (frame_release _ _ _ Hst1 Hr1 Ho1 Hp1 Hq1) as Hf1.
      assert (Hg1 : getop s1 id = None) by (unfold getop; rewrite Ho1; apply lookup_remove_eq).
      unfold disconnect_completion. destruct (is_disconnect (op_packet o)) eqn:Ed.
      + set (s2 := if pstate_eqb (s_st s1) PendingDisconnect then s1 <| s_st := Halted |> else s1).
        assert (Hc2 : core_of s2 = core_of s1) by (unfold s2; destruct (pstate_eqb (s_st s1) PendingDisconnect); reflexivity).
        assert (Hst2 : s_st s2 = s_st s1 \/ (s_st s1 = PendingDisconnect /\ s_st s2 = Halted)).
        { unfold s2. destruct (s_st s1) eqn:E; cbn; auto. }
        assert (H92 : W9 s2).
        { unfold s2. destruct (s_st s1) eqn:E; cbn; try exact H91. intros Hx; discriminate. }
        cbn [r_s r_out r_done]. constructor; cbn [r_s r_out r_done].
        * intros site; discriminate.
        * unfold WFSx. rewrite Hc2. exact Hw1.
        * exact H92.
        * eapply frame_c_st; [exact Hf1| | | | |exact Hst2]; unfold s2; destruct (pstate_eqb (s_st s1) PendingDisconnect); reflexivity.
        * intros i [<-|[]]. unfold s2; destruct (pstate_eqb (s_st s1) PendingDisconnect); exact Hg1.
        * unfold s2; destruct (pstate_eqb (s_st s1) PendingDisconnect); exact Hn1.
        * right. split; [reflexivity|]. exists id, o. split; [left; reflexivity|]. split; [exact Hid|exact Ed].
      + assert (Hsp : forall d, fail_spec X [id] s (mkRes s1 d (Ok tt))).
        { intros d. constructor; cbn [r_s r_out r_done]; auto.
          - intros site; discriminate.
          - intros i [<-|[]]. exact Hg1. }
        destruct (op_user o); apply Hsp.
    - constructor; cbn [r_s r_out r_done]; auto.
      + intros site; discriminate.
      + eapply frame_c_weaken; [apply frame_c_refl|]. intros i [].
      + intros i [<-|[]]. exact Hid.
  Qed.

  (* ---- successful completion ---- *)
  Record succ_spec (X ids : list N) (s : state) (r : res) : Prop := mkSuccSpec {
    ss_nopanic : forall site, r_out r <> Panic site;
    ss_wfs : WFSx X (r_s r);
    ss_w9 : W9 (r_s r);
    ss_frame : frame_c ids s (r_s r);
    ss_gone : forall i, In i ids -> getop (r_s r) i = None }.

  Lemma ping_extension_core (s : state) o : core_of (ping_extension s o) = core_of s /\ s_st (ping_extension s o) = s_st s /\
    rest_of (ping_extension s o) = rest_of s /\ s_ss_count (ping_extension s o) = s_ss_count s /\
    s_ops (ping_extension s o) = s_ops s /\ s_ppub (ping_extension s o) = s_ppub s /\ s_pnon (ping_extension s o) = s_pnon s.
  Proof.
    unfold ping_extension.
    destruct (match op_packet o with
              | Subscribe _ | Unsubscribe _ => op_ext o
              | Publish pb => if pub_qos pb =? 0 then None else op_ext o
              | _ => None end); [|repeat split; reflexivity].
    destruct (s_settings s); [|repeat split; reflexivity]. destruct (s_next_ping s); [|repeat split; reflexivity].
    match goal with |- context [if ?b then _ else _] => destruct b end; repeat split; reflexivity.
  Qed.

  Lemma succeed_op_spec X (s : state) id resp :
    WFSx X s -> W9 s ->
    (resp <> None \/ forall o, getop s id = Some o -> nonk (op_packet o) = false) ->
    succ_spec X [id] s (succeed_op cfg s id resp).
  Proof.
    intros HW H9 Hresp. unfold succeed_op. destruct (lookup id (s_ops s)) as [o|] eqn:Hid.
    - destruct (release_spec X s id o HW H9 Hid) as (s1 & -> & Hw1 & H91 & Hst1 & Hr1 & Ho1 & Hn1 & Hp1 & Hq1).
      destruct (ping_extension_core s1 o) as (Pc & Pst & Pr & Pss & Po & Ppp & Ppn).
      set (s1' := ping_extension s1 o) in *. clearbody s1'.
      assert (Hw1' : WFSx X s1') by (unfold WFSx; rewrite Pc; exact Hw1).
      assert (H91' : W9 s1') by (unfold W9, ss_ok; rewrite Pst, Pss, Po; exact H91).
      assert (Hf1 : frame_c [id] s s1').
      { apply frame_release; try congruence; rewrite ?Ppp, ?Ppn; assumption. }
      assert (Hg1 : getop s1' id = None) by (unfold getop; rewrite Po, Ho1; apply lookup_remove_eq).
      unfold disconnect_completion. destruct (is_disconnect (op_packet o)) eqn:Ed.
      + set (s2 := if pstate_eqb (s_st s1') PendingDisconnect then s1' <| s_st := Halted |> else s1').
        assert (Hc2 : core_of s2 = core_of s1') by (unfold s2; destruct (pstate_eqb (s_st s1') PendingDisconnect); reflexivity).
        assert (Hst2 : s_st s2 = s_st s1' \/ (s_st s1' = PendingDisconnect /\ s_st s2 = Halted)).
        { unfold s2. destruct (s_st s1') eqn:E; cbn; auto. }
        assert (H92 : W9 s2).
        { unfold s2. destruct (s_st s1') eqn:E; cbn; try exact H91'. intros Hx; discriminate. }
        cbn [r_s r_out r_done]. constructor; cbn [r_s r_out r_done].
        * intros site; discriminate.
        * unfold WFSx. rewrite Hc2. exact Hw1'.
        * exact H92.
        * eapply frame_c_st; [exact Hf1| | | | |exact Hst2]; unfold s2; destruct (pstate_eqb (s_st s1') PendingDisconnect); reflexivity.
        * intros i [<-|[]]. unfold s2; destruct (pstate_eqb (s_st s1') PendingDisconnect); exact Hg1.
      + assert (Hsp : forall d out, (forall site, out <> Panic site) -> succ_spec X [id] s (mkRes s1' d out)).
        { intros d out Hout. constructor; cbn [r_s r_out r_done]; auto. intros i [<-|[]]. exact Hg1. }
        destruct (op_user o); [|apply Hsp; intros; discriminate].
        destruct (success_value o resp) as [c|k|site] eqn:Esv; try (apply Hsp; intros; discriminate).
        exfalso. unfold success_value in Esv.
        destruct Hresp as [Hresp|Hresp].
        * destruct (op_packet o); try discriminate; destruct resp as [[]|]; try discriminate; congruence.
        * specialize (Hresp _ Hid). destruct (op_packet o); try discriminate; destruct resp as [[]|]; discriminate.
    - constructor; cbn [r_s r_out r_done]; auto.
      + intros site; discriminate.
      + eapply frame_c_weaken; [apply frame_c_refl|]. intros i [].
      + intros i [<-|[]]. exact Hid.
  Qed.

  (* ---- sequencing ---- *)
  Definition okish (o : outcome unit) : Prop := o = Ok tt \/ o = Err EUserInitiatedDisconnect.

  Lemma okish_fold a b : okish a -> okish b -> okish (fold_result a b).
  Proof. intros Ha [->| ->]; cbn; [exact Ha|right; reflexivity]. Qed.

  Lemma okish_nopanic o : okish o -> forall site, o <> Panic site.
  Proof. intros [->| ->] site; discriminate. Qed.

  Lemma nopanic_is_panic (o : outcome unit) : (forall site, o <> Panic site) -> is_panic o = false.
  Proof. destruct o; cbn; intros H; try reflexivity. exfalso. eapply H. reflexivity. Qed.

  Lemma andthen_s (r : res) f : (forall site, r_out r <> Panic site) -> r_s (andthen r f) = r_s (f (r_s r)).
  Proof. intros H. unfold andthen. rewrite (nopanic_is_panic _ H). destruct (is_panic (r_out (f (r_s r)))); reflexivity. Qed.

  Lemma andthen_out (r : res) f :
    (forall site, r_out r <> Panic site) -> (forall site, r_out (f (r_s r)) <> Panic site) ->
    r_out (andthen r f) = fold_result (r_out r) (r_out (f (r_s r))).
  Proof. intros H H2. unfold andthen. rewrite (nopanic_is_panic _ H), (nopanic_is_panic _ H2). reflexivity. Qed.

  Lemma andthen_done (r : res) f :
    (forall site, r_out r <> Panic site) -> r_done (andthen r f) = r_done r ++ r_done (f (r_s r)).
  Proof. intros H. unfold andthen. rewrite (nopanic_is_panic _ H). destruct (is_panic (r_out (f (r_s r)))); reflexivity. Qed.

  Lemma try_ok (r : res) f : r_out r = Ok tt ->
    try_ r f = mkRes (r_s (f (r_s r))) (r_done r ++ r_done (f (r_s r))) (r_out (f (r_s r))).
  Proof. intros H. unfold try_. rewrite H. reflexivity. Qed.

  Lemma getop_none_frame ids (s s' : state) i : frame_c ids s s' -> getop s i = None -> getop s' i = None.
  Proof.
    intros F H. destruct (getop s' i) as [o|] eqn:E; [|reflexivity]. apply (fc_sub _ _ _ F) in E. congruence.
  Qed.

  Lemma fail_spec_out X ids s r : fail_spec X ids s r -> okish (r_out r).
  Proof. intros F. destruct (fs_out _ _ _ _ F) as [H|[H _]]; [left|right]; exact H. Qed.

  Lemma andthen_fail_spec X ids1 ids2 (s : state) (r : res) f :
    fail_spec X ids1 s r -> fail_spec X ids2 (r_s r) (f (r_s r)) -> fail_spec X (ids1 ++ ids2) s (andthen r f).
  Proof.
    intros F1 F2.
    pose proof (fs_nopanic _ _ _ _ F1) as N1. pose proof (fs_nopanic _ _ _ _ F2) as N2.
    constructor; rewrite ?andthen_s, ?andthen_out by assumption.
    - apply okish_nopanic. apply okish_fold; eapply fail_spec_out; eauto.
    - apply F2.
    - apply F2.
    - eapply frame_c_trans; [apply F1|apply F2].
    - intros i Hi. apply in_app_or in Hi. destruct Hi as [Hi|Hi]; [|apply (fs_gone _ _ _ _ F2); exact Hi].
      eapply getop_none_frame; [apply F2|]. apply (fs_gone _ _ _ _ F1). exact Hi.
    - rewrite (fs_ping _ _ _ _ F2). apply F1.
    - destruct (fs_out _ _ _ _ F2) as [E2|[E2 (i & o & Hi & Ho & Hd)]]; rewrite E2; cbn [fold_result].
      + destruct (fs_out _ _ _ _ F1) as [E1|[E1 (i & o & Hi & Ho & Hd)]]; [left; exact E1|].
        right. split; [exact E1|]. exists i, o. split; [apply in_or_app; tauto|tauto].
      + right. split; [reflexivity|]. exists i, o. split; [apply in_or_app; tauto|]. split; [|exact Hd].
        apply (fc_sub _ _ _ (fs_frame _ _ _ _ F1)). exact Ho.
  Qed.

  Lemma fail_spec_nil X (s : state) : WFSx X s -> W9 s -> fail_spec X [] s (mkRes s [] (Ok tt)).
  Proof.
    intros HW H9. constructor; cbn [r_s r_out r_done]; auto.
    - intros site; discriminate.
    - apply frame_c_refl.
    - intros i [].
  Qed.

  Lemma fail_all_spec X ids : forall (s : state) e, WFSx X s -> W9 s -> fail_spec X ids s (fail_all cfg s ids e).
  Proof.
    induction ids as [|id rest IH]; intros s e HW H9.
    - apply fail_spec_nil; assumption.
    - change (fail_all cfg s (id :: rest) e) with (andthen (fail_op cfg s id e) (fun s' => fail_all cfg s' rest e)).
      change (id :: rest) with ([id] ++ rest).
      pose proof (fail_op_spec X s id e HW H9) as F1.
      apply andthen_fail_spec; [exact F1|]. apply IH; apply F1.
  Qed.

  Lemma succeed_all_spec X ids : forall (s : state), WFSx X s -> W9 s ->
    (forall i o, In i ids -> getop s i = Some o -> nonk (op_packet o) = false) ->
    succ_spec X ids s (succeed_all cfg s ids).
  Proof.
    induction ids as [|id rest IH]; intros s HW H9 Hk.
    - constructor; cbn [succeed_all r_s r_out r_done]; auto.
      + intros site; discriminate.
      + apply frame_c_refl.
      + intros i [].
    - change (succeed_all cfg s (id :: rest)) with (andthen (succeed_op cfg s id None) (fun s' => succeed_all cfg s' rest)).
      change (id :: rest) with ([id] ++ rest).
      assert (F1 : succ_spec X [id] s (succeed_op cfg s id None)).
      { apply succeed_op_spec; try assumption. right. intros o Ho. eapply Hk; [left; reflexivity|exact Ho]. }
      assert (F2 : succ_spec X rest (r_s (succeed_op cfg s id None)) (succeed_all cfg (r_s (succeed_op cfg s id None)) rest)).
      { apply IH; try apply F1. intros i o Hi Ho. eapply Hk; [right; exact Hi|]. apply (fc_sub _ _ _ (ss_frame _ _ _ _ F1)). exact Ho. }
      pose proof (ss_nopanic _ _ _ _ F1) as N1. pose proof (ss_nopanic _ _ _ _ F2) as N2.
      constructor; rewrite ?andthen_s, ?andthen_out by assumption.
      + intros site. destruct (r_out (succeed_all cfg (r_s (succeed_op cfg s id None)) rest)) eqn:E; cbn [fold_result];
          [apply N1|discriminate|exfalso; eapply N2; reflexivity].
      + apply F2.
      + apply F2.
      + eapply frame_c_trans; [apply F1|apply F2].
      + intros i Hi. apply in_app_or in Hi. destruct Hi as [Hi|Hi]; [|apply (ss_gone _ _ _ _ F2); exact Hi].
        eapply getop_none_frame; [apply F2|]. apply (ss_gone _ _ _ _ F1). exact Hi.
  Qed.
End Complete.
