(* C18 run level, the retry limit.  LIM: with max_interrupted_retries = Some limit no operation of a
   reachable state has an interruption count above the limit: the close that makes the count exceed it
   removes the operation.  A MaxInterruptedRetriesExceeded completion is produced only by a close that
   catches a user operation whose count was exactly the limit (its (limit+1)-th interruption). *)
From GM Require Import Base.Prelude Base.Outcome Codec.Packets Codec.Settings Engine.Model
  EngineProofs.AssocLemmas EngineProofs.WFLemmas EngineProofs.SvcTimeout EngineProofs.DeliveryBase
  EngineProofs.WFDefs EngineProofs.WFCore EngineProofs.WFComplete EngineProofs.WFClose EngineProofs.WFClose2 EngineProofs.WFEvents
  EngineProofs.WFStep EngineProofs.WFProps
  EngineProofs.TimersRunDefs EngineProofs.TimersRunSvc EngineProofs.TimersRunData EngineProofs.TimersRunClose EngineProofs.TimersRun.
From RecordUpdate Require Import RecordSet.
Import RecordSetNotations.
Open Scope N_scope.

Section Retry.
  Variable enc : Type.
  Variable enc_reset : version -> packet -> resolution -> outcome enc.
  Variable enc_call : enc -> N -> N -> outcome (bytes * enc).
  Variable enc_done : enc -> bool.
  Variable dec : Type.
  Variable dec_init : dec.
  Variable dec_feed : version -> N -> dec -> bytes -> dec * list packet * outcome unit.
  Variable ores : Type.
  Variable ores_reset : ores -> N -> ores.
  Variable ores_resolve : ores -> option N -> bytes -> outcome (ores * resolution).
  Variable ires : Type.
  Variable ires_reset : ires -> ires.
  Variable ires_resolve : ires -> option N -> bytes -> outcome (ires * bytes).
  Variable v_out : option settings -> connect_opts -> resolution -> packet -> outcome unit.
  Variable v_in : option settings -> packet -> outcome unit.
  Variable cfg : config.

  Notation state := (Model.state enc dec ores ires).
  Notation init := (Model.init enc dec dec_init ores ires).
  Notation res := (Model.res enc dec ores ires).
  Notation release := (Model.release enc dec ores ires cfg).
  Notation disconnect_completion := (Model.disconnect_completion enc dec ores ires).
  Notation fail_op := (Model.fail_op enc dec ores ires cfg).
  Notation ping_extension := (Model.ping_extension enc dec ores ires).
  Notation succeed_op := (Model.succeed_op enc dec ores ires cfg).
  Notation fail_all := (Model.fail_all enc dec ores ires cfg).
  Notation succeed_all := (Model.succeed_all enc dec ores ires cfg).
  Notation andthen := (Model.andthen enc dec ores ires).
  Notation try_ := (Model.try_ enc dec ores ires).
  Notation pure := (Model.pure enc dec ores ires).
  Notation create_operation := (Model.create_operation enc dec ores ires).
  Notation passes_now := (Model.passes_now enc dec ores ires cfg).
  Notation user_event := (Model.user_event enc dec ores ires cfg).
  Notation create_connect := (Model.create_connect enc dec ores ires cfg).
  Notation net_opened := (Model.net_opened enc dec dec_init ores ires cfg).
  Notation op_exists := (Model.op_exists enc dec ores ires).
  Notation op_passes := (Model.op_passes enc dec ores ires cfg).
  Notation partition_policy := (Model.partition_policy enc dec ores ires cfg).
  Notation closed_current := (Model.closed_current enc dec ores ires cfg).
  Notation slow_start_init := (Model.slow_start_init enc dec ores ires cfg).
  Notation update_retries := (Model.update_retries enc dec ores ires cfg).
  Notation fail_exceeding := (Model.fail_exceeding enc dec ores ires cfg).
  Notation has_pubrel := (Model.has_pubrel enc dec ores ires).
  Notation net_closed_raw := (Model.net_closed_raw enc dec ores ires cfg).
  Notation net_closed := (Model.net_closed enc dec ores ires cfg).
  Notation net_write_completion := (Model.net_write_completion enc dec ores ires cfg).
  Notation acquire_free_pid := (Model.acquire_free_pid enc dec ores ires).
  Notation acquire_pid_for := (Model.acquire_pid_for enc dec ores ires).
  Notation unbind := (Model.unbind enc dec ores ires).
  Notation passes_receive_max := (Model.passes_receive_max enc dec ores ires).
  Notation throttled := (Model.throttled enc dec ores ires cfg).
  Notation has_pending_ack := (Model.has_pending_ack enc dec ores ires).
  Notation dequeue := (Model.dequeue enc dec ores ires cfg).
  Notation fully_written := (Model.fully_written enc dec ores ires).
  Notation sres := (Model.sres enc dec ores ires).
  Notation seat := (Model.seat enc dec ores ires).
  Notation seat_current := (Model.seat_current enc enc_reset dec ores ores_reset ores_resolve ires v_out cfg).
  Notation service_loop := (Model.service_loop enc enc_reset enc_call enc_done dec ores ores_reset ores_resolve ires v_out cfg).
  Notation service_queue := (Model.service_queue enc enc_reset enc_call enc_done dec ores ores_reset ores_resolve ires v_out cfg).
  Notation service_keep_alive := (Model.service_keep_alive enc dec ores ires cfg).
  Notation process_ack_timeouts := (Model.process_ack_timeouts enc dec ores ires cfg).
  Notation halt_on_error := (Model.halt_on_error enc dec ores ires).
  Notation service := (Model.service enc enc_reset enc_call enc_done dec ores ores_reset ores_resolve ires v_out cfg).
  Notation earliest_tmo := (Model.earliest_tmo enc dec ores ires).
  Notation nst_queue := (Model.nst_queue enc dec ores ires cfg).
  Notation next_service_time := (Model.next_service_time enc dec ores ires cfg).
  Notation build_settings := (Model.build_settings enc dec ores ires cfg).
  Notation apply_session := (Model.apply_session enc dec ores ires cfg).
  Notation hres := (Model.hres enc dec ores ires).
  Notation hres_of := (Model.hres_of enc dec ores ires).
  Notation pre_connack := (Model.pre_connack enc dec ores ires).
  Notation sum_ss := (Model.sum_ss enc dec ores ires).
  Notation handle_connack := (Model.handle_connack enc dec ores ores_reset ires ires_reset v_in cfg).
  Notation handle_pingresp := (Model.handle_pingresp enc dec ores ires).
  Notation handle_suback := (Model.handle_suback enc dec ores ires cfg).
  Notation handle_unsuback := (Model.handle_unsuback enc dec ores ires cfg).
  Notation publish_qos_of := (Model.publish_qos_of enc dec ores ires).
  Notation handle_puback := (Model.handle_puback enc dec ores ires cfg).
  Notation handle_pubrec := (Model.handle_pubrec enc dec ores ires cfg).
  Notation handle_pubrel := (Model.handle_pubrel enc dec ores ires).
  Notation handle_pubcomp := (Model.handle_pubcomp enc dec ores ires cfg).
  Notation handle_publish := (Model.handle_publish enc dec ores ires).
  Notation handle_disconnect := (Model.handle_disconnect enc dec ores ires cfg).
  Notation handle_packet := (Model.handle_packet enc dec ores ores_reset ires ires_reset v_in cfg).
  Notation handle_packets := (Model.handle_packets enc dec ores ores_reset ires ires_reset ires_resolve v_in cfg).
  Notation is_connect_op := (Model.is_connect_op enc dec ores ires).
  Notation connect_in_queue := (Model.connect_in_queue enc dec ores ires).
  Notation max_incoming_size := (Model.max_incoming_size cfg).
  Notation net_data := (Model.net_data enc dec dec_feed ores ores_reset ires ires_reset ires_resolve v_in cfg).
  Notation reset := (Model.reset enc dec ores ires cfg).
  Notation out_of_res := (Model.out_of_res enc dec ores ires).
  Notation step := (Model.step enc enc_reset enc_call enc_done dec dec_init dec_feed ores ores_reset ores_resolve ires ires_reset ires_resolve v_out v_in cfg).
  Notation run := (Model.run enc enc_reset enc_call enc_done dec dec_init dec_feed ores ores_reset ores_resolve ires ires_reset ires_resolve v_out v_in cfg).
  Notation SeatStop := (Model.SeatStop enc dec ores ires).
  Notation SeatContinue := (Model.SeatContinue enc dec ores ires).
  Notation SeatEncode := (Model.SeatEncode enc dec ores ires).
  Notation mkState := (Model.mkState enc dec ores ires).

  Ltac slia := try clear v_in; try clear v_out; try clear ires_resolve; try clear ires_reset; try clear ores_resolve;
    try clear ores_reset; try clear dec_feed; try clear dec_init; try clear enc_done; try clear enc_call; try clear enc_reset; lia.
  Ltac dm := match goal with
    | |- context [match ?x with _ => _ end] => destruct x eqn:?
    end.

  Ltac dmh H := match type of H with
    | context [match ?x with _ => _ end] => destruct x eqn:?
    end.
  Notation FR := (TimersRunDefs.FR enc dec ores ires).
  Notation NW := (TimersRunDefs.NW enc dec ores ires).
  Notation KR := (TimersRunDefs.KR enc dec ores ires).
  Notation ORi := (TimersRunDefs.OR enc dec ores ires isame TimersRunDefs.fresh_i).
  Notation ORt := (TimersRunDefs.OR enc dec ores ires tsame fresh_op).
  Notation fv := (TimersRunDefs.fv enc dec ores ires).
  Notation FR_refl := (TimersRunDefs.FR_refl enc dec ores ires).
  Notation FR_trans := (TimersRunDefs.FR_trans enc dec ores ires).
  Notation NW_refl := (TimersRunDefs.NW_refl enc dec ores ires).
  Notation NW_trans := (TimersRunDefs.NW_trans enc dec ores ires).
  Notation KR_refl := (TimersRunDefs.KR_refl enc dec ores ires).
  Notation KR_trans := (TimersRunDefs.KR_trans enc dec ores ires).
  Notation FR_view := (TimersRunDefs.FR_view enc dec ores ires).
  Notation KR_view := (TimersRunDefs.KR_view enc dec ores ires).
  Notation NW_view := (TimersRunDefs.NW_view enc dec ores ires).
  Notation FR_sub := (TimersRunDefs.FR_sub enc dec ores ires).
  Notation FR_from := (TimersRunDefs.FR_from enc dec ores ires).
  Notation FR_ops := (TimersRunDefs.FR_ops enc dec ores ires).
  Notation FR_update := (TimersRunDefs.FR_update enc dec ores ires).
  Notation FR_fold := (TimersRunDefs.FR_fold enc dec ores ires).
  Notation ORt_ORi := (TimersRunDefs.ORt_ORi enc dec ores ires).
  Notation ORi_refl := (TimersRunDefs.ORi_refl enc dec ores ires).
  Notation ORi_trans := (TimersRunDefs.ORi_trans enc dec ores ires).
  Notation create_FR := (TimersRunDefs.create_FR enc dec ores ires).
  Notation halt_on_error_FR := (TimersRunDefs.halt_on_error_FR enc dec ores ires).
  Notation unbind_FR := (TimersRunDefs.unbind_FR enc dec ores ires).
  Notation fold_unbind_FR := (TimersRunDefs.fold_unbind_FR enc dec ores ires).
  Notation andthen_R := (TimersRunDefs.andthen_R enc dec ores ires).
  Notation try_R := (TimersRunDefs.try_R enc dec ores ires).
  Notation fail_all_R := (TimersRunDefs.fail_all_R enc dec ores ires cfg).
  Notation fail_op_FR := (TimersRunDefs.fail_op_FR enc dec ores ires cfg).
  Notation succeed_op_FR := (TimersRunDefs.succeed_op_FR enc dec ores ires cfg).
  Notation fail_all_FR := (TimersRunDefs.fail_all_FR enc dec ores ires cfg).
  Notation succeed_all_FR := (TimersRunDefs.succeed_all_FR enc dec ores ires cfg).
  Notation user_event_FR := (TimersRunDefs.user_event_FR enc dec ores ires cfg).
  Notation net_opened_NW := (TimersRunDefs.net_opened_NW enc dec dec_init ores ires cfg).
  Notation net_write_completion_FR := (TimersRunDefs.net_write_completion_FR enc dec ores ires cfg).
  Notation service_keep_alive_NW := (TimersRunDefs.service_keep_alive_NW enc dec ores ires cfg).
  Notation seat_current_FR := (TimersRunDefs.seat_current_FR enc enc_reset dec ores ores_reset ores_resolve ires v_out cfg).
  Ltac splits := repeat match goal with |- _ /\ _ => split end.
  Ltac frv := apply FR_view; reflexivity.
  Notation service_queue_inv := (TimersRunSvc.service_queue_inv enc enc_reset enc_call enc_done dec ores ores_reset ores_resolve ires v_out cfg).
  Notation service_TM := (TimersRunSvc.service_TM enc enc_reset enc_call enc_done dec ores ores_reset ores_resolve ires v_out cfg).
  Notation service_ORi := (TimersRunSvc.service_ORi enc enc_reset enc_call enc_done dec ores ores_reset ores_resolve ires v_out cfg).
  Notation TM_FR := (TimersRunSvc.TM_FR enc dec ores ires).
  Notation TM_NW := (TimersRunSvc.TM_NW enc dec ores ires).
  Notation TM_weaken := (TimersRunSvc.TM_weaken enc dec ores ires).
  Notation TM_written := (TimersRunSvc.TM_written enc dec ores ires).
  Notation TM_timeouts := (TimersRunSvc.TM_timeouts enc dec ores ires cfg).
  Notation fully_written_shape := (TimersRunSvc.fully_written_shape enc dec ores ires).
  Notation fully_written_KR := (TimersRunSvc.fully_written_KR enc dec ores ires).
  Notation fully_written_ORi := (TimersRunSvc.fully_written_ORi enc dec ores ires).
  Notation process_ack_timeouts_KR := (TimersRunSvc.process_ack_timeouts_KR enc dec ores ires cfg).
  Notation process_ack_timeouts_ORi := (TimersRunSvc.process_ack_timeouts_ORi enc dec ores ires cfg).
  Notation net_data_inv := (TimersRunData.net_data_inv enc dec dec_feed ores ores_reset ires ires_reset ires_resolve v_in cfg).
  Notation net_data_TM := (TimersRunData.net_data_TM enc dec dec_feed ores ores_reset ires ires_reset ires_resolve v_in cfg).
  Notation net_data_ORi := (TimersRunData.net_data_ORi enc dec dec_feed ores ores_reset ires ires_reset ires_resolve v_in cfg).
  Notation net_data_KI := (TimersRunData.net_data_KI enc dec dec_feed ores ores_reset ires ires_reset ires_resolve v_in cfg).
  Notation handle_connack_NW := (TimersRunData.handle_connack_NW enc dec ores ores_reset ires ires_reset v_in cfg).
  Notation KI_connack := (TimersRunData.KI_connack enc dec ores ores_reset ires ires_reset v_in cfg).
  Notation KI_FR := (TimersRunData.KI_FR enc dec ores ires cfg).
  Notation KI_KR := (TimersRunData.KI_KR enc dec ores ires cfg).
  Notation KI_keep_alive := (TimersRunData.KI_keep_alive enc dec ores ires cfg).
  Notation apply_session_FR := (TimersRunData.apply_session_FR enc dec ores ires cfg).
  Notation ka_final := (TimersRunData.ka_final cfg).
  Notation close_intr := (TimersRunClose.close_intr enc dec ores ires cfg).
  Notation close_nid := (TimersRunClose.close_nid enc dec ores ires cfg).
  Notation close_phases := (TimersRunClose.close_phases enc dec ores ires cfg).
  Notation net_closed_ka := (TimersRunClose.net_closed_ka enc dec ores ires cfg).
  Notation net_closed_rs := (TimersRunClose.net_closed_rs enc dec ores ires cfg).
  Notation net_closed_done := (TimersRunClose.net_closed_done enc dec ores ires cfg).
  Notation PC2 := (TimersRunClose.PC2 enc dec ores ires).
  Notation R0 := (TimersRunClose.R0 enc dec ores ires).
  Notation R0_old := (TimersRunClose.R0_old enc dec ores ires).
  Notation WFS_PC2 := (TimersRunClose.WFS_PC2 enc dec ores ires).
  Notation fail_all_keeps := (TimersRunClose.fail_all_keeps enc dec ores ires cfg).
  Notation fail_all_R0 := (TimersRunClose.fail_all_R0 enc dec ores ires cfg).
  Notation fail_exceeding_R0 := (TimersRunClose.fail_exceeding_R0 enc dec ores ires cfg).
  Notation phaseA_R0 := (TimersRunClose.phaseA_R0 enc dec ores ires cfg).
  Notation phaseB_R0 := (TimersRunClose.phaseB_R0 enc dec ores ires cfg).
  Notation phaseC_R0 := (TimersRunClose.phaseC_R0 enc dec ores ires cfg).
  Notation pending_nodup := (TimersRunClose.pending_nodup enc dec ores ires).
  Variable HC : comps_ok enc enc_reset enc_call dec dec_init dec_feed ores ores_reset ores_resolve ires ires_reset ires_resolve v_out v_in.
  Hypothesis Hcfg : ok_cfg cfg.
  Notation WFX := (WFStep.WFX enc enc_reset enc_call dec dec_init dec_feed ores ores_reset ores_resolve ires ires_reset ires_resolve v_out v_in cfg HC).
  Notation step_spec := (WFStep.step_spec enc enc_reset enc_call enc_done dec dec_init dec_feed ores ores_reset ores_resolve ires ires_reset ires_resolve v_out v_in cfg HC Hcfg).
  Notation WF_init := (WFStep.WF_init enc enc_reset enc_call dec dec_init dec_feed ores ores_reset ores_resolve ires ires_reset ires_resolve v_out v_in cfg HC).
  Notation WFS := (@WFDefs.WFS enc dec ores ires).
  Notation TM := (TimersRunSvc.TM enc dec ores ires).
  Notation KI := (TimersRunData.KI enc dec ores ires cfg).
  Notation pending_ids := (SvcTimeout.pending_ids enc dec ores ires).
  Notation caught_inc := (TimersRunClose.caught_inc enc dec ores ires cfg).
  Notation andthen_inv := (DeliveryBase.andthen_inv enc dec ores ires).
  Notation fail_all_exact := (SvcTimeout.fail_all_exact enc dec ores ires cfg).
  Notation fail_all_sound := (SvcTimeout.fail_all_sound enc dec ores ires cfg).
  Notation fail_all_sub := (SvcTimeout.fail_all_sub enc dec ores ires cfg).
  Notation intr_step := (TimersRun.intr_step enc enc_reset enc_call enc_done dec dec_init dec_feed ores ores_reset ores_resolve ires ires_reset ires_resolve v_out v_in cfg HC Hcfg).
  Notation caught := (TimersRun.caught enc dec ores ires cfg).
  Notation EMax := EMaxInterruptedRetriesExceeded.

  Lemma gone_R0 a b i : R0 a b -> lookup i (s_ops a) = None -> lookup i (s_ops b) = None.
  Proof.
    intros H Ha. destruct (lookup i (s_ops b)) as [o'|] eqn:E; [|reflexivity].
    destruct (R0_old _ _ H _ _ E) as (o & Ho & _). congruence.
  Qed.

  Lemma pending_in (s : state) i : In i (pending_ids s) <-> exists p, In (p, i) (s_ppub s) \/ In (p, i) (s_pnon s).
  Proof.
    unfold SvcTimeout.pending_ids. rewrite in_app_iff. split.
    - intros [H|H]; apply In_snd_inv in H; destruct H as (p & H); exists p; tauto.
    - intros (p & [H|H]); [right|left]; eapply In_snd; exact H.
  Qed.

  (* ---- an operation of the pending tables whose count is over the limit does not survive phase A ---- *)
  Section Over.
    Variable i limit : N.
    Hypothesis Hlim : cf_retry cfg = Some limit.

    Definition OV (s : state) : Prop :=
      PC2 s /\ In i (pending_ids s) /\ exists o, lookup i (s_ops s) = Some o /\ limit < op_intr o.

    Lemma OV_view s s' : (s_ops s', s_ppub s', s_pnon s') = (s_ops s, s_ppub s, s_pnon s) -> OV s -> OV s'.
    Proof.
      intros H (A & B & C). pose proof (TimersRunClose.PC2_view enc dec ores ires s s' H A) as A'.
      repeat (apply pair_equal_spec in H; destruct H as [H ?]). split; [exact A'|]. split.
      - apply pending_in. apply pending_in in B. rewrite H0, H1. exact B.
      - rewrite H. exact C.
    Qed.

    Lemma OV_fail_all s ids e : OV s ->
      lookup i (s_ops (r_s (fail_all s ids e))) = None \/ OV (r_s (fail_all s ids e)).
    Proof.
      intros (A & B & o & Ho & Hlt). destruct (fail_all_keeps ids s e A) as [A' K].
      destruct (lookup i (s_ops (r_s (fail_all s ids e)))) as [o'|] eqn:E; [right|left; reflexivity].
      split; [exact A'|]. split.
      - apply pending_in. apply pending_in in B. destruct B as (p & B). exists p.
        assert (Hex : lookup i (s_ops (r_s (fail_all s ids e))) <> None) by congruence.
        destruct (K p i Hex) as [K1 K2]. tauto.
      - exists o'. split; [exact E|]. apply fail_all_sub in E. congruence.
    Qed.

    Lemma OV_fail_exceeding s : OV s -> is_panic (r_out (fail_exceeding s)) = false ->
      lookup i (s_ops (r_s (fail_exceeding s))) = None.
    Proof.
      intros (A & B & o & Ho & Hlt). unfold Model.fail_exceeding. rewrite Hlim.
      destruct (negb (forallb (op_exists s) (map snd (s_pnon s)))); [cbn; discriminate|].
      intros Hp. destruct (andthen_inv _ _ Hp) as (P1 & P2 & -> & _).
      match type of P1 with context [fail_all s ?l ?e] => set (ids1 := l) in *; set (s1 := r_s (fail_all s ids1 e)) in * end.
      destruct (fail_all_exact ids1 s EMax P1) as [X1 _]. fold s1 in X1.
      destruct (fail_all_keeps ids1 s EMax A) as [A1 K1]. fold s1 in A1, K1.
      destruct (negb (forallb (op_exists s1) (map snd (s_ppub s1)))); [cbn in P2; discriminate|].
      destruct (lookup i (s_ops s1)) as [o1|] eqn:E1.
      2:{ destruct (lookup i (s_ops (r_s (fail_all s1 _ EMax)))) as [o2|] eqn:E2; [|reflexivity]. apply fail_all_sub in E2. congruence. }
      assert (Ho1 : o1 = o).
      { rewrite X1 in E1. destruct (mem i ids1); [discriminate|congruence]. }
      subst o1.
      assert (Hni : ~ In i ids1) by (intros Hin; apply mem_In in Hin; rewrite X1, Hin in E1; discriminate).
      assert (Hpp : exists p, In (p, i) (s_ppub s1)).
      { apply pending_in in B. destruct B as (p & [B|B]).
        - exists p. apply (K1 p i); [congruence|exact B].
        - exfalso. apply Hni. unfold ids1. apply filter_In. split; [eapply In_snd; exact B|]. rewrite Ho. slia. }
      destruct Hpp as (p & Hpp).
      match type of P2 with context [fail_all s1 ?l ?e] => set (ids2 := l) in * end.
      destruct (fail_all_exact ids2 s1 EMax P2) as [X2 _]. rewrite X2.
      assert (Hin2 : In i ids2). { unfold ids2. apply filter_In. split; [eapply In_snd; exact Hpp|]. rewrite E1. slia. }
      apply mem_In in Hin2. rewrite Hin2. reflexivity.
    Qed.

    Lemma OV_phaseA s3 : OV s3 -> is_panic (r_out (phaseA cfg s3)) = false -> lookup i (s_ops (r_s (phaseA cfg s3))) = None.
    Proof.
      intros H3 Hp. unfold phaseA in *. cbv zeta in *.
      destruct (andthen_inv _ _ Hp) as (P1 & P2 & -> & _).
      match type of P1 with context [fail_all ?s4 ?l ?e] => assert (H4 : OV s4) by (eapply OV_view; [|exact H3]; reflexivity);
        destruct (OV_fail_all s4 l e H4) as [G|H5]; set (s5 := r_s (fail_all s4 l e)) in * end.
      { eapply gone_R0; [apply phaseB_R0|exact G]. }
      clear Hp H3 H4 P1. unfold phaseB in *. cbv zeta in *. destruct (partition_policy s5 (s_pwco s5)) as [kept rejected].
      destruct (andthen_inv _ _ P2) as (Q1 & Q2 & -> & _).
      match type of Q1 with context [fail_all ?s6 ?l ?e] => assert (H6 : OV s6) by (eapply OV_view; [|exact H5]; reflexivity);
        destruct (OV_fail_all s6 l e H6) as [G|H7]; set (s7 := r_s (fail_all s6 l e)) in * end.
      { eapply gone_R0; [|exact G]. apply (andthen_R R0 (TimersRunClose.R0_trans enc dec ores ires)); [apply fail_exceeding_R0|intros s8; apply phaseC_R0]. }
      destruct (andthen_inv _ _ Q2) as (T1 & T2 & -> & _).
      eapply gone_R0; [apply phaseC_R0|]. apply OV_fail_exceeding; assumption.
    Qed.
  End Over.

  (* ---- where a MaxInterruptedRetriesExceeded completion of phase A comes from ---- *)
  Lemma phaseC_done (s8 : state) i : is_panic (r_out (phaseC cfg s8)) = false -> ~ In (i, CompErr EMax) (r_done (phaseC cfg s8)).
  Proof.
    unfold phaseC. cbv zeta.
    match goal with |- context [partition_policy ?sx ?q] => destruct (partition_policy sx q) as [kept rejected] end.
    intros Hp Hin. destruct (andthen_inv _ _ Hp) as (_ & _ & _ & Hd). rewrite Hd in Hin. apply in_app_or in Hin.
    destruct Hin as [Hin|Hin]; [|destruct Hin]. apply fail_all_sound in Hin. destruct Hin as [Hc _]. discriminate.
  Qed.

  Lemma phaseA_maxintr (s3 : state) i : is_panic (r_out (phaseA cfg s3)) = false -> In (i, CompErr EMax) (r_done (phaseA cfg s3)) ->
    exists s7, R0 s3 s7 /\ In (i, CompErr EMax) (r_done (fail_exceeding s7)).
  Proof.
    unfold phaseA. cbv zeta. intros Hp Hin. destruct (andthen_inv _ _ Hp) as (P1 & P2 & _ & Hd). rewrite Hd in Hin. clear Hd.
    apply in_app_or in Hin. destruct Hin as [Hin|Hin]; [apply fail_all_sound in Hin; destruct Hin as [Hc _]; discriminate|].
    match type of P1 with context [fail_all ?s4 ?l ?e] => assert (H5 : R0 s3 (r_s (fail_all s4 l e)));
      [eapply (TimersRunClose.R0_trans enc dec ores ires); [|apply fail_all_R0]; apply (TimersRunClose.R0_view enc dec ores ires); reflexivity|];
      set (s5 := r_s (fail_all s4 l e)) in * end.
    clear P1 Hp. unfold phaseB in *. cbv zeta in *. destruct (partition_policy s5 (s_pwco s5)) as [kept rejected].
    destruct (andthen_inv _ _ P2) as (Q1 & Q2 & _ & Hd). rewrite Hd in Hin. clear Hd.
    apply in_app_or in Hin. destruct Hin as [Hin|Hin]; [apply fail_all_sound in Hin; destruct Hin as [Hc _]; discriminate|].
    match type of Q1 with context [fail_all ?s6 ?l ?e] => assert (H7 : R0 s5 (r_s (fail_all s6 l e)));
      [eapply (TimersRunClose.R0_trans enc dec ores ires); [|apply fail_all_R0]; apply (TimersRunClose.R0_view enc dec ores ires); reflexivity|];
      set (s7 := r_s (fail_all s6 l e)) in * end.
    destruct (andthen_inv _ _ Q2) as (T1 & T2 & _ & Hd). rewrite Hd in Hin. clear Hd.
    apply in_app_or in Hin. destruct Hin as [Hin|Hin]; [|exfalso; eapply phaseC_done; eassumption].
    exists s7. split; [eapply (TimersRunClose.R0_trans enc dec ores ires); eassumption|exact Hin].
  Qed.

  Lemma update_retries_tables s s' : update_retries s = Ok s' -> s_ppub s' = s_ppub s /\ s_pnon s' = s_pnon s.
  Proof.
    intros H. pose proof (TimersRunClose.update_retries_view enc dec ores ires cfg _ _ H) as V.
    apply pair_equal_spec in V. destruct V as [V _]. apply pair_equal_spec in V. destruct V as [V _].
    apply pair_equal_spec in V. destruct V as [V _]. apply pair_equal_spec in V. destruct V as [V _].
    apply pair_equal_spec in V. destruct V as [V Vn]. apply pair_equal_spec in V. destruct V as [V Vp]. split; assumption.
  Qed.

  (* ---- the limit invariant ---- *)
  Definition LIM (s : state) : Prop :=
    forall limit, cf_retry cfg = Some limit -> forall i o, lookup i (s_ops s) = Some o -> op_intr o <= limit.

  Lemma close_out_nopanic s : WFS s -> s_st s <> Disconnected -> is_panic (r_out (net_closed_raw s)) = false.
  Proof.
    intros HW Hst. destruct (net_closed_spec cfg s HW Hst) as (Eo & _). unfold Model.net_closed in Eo.
    apply pstate_eqb_neq in Hst. rewrite Hst in Eo. destruct (r_out (net_closed_raw s)) as [u|k|site] eqn:Er; try reflexivity.
    cbn in Eo. rewrite Er in Eo. discriminate.
  Qed.

  Theorem close_limit s : WFS s -> s_st s <> Disconnected -> LIM s -> LIM (r_s (net_closed s)).
  Proof.
    intros HW Hst HL limit Hlim i o' Hl.
    destruct (close_intr s HW Hst i o' Hl) as (o & Ho & _ & _ & _ & Hi). pose proof (HL limit Hlim i o Ho) as Hle.
    destruct (N.le_gt_cases (op_intr o') limit) as [G|G]; [exact G|exfalso].
    destruct (close_phases s HW Hst) as (s2 & s3 & E3 & W2 & W3 & D & Ers & Hold & Hpend & _ & Eout & _).
    pose proof (close_out_nopanic s HW Hst) as Hnp. rewrite Eout in Hnp. rewrite Ers in Hl.
    destruct (R0_old _ _ (phaseA_R0 s3) _ _ Hl) as (o3 & H3 & _ & _ & _ & T34).
    assert (HOV : OV i limit s3).
    { split; [apply WFS_PC2; exact W3|]. destruct (update_retries_tables _ _ E3) as [Vp Vn].
      pose proof (update_retries_exact enc dec ores ires cfg s2 s3 E3 (pending_nodup s2 W2)) as X. rewrite Hlim in X. destruct X as [_ X].
      assert (Hex2 : lookup i (s_ops s2) <> None).
      { rewrite X in H3. destruct (lookup i (s_ops s2)); [discriminate|destruct (mem _ _); discriminate]. }
      split.
      - apply pending_in. rewrite Vp, Vn. apply pending_in. apply mem_In. rewrite (Hpend i Hex2).
        unfold TimersRunClose.caught_inc in Hi. rewrite Hlim in Hi. destruct (mem i (pending_ids s)); [reflexivity|slia].
      - exists o3. split; [exact H3|slia]. }
    rewrite (OV_phaseA i limit Hlim s3 HOV Hnp) in Hl. discriminate.
  Qed.

  Theorem LIM_step s e : WFX s -> ok_event e -> LIM s -> LIM (fst (step s e)).
  Proof.
    intros HX Hev HL. destruct (intr_step s e HX Hev) as [_ Hs]. destruct HX as [[HW HP] HI].
    destruct e as [now p t|now dl|now|now data|now|now cap fill|now|now];
      try (intros limit Hlim i o' Hl; destruct (Hs _ _ Hl) as [(o & Ho & E)|[_ E]];
           [cbn [TimersRun.caught] in E; specialize (HL limit Hlim i o Ho); slia|slia]).
    cbn [Model.step]. unfold Model.out_of_res. cbn [fst]. destruct (pstate_eqb (s_st s) Disconnected) eqn:Est.
    - apply pstate_eqb_eq in Est. rewrite (net_closed_disconnected cfg s Est). cbn. exact HL.
    - apply pstate_eqb_neq in Est. destruct (net_closed_spec cfg s HW Est) as (Eo & _).
      rewrite Eo. cbn [Model.halt_on_error]. apply close_limit; assumption.
  Qed.

  Theorem LIM_run : forall h s, WFX s -> Forall ok_event h -> LIM s -> LIM (fst (run s h)).
  Proof.
    induction h as [|e r IH]; intros s HX Hall HL; cbn [Model.run]; [exact HL|].
    inversion Hall as [|? ? He Hr]; subst. destruct (step_spec s e HX He) as [_ HX1]. pose proof (LIM_step s e HX He HL) as HL1.
    destruct (step s e) as [s1 o1]. cbn [fst] in *. specialize (IH s1 HX1 Hr HL1). destruct (run s1 r) as [s2 os]. exact IH.
  Qed.

  (* ---- the close that reports MaxInterruptedRetriesExceeded ---- *)
  Theorem close_maxintr_sound s now i : WFX s -> LIM s ->
    In (i, CompErr EMax) (o_done (snd (step s (EvClose now)))) ->
    s_st s <> Disconnected /\ exists limit o, cf_retry cfg = Some limit /\ lookup i (s_ops s) = Some o /\ op_user o = true /\
      In i (pending_ids s) /\ op_intr o = limit.
  Proof.
    intros [[HW HP] HI] HL. cbn [Model.step]. unfold Model.out_of_res. cbn [snd o_done].
    destruct (pstate_eqb (s_st s) Disconnected) eqn:Est.
    { apply pstate_eqb_eq in Est. rewrite (net_closed_disconnected cfg s Est). cbn. intros []. }
    apply pstate_eqb_neq in Est. intros Hin. split; [exact Est|]. rewrite net_closed_done in Hin.
    destruct (close_phases s HW Est) as (s2 & s3 & E3 & W2 & W3 & D & Ers & Hold & Hpend & _ & Eout & d0 & Ed & Hd0).
    pose proof (close_out_nopanic s HW Est) as Hnp. rewrite Eout in Hnp. rewrite Ed in Hin. apply in_app_or in Hin.
    destruct Hin as [Hin|Hin]; [exfalso; apply (Hd0 _ _ Hin); reflexivity|].
    destruct (phaseA_maxintr s3 i Hnp Hin) as (s7 & R37 & Hin7).
    destruct (fail_exceeding_sound enc dec ores ires cfg s7 i _ Hin7) as (limit & Hlim & _ & Hp7 & o7 & Ho7 & Hu7 & Hlt7).
    destruct (R0_old _ _ R37 _ _ Ho7) as (o3 & H3 & T31 & _ & _ & T34).
    destruct (update_retries_tables _ _ E3) as [Vp Vn].
    pose proof (update_retries_exact enc dec ores ires cfg s2 s3 E3 (pending_nodup s2 W2)) as X. rewrite Hlim in X. destruct X as [_ X].
    assert (Hex2 : lookup i (s_ops s2) <> None).
    { rewrite X in H3. destruct (lookup i (s_ops s2)); [discriminate|destruct (mem _ _); discriminate]. }
    assert (Hp2 : mem i (pending_ids s2) = true).
    { apply mem_In. apply pending_in. rewrite <- Vp, <- Vn. apply pending_in in Hp7. destruct Hp7 as (p & Hp7). exists p.
      destruct R37 as [[[_ _ N1 N2] _] _]. destruct Hp7 as [Hp7|Hp7]; [left; apply N1|right; apply N2]; exact Hp7. }
    pose proof (Hpend i Hex2) as Hpi.
    rewrite X, Hp2 in H3. destruct (lookup i (s_ops s2)) as [o2|] eqn:E2; [|discriminate]. cbn in H3. inversion H3; subst o3.
    destruct (Hold _ _ E2) as (o & Ho & T1 & _ & _ & T4). exists limit, o. split; [exact Hlim|]. split; [exact Ho|]. cbn in T31. split; [congruence|].
    split; [apply mem_In; rewrite <- Hpi; exact Hp2|].
    pose proof (HL limit Hlim i o Ho). cbn in T34. slia.
  Qed.

  (* ... and the close that catches an operation whose count is the limit removes it *)
  Theorem close_maxintr_complete s now i o limit : WFX s -> ok_event (EvClose now) -> LIM s ->
    s_st s <> Disconnected -> cf_retry cfg = Some limit -> lookup i (s_ops s) = Some o -> In i (pending_ids s) -> op_intr o = limit ->
    lookup i (s_ops (fst (step s (EvClose now)))) = None.
  Proof.
    intros HX Hev HL Hst Hlim Ho Hp Hi. pose proof (LIM_step s (EvClose now) HX Hev HL) as HL1.
    destruct (intr_step s (EvClose now) HX Hev) as [_ Hs].
    destruct (lookup i (s_ops (fst (step s (EvClose now))))) as [o'|] eqn:E; [exfalso|reflexivity].
    pose proof (HL1 limit Hlim i o' E) as Hle. destruct (Hs _ _ E) as [(o1 & Ho1 & E1)|[Hn _]].
    - assert (o1 = o) by congruence. subst o1. cbn [TimersRun.caught] in E1. apply pstate_eqb_neq in Hst. rewrite Hst in E1.
      unfold TimersRunClose.caught_inc in E1. rewrite Hlim in E1. apply mem_In in Hp. rewrite Hp in E1. slia.
    - destruct HX as [[HW _] _]. pose proof (TimersRun.WFS_lt enc dec ores ires s HW i o Ho). slia.
  Qed.

  (* ---- every reachable state ---- *)
  Section Reach.
    Variable o0 : ores.
    Variable i0 : ires.
    Variable h : list event.
    Hypothesis Ho0 : ores_inv HC o0.
    Hypothesis Hi0 : ires_inv HC i0.
    Hypothesis Hall : Forall ok_event h.
    Notation sR := (fst (run (init o0 i0) h)).
    Notation WF_run := (WFStep.WF_run enc enc_reset enc_call enc_done dec dec_init dec_feed ores ores_reset ores_resolve ires ires_reset ires_resolve v_out v_in cfg HC Hcfg).

    Lemma LIM_init : LIM (init o0 i0).
    Proof. intros limit _ i o Hl. discriminate. Qed.

    Lemma reach_WFX : WFX sR.
    Proof. exact (WF_run h _ (WF_init o0 i0 Ho0 Hi0) Hall). Qed.

    (* no operation of a reachable state is over the limit *)
    Theorem run_limit : forall limit, cf_retry cfg = Some limit ->
      forall i o, lookup i (s_ops sR) = Some o -> op_intr o <= limit.
    Proof. exact (LIM_run h (init o0 i0) (WF_init o0 i0 Ho0 Hi0) Hall LIM_init). Qed.

    (* MaxInterruptedRetriesExceeded is reported only for a user operation caught by this close for the (limit+1)-th time *)
    Theorem run_maxintr_sound now i : In (i, CompErr EMax) (o_done (snd (step sR (EvClose now)))) ->
      s_st sR <> Disconnected /\ exists limit o, cf_retry cfg = Some limit /\ lookup i (s_ops sR) = Some o /\ op_user o = true /\
        In i (pending_ids sR) /\ op_intr o = limit.
    Proof. exact (close_maxintr_sound sR now i reach_WFX (LIM_run h (init o0 i0) (WF_init o0 i0 Ho0 Hi0) Hall LIM_init)). Qed.

    (* ... and the (limit+1)-th interruption removes the operation *)
    Theorem run_maxintr_complete now i o limit :
      s_st sR <> Disconnected -> cf_retry cfg = Some limit -> lookup i (s_ops sR) = Some o -> In i (pending_ids sR) -> op_intr o = limit ->
      lookup i (s_ops (fst (step sR (EvClose now)))) = None.
    Proof. exact (close_maxintr_complete sR now i o limit reach_WFX I (LIM_run h (init o0 i0) (WF_init o0 i0 Ho0 Hi0) Hall LIM_init)). Qed.
  End Reach.
End Retry.
