(* Lemmas about the key-sorted association lists and sorted sets of Engine/Model.v
   (lookup / insert / remove / update / mem / set_insert / set_remove / sort). *)
From GM Require Import Base.Prelude Engine.Model.
From Coq Require Import Sorting.Sorted Sorting.Permutation.
Open Scope N_scope.

Section Assoc.
  Context {A : Type}.
  Implicit Types (l : list (N * A)) (k : N) (v : A).

  Definition keys l : list N := map fst l.
  Definition inc (ks : list N) : Prop := StronglySorted N.lt ks.

  Lemma lookup_in_keys k l v : lookup k l = Some v -> In k (keys l).
  Proof.
    induction l as [|[k' v'] r IH]; cbn [lookup keys map fst]; [discriminate|].
    destruct (k' =? k) eqn:E; intros H.
    - left. lia.
    - right. apply IH. exact H.
  Qed.

  Lemma lookup_none_not_in k l : lookup k l = None <-> ~ In k (keys l).
  Proof.
    induction l as [|[k' v'] r IH]; cbn [lookup keys map fst In]; [tauto|].
    destruct (k' =? k) eqn:E.
    - split; [discriminate|]. intros H. exfalso. apply H. left. lia.
    - rewrite IH. split; [intros H [Hk|Hin]; [lia|contradiction] | intros H Hin; apply H; right; exact Hin].
  Qed.

  Lemma in_keys_lookup k l : In k (keys l) -> exists v, lookup k l = Some v.
  Proof.
    intros H. destruct (lookup k l) as [v|] eqn:E; [eauto|]. apply lookup_none_not_in in E. contradiction.
  Qed.

  Lemma keys_update k (f : A -> A) l : keys (update k f l) = keys l.
  Proof.
    induction l as [|[k' v'] r IH]; cbn [update keys map fst]; [reflexivity|].
    destruct (k' =? k); cbn [map fst]; [reflexivity|]. f_equal. exact IH.
  Qed.

  Lemma lookup_update_eq k f l v : lookup k l = Some v -> lookup k (update k f l) = Some (f v).
  Proof.
    induction l as [|[k' v'] r IH]; cbn [lookup update]; [discriminate|].
    destruct (k' =? k) eqn:E; cbn [lookup]; rewrite E; [intros H; inversion H; reflexivity | exact IH].
  Qed.

  Lemma lookup_update_none k f l : lookup k l = None -> lookup k (update k f l) = None.
  Proof.
    induction l as [|[k' v'] r IH]; cbn [lookup update]; [reflexivity|].
    destruct (k' =? k) eqn:E; cbn [lookup]; rewrite E; [discriminate | exact IH].
  Qed.

  Lemma lookup_update_neq k k2 f l : k2 <> k -> lookup k2 (update k f l) = lookup k2 l.
  Proof.
    intros Hne. induction l as [|[k' v'] r IH]; cbn [lookup update]; [reflexivity|].
    destruct (k' =? k) eqn:E; cbn [lookup].
    - destruct (k' =? k2) eqn:E2; [lia|reflexivity].
    - destruct (k' =? k2); [reflexivity|exact IH].
  Qed.

  Lemma keys_remove k l x : In x (keys (remove k l)) <-> In x (keys l) /\ x <> k.
  Proof.
    induction l as [|[k' v'] r IH]; cbn [remove keys map fst In]; [tauto|].
    destruct (k' =? k) eqn:E; cbn [map fst In].
    - rewrite IH. split; [tauto|]. intros [[H|H] Hne]; [lia|tauto].
    - rewrite IH. split; [intros [H|H]; [split; [tauto|lia]|tauto] | tauto].
  Qed.

  Lemma lookup_remove_eq k l : lookup k (remove k l) = None.
  Proof. apply lookup_none_not_in. intros H. apply keys_remove in H. tauto. Qed.

  Lemma lookup_remove_neq k k2 l : k2 <> k -> lookup k2 (remove k l) = lookup k2 l.
  Proof.
    intros Hne. induction l as [|[k' v'] r IH]; cbn [remove lookup]; [reflexivity|].
    destruct (k' =? k) eqn:E; cbn [lookup].
    - destruct (k' =? k2) eqn:E2; [lia|exact IH].
    - destruct (k' =? k2); [reflexivity|exact IH].
  Qed.

  Lemma inc_remove k l : inc (keys l) -> inc (keys (remove k l)).
  Proof.
    induction l as [|[k' v'] r IH]; intros H; cbn [remove keys map fst]; [constructor|].
    inversion H as [|? ? Hr Hall]; subst.
    destruct (k' =? k); [apply IH; exact Hr|]. cbn [map fst]. constructor; [apply IH; exact Hr|].
    rewrite Forall_forall in *. intros x Hx. apply keys_remove in Hx. apply Hall. tauto.
  Qed.

  Lemma remove_not_in k l : ~ In k (keys l) -> remove k l = l.
  Proof.
    induction l as [|[k' v'] r IH]; cbn [remove keys map fst In]; [reflexivity|].
    intros H. destruct (k' =? k) eqn:E; [exfalso; apply H; left; lia|]. f_equal. apply IH. tauto.
  Qed.

  Lemma length_remove_le k l : (length (remove k l) <= length l)%nat.
  Proof.
    induction l as [|[k' v'] r IH]; cbn [remove length]; [lia|]. destruct (k' =? k); cbn [length]; lia.
  Qed.

  Lemma keys_insert k v l x : In x (keys (insert k v l)) <-> x = k \/ In x (keys l).
  Proof.
    induction l as [|[k' v'] r IH]; cbn [insert keys map fst In].
    - intuition congruence.
    - destruct (k <? k') eqn:E1; cbn [map fst In]; [intuition congruence|].
      destruct (k' =? k) eqn:E2; cbn [map fst In].
      + assert (k' = k) by lia. subst. intuition congruence.
      + unfold keys in IH. rewrite IH. intuition congruence.
  Qed.

  Lemma inc_insert k v l : inc (keys l) -> inc (keys (insert k v l)).
  Proof.
    induction l as [|[k' v'] r IH]; intros H; cbn [insert keys map fst].
    - repeat constructor.
    - destruct (k <? k') eqn:E1; cbn [map fst].
      + constructor; [exact H|]. constructor; [lia|].
        inversion H as [|? ? _ Hall]; subst. rewrite Forall_forall in *. intros x Hx. specialize (Hall x Hx). lia.
      + destruct (k' =? k) eqn:E2; cbn [map fst].
        * assert (k' = k) by lia. subst. exact H.
        * inversion H as [|? ? Hr Hall]; subst. constructor; [apply IH; exact Hr|].
          rewrite Forall_forall in *. intros x Hx. apply keys_insert in Hx. destruct Hx as [->|Hx]; [lia|auto].
  Qed.

  Lemma lookup_insert_eq k v l : lookup k (insert k v l) = Some v.
  Proof.
    induction l as [|[k' v'] r IH]; cbn [insert lookup].
    - rewrite N.eqb_refl. reflexivity.
    - destruct (k <? k') eqn:E; cbn [lookup]; [rewrite N.eqb_refl; reflexivity|].
      destruct (k' =? k) eqn:E2; cbn [lookup]; [rewrite N.eqb_refl; reflexivity|]. rewrite E2. exact IH.
  Qed.

  Lemma lookup_insert_neq k k2 v l : k2 <> k -> lookup k2 (insert k v l) = lookup k2 l.
  Proof.
    intros Hne. induction l as [|[k' v'] r IH]; cbn [insert lookup].
    - destruct (k =? k2) eqn:E; [lia|reflexivity].
    - destruct (k <? k') eqn:E1; cbn [lookup].
      + destruct (k =? k2) eqn:E; [lia|reflexivity].
      + destruct (k' =? k) eqn:E2; cbn [lookup].
        * destruct (k =? k2) eqn:E3; [lia|]. destruct (k' =? k2) eqn:E4; [lia|reflexivity].
        * destruct (k' =? k2); [reflexivity|exact IH].
  Qed.

  (* inserting grows the list by at most one, and not at all when the key is present *)
  Lemma length_insert_present k v l : In k (keys l) -> inc (keys l) -> length (insert k v l) = length l.
  Proof.
    induction l as [|[k' v'] r IH]; cbn [insert keys map fst In length]; [tauto|].
    intros Hin Hinc. inversion Hinc as [|? ? Hr Hall]; subst.
    destruct (k <? k') eqn:E1.
    - exfalso. destruct Hin as [Hk|Hin]; [lia|]. rewrite Forall_forall in Hall. specialize (Hall k Hin). lia.
    - destruct (k' =? k) eqn:E2; cbn [length]; [reflexivity|].
      f_equal. apply IH; [|exact Hr]. destruct Hin as [Hk|Hin]; [lia|exact Hin].
  Qed.

  Lemma length_insert_le k v l : (length (insert k v l) <= S (length l))%nat.
  Proof.
    induction l as [|[k' v'] r IH]; cbn [insert length]; [lia|].
    destruct (k <? k'); cbn [length]; [lia|]. destruct (k' =? k); cbn [length]; lia.
  Qed.

  Lemma in_insert_values k v l (x : N * A) : In x (insert k v l) -> x = (k, v) \/ In x l.
  Proof.
    induction l as [|[k' v'] r IH]; cbn [insert In]; [intuition congruence|].
    destruct (k <? k'); cbn [In]; [intuition congruence|]. destruct (k' =? k); cbn [In]; [intuition congruence|].
    intros [H|H]; [intuition congruence|]. destruct (IH H); intuition congruence.
  Qed.

  Lemma in_remove_values k l (x : N * A) : In x (remove k l) -> In x l.
  Proof.
    induction l as [|[k' v'] r IH]; cbn [remove In]; [tauto|].
    destruct (k' =? k); cbn [In]; [tauto|]. intros [H|H]; tauto.
  Qed.
End Assoc.

(* appending a key larger than all existing ones keeps the keys increasing *)
Lemma inc_app_last (ks : list N) (k : N) : inc ks -> Forall (fun x => x < k) ks -> inc (ks ++ [k]).
Proof.
  induction ks as [|x r IH]; intros Hinc Hall; cbn [app]; [repeat constructor|].
  inversion Hinc as [|? ? Hr Hx]; subst. inversion Hall as [|? ? Hlt Hall']; subst.
  constructor; [apply IH; assumption|]. rewrite Forall_forall in *. intros y Hy.
  apply in_app_or in Hy. destruct Hy as [Hy|[<-|[]]]; [auto|lia].
Qed.

Lemma inc_NoDup (ks : list N) : inc ks -> NoDup ks.
Proof.
  induction ks as [|x r IH]; intros H; [constructor|].
  inversion H as [|? ? Hr Hall]; subst. constructor; [|apply IH; exact Hr].
  intros Hin. rewrite Forall_forall in Hall. specialize (Hall x Hin). lia.
Qed.

(* mem / set operations *)
Lemma mem_In k l : mem k l = true <-> In k l.
Proof.
  unfold mem. rewrite existsb_exists. split.
  - intros (x & Hin & Heq). assert (k = x) by lia. subst. exact Hin.
  - intros H. exists k. split; [exact H|lia].
Qed.

Lemma set_remove_In k x l : In x (set_remove k l) <-> In x l /\ x <> k.
Proof.
  unfold set_remove. rewrite filter_In. split; intros [H1 H2]; split; try exact H1; lia.
Qed.

Lemma set_insert_In k x l : In x (set_insert k l) <-> x = k \/ In x l.
Proof.
  induction l as [|y r IH]; cbn [set_insert In]; [intuition congruence|].
  destruct (k <? y); cbn [In]; [intuition congruence|].
  destruct (y =? k) eqn:E; cbn [In].
  - assert (y = k) by lia. subst. intuition congruence.
  - rewrite IH. intuition congruence.
Qed.

(* sort: a sorted permutation *)
Lemma sort_ins_perm k l : Permutation (sort_ins k l) (k :: l).
Proof.
  induction l as [|x r IH]; cbn [sort_ins]; [apply Permutation_refl|].
  destruct (k <=? x); [apply Permutation_refl|].
  apply perm_trans with (x :: k :: r); [apply perm_skip; exact IH | apply perm_swap].
Qed.

Lemma sort_perm l : Permutation (Model.sort l) l.
Proof.
  unfold Model.sort. induction l as [|x r IH]; cbn [fold_right]; [apply Permutation_refl|].
  apply perm_trans with (x :: fold_right sort_ins [] r); [apply sort_ins_perm | apply perm_skip; exact IH].
Qed.

Definition sorted_le (l : list N) : Prop := StronglySorted N.le l.

Lemma sort_ins_sorted k l : sorted_le l -> sorted_le (sort_ins k l).
Proof.
  induction l as [|x r IH]; intros H; cbn [sort_ins]; [repeat constructor|].
  inversion H as [|? ? Hr Hall]; subst.
  destruct (k <=? x) eqn:E.
  - constructor; [exact H|]. constructor; [lia|]. rewrite Forall_forall in *. intros y Hy. specialize (Hall y Hy). lia.
  - constructor; [apply IH; exact Hr|]. rewrite Forall_forall in *. intros y Hy.
    apply (Permutation_in _ (sort_ins_perm k r)) in Hy. destruct Hy as [<-|Hy]; [lia|auto].
Qed.

Lemma sort_sorted l : sorted_le (Model.sort l).
Proof.
  unfold Model.sort. induction l as [|x r IH]; cbn [fold_right]; [constructor|]. apply sort_ins_sorted. exact IH.
Qed.
