(* Non-vacuity witnesses of the C17 run-level theorems on the concrete engine (vm_compute): an LRU resolver
   with maximum 2 against a server with Topic Alias Maximum 2 and Maximum QoS 0.  Topic "a" is published
   twice (the second time by alias only), then a QoS 1 publish of topic "b" is rejected by the last-chance
   validation AFTER the resolver bound alias 2 to it (the situation of defect D7): the resolver is reset,
   so the next publish of "a" carries its topic again.  Inbound: the server binds alias 1 to "t", uses
   the alias alone, then uses the unbound alias 2, which fails the connection. *)
From GM Require Import Base.Prelude Base.Outcome Codec.Packets Codec.Settings Alias.Outbound Alias.Inbound Engine.Model Engine.Instance
  EngineProofs.WFDefs EngineProofs.AliasRunFrames EngineProofs.AliasRunLog EngineProofs.AliasRunIn EngineProofs.AliasRunWire
  EngineProofs.AliasRunInstance.
Open Scope N_scope.

Definition a_connect : connect_opts :=
  {| co_keep_alive := Some 0; co_rejoin := 0; co_client_id := Some [97; 97]; co_username := None; co_password := None;
     co_sei := None; co_rri := None; co_rpi := None; co_receive_max := None; co_tam := Some 2; co_max_packet := None;
     co_will_delay := None; co_will := None; co_up := None |}.
Definition a_cfg : config := mkConfig V5 0 false None 10000 a_connect.
Definition a_pub (topic : bytes) (qos : N) : packet :=
  Publish {| pub_pid := 0; pub_topic := topic; pub_qos := qos; pub_dup := false; pub_retain := false;
             pub_payload := None; pub_pfi := None; pub_mei := None; pub_alias := None; pub_response_topic := None;
             pub_correlation := None; pub_subids := None; pub_content_type := None; pub_up := None |}.
(* CONNACK: Maximum QoS 0 (0x24 0x00), Topic Alias Maximum 2 (0x22 0x00 0x02) *)
Definition a_hist : list event :=
  [EvOpen 0 1000; EvService 0 4096 0; EvWriteComplete 0; EvData 0 [32; 8; 0; 0; 5; 36; 0; 34; 0; 2];
   EvUser 1 (a_pub [97] 0) None; EvUser 1 (a_pub [97] 0) None; EvUser 1 (a_pub [98] 1) None; EvUser 1 (a_pub [97] 0) None;
   EvService 1 4096 0; EvWriteComplete 1;
   EvData 2 [48; 8; 0; 1; 116; 3; 35; 0; 1; 120]; EvData 2 [48; 7; 0; 0; 3; 35; 0; 1; 121]; EvData 3 [48; 7; 0; 0; 3; 35; 0; 2; 121]].

Definition a_olog : list oev := i_olog a_cfg (i_init a_cfg (RLru 2)) a_hist.
Definition a_ilog : list iev := i_ilog a_cfg (i_init a_cfg (RLru 2)) a_hist.

(* the outbound log, abridged: resets, resolutions, verdicts, what reaches the encoder *)
Inductive dg :=
| DConnack (m : N) | DReset (m : N) | DResolve (t : bytes) (r : outcome resolution)
| DValid (id : N) (ok : bool) | DEncode (id : N) (pub : bool) (r : resolution) | DRejected (id : N) | DDone (id : N) | DOther.
Definition digest (e : oev) : list dg :=
  match e with
  | OConnack m => [DConnack m]
  | OReset m => [DReset m]
  | OResolve _ _ t r => [DResolve t r]
  | OValid id _ _ v => [DValid id (is_ok v)]
  | OEncode id p r true => [DEncode id (is_publish p) r]
  | ORejected id _ => [DRejected id]
  | ODone id => [DDone id]
  | OPick _ => []
  | _ => [DOther]
  end.

Lemma a_hist_ok : Forall ok_event a_hist.
Proof. unfold a_hist. repeat constructor; cbn; unfold TMAX; lia. Qed.
Lemma a_cfg_ok : ok_cfg a_cfg.
Proof. unfold ok_cfg, TMAX. cbn. lia. Qed.

Example a_outbound_log :
  flat_map digest a_olog =
  [DOther (* open *); DValid 1 true; DEncode 1 false no_resolution; DDone 1 (* CONNECT *); DConnack 2;
   DResolve [97] (Ok {| r_skip_topic := false; r_alias := Some 1 |}); DValid 2 true;
   DEncode 2 true {| r_skip_topic := false; r_alias := Some 1 |}; DDone 2;
   DResolve [97] (Ok {| r_skip_topic := true; r_alias := Some 1 |}); DValid 3 true;
   DEncode 3 true {| r_skip_topic := true; r_alias := Some 1 |}; DDone 3;
   DResolve [98] (Ok {| r_skip_topic := false; r_alias := Some 2 |}); DValid 4 false; DReset 2; DRejected 4;
   DResolve [97] (Ok {| r_skip_topic := false; r_alias := Some 1 |}); DValid 5 true;
   DEncode 5 true {| r_skip_topic := false; r_alias := Some 1 |}; DDone 5].
Proof. vm_compute. reflexivity. Qed.

(* the premises of the instance theorems hold, and the rejected publish left no binding behind: the
   resolver holds exactly what the server was sent after the reset *)
Example a_premises :
  Forall ok_event a_hist /\ ok_cfg a_cfg /\ kind_ok (RLru 2) /\
  s_ores (fst (i_run a_cfg (i_init a_cfg (RLru 2)) a_hist)) = OLru 2 2 [([97], 1)] /\
  fst (wtbl ([], 0) a_olog) = [(1, [97])].
Proof. split; [exact a_hist_ok|]. split; [exact a_cfg_ok|]. split; [cbn; lia|]. vm_compute. split; reflexivity. Qed.

(* the inbound log, abridged *)
Inductive dgi := DIConnack | DIResolve (alias : option N) (topic : bytes) (r : outcome bytes) | DISurface (topic : bytes) (payload : option bytes).
Definition digest_i (e : iev) : dgi :=
  match e with
  | IConnack => DIConnack
  | IResolve pb r => DIResolve (pub_alias pb) (pub_topic pb) r
  | ISurface pb => DISurface (pub_topic pb) (pub_payload pb)
  end.

Example a_inbound_log :
  map digest_i a_ilog =
  [DIConnack; DIResolve (Some 1) [116] (Ok [116]); DISurface [116] (Some [120]);
   DIResolve (Some 1) [] (Ok [116]); DISurface [116] (Some [121]);
   DIResolve (Some 2) [] (Err EInvalidInboundTopicAlias)] /\
  map o_res (snd (i_run a_cfg (i_init a_cfg (RLru 2)) a_hist)) =
  [Ok tt; Ok tt; Ok tt; Ok tt; Ok tt; Ok tt; Ok tt; Ok tt; Ok tt; Ok tt; Ok tt; Ok tt; Err EInvalidInboundTopicAlias] /\
  s_st (fst (i_run a_cfg (i_init a_cfg (RLru 2)) a_hist)) = Halted.
Proof. vm_compute. repeat split; reflexivity. Qed.
