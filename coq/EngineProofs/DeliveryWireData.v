(* C04, run level: the invariant J (DeliveryWireDefs.v) through one incoming-data call.  The delivery log of the call is
   the processed-packet log of InboundLoop.data_log: for every packet handed to the dispatcher the machine reads whether it
   was a CONNACK on which the session rules ran (with the session-present flag) or a PUBREC that set the PUBREL slot of the
   operation; every other handler is a frame (DeliveryWireFrames.handle_packet_quiet).  The intermediate states of the
   packet loop are well-formed (WFData3.handle_packet_spec) and satisfy the placement invariant (PlaceRunData). *)
From GM Require Import Base.Prelude Base.Outcome Codec.Packets Codec.Settings Engine.Model
  EngineProofs.AssocLemmas EngineProofs.WFLemmas EngineProofs.WFDefs EngineProofs.IdsFrame EngineProofs.SvcTimeout
  EngineProofs.InboundSpec EngineProofs.HandshakeRunTrace EngineProofs.AliasRunLog EngineProofs.InboundLoop EngineProofs.WFCore EngineProofs.WFComplete EngineProofs.WFClose2 EngineProofs.WFData EngineProofs.WFData2 EngineProofs.WFData3
  EngineProofs.OrderRunStrict2 EngineProofs.PlaceRun EngineProofs.PlaceRunEvents EngineProofs.PlaceRunData
  EngineProofs.DeliveryBase EngineProofs.DeliveryRun EngineProofs.DeliveryWireDefs EngineProofs.DeliveryWireFrames EngineProofs.DeliveryWireEvents
  EngineProofs.DeliveryWireSession.
From RecordUpdate Require Import RecordSet.
Import RecordSetNotations.
Open Scope N_scope.

(* the four component types are implicit in the engine functions, locally to this file *)
#[local] Arguments init {enc dec} _ {ores ires} _ _.
#[local] Arguments release {enc dec ores ires} _ _ _ _.
#[local] Arguments disconnect_completion {enc dec ores ires} _ _.
#[local] Arguments fail_op {enc dec ores ires} _ _ _ _.
#[local] Arguments ping_extension {enc dec ores ires} _ _.
#[local] Arguments succeed_op {enc dec ores ires} _ _ _ _.
#[local] Arguments fail_all {enc dec ores ires} _ _ _ _.
#[local] Arguments succeed_all {enc dec ores ires} _ _ _.
#[local] Arguments andthen {enc dec ores ires} _ _.
#[local] Arguments try_ {enc dec ores ires} _ _.
#[local] Arguments pure {enc dec ores ires} _.
#[local] Arguments create_operation {enc dec ores ires} _ _.
#[local] Arguments passes_now {enc dec ores ires} _ _ _.
#[local] Arguments user_event {enc dec ores ires} _ _ _ _.
#[local] Arguments create_connect {enc dec ores ires} _ _.
#[local] Arguments net_opened {enc dec} _ {ores ires} _ _ _.
#[local] Arguments op_exists {enc dec ores ires} _ _.
#[local] Arguments op_passes {enc dec ores ires} _ _ _.
#[local] Arguments partition_policy {enc dec ores ires} _ _ _.
#[local] Arguments closed_current {enc dec ores ires} _ _.
#[local] Arguments slow_start_init {enc dec ores ires} _ _.
#[local] Arguments update_retries {enc dec ores ires} _ _.
#[local] Arguments fail_exceeding {enc dec ores ires} _ _.
#[local] Arguments has_pubrel {enc dec ores ires} _ _.
#[local] Arguments net_closed_raw {enc dec ores ires} _ _.
#[local] Arguments net_closed {enc dec ores ires} _ _.
#[local] Arguments net_write_completion {enc dec ores ires} _ _.
#[local] Arguments acquire_free_pid {enc dec ores ires} _ _.
#[local] Arguments acquire_pid_for {enc dec ores ires} _ _.
#[local] Arguments unbind {enc dec ores ires} _ _.
#[local] Arguments passes_receive_max {enc dec ores ires} _ _.
#[local] Arguments throttled {enc dec ores ires} _ _.
#[local] Arguments has_pending_ack {enc dec ores ires} _.
#[local] Arguments dequeue {enc dec ores ires} _ _ _.
#[local] Arguments fully_written {enc dec ores ires} _ _.
#[local] Arguments service_keep_alive {enc dec ores ires} _ _ _.
#[local] Arguments process_ack_timeouts {enc dec ores ires} _ _ _.
#[local] Arguments halt_on_error {enc dec ores ires} _ _.
#[local] Arguments next_service_time {enc dec ores ires} _ _ _.
#[local] Arguments build_settings {enc dec ores ires} _ _ _.
#[local] Arguments apply_session {enc dec ores ires} _ _ _.
#[local] Arguments hres_of {enc dec ores ires} _ _.
#[local] Arguments pre_connack {enc dec ores ires} _.
#[local] Arguments sum_ss {enc dec ores ires} _.
#[local] Arguments handle_pingresp {enc dec ores ires} _.
#[local] Arguments handle_suback {enc dec ores ires} _ _ _.
#[local] Arguments handle_unsuback {enc dec ores ires} _ _ _.
#[local] Arguments publish_qos_of {enc dec ores ires} _ _.
#[local] Arguments handle_puback {enc dec ores ires} _ _ _.
#[local] Arguments handle_pubrec {enc dec ores ires} _ _ _.
#[local] Arguments handle_pubrel {enc dec ores ires} _ _.
#[local] Arguments handle_pubcomp {enc dec ores ires} _ _ _.
#[local] Arguments handle_publish {enc dec ores ires} _ _.
#[local] Arguments handle_disconnect {enc dec ores ires} _ _ _.
#[local] Arguments is_connect_op {enc dec ores ires} _ _.
#[local] Arguments connect_in_queue {enc dec ores ires} _.
#[local] Arguments reset {enc dec ores ires} _ _.
#[local] Arguments out_of_res {enc dec ores ires} _ _.
#[local] Arguments nst_queue {enc dec ores ires} _ _ _ _.
#[local] Arguments earliest_tmo {enc dec ores ires} _.
#[local] Arguments SeatStop {enc dec ores ires} _.
#[local] Arguments SeatContinue {enc dec ores ires} _ _.
#[local] Arguments SeatEncode {enc dec ores ires} _.

Section Data.
  Variable enc : Type.
  Variable enc_reset : version -> packet -> resolution -> outcome enc.
  Variable enc_call : enc -> N -> N -> outcome (bytes * enc).
  Variable enc_done : enc -> bool.
  Variable dec : Type.
  Variable dec_init : dec.
  Variable dec_feed : version -> N -> dec -> bytes -> dec * list packet * outcome unit.
  Variable ores : Type.
  Variable ores_reset : ores -> N -> ores.
  Variable ores_resolve : ores -> option N -> bytes -> outcome (ores * resolution).
  Variable ires : Type.
  Variable ires_reset : ires -> ires.
  Variable ires_resolve : ires -> option N -> bytes -> outcome (ires * bytes).
  Variable v_out : option settings -> connect_opts -> resolution -> packet -> outcome unit.
  Variable v_in : option settings -> packet -> outcome unit.
  Variable cfg : config.
  Variable HC : comps_ok enc enc_reset enc_call dec dec_init dec_feed ores ores_reset ores_resolve ires ires_reset ires_resolve v_out v_in.
  Variable i : N.

  Notation state := (state enc dec ores ires).
  Notation hres := (hres enc dec ores ires).
  Notation handle_connack := (handle_connack enc dec ores ores_reset ires ires_reset v_in cfg).
  Notation handle_packet := (handle_packet enc dec ores ores_reset ires ires_reset v_in cfg).
  Notation handle_packets := (handle_packets enc dec ores ores_reset ires ires_reset ires_resolve v_in cfg).
  Notation net_data := (net_data enc dec dec_feed ores ores_reset ires ires_reset ires_resolve v_in cfg).
  Notation sess_applied := (InboundLoop.sess_applied enc dec ores ires v_in).
  Notation pubrel_target := (InboundLoop.pubrel_target enc dec ores ires).
  Notation item_of := (InboundLoop.item_of enc dec ores ores_reset ires ires_reset v_in cfg).
  Notation plog := (InboundLoop.plog enc dec ores ores_reset ires ires_reset ires_resolve v_in cfg).
  Notation data_log := (InboundLoop.data_log enc dec dec_feed ores ores_reset ires ires_reset ires_resolve v_in cfg).
  Notation J := (J (enc:=enc) (dec:=dec) (ores:=ores) (ires:=ires) i).
  Notation pcq := (pcq (enc:=enc) (dec:=dec) (ores:=ores) (ires:=ires)).

  Ltac splits := repeat match goal with |- _ /\ _ => split end.

  (* ---- an accepted CONNACK ---- *)
  Theorem handle_connack_J (s : state) now c g :
    WF cfg s -> pcq s -> PL s -> sess_applied s (Connack c) = true -> J s g ->
    J (h_s (handle_connack s now c))
      (mkG (ca_session_present c) (g_sub g) (sess_ph (ca_session_present c) (g_ph g))).
  Proof.
    intros [HW HP] Hq HPL Hs HJ. unfold InboundLoop.sess_applied in Hs. unfold Model.handle_connack.
    apply andb_true_iff in Hs. destruct Hs as [Hs Hv]. apply andb_true_iff in Hs. destruct Hs as [Est Hrc].
    rewrite Est, Hrc. cbn [negb]. apply pstate_eqb_eq in Est.
    destruct (v_in None (Connack c)) as [u|k|site] eqn:Ev; [|discriminate|discriminate].
    unfold WFP in HP. rewrite Est in HP. destruct HP as (A1 & A2 & A3 & A4 & A5 & A6 & A7 & A8).
    specialize (Hq Est). unfold connect_in_queue in Hq.
    apply orb_false_elim in Hq. destruct Hq as [Hq Hq3]. apply orb_false_elim in Hq. destruct Hq as [Hq1 Hq2].
    assert (Hconn : forall x, is_conn_op s x -> is_connect_op s x = true).
    { intros x (o & Ho & Hc & _). unfold is_connect_op. unfold getop in Ho. rewrite Ho. exact Hc. }
    assert (Ehq : s_hq s = []) by (apply (existsb_false_nil _ _ Hq1); intros x Hx; apply Hconn, A5; tauto).
    assert (Epw : s_pwco s = []) by (apply (existsb_false_nil _ _ Hq3); intros x Hx; apply Hconn, A5; tauto).
    assert (Hcur : forall x, s_cur s = Some x -> getop s x = None).
    { intros x Hx. rewrite Hx in Hq2. destruct (getop s x) as [o|] eqn:Ho; [|reflexivity]. exfalso.
      destruct (A6 x o Hx Ho) as (Hc & _). unfold is_connect_op in Hq2. unfold getop in Ho. rewrite Ho in Hq2. congruence. }
    cbv zeta.
    match goal with |- context [apply_session cfg ?sx ?sp] => set (s2 := sx) end.
    assert (HW2 : WFS s2) by (unfold s2; destruct (cf_drain_one cfg); exact HW).
    assert (H92 : W9 cfg s2).
    { intros _ Hd. unfold s2. rewrite Hd. cbn. unfold sum_ss. cbn. rewrite sum_ss_fold. lia. }
    assert (F2 : s_st s2 = Connected /\ s_hq s2 = s_hq s /\ s_ppub s2 = s_ppub s /\ s_pnon s2 = s_pnon s /\ s_tmo s2 = s_tmo s /\
                 s_pwco s2 = s_pwco s /\ s_cur s2 = s_cur s /\ s_ops s2 = s_ops s /\ s_rq s2 = s_rq s /\ s_uq s2 = s_uq s /\
                 s_next_id s2 = s_next_id s).
    { unfold s2; destruct (cf_drain_one cfg); cbn; splits; auto. }
    destruct F2 as (G1 & G2 & G3 & G4 & G5 & G6 & G7 & G8 & G9 & G10 & G11).
    assert (HJ' : J (r_s (apply_session cfg s2 (ca_session_present c)))
                    (mkG (ca_session_present c) (g_sub g) (sess_ph (ca_session_present c) (g_ph g)))).
    { apply (session_J cfg i s s2 g (ca_session_present c)); auto; try congruence. unfold waiting. auto. }
    destruct (r_out (apply_session cfg s2 (ca_session_present c))); exact HJ'.
  Qed.

  (* ---- one packet ---- *)
  Theorem handle_packet_ok (s : state) now p g : J s g -> gok i g (DI (item_of s now p)).
  Proof.
    intros HJ. cbn [gok]. unfold InboundLoop.item_of. cbn [it_p it_rel]. destruct p as [c|c|pb|a|a|a|a|sb|a|un|a| | |d|a]; try exact I.
    destruct (pubrel_target s a) as [id|] eqn:Et; [|exact I]. intros ->. exact (pubrec_ok i s g a Et HJ).
  Qed.

  Theorem handle_packet_J (s : state) now p g :
    WF cfg s -> pcq s -> PL s -> J s g -> J (h_s (handle_packet s now p)) (gnext i g (DI (item_of s now p))).
  Proof.
    intros HWF Hq HPL HJ. pose proof HWF as [HW _]. pose proof (wfs_pid_consistent s HW) as Hc.
    cbn [gnext]. unfold InboundLoop.item_of. cbn [it_p it_sess it_rel].
    assert (Hquiet : sess_applied s p = false -> (forall a, p = Pubrec a -> pubrel_target s a <> Some i) ->
                     J (h_s (handle_packet s now p)) g).
    { intros H1 H2. eapply quiet_J; [|exact HJ]. apply handle_packet_quiet; assumption. }
    destruct p as [c|c|pb|a|a|a|a|sb|a|un|a| | |d|a]; try (apply Hquiet; [reflexivity|intros; discriminate]).
    - (* CONNACK *)
      destruct (sess_applied s (Connack c)) eqn:Es; [|apply Hquiet; [reflexivity|intros; discriminate]].
      cbn [Model.handle_packet]. apply handle_connack_J; assumption.
    - (* PUBREC *)
      destruct (pubrel_target s a) as [id|] eqn:Et.
      + destruct (id =? i) eqn:Ei.
        * apply N.eqb_eq in Ei. subst id. cbn [Model.handle_packet]. apply pubrec_J; assumption.
        * apply Hquiet; [reflexivity|]. intros a0 E. inversion E; subst a0. rewrite Et. intros E2. inversion E2. subst id. rewrite N.eqb_refl in Ei. discriminate.
      + apply Hquiet; [reflexivity|]. intros a0 E. inversion E; subst a0. rewrite Et. discriminate.
  Qed.

  (* ---- the packet loop ---- *)

  Lemma J_core (s s' : state) g : core_of s' = core_of s -> s_st s' = s_st s -> J s g -> J s' g.
  Proof.
    intros Hc Hst. unfold core_of in Hc. inversion Hc. apply quiet_J. apply quiet_fields; auto.
  Qed.

  Lemma handle_packets_J now : forall ps (s : state) dn ev g,
    WF cfg s -> cinv HC s -> pcq s -> PL s -> J s g ->
    accepts i g (map DI (plog s now ps)) /\ J (h_s (handle_packets s now ps dn ev)) (grun i g (map DI (plog s now ps))).
  Proof.
    induction ps as [|p rest IH]; intros s dn ev g HWF HI Hq HP HJ; pose proof HWF as [HW HP0];
      cbn [Model.handle_packets InboundLoop.plog]; [split; [exact I|exact HJ]|]. unfold InboundLoop.resolve_in.
    assert (Hres : match (match p with
                          | Publish pb => do (i', t) <- ires_resolve (s_ires s) (pub_alias pb) (pub_topic pb) ;
                                          Ok (s <| s_ires := i' |>, Publish (with_topic pb t))
                          | _ => Ok (s, p) end) with
                   | Ok (s1, p1) => WF cfg s1 /\ pcq s1 /\ cinv HC s1 /\ PL s1 /\ J s1 g
                   | _ => True end).
    { destruct p; try (splits; auto; fail).
      destruct (co_ires HC (s_ires s) (pub_alias p) (pub_topic p) (proj2 (proj2 (proj2 HI)))) as (Hnp & Hinv).
      destruct (ires_resolve (s_ires s) (pub_alias p) (pub_topic p)) as [[i' t]|k|site] eqn:Er; cbn [obind]; try exact I.
      split; [split; [exact HW|exact HP0]|split; [exact Hq|split; [|split]]].
      - destruct HI as (I1 & I2 & I3 & I4). unfold cinv. cbn. splits; auto. eapply Hinv. reflexivity.
      - eapply PL_core; [|exact HP]. reflexivity.
      - eapply J_core; [| |exact HJ]; reflexivity. }
    destruct (match p with
              | Publish pb => do (i', t) <- ires_resolve (s_ires s) (pub_alias pb) (pub_topic pb) ;
                              Ok (s <| s_ires := i' |>, Publish (with_topic pb t))
              | _ => Ok (s, p) end) as [[s1 p1]|k|site]; [|split; [exact I|exact HJ]|split; [exact I|exact HJ]].
    destruct Hres as (HWF1 & Hq1 & HI1 & HP1 & HJ1).
    destruct (v_in (s_settings s1) p1) as [u|k|site] eqn:Ev; [|cbn [h_s map grun fold_left accepts]; split; [exact I|apply halted_J; exact HJ1]|split; [exact I|exact HJ1]].
    destruct (handle_packet_spec _ _ _ _ _ _ _ _ _ _ _ _ _ _ _ HC s1 now p1 HWF1 HI1 Hq1) as (N1 & W1 & P1 & J1 & _).
    pose proof (handle_packet_PL _ _ _ ores_reset _ ires_reset v_in cfg s1 now p1 HWF1 HP1) as HPh.
    pose proof (handle_packet_J s1 now p1 g HWF1 Hq1 HP1 HJ1) as HJh.
    pose proof (handle_packet_ok s1 now p1 g HJ1) as Hok.
    cbn [map accepts]. unfold grun. cbn [fold_left]. fold (grun i (gnext i g (DI (item_of s1 now p1)))).
    destruct (h_out (handle_packet s1 now p1)) as [[]|k|site] eqn:Eo.
    - destruct (P1 eq_refl) as (P2 & P3).
      destruct (IH (h_s (handle_packet s1 now p1)) (dn ++ h_done (handle_packet s1 now p1)) (ev ++ h_ev (handle_packet s1 now p1))
                   (gnext i g (DI (item_of s1 now p1)))) as [A B]; [split; assumption|exact J1|intros E; congruence|exact HPh|exact HJh|].
      split; [split; [exact Hok|exact A]|exact B].
    - cbn [h_s map grun fold_left accepts]. split; [split; [exact Hok|exact I]|apply halted_J; exact HJh].
    - cbn [map grun fold_left accepts]. split; [split; [exact Hok|exact I]|exact HJh].
  Qed.

  Theorem net_data_J (s : state) now data g :
    WF cfg s -> cinv HC s -> PL s -> J s g ->
    accepts i g (map DI (data_log s now data)) /\ J (h_s (net_data s now data)) (grun i g (map DI (data_log s now data))).
  Proof.
    intros HWF HI HP HJ. pose proof HWF as [HW HP0]. unfold Model.net_data, InboundLoop.data_log.
    destruct (pstate_eqb (s_st s) Disconnected || pstate_eqb (s_st s) Halted); [split; [exact I|exact HJ]|].
    destruct (pstate_eqb (s_st s) PendingConnack && connect_in_queue s) eqn:Eg; [cbn [h_s map grun fold_left accepts]; split; [exact I|apply halted_J; exact HJ]|].
    destruct (co_dec_feed HC (cf_version cfg) (max_incoming_size cfg) (s_dec s) data (proj1 (proj2 HI))) as (Hnpd & Hinvd).
    destruct (dec_feed (cf_version cfg) (max_incoming_size cfg) (s_dec s) data) as [[d' ps] r] eqn:Ed.
    set (s1 := s <| s_dec := d' |>).
    assert (HI1 : cinv HC s1) by (destruct HI as (I1 & I2 & I3 & I4); unfold cinv; cbn; splits; auto).
    assert (HWF1 : WF cfg s1) by (split; [exact HW|exact HP0]).
    assert (HP1 : PL s1) by (eapply PL_core; [|exact HP]; reflexivity).
    assert (HJ1 : J s1 g) by (eapply J_core; [| |exact HJ]; reflexivity).
    assert (Hq1 : pcq s1).
    { intros E. change (connect_in_queue s1) with (connect_in_queue s). change (s_st s1) with (s_st s) in E.
      rewrite E in Eg. cbn in Eg. exact Eg. }
    destruct r as [u|k|site].
    - apply handle_packets_J; assumption.
    - cbn [h_s map grun fold_left accepts]. split; [exact I|apply halted_J; exact HJ1].
    - split; [exact I|exact HJ1].
  Qed.
End Data.
