(* The run-level C05 theorems for the concrete engine instance (Engine/Instance.v: the functions the
   correspondence check executes), WITHOUT the no-panic premise: histories from the initial state
   never panic (EngineProofs/WFInstance.instance_no_panic, the well-formedness development). *)
From GM Require Import Base.Prelude Base.Outcome Codec.Packets Codec.Settings Codec.Steps Codec.ImplEncode
  Codec.Framing Alias.Outbound Alias.Inbound Validate.Rules Engine.Model Engine.Instance
  EngineProofs.WFDefs EngineProofs.WFInstance EngineProofs.IdsWitness
  EngineProofs.InboundSpec EngineProofs.InboundLoop EngineProofs.InboundRun EngineProofs.InboundWitness.
Open Scope N_scope.

Section Instance.
  Variable cfg : config.
  Hypothesis Hcfg : ok_cfg cfg.
  Variable k : resolver_kind.
  Variable h : list event.
  Hypothesis Hh : Forall ok_event h.

  Lemma instance_run_no_panic : no_panic (snd (i_run cfg (i_init cfg k) h)).
  Proof.
    unfold no_panic. apply Forall_forall. intros out Hin.
    pose proof (instance_no_panic cfg Hcfg k h Hh out Hin) as H.
    destruct (o_res out) as [u|e|site]; [reflexivity|reflexivity|]. exfalso. exact (H site eq_refl).
  Qed.

  (* the set of unreleased inbound QoS 2 ids of every reachable state, and every packet event ever
     surfaced, are those of the specification *)
  Theorem instance_q2in_refines :
    s_q2in (fst (i_run cfg (i_init cfg k) h)) = q2_spec [] (i_run_log cfg (i_init cfg k) h) /\
    all_events (snd (i_run cfg (i_init cfg k) h)) = ev_spec [] (i_run_log cfg (i_init cfg k) h).
  Proof.
    exact (q2in_refines_init enc impl_steps encode_call enc_done decoder decoder_init decode_bytes
      ores ores_reset ores_resolve ires ires_reset ires_resolve validate_outbound_internal validate_inbound_internal
      cfg _ _ h instance_run_no_panic).
  Qed.

  (* exactly-once surfacing between two releases, at packet granularity *)
  Theorem instance_qos2_surfaced_once p pre seg post :
    i_run_log cfg (i_init cfg k) h = pre ++ seg ++ post ->
    forallb (fun e => negb (releases p e)) seg = true ->
    let q1 := q2_spec [] pre in
    all_events (snd (i_run cfg (i_init cfg k) h)) = ev_spec [] pre ++ ev_spec q1 seg ++ ev_spec (q2_spec q1 seg) post /\
    (count (surfaced p) (ev_spec q1 seg) <= (if mem p q1 then 0 else 1))%nat.
  Proof.
    exact (qos2_surfaced_once_between enc impl_steps encode_call enc_done decoder decoder_init decode_bytes
      ores ores_reset ores_resolve ires ires_reset ires_resolve validate_outbound_internal validate_inbound_internal
      cfg p h (i_init cfg k) pre seg post instance_run_no_panic).
  Qed.
End Instance.

(* the premises hold for the witness history of InboundWitness.v *)
Example w5_instance_premises : ok_cfg w5_cfg /\ Forall ok_event w5_hist.
Proof.
  split; [unfold ok_cfg, TMAX; cbn; lia|].
  unfold w5_hist, w5_h1, w5_h2, w5_h3, x_connect_events. cbn [app]. repeat constructor; cbn; unfold TMAX; lia.
Qed.
