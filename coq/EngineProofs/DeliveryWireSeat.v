(* C04, run level: the invariant J (DeliveryWireDefs.v) when an operation is seated in the encoder slot
   (Model.seat_current, with the log of AliasRunLog.seat_current_a) and when the seated operation is completely written
   (Model.fully_written).  Seating another operation, binding its packet id, failing it in the last-chance validation and
   writing it are frames.  Seating operation i is where the machine CHECKS: the packet handed to the encoder is the PUBLISH
   with DUP = 0 and a bound id (phase GNot), the same PUBLISH with DUP = 1 and the same id on a session-present connection
   (GInt), or the PUBREL (GRel / GRelInt); it cannot be seated at all while its PUBLISH is pending (GPend: the placement
   invariant PL) or seated (GCur / GRelCur). *)
From GM Require Import Base.Prelude Base.Outcome Codec.Packets Codec.Settings Engine.Model
  EngineProofs.AssocLemmas EngineProofs.WFLemmas EngineProofs.WFDefs EngineProofs.IdsFrame EngineProofs.SvcTimeout
  EngineProofs.InboundSpec EngineProofs.HandshakeRunTrace EngineProofs.AliasRunLog EngineProofs.WFCore EngineProofs.WFComplete EngineProofs.WFService EngineProofs.WFService2 EngineProofs.WFService3
  EngineProofs.OrderRunStrict2 EngineProofs.PlaceRun EngineProofs.PlaceRunService
  EngineProofs.DeliveryRun EngineProofs.DeliveryWireDefs EngineProofs.DeliveryWireFrames EngineProofs.DeliveryWireEvents.
From RecordUpdate Require Import RecordSet.
Import RecordSetNotations.
Open Scope N_scope.

(* the four component types are implicit in the engine functions, locally to this file *)
#[local] Arguments init {enc dec} _ {ores ires} _ _.
#[local] Arguments release {enc dec ores ires} _ _ _ _.
#[local] Arguments disconnect_completion {enc dec ores ires} _ _.
#[local] Arguments fail_op {enc dec ores ires} _ _ _ _.
#[local] Arguments ping_extension {enc dec ores ires} _ _.
#[local] Arguments succeed_op {enc dec ores ires} _ _ _ _.
#[local] Arguments fail_all {enc dec ores ires} _ _ _ _.
#[local] Arguments succeed_all {enc dec ores ires} _ _ _.
#[local] Arguments andthen {enc dec ores ires} _ _.
#[local] Arguments try_ {enc dec ores ires} _ _.
#[local] Arguments pure {enc dec ores ires} _.
#[local] Arguments create_operation {enc dec ores ires} _ _.
#[local] Arguments passes_now {enc dec ores ires} _ _ _.
#[local] Arguments user_event {enc dec ores ires} _ _ _ _.
#[local] Arguments create_connect {enc dec ores ires} _ _.
#[local] Arguments net_opened {enc dec} _ {ores ires} _ _ _.
#[local] Arguments op_exists {enc dec ores ires} _ _.
#[local] Arguments op_passes {enc dec ores ires} _ _ _.
#[local] Arguments partition_policy {enc dec ores ires} _ _ _.
#[local] Arguments closed_current {enc dec ores ires} _ _.
#[local] Arguments slow_start_init {enc dec ores ires} _ _.
#[local] Arguments update_retries {enc dec ores ires} _ _.
#[local] Arguments fail_exceeding {enc dec ores ires} _ _.
#[local] Arguments has_pubrel {enc dec ores ires} _ _.
#[local] Arguments net_closed_raw {enc dec ores ires} _ _.
#[local] Arguments net_closed {enc dec ores ires} _ _.
#[local] Arguments net_write_completion {enc dec ores ires} _ _.
#[local] Arguments acquire_free_pid {enc dec ores ires} _ _.
#[local] Arguments acquire_pid_for {enc dec ores ires} _ _.
#[local] Arguments unbind {enc dec ores ires} _ _.
#[local] Arguments passes_receive_max {enc dec ores ires} _ _.
#[local] Arguments throttled {enc dec ores ires} _ _.
#[local] Arguments has_pending_ack {enc dec ores ires} _.
#[local] Arguments dequeue {enc dec ores ires} _ _ _.
#[local] Arguments fully_written {enc dec ores ires} _ _.
#[local] Arguments service_keep_alive {enc dec ores ires} _ _ _.
#[local] Arguments process_ack_timeouts {enc dec ores ires} _ _ _.
#[local] Arguments halt_on_error {enc dec ores ires} _ _.
#[local] Arguments next_service_time {enc dec ores ires} _ _ _.
#[local] Arguments build_settings {enc dec ores ires} _ _ _.
#[local] Arguments apply_session {enc dec ores ires} _ _ _.
#[local] Arguments hres_of {enc dec ores ires} _ _.
#[local] Arguments pre_connack {enc dec ores ires} _.
#[local] Arguments sum_ss {enc dec ores ires} _.
#[local] Arguments handle_pingresp {enc dec ores ires} _.
#[local] Arguments handle_suback {enc dec ores ires} _ _ _.
#[local] Arguments handle_unsuback {enc dec ores ires} _ _ _.
#[local] Arguments publish_qos_of {enc dec ores ires} _ _.
#[local] Arguments handle_puback {enc dec ores ires} _ _ _.
#[local] Arguments handle_pubrec {enc dec ores ires} _ _ _.
#[local] Arguments handle_pubrel {enc dec ores ires} _ _.
#[local] Arguments handle_pubcomp {enc dec ores ires} _ _ _.
#[local] Arguments handle_publish {enc dec ores ires} _ _.
#[local] Arguments handle_disconnect {enc dec ores ires} _ _ _.
#[local] Arguments is_connect_op {enc dec ores ires} _ _.
#[local] Arguments connect_in_queue {enc dec ores ires} _.
#[local] Arguments reset {enc dec ores ires} _ _.
#[local] Arguments out_of_res {enc dec ores ires} _ _.
#[local] Arguments nst_queue {enc dec ores ires} _ _ _ _.
#[local] Arguments earliest_tmo {enc dec ores ires} _.
#[local] Arguments SeatStop {enc dec ores ires} _.
#[local] Arguments SeatContinue {enc dec ores ires} _ _.
#[local] Arguments SeatEncode {enc dec ores ires} _.

(* events of the outbound log that the machine of operation i ignores *)
Definition neutralb (i : N) (e : oev) : bool :=
  match e with
  | OEncode id _ _ true => negb (id =? i)
  | ODone id => negb (id =? i)
  | OOpen | OClose | OClear => false
  | _ => true
  end.

Lemma neutral_step i g e : neutralb i e = true -> gnext i g (DO e) = g /\ gok i g (DO e).
Proof.
  destruct e as [id|id|id|id a t res|id p r v|m|id k|id p r ok|id|m| | | ]; cbn; intros H; try discriminate; try (split; [reflexivity|exact I]).
  - destruct ok; [|split; [reflexivity|exact I]]. apply negb_true_iff in H. rewrite H. split; [reflexivity|]. intros ->. rewrite N.eqb_refl in H. discriminate.
  - apply negb_true_iff in H. rewrite H. split; [reflexivity|exact I].
Qed.

Lemma neutral_run i l : forall g, forallb (neutralb i) l = true -> grun i g (map DO l) = g /\ accepts i g (map DO l).
Proof.
  induction l as [|e l IH]; intros g H; [split; [reflexivity|exact I]|]. cbn in H. apply andb_true_iff in H. destruct H as [H1 H2].
  destruct (neutral_step i g e H1) as [E1 E2]. cbn [map accepts]. unfold grun. cbn [fold_left]. rewrite E1.
  destruct (IH g H2) as [F1 F2]. split; [exact F1|split; [exact E2|exact F2]].
Qed.

Lemma neutral_then i l e g : forallb (neutralb i) l = true ->
  grun i g (map DO (l ++ [e])) = gnext i g (DO e) /\ (gok i g (DO e) -> accepts i g (map DO (l ++ [e]))).
Proof.
  intros H. destruct (neutral_run i l g H) as [E1 E2]. rewrite map_app, grun_app, E1. split; [reflexivity|].
  intros Hk. apply accepts_app. split; [exact E2|]. rewrite E1. cbn. auto.
Qed.

Lemma with_pid_publish pid pb p' : with_pid pid (Publish pb) = Ok p' ->
  exists pb', p' = Publish pb' /\ pub_pid pb' = pid /\ pub_dup pb' = pub_dup pb /\ pub_qos pb' = pub_qos pb /\
              norm (Publish pb') = norm (Publish pb).
Proof. cbn. intros H. inversion H. eexists. split; [reflexivity|]. cbn. repeat split; reflexivity. Qed.

Section SeatLight.
  Context {enc dec ores ires : Type}.
  Notation state := (state enc dec ores ires).
  Notation pid_consistent := (SvcTimeout.pid_consistent enc dec ores ires).
  Variable cfg : config.
  Variable i : N.
  Notation quiet := (quiet (enc:=enc) (dec:=dec) (ores:=ores) (ires:=ires) i).
  Notation J := (J (enc:=enc) (dec:=dec) (ores:=ores) (ires:=ires) i).

  Ltac splits := repeat match goal with |- _ /\ _ => split end.

  (* ---- another operation is seated ---- *)
  Lemma seat_other_quiet (s s1 : state) m id :
    s_cur s = None -> but_queues s1 = but_queues s -> dq_rel m s s1 id -> id <> i -> quiet s (s1 <| s_cur := Some id |>).
  Proof.
    intros Hc B D Hne. destruct (but_queues_fields _ _ B) as (B1 & B2 & _ & _ & _ & _ & B7 & _ & _ & _ & B11 & _).
    constructor; unfold getop; cbn; rewrite ?B1, ?B2, ?B7, ?B11, ?Hc; try tauto; [| |lia].
    - intros o' H. left. exists o'. auto.
    - intros _ _. split; [tauto|]. split; [split; congruence|].
      destruct D as [(_ & D & _)|(_ & _ & _ & [(D1 & _)|(_ & D)])]; rewrite ?D; try tauto.
      rewrite D1. cbn. split; [tauto|]. intros [E|E]; [congruence|exact E].
  Qed.

  Lemma acquire_quiet (s s' : state) id : acquire_pid_for s id = Ok s' -> id <> i -> quiet s s'.
  Proof.
    unfold acquire_pid_for. destruct (lookup id (s_ops s)) as [o|] eqn:Ho; [|discriminate].
    destruct (op_pid o); [intros H; inversion H; subst; intros; apply quiet_refl|].
    destruct (negb (needs_pid (op_packet o))); [intros H; inversion H; subst; intros; apply quiet_refl|].
    unfold acquire_free_pid.
    destruct (match first_gap (map fst (s_alloc s)) (s_next_pid s) 65535 with
              | Some c => Some c | None => first_gap (map fst (s_alloc s)) 1 (s_next_pid s - 1) end) as [c|]; [|discriminate].
    cbn [obind]. destruct (with_pid c (op_packet o)) as [p'|k|site] eqn:Ew; cbn [obind]; [|discriminate|discriminate].
    intros H Hne. inversion H; subst s'; clear H. eapply (quiet_upd i s _ id); try reflexivity. exact Hne.
  Qed.

  (* ---- operation i is seated: what binding the packet id does to it ---- *)
  Lemma acquire_self (s s' : state) o :
    lookup i (s_ops s) = Some o -> acquire_pid_for s i = Ok s' ->
    core_of s' = core_of (s <| s_ops := s_ops s' |> <| s_alloc := s_alloc s' |> <| s_next_pid := s_next_pid s' |>) /\ s_st s' = s_st s /\
    exists o', lookup i (s_ops s') = Some o' /\ op_pubrel o' = op_pubrel o /\
      (o' = o \/ (op_pid o = None /\ exists pid, op_pid o' = Some pid /\ with_pid pid (op_packet o) = Ok (op_packet o'))).
  Proof.
    intros Ho. unfold acquire_pid_for. rewrite Ho.
    destruct (op_pid o) eqn:Ep; [intros H; inversion H; subst; splits; auto; exists o; auto|].
    destruct (negb (needs_pid (op_packet o))); [intros H; inversion H; subst; splits; auto; exists o; auto|].
    unfold acquire_free_pid.
    destruct (match first_gap (map fst (s_alloc s)) (s_next_pid s) 65535 with
              | Some c => Some c | None => first_gap (map fst (s_alloc s)) 1 (s_next_pid s - 1) end) as [c|]; [|discriminate].
    cbn [obind]. destruct (with_pid c (op_packet o)) as [p'|k|site] eqn:Ew; cbn [obind]; [|discriminate|discriminate].
    intros H. inversion H; subst s'; clear H. splits; try reflexivity.
    eexists. split; [cbn; apply lookup_update_eq; exact Ho|]. cbn. split; [reflexivity|]. right. split; [reflexivity|].
    exists c. split; [reflexivity|exact Ew].
  Qed.

  (* ---- another operation is completely written ---- *)
  Lemma fully_written_other (s s' : state) now id o :
    fully_written s now = Ok s' -> s_cur s = Some id -> lookup id (s_ops s) = Some o -> id <> i ->
    pid_consistent s -> (forall p, pkt_pid (op_packet o) = Some p -> needs_pid (op_packet o) = true -> op_pid o = Some p) ->
    quiet s s'.
  Proof.
    intros Hf Hc Ho Hne Hpc Hb.
    destruct (fully_written_shape s s' now id o Hf Hc Ho) as (_ & Rq & _ & Hc' & Eops & Hsh).
    assert (Hn : s_next_id s' = s_next_id s /\ (s_st s' = s_st s \/ s_st s' = PendingDisconnect)).
    { revert Hf. unfold fully_written. rewrite Hc, Ho.
      destruct (op_user o); [destruct (op_timeout o) as [d|]; [destruct (IMAX <? now + d)|]|];
      (destruct (op_packet o) as [c|c|pb|a|a|a|a|sb|a|un|a| | |dd|a]; [ | |destruct (pub_qos pb =? 0)| | | | | | | | | | | | ]);
      cbn [obind]; intros H; inversion H; subst s'; cbn; auto. }
    destruct Hn as [Hn Hst].
    constructor; unfold getop; rewrite ?Eops, ?Rq, ?Hc', ?Hc, ?Hn; try tauto; [| |lia|].
    - intros o'. rewrite lookup_update_neq by congruence. intros H. left. exists o'. auto.
    - intros _ _. split; [|split; [split; congruence|tauto]]. intros p.
      destruct Hsh as [(_ & _ & -> & _)|[(p0 & Hp0 & Hq & _ & -> & _)|(_ & _ & _ & _ & -> & _)]]; try tauto.
      split; [intros Hin; apply in_insert_values in Hin; destruct Hin as [E|Hin]; [inversion E; congruence|exact Hin]|].
      intros Hin. apply In_insert_other; [exact Hin|]. intros ->.
      assert (Hnp : needs_pid (op_packet o) = true) by (rewrite needs_pid_split, Hq; reflexivity).
      assert (i = id) by (symmetry; eapply (Hpc p0 i Hin id o); [exact Ho|apply Hb; assumption]). congruence.
    - intros Ha. destruct Hst as [E|E]; [exact E|]. unfold alive in Ha. rewrite E in Ha. destruct Ha; discriminate.
  Qed.

  (* ---- the placement invariant, read for operation i ---- *)
  Lemma PL_pending_noq (s : state) p o :
    PL s -> In (p, i) (s_ppub s) -> getop s i = Some o -> op_pubrel o = None ->
    ~ In i (s_hq s) /\ ~ In i (s_rq s) /\ ~ In i (s_uq s).
  Proof.
    intros [A B] Hin Ho Hr. apply In_snd in Hin. pose proof Hin as Hc. apply cn_in in Hc. specialize (A i). unfold mn1 in A. rewrite !cn_app in A.
    split; [|split; intros Hx; apply cn_in in Hx; lia].
    intros Hx. assert (Hax : In i (ax s)) by (unfold ax; apply in_or_app; left; exact Hx).
    destruct (B i Hax) as [[_ C]|(_ & Z & _)]; [|lia]. destruct (C o Ho) as (pb & _ & _ & Hne). congruence.
  Qed.

  Lemma PL_rq_nohq (s : state) : PL s -> In i (s_rq s) -> noppub i s -> ~ In i (s_hq s).
  Proof.
    intros [A B] Hr Hn Hx. assert (Hax : In i (ax s)) by (unfold ax; apply in_or_app; left; exact Hx).
    destruct (B i Hax) as [[C _]|(Z & _)].
    - apply In_snd_inv in C. destruct C as (p & C). exact (Hn p C).
    - apply cn_in in Hr. unfold mn1 in Z. rewrite !cn_app in Z. lia.
  Qed.

  (* ---- operation i is seated ---- *)
  Theorem seat_self (s s3 : state) g m o o3 :
    J s g -> PL s -> s_cur s = None -> alive s -> (s_st s = PendingConnack -> m = false) ->
    dq_rel m s s3 i -> s_ppub s3 = s_ppub s -> s_st s3 = s_st s -> s_next_id s3 = s_next_id s -> s_cur s3 = Some i ->
    getop s i = Some o -> getop s3 i = Some o3 -> op_pubrel o3 = op_pubrel o ->
    (o3 = o \/ (op_pid o = None /\ exists pid, op_pid o3 = Some pid /\ with_pid pid (op_packet o) = Ok (op_packet o3))) ->
    WFS s3 ->
    let packet := match op_pubrel o3 with Some pr => pr | None => op_packet o3 end in
    J (s3 <| s_st := Halted |>) g /\
    forall r, (needs_pid (op_packet o3) = true -> op_pid o3 <> None) ->
              gok i g (DO (OEncode i packet r true)) /\
              forall s5 : state, core_of s5 = core_of s3 -> s_st s5 = s_st s3 -> J s5 (gnext i g (DO (OEncode i packet r true))).
  Proof.
    intros HJ HPL Hcur Hal Hm Dq Epp Est Enid Ecur3 Ho Ho3 Erel Hrel HW3. cbv zeta.
    assert (Hnal : ~ alive (s3 <| s_st := Halted |>)) by (unfold alive; cbn; intros [H|H]; discriminate).
    assert (Hq12 : forall pb, op_packet o = Publish pb -> exists pb3, op_packet o3 = Publish pb3 /\ pub_dup pb3 = pub_dup pb /\
              pub_qos pb3 = pub_qos pb /\ norm (Publish pb3) = norm (Publish pb) /\ (o3 = o -> pb3 = pb)).
    { intros pb Epb. destruct Hrel as [->|(_ & pid & _ & Hw)].
      - exists pb. splits; auto.
      - rewrite Epb in Hw. destruct (with_pid_publish _ _ _ Hw) as (pb3 & E3 & _ & D & Q & Nn). exists pb3. splits; auto.
        intros ->. rewrite Epb in E3. inversion E3. reflexivity. }
    assert (Hwf : forall pb3 p, op_packet o3 = Publish pb3 -> op_pid o3 = Some p -> pub_pid pb3 = p /\ 1 <= p <= 65535).
    { intros pb3 p E3 Ep. destruct (w_bound _ _ HW3 i o3 p Ho3 Ep) as (B1 & B2 & _). rewrite E3 in B2. cbn in B2. inversion B2.
      split; [reflexivity|]. destruct (w_pids _ _ HW3) as (_ & Hr & _). rewrite Forall_forall in Hr. rewrite H0. exact (Hr p (lookup_in_keys _ _ _ B1)). }
    assert (Hjc : forall (s5 : state) g5, core_of s5 = core_of s3 -> i < s_next_id s5 ->
              (forall pb3, op_packet o3 = Publish pb3 -> pub_qos pb3 <> 0 /\ norm (Publish pb3) = g_sub g5 /\ PJ i s5 g5 o3 pb3) ->
              (exists pb3, op_packet o3 = Publish pb3) -> g_ph g5 <> GAbs /\ g_ph g5 <> GOther -> J s5 g5).
    { intros s5 g5 Hc Hlt Hk (pb3 & E3) [Hne Hne2]. rewrite J_pub by assumption. split; [exact Hlt|]. intros o5 Ho5.
      unfold core_of in Hc. inversion Hc as [[C1 C2 C3 C4 C5 C6 C7 C8 C9 C10 C11]]. unfold getop in Ho5, Ho3. rewrite C1, Ho3 in Ho5. inversion Ho5; subst o5.
      exists pb3. destruct (Hk pb3 E3) as (K1 & K2 & K3). splits; auto. }
    unfold DeliveryWireDefs.J in HJ. destruct (g_ph g) as [| |pid d|pid|pid|pid|pid|pid| |] eqn:Eph.
    - (* not a QoS 1/2 publish: from now on the machine knows that something was handed to the encoder for it *)
      assert (Hp3 : pubq (op_packet o3) = false).
      { specialize (HJ o Ho). destruct Hrel as [->|(_ & pid & _ & Hw)]; [exact HJ|]. destruct (op_packet o); cbn in Hw; inversion Hw; subst; exact HJ. }
      assert (Hlt3 : i < s_next_id s3) by (apply (w_lt _ _ HW3); eapply lookup_in_keys; exact Ho3).
      assert (Hk : forall s5 : state, s_ops s5 = s_ops s3 -> J s5 g).
      { intros s5 E5. rewrite J_abs by exact Eph. intros o5 Ho5. unfold getop in Ho5, Ho3. rewrite E5, Ho3 in Ho5. inversion Ho5; subst; exact Hp3. }
      split; [apply Hk; reflexivity|]. intros r _. split; [cbn; rewrite Eph; auto|]. intros s5 Hc _.
      assert (Eg : gnext i g (DO (OEncode i (match op_pubrel o3 with Some pr => pr | None => op_packet o3 end) r true)) = mkG (g_sp g) (g_sub g) GOther).
      { cbn. rewrite N.eqb_refl, Eph. destruct (match op_pubrel o3 with Some pr => pr | None => op_packet o3 end); reflexivity. }
      rewrite Eg. unfold DeliveryWireDefs.J. cbn [g_ph]. unfold core_of in Hc. inversion Hc as [[C1 C2 C3 C4 C5 C6 C7 C8 C9 C10 C11]].
      split; [lia|]. intros o5 Ho5. unfold getop in Ho5, Ho3. rewrite C1, Ho3 in Ho5. inversion Ho5; subst; exact Hp3.
    - (* GNot: the first transmission, or a restart *)
      destruct HJ as [Hlt HJ]. destruct (HJ o Ho) as (pb & Epb & Hq & Hn & HP). unfold DeliveryWireDefs.PJ in HP. rewrite Eph in HP.
      destruct HP as (P1 & P2 & P3 & P4 & P5). destruct (Hq12 pb Epb) as (pb3 & E3 & D3 & Q3 & N3 & _).
      assert (Hr3 : op_pubrel o3 = None) by congruence. rewrite Hr3.
      assert (Hnp : needs_pid (op_packet o3) = true) by (rewrite E3; cbn; destruct (pub_qos pb3 =? 0) eqn:E; [lia|reflexivity]).
      split.
      + apply (Hjc _ g); [reflexivity|cbn; lia| |eauto|split; congruence]. intros pb' E'. rewrite E3 in E'. inversion E'; subst pb'.
        split; [congruence|]. split; [congruence|]. unfold DeliveryWireDefs.PJ. rewrite Eph. splits; auto; try congruence;
          try (intros p; cbn; rewrite Epp; apply P3); try (intros _; exact Hnal); try (intros p Hp; exact (Hwf pb3 p E3 Hp)).
      + intros r Hbound. destruct (op_pid o3) as [p3|] eqn:Ep3; [|exfalso; exact (Hbound Hnp eq_refl)]. destruct (Hwf pb3 p3 E3 eq_refl) as [W1 W2]. split.
        * cbn. rewrite Eph. intros _. exists pb3. splits; auto; try congruence; lia.
        * intros s5 Hc Hst5. cbn [gnext]. rewrite N.eqb_refl, Eph, E3. pose proof Hc as Hc'. unfold core_of in Hc'. inversion Hc' as [[C1 C2 C3 C4 C5 C6 C7 C8 C9 C10 C11]].
          apply (Hjc s5); [exact Hc|lia| |eauto|cbn; split; discriminate]. intros pb' E'. rewrite E3 in E'. inversion E'; subst pb'.
          split; [congruence|]. split; [cbn [g_sub]; congruence|]. unfold DeliveryWireDefs.PJ. cbn [g_ph]. unfold bnd. splits; auto; try congruence; try lia.
          intros p. rewrite C7, Epp. apply P3.
    - (* GCur: seated already *) destruct HJ as [_ HJ]. destruct (HJ o Ho) as (pb & _ & _ & _ & HP). unfold DeliveryWireDefs.PJ in HP. rewrite Eph in HP. destruct HP as (P1 & _). congruence.
    - (* GPend: pending, in no queue *)
      destruct HJ as [_ HJ]. destruct (HJ o Ho) as (pb & _ & _ & _ & HP). unfold DeliveryWireDefs.PJ in HP. rewrite Eph in HP. destruct HP as (P1 & P2 & _).
      exfalso. destruct (PL_pending_noq s pid o HPL (proj2 (P1 pid) eq_refl) Ho P2) as (N1 & N2 & N3).
      destruct Dq as [(D & _)|(_ & _ & _ & [(D & _)|(D & _)])]; [apply N1|apply N2|apply N3]; rewrite D; left; reflexivity.
    - (* GInt: the retransmission *)
      destruct HJ as [Hlt HJ]. destruct (HJ o Ho) as (pb & Epb & Hq & Hn & HP). unfold DeliveryWireDefs.PJ in HP. rewrite Eph in HP.
      destruct HP as (P1 & P2 & P3 & (P4 & P5 & P6) & P7 & P8 & P9).
      assert (Eo3 : o3 = o) by (destruct Hrel as [E|(E & _)]; [exact E|congruence]). subst o3. rewrite P2, Epb.
      assert (Hrq : In i (s_rq s)) by (destruct P7 as [P7|[_ P7]]; [exact P7|contradiction]).
      assert (Hconn : s_st s = Connected).
      { pose proof (PL_rq_nohq s HPL Hrq P3) as Nh. destruct Dq as [(D & _)|(Em & _)]; [exfalso; apply Nh; rewrite D; left; reflexivity|].
        destruct Hal as [E|E]; [specialize (Hm E); congruence|exact E]. }
      split.
      + apply (Hjc _ g); [reflexivity|cbn; lia| |eauto|split; congruence]. intros pb' E'. rewrite Epb in E'. inversion E'; subst pb'.
        split; [exact Hq|]. split; [exact Hn|]. unfold DeliveryWireDefs.PJ. rewrite Eph. unfold bnd, parked, dead_cur, noppub. cbn [s_st s_cur s_rq s_ppub set]. splits; auto; try lia;
          try (intros p; rewrite Epp; apply P3); try (right; split; [exact Ecur3|exact Hnal]); try (intros _; exact Hnal); try (intros Hc; discriminate).
      + intros r _. split.
        * cbn. rewrite Eph. intros _. exists pb. splits; auto.
        * intros s5 Hc Hst5. cbn [gnext]. rewrite N.eqb_refl, Eph. pose proof Hc as Hc'. unfold core_of in Hc'. inversion Hc' as [[C1 C2 C3 C4 C5 C6 C7 C8 C9 C10 C11]].
          apply (Hjc s5); [exact Hc|lia| |eauto|cbn; split; discriminate]. intros pb' E'. rewrite Epb in E'. inversion E'; subst pb'.
          split; [exact Hq|]. split; [exact Hn|]. unfold DeliveryWireDefs.PJ. cbn [g_ph]. unfold bnd, noppub. splits; auto; try congruence; try lia; try (intros p; rewrite C7, Epp; apply P3).
    - (* GRel: the PUBREL *)
      destruct HJ as [Hlt HJ]. destruct (HJ o Ho) as (pb & Epb & Hq & Hn & HP). unfold DeliveryWireDefs.PJ in HP. rewrite Eph in HP.
      destruct HP as (P1 & P2 & (P4 & P5 & P6) & P7).
      assert (Eo3 : o3 = o) by (destruct Hrel as [E|(E & _)]; [exact E|congruence]). subst o3. rewrite P2. unfold relof.
      assert (Hk : forall s5 : state, core_of s5 = core_of s3 -> J s5 g).
      { intros s5 Hc. pose proof Hc as Hc'. unfold core_of in Hc'. inversion Hc' as [[C1 C2 C3 C4 C5 C6 C7 C8 C9 C10 C11]].
        apply (Hjc s5); [exact Hc|lia| |eauto|split; congruence]. intros pb' E'. rewrite Epb in E'. inversion E'; subst pb'.
        split; [exact Hq|]. split; [exact Hn|]. unfold DeliveryWireDefs.PJ. rewrite Eph. unfold bnd, onlyppub. splits; auto; try lia.
        intros p. rewrite C7, Epp. apply P1. }
      split; [apply Hk; reflexivity|]. intros r _. split; [cbn; rewrite Eph; auto|]. intros s5 Hc _.
      cbn [gnext]. rewrite N.eqb_refl, Eph. apply Hk. exact Hc.
    - (* GRelInt: the PUBREL again, on a resumed session *)
      destruct HJ as [Hlt HJ]. destruct (HJ o Ho) as (pb & Epb & Hq & Hn & HP). unfold DeliveryWireDefs.PJ in HP. rewrite Eph in HP.
      destruct HP as (P1 & P2 & P3 & (P4 & P5 & P6) & P7 & P8 & P9 & P10).
      assert (Eo3 : o3 = o) by (destruct Hrel as [E|(E & _)]; [exact E|congruence]). subst o3. rewrite P2. unfold relof.
      assert (Hrq : In i (s_rq s)) by (destruct P7 as [P7|[_ P7]]; [exact P7|contradiction]).
      assert (Hconn : s_st s = Connected).
      { pose proof (PL_rq_nohq s HPL Hrq P3) as Nh. destruct Dq as [(D & _)|(Em & _)]; [exfalso; apply Nh; rewrite D; left; reflexivity|].
        destruct Hal as [E|E]; [specialize (Hm E); congruence|exact E]. }
      split.
      + apply (Hjc _ g); [reflexivity|cbn; lia| |eauto|split; congruence]. intros pb' E'. rewrite Epb in E'. inversion E'; subst pb'.
        split; [exact Hq|]. split; [exact Hn|]. unfold DeliveryWireDefs.PJ. rewrite Eph. unfold bnd, parked, dead_cur, noppub. cbn [s_st s_cur s_rq s_ppub set]. splits; auto; try lia;
          try (intros p; rewrite Epp; apply P3); try (right; split; [exact Ecur3|exact Hnal]); try (intros _; exact Hnal); try (intros Hc; discriminate).
      + intros r _. split.
        * cbn. rewrite Eph. intros _. auto.
        * intros s5 Hc Hst5. cbn [gnext]. rewrite N.eqb_refl, Eph. pose proof Hc as Hc'. unfold core_of in Hc'. inversion Hc' as [[C1 C2 C3 C4 C5 C6 C7 C8 C9 C10 C11]].
          apply (Hjc s5); [exact Hc|lia| |eauto|cbn; split; discriminate]. intros pb' E'. rewrite Epb in E'. inversion E'; subst pb'.
          split; [exact Hq|]. split; [exact Hn|]. unfold DeliveryWireDefs.PJ. cbn [g_ph]. unfold bnd, noppub. splits; auto; try congruence; try lia; try (intros p; rewrite C7, Epp; apply P3).
    - (* GRelCur: seated already *) destruct HJ as [_ HJ]. destruct (HJ o Ho) as (pb & _ & _ & _ & HP). unfold DeliveryWireDefs.PJ in HP. rewrite Eph in HP. destruct HP as (P1 & _). congruence.
    - (* GGone *) destruct HJ as [_ HJ]. destruct (HJ o Ho) as (pb & _ & _ & _ & HP). unfold DeliveryWireDefs.PJ in HP. rewrite Eph in HP. destruct HP.
    - (* GOther: no QoS 1/2 publish *)
      destruct HJ as [Hlt HJ].
      assert (Hp3 : pubq (op_packet o3) = false).
      { specialize (HJ o Ho). destruct Hrel as [->|(_ & pid & _ & Hw)]; [exact HJ|]. destruct (op_packet o); cbn in Hw; inversion Hw; subst; exact HJ. }
      assert (Hk : forall s5 : state, s_ops s5 = s_ops s3 -> s_next_id s5 = s_next_id s3 -> J s5 g).
      { intros s5 E5 E6. unfold DeliveryWireDefs.J. rewrite Eph. split; [lia|]. intros o5 Ho5. unfold getop in Ho5, Ho3. rewrite E5, Ho3 in Ho5. inversion Ho5; subst; exact Hp3. }
      split; [apply Hk; reflexivity|]. intros r _. split; [cbn; rewrite Eph; auto|]. intros s5 Hc _.
      assert (Eg : gnext i g (DO (OEncode i (match op_pubrel o3 with Some pr => pr | None => op_packet o3 end) r true)) = g).
      { cbn. rewrite N.eqb_refl, Eph. reflexivity. }
      rewrite Eg. unfold core_of in Hc. inversion Hc. apply Hk; assumption.
  Qed.

  (* ---- operation i is completely written ---- *)
  Theorem written_self (s s' : state) g now o :
    J s g -> alive s -> fully_written s now = Ok s' -> s_cur s = Some i -> getop s i = Some o ->
    J s' (gnext i g (DO (ODone i))).
  Proof.
    intros HJ Hal Hf Hc Ho. unfold getop in Ho.
    destruct (fully_written_shape s s' now i o Hf Hc Ho) as (_ & Rq & _ & Hc' & Eops & Hsh).
    assert (Hn : s_next_id s' = s_next_id s /\ (is_disconnect (op_packet o) = false -> s_st s' = s_st s)).
    { revert Hf. unfold fully_written. rewrite Hc, Ho.
      destruct (op_user o); [destruct (op_timeout o) as [d|]; [destruct (IMAX <? now + d)|]|];
      (destruct (op_packet o) as [c|c|pb|a|a|a|a|sb|a|un|a| | |dd|a]; [ | |destruct (pub_qos pb =? 0)| | | | | | | | | | | | ]);
      cbn [obind]; intros H; inversion H; subst s'; cbn; auto; split; auto; discriminate. }
    destruct Hn as [Hn Hst].
    set (o' := o <| op_ext := Some now |>).
    assert (Ho' : getop s' i = Some o') by (unfold getop; rewrite Eops; apply lookup_update_eq; exact Ho).
    cbn [gnext]. rewrite N.eqb_refl. unfold DeliveryWireDefs.J in HJ.
    destruct (g_ph g) as [| |pid d|pid|pid|pid|pid|pid| |] eqn:Eph.
    { rewrite J_abs by exact Eph. intros o1 Ho1. rewrite Ho' in Ho1. inversion Ho1; subst o1. exact (HJ o Ho). }
    9:{ destruct HJ as [Hlt HJ]. unfold DeliveryWireDefs.J. rewrite Eph. split; [lia|]. intros o1 Ho1. rewrite Ho' in Ho1. inversion Ho1; subst o1. exact (HJ o Ho). }
    all: destruct HJ as [Hlt HJ]; destruct (HJ o Ho) as (pb & Epb & Hq & Hnm & HP); unfold DeliveryWireDefs.PJ in HP; rewrite Eph in HP.
    (* not seated in a live state *)
    all: try (exfalso; repeat match goal with H : _ /\ _ |- _ => destruct H end;
              match goal with H : dead_cur _ _ |- _ => exact (H Hc Hal) end).
    all: try (exfalso; exact HP).
    all: assert (Epp : exists p, pkt_pid (op_packet o) = Some p /\ s_ppub s' = insert p i (s_ppub s))
      by (destruct Hsh as [(Hx & _)|[(p & Hp & _ & _ & Hx & _)|(p & _ & Hx & _)]];
          [rewrite Epb in Hx; cbn in Hx; destruct (pub_qos pb =? 0) eqn:E; [lia|discriminate]|exists p; auto|rewrite Epb in Hx; discriminate]).
    all: destruct Epp as (p0 & Hp0 & Epp); rewrite Epb in Hp0; cbn in Hp0; inversion Hp0; subst p0; clear Hp0.
    all: assert (Hst' : s_st s' = s_st s) by (apply Hst; rewrite Epb; reflexivity).
    all: assert (Hgoal : forall ph', (ph' <> GAbs /\ ph' <> GOther) -> PJ i s' (mkG (g_sp g) (g_sub g) ph') o' pb -> J s' (mkG (g_sp g) (g_sub g) ph'))
      by (intros ph' [Hne Hne2] Hk; rewrite J_pub by assumption; split; [lia|]; intros o1 Ho1; rewrite Ho' in Ho1; inversion Ho1; subst o1;
          exists pb; splits; auto).
    all: assert (Hins : forall pid0, pub_pid pb = pid0 -> (noppub i s \/ onlyppub i s pid0) -> onlyppub i s' pid0)
      by (intros pid0 Epid Hor p; rewrite Epp, Epid; split;
          [intros Hin; apply in_insert_values in Hin; destruct Hin as [E|Hin]; [inversion E; reflexivity|destruct Hor as [Hx|Hx]; [exfalso; exact (Hx _ Hin)|apply Hx; exact Hin]]
          |intros ->; apply In_insert_same]).
    - (* GCur -> GPend *)
      destruct HP as (P1 & P2 & P3 & P4 & (P5 & P6 & P7)). apply Hgoal; [split; discriminate|]. unfold DeliveryWireDefs.PJ. cbn [g_ph]. unfold bnd. splits; auto; try lia.
    - (* GPend: stays *)
      destruct HP as (P1 & P2 & (P5 & P6 & P7)).
      replace g with (mkG (g_sp g) (g_sub g) (GPend pid)) by (destruct g; cbn in *; congruence).
      apply Hgoal; [split; discriminate|]. unfold DeliveryWireDefs.PJ. cbn [g_ph]. unfold bnd. splits; auto; try lia.
    - (* GRel: stays *)
      destruct HP as (P1 & P2 & (P5 & P6 & P7) & P8).
      replace g with (mkG (g_sp g) (g_sub g) (GRel pid)) by (destruct g; cbn in *; congruence).
      apply Hgoal; [split; discriminate|]. unfold DeliveryWireDefs.PJ. cbn [g_ph]. unfold bnd. splits; auto; try lia.
    - (* GRelCur -> GRel *)
      destruct HP as (P1 & P2 & P3 & P4 & (P5 & P6 & P7) & P8). apply Hgoal; [split; discriminate|]. unfold DeliveryWireDefs.PJ. cbn [g_ph]. unfold bnd. splits; auto; try lia.
  Qed.
End SeatLight.
