(* C18 / C14 run level, part 1: the frame relations of the timer bookkeeping.

   NW s s' ("no write"): the ack-timeout heap is untouched, operations only disappear or are created
   fresh (never written, never interrupted), existing ones keep user flag / ack timeout / write time /
   interruption count, and the two pending tables only lose entries.
   KR s s' ("keep-alive kept"): the negotiated settings are untouched, the ping deadline is kept or
   cleared, the next-ping time is kept or moved later, the protocol state is kept or moves to
   Halted / PendingDisconnect.
   FR = NW /\ KR holds for every helper of the engine except: fully_written (arms a record),
   process_ack_timeouts (consumes records), update_retries (counts), service_keep_alive (arms the
   ping deadline), a successful handle_connack (negotiates), net_closed / reset (clear). *)
From GM Require Import Base.Prelude Base.Outcome Codec.Packets Codec.Settings Engine.Model
  EngineProofs.AssocLemmas EngineProofs.WFLemmas.
From RecordUpdate Require Import RecordSet.
Import RecordSetNotations.
Open Scope N_scope.

Definition tsame (o o' : op) : Prop :=
  op_user o' = op_user o /\ op_timeout o' = op_timeout o /\ op_ext o' = op_ext o /\ op_intr o' = op_intr o.
(* the same without the write time: what a complete write keeps *)
Definition isame (o o' : op) : Prop :=
  op_user o' = op_user o /\ op_timeout o' = op_timeout o /\ op_intr o' = op_intr o.
Definition fresh_op (o : op) : Prop := op_ext o = None /\ op_intr o = 0.

Lemma tsame_refl o : tsame o o.
Proof. unfold tsame. tauto. Qed.
Lemma tsame_trans a b c : tsame a b -> tsame b c -> tsame a c.
Proof. unfold tsame. intuition congruence. Qed.
Lemma isame_refl o : isame o o.
Proof. unfold isame. tauto. Qed.
Lemma isame_trans a b c : isame a b -> isame b c -> isame a c.
Proof. unfold isame. intuition congruence. Qed.
Lemma tsame_isame a b : tsame a b -> isame a b.
Proof. unfold tsame, isame. tauto. Qed.

Definition np_mono (a b : option N) : Prop :=
  match a with None => b = None | Some n => exists n', b = Some n' /\ n <= n' end.
Lemma np_mono_refl a : np_mono a a.
Proof. destruct a; cbn; [eexists; split; [reflexivity|lia]|reflexivity]. Qed.
Lemma np_mono_trans a b c : np_mono a b -> np_mono b c -> np_mono a c.
Proof.
  destruct a as [n|]; cbn.
  - intros (n1 & -> & H1). cbn. intros (n2 & -> & H2). exists n2. split; [reflexivity|lia].
  - intros ->. cbn. auto.
Qed.

Section Defs.
  Variable enc : Type.
  Variable enc_reset : version -> packet -> resolution -> outcome enc.
  Variable enc_call : enc -> N -> N -> outcome (bytes * enc).
  Variable enc_done : enc -> bool.
  Variable dec : Type.
  Variable dec_init : dec.
  Variable dec_feed : version -> N -> dec -> bytes -> dec * list packet * outcome unit.
  Variable ores : Type.
  Variable ores_reset : ores -> N -> ores.
  Variable ores_resolve : ores -> option N -> bytes -> outcome (ores * resolution).
  Variable ires : Type.
  Variable ires_reset : ires -> ires.
  Variable ires_resolve : ires -> option N -> bytes -> outcome (ires * bytes).
  Variable v_out : option settings -> connect_opts -> resolution -> packet -> outcome unit.
  Variable v_in : option settings -> packet -> outcome unit.
  Variable cfg : config.

  Notation state := (Model.state enc dec ores ires).
  Notation init := (Model.init enc dec dec_init ores ires).
  Notation res := (Model.res enc dec ores ires).
  Notation release := (Model.release enc dec ores ires cfg).
  Notation disconnect_completion := (Model.disconnect_completion enc dec ores ires).
  Notation fail_op := (Model.fail_op enc dec ores ires cfg).
  Notation ping_extension := (Model.ping_extension enc dec ores ires).
  Notation succeed_op := (Model.succeed_op enc dec ores ires cfg).
  Notation fail_all := (Model.fail_all enc dec ores ires cfg).
  Notation succeed_all := (Model.succeed_all enc dec ores ires cfg).
  Notation andthen := (Model.andthen enc dec ores ires).
  Notation try_ := (Model.try_ enc dec ores ires).
  Notation pure := (Model.pure enc dec ores ires).
  Notation create_operation := (Model.create_operation enc dec ores ires).
  Notation passes_now := (Model.passes_now enc dec ores ires cfg).
  Notation user_event := (Model.user_event enc dec ores ires cfg).
  Notation create_connect := (Model.create_connect enc dec ores ires cfg).
  Notation net_opened := (Model.net_opened enc dec dec_init ores ires cfg).
  Notation op_exists := (Model.op_exists enc dec ores ires).
  Notation op_passes := (Model.op_passes enc dec ores ires cfg).
  Notation partition_policy := (Model.partition_policy enc dec ores ires cfg).
  Notation closed_current := (Model.closed_current enc dec ores ires cfg).
  Notation slow_start_init := (Model.slow_start_init enc dec ores ires cfg).
  Notation update_retries := (Model.update_retries enc dec ores ires cfg).
  Notation fail_exceeding := (Model.fail_exceeding enc dec ores ires cfg).
  Notation has_pubrel := (Model.has_pubrel enc dec ores ires).
  Notation net_closed_raw := (Model.net_closed_raw enc dec ores ires cfg).
  Notation net_closed := (Model.net_closed enc dec ores ires cfg).
  Notation net_write_completion := (Model.net_write_completion enc dec ores ires cfg).
  Notation acquire_free_pid := (Model.acquire_free_pid enc dec ores ires).
  Notation acquire_pid_for := (Model.acquire_pid_for enc dec ores ires).
  Notation unbind := (Model.unbind enc dec ores ires).
  Notation passes_receive_max := (Model.passes_receive_max enc dec ores ires).
  Notation throttled := (Model.throttled enc dec ores ires cfg).
  Notation has_pending_ack := (Model.has_pending_ack enc dec ores ires).
  Notation dequeue := (Model.dequeue enc dec ores ires cfg).
  Notation fully_written := (Model.fully_written enc dec ores ires).
  Notation sres := (Model.sres enc dec ores ires).
  Notation seat := (Model.seat enc dec ores ires).
  Notation seat_current := (Model.seat_current enc enc_reset dec ores ores_reset ores_resolve ires v_out cfg).
  Notation service_loop := (Model.service_loop enc enc_reset enc_call enc_done dec ores ores_reset ores_resolve ires v_out cfg).
  Notation service_queue := (Model.service_queue enc enc_reset enc_call enc_done dec ores ores_reset ores_resolve ires v_out cfg).
  Notation service_keep_alive := (Model.service_keep_alive enc dec ores ires cfg).
  Notation process_ack_timeouts := (Model.process_ack_timeouts enc dec ores ires cfg).
  Notation halt_on_error := (Model.halt_on_error enc dec ores ires).
  Notation service := (Model.service enc enc_reset enc_call enc_done dec ores ores_reset ores_resolve ires v_out cfg).
  Notation earliest_tmo := (Model.earliest_tmo enc dec ores ires).
  Notation nst_queue := (Model.nst_queue enc dec ores ires cfg).
  Notation next_service_time := (Model.next_service_time enc dec ores ires cfg).
  Notation build_settings := (Model.build_settings enc dec ores ires cfg).
  Notation apply_session := (Model.apply_session enc dec ores ires cfg).
  Notation hres := (Model.hres enc dec ores ires).
  Notation hres_of := (Model.hres_of enc dec ores ires).
  Notation pre_connack := (Model.pre_connack enc dec ores ires).
  Notation sum_ss := (Model.sum_ss enc dec ores ires).
  Notation handle_connack := (Model.handle_connack enc dec ores ores_reset ires ires_reset v_in cfg).
  Notation handle_pingresp := (Model.handle_pingresp enc dec ores ires).
  Notation handle_suback := (Model.handle_suback enc dec ores ires cfg).
  Notation handle_unsuback := (Model.handle_unsuback enc dec ores ires cfg).
  Notation publish_qos_of := (Model.publish_qos_of enc dec ores ires).
  Notation handle_puback := (Model.handle_puback enc dec ores ires cfg).
  Notation handle_pubrec := (Model.handle_pubrec enc dec ores ires cfg).
  Notation handle_pubrel := (Model.handle_pubrel enc dec ores ires).
  Notation handle_pubcomp := (Model.handle_pubcomp enc dec ores ires cfg).
  Notation handle_publish := (Model.handle_publish enc dec ores ires).
  Notation handle_disconnect := (Model.handle_disconnect enc dec ores ires cfg).
  Notation handle_packet := (Model.handle_packet enc dec ores ores_reset ires ires_reset v_in cfg).
  Notation handle_packets := (Model.handle_packets enc dec ores ores_reset ires ires_reset ires_resolve v_in cfg).
  Notation is_connect_op := (Model.is_connect_op enc dec ores ires).
  Notation connect_in_queue := (Model.connect_in_queue enc dec ores ires).
  Notation max_incoming_size := (Model.max_incoming_size cfg).
  Notation net_data := (Model.net_data enc dec dec_feed ores ores_reset ires ires_reset ires_resolve v_in cfg).
  Notation reset := (Model.reset enc dec ores ires cfg).
  Notation out_of_res := (Model.out_of_res enc dec ores ires).
  Notation step := (Model.step enc enc_reset enc_call enc_done dec dec_init dec_feed ores ores_reset ores_resolve ires ires_reset ires_resolve v_out v_in cfg).
  Notation run := (Model.run enc enc_reset enc_call enc_done dec dec_init dec_feed ores ores_reset ores_resolve ires ires_reset ires_resolve v_out v_in cfg).
  Notation SeatStop := (Model.SeatStop enc dec ores ires).
  Notation SeatContinue := (Model.SeatContinue enc dec ores ires).
  Notation SeatEncode := (Model.SeatEncode enc dec ores ires).
  Notation mkState := (Model.mkState enc dec ores ires).

  Ltac slia := try clear v_in; try clear v_out; try clear ires_resolve; try clear ires_reset; try clear ores_resolve;
    try clear ores_reset; try clear dec_feed; try clear dec_init; try clear enc_done; try clear enc_call; try clear enc_reset; lia.
  Ltac dm := match goal with
    | |- context [match ?x with _ => _ end] => destruct x eqn:?
    end.

  Ltac dmh H := match type of H with
    | context [match ?x with _ => _ end] => destruct x eqn:?
    end.

  (* ---- operation table: old operations related by R, new operations satisfy F ---- *)
  Definition OR (R : op -> op -> Prop) (F : op -> Prop) (s s' : state) : Prop :=
    s_next_id s <= s_next_id s' /\
    forall i o', lookup i (s_ops s') = Some o' ->
      (exists o, lookup i (s_ops s) = Some o /\ R o o') \/ (s_next_id s <= i < s_next_id s' /\ F o').

  Lemma OR_refl (R : op -> op -> Prop) F s : (forall o, R o o) -> OR R F s s.
  Proof. intros HR. split; [slia|]. intros i o' H. left. exists o'. auto. Qed.

  Lemma OR_trans (R : op -> op -> Prop) (F : op -> Prop) s1 s2 s3 :
    (forall a b c, R a b -> R b c -> R a c) -> (forall a b, R a b -> F a -> F b) ->
    OR R F s1 s2 -> OR R F s2 s3 -> OR R F s1 s3.
  Proof.
    intros HR HF [A1 A2] [B1 B2]. split; [slia|]. intros i o3 H3.
    destruct (B2 _ _ H3) as [(o2 & H2 & R2)|[Hn Hf]]; [|right; split; [slia|exact Hf]].
    destruct (A2 _ _ H2) as [(o1 & H1 & R1)|[Hn Hf]].
    - left. exists o1. split; [exact H1|eapply HR; eassumption].
    - right. split; [slia|eapply HF; eassumption].
  Qed.

  Lemma OR_weaken (R R' : op -> op -> Prop) (F F' : op -> Prop) s s' :
    (forall a b, R a b -> R' a b) -> (forall a, F a -> F' a) -> OR R F s s' -> OR R' F' s s'.
  Proof.
    intros HR HF [A1 A2]. split; [exact A1|]. intros i o' H. destruct (A2 _ _ H) as [(o & Ho & Hr)|[Hn Hf]]; [left; eauto|right; auto].
  Qed.

  Definition fresh_i (o : op) : Prop := op_intr o = 0.
  Notation ORt := (OR tsame fresh_op).
  Notation ORi := (OR isame fresh_i).

  Lemma tsame_fresh a b : tsame a b -> fresh_op a -> fresh_op b.
  Proof. unfold tsame, fresh_op. intuition congruence. Qed.
  Lemma isame_fresh a b : isame a b -> fresh_i a -> fresh_i b.
  Proof. unfold isame, fresh_i. intuition congruence. Qed.

  Lemma ORt_ORi s s' : ORt s s' -> ORi s s'.
  Proof. apply OR_weaken; [apply tsame_isame|unfold fresh_op, fresh_i; tauto]. Qed.
  Lemma ORi_refl s : ORi s s.
  Proof. apply OR_refl, isame_refl. Qed.
  Lemma ORi_trans s1 s2 s3 : ORi s1 s2 -> ORi s2 s3 -> ORi s1 s3.
  Proof. apply OR_trans; [apply isame_trans|apply isame_fresh]. Qed.

  (* ---- the two frame relations ---- *)
  Record NW (s s' : state) : Prop := mkNW {
    nw_tmo : s_tmo s' = s_tmo s;
    nw_ops : ORt s s';
    nw_ppub : forall x, In x (s_ppub s') -> In x (s_ppub s);
    nw_pnon : forall x, In x (s_pnon s') -> In x (s_pnon s) }.

  Record KR (s s' : state) : Prop := mkKR {
    kr_st : s_st s' = s_st s \/ s_st s' = Halted \/ s_st s' = PendingDisconnect;
    kr_set : s_settings s' = s_settings s;
    kr_pt : s_ping_to s' = s_ping_to s \/ s_ping_to s' = None;
    kr_np : np_mono (s_next_ping s) (s_next_ping s') }.

  Definition FR (s s' : state) : Prop := NW s s' /\ KR s s'.

  Lemma NW_refl s : NW s s.
  Proof. constructor; auto. apply OR_refl, tsame_refl. Qed.
  Lemma NW_trans s1 s2 s3 : NW s1 s2 -> NW s2 s3 -> NW s1 s3.
  Proof.
    intros [A1 A2 A3 A4] [B1 B2 B3 B4]. constructor; [congruence| |auto|auto].
    eapply OR_trans; [apply tsame_trans|apply tsame_fresh|eassumption|eassumption].
  Qed.
  Lemma KR_refl s : KR s s.
  Proof. constructor; auto. apply np_mono_refl. Qed.
  Lemma KR_trans s1 s2 s3 : KR s1 s2 -> KR s2 s3 -> KR s1 s3.
  Proof.
    intros [A1 A2 A3 A4] [B1 B2 B3 B4]. constructor; [|congruence| |eapply np_mono_trans; eassumption].
    - destruct B1 as [B1|B1]; [rewrite B1; exact A1|tauto].
    - destruct B3 as [B3|B3]; [rewrite B3; exact A3|tauto].
  Qed.
  Lemma FR_refl s : FR s s.
  Proof. split; [apply NW_refl|apply KR_refl]. Qed.
  Lemma FR_trans s1 s2 s3 : FR s1 s2 -> FR s2 s3 -> FR s1 s3.
  Proof. intros [A B] [C D]. split; [eapply NW_trans|eapply KR_trans]; eassumption. Qed.

  (* the fields the two relations look at *)
  Definition fv (s : state) :=
    (s_ops s, s_tmo s, s_next_id s, s_ppub s, s_pnon s, s_st s, s_settings s, s_ping_to s, s_next_ping s).

  Lemma FR_view s s' : fv s' = fv s -> FR s s'.
  Proof.
    unfold fv. intros H. repeat (apply pair_equal_spec in H; destruct H as [H ?]).
    split; constructor; try (left; assumption); try assumption.
    - split; [slia|]. intros i o' Hl. left. exists o'. split; [congruence|apply tsame_refl].
    - intros x. congruence.
    - intros x. congruence.
    - replace (s_next_ping s') with (s_next_ping s). apply np_mono_refl.
  Qed.

  (* operations only disappear, tables only shrink, keep-alive view related *)
  Lemma FR_sub s s' :
    s_tmo s' = s_tmo s -> s_next_id s' = s_next_id s ->
    (forall i o, lookup i (s_ops s') = Some o -> lookup i (s_ops s) = Some o) ->
    (forall x, In x (s_ppub s') -> In x (s_ppub s)) -> (forall x, In x (s_pnon s') -> In x (s_pnon s)) ->
    KR s s' -> FR s s'.
  Proof.
    intros A B C D E K. split; [|exact K]. constructor; auto.
    split; [slia|]. intros i o' Hl. left. exists o'. split; [auto|apply tsame_refl].
  Qed.

  Lemma KR_view s s' : (s_st s', s_settings s', s_ping_to s', s_next_ping s') = (s_st s, s_settings s, s_ping_to s, s_next_ping s) -> KR s s'.
  Proof.
    intros H. repeat (apply pair_equal_spec in H; destruct H as [H ?]). constructor; auto.
    replace (s_next_ping s') with (s_next_ping s). apply np_mono_refl.
  Qed.

  Lemma FR_from s0 s s' : fv s = fv s0 -> FR s s' -> FR s0 s'.
  Proof. intros H. apply FR_trans. apply FR_view. exact H. Qed.

  Ltac frv := apply FR_view; reflexivity.

  (* ---- completions ---- *)
  Lemma release_FR s id o s1 : release s id o = Ok s1 -> FR s s1.
  Proof.
    unfold Model.release. intros H.
    assert (G : forall s2 : state, s_tmo s2 = s_tmo s -> s_next_id s2 = s_next_id s -> s_ops s2 = remove id (s_ops s) ->
              (forall x, In x (s_ppub s2) -> In x (s_ppub s)) -> (forall x, In x (s_pnon s2) -> In x (s_pnon s)) ->
              (s_st s2, s_settings s2, s_ping_to s2, s_next_ping s2) = (s_st s, s_settings s, s_ping_to s, s_next_ping s) -> FR s s2).
    { intros s2 A B C D E K. apply FR_sub; auto; [|apply KR_view; exact K].
      intros i o0. rewrite C. intros Hl. apply lookup_remove_inv in Hl. tauto. }
    destruct (op_pid o) as [p|]; cbn in H; repeat dmh H; inversion H; subst; apply G; cbn; auto;
      intros x Hx; eapply in_remove_values; exact Hx.
  Qed.

  Lemma disconnect_completion_FR s o : FR s (fst (disconnect_completion s o)).
  Proof.
    unfold Model.disconnect_completion. repeat dm; cbn [fst]; try apply FR_refl.
    apply FR_sub; auto. constructor; cbn; auto. apply np_mono_refl.
  Qed.

  Lemma fail_op_FR s id e : FR s (r_s (fail_op s id e)).
  Proof.
    unfold Model.fail_op. destruct (lookup id (s_ops s)) as [o|]; [|apply FR_refl].
    destruct (release s id o) as [s1| |] eqn:Er; [|apply FR_refl..].
    pose proof (release_FR _ _ _ _ Er) as H1. pose proof (disconnect_completion_FR s1 o) as H2.
    destruct (disconnect_completion s1 o) as [s2 r]. cbn [fst] in H2.
    assert (H : FR s s2) by (eapply FR_trans; eassumption).
    repeat dm; cbn [r_s]; exact H.
  Qed.

  Lemma ping_extension_FR s o : FR s (ping_extension s o).
  Proof.
    unfold Model.ping_extension.
    destruct (match op_packet o with Subscribe _ | Unsubscribe _ => op_ext o | Publish pb => if pub_qos pb =? 0 then None else op_ext o | _ => None end) as [b|];
      [|apply FR_refl].
    destruct (s_settings s) as [st|]; [|apply FR_refl]. destruct (s_next_ping s) as [np|] eqn:En; [|apply FR_refl].
    destruct (np <? _) eqn:E; [|apply FR_refl].
    apply FR_sub; auto. constructor; cbn; auto. rewrite En. cbn. eexists. split; [reflexivity|slia].
  Qed.

  Lemma succeed_op_FR s id resp : FR s (r_s (succeed_op s id resp)).
  Proof.
    unfold Model.succeed_op. destruct (lookup id (s_ops s)) as [o|]; [|apply FR_refl].
    destruct (release s id o) as [s1| |] eqn:Er; [|apply FR_refl..].
    pose proof (release_FR _ _ _ _ Er) as H1. pose proof (ping_extension_FR s1 o) as H2.
    pose proof (disconnect_completion_FR (ping_extension s1 o) o) as H3.
    destruct (disconnect_completion (ping_extension s1 o) o) as [s2 r]. cbn [fst] in H3.
    assert (H : FR s s2) by (eapply FR_trans; [exact H1|eapply FR_trans; eassumption]).
    repeat dm; cbn [r_s]; exact H.
  Qed.

  (* sequencing, for any preorder *)
  Section Seq.
    Variable R : state -> state -> Prop.
    Hypothesis R_refl : forall s, R s s.
    Hypothesis R_trans : forall a b c, R a b -> R b c -> R a c.

    Lemma andthen_R s (r : res) f : R s (r_s r) -> (forall s1, R s1 (r_s (f s1))) -> R s (r_s (andthen r f)).
    Proof.
      intros H1 Hf. unfold Model.andthen. destruct (is_panic (r_out r)); [exact H1|].
      specialize (Hf (r_s r)). destruct (is_panic _); cbn [r_s]; eapply R_trans; eassumption.
    Qed.

    Lemma try_R s (r : res) f : R s (r_s r) -> (forall s1, R s1 (r_s (f s1))) -> R s (r_s (try_ r f)).
    Proof.
      intros H1 Hf. unfold Model.try_. destruct (r_out r); cbn [r_s]; [|exact H1..]. eapply R_trans; [exact H1|apply Hf].
    Qed.

    Lemma fail_all_R ids : (forall s id e, R s (r_s (fail_op s id e))) -> forall s e, R s (r_s (fail_all s ids e)).
    Proof.
      intros Hf. induction ids as [|id rest IH]; intros s e; [apply R_refl|].
      change (fail_all s (id :: rest) e) with (andthen (fail_op s id e) (fun s' => fail_all s' rest e)).
      apply andthen_R; [apply Hf|intros s1; apply IH].
    Qed.

    Lemma succeed_all_R ids : (forall s id resp, R s (r_s (succeed_op s id resp))) -> forall s, R s (r_s (succeed_all s ids)).
    Proof.
      intros Hf. induction ids as [|id rest IH]; intros s; [apply R_refl|].
      change (succeed_all s (id :: rest)) with (andthen (succeed_op s id None) (fun s' => succeed_all s' rest)).
      apply andthen_R; [apply Hf|intros s1; apply IH].
    Qed.
  End Seq.

  Lemma fail_all_FR ids s e : FR s (r_s (fail_all s ids e)).
  Proof. apply (fail_all_R FR FR_refl FR_trans). apply fail_op_FR. Qed.
  Lemma succeed_all_FR ids s : FR s (r_s (succeed_all s ids)).
  Proof. apply (succeed_all_R FR FR_refl FR_trans). apply succeed_op_FR. Qed.

  (* ---- a new operation ---- *)
  Lemma create_FR s o : fresh_op o -> FR s (fst (create_operation s o)).
  Proof.
    intros Hf. unfold Model.create_operation. cbn [fst]. split; [|apply KR_view; reflexivity].
    constructor; cbn; auto. split; [cbn; slia|]. intros i o'. cbn. rewrite lookup_app.
    destruct (lookup i (s_ops s)) as [v|] eqn:E.
    - intros H. inversion H; subst. left. exists o'. split; [reflexivity|apply tsame_refl].
    - cbn [lookup]. destruct (s_next_id s =? i) eqn:E2; [|discriminate]. intros H. inversion H; subst. right. split; [slia|exact Hf].
  Qed.

  (* ---- rewriting operations in place ---- *)
  Lemma lookup_fold_upd (R : op -> op -> Prop) (f : op -> op) ids :
    (forall o, R o o) -> (forall a b c, R a b -> R b c -> R a c) -> (forall o, R o (f o)) ->
    forall l i o', lookup i (fold_left (fun ops id => update id f ops) ids l) = Some o' -> exists o, lookup i l = Some o /\ R o o'.
  Proof.
    intros Hr Ht Hf. induction ids as [|a r IH]; intros l i o'; cbn [fold_left]; [eauto|].
    intros H. destruct (IH _ _ _ H) as (o1 & H1 & R1).
    destruct (lookup_update_inv _ _ _ _ _ H1) as (o & Ho & [[_ ->]|[_ ->]]); exists o; split; auto.
    eapply Ht; [apply Hf|exact R1].
  Qed.

  (* everything but the operation table as in [s]; operations rewritten keeping the timer fields *)
  Lemma FR_ops s s' :
    (forall i o', lookup i (s_ops s') = Some o' -> exists o, lookup i (s_ops s) = Some o /\ tsame o o') ->
    (s_tmo s', s_next_id s', s_ppub s', s_pnon s', s_st s', s_settings s', s_ping_to s', s_next_ping s') =
    (s_tmo s, s_next_id s, s_ppub s, s_pnon s, s_st s, s_settings s, s_ping_to s, s_next_ping s) -> FR s s'.
  Proof.
    intros Ho H. repeat (apply pair_equal_spec in H; destruct H as [H ?]).
    split; constructor; try (left; assumption); try assumption.
    - split; [slia|]. intros i o' Hl. left. auto.
    - intros x. congruence.
    - intros x. congruence.
    - replace (s_next_ping s') with (s_next_ping s). apply np_mono_refl.
  Qed.

  Lemma FR_update s s' id f : (forall o, tsame o (f o)) -> s_ops s' = update id f (s_ops s) ->
    (s_tmo s', s_next_id s', s_ppub s', s_pnon s', s_st s', s_settings s', s_ping_to s', s_next_ping s') =
    (s_tmo s, s_next_id s, s_ppub s, s_pnon s, s_st s, s_settings s, s_ping_to s, s_next_ping s) -> FR s s'.
  Proof.
    intros Hf Eo. apply FR_ops. intros i o'. rewrite Eo. intros H.
    destruct (lookup_update_inv _ _ _ _ _ H) as (o & Ho & [[_ ->]|[_ ->]]); exists o; split; auto. apply tsame_refl.
  Qed.

  Lemma FR_fold s s' ids f : (forall o, tsame o (f o)) -> s_ops s' = fold_left (fun ops id => update id f ops) ids (s_ops s) ->
    (s_tmo s', s_next_id s', s_ppub s', s_pnon s', s_st s', s_settings s', s_ping_to s', s_next_ping s') =
    (s_tmo s, s_next_id s, s_ppub s, s_pnon s, s_st s, s_settings s, s_ping_to s, s_next_ping s) -> FR s s'.
  Proof.
    intros Hf Eo. apply FR_ops. intros i o'. rewrite Eo. apply (lookup_fold_upd tsame f ids tsame_refl tsame_trans Hf).
  Qed.

  Lemma tsame_set_dup v o : tsame o (set_dup v o).
  Proof. unfold set_dup, tsame. destruct (op_packet o); cbn; tauto. Qed.
  Lemma tsame_set_ss v o : tsame o (set_ss v o).
  Proof. unfold set_ss, tsame. cbn. tauto. Qed.

  (* ---- submission, connection opened, write completion ---- *)
  Lemma user_event_FR s p t : FR s (r_s (user_event s p t)).
  Proof.
    unfold Model.user_event.
    set (o := new_op p (negb (is_disconnect p)) (if is_disconnect p then None else t)).
    pose proof (create_FR s o (conj eq_refl eq_refl)) as Hc. destruct (create_operation s o) as [s1 id]. cbn [fst] in Hc.
    destruct (negb (passes_now s1 p)); [cbn [r_s]; eapply FR_trans; [exact Hc|apply fail_op_FR]|].
    destruct (is_disconnect p); cbn [Model.pure r_s]; (eapply FR_trans; [exact Hc|frv]).
  Qed.

  Lemma NW_view s s' : (s_ops s', s_tmo s', s_next_id s', s_ppub s', s_pnon s') = (s_ops s, s_tmo s, s_next_id s, s_ppub s, s_pnon s) -> NW s s'.
  Proof.
    intros H. repeat (apply pair_equal_spec in H; destruct H as [H ?]). constructor; auto.
    - split; [slia|]. intros i o' Hl. left. exists o'. split; [congruence|apply tsame_refl].
    - intros x. congruence.
    - intros x. congruence.
  Qed.

  (* a connection is opened: the protocol state moves to PendingConnack, nothing else of the views *)
  Lemma net_opened_NW s d : NW s (r_s (net_opened s d)) /\
    s_settings (r_s (net_opened s d)) = s_settings s /\ s_ping_to (r_s (net_opened s d)) = s_ping_to s /\
    s_next_ping (r_s (net_opened s d)) = s_next_ping s /\
    ((s_st s = Disconnected /\ s_st (r_s (net_opened s d)) = PendingConnack) \/ s_st (r_s (net_opened s d)) = Halted).
  Proof.
    unfold Model.net_opened. destruct (pstate_eqb (s_st s) Disconnected) eqn:Est; cbn [negb].
    2:{ cbn [r_s]. split; [apply NW_view; reflexivity|cbn; tauto]. }
    match goal with |- context [create_operation ?s1 ?o] =>
      pose proof (create_FR s1 o (conj eq_refl eq_refl)) as [Hc Hk]; destruct (create_operation s1 o) as [s2 id] eqn:Ec end.
    cbn [fst] in Hc, Hk. cbn [Model.pure r_s]. destruct Hc as [C1 C2 C3 C4]. destruct Hk as [_ K2 _ _].
    assert (Est' : s_st s = Disconnected) by (destruct (s_st s); cbn in Est; try discriminate; reflexivity).
    unfold Model.create_operation in Ec. inversion Ec; subst s2 id. clear Ec.
    split; [|cbn; tauto]. constructor; cbn in *; auto.
  Qed.

  Lemma net_write_completion_FR s : FR s (r_s (net_write_completion s)).
  Proof.
    unfold Model.net_write_completion. dm; [cbn [r_s]; apply FR_refl|].
    dm; [cbn [r_s]; apply FR_sub; auto; constructor; cbn; auto; apply np_mono_refl|].
    eapply FR_from; [|apply succeed_all_FR]. reflexivity.
  Qed.

  Lemma halt_on_error_FR s r : FR s (halt_on_error s r).
  Proof. destruct r; cbn [Model.halt_on_error]; [apply FR_refl| |]; (apply FR_sub; auto; constructor; cbn; auto; apply np_mono_refl). Qed.

  (* ---- packet ids ---- *)
  Lemma acquire_pid_for_FR s id s' : acquire_pid_for s id = Ok s' -> FR s s'.
  Proof.
    unfold Model.acquire_pid_for. destruct (lookup id (s_ops s)) as [o|] eqn:El; [|discriminate].
    destruct (op_pid o) eqn:Ep; [intros H; inversion H; apply FR_refl|].
    destruct (negb (needs_pid (op_packet o))); [intros H; inversion H; apply FR_refl|].
    destruct (acquire_free_pid s id) as [[s1 pid]| |] eqn:Ea; cbn [obind]; try discriminate.
    assert (H1 : fv s1 = fv s) by (revert Ea; unfold Model.acquire_free_pid; repeat dm; intros H; inversion H; subst; reflexivity).
    destruct (with_pid pid (op_packet o)) as [p'| |] eqn:Ew; cbn [obind]; try discriminate.
    intros H; inversion H; subst. eapply FR_from; [exact H1|].
    eapply FR_update; [|cbn; reflexivity|reflexivity]. intros o0. unfold tsame. cbn. tauto.
  Qed.

  Lemma unbind_FR s id : FR s (unbind s id).
  Proof.
    unfold Model.unbind. destruct (lookup id (s_ops s)) as [o|]; [|apply FR_refl].
    match goal with |- FR s (set s_ops ?f ?s1) => assert (H1 : FR s s1) end.
    { destruct (op_pid o); [|apply FR_refl]. destruct (with_pid 0 (op_packet o)); try apply FR_refl.
      eapply FR_update; [|cbn; reflexivity|reflexivity]. intros o0. unfold tsame. cbn. tauto. }
    eapply FR_trans; [exact H1|]. eapply FR_update; [|cbn; reflexivity|reflexivity]. intros o0. unfold tsame. cbn. tauto.
  Qed.

  Lemma fold_unbind_FR ids : forall s, FR s (fold_left unbind ids s).
  Proof. induction ids as [|a r IH]; intros s; cbn [fold_left]; [apply FR_refl|]. eapply FR_trans; [apply unbind_FR|apply IH]. Qed.

  Lemma dequeue_fv s m : fv (fst (dequeue s m)) = fv s.
  Proof. unfold Model.dequeue. repeat dm; reflexivity. Qed.

  (* ---- seating an operation ---- *)
  Lemma seat_current_FR s m acc dn :
    match seat_current s m acc dn with
    | Model.SeatStop _ _ _ _ r => FR s (sr_s r)
    | Model.SeatContinue _ _ _ _ s5 _ => FR s s5
    | Model.SeatEncode _ _ _ _ s5 => FR s s5
    end.
  Proof.
    unfold Model.seat_current. destruct (s_cur s); [apply FR_refl|].
    destruct (dequeue s m) as [s1 next] eqn:Ed.
    pose proof (dequeue_fv s m) as Hv. rewrite Ed in Hv. cbn [fst] in Hv.
    assert (H1 : FR s s1) by (apply FR_view; exact Hv).
    destruct next as [id|]; [|exact H1].
    destruct (negb (op_exists (s1 <| s_cur := Some id |>) id)); [eapply FR_trans; [exact H1|frv]|].
    destruct (acquire_pid_for (s1 <| s_cur := Some id |>) id) as [s3| |] eqn:Ea;
      [|cbn [sr_s]; eapply FR_trans; [exact H1|frv]..].
    assert (H3 : FR s s3).
    { eapply FR_trans; [exact H1|]. eapply FR_from; [|eapply acquire_pid_for_FR; exact Ea]. reflexivity. }
    destruct (lookup id (s_ops s3)) as [o|] eqn:El; [|exact H3].
    match goal with |- context [match ?res with Ok _ => _ | Err _ => _ | Panic _ => _ end] =>
      assert (Hres : forall s4 r, res = Ok (s4, r) -> fv s4 = fv s3);
      [|destruct res as [[s4 r]| |] eqn:Eres] end.
    { intros s4 r. unfold obind. repeat dm; intros H; inversion H; subst; reflexivity. }
    2,3: exact H3.
    assert (H4 : FR s s4) by (eapply FR_trans; [exact H3|apply FR_view; apply (Hres s4 r eq_refl)]).
    match goal with |- context [v_out ?a ?b ?c ?d] => destruct (v_out a b c d) as [[]|k|site] eqn:Ev end.
    - destruct (enc_reset _ _ _); [|exact H4..]. eapply FR_trans; [exact H4|frv].
    - match goal with |- context [fail_op ?sx id k] => set (s4' := sx) end.
      assert (H4' : FR s s4').
      { eapply FR_trans; [exact H4|]. unfold s4'. destruct (r_alias r); frv. }
      pose proof (fail_op_FR s4' id k) as Hf.
      destruct (r_out (fail_op s4' id k)); cbn [sr_s]; eapply FR_trans; eassumption.
    - exact H4.
  Qed.

  (* ---- keep-alive: a PINGREQ operation may be created; the heap and the tables are untouched ---- *)
  Lemma service_keep_alive_NW s now s' : service_keep_alive s now = Ok s' -> NW s s'.
  Proof.
    unfold Model.service_keep_alive. destruct (s_ping_to s); [dm; [discriminate|intros H; inversion H; apply NW_refl]|].
    destruct (s_next_ping s); [|intros H; inversion H; apply NW_refl].
    dm; [|intros H; inversion H; apply NW_refl].
    match goal with |- context [create_operation ?s1 ?o] =>
      pose proof (create_FR s1 o (conj eq_refl eq_refl)) as [Hc _]; destruct (create_operation s1 o) as [s2 id] eqn:Ec end.
    cbn [fst] in Hc. destruct Hc as [C1 C2 C3 C4].
    destruct (s_settings _); [|discriminate]. unfold add_time. dm; cbn [obind]; [discriminate|].
    dm; intros H; inversion H; subst; constructor; cbn; auto.
  Qed.
End Defs.
