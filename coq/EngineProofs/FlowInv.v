(* C09, part 2: the flow invariant and the packet-id facts it relies on.

   [flow_m m s] is the invariant with the protocol state passed separately ([flow_inv s] is
   [flow_m (s_st s) s]), so that helpers which switch the state to Halted / PendingDisconnect on
   the way need no special treatment:
     - operation ids increasing and below the counter; keys of s_ppub and s_alloc increasing;
     - the current operation's id is below the counter;
     - count (Connected): len s_ppub + extra <= receive maximum, where extra = 1 iff the current
       operation is a QoS>0 publish whose packet id is not (yet) a key of s_ppub;
     - offline (Disconnected / PendingConnack): the current operation and the operations of the
       high-priority queue are not QoS>0 publishes.
   [pid_facts s] are the well-formedness facts needed during service (proved by the engine
   well-formedness development, not here):
     - pf_alloc: an existing operation bound to packet id p is the owner of p in s_alloc
       (hence packet ids are unique among existing operations)           [WF: W5]
     - pf_hq: an existing QoS>0 publish in s_hq is bound to a packet id, carries it in its packet,
       and that id is a key of s_ppub (it is a PUBREL carrier)            [WF: W10 + W3] *)
From GM Require Import Base.Prelude Base.Outcome Codec.Packets Codec.Settings Engine.Model.
From GM Require Import EngineProofs.AssocLemmas EngineProofs.PacketIds EngineProofs.IdsFrame EngineProofs.Flow.
From RecordUpdate Require Import RecordSet.
From Coq Require Import Sorting.Sorted.
Import RecordSetNotations.
Open Scope N_scope.

Definition ppid (p : packet) : N :=
  match p with Publish pb => pub_pid pb | Subscribe x => s_pid x | Unsubscribe x => u_pid x | _ => 0 end.
Definition haskey (k : N) (l : list (N * N)) : bool := match lookup k l with Some _ => true | None => false end.
Definition offline (st : pstate) : Prop := st = Disconnected \/ st = PendingConnack.

Lemma haskey_remove k p l : haskey k (remove p l) = if k =? p then false else haskey k l.
Proof.
  unfold haskey. destruct (k =? p) eqn:E.
  - assert (k = p) by lia. subst. rewrite lookup_remove_eq. reflexivity.
  - rewrite lookup_remove_neq by lia. reflexivity.
Qed.

Lemma haskey_insert k p v l : haskey k (insert p v l) = if k =? p then true else haskey k l.
Proof.
  unfold haskey. destruct (k =? p) eqn:E.
  - assert (k = p) by lia. subst. rewrite lookup_insert_eq. reflexivity.
  - rewrite lookup_insert_neq by lia. reflexivity.
Qed.

Lemma haskey_in k (l : list (N * N)) : haskey k l = true <-> In k (keys l).
Proof.
  unfold haskey. split.
  - destruct (lookup k l) eqn:E; [|discriminate]. intros _. eapply lookup_in_keys. exact E.
  - intros H. destruct (in_keys_lookup _ _ H) as (v & ->). reflexivity.
Qed.

Lemma len_remove_present k (l : list (N * N)) : haskey k l = true -> len (remove k l) + 1 <= len l.
Proof.
  unfold haskey, len. induction l as [|[a b] r IH]; cbn [lookup remove length]; [discriminate|].
  destruct (a =? k) eqn:E.
  - intros _. pose proof (length_remove_le k r). lia.
  - intros H. specialize (IH H). cbn [length]. lia.
Qed.

Lemma len_remove_le k (l : list (N * N)) : len (remove k l) <= len l.
Proof. unfold len. pose proof (length_remove_le k l). lia. Qed.

Lemma remove_absent k (l : list (N * N)) : haskey k l = false -> remove k l = l.
Proof.
  intros H. apply remove_not_in. intros Hin. apply haskey_in in Hin. congruence.
Qed.

Lemma len_insert_present k v (l : list (N * N)) : inc (keys l) -> haskey k l = true -> len (insert k v l) = len l.
Proof. intros Hi Hk. unfold len. rewrite length_insert_present; [reflexivity|apply haskey_in; exact Hk|exact Hi]. Qed.

Lemma len_insert_le k v (l : list (N * N)) : len (insert k v l) <= len l + 1.
Proof. unfold len. pose proof (length_insert_le k v l). lia. Qed.

Lemma lookup_app_new {A} (l : list (N * A)) n x id y :
  lookup id (l ++ [(n, x)]) = Some y -> lookup id l = Some y \/ (id = n /\ y = x /\ lookup id l = None).
Proof.
  induction l as [|[a b] r IH]; cbn [app lookup].
  - destruct (n =? id) eqn:E; [|discriminate]. intros H. inversion H. right. repeat split; lia.
  - destruct (a =? id); [left; assumption|exact IH].
Qed.

Lemma lookup_app_old {A} (l : list (N * A)) n x id : id <> n -> lookup id (l ++ [(n, x)]) = lookup id l.
Proof.
  intros Hne. induction l as [|[a b] r IH]; cbn [app lookup].
  - destruct (n =? id) eqn:E; [lia|reflexivity].
  - destruct (a =? id); [reflexivity|exact IH].
Qed.

Set Default Proof Using "Type".
Section Engine.
  Variable enc : Type.
  Variable enc_reset : version -> packet -> resolution -> outcome enc.
  Variable enc_call : enc -> N -> N -> outcome (bytes * enc).
  Variable enc_done : enc -> bool.
  Variable dec : Type.
  Variable dec_init : dec.
  Variable dec_feed : version -> N -> dec -> bytes -> dec * list packet * outcome unit.
  Variable ores : Type.
  Variable ores_reset : ores -> N -> ores.
  Variable ores_resolve : ores -> option N -> bytes -> outcome (ores * resolution).
  Variable ires : Type.
  Variable ires_reset : ires -> ires.
  Variable ires_resolve : ires -> option N -> bytes -> outcome (ires * bytes).
  Variable v_out : option settings -> connect_opts -> resolution -> packet -> outcome unit.
  Variable v_in : option settings -> packet -> outcome unit.
  Variable cfg : config.

  Notation state := (Model.state enc dec ores ires).
  Notation init := (Model.init enc dec dec_init ores ires).
  Notation res := (Model.res enc dec ores ires).
  Notation release := (Model.release enc dec ores ires cfg).
  Notation disconnect_completion := (Model.disconnect_completion enc dec ores ires).
  Notation fail_op := (Model.fail_op enc dec ores ires cfg).
  Notation ping_extension := (Model.ping_extension enc dec ores ires).
  Notation succeed_op := (Model.succeed_op enc dec ores ires cfg).
  Notation fail_all := (Model.fail_all enc dec ores ires cfg).
  Notation succeed_all := (Model.succeed_all enc dec ores ires cfg).
  Notation andthen := (Model.andthen enc dec ores ires).
  Notation try_ := (Model.try_ enc dec ores ires).
  Notation pure := (Model.pure enc dec ores ires).
  Notation create_operation := (Model.create_operation enc dec ores ires).
  Notation passes_now := (Model.passes_now enc dec ores ires cfg).
  Notation user_event := (Model.user_event enc dec ores ires cfg).
  Notation create_connect := (Model.create_connect enc dec ores ires cfg).
  Notation net_opened := (Model.net_opened enc dec dec_init ores ires cfg).
  Notation op_exists := (Model.op_exists enc dec ores ires).
  Notation op_passes := (Model.op_passes enc dec ores ires cfg).
  Notation partition_policy := (Model.partition_policy enc dec ores ires cfg).
  Notation closed_current := (Model.closed_current enc dec ores ires cfg).
  Notation slow_start_init := (Model.slow_start_init enc dec ores ires cfg).
  Notation update_retries := (Model.update_retries enc dec ores ires cfg).
  Notation fail_exceeding := (Model.fail_exceeding enc dec ores ires cfg).
  Notation has_pubrel := (Model.has_pubrel enc dec ores ires).
  Notation net_closed_raw := (Model.net_closed_raw enc dec ores ires cfg).
  Notation net_closed := (Model.net_closed enc dec ores ires cfg).
  Notation net_write_completion := (Model.net_write_completion enc dec ores ires cfg).
  Notation acquire_free_pid := (Model.acquire_free_pid enc dec ores ires).
  Notation acquire_pid_for := (Model.acquire_pid_for enc dec ores ires).
  Notation unbind := (Model.unbind enc dec ores ires).
  Notation passes_receive_max := (Model.passes_receive_max enc dec ores ires).
  Notation throttled := (Model.throttled enc dec ores ires cfg).
  Notation has_pending_ack := (Model.has_pending_ack enc dec ores ires).
  Notation dequeue := (Model.dequeue enc dec ores ires cfg).
  Notation fully_written := (Model.fully_written enc dec ores ires).
  Notation sres := (Model.sres enc dec ores ires).
  Notation seat := (Model.seat enc dec ores ires).
  Notation seat_current := (Model.seat_current enc enc_reset dec ores ores_reset ores_resolve ires v_out cfg).
  Notation service_loop := (Model.service_loop enc enc_reset enc_call enc_done dec ores ores_reset ores_resolve ires v_out cfg).
  Notation service_queue := (Model.service_queue enc enc_reset enc_call enc_done dec ores ores_reset ores_resolve ires v_out cfg).
  Notation service_keep_alive := (Model.service_keep_alive enc dec ores ires cfg).
  Notation process_ack_timeouts := (Model.process_ack_timeouts enc dec ores ires cfg).
  Notation halt_on_error := (Model.halt_on_error enc dec ores ires).
  Notation service := (Model.service enc enc_reset enc_call enc_done dec ores ores_reset ores_resolve ires v_out cfg).
  Notation earliest_tmo := (Model.earliest_tmo enc dec ores ires).
  Notation nst_queue := (Model.nst_queue enc dec ores ires cfg).
  Notation next_service_time := (Model.next_service_time enc dec ores ires cfg).
  Notation build_settings := (Model.build_settings enc dec ores ires cfg).
  Notation apply_session := (Model.apply_session enc dec ores ires cfg).
  Notation hres := (Model.hres enc dec ores ires).
  Notation hres_of := (Model.hres_of enc dec ores ires).
  Notation pre_connack := (Model.pre_connack enc dec ores ires).
  Notation sum_ss := (Model.sum_ss enc dec ores ires).
  Notation handle_connack := (Model.handle_connack enc dec ores ores_reset ires ires_reset v_in cfg).
  Notation handle_pingresp := (Model.handle_pingresp enc dec ores ires).
  Notation handle_suback := (Model.handle_suback enc dec ores ires cfg).
  Notation handle_unsuback := (Model.handle_unsuback enc dec ores ires cfg).
  Notation publish_qos_of := (Model.publish_qos_of enc dec ores ires).
  Notation handle_puback := (Model.handle_puback enc dec ores ires cfg).
  Notation handle_pubrec := (Model.handle_pubrec enc dec ores ires cfg).
  Notation handle_pubrel := (Model.handle_pubrel enc dec ores ires).
  Notation handle_pubcomp := (Model.handle_pubcomp enc dec ores ires cfg).
  Notation handle_publish := (Model.handle_publish enc dec ores ires).
  Notation handle_disconnect := (Model.handle_disconnect enc dec ores ires cfg).
  Notation handle_packet := (Model.handle_packet enc dec ores ores_reset ires ires_reset v_in cfg).
  Notation handle_packets := (Model.handle_packets enc dec ores ores_reset ires ires_reset ires_resolve v_in cfg).
  Notation is_connect_op := (Model.is_connect_op enc dec ores ires).
  Notation connect_in_queue := (Model.connect_in_queue enc dec ores ires).
  Notation max_incoming_size := (Model.max_incoming_size cfg).
  Notation net_data := (Model.net_data enc dec dec_feed ores ores_reset ires ires_reset ires_resolve v_in cfg).
  Notation reset := (Model.reset enc dec ores ires cfg).
  Notation out_of_res := (Model.out_of_res enc dec ores ires).
  Notation step := (Model.step enc enc_reset enc_call enc_done dec dec_init dec_feed ores ores_reset ores_resolve ires ires_reset ires_resolve v_out v_in cfg).
  Notation run := (Model.run enc enc_reset enc_call enc_done dec dec_init dec_feed ores ores_reset ores_resolve ires ires_reset ires_resolve v_out v_in cfg).
  Notation SeatStop := (Model.SeatStop enc dec ores ires).
  Notation SeatContinue := (Model.SeatContinue enc dec ores ires).
  Notation SeatEncode := (Model.SeatEncode enc dec ores ires).
  Notation mkState := (Model.mkState enc dec ores ires).
  (* lia generalises over every hypothesis mentioning N, including the Section variables: clear them first *)
  Ltac slia := try clear v_in; try clear v_out; try clear ires_resolve; try clear ires_reset; try clear ores_resolve;
    try clear ores_reset; try clear dec_feed; try clear dec_init; try clear enc_done; try clear enc_call; try clear enc_reset; lia.
  Ltac dm := match goal with
    | |- context [match ?x with _ => _ end] => destruct x eqn:?
    end.

  Definition extra (s : state) : N :=
    match s_cur s with
    | Some id =>
        match lookup id (s_ops s) with
        | Some o => if qpub (op_packet o) && negb (haskey (ppid (op_packet o)) (s_ppub s)) then 1 else 0
        | None => 0
        end
    | None => 0
    end.

  Lemma extra_le_1 s : extra s <= 1.
  Proof. unfold extra. repeat dm; slia. Qed.

  Record flow_m (m : pstate) (s : state) : Prop := {
    fl_ids : ids_ok (s_ops s, s_next_id s);
    fl_ppub : inc (keys (s_ppub s));
    fl_alloc : inc (keys (s_alloc s));
    fl_cur : forall id, s_cur s = Some id -> id < s_next_id s;
    fl_count : m = Connected ->
               exists st, s_settings s = Some st /\ len (s_ppub s) + extra s <= st_receive_maximum_from_server st;
    fl_off : offline m -> forall id, s_cur s = Some id \/ In id (s_hq s) ->
               id < s_next_id s /\ forall o, lookup id (s_ops s) = Some o -> qpub (op_packet o) = false }.

  Definition flow_inv (s : state) : Prop := flow_m (s_st s) s.

  Record pid_facts (s : state) : Prop := {
    pf_alloc : forall id o p, lookup id (s_ops s) = Some o -> op_pid o = Some p -> lookup p (s_alloc s) = Some id;
    pf_hq : forall id o, In id (s_hq s) -> lookup id (s_ops s) = Some o -> qpub (op_packet o) = true ->
              exists p, op_pid o = Some p /\ ppid (op_packet o) = p /\ haskey p (s_ppub s) = true }.

  (* ---- structural lemmas ---- *)
  Lemma flow_weaken m m' s : flow_m m s -> (m' = m \/ (m' <> Connected /\ ~ offline m')) -> flow_m m' s.
  Proof.
    intros [H1 H2 H3 H4 H5 H6] [->|[Hc Ho]]; [constructor; assumption|].
    constructor; try assumption; [intros; contradiction|intros; contradiction].
  Qed.

  Lemma flow_halted m s : flow_m m s -> flow_m Halted s.
  Proof. intros H. apply (flow_weaken m). exact H. right. split; [discriminate|]. intros [?|?]; discriminate. Qed.

  Lemma flow_pdisc m s : flow_m m s -> flow_m PendingDisconnect s.
  Proof. intros H. apply (flow_weaken m). exact H. right. split; [discriminate|]. intros [?|?]; discriminate. Qed.

  (* only these fields matter (the high-priority queue may shrink) *)
  Lemma flow_same m (s s' : state) :
    s_ops s' = s_ops s -> s_next_id s' = s_next_id s -> s_ppub s' = s_ppub s -> s_alloc s' = s_alloc s ->
    s_cur s' = s_cur s -> (forall id, In id (s_hq s') -> In id (s_hq s)) -> s_settings s' = s_settings s ->
    flow_m m s -> flow_m m s'.
  Proof.
    intros Ho Hn Hp Ha Hc Hq Hs [H1 H2 H3 H4 H5 H6].
    constructor; unfold extra in *; rewrite ?Ho, ?Hn, ?Hp, ?Ha, ?Hc, ?Hs in *; try assumption.
    intros Hoff id [Hid|Hid]; apply (H6 Hoff); [left; exact Hid|right; apply Hq; exact Hid].
  Qed.

  Lemma flow_clear_cur m (s s' : state) :
    s_ops s' = s_ops s -> s_next_id s' = s_next_id s -> s_ppub s' = s_ppub s -> s_alloc s' = s_alloc s ->
    s_cur s' = None -> (forall id, In id (s_hq s') -> In id (s_hq s)) -> s_settings s' = s_settings s ->
    flow_m m s -> flow_m m s'.
  Proof.
    intros Ho Hn Hp Ha Hc Hq Hs [H1 H2 H3 H4 H5 H6].
    constructor; unfold extra in *; rewrite ?Ho, ?Hn, ?Hp, ?Ha, ?Hc, ?Hs in *; try assumption.
    - intros id Hid. discriminate.
    - intros Hm. destruct (H5 Hm) as (st & Hst & Hle). exists st. split; [exact Hst|]. slia.
    - intros Hoff id [Hid|Hid]; [discriminate|]. apply (H6 Hoff). right. apply Hq. exact Hid.
  Qed.

  Lemma pid_same (s s' : state) :
    s_ops s' = s_ops s -> s_alloc s' = s_alloc s -> s_ppub s' = s_ppub s ->
    (forall id, In id (s_hq s') -> In id (s_hq s)) -> pid_facts s -> pid_facts s'.
  Proof.
    intros Ho Ha Hp Hq [H1 H2]. constructor; rewrite ?Ho, ?Ha, ?Hp; [exact H1|].
    intros id o Hin. apply H2. apply Hq. exact Hin.
  Qed.

  (* packet-id uniqueness among existing operations *)
  Lemma pid_unique s id1 id2 o1 o2 p : pid_facts s ->
    lookup id1 (s_ops s) = Some o1 -> lookup id2 (s_ops s) = Some o2 -> op_pid o1 = Some p -> op_pid o2 = Some p -> id1 = id2.
  Proof.
    intros [Ha _] H1 H2 P1 P2. pose proof (Ha _ _ _ H1 P1) as E1. pose proof (Ha _ _ _ H2 P2) as E2. congruence.
  Qed.

  (* ---- removing an operation (release) ---- *)
  Lemma release_core s id o s1 : release s id o = Ok s1 ->
    s_ops s1 = remove id (s_ops s) /\
    s_ppub s1 = match op_pid o with Some p => remove p (s_ppub s) | None => s_ppub s end /\
    s_alloc s1 = match op_pid o with Some p => remove p (s_alloc s) | None => s_alloc s end /\
    s_cur s1 = s_cur s /\ s_hq s1 = s_hq s /\ s_settings s1 = s_settings s /\ s_next_id s1 = s_next_id s /\ s_st s1 = s_st s.
  Proof.
    unfold Model.release. destruct (op_pid o); cbn; repeat dm; intros H; inversion H; subst; cbn; repeat split; reflexivity.
  Qed.

  Lemma flow_removed m (s s1 : state) id (pid : option N) :
    s_ops s1 = remove id (s_ops s) ->
    s_ppub s1 = match pid with Some p => remove p (s_ppub s) | None => s_ppub s end ->
    s_alloc s1 = match pid with Some p => remove p (s_alloc s) | None => s_alloc s end ->
    s_cur s1 = s_cur s -> s_hq s1 = s_hq s -> s_settings s1 = s_settings s -> s_next_id s1 = s_next_id s ->
    flow_m m s -> flow_m m s1.
  Proof.
    intros Ho Hp Ha Hc Hq Hs Hn [H1 H2 H3 H4 H5 H6].
    assert (Hsub : forall k x, lookup k (s_ops s1) = Some x -> lookup k (s_ops s) = Some x).
    { intros k x. rewrite Ho. apply ops_sub_remove. }
    constructor.
    - rewrite Ho, Hn. apply ids_ok_remove. exact H1.
    - rewrite Hp. destruct pid; [apply inc_remove|]; exact H2.
    - rewrite Ha. destruct pid; [apply inc_remove|]; exact H3.
    - intros k. rewrite Hc, Hn. apply H4.
    - intros Hm. destruct (H5 Hm) as (st & Hst & Hle). exists st. rewrite Hs. split; [exact Hst|].
      (* extra without the removed key *)
      assert (Hx : forall pp, extra (s <| s_ops := remove id (s_ops s) |> <| s_ppub := pp |>) <= 1) by (intros; apply extra_le_1).
      assert (Hsame : s_ppub s1 = s_ppub s -> extra s1 <= extra s).
      { intros E. unfold extra. rewrite Hc, E. destruct (s_cur s) as [c|]; [|slia].
        destruct (lookup c (s_ops s1)) as [x|] eqn:El; [rewrite (Hsub _ _ El); slia|]. repeat dm; slia. }
      destruct pid as [p|]; [|specialize (Hsame Hp); rewrite Hp; slia].
      destruct (haskey p (s_ppub s)) eqn:Ek.
      + pose proof (len_remove_present _ _ Ek). pose proof (extra_le_1 s1). rewrite Hp. slia.
      + rewrite (remove_absent _ _ Ek) in Hp. specialize (Hsame Hp). rewrite Hp. slia.
    - intros Hoff k Hk. rewrite Hc, Hq in Hk. destruct (H6 Hoff k Hk) as [Hlt Hcl]. rewrite Hn. split; [exact Hlt|].
      intros x Hl. apply Hcl. apply Hsub. exact Hl.
  Qed.

  Lemma flow_release m s id o s1 : release s id o = Ok s1 -> flow_m m s -> flow_m m s1.
  Proof.
    intros Hr. destruct (release_core _ _ _ _ Hr) as (Ho & Hp & Ha & Hc & Hq & Hs & Hn & _).
    eapply flow_removed with (pid := op_pid o); eassumption.
  Qed.

  Lemma disconnect_completion_core s o :
    let s' := fst (disconnect_completion s o) in
    s_ops s' = s_ops s /\ s_next_id s' = s_next_id s /\ s_ppub s' = s_ppub s /\ s_alloc s' = s_alloc s /\
    s_cur s' = s_cur s /\ s_hq s' = s_hq s /\ s_settings s' = s_settings s /\ (s_st s' = s_st s \/ s_st s' = Halted).
  Proof. unfold Model.disconnect_completion. repeat dm; cbn; repeat split; auto. Qed.

  Lemma flow_eq m (s s' : state) :
    s_ops s' = s_ops s -> s_next_id s' = s_next_id s -> s_ppub s' = s_ppub s -> s_alloc s' = s_alloc s ->
    s_cur s' = s_cur s -> s_hq s' = s_hq s -> s_settings s' = s_settings s -> flow_m m s -> flow_m m s'.
  Proof. intros Ho Hn Hp Ha Hc Hq Hs. apply flow_same; try assumption. intros id. rewrite Hq. exact (fun H => H). Qed.

  Lemma flow_fail_op m s id e : flow_m m s -> flow_m m (r_s (fail_op s id e)).
  Proof.
    intros H. unfold Model.fail_op. destruct (lookup id (s_ops s)) as [o|]; [|exact H].
    destruct (release s id o) as [s1| |] eqn:Er; [|exact H..]. pose proof (flow_release m _ _ _ _ Er H) as H1.
    pose proof (disconnect_completion_core s1 o) as Hd. cbv zeta in Hd.
    destruct (disconnect_completion s1 o) as [s2 r]. cbn [fst] in Hd. destruct Hd as (A & B & C & D & E & F & G & _).
    assert (H2 : flow_m m s2) by (eapply flow_eq; eassumption).
    repeat dm; cbn [r_s]; exact H2.
  Qed.

  Lemma ping_extension_core s o :
    let s' := ping_extension s o in
    s_ops s' = s_ops s /\ s_next_id s' = s_next_id s /\ s_ppub s' = s_ppub s /\ s_alloc s' = s_alloc s /\
    s_cur s' = s_cur s /\ s_hq s' = s_hq s /\ s_settings s' = s_settings s /\ s_st s' = s_st s.
  Proof. unfold Model.ping_extension. repeat dm; cbn; repeat split; auto. Qed.

  Lemma flow_succeed_op m s id resp : flow_m m s -> flow_m m (r_s (succeed_op s id resp)).
  Proof.
    intros H. unfold Model.succeed_op. destruct (lookup id (s_ops s)) as [o|]; [|exact H].
    destruct (release s id o) as [s1| |] eqn:Er; [|exact H..]. pose proof (flow_release m _ _ _ _ Er H) as H1.
    pose proof (ping_extension_core s1 o) as Hp. cbv zeta in Hp. destruct Hp as (A0 & B0 & C0 & D0 & E0 & F0 & G0 & _).
    assert (H1' : flow_m m (ping_extension s1 o)) by (eapply flow_eq; eassumption).
    pose proof (disconnect_completion_core (ping_extension s1 o) o) as Hd. cbv zeta in Hd.
    destruct (disconnect_completion (ping_extension s1 o) o) as [s2 r]. cbn [fst] in Hd. destruct Hd as (A & B & C & D & E & F & G & _).
    assert (H2 : flow_m m s2) by (eapply flow_eq; eassumption).
    repeat dm; cbn [r_s]; exact H2.
  Qed.

  Lemma flow_fail_all m ids : forall s e, flow_m m s -> flow_m m (r_s (fail_all s ids e)).
  Proof.
    induction ids as [|id r IH]; intros s e H; cbn [Model.fail_all]; [exact H|].
    pose proof (flow_fail_op m s id e H) as H1. destruct (is_panic _); [exact H1|].
    destruct (is_panic _); cbn [r_s]; apply IH; exact H1.
  Qed.

  Lemma flow_succeed_all m ids : forall s, flow_m m s -> flow_m m (r_s (succeed_all s ids)).
  Proof.
    induction ids as [|id r IH]; intros s H; cbn [Model.succeed_all]; [exact H|].
    pose proof (flow_succeed_op m s id None H) as H1. destruct (is_panic _); [exact H1|].
    destruct (is_panic _); cbn [r_s]; apply IH; exact H1.
  Qed.

  Lemma andthen_pres (P : state -> Prop) (r : res) f :
    P (r_s r) -> (forall s1, P s1 -> P (r_s (f s1))) -> P (r_s (andthen r f)).
  Proof.
    intros H1 H2. unfold Model.andthen. destruct (is_panic (r_out r)); [exact H1|].
    destruct (is_panic _); cbn [r_s]; apply H2; exact H1.
  Qed.

  Lemma try_pres (P : state -> Prop) (r : res) f :
    P (r_s r) -> (forall s1, P s1 -> P (r_s (f s1))) -> P (r_s (try_ r f)).
  Proof. intros H1 H2. unfold Model.try_. destruct (r_out r); [cbn [r_s]; apply H2; exact H1|exact H1..]. Qed.

  (* ---- operations rewritten in place (same ids; QoS class and packet id unchanged) ---- *)
  Lemma flow_ops_rel m (s s' : state) :
    keys (s_ops s') = keys (s_ops s) ->
    (forall id o', lookup id (s_ops s') = Some o' ->
       exists o, lookup id (s_ops s) = Some o /\ qpub (op_packet o') = qpub (op_packet o) /\
                 (m = Connected -> ppid (op_packet o') = ppid (op_packet o))) ->
    s_next_id s' = s_next_id s -> s_ppub s' = s_ppub s -> inc (keys (s_alloc s')) ->
    s_cur s' = s_cur s -> (forall id, In id (s_hq s') -> In id (s_hq s)) -> s_settings s' = s_settings s ->
    flow_m m s -> flow_m m s'.
  Proof.
    intros Hk Hrel Hn Hp Ha Hc Hq Hs [H1 H2 H3 H4 H5 H6]. constructor.
    - unfold ids_ok in *. cbn [fst snd] in *. rewrite Hk, Hn. exact H1.
    - rewrite Hp. exact H2.
    - exact Ha.
    - intros k. rewrite Hc, Hn. apply H4.
    - intros Hm. destruct (H5 Hm) as (st & Hst & Hle). exists st. rewrite Hs, Hp. split; [exact Hst|].
      assert (extra s' <= extra s); [|slia]. unfold extra. rewrite Hc, Hp. destruct (s_cur s) as [c|]; [|slia].
      destruct (lookup c (s_ops s')) as [o'|] eqn:El; [|repeat dm; slia].
      destruct (Hrel _ _ El) as (o & -> & -> & Hpp). rewrite (Hpp Hm). slia.
    - intros Hoff k Hk'. rewrite Hc in Hk'. assert (Hk2 : s_cur s = Some k \/ In k (s_hq s)) by (destruct Hk'; [left|right; apply Hq]; assumption).
      destruct (H6 Hoff k Hk2) as [Hlt Hcl]. rewrite Hn. split; [exact Hlt|]. intros o' Hl.
      destruct (Hrel _ _ Hl) as (o & Hlo & -> & _). apply Hcl. exact Hlo.
  Qed.

  Definition flow_keeps (f : op -> op) : Prop :=
    forall o, qpub (op_packet (f o)) = qpub (op_packet o) /\ ppid (op_packet (f o)) = ppid (op_packet o).

  Lemma lookup_update_rel (f : op -> op) id ops k o' : lookup k (update id f ops) = Some o' ->
    exists o, lookup k ops = Some o /\ (o' = o \/ o' = f o).
  Proof.
    intros H. destruct (N.eq_dec k id) as [->|Hne].
    - destruct (lookup id ops) as [o|] eqn:E.
      + rewrite (lookup_update_eq _ _ _ _ E) in H. inversion H. exists o. auto.
      + rewrite (lookup_update_none _ _ _ E) in H. discriminate.
    - rewrite (lookup_update_neq _ _ _ _ Hne) in H. exists o'. auto.
  Qed.

  Lemma lookup_fold_update_rel (f : op -> op) (R : op -> op -> Prop) ids :
    (forall o, R o o) -> (forall a b, R a b -> R a (f b)) ->
    forall ops k o', lookup k (fold_left (fun ops id => update id f ops) ids ops) = Some o' ->
    exists o, lookup k ops = Some o /\ R o o'.
  Proof.
    intros Hr Hf. induction ids as [|id r IH] using rev_ind; intros ops k o' H; cbn [fold_left] in H; [eauto|].
    rewrite fold_left_app in H. cbn [fold_left] in H.
    destruct (lookup_update_rel _ _ _ _ _ H) as (o1 & Hl1 & [->| ->]); destruct (IH _ _ _ Hl1) as (o & Hl & HR); eauto.
  Qed.

  Lemma keys_fold_update (f : op -> op) ids : forall ops, keys (fold_left (fun ops id => update id f ops) ids ops) = keys ops.
  Proof. induction ids as [|id r IH]; intros ops; cbn [fold_left]; [reflexivity|]. rewrite IH. apply keys_update. Qed.

  Lemma flow_fold_update m (s s' : state) (f : op -> op) ids :
    flow_keeps f -> s_ops s' = fold_left (fun ops id => update id f ops) ids (s_ops s) ->
    s_next_id s' = s_next_id s -> s_ppub s' = s_ppub s -> s_alloc s' = s_alloc s ->
    s_cur s' = s_cur s -> (forall id, In id (s_hq s') -> In id (s_hq s)) -> s_settings s' = s_settings s ->
    flow_m m s -> flow_m m s'.
  Proof.
    intros Hf Ho Hn Hp Ha Hc Hq Hs Hfl. apply (flow_ops_rel m s s'); try assumption; [| |rewrite Ha; apply Hfl].
    - rewrite Ho. apply keys_fold_update.
    - intros id o' Hl. rewrite Ho in Hl.
      pose (R := fun a b : op => qpub (op_packet b) = qpub (op_packet a) /\ ppid (op_packet b) = ppid (op_packet a)).
      assert (Hr : forall o, R o o) by (intros; split; reflexivity).
      assert (Hst : forall a b, R a b -> R a (f b)) by (intros a b [A B]; destruct (Hf b) as [C D]; split; congruence).
      destruct (lookup_fold_update_rel f R ids Hr Hst _ _ _ Hl) as (o & Hlo & Hq1 & Hp1). exists o. auto.
  Qed.

  Lemma flow_update m (s s' : state) (f : op -> op) id :
    flow_keeps f -> s_ops s' = update id f (s_ops s) ->
    s_next_id s' = s_next_id s -> s_ppub s' = s_ppub s -> s_alloc s' = s_alloc s ->
    s_cur s' = s_cur s -> (forall id, In id (s_hq s') -> In id (s_hq s)) -> s_settings s' = s_settings s ->
    flow_m m s -> flow_m m s'.
  Proof. intros Hf Ho. apply (flow_fold_update m s s' f [id] Hf). exact Ho. Qed.

  Lemma keeps_set_ss v : flow_keeps (set_ss v).
  Proof. intros o. split; reflexivity. Qed.
  Lemma keeps_bump_intr : flow_keeps bump_intr.
  Proof. intros o. split; reflexivity. Qed.
  Lemma keeps_set_dup v : flow_keeps (set_dup v).
  Proof. intros o. unfold set_dup. destruct (op_packet o) eqn:E; cbn; rewrite ?E; split; reflexivity. Qed.

  (* ---- a new operation (appended with the next id) ---- *)
  Lemma flow_create m m' (s s' : state) (o : op) :
    s_ops s' = s_ops s ++ [(s_next_id s, o)] -> s_next_id s' = s_next_id s + 1 ->
    s_ppub s' = s_ppub s -> s_alloc s' = s_alloc s -> s_settings s' = s_settings s ->
    (s_cur s' = s_cur s \/ s_cur s' = None) ->
    (m' = m \/ (offline m /\ offline m')) ->
    (forall id, In id (s_hq s') -> In id (s_hq s) \/ (id = s_next_id s /\ qpub (op_packet o) = false)) ->
    flow_m m s -> flow_m m' s'.
  Proof.
    intros Ho Hn Hp Ha Hs Hc Hm Hq [H1 H2 H3 H4 H5 H6].
    assert (Hcur : forall k, s_cur s' = Some k -> s_cur s = Some k) by (intros k Hk; destruct Hc as [E|E]; rewrite E in Hk; [exact Hk|discriminate]).
    constructor.
    - rewrite Ho, Hn. apply ids_ok_create. exact H1.
    - rewrite Hp. exact H2.
    - rewrite Ha. exact H3.
    - intros k Hk. rewrite Hn. specialize (H4 k (Hcur k Hk)). slia.
    - intros Hm'. assert (m = Connected) by (destruct Hm as [->|[_ [E|E]]]; [exact Hm'|rewrite Hm' in E; discriminate..]).
      destruct (H5 H) as (st & Hst & Hle). exists st. rewrite Hs, Hp. split; [exact Hst|].
      assert (extra s' <= extra s); [|slia]. unfold extra. destruct (s_cur s') as [c|] eqn:Ec; [|repeat dm; slia].
      rewrite (Hcur c eq_refl), Ho, Hp. rewrite lookup_app_old by (specialize (H4 c (Hcur c eq_refl)); slia). slia.
    - intros Hoff k Hk. assert (Hoffm : offline m) by (destruct Hm as [->|[E _]]; assumption). rewrite Hn.
      assert (Hold : (s_cur s = Some k \/ In k (s_hq s)) -> k < s_next_id s + 1 /\ forall x, lookup k (s_ops s') = Some x -> qpub (op_packet x) = false).
      { intros Hk0. destruct (H6 Hoffm k Hk0) as [Hlt Hcl]. split; [slia|]. intros x Hl. rewrite Ho, lookup_app_old in Hl by slia. apply Hcl. exact Hl. }
      destruct Hk as [Hk|Hk]; [apply Hold; left; apply Hcur; exact Hk|].
      destruct (Hq k Hk) as [Hk0|[-> Hqo]]; [apply Hold; right; exact Hk0|]. split; [slia|].
      intros x Hl. rewrite Ho in Hl. destruct (lookup_app_new _ _ _ _ _ Hl) as [Hl0|(_ & -> & _)]; [|exact Hqo].
      exfalso. pose proof (ids_ok_lt _ _ _ H1 Hl0) as Hlt. cbn [snd] in Hlt. slia.
  Qed.

End Engine.
