(* C10 at run level, part 3: several service calls.  Along any run segment that stays Connected
   (submissions, service calls, inbound acknowledgements, write completions in any interleaving),
   the operations seated from the user queue by the successive service calls, followed by what is still
   waiting, are sorted by operation id; the resubmit queue only loses what is seated from it; and no
   operation of the user queue is seated, in whatever call, before the whole resubmit queue has been seated. *)
From GM Require Import Base.Prelude Base.Outcome Codec.Packets Codec.Settings Engine.Model
  EngineProofs.AssocLemmas EngineProofs.WFLemmas EngineProofs.WFDefs EngineProofs.WFClose2 EngineProofs.WFStep
  EngineProofs.HandshakeRunTrace EngineProofs.HandshakeRunSt EngineProofs.Order EngineProofs.IdsMain
  EngineProofs.OrderRun EngineProofs.OrderRunMain.
From Coq Require Import Sorting.Sorted.
From RecordUpdate Require Import RecordSet.
Import RecordSetNotations.
Open Scope N_scope.

(* the four component types are implicit in the engine functions, locally to this file *)
(* the four component types are implicit in the engine functions, locally to this file *)
#[local] Arguments init {enc dec} _ {ores ires} _ _.
#[local] Arguments release {enc dec ores ires} _ _ _ _.
#[local] Arguments disconnect_completion {enc dec ores ires} _ _.
#[local] Arguments fail_op {enc dec ores ires} _ _ _ _.
#[local] Arguments ping_extension {enc dec ores ires} _ _.
#[local] Arguments succeed_op {enc dec ores ires} _ _ _ _.
#[local] Arguments fail_all {enc dec ores ires} _ _ _ _.
#[local] Arguments succeed_all {enc dec ores ires} _ _ _.
#[local] Arguments andthen {enc dec ores ires} _ _.
#[local] Arguments try_ {enc dec ores ires} _ _.
#[local] Arguments pure {enc dec ores ires} _.
#[local] Arguments create_operation {enc dec ores ires} _ _.
#[local] Arguments passes_now {enc dec ores ires} _ _ _.
#[local] Arguments user_event {enc dec ores ires} _ _ _ _.
#[local] Arguments create_connect {enc dec ores ires} _ _.
#[local] Arguments net_opened {enc dec} _ {ores ires} _ _ _.
#[local] Arguments op_exists {enc dec ores ires} _ _.
#[local] Arguments op_passes {enc dec ores ires} _ _ _.
#[local] Arguments partition_policy {enc dec ores ires} _ _ _.
#[local] Arguments closed_current {enc dec ores ires} _ _.
#[local] Arguments slow_start_init {enc dec ores ires} _ _.
#[local] Arguments update_retries {enc dec ores ires} _ _.
#[local] Arguments fail_exceeding {enc dec ores ires} _ _.
#[local] Arguments has_pubrel {enc dec ores ires} _ _.
#[local] Arguments net_closed_raw {enc dec ores ires} _ _.
#[local] Arguments net_closed {enc dec ores ires} _ _.
#[local] Arguments net_write_completion {enc dec ores ires} _ _.
#[local] Arguments acquire_free_pid {enc dec ores ires} _ _.
#[local] Arguments acquire_pid_for {enc dec ores ires} _ _.
#[local] Arguments unbind {enc dec ores ires} _ _.
#[local] Arguments passes_receive_max {enc dec ores ires} _ _.
#[local] Arguments throttled {enc dec ores ires} _ _.
#[local] Arguments has_pending_ack {enc dec ores ires} _.
#[local] Arguments dequeue {enc dec ores ires} _ _ _.
#[local] Arguments fully_written {enc dec ores ires} _ _.
#[local] Arguments service_keep_alive {enc dec ores ires} _ _ _.
#[local] Arguments process_ack_timeouts {enc dec ores ires} _ _ _.
#[local] Arguments halt_on_error {enc dec ores ires} _ _.
#[local] Arguments next_service_time {enc dec ores ires} _ _ _.
#[local] Arguments build_settings {enc dec ores ires} _ _ _.
#[local] Arguments apply_session {enc dec ores ires} _ _ _.
#[local] Arguments hres_of {enc dec ores ires} _ _.
#[local] Arguments pre_connack {enc dec ores ires} _.
#[local] Arguments sum_ss {enc dec ores ires} _.
#[local] Arguments handle_pingresp {enc dec ores ires} _.
#[local] Arguments handle_suback {enc dec ores ires} _ _ _.
#[local] Arguments handle_unsuback {enc dec ores ires} _ _ _.
#[local] Arguments publish_qos_of {enc dec ores ires} _ _.
#[local] Arguments handle_puback {enc dec ores ires} _ _ _.
#[local] Arguments handle_pubrec {enc dec ores ires} _ _ _.
#[local] Arguments handle_pubrel {enc dec ores ires} _ _.
#[local] Arguments handle_pubcomp {enc dec ores ires} _ _ _.
#[local] Arguments handle_publish {enc dec ores ires} _ _.
#[local] Arguments handle_disconnect {enc dec ores ires} _ _ _.
#[local] Arguments is_connect_op {enc dec ores ires} _ _.
#[local] Arguments connect_in_queue {enc dec ores ires} _.
#[local] Arguments reset {enc dec ores ires} _ _.
#[local] Arguments out_of_res {enc dec ores ires} _ _.
#[local] Arguments nst_queue {enc dec ores ires} _ _ _ _.
#[local] Arguments earliest_tmo {enc dec ores ires} _.
#[local] Arguments SeatStop {enc dec ores ires} _.
#[local] Arguments SeatContinue {enc dec ores ires} _ _.
#[local] Arguments SeatEncode {enc dec ores ires} _.

Section Seq.
  Variable enc : Type.
  Variable enc_reset : version -> packet -> resolution -> outcome enc.
  Variable enc_call : enc -> N -> N -> outcome (bytes * enc).
  Variable enc_done : enc -> bool.
  Variable dec : Type.
  Variable dec_init : dec.
  Variable dec_feed : version -> N -> dec -> bytes -> dec * list packet * outcome unit.
  Variable ores : Type.
  Variable ores_reset : ores -> N -> ores.
  Variable ores_resolve : ores -> option N -> bytes -> outcome (ores * resolution).
  Variable ires : Type.
  Variable ires_reset : ires -> ires.
  Variable ires_resolve : ires -> option N -> bytes -> outcome (ires * bytes).
  Variable v_out : option settings -> connect_opts -> resolution -> packet -> outcome unit.
  Variable v_in : option settings -> packet -> outcome unit.
  Variable cfg : config.
  Variable HC : comps_ok enc enc_reset enc_call dec dec_init dec_feed ores ores_reset ores_resolve ires ires_reset ires_resolve v_out v_in.
  Hypothesis Hcfg : ok_cfg cfg.

  Notation state := (state enc dec ores ires).
  Notation step := (step enc enc_reset enc_call enc_done dec dec_init dec_feed ores ores_reset ores_resolve
                         ires ires_reset ires_resolve v_out v_in cfg).
  Notation run := (run enc enc_reset enc_call enc_done dec dec_init dec_feed ores ores_reset ores_resolve
                       ires ires_reset ires_resolve v_out v_in cfg).
  Notation init := (init (enc:=enc) dec_init).
  Notation service := (service enc enc_reset enc_call enc_done dec ores ores_reset ores_resolve ires v_out cfg).
  Notation service_seats := (service_seats enc enc_reset enc_call enc_done dec ores ores_reset ores_resolve ires v_out cfg).
  Notation handle_connack := (handle_connack enc dec ores ores_reset ires ires_reset v_in cfg).
  Notation handle_packet := (handle_packet enc dec ores ores_reset ires ires_reset v_in cfg).
  Notation handle_packets := (handle_packets enc dec ores ores_reset ires ires_reset ires_resolve v_in cfg).
  Notation net_data := (net_data enc dec dec_feed ores ores_reset ires ires_reset ires_resolve v_in cfg).
  Notation WFX := (WFX enc enc_reset enc_call dec dec_init dec_feed ores ores_reset ores_resolve ires ires_reset ires_resolve v_out v_in cfg HC).
  Notation OS := (OS enc dec ores ires).
  Notation QF := (QF enc dec ores ires).
  Notation qlt := (WFX_qlt enc enc_reset enc_call dec dec_init dec_feed ores ores_reset ores_resolve ires ires_reset ires_resolve v_out v_in cfg HC).

  (* the operations seated by one step (service calls only), by a run *)
  Definition seats_of_step (s : state) (e : event) : list seat_ev :=
    match e with EvService now cap fill => service_seats s now cap fill | _ => [] end.
  Fixpoint run_seats (s : state) (h : list event) : list seat_ev :=
    match h with [] => [] | e :: r => seats_of_step s e ++ run_seats (fst (step s e)) r end.
  (* every state the run passes through after its start is Connected *)
  Fixpoint stays_connected (s : state) (h : list event) : Prop :=
    match h with [] => True | e :: r => s_st (fst (step s e)) = Connected /\ stays_connected (fst (step s e)) r end.

  Lemma run_cons (s : state) e r : fst (run s (e :: r)) = fst (run (fst (step s e)) r).
  Proof. cbn [Model.run]. destruct (step s e) as [s1 o]. cbn [fst]. destruct (run s1 r). reflexivity. Qed.

  (* ---- inbound data while Connected: a queue frame (a second CONNACK is a protocol error) ---- *)
  Lemma QF_connected (s s' : state) : QF s s' -> s_st s = Connected -> s_st s' = Connected.
  Proof. intros ([E|[E _]] & _) Hc; congruence. Qed.

  Lemma handle_connack_connected (s : state) now c : s_st s = Connected -> h_out (handle_connack s now c) = Err EProtocolError.
  Proof. intros Hc. unfold Model.handle_connack. rewrite Hc. reflexivity. Qed.

  Lemma handle_packets_QFc now : forall ps (s : state) dn ev, s_st s = Connected ->
    match h_out (handle_packets s now ps dn ev) with Ok _ => QF s (h_s (handle_packets s now ps dn ev)) | _ => True end.
  Proof.
    induction ps as [|p rest IH]; intros s dn ev Hc; cbn [Model.handle_packets]; [apply QF_refl|].
    assert (Hres : forall x : outcome (state * packet),
              x = match p with
                  | Publish pb => do (i', t) <- ires_resolve (s_ires s) (pub_alias pb) (pub_topic pb) ;
                                  Ok (s <| s_ires := i' |>, Publish (with_topic pb t))
                  | _ => Ok (s, p) end ->
              match x with Ok (s1, _) => QF s s1 | _ => True end).
    { intros x ->. destruct p; try exact (QF_refl _ _ _ _ s). destruct (ires_resolve _ _ _) as [[i' t]| |]; cbn; try exact I.
      split; [apply ST_eq; reflexivity|split; reflexivity]. }
    specialize (Hres _ eq_refl).
    destruct (match p with Publish pb => _ | _ => _ end) as [[s1 p1]|k|site]; [|exact I|exact I].
    pose proof (QF_connected _ _ Hres Hc) as Hc1.
    destruct (v_in (s_settings s1) p1); [|exact I|exact I].
    assert (Hd : match h_out (handle_packet s1 now p1) with Ok _ => QF s1 (h_s (handle_packet s1 now p1)) | _ => True end).
    { pose proof (handle_packet_QF enc dec ores ores_reset ires ires_reset v_in cfg s1 now p1) as Hq.
      destruct p1 as [c0|c|pb|a1|a2|a3|a4|sb|s0|un|u1| | |d1|au]; cbv beta iota in Hq;
        try (destruct (h_out _); [exact Hq|exact I|exact I]).
      cbn [Model.handle_packet]. rewrite (handle_connack_connected s1 now c Hc1). exact I. }
    destruct (h_out (handle_packet s1 now p1)); try exact I.
    pose proof (QF_connected _ _ Hd Hc1) as Hc2.
    specialize (IH (h_s (handle_packet s1 now p1)) (dn ++ h_done (handle_packet s1 now p1)) (ev ++ h_ev (handle_packet s1 now p1)) Hc2).
    destruct (h_out (handle_packets _ now rest _ _)); try exact I.
    eapply QF_trans; [exact Hres|]. eapply QF_trans; [exact Hd|exact IH].
  Qed.

  Lemma net_data_QFc (s : state) now data : s_st s = Connected ->
    match h_out (net_data s now data) with Ok _ => QF s (h_s (net_data s now data)) | _ => True end.
  Proof.
    intros Hc. unfold Model.net_data. destruct (_ || _); [exact I|]. destruct (_ && _); [exact I|].
    destruct (dec_feed _ _ _ _) as [[d' ps] r]. destruct r; [|exact I|exact I].
    match goal with |- context [handle_packets ?sx now ps [] []] =>
      pose proof (handle_packets_QFc now ps sx [] [] Hc) as H; destruct (h_out (handle_packets sx now ps [] [])) end; try exact I.
    eapply QF_trans; [|exact H]. split; [apply ST_eq; reflexivity|split; reflexivity].
  Qed.

  (* ---- one step from a Connected state to a Connected state ---- *)
  Lemma step_connected (s : state) e :
    WFX s -> ok_event e -> s_st s = Connected -> s_st (fst (step s e)) = Connected ->
    s_rq s = ids_of QR (seats_of_step s e) ++ s_rq (fst (step s e)) /\
    (s_uq s = ids_of QU (seats_of_step s e) ++ s_uq (fst (step s e)) \/
     (seats_of_step s e = [] /\ s_uq (fst (step s e)) = s_uq s ++ [s_next_id s])).
  Proof.
    intros HX Hev Hc0. pose proof HX as [[HW HP] HI].
    assert (Hqf : forall s' : state, QF s s' -> s_rq s = ids_of QR [] ++ s_rq s' /\
              (s_uq s = ids_of QU [] ++ s_uq s' \/ ([] = @nil seat_ev /\ s_uq s' = s_uq s ++ [s_next_id s]))).
    { intros s' (_ & E1 & E2). cbn. rewrite E1, E2. auto. }
    destruct e as [now p t|now dl|now|now data|now|now cap fill|now|now]; cbn [Model.step seats_of_step].
    - unfold out_of_res. cbn [fst]. intros _.
      destruct (user_event_q enc dec ores ires cfg s p t) as (E1 & [E2|E2]); rewrite E1, E2; cbn; auto.
    - unfold out_of_res. cbn [fst]. intros Hc. exfalso.
      pose proof (net_opened_st enc dec dec_init ores ires cfg s dl) as H. cbv zeta in H. rewrite H in Hc. destruct (s_st s); discriminate.
    - unfold out_of_res. cbn [fst]. intros Hc. exfalso.
      assert (Est : s_st s <> Disconnected) by congruence.
      destruct (net_closed_spec cfg s HW Est) as (E & _ & S1 & _). rewrite E in Hc. cbn [halt_on_error] in Hc. congruence.
    - cbn [fst]. intros Hc. pose proof (net_data_QFc s now data Hc0) as Hq.
      destruct (h_out (net_data s now data)); cbn [halt_on_error] in *; [|cbn in Hc; discriminate|cbn in Hc; discriminate].
      apply Hqf. exact Hq.
    - unfold out_of_res. cbn [fst]. intros Hc.
      destruct (net_write_completion_QF enc dec ores ires cfg s) as [Hq|Hh].
      + destruct (r_out (net_write_completion cfg s)); cbn [halt_on_error] in *; [|cbn in Hc; discriminate|cbn in Hc; discriminate].
        apply Hqf. exact Hq.
      + exfalso. destruct (r_out (net_write_completion cfg s)); cbn [halt_on_error] in Hc; cbn in Hc; congruence.
    - cbn [fst]. intros _.
      destruct (service_seats_prefix enc enc_reset enc_call enc_done dec ores ores_reset ores_resolve ires v_out cfg s now cap fill) as [R U].
      split; [exact R|left; exact U].
    - intros _. destruct (next_service_time cfg s now); cbn [fst]; apply Hqf; apply QF_refl.
    - unfold out_of_res. cbn [fst]. intros Hc. exfalso. rewrite reset_st in Hc. destruct (s_st s); discriminate.
  Qed.

  Lemma WFX_ids_inv (s : state) : WFX s -> ids_inv enc dec ores ires s.
  Proof.
    intros [[HW _] _]. split; [exact (w_inc _ _ HW)|]. apply Forall_forall. intros k Hk. exact (w_lt _ _ HW k Hk).
  Qed.

  Lemma step_next_id (s : state) e : WFX s -> s_next_id s <= s_next_id (fst (step s e)).
  Proof.
    intros HX. exact (next_id_mono enc enc_reset enc_call enc_done dec dec_init dec_feed ores ores_reset ores_resolve
      ires ires_reset ires_resolve v_out v_in cfg s e (WFX_ids_inv s HX)).
  Qed.

  Lemma ids_of_QU_cons i l : ids_of QR ((QU, i) :: l) = ids_of QR l.
  Proof. reflexivity. Qed.

  Lemma step_priority (s : state) e t1 i t2 :
    seats_of_step s e = t1 ++ (QU, i) :: t2 -> ids_of QR t1 = s_rq s /\ ids_of QR t2 = [].
  Proof.
    destruct e; cbn [seats_of_step]; try (intros E; destruct t1; discriminate).
    apply service_retransmissions_first.
  Qed.

  (* ---- a Connected segment ---- *)
  Theorem segment_order : forall h (s : state) acc,
    WFX s -> s_st s = Connected -> Forall ok_event h -> stays_connected s h ->
    sorted_le (acc ++ s_uq s) -> (forall x, In x acc -> x < s_next_id s) ->
    sorted_le (acc ++ ids_of QU (run_seats s h) ++ s_uq (fst (run s h))) /\
    s_rq s = ids_of QR (run_seats s h) ++ s_rq (fst (run s h)) /\
    (forall t1 i t2, run_seats s h = t1 ++ (QU, i) :: t2 -> ids_of QR t1 = s_rq s /\ ids_of QR t2 = []).
  Proof.
    induction h as [|e r IH]; intros s acc HX Hc Hall Hstay Hs Hacc.
    { cbn. split; [exact Hs|]. split; [reflexivity|]. intros t1 i t2 E. destruct t1; discriminate. }
    inversion Hall as [|? ? He Hr]; subst. destruct Hstay as [Hc1 Hstay].
    pose proof (WF_step _ _ _ enc_done _ _ _ _ _ _ _ _ _ _ _ _ HC Hcfg s e HX He) as HX1.
    destruct (step_connected s e HX He Hc Hc1) as [R U]. pose proof (step_next_id s e HX) as Hn.
    set (s1 := fst (step s e)) in *. set (t := seats_of_step s e) in *.
    assert (Hs1 : sorted_le ((acc ++ ids_of QU t) ++ s_uq s1)).
    { destruct U as [U|[U1 U2]].
      - rewrite <- app_assoc, <- U. exact Hs.
      - rewrite U1, U2. cbn. rewrite app_nil_r, app_assoc. apply sorted_le_snoc; [exact Hs|].
        intros x Hx. apply in_app_or in Hx. destruct Hx as [Hx|Hx]; [specialize (Hacc x Hx); lia|].
        enough (x < s_next_id s) by lia. apply (qlt s HX). left. exact Hx. }
    assert (Hacc1 : forall x, In x (acc ++ ids_of QU t) -> x < s_next_id s1).
    { intros x Hx. apply in_app_or in Hx. destruct Hx as [Hx|Hx]; [specialize (Hacc x Hx); lia|].
      destruct U as [U|[U1 U2]]; [|rewrite U1 in Hx; destruct Hx].
      enough (x < s_next_id s) by lia. apply (qlt s HX). left. rewrite U. apply in_or_app. left. exact Hx. }
    destruct (IH s1 (acc ++ ids_of QU t) HX1 Hc1 Hr Hstay Hs1 Hacc1) as (I1 & I2 & I3).
    rewrite run_cons. cbn [run_seats]. fold s1. fold t. rewrite !ids_of_app. split; [|split].
    - rewrite <- !app_assoc in I1. rewrite <- !app_assoc. exact I1.
    - rewrite R, I2, app_assoc. reflexivity.
    - intros t1 i t2 E. apply app_eq_app in E. destruct E as (l & [[E1 E2]|[E1 E2]]).
      + destruct l as [|x l].
        * (* the first seat of a later call *)
          rewrite app_nil_r in E1. cbn [app] in E2. destruct (I3 [] i t2 (eq_sym E2)) as [J1 J2].
          split; [|exact J2]. rewrite <- E1, R, <- J1. cbn. rewrite app_nil_r. reflexivity.
        * (* a seat of this call: afterwards the resubmit queue is empty *)
          cbn [app] in E2. inversion E2 as [[Ex E3]]. subst x.
          destruct (step_priority s e t1 i l E1) as [J1 J2]. split; [exact J1|].
          assert (Hr1 : s_rq s1 = []).
          { rewrite E1, ids_of_app, ids_of_QU_cons, J1, J2 in R. cbn [app] in R.
            apply (f_equal (@length N)) in R. rewrite !app_length in R. destruct (s_rq s1); [reflexivity|cbn in R; lia]. }
          rewrite Hr1 in I2. symmetry in I2. apply app_eq_nil in I2. destruct I2 as [I2 _].
          rewrite ids_of_app, J2, I2. reflexivity.
      + (* a later seat of a later call *)
        destruct (I3 l i t2 E2) as [J1 J2]. split; [|exact J2]. rewrite E1, ids_of_app, J1, R. reflexivity.
  Qed.

  (* the same at every reachable Connected state *)
  Theorem connected_segment_order (o : ores) (i : ires) h1 h2 :
    ores_inv HC o -> ires_inv HC i -> Forall ok_event h1 -> Forall ok_event h2 ->
    s_st (fst (run (init o i) h1)) = Connected -> stays_connected (fst (run (init o i) h1)) h2 ->
    sorted_le (ids_of QU (run_seats (fst (run (init o i) h1)) h2) ++ s_uq (fst (run (fst (run (init o i) h1)) h2))) /\
    s_rq (fst (run (init o i) h1)) =
      ids_of QR (run_seats (fst (run (init o i) h1)) h2) ++ s_rq (fst (run (fst (run (init o i) h1)) h2)) /\
    sorted_le (s_rq (fst (run (init o i) h1))) /\
    (forall t1 j t2, run_seats (fst (run (init o i) h1)) h2 = t1 ++ (QU, j) :: t2 ->
       ids_of QR t1 = s_rq (fst (run (init o i) h1)) /\ ids_of QR t2 = []).
  Proof.
    intros Ho Hi H1 H2 Hc Hstay.
    destruct (reachable_WFX_OS enc enc_reset enc_call enc_done dec dec_init dec_feed ores ores_reset ores_resolve
                ires ires_reset ires_resolve v_out v_in cfg HC Hcfg o i h1 Ho Hi H1) as [HX HO].
    destruct (HO Hc) as [Sr Su].
    destruct (segment_order h2 _ [] HX Hc H2 Hstay Su (fun x (Hx : In x []) => match Hx with end)) as (A & B & C).
    cbn [app] in A. split; [exact A|]. split; [exact B|]. split; [exact Sr|exact C].
  Qed.
End Seq.
