(* Well-formedness through a connection close, continued: phases B and A, net_closed_raw, net_closed. *)
From GM Require Import Base.Prelude Base.Outcome Codec.Packets Codec.Settings Engine.Model
  EngineProofs.AssocLemmas EngineProofs.WFLemmas EngineProofs.WFDefs EngineProofs.WFCore EngineProofs.WFComplete
  EngineProofs.WFClose EngineProofs.WFTrack.
From Coq Require Import Sorting.Sorted.
From RecordUpdate Require Import RecordSet.
Import RecordSetNotations.
Open Scope N_scope.

(* the four component types are implicit in the engine functions, locally to this file *)
#[local] Arguments init {enc dec} _ {ores ires} _ _.
#[local] Arguments release {enc dec ores ires} _ _ _ _.
#[local] Arguments disconnect_completion {enc dec ores ires} _ _.
#[local] Arguments fail_op {enc dec ores ires} _ _ _ _.
#[local] Arguments ping_extension {enc dec ores ires} _ _.
#[local] Arguments succeed_op {enc dec ores ires} _ _ _ _.
#[local] Arguments fail_all {enc dec ores ires} _ _ _ _.
#[local] Arguments succeed_all {enc dec ores ires} _ _ _.
#[local] Arguments andthen {enc dec ores ires} _ _.
#[local] Arguments try_ {enc dec ores ires} _ _.
#[local] Arguments pure {enc dec ores ires} _.
#[local] Arguments create_operation {enc dec ores ires} _ _.
#[local] Arguments passes_now {enc dec ores ires} _ _ _.
#[local] Arguments user_event {enc dec ores ires} _ _ _ _.
#[local] Arguments create_connect {enc dec ores ires} _ _.
#[local] Arguments net_opened {enc dec} _ {ores ires} _ _ _.
#[local] Arguments op_exists {enc dec ores ires} _ _.
#[local] Arguments op_passes {enc dec ores ires} _ _ _.
#[local] Arguments partition_policy {enc dec ores ires} _ _ _.
#[local] Arguments closed_current {enc dec ores ires} _ _.
#[local] Arguments slow_start_init {enc dec ores ires} _ _.
#[local] Arguments update_retries {enc dec ores ires} _ _.
#[local] Arguments fail_exceeding {enc dec ores ires} _ _.
#[local] Arguments has_pubrel {enc dec ores ires} _ _.
#[local] Arguments net_closed_raw {enc dec ores ires} _ _.
#[local] Arguments net_closed {enc dec ores ires} _ _.
#[local] Arguments net_write_completion {enc dec ores ires} _ _.
#[local] Arguments acquire_free_pid {enc dec ores ires} _ _.
#[local] Arguments acquire_pid_for {enc dec ores ires} _ _.
#[local] Arguments unbind {enc dec ores ires} _ _.
#[local] Arguments passes_receive_max {enc dec ores ires} _ _.
#[local] Arguments throttled {enc dec ores ires} _ _.
#[local] Arguments has_pending_ack {enc dec ores ires} _.
#[local] Arguments dequeue {enc dec ores ires} _ _ _.
#[local] Arguments fully_written {enc dec ores ires} _ _.
#[local] Arguments service_keep_alive {enc dec ores ires} _ _ _.
#[local] Arguments process_ack_timeouts {enc dec ores ires} _ _ _.
#[local] Arguments halt_on_error {enc dec ores ires} _ _.
#[local] Arguments next_service_time {enc dec ores ires} _ _ _.
#[local] Arguments build_settings {enc dec ores ires} _ _ _.
#[local] Arguments apply_session {enc dec ores ires} _ _ _.
#[local] Arguments hres_of {enc dec ores ires} _ _.
#[local] Arguments pre_connack {enc dec ores ires} _.
#[local] Arguments sum_ss {enc dec ores ires} _.
#[local] Arguments handle_pingresp {enc dec ores ires} _.
#[local] Arguments handle_suback {enc dec ores ires} _ _ _.
#[local] Arguments handle_unsuback {enc dec ores ires} _ _ _.
#[local] Arguments publish_qos_of {enc dec ores ires} _ _.
#[local] Arguments handle_puback {enc dec ores ires} _ _ _.
#[local] Arguments handle_pubrec {enc dec ores ires} _ _ _.
#[local] Arguments handle_pubrel {enc dec ores ires} _ _.
#[local] Arguments handle_pubcomp {enc dec ores ires} _ _ _.
#[local] Arguments handle_publish {enc dec ores ires} _ _.
#[local] Arguments handle_disconnect {enc dec ores ires} _ _ _.
#[local] Arguments is_connect_op {enc dec ores ires} _ _.
#[local] Arguments connect_in_queue {enc dec ores ires} _.
#[local] Arguments reset {enc dec ores ires} _ _.
#[local] Arguments out_of_res {enc dec ores ires} _ _.
#[local] Arguments nst_queue {enc dec ores ires} _ _ _ _.
#[local] Arguments earliest_tmo {enc dec ores ires} _.
#[local] Arguments SeatStop {enc dec ores ires} _.
#[local] Arguments SeatContinue {enc dec ores ires} _ _.
#[local] Arguments SeatEncode {enc dec ores ires} _.


Section Close2.
  Context {enc dec ores ires : Type}.
  Notation state := (state enc dec ores ires).
  Notation res := (res enc dec ores ires).
  Variable cfg : config.

  Ltac splits := repeat match goal with |- _ /\ _ => split end.
  Ltac core_cbn := unfold tracked, inq; cbn [core_of c_ops c_uq c_rq c_hq c_cur c_alloc c_ppub c_pnon c_pwco c_nid c_npid].

  Lemma closed_res_pid (s s' : state) (r : res) : pidpres s s' -> (TR s -> TR s') -> closed_res s' r -> closed_res s r.
  Proof. intros P T [A B C D E G]. constructor; auto. eapply pidpres_trans; eauto. Qed.

  (* a queue adjustment followed by the failure of the rejected operations *)
  Lemma closed_res_pre ids (s s1 : state) (r : res) f :
    pidpres s s1 -> fail_spec cfg [] ids s1 r -> (TR s -> TR (r_s r)) -> closed_res (r_s r) (f (r_s r)) ->
    closed_res s (andthen r f).
  Proof.
    intros P F T C. pose proof (closed_res_andthen cfg ids s1 r f F C) as [A B D E G H].
    constructor; auto. eapply pidpres_trans; eauto. intros HT.
    rewrite andthen_s by (apply (fs_nopanic _ _ _ _ _ F)). apply C. apply T. exact HT.
  Qed.

  Lemma phaseB_spec (s5 : state) :
    WFS s5 -> s_st s5 = Disconnected -> s_hq s5 = [] -> s_tmo s5 = [] -> s_cur s5 = None ->
    closed_res s5 (phaseB cfg s5).
  Proof.
    intros HW Hst Hhq Htmo Hcur. unfold phaseB.
    destruct (partition_policy cfg s5 (s_pwco s5)) as [kept rejected] eqn:Epart.
    set (s6 := s5 <| s_pwco := [] |> <| s_uq := s_uq s5 ++ kept |>).
    assert (HW6 : WFS s6).
    { eapply WFS_queues; [exact HW| | | | | | | | | | |]; cbn; auto; try tauto.
      - core_cbn. cbn. intros p i o Hi Hp T. destruct T as [T|[T|T]]; try tauto. right; left. apply in_or_app. tauto.
      - core_cbn. cbn. intros i [Hi|Hi]; [|tauto]. apply in_app_or in Hi. destruct Hi as [Hi|Hi]; [tauto|].
        assert (Hk : In i (fst (partition_policy cfg s5 (s_pwco s5)))) by (rewrite Epart; exact Hi).
        apply partition_kept in Hk. tauto. }
    assert (Hst6 : s_st s6 = Disconnected) by exact Hst.
    pose proof (fail_all_spec cfg [] rejected s6 EOfflineQueuePolicyFailed HW6 (W9_disc cfg s6 Hst6)) as F6.
    eapply (closed_res_pre _ s5 s6); [apply (pidpres_ops s5 s6); reflexivity|exact F6| |].
    { intros HT. apply (TR_gen s5 _ HT). intros i o' Hi Hp. right. exists o'.
      pose proof (fc_sub _ _ _ (fs_frame _ _ _ _ _ F6) _ _ Hi) as Hi6. split; [exact Hi6|]. splits; auto.
      destruct (rest_fields _ _ (fc_rest _ _ _ (fs_frame _ _ _ _ _ F6))) as (R1 & R2 & R3 & R4 & R5 & _).
      unfold inQ. rewrite R1, R2, R3, R4, R5. cbn. intros [Q|[Q|[Q|[Q|Q]]]]; try tauto; [left; apply in_or_app; tauto|].
      left. apply in_or_app. right.
      assert (He : op_exists s5 i = true) by (unfold op_exists; unfold getop in Hi6; cbn in Hi6; rewrite Hi6; reflexivity).
      destruct (partition_cases cfg s5 (s_pwco s5) i Q He) as [Hk|Hk]; rewrite Epart in Hk; cbn [fst snd] in Hk; [exact Hk|].
      pose proof (fs_gone _ _ _ _ _ F6 _ Hk) as Hg. congruence. }
    set (s7 := r_s (fail_all cfg s6 rejected EOfflineQueuePolicyFailed)) in *.
    destruct (rest_fields _ _ (fc_rest _ _ _ (fs_frame _ _ _ _ _ F6))) as (_ & _ & R3 & R4 & R5 & R6 & _).
    assert (Hst7 : s_st s7 = Disconnected) by (eapply disc_frame; [apply F6|exact Hst6]).
    destruct (fail_exceeding_spec cfg [] s7 (fs_wfs _ _ _ _ _ F6) (W9_disc cfg s7 Hst7)) as (ids & F7).
    eapply closed_res_andthen; [exact F7|].
    destruct (rest_fields _ _ (fc_rest _ _ _ (fs_frame _ _ _ _ _ F7))) as (_ & _ & Q3 & Q4 & Q5 & Q6 & _).
    subst s7. apply phaseC_spec.
    - apply F7.
    - eapply disc_frame; [apply F7|exact Hst7].
    - rewrite Q3, R3. exact Hhq.
    - rewrite Q5, R5. reflexivity.
    - rewrite Q6, R6. exact Htmo.
    - rewrite Q4, R4. exact Hcur.
  Qed.

  Lemma phaseA_spec (s3 : state) :
    WFS s3 -> s_st s3 = Disconnected -> s_tmo s3 = [] -> s_cur s3 = None ->
    closed_res s3 (phaseA cfg s3).
  Proof.
    intros HW Hst Htmo Hcur. unfold phaseA.
    set (s4 := s3 <| s_hq := [] |>).
    assert (HW4 : WFS s4).
    { eapply WFS_queues; [exact HW| | | | | | | | | | |]; cbn; auto; try tauto.
      core_cbn. cbn. intros i. tauto. }
    assert (Hst4 : s_st s4 = Disconnected) by exact Hst.
    match goal with |- context [fail_all cfg s4 ?l ?e] =>
      pose proof (fail_all_spec cfg [] l s4 e HW4 (W9_disc cfg s4 Hst4)) as F4; set (r4 := fail_all cfg s4 l e) in * end.
    eapply (closed_res_pre _ s3 s4); [apply (pidpres_ops s3 s4); reflexivity|exact F4| |].
    { intros HT. apply (TR_gen s3 _ HT). intros i o' Hi Hp. right. exists o'.
      pose proof (fc_sub _ _ _ (fs_frame _ _ _ _ _ F4) _ _ Hi) as Hi4. split; [exact Hi4|]. splits; auto.
      destruct (rest_fields _ _ (fc_rest _ _ _ (fs_frame _ _ _ _ _ F4))) as (R1 & R2 & R3 & R4 & R5 & _).
      unfold inQ. rewrite R1, R2, R3, R4, R5. cbn. intros [Q|[Q|[Q|[Q|Q]]]]; try tauto. exfalso.
      destruct (HT i o' Hi4 Hp) as (_ & Hpr & _).
      assert (Hin : In i (filter (fun id => negb (has_pubrel s4 id)) (s_hq s3))).
      { apply filter_In. split; [exact Q|]. unfold has_pubrel. unfold getop in Hi4. cbn in Hi4 |- *. rewrite Hi4, Hpr. reflexivity. }
      pose proof (fs_gone _ _ _ _ _ F4 _ Hin) as Hg. congruence. }
    destruct (rest_fields _ _ (fc_rest _ _ _ (fs_frame _ _ _ _ _ F4))) as (_ & _ & R3 & R4 & R5 & R6 & _).
    apply phaseB_spec.
    - apply F4.
    - eapply disc_frame; [apply F4|exact Hst4].
    - rewrite R3. reflexivity.
    - rewrite R6. exact Htmo.
    - rewrite R4. exact Hcur.
  Qed.

  Lemma pstate_eqb_eq a b : pstate_eqb a b = true <-> a = b.
  Proof. destruct a, b; cbn; split; intros H; try reflexivity; try discriminate. Qed.

  Lemma pstate_eqb_neq a b : pstate_eqb a b = false <-> a <> b.
  Proof. destruct a, b; cbn; split; intros H; try reflexivity; try discriminate; try congruence. Qed.

  Lemma closed_res_repack (s : state) (r : res) d : closed_res s r -> closed_res s (mkRes (r_s r) d (r_out r)).
  Proof. intros [A B C D E]. constructor; assumption. Qed.

  Lemma net_closed_raw_spec (s : state) :
    WFS s -> s_st s <> Disconnected -> closed_res s (net_closed_raw cfg s).
  Proof.
    intros HW Hst. rewrite net_closed_raw_unfold. apply pstate_eqb_neq in Hst. rewrite Hst.
    set (s0 := s <| s_st := Disconnected |> <| s_connack_to := None |> <| s_next_ping := None |>
                 <| s_ping_to := None |> <| s_tmo := [] |>).
    assert (HW0 : WFS s0) by exact HW.
    destruct (closed_current_spec cfg s0 HW0 eq_refl) as (A1 & A2 & A3 & A4 & A5 & A6).
    pose proof (closed_current_tr cfg s0 HW0 eq_refl) as A7.
    cbv zeta. rewrite (try_ok _ _ A1).
    set (s1 := r_s (closed_current cfg s0)) in *.
    destruct (slow_start_init_spec cfg s1 A2) as (s2 & E2 & B1 & B2 & B3 & B4 & B5 & B6). rewrite E2.
    destruct (update_retries_spec cfg s2 B1) as (s3 & E3 & C1 & C2 & C3 & C4 & C5 & C6). rewrite E3.
    apply closed_res_repack.
    assert (T0 : s_tmo s0 = []) by reflexivity.
    eapply closed_res_pid; [| |apply phaseA_spec; try assumption; congruence].
    - eapply pidpres_trans; [|exact C5]. eapply pidpres_trans; [|exact B5].
      eapply pidpres_trans; [|exact A6]. apply (pidpres_ops s s0); reflexivity.
    - intros HT. apply C6, B6, A7. apply (TR_queues s); [reflexivity| |exact HT]. unfold inQ. cbn. tauto.
  Qed.

  (* the close event proper *)
  Lemma net_closed_spec (s : state) :
    WFS s -> s_st s <> Disconnected ->
    let r := net_closed cfg s in
    r_out r = Ok tt /\ WFS (r_s r) /\ s_st (r_s r) = Disconnected /\ closed_fields (r_s r) /\ pidpres s (r_s r) /\
    (TR s -> TR (r_s r)).
  Proof.
    intros HW Hst. destruct (net_closed_raw_spec s HW Hst) as [A B C D E G]. unfold net_closed.
    apply pstate_eqb_neq in Hst. rewrite Hst. destruct A as [A|A]; rewrite A; cbn [r_s r_out]; repeat (split; [solve [auto]|]); exact G.
  Qed.

  Lemma net_closed_disconnected (s : state) :
    s_st s = Disconnected -> net_closed cfg s = mkRes s [] (Err EInternalStateError).
  Proof. intros H. unfold net_closed, net_closed_raw. rewrite H. reflexivity. Qed.
End Close2.
