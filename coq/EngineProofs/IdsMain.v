From GM Require Import Base.Prelude Base.Outcome Codec.Packets Codec.Settings Engine.Model EngineProofs.AssocLemmas EngineProofs.IdsFrame EngineProofs.IdsHelpers EngineProofs.IdsRun EngineProofs.IdsSingle.
From RecordUpdate Require Import RecordSet.
From Coq Require Import Sorting.Sorted.
Import RecordSetNotations.
Open Scope N_scope.

Section Engine.
  Variable enc : Type.
  Variable enc_reset : version -> packet -> resolution -> outcome enc.
  Variable enc_call : enc -> N -> N -> outcome (bytes * enc).
  Variable enc_done : enc -> bool.
  Variable dec : Type.
  Variable dec_init : dec.
  Variable dec_feed : version -> N -> dec -> bytes -> dec * list packet * outcome unit.
  Variable ores : Type.
  Variable ores_reset : ores -> N -> ores.
  Variable ores_resolve : ores -> option N -> bytes -> outcome (ores * resolution).
  Variable ires : Type.
  Variable ires_reset : ires -> ires.
  Variable ires_resolve : ires -> option N -> bytes -> outcome (ires * bytes).
  Variable v_out : option settings -> connect_opts -> resolution -> packet -> outcome unit.
  Variable v_in : option settings -> packet -> outcome unit.
  Variable cfg : config.

  Notation state := (Model.state enc dec ores ires).
  Notation init := (Model.init enc dec dec_init ores ires).
  Notation res := (Model.res enc dec ores ires).
  Notation release := (Model.release enc dec ores ires cfg).
  Notation disconnect_completion := (Model.disconnect_completion enc dec ores ires).
  Notation fail_op := (Model.fail_op enc dec ores ires cfg).
  Notation ping_extension := (Model.ping_extension enc dec ores ires).
  Notation succeed_op := (Model.succeed_op enc dec ores ires cfg).
  Notation fail_all := (Model.fail_all enc dec ores ires cfg).
  Notation succeed_all := (Model.succeed_all enc dec ores ires cfg).
  Notation andthen := (Model.andthen enc dec ores ires).
  Notation try_ := (Model.try_ enc dec ores ires).
  Notation pure := (Model.pure enc dec ores ires).
  Notation create_operation := (Model.create_operation enc dec ores ires).
  Notation passes_now := (Model.passes_now enc dec ores ires cfg).
  Notation user_event := (Model.user_event enc dec ores ires cfg).
  Notation create_connect := (Model.create_connect enc dec ores ires cfg).
  Notation net_opened := (Model.net_opened enc dec dec_init ores ires cfg).
  Notation op_exists := (Model.op_exists enc dec ores ires).
  Notation op_passes := (Model.op_passes enc dec ores ires cfg).
  Notation partition_policy := (Model.partition_policy enc dec ores ires cfg).
  Notation closed_current := (Model.closed_current enc dec ores ires cfg).
  Notation slow_start_init := (Model.slow_start_init enc dec ores ires cfg).
  Notation update_retries := (Model.update_retries enc dec ores ires cfg).
  Notation fail_exceeding := (Model.fail_exceeding enc dec ores ires cfg).
  Notation has_pubrel := (Model.has_pubrel enc dec ores ires).
  Notation net_closed_raw := (Model.net_closed_raw enc dec ores ires cfg).
  Notation net_closed := (Model.net_closed enc dec ores ires cfg).
  Notation net_write_completion := (Model.net_write_completion enc dec ores ires cfg).
  Notation acquire_free_pid := (Model.acquire_free_pid enc dec ores ires).
  Notation acquire_pid_for := (Model.acquire_pid_for enc dec ores ires).
  Notation unbind := (Model.unbind enc dec ores ires).
  Notation passes_receive_max := (Model.passes_receive_max enc dec ores ires).
  Notation throttled := (Model.throttled enc dec ores ires cfg).
  Notation has_pending_ack := (Model.has_pending_ack enc dec ores ires).
  Notation dequeue := (Model.dequeue enc dec ores ires cfg).
  Notation fully_written := (Model.fully_written enc dec ores ires).
  Notation sres := (Model.sres enc dec ores ires).
  Notation seat := (Model.seat enc dec ores ires).
  Notation seat_current := (Model.seat_current enc enc_reset dec ores ores_reset ores_resolve ires v_out cfg).
  Notation service_loop := (Model.service_loop enc enc_reset enc_call enc_done dec ores ores_reset ores_resolve ires v_out cfg).
  Notation service_queue := (Model.service_queue enc enc_reset enc_call enc_done dec ores ores_reset ores_resolve ires v_out cfg).
  Notation service_keep_alive := (Model.service_keep_alive enc dec ores ires cfg).
  Notation process_ack_timeouts := (Model.process_ack_timeouts enc dec ores ires cfg).
  Notation halt_on_error := (Model.halt_on_error enc dec ores ires).
  Notation service := (Model.service enc enc_reset enc_call enc_done dec ores ores_reset ores_resolve ires v_out cfg).
  Notation earliest_tmo := (Model.earliest_tmo enc dec ores ires).
  Notation nst_queue := (Model.nst_queue enc dec ores ires cfg).
  Notation next_service_time := (Model.next_service_time enc dec ores ires cfg).
  Notation build_settings := (Model.build_settings enc dec ores ires cfg).
  Notation apply_session := (Model.apply_session enc dec ores ires cfg).
  Notation hres := (Model.hres enc dec ores ires).
  Notation hres_of := (Model.hres_of enc dec ores ires).
  Notation pre_connack := (Model.pre_connack enc dec ores ires).
  Notation sum_ss := (Model.sum_ss enc dec ores ires).
  Notation handle_connack := (Model.handle_connack enc dec ores ores_reset ires ires_reset v_in cfg).
  Notation handle_pingresp := (Model.handle_pingresp enc dec ores ires).
  Notation handle_suback := (Model.handle_suback enc dec ores ires cfg).
  Notation handle_unsuback := (Model.handle_unsuback enc dec ores ires cfg).
  Notation publish_qos_of := (Model.publish_qos_of enc dec ores ires).
  Notation handle_puback := (Model.handle_puback enc dec ores ires cfg).
  Notation handle_pubrec := (Model.handle_pubrec enc dec ores ires cfg).
  Notation handle_pubrel := (Model.handle_pubrel enc dec ores ires).
  Notation handle_pubcomp := (Model.handle_pubcomp enc dec ores ires cfg).
  Notation handle_publish := (Model.handle_publish enc dec ores ires).
  Notation handle_disconnect := (Model.handle_disconnect enc dec ores ires cfg).
  Notation handle_packet := (Model.handle_packet enc dec ores ores_reset ires ires_reset v_in cfg).
  Notation handle_packets := (Model.handle_packets enc dec ores ores_reset ires ires_reset ires_resolve v_in cfg).
  Notation is_connect_op := (Model.is_connect_op enc dec ores ires).
  Notation connect_in_queue := (Model.connect_in_queue enc dec ores ires).
  Notation max_incoming_size := (Model.max_incoming_size cfg).
  Notation net_data := (Model.net_data enc dec dec_feed ores ores_reset ires ires_reset ires_resolve v_in cfg).
  Notation reset := (Model.reset enc dec ores ires cfg).
  Notation out_of_res := (Model.out_of_res enc dec ores ires).
  Notation step := (Model.step enc enc_reset enc_call enc_done dec dec_init dec_feed ores ores_reset ores_resolve ires ires_reset ires_resolve v_out v_in cfg).
  Notation run := (Model.run enc enc_reset enc_call enc_done dec dec_init dec_feed ores ores_reset ores_resolve ires ires_reset ires_resolve v_out v_in cfg).
  Notation SeatStop := (Model.SeatStop enc dec ores ires).
  Notation SeatContinue := (Model.SeatContinue enc dec ores ires).
  Notation SeatEncode := (Model.SeatEncode enc dec ores ires).
  Notation mkState := (Model.mkState enc dec ores ires).

  (* ---- C01: the id invariant and its consequences over whole runs.  No assumption about the
     components: the frame is instantiated with "any packet may receive the offline-policy error" ---- *)
  Definition any_packet : packet -> Prop := fun _ => True.
  Lemma any_policy : forall p, passes_policy (cf_policy cfg) p = false -> any_packet (norm p).
  Proof. intros; exact I. Qed.
  Lemma any_vout : forall st co r p, v_out st co r p = Err EOfflineQueuePolicyFailed -> forall q, any_packet q.
  Proof. intros; exact I. Qed.

  (* operation ids of the table are strictly increasing and below the id counter *)
  Definition ids_inv (s : state) : Prop :=
    inc (keys (s_ops s)) /\ Forall (fun k => k < s_next_id s) (keys (s_ops s)).
  (* user operations (those with a completion handler) never carry a DISCONNECT *)
  Definition user_inv (s : state) : Prop :=
    forall id o, lookup id (s_ops s) = Some o -> op_user o = true -> is_disconnect (op_packet o) = false.

  Notation facts := (step_facts_holds enc enc_reset enc_call enc_done dec dec_init dec_feed ores ores_reset ores_resolve
      ires ires_reset ires_resolve v_out v_in cfg any_packet any_policy any_vout).

  Lemma ids_inv_init o i : ids_inv (init o i).
  Proof. split; cbn; constructor. Qed.

  Lemma ids_inv_step s e : ids_inv s -> ids_inv (fst (step s e)).
  Proof. intros H. exact (sf_ids _ _ _ _ _ _ _ _ _ (facts s e H)). Qed.

  Lemma user_inv_step s e : ids_inv s -> user_inv s -> user_inv (fst (step s e)).
  Proof. intros H Hu. exact (sf_user _ _ _ _ _ _ _ _ _ (facts s e H) Hu). Qed.

  Lemma next_id_mono s e : ids_inv s -> s_next_id s <= s_next_id (fst (step s e)).
  Proof. intros H. exact (sf_next _ _ _ _ _ _ _ _ _ (facts s e H)). Qed.

  Lemma reachable_inv o i h : ids_inv (fst (run (init o i) h)) /\ user_inv (fst (run (init o i) h)).
  Proof.
    destruct (init_inv enc dec dec_init ores ires o i) as [H1 H2].
    exact (run_inv enc enc_reset enc_call enc_done dec dec_init dec_feed ores ores_reset ores_resolve
      ires ires_reset ires_resolve v_out v_in cfg any_packet any_policy any_vout h _ H1 H2).
  Qed.

  (* no operation id is completed twice in a run *)
  Theorem at_most_once o i h : NoDup (map fst (concat (map o_done (snd (run (init o i) h))))).
  Proof.
    destruct (init_inv enc dec dec_init ores ires o i) as [H1 _].
    exact (proj1 (at_most_once_gen enc enc_reset enc_call enc_done dec dec_init dec_feed ores ores_reset ores_resolve
      ires ires_reset ires_resolve v_out v_in cfg any_packet any_policy any_vout h _ H1)).
  Qed.

  (* ... and from any state satisfying the invariant *)
  Theorem at_most_once_from s h : ids_inv s -> NoDup (map fst (concat (map o_done (snd (run s h))))).
  Proof.
    intros H1.
    exact (proj1 (at_most_once_gen enc enc_reset enc_call enc_done dec dec_init dec_feed ores ores_reset ores_resolve
      ires ires_reset ires_resolve v_out v_in cfg any_packet any_policy any_vout h _ H1)).
  Qed.

  (* every completion is for an operation submitted by an earlier (or the same) EvUser step, with a
     non-DISCONNECT packet, and the completion value fits that packet *)
  Theorem done_was_submitted o i h n out id c :
    nth_error (snd (run (init o i) h)) n = Some out -> In (id, c) (o_done out) ->
    exists m now p t out', (m <= n)%nat /\ nth_error h m = Some (EvUser now p t) /\
      nth_error (snd (run (init o i) h)) m = Some out' /\ o_id out' = Some id /\
      is_disconnect p = false /\ comp_fits any_packet (norm p) c.
  Proof.
    intros Hn Hin. destruct (init_inv enc dec dec_init ores ires o i) as [H1 _].
    destruct (dones_submitted_gen enc enc_reset enc_call enc_done dec dec_init dec_feed ores ores_reset ores_resolve
      ires ires_reset ires_resolve v_out v_in cfg any_packet any_policy any_vout h _ H1 n out id c Hn Hin) as [Hs|(op0 & Hl & _)].
    - exact Hs.
    - cbn in Hl. discriminate.
  Qed.

  (* ---- C15 over whole runs: under the assumption that the outbound validator never reports the
     offline-policy error kind ---- *)
  Definition rejected : packet -> Prop := fun p => passes_policy (cf_policy cfg) p = false.
  Lemma rejected_policy : forall p, passes_policy (cf_policy cfg) p = false -> rejected (norm p).
  Proof. intros p H. unfold rejected. rewrite norm_policy. exact H. Qed.

  Theorem never_failed_if_preserved o i h n out id :
    (forall st co r p, v_out st co r p <> Err EOfflineQueuePolicyFailed) ->
    nth_error (snd (run (init o i) h)) n = Some out -> In (id, CompErr EOfflineQueuePolicyFailed) (o_done out) ->
    exists m now p t out', (m <= n)%nat /\ nth_error h m = Some (EvUser now p t) /\
      nth_error (snd (run (init o i) h)) m = Some out' /\ o_id out' = Some id /\
      passes_policy (cf_policy cfg) p = false.
  Proof.
    intros Hv Hn Hin. destruct (init_inv enc dec dec_init ores ires o i) as [H1 _].
    assert (Hvo : forall st co r p, v_out st co r p = Err EOfflineQueuePolicyFailed -> forall q, rejected q).
    { intros st co r p H. exfalso. exact (Hv st co r p H). }
    destruct (dones_submitted_gen enc enc_reset enc_call enc_done dec dec_init dec_feed ores ores_reset ores_resolve
      ires ires_reset ires_resolve v_out v_in cfg rejected rejected_policy Hvo h _ H1 n out id _ Hn Hin) as [Hs|(op0 & Hl & _)].
    - destruct Hs as (m & now & p & t & out' & Hle & He & Ho & Hid & _ & Hc). exists m, now, p, t, out'.
      repeat split; try assumption. unfold comp_ok, comp_fits, rejected in Hc. rewrite norm_policy in Hc. exact Hc.
    - cbn in Hl. discriminate.
  Qed.

  (* ---- reset at the step level ---- *)
  Theorem reset_clears s now : ids_inv s ->
    let s' := fst (step s (EvReset now)) in let o := snd (step s (EvReset now)) in
    o_res o = Ok tt /\
    s_ops s' = [] /\ s_uq s' = [] /\ s_rq s' = [] /\ s_hq s' = [] /\ s_cur s' = None /\
    s_ppub s' = [] /\ s_pnon s' = [] /\ s_pwco s' = [] /\ s_alloc s' = [] /\ s_tmo s' = [] /\
    s_q2in s' = [] /\ s_pwc s' = false /\ s_settings s' = None /\
    s_next_ping s' = None /\ s_ping_to s' = None /\ s_connack_to s' = None /\ s_next_id s' = s_next_id s.
  Proof.
    intros [Hinc _]. pose proof (reset_spec enc dec ores ires cfg s (inc_NoDup _ Hinc)) as H.
    cbn [Model.step Model.out_of_res fst snd o_res]. cbv zeta in H. tauto.
  Qed.

  Theorem reset_completes s now : ids_inv s -> user_inv s ->
    let o := snd (step s (EvReset now)) in
    NoDup (map fst (o_done o)) /\
    (forall id op0, lookup id (s_ops s) = Some op0 -> op_user op0 = true -> In (id, CompErr EClientClosed) (o_done o)) /\
    (forall id c, In (id, c) (o_done o) ->
       c = CompErr EClientClosed /\ exists op0, lookup id (s_ops s) = Some op0 /\ op_user op0 = true).
  Proof.
    intros [Hinc _] Hu. pose proof (inc_NoDup _ Hinc) as Hnd.
    destruct (reset_spec enc dec ores ires cfg s Hnd) as (_ & Hd & _).
    cbn [Model.step Model.out_of_res fst snd o_done]. rewrite Hd. split; [apply user_done_nodup; exact Hnd|]. split.
    - intros id op0 Hl Hus. apply (proj2 (user_done_in _ _ _ _ Hnd)). split; [reflexivity|]. exists op0. repeat split; try assumption.
      eapply Hu; eassumption.
    - intros id c Hin. apply (proj1 (user_done_in _ _ _ _ Hnd)) in Hin. destruct Hin as (-> & op0 & Hl & Hus & _). split; [reflexivity|].
      exists op0. split; assumption.
  Qed.

  (* both, for every state reachable from the initial one *)
  Theorem reset_reachable o i h now :
    let s := fst (run (init o i) h) in
    let s' := fst (step s (EvReset now)) in let out := snd (step s (EvReset now)) in
    o_res out = Ok tt /\
    (s_ops s' = [] /\ s_uq s' = [] /\ s_rq s' = [] /\ s_hq s' = [] /\ s_cur s' = None /\
     s_ppub s' = [] /\ s_pnon s' = [] /\ s_pwco s' = [] /\ s_alloc s' = [] /\ s_tmo s' = [] /\ s_q2in s' = []) /\
    NoDup (map fst (o_done out)) /\
    (forall id op0, lookup id (s_ops s) = Some op0 -> op_user op0 = true -> In (id, CompErr EClientClosed) (o_done out)) /\
    (forall id c, In (id, c) (o_done out) ->
       c = CompErr EClientClosed /\ exists op0, lookup id (s_ops s) = Some op0 /\ op_user op0 = true).
  Proof.
    destruct (reachable_inv o i h) as [H1 H2]. cbv zeta.
    pose proof (reset_clears _ now H1) as Hc. pose proof (reset_completes _ now H1 H2) as Hd. cbv zeta in Hc, Hd. tauto.
  Qed.

End Engine.
