From GM Require Import Base.Prelude Base.Outcome Codec.Packets Codec.Settings Engine.Model EngineProofs.AssocLemmas EngineProofs.IdsFrame.
From RecordUpdate Require Import RecordSet.
From Coq Require Import Sorting.Sorted.
Import RecordSetNotations.
Open Scope N_scope.

Section Engine.
  Variable enc : Type.
  Variable enc_reset : version -> packet -> resolution -> outcome enc.
  Variable enc_call : enc -> N -> N -> outcome (bytes * enc).
  Variable enc_done : enc -> bool.
  Variable dec : Type.
  Variable dec_init : dec.
  Variable dec_feed : version -> N -> dec -> bytes -> dec * list packet * outcome unit.
  Variable ores : Type.
  Variable ores_reset : ores -> N -> ores.
  Variable ores_resolve : ores -> option N -> bytes -> outcome (ores * resolution).
  Variable ires : Type.
  Variable ires_reset : ires -> ires.
  Variable ires_resolve : ires -> option N -> bytes -> outcome (ires * bytes).
  Variable v_out : option settings -> connect_opts -> resolution -> packet -> outcome unit.
  Variable v_in : option settings -> packet -> outcome unit.
  Variable cfg : config.

  Notation state := (Model.state enc dec ores ires).
  Notation init := (Model.init enc dec dec_init ores ires).
  Notation res := (Model.res enc dec ores ires).
  Notation release := (Model.release enc dec ores ires cfg).
  Notation disconnect_completion := (Model.disconnect_completion enc dec ores ires).
  Notation fail_op := (Model.fail_op enc dec ores ires cfg).
  Notation ping_extension := (Model.ping_extension enc dec ores ires).
  Notation succeed_op := (Model.succeed_op enc dec ores ires cfg).
  Notation fail_all := (Model.fail_all enc dec ores ires cfg).
  Notation succeed_all := (Model.succeed_all enc dec ores ires cfg).
  Notation andthen := (Model.andthen enc dec ores ires).
  Notation try_ := (Model.try_ enc dec ores ires).
  Notation pure := (Model.pure enc dec ores ires).
  Notation create_operation := (Model.create_operation enc dec ores ires).
  Notation passes_now := (Model.passes_now enc dec ores ires cfg).
  Notation user_event := (Model.user_event enc dec ores ires cfg).
  Notation create_connect := (Model.create_connect enc dec ores ires cfg).
  Notation net_opened := (Model.net_opened enc dec dec_init ores ires cfg).
  Notation op_exists := (Model.op_exists enc dec ores ires).
  Notation op_passes := (Model.op_passes enc dec ores ires cfg).
  Notation partition_policy := (Model.partition_policy enc dec ores ires cfg).
  Notation closed_current := (Model.closed_current enc dec ores ires cfg).
  Notation slow_start_init := (Model.slow_start_init enc dec ores ires cfg).
  Notation update_retries := (Model.update_retries enc dec ores ires cfg).
  Notation fail_exceeding := (Model.fail_exceeding enc dec ores ires cfg).
  Notation has_pubrel := (Model.has_pubrel enc dec ores ires).
  Notation net_closed_raw := (Model.net_closed_raw enc dec ores ires cfg).
  Notation net_closed := (Model.net_closed enc dec ores ires cfg).
  Notation net_write_completion := (Model.net_write_completion enc dec ores ires cfg).
  Notation acquire_free_pid := (Model.acquire_free_pid enc dec ores ires).
  Notation acquire_pid_for := (Model.acquire_pid_for enc dec ores ires).
  Notation unbind := (Model.unbind enc dec ores ires).
  Notation passes_receive_max := (Model.passes_receive_max enc dec ores ires).
  Notation throttled := (Model.throttled enc dec ores ires cfg).
  Notation has_pending_ack := (Model.has_pending_ack enc dec ores ires).
  Notation dequeue := (Model.dequeue enc dec ores ires cfg).
  Notation fully_written := (Model.fully_written enc dec ores ires).
  Notation sres := (Model.sres enc dec ores ires).
  Notation seat := (Model.seat enc dec ores ires).
  Notation seat_current := (Model.seat_current enc enc_reset dec ores ores_reset ores_resolve ires v_out cfg).
  Notation service_loop := (Model.service_loop enc enc_reset enc_call enc_done dec ores ores_reset ores_resolve ires v_out cfg).
  Notation service_queue := (Model.service_queue enc enc_reset enc_call enc_done dec ores ores_reset ores_resolve ires v_out cfg).
  Notation service_keep_alive := (Model.service_keep_alive enc dec ores ires cfg).
  Notation process_ack_timeouts := (Model.process_ack_timeouts enc dec ores ires cfg).
  Notation halt_on_error := (Model.halt_on_error enc dec ores ires).
  Notation service := (Model.service enc enc_reset enc_call enc_done dec ores ores_reset ores_resolve ires v_out cfg).
  Notation earliest_tmo := (Model.earliest_tmo enc dec ores ires).
  Notation nst_queue := (Model.nst_queue enc dec ores ires cfg).
  Notation next_service_time := (Model.next_service_time enc dec ores ires cfg).
  Notation build_settings := (Model.build_settings enc dec ores ires cfg).
  Notation apply_session := (Model.apply_session enc dec ores ires cfg).
  Notation hres := (Model.hres enc dec ores ires).
  Notation hres_of := (Model.hres_of enc dec ores ires).
  Notation pre_connack := (Model.pre_connack enc dec ores ires).
  Notation sum_ss := (Model.sum_ss enc dec ores ires).
  Notation handle_connack := (Model.handle_connack enc dec ores ores_reset ires ires_reset v_in cfg).
  Notation handle_pingresp := (Model.handle_pingresp enc dec ores ires).
  Notation handle_suback := (Model.handle_suback enc dec ores ires cfg).
  Notation handle_unsuback := (Model.handle_unsuback enc dec ores ires cfg).
  Notation publish_qos_of := (Model.publish_qos_of enc dec ores ires).
  Notation handle_puback := (Model.handle_puback enc dec ores ires cfg).
  Notation handle_pubrec := (Model.handle_pubrec enc dec ores ires cfg).
  Notation handle_pubrel := (Model.handle_pubrel enc dec ores ires).
  Notation handle_pubcomp := (Model.handle_pubcomp enc dec ores ires cfg).
  Notation handle_publish := (Model.handle_publish enc dec ores ires).
  Notation handle_disconnect := (Model.handle_disconnect enc dec ores ires cfg).
  Notation handle_packet := (Model.handle_packet enc dec ores ores_reset ires ires_reset v_in cfg).
  Notation handle_packets := (Model.handle_packets enc dec ores ores_reset ires ires_reset ires_resolve v_in cfg).
  Notation is_connect_op := (Model.is_connect_op enc dec ores ires).
  Notation connect_in_queue := (Model.connect_in_queue enc dec ores ires).
  Notation max_incoming_size := (Model.max_incoming_size cfg).
  Notation net_data := (Model.net_data enc dec dec_feed ores ores_reset ires ires_reset ires_resolve v_in cfg).
  Notation reset := (Model.reset enc dec ores ires cfg).
  Notation out_of_res := (Model.out_of_res enc dec ores ires).
  Notation step := (Model.step enc enc_reset enc_call enc_done dec dec_init dec_feed ores ores_reset ores_resolve ires ires_reset ires_resolve v_out v_in cfg).
  Notation run := (Model.run enc enc_reset enc_call enc_done dec dec_init dec_feed ores ores_reset ores_resolve ires ires_reset ires_resolve v_out v_in cfg).
  Notation SeatStop := (Model.SeatStop enc dec ores ires).
  Notation SeatContinue := (Model.SeatContinue enc dec ores ires).
  Notation SeatEncode := (Model.SeatEncode enc dec ores ires).
  Notation mkState := (Model.mkState enc dec ores ires).

  (* which packets may receive the offline-policy error: instantiated with [fun _ => True] for C01
     (no assumption about the components) and with the policy table for C15 (assuming that the
     outbound validator never reports that error kind) *)
  Variable offl : packet -> Prop.
  Hypothesis offl_policy : forall p, passes_policy (cf_policy cfg) p = false -> offl (norm p).
  Hypothesis offl_vout : forall st co r p, v_out st co r p = Err EOfflineQueuePolicyFailed -> forall q, offl q.
  Notation pol := offl.
  Definition ost_of (s : state) : ost := (s_ops s, s_next_id s).
  Definition Ts (s s' : state) (dn : dones) : Prop := T pol (ost_of s) (ost_of s') dn.
  Definition Tr (s : state) (r : res) : Prop := Ts s (r_s r) (r_done r).

  Lemma Ts_same s s' : s_ops s' = s_ops s -> s_next_id s' = s_next_id s -> Ts s s' [].
  Proof. intros H1 H2. unfold Ts, ost_of. rewrite H1, H2. apply T_refl. Qed.

  Lemma Ts_from s0 s s' dn : s_ops s0 = s_ops s -> s_next_id s0 = s_next_id s -> Ts s s' dn -> Ts s0 s' dn.
  Proof. intros H1 H2. unfold Ts, ost_of. rewrite H1, H2. exact (fun H => H). Qed.

  Lemma Ts_trans s s1 s2 d1 d2 : Ts s s1 d1 -> Ts s1 s2 d2 -> Ts s s2 (d1 ++ d2).
  Proof. apply T_trans. Qed.
  Lemma Ts_trans_l s s1 s2 d : Ts s s1 [] -> Ts s1 s2 d -> Ts s s2 d.
  Proof. apply T_trans_nil_l. Qed.
  Lemma Ts_trans_r s s1 s2 d : Ts s s1 d -> Ts s1 s2 [] -> Ts s s2 d.
  Proof. apply T_trans_nil_r. Qed.

  (* ---- release / completion ---- *)
  Ltac dm := match goal with
    | |- context [match ?x with _ => _ end] => destruct x eqn:?
    end.
  Ltac dmh H := match type of H with
    | context [match ?x with _ => _ end] => destruct x eqn:?
    end.

  Lemma release_ops s id o s1 : release s id o = Ok s1 ->
    s_ops s1 = remove id (s_ops s) /\ s_next_id s1 = s_next_id s.
  Proof.
    unfold Model.release. destruct (op_pid o); cbn; repeat dm; intros H; inversion H; subst; cbn; split; reflexivity.
  Qed.

  Lemma disconnect_completion_ops s o :
    s_ops (fst (disconnect_completion s o)) = s_ops s /\ s_next_id (fst (disconnect_completion s o)) = s_next_id s.
  Proof. unfold Model.disconnect_completion. repeat dm; cbn; split; reflexivity. Qed.

  Lemma disconnect_completion_ok s o s2 : disconnect_completion s o = (s2, Ok tt) -> is_disconnect (op_packet o) = false.
  Proof. unfold Model.disconnect_completion. destruct (is_disconnect (op_packet o)); [discriminate|reflexivity]. Qed.

  Lemma ping_extension_ops s o : s_ops (ping_extension s o) = s_ops s /\ s_next_id (ping_extension s o) = s_next_id s.
  Proof. unfold Model.ping_extension. repeat dm; cbn; split; reflexivity. Qed.

  (* what fail_op does to the table and which completion it fires *)
  Lemma fail_op_spec s id e : let r := fail_op s id e in
    s_next_id (r_s r) = s_next_id s /\
    ((s_ops (r_s r) = s_ops s /\ r_done r = []) \/
     exists o, lookup id (s_ops s) = Some o /\ s_ops (r_s r) = remove id (s_ops s) /\
       (r_done r = [] \/ (op_user o = true /\ is_disconnect (op_packet o) = false /\ r_done r = [(id, CompErr e)]))).
  Proof.
    unfold Model.fail_op. destruct (lookup id (s_ops s)) as [o|] eqn:El; [|cbn; auto].
    destruct (release s id o) as [s1| |] eqn:Er; [|cbn; auto|cbn; auto].
    destruct (release_ops _ _ _ _ Er) as [Ho Hn].
    destruct (disconnect_completion s1 o) as [s2 r] eqn:Ed.
    pose proof (disconnect_completion_ops s1 o) as [Ho2 Hn2]. rewrite Ed in Ho2, Hn2. cbn [fst] in Ho2, Hn2.
    destruct r as [[]| |]; [destruct (op_user o) eqn:Eu|..]; cbn; (split; [congruence|]); right; exists o;
      (split; [reflexivity|]); (split; [congruence|]); auto.
    right. repeat split; try reflexivity; try assumption. eapply disconnect_completion_ok. exact Ed.
  Qed.

  Lemma succeed_op_spec s id resp : let r := succeed_op s id resp in
    s_next_id (r_s r) = s_next_id s /\
    ((s_ops (r_s r) = s_ops s /\ r_done r = []) \/
     exists o, lookup id (s_ops s) = Some o /\ s_ops (r_s r) = remove id (s_ops s) /\
       (r_done r = [] \/ (op_user o = true /\ is_disconnect (op_packet o) = false /\
                          exists c, success_value o resp = Ok c /\ r_done r = [(id, c)]))).
  Proof.
    unfold Model.succeed_op. destruct (lookup id (s_ops s)) as [o|] eqn:El; [|cbn; auto].
    destruct (release s id o) as [s1| |] eqn:Er; [|cbn; auto|cbn; auto].
    destruct (release_ops _ _ _ _ Er) as [Ho Hn].
    destruct (disconnect_completion (ping_extension s1 o) o) as [s2 r] eqn:Ed.
    pose proof (disconnect_completion_ops (ping_extension s1 o) o) as [Ho2 Hn2]. rewrite Ed in Ho2, Hn2. cbn [fst] in Ho2, Hn2.
    destruct (ping_extension_ops s1 o) as [Ho3 Hn3].
    destruct r as [[]| |]; [destruct (op_user o) eqn:Eu; [destruct (success_value o resp) as [c| |] eqn:Es|]|..]; cbn;
      (split; [congruence|]); right; exists o; (split; [reflexivity|]); (split; [congruence|]); auto.
    right. repeat split; try reflexivity; try assumption; [eapply disconnect_completion_ok; exact Ed|]. exists c. split; [exact Es|reflexivity].
  Qed.

  Definition err_fits (e : errkind) (ops : list (N * op)) (ids : list N) : Prop :=
    e = EOfflineQueuePolicyFailed ->
    forall id o, In id ids -> lookup id ops = Some o -> offl (norm (op_packet o)).

  Lemma Ts_of_spec s s' id dn (c : completion) :
    s_next_id s' = s_next_id s ->
    ((s_ops s' = s_ops s /\ dn = []) \/
     exists o, lookup id (s_ops s) = Some o /\ s_ops s' = remove id (s_ops s) /\
       (dn = [] \/ (op_user o = true /\ dn = [(id, c)] /\ comp_ok pol (op_packet o) c))) ->
    Ts s s' dn.
  Proof.
    intros Hn [[Ho ->]|(o & Hl & Ho & Hd)]; [apply Ts_same; assumption|].
    unfold Ts, ost_of. rewrite Hn, Ho. eapply T_remove; [exact Hl|].
    destruct Hd as [->|(Hu & -> & Hc)]; [left; reflexivity|right; exists c; auto].
  Qed.

  Lemma fail_op_T s id e : err_fits e (s_ops s) [id] -> Tr s (fail_op s id e).
  Proof.
    intros He. destruct (fail_op_spec s id e) as [Hn Hs]. unfold Tr. eapply Ts_of_spec with (id := id) (c := CompErr e); [exact Hn|].
    destruct Hs as [?|(o & Hl & Ho & Hd)]; [left; assumption|]. right. exists o. split; [exact Hl|split; [exact Ho|]].
    destruct Hd as [?|(Hu & _ & Hd)]; [left; assumption|right]. split; [exact Hu|split; [exact Hd|]].
    destruct (errkind_eqb e EOfflineQueuePolicyFailed) eqn:E.
    - assert (e = EOfflineQueuePolicyFailed) by (destruct e; try discriminate; reflexivity). subst.
      apply comp_ok_offline. eapply He; [reflexivity|left; reflexivity|exact Hl].
    - apply comp_ok_err. intros ->. discriminate.
  Qed.

  Lemma fail_op_sub s id e : ops_sub (s_ops s) (s_ops (r_s (fail_op s id e))).
  Proof.
    destruct (fail_op_spec s id e) as [_ [[-> _]|(o & _ & -> & _)]]; [apply ops_sub_refl|apply ops_sub_remove].
  Qed.

  Lemma err_fits_sub e ops ops' ids : ops_sub ops ops' -> err_fits e ops ids -> err_fits e ops' ids.
  Proof. intros Hs H He id o Hin Hl. eapply H; eauto. Qed.

  Lemma err_fits_cons e ops id ids : err_fits e ops (id :: ids) -> err_fits e ops [id] /\ err_fits e ops ids.
  Proof.
    intros H. split; intros He k o Hin Hl; eapply H; eauto; [destruct Hin as [<-|[]]; left; reflexivity | right; exact Hin].
  Qed.

  Lemma fail_all_T ids : forall s e, err_fits e (s_ops s) ids -> Tr s (fail_all s ids e).
  Proof.
    induction ids as [|id r IH]; intros s e He; cbn [Model.fail_all]; [apply Ts_same; reflexivity|].
    destruct (err_fits_cons _ _ _ _ He) as [He1 He2].
    pose proof (fail_op_T s id e He1) as H1.
    destruct (is_panic (r_out (fail_op s id e))); [exact H1|].
    assert (H2 : Tr (r_s (fail_op s id e)) (fail_all (r_s (fail_op s id e)) r e)).
    { apply IH. eapply err_fits_sub; [apply fail_op_sub|exact He2]. }
    destruct (is_panic _); unfold Tr; cbn [r_s r_done]; eapply Ts_trans; eassumption.
  Qed.

  Lemma fail_all_sub ids : forall s e, ops_sub (s_ops s) (s_ops (r_s (fail_all s ids e))).
  Proof.
    induction ids as [|id r IH]; intros s e; cbn [Model.fail_all]; [apply ops_sub_refl|].
    destruct (is_panic (r_out (fail_op s id e))); [apply fail_op_sub|].
    destruct (is_panic _); cbn [r_s]; (eapply ops_sub_trans; [apply fail_op_sub|apply IH]).
  Qed.

  (* a response handed to succeed_op fits the operation it completes *)
  Definition resp_fits (p : packet) (resp : option packet) : Prop :=
    match resp, p with
    | Some (Suback a), Subscribe x => len (sa_codes a) = len (s_subs x)
    | Some (Unsuback a), Unsubscribe x => len (ua_codes a) = len (u_filters x)
    | _, _ => True
    end.

  Lemma success_value_fits o resp c : resp_fits (op_packet o) resp -> success_value o resp = Ok c -> comp_ok pol (op_packet o) c.
  Proof.
    unfold success_value, resp_fits, comp_ok. destruct (op_packet o) as [| | pb | | | | | x | | x | | | | |]; try discriminate.
    - destruct resp as [[]|]; intros _ H; inversion H; subst; reflexivity.
    - destruct resp as [[]|]; intros Hf H; inversion H; subst. cbn. eexists. split; [reflexivity|exact Hf].
    - destruct resp as [[]|]; intros Hf H; inversion H; subst. cbn. eexists. split; [reflexivity|exact Hf].
  Qed.

  Lemma succeed_op_T s id resp :
    (forall o, lookup id (s_ops s) = Some o -> resp_fits (op_packet o) resp) -> Tr s (succeed_op s id resp).
  Proof.
    intros Hf. destruct (succeed_op_spec s id resp) as [Hn Hs]. unfold Tr.
    destruct Hs as [?|(o & Hl & Ho & Hd)]; [eapply Ts_of_spec with (id := id) (c := CompErr EAckTimeout); [exact Hn|left; assumption]|].
    destruct Hd as [Hd|(Hu & _ & c & Hc & Hd)].
    - eapply Ts_of_spec with (id := id) (c := CompErr EAckTimeout); [exact Hn|]. right. exists o. split; [exact Hl|split; [exact Ho|left; exact Hd]].
    - eapply Ts_of_spec with (id := id) (c := c); [exact Hn|]. right. exists o. split; [exact Hl|split; [exact Ho|]]. right.
      split; [exact Hu|split; [exact Hd|]]. eapply success_value_fits; [apply Hf; exact Hl|exact Hc].
  Qed.

  Lemma succeed_all_T ids : forall s, Tr s (succeed_all s ids).
  Proof.
    induction ids as [|id r IH]; intros s; cbn [Model.succeed_all]; [apply Ts_same; reflexivity|].
    assert (H1 : Tr s (succeed_op s id None)) by (apply succeed_op_T; intros; exact I).
    destruct (is_panic (r_out (succeed_op s id None))); [exact H1|].
    pose proof (IH (r_s (succeed_op s id None))) as H2.
    destruct (is_panic _); unfold Tr; cbn [r_s r_done]; eapply Ts_trans; eassumption.
  Qed.

  (* ---- sequencing ---- *)
  Lemma andthen_T s r f : Tr s r -> (forall s1, Tr s1 (f s1)) -> Tr s (andthen r f).
  Proof.
    intros H1 H2. unfold Model.andthen. destruct (is_panic (r_out r)); [exact H1|].
    specialize (H2 (r_s r)). destruct (is_panic _); unfold Tr; cbn [r_s r_done]; eapply Ts_trans; eassumption.
  Qed.

  Lemma try_T s r f : Tr s r -> (forall s1, Tr s1 (f s1)) -> Tr s (try_ r f).
  Proof.
    intros H1 H2. unfold Model.try_. destruct (r_out r); [|exact H1|exact H1].
    specialize (H2 (r_s r)). unfold Tr; cbn [r_s r_done]; eapply Ts_trans; eassumption.
  Qed.

  Lemma pure_T s s' : s_ops s' = s_ops s -> s_next_id s' = s_next_id s -> Tr s (pure s').
  Proof. intros. unfold Tr, Model.pure. cbn [r_s r_done]. apply Ts_same; assumption. Qed.

  Lemma Tr_from s0 s r : s_ops s0 = s_ops s -> s_next_id s0 = s_next_id s -> Tr s r -> Tr s0 r.
  Proof. intros H1 H2. unfold Tr. apply Ts_from; assumption. Qed.

  Lemma Tr_trans_l s s1 r : Ts s s1 [] -> Tr s1 r -> Tr s r.
  Proof. unfold Tr. apply Ts_trans_l. Qed.

  Lemma create_T s o : op_user o = false -> Ts s (fst (create_operation s o)) [].
  Proof. intros Hu. unfold Ts, ost_of, Model.create_operation. cbn. apply T_create. exact Hu. Qed.

  (* ---- field updates that keep an operation the same ---- *)
  Lemma same_set_ss v o : same_op o (set_ss v o).
  Proof. split; reflexivity. Qed.
  Lemma same_bump_intr o : same_op o (bump_intr o).
  Proof. split; reflexivity. Qed.
  Lemma same_set_dup v o : same_op o (set_dup v o).
  Proof. unfold set_dup. destruct (op_packet o) eqn:E; try apply same_op_refl. split; cbn; [reflexivity|]. rewrite E. reflexivity. Qed.

  Ltac tsame := first [ apply pure_T; reflexivity | apply Ts_same; reflexivity ].

  (* ---- user events ---- *)
  Lemma user_event_T s p t :
    ids_ok (ost_of s) ->
    Tr (fst (create_operation s (new_op p (negb (is_disconnect p)) (if is_disconnect p then None else t)))) (user_event s p t).
  Proof.
    intros H0. unfold Model.user_event.
    set (o := new_op p (negb (is_disconnect p)) (if is_disconnect p then None else t)).
    destruct (create_operation s o) as [s1 id] eqn:Ec. cbn [fst].
    assert (Hs1 : s1 = s <| s_next_id := s_next_id s + 1 |> <| s_ops := s_ops s ++ [(s_next_id s, o)] |> /\ id = s_next_id s).
    { unfold Model.create_operation in Ec. inversion Ec. split; reflexivity. }
    destruct Hs1 as [Hs1 Hid].
    destruct (negb (passes_now s1 p)) eqn:Ep.
    - unfold Tr. cbn [r_s r_done]. apply fail_op_T. intros _ k o' [<-|[]] Hl.
      assert (Hfresh : ~ In id (keys (s_ops s))).
      { intros Hin. destruct H0 as [_ Hb]. rewrite Forall_forall in Hb. apply Hb in Hin. cbn [ost_of snd] in Hin. lia. }
      rewrite Hs1 in Hl. cbn in Hl. rewrite <- Hid in Hl. rewrite (lookup_app_last _ _ _ _ Hfresh), N.eqb_refl in Hl.
      inversion Hl; subst o'. cbn [o new_op op_packet]. apply offl_policy.
      unfold Model.passes_now in Ep. destruct (pstate_eqb (s_st s1) Connected); [discriminate|].
      destruct (passes_policy (cf_policy cfg) p); [discriminate|reflexivity].
    - destruct (is_disconnect p); tsame.
  Qed.

  (* ---- connection opened ---- *)
  Lemma net_opened_T s d : Tr s (net_opened s d).
  Proof.
    unfold Model.net_opened. dm; [tsame|]. unfold Tr, Ts, ost_of, Model.create_operation, Model.pure. cbn.
    apply T_create. reflexivity.
  Qed.

  (* ---- connection closed ---- *)
  Lemma closed_current_T s : Tr s (closed_current s).
  Proof.
    unfold Model.closed_current. destruct (s_cur s) as [id|]; [|tsame].
    apply try_T; [|intros; tsame].
    destruct (lookup id (s_ops s)) as [o|] eqn:El; [|tsame].
    assert (Hoff : passes_policy (cf_policy cfg) (op_packet o) = false -> Tr s (fail_op s id EOfflineQueuePolicyFailed)).
    { intros Hp. apply fail_op_T. intros _ k o' [<-|[]] Hl. replace o' with o by congruence. apply offl_policy. exact Hp. }
    assert (Hcc : Tr s (fail_op s id EConnectionClosed)) by (apply fail_op_T; intros ?; discriminate).
    destruct (op_packet o) eqn:Ep; try exact Hcc.
    - repeat dm; try tsame; apply Hoff; first [assumption|reflexivity].
    - repeat dm; try tsame; apply Hoff; first [assumption|reflexivity].
    - repeat dm; try tsame; apply Hoff; first [assumption|reflexivity].
  Qed.

  Lemma slow_start_init_T s s' : slow_start_init s = Ok s' -> Ts s s' [].
  Proof.
    unfold Model.slow_start_init. repeat dm; intros H; inversion H; subst; try (apply Ts_same; reflexivity).
    unfold Ts, ost_of. cbn. apply T_fold_update. apply same_set_ss.
  Qed.

  Lemma update_retries_T s s' : update_retries s = Ok s' -> Ts s s' [].
  Proof.
    unfold Model.update_retries. repeat dm; intros H; inversion H; subst; try (apply Ts_same; reflexivity).
    unfold Ts, ost_of. cbn. apply T_fold_update. apply same_bump_intr.
  Qed.

  Lemma err_fits_other e ops ids : e <> EOfflineQueuePolicyFailed -> err_fits e ops ids.
  Proof. intros H He. contradiction. Qed.

  Lemma fail_exceeding_T s : Tr s (fail_exceeding s).
  Proof.
    unfold Model.fail_exceeding. destruct (cf_retry cfg) as [limit|]; [|tsame].
    dm; [tsame|]. apply andthen_T; [apply fail_all_T; apply err_fits_other; discriminate|].
    intros s1. dm; [tsame|]. apply fail_all_T; apply err_fits_other; discriminate.
  Qed.

  (* operations rejected by partition_policy fail the policy *)
  Lemma partition_rejected_fits s q ops :
    ops = s_ops s -> err_fits EOfflineQueuePolicyFailed ops (snd (partition_policy s q)).
  Proof.
    intros -> _ id o Hin Hl. unfold Model.partition_policy in Hin. cbn [snd] in Hin.
    apply filter_In in Hin. destruct Hin as [_ Hp]. unfold Model.op_passes in Hp. rewrite Hl in Hp.
    apply offl_policy. destruct (passes_policy (cf_policy cfg) (op_packet o)); [discriminate|reflexivity].
  Qed.

  Lemma net_closed_raw_T s : Tr s (net_closed_raw s).
  Proof.
    unfold Model.net_closed_raw. dm; [tsame|].
    apply try_T; [eapply Tr_from; [| |apply closed_current_T]; reflexivity|].
    intros s1. destruct (slow_start_init s1) as [s2| |] eqn:E2; [|tsame|tsame].
    pose proof (slow_start_init_T _ _ E2) as H2.
    destruct (update_retries s2) as [s3| |] eqn:E3; [|unfold Tr; cbn [r_s r_done]; exact H2|unfold Tr; cbn [r_s r_done]; exact H2].
    pose proof (update_retries_T _ _ E3) as H3.
    assert (H13 : Ts s1 s3 []) by (eapply Ts_trans_l; eassumption).
    eapply Tr_trans_l; [exact H13|].
    apply andthen_T; [eapply Tr_from; [| |apply fail_all_T; apply err_fits_other; discriminate]; reflexivity|].
    intros s5. destruct (partition_policy s5 (s_pwco s5)) as [kept rejected] eqn:Epp.
    apply andthen_T.
    { eapply Tr_from; [| |apply fail_all_T]; [reflexivity|reflexivity|].
      replace rejected with (snd (partition_policy s5 (s_pwco s5))) by (rewrite Epp; reflexivity).
      apply partition_rejected_fits. reflexivity. }
    intros s7. apply andthen_T; [apply fail_exceeding_T|].
    intros s8.
    match goal with |- context [partition_policy ?s10 ?q] => set (s10v := s10); destruct (partition_policy s10v q) as [kept_u rejected_u] eqn:Epu end.
    assert (H810 : Ts s8 s10v []).
    { unfold Ts, ost_of, s10v. cbn. apply T_fold_update. apply same_set_dup. }
    eapply Tr_trans_l; [exact H810|].
    apply andthen_T; [|intros; tsame].
    eapply Tr_from; [| |apply fail_all_T]; [reflexivity|reflexivity|].
    match type of Epu with partition_policy _ ?q = _ => replace rejected_u with (snd (partition_policy s10v q)) by (rewrite Epu; reflexivity) end.
    apply partition_rejected_fits. reflexivity.
  Qed.

  Lemma net_closed_T s : Tr s (net_closed s).
  Proof.
    unfold Model.net_closed. pose proof (net_closed_raw_T s) as H. dm; [exact H|]. repeat dm; exact H.
  Qed.

  Lemma net_write_completion_T s : Tr s (net_write_completion s).
  Proof.
    unfold Model.net_write_completion. dm; [tsame|]. dm; [tsame|].
    eapply Tr_from; [| |apply succeed_all_T]; reflexivity.
  Qed.


  (* ---- packet ids ---- *)
  Lemma acquire_free_pid_ops s id s1 pid : acquire_free_pid s id = Ok (s1, pid) ->
    s_ops s1 = s_ops s /\ s_next_id s1 = s_next_id s.
  Proof. unfold Model.acquire_free_pid. repeat dm; intros H; inversion H; subst; split; reflexivity. Qed.

  Lemma T_update_at pol' ops n id o (f : op -> op) :
    lookup id ops = Some o -> same_op o (f o) -> T pol' (ops, n) (update id f ops, n) [].
  Proof.
    intros El Hf H0. split; [split; cbn [fst snd]; rewrite keys_update; apply H0|]. split; [cbn [snd]; lia|].
    split; [|split; [constructor|intros ? ? []]].
    intros k o' Hl. cbn [fst snd] in *. left. destruct (N.eq_dec k id) as [->|Hne].
    - rewrite (lookup_update_eq _ _ _ _ El) in Hl. inversion Hl; subst. exists o. split; [exact El|exact Hf].
    - rewrite (lookup_update_neq _ _ _ _ Hne) in Hl. exists o'. split; [exact Hl|apply same_op_refl].
  Qed.

  Lemma acquire_pid_for_T s id s' : acquire_pid_for s id = Ok s' -> Ts s s' [].
  Proof.
    unfold Model.acquire_pid_for. destruct (lookup id (s_ops s)) as [o|] eqn:El; [|discriminate].
    destruct (op_pid o); [intros H; inversion H; apply Ts_same; reflexivity|].
    destruct (negb (needs_pid (op_packet o))); [intros H; inversion H; apply Ts_same; reflexivity|].
    destruct (acquire_free_pid s id) as [[s1 pid]| |] eqn:Ea; cbn [obind]; try discriminate.
    destruct (acquire_free_pid_ops _ _ _ _ Ea) as [Ho Hn].
    destruct (with_pid pid (op_packet o)) as [p'| |] eqn:Ew; cbn [obind]; try discriminate.
    intros H; inversion H; subst. unfold Ts, ost_of. cbn. rewrite Ho, Hn.
    eapply T_update_at; [exact El|]. split; cbn; [reflexivity|]. eapply norm_with_pid. exact Ew.
  Qed.

  Lemma unbind_T s id : Ts s (unbind s id) [].
  Proof.
    unfold Model.unbind. destruct (lookup id (s_ops s)) as [o|] eqn:El; [|apply Ts_same; reflexivity].
    eapply Ts_trans_l with (s1 := match op_pid o with Some pid => match with_pid 0 (op_packet o) with Ok p' => _ | _ => s end | None => s end).
    2: { unfold Ts, ost_of. cbn. apply T_update. intros; split; reflexivity. }
    destruct (op_pid o) as [pid|]; [|apply Ts_same; reflexivity].
    destruct (with_pid 0 (op_packet o)) as [p'| |] eqn:Ew; try (apply Ts_same; reflexivity).
    unfold Ts, ost_of. cbn. eapply T_update_at; [exact El|]. split; cbn; [reflexivity|]. eapply norm_with_pid. exact Ew.
  Qed.

  Lemma fold_unbind_T ids : forall s, Ts s (fold_left unbind ids s) [].
  Proof.
    induction ids as [|id r IH]; intros s; cbn [fold_left]; [apply Ts_same; reflexivity|].
    eapply Ts_trans_l; [apply unbind_T|apply IH].
  Qed.

  Lemma dequeue_ops s m : s_ops (fst (dequeue s m)) = s_ops s /\ s_next_id (fst (dequeue s m)) = s_next_id s.
  Proof. unfold Model.dequeue. repeat dm; cbn; split; reflexivity. Qed.

  Lemma fully_written_T s now s' : fully_written s now = Ok s' -> Ts s s' [].
  Proof.
    unfold Model.fully_written. destruct (s_cur s) as [id|]; [|discriminate].
    destruct (lookup id (s_ops s)) as [o|] eqn:El; [|discriminate].
    match goal with |- context [update id ?f (s_ops ?s1)] => set (s1v := s1); set (fv := f) end.
    assert (H1 : s_ops s1v = s_ops s /\ s_next_id s1v = s_next_id s).
    { unfold s1v. repeat dm; cbn; split; reflexivity. }
    destruct H1 as [Ho Hn].
    assert (H2 : Ts s (s1v <| s_ops := update id fv (s_ops s1v) |>) []).
    { unfold Ts, ost_of. cbn. rewrite Ho, Hn. apply T_update. intros; split; reflexivity. }
    repeat dm; cbn [obind]; intros H; inversion H; subst; (eapply Ts_trans_r; [exact H2|apply Ts_same; reflexivity]).
  Qed.


  (* ---- service ---- *)
  Definition Tsr (s : state) (dn : dones) (r : sres) : Prop := exists d, sr_done r = dn ++ d /\ Ts s (sr_s r) d.

  Lemma Tsr_nil s dn s' x y : Ts s s' [] -> Tsr s dn (mkSres s' x dn y).
  Proof. intros H. exists []. cbn [sr_done sr_s]. rewrite app_nil_r. split; [reflexivity|exact H]. Qed.

  Lemma seat_current_T s m acc dn :
    match seat_current s m acc dn with
    | Model.SeatStop _ _ _ _ r => Tsr s dn r
    | Model.SeatContinue _ _ _ _ s5 dn' => exists d, dn' = dn ++ d /\ Ts s s5 d
    | Model.SeatEncode _ _ _ _ s5 => Ts s s5 []
    end.
  Proof.
    unfold Model.seat_current. destruct (s_cur s); [apply Ts_same; reflexivity|].
    destruct (dequeue s m) as [s1 next] eqn:Ed.
    pose proof (dequeue_ops s m) as [Ho1 Hn1]. rewrite Ed in Ho1, Hn1. cbn [fst] in Ho1, Hn1.
    assert (H1 : Ts s s1 []) by (apply Ts_same; assumption).
    destruct next as [id|]; [|apply Tsr_nil; exact H1].
    destruct (negb (op_exists (s1 <| s_cur := Some id |>) id)).
    { exists []. rewrite app_nil_r. split; [reflexivity|]. eapply Ts_trans_l; [exact H1|apply Ts_same; reflexivity]. }
    destruct (acquire_pid_for (s1 <| s_cur := Some id |>) id) as [s3| |] eqn:Ea;
      [|apply Tsr_nil; eapply Ts_trans_l; [exact H1|apply Ts_same; reflexivity]..].
    assert (H3 : Ts s s3 []).
    { eapply Ts_trans_l; [exact H1|]. eapply Ts_from; [| |eapply acquire_pid_for_T; exact Ea]; reflexivity. }
    destruct (lookup id (s_ops s3)) as [o|] eqn:El; [|apply Tsr_nil; exact H3].
    match goal with |- context [match ?res with Ok _ => _ | Err _ => _ | Panic _ => _ end] =>
      assert (Hres : forall s4 r, res = Ok (s4, r) -> s_ops s4 = s_ops s3 /\ s_next_id s4 = s_next_id s3);
      [|destruct res as [[s4 r]| |] eqn:Eres] end.
    { intros s4 r. unfold obind. repeat dm; intros H; inversion H; subst; split; reflexivity. }
    2,3: apply Tsr_nil; exact H3.
    destruct (Hres s4 r eq_refl) as [Ho4 Hn4].
    assert (H4 : Ts s s4 []) by (eapply Ts_trans_r; [exact H3|apply Ts_same; assumption]).
    match goal with |- context [v_out ?a ?b ?c ?d] => destruct (v_out a b c d) as [[]|k|site] eqn:Ev end.
    - destruct (enc_reset _ _ _); [|apply Tsr_nil; exact H4..].
      eapply Ts_trans_r; [exact H4|apply Ts_same; reflexivity].
    - match goal with |- context [fail_op ?sx id k] => set (s4' := sx) end.
      assert (H4' : Ts s s4' []).
      { eapply Ts_trans_r; [exact H4|]. unfold s4'. destruct (r_alias r); apply Ts_same; reflexivity. }
      assert (Hf : Tr s4' (fail_op s4' id k)).
      { apply fail_op_T. intros -> ? ? _ _. eapply offl_vout. exact Ev. }
      destruct (r_out (fail_op s4' id k)).
      + exists (r_done (fail_op s4' id k)). split; [reflexivity|]. eapply Ts_trans_l; [exact H4'|exact Hf].
      + exists (r_done (fail_op s4' id k)). split; [reflexivity|]. eapply Ts_trans_l; [exact H4'|exact Hf].
      + exists (r_done (fail_op s4' id k)). split; [reflexivity|]. eapply Ts_trans_l; [exact H4'|exact Hf].
    - apply Tsr_nil; exact H4.
  Qed.

  Lemma service_loop_T fuel : forall s m now cap fill acc dn, Tsr s dn (service_loop fuel s m now cap fill acc dn).
  Proof.
    induction fuel as [|f IH]; intros s m now cap fill acc dn; cbn [Model.service_loop]; [apply Tsr_nil; apply Ts_same; reflexivity|].
    dm; [apply Tsr_nil; apply Ts_same; reflexivity|].
    pose proof (seat_current_T s m acc dn) as Hs.
    destruct (seat_current s m acc dn) as [r|s5 dn'|s5]; [exact Hs| |].
    - destruct Hs as (d & -> & Hd). destruct (IH s5 m now cap fill acc (dn ++ d)) as (d2 & Hd2 & Ht2).
      exists (d ++ d2). rewrite Hd2, app_assoc. split; [reflexivity|]. eapply Ts_trans; eassumption.
    - destruct (s_cur s5); [|apply Tsr_nil; exact Hs].
      dm; [apply Tsr_nil; exact Hs|]. destruct (s_enc s5) as [e|]; [|apply Tsr_nil; exact Hs].
      destruct (enc_call e (fill + len acc) cap) as [[out e']| |]; [|apply Tsr_nil; exact Hs..].
      assert (H6 : Ts s (s5 <| s_enc := Some e' |>) []) by (eapply Ts_trans_r; [exact Hs|apply Ts_same; reflexivity]).
      destruct (enc_done e'); [|apply Tsr_nil; exact H6].
      destruct (fully_written (s5 <| s_enc := Some e' |>) now) as [s7| |] eqn:Ef; [|apply Tsr_nil; exact H6..].
      destruct (IH s7 m now cap fill (acc ++ out) dn) as (d2 & Hd2 & Ht2).
      exists d2. split; [exact Hd2|]. eapply Ts_trans_l; [|exact Ht2]. eapply Ts_trans_l; [exact H6|]. eapply fully_written_T; exact Ef.
  Qed.

  Lemma service_queue_T s m now cap fill : Tsr s [] (service_queue s m now cap fill).
  Proof.
    unfold Model.service_queue.
    match goal with |- context [service_loop ?f s m now cap fill [] []] => destruct (service_loop_T f s m now cap fill [] []) as (d & Hd & Ht);
      destruct (sr_bytes (service_loop f s m now cap fill [] [])) end.
    - exists d. split; assumption.
    - exists d. cbn [sr_done sr_s]. split; [assumption|]. eapply Ts_trans_r; [exact Ht|apply Ts_same; reflexivity].
  Qed.

  Lemma service_keep_alive_T s now s' : service_keep_alive s now = Ok s' -> Ts s s' [].
  Proof.
    unfold Model.service_keep_alive. destruct (s_ping_to s); [dm; intros H; inversion H; apply Ts_same; reflexivity|].
    destruct (s_next_ping s) as [np|]; [|intros H; inversion H; apply Ts_same; reflexivity].
    destruct (np <=? now); [|intros H; inversion H; apply Ts_same; reflexivity].
    unfold Model.create_operation. cbn. destruct (s_settings s); [|discriminate].
    destruct (add_time 1493 now _); cbn [obind]; [|discriminate..].
    assert (Hc : T pol (ost_of s) (s_ops s ++ [(s_next_id s, new_op Pingreq false None)], s_next_id s + 1) []) by (apply T_create; reflexivity).
    dm; intros H; inversion H; subst; unfold Ts, ost_of; cbn; exact Hc.
  Qed.

  Lemma process_ack_timeouts_T s now : Tr s (process_ack_timeouts s now).
  Proof.
    unfold Model.process_ack_timeouts. eapply Tr_from; [| |apply fail_all_T; apply err_fits_other; discriminate]; reflexivity.
  Qed.

  Lemma halt_on_error_ops s r : s_ops (halt_on_error s r) = s_ops s /\ s_next_id (halt_on_error s r) = s_next_id s.
  Proof. unfold Model.halt_on_error. destruct r; split; reflexivity. Qed.

  Lemma Ts_halt s s' d r : Ts s s' d -> Ts s (halt_on_error s' r) d.
  Proof. intros H. destruct (halt_on_error_ops s' r). eapply Ts_trans_r; [exact H|apply Ts_same; assumption]. Qed.

  Lemma service_T s now cap fill : Ts s (sr_s (service s now cap fill)) (sr_done (service s now cap fill)).
  Proof.
    unfold Model.service. cbn [sr_s sr_done]. apply Ts_halt.
    destruct (s_st s).
    - apply Ts_same; reflexivity.
    - destruct (s_connack_to s); [|apply Ts_same; reflexivity]. dm; [apply Ts_same; reflexivity|].
      destruct (service_queue_T s false now cap fill) as (d & -> & Ht). exact Ht.
    - destruct (service_keep_alive s now) as [s1| |] eqn:Ek; [|apply Ts_same; reflexivity..].
      pose proof (service_keep_alive_T _ _ _ Ek) as H1.
      destruct (service_queue_T s1 true now cap fill) as (d & Hd & Ht). cbn [app] in Hd.
      destruct (sr_out (service_queue s1 true now cap fill)); cbn [sr_s sr_done].
      + rewrite Hd. eapply Ts_trans_l; [exact H1|]. eapply Ts_trans; [exact Ht|apply process_ack_timeouts_T].
      + rewrite Hd. eapply Ts_trans_l; [exact H1|exact Ht].
      + rewrite Hd. eapply Ts_trans_l; [exact H1|exact Ht].
    - cbn [sr_s sr_done]. apply process_ack_timeouts_T.
    - apply Ts_same; reflexivity.
  Qed.


  (* ---- CONNACK / session ---- *)
  Lemma apply_session_T s sp : Tr s (apply_session s sp).
  Proof.
    unfold Model.apply_session.
    match goal with |- context [if is_panic (r_out ?r1) then _ else _] => set (r1v := r1) end.
    assert (H1 : Tr s r1v).
    { unfold r1v. destruct sp; [tsame|].
      destruct (partition_policy s (s_rq s)) as [kept rejected] eqn:Epp.
      match goal with |- context [fail_all ?s1 rejected _] => set (s1v := s1) end.
      assert (Hs1 : Ts s s1v []). { unfold Ts, ost_of, s1v. cbn. apply T_fold_update. apply same_set_dup. }
      assert (Hf : Tr s1v (fail_all s1v rejected EOfflineQueuePolicyFailed)).
      { apply fail_all_T. intros _ id o' Hin Hl. unfold s1v in Hl. cbn in Hl.
        destruct (lookup_fold_update_same _ _ (same_set_dup false) _ _ _ Hl) as (o & Hlo & _ & Hnm). rewrite Hnm.
        apply offl_policy. replace rejected with (snd (partition_policy s (s_rq s))) in Hin by (rewrite Epp; reflexivity).
        unfold Model.partition_policy in Hin. cbn [snd] in Hin. apply filter_In in Hin. destruct Hin as [_ Hp].
        unfold Model.op_passes in Hp. rewrite Hlo in Hp. destruct (passes_policy _ _); [discriminate|reflexivity]. }
      destruct (is_panic _); [eapply Tr_trans_l; [exact Hs1|exact Hf]|].
      unfold Tr. cbn [r_s r_done]. eapply Ts_trans_l; [exact Hs1|]. eapply Ts_trans_r; [exact Hf|apply Ts_same; reflexivity]. }
    destruct (is_panic (r_out r1v)); [exact H1|].
    match goal with |- context [mkRes ?s3 (r_done r1v) (r_out r1v)] => set (s3v := s3) end.
    assert (H3 : Ts s s3v (r_done r1v)).
    { eapply Ts_trans_r; [exact H1|]. unfold s3v. eapply Ts_trans_l; [apply fold_unbind_T|apply Ts_same; reflexivity]. }
    repeat dm; exact H3.
  Qed.

  Definition Th (s : state) (h : hres) : Prop := Ts s (h_s h) (h_done h).

  Lemma Th_same s s' ev out : s_ops s' = s_ops s -> s_next_id s' = s_next_id s -> Th s (Model.mkHres s' [] ev out).
  Proof. intros. unfold Th. cbn [h_s h_done]. apply Ts_same; assumption. Qed.
  Ltac thsame := apply Th_same; reflexivity.

  Lemma Th_of s r ev : Tr s r -> Th s (hres_of r ev).
  Proof. exact (fun H => H). Qed.

  Lemma handle_connack_T s now c : Th s (handle_connack s now c).
  Proof.
    unfold Model.handle_connack. dm; [thsame|]. dm; [thsame|]. destruct (v_in None (Connack c)); [|thsame..].
    match goal with |- context [apply_session ?s2 ?sp] => pose proof (apply_session_T s2 sp) as H; set (s2v := s2) in * end.
    assert (H0 : Ts s s2v []). { unfold s2v. destruct (cf_drain_one cfg); apply Ts_same; reflexivity. }
    unfold Th. destruct (r_out (apply_session s2v (ca_session_present c))); cbn [h_s h_done]; (eapply Ts_trans_l; [exact H0|exact H]).
  Qed.

  Lemma handle_pingresp_T s : Th s (handle_pingresp s).
  Proof. unfold Model.handle_pingresp. repeat dm; thsame. Qed.

  Lemma handle_suback_T s a : Th s (handle_suback s a).
  Proof.
    unfold Model.handle_suback. dm; [thsame|]. destruct (lookup (sa_pid a) (s_pnon s)) as [id|]; [|thsame].
    destruct (lookup id (s_ops s)) as [o|] eqn:El; [|thsame]. destruct (op_packet o) eqn:Ep; try thsame.
    destruct (negb _) eqn:Ec; [thsame|]. apply Th_of. apply succeed_op_T. intros o' Hl.
    replace o' with o by congruence. rewrite Ep. cbn [resp_fits]. lia.
  Qed.

  Lemma len_repeat {A} (x : A) n : len (repeat x n) = N.of_nat n.
  Proof. unfold len. rewrite repeat_length. reflexivity. Qed.

  Lemma handle_unsuback_T s a : Th s (handle_unsuback s a).
  Proof.
    unfold Model.handle_unsuback. dm; [thsame|]. destruct (lookup (ua_pid a) (s_pnon s)) as [id|]; [|thsame].
    destruct (lookup id (s_ops s)) as [o|] eqn:El; [|thsame]. destruct (op_packet o) eqn:Ep; try thsame.
    destruct (version_eqb (cf_version cfg) V311).
    - apply Th_of. apply succeed_op_T. intros o' Hl. replace o' with o by congruence. rewrite Ep. cbn [resp_fits ua_codes].
      apply len_repeat.
    - destruct (negb _) eqn:Ec; [thsame|]. apply Th_of. apply succeed_op_T. intros o' Hl.
      replace o' with o by congruence. rewrite Ep. cbn [resp_fits]. lia.
  Qed.

  Lemma succeed_ack_T s id (p : packet) :
    match p with Suback _ | Unsuback _ => False | _ => True end -> Tr s (succeed_op s id (Some p)).
  Proof. intros Hp. apply succeed_op_T. intros o _. destruct p; try contradiction; exact I. Qed.

  Lemma handle_puback_T s a : Th s (handle_puback s a).
  Proof.
    unfold Model.handle_puback. dm; [thsame|]. destruct (lookup (ack_pid a) (s_ppub s)) as [id|]; [|thsame].
    repeat dm; try thsame. apply Th_of. apply succeed_ack_T. exact I.
  Qed.

  Lemma handle_pubrec_T s a : Th s (handle_pubrec s a).
  Proof.
    unfold Model.handle_pubrec. dm; [thsame|]. destruct (lookup (ack_pid a) (s_ppub s)) as [id|]; [|thsame].
    destruct (lookup id (s_ops s)) as [o|] eqn:El; [|thsame]. destruct (op_packet o) eqn:Ep; try thsame.
    dm; [|thsame]. dm; [apply Th_of; apply succeed_ack_T; exact I|].
    unfold Th, Ts, ost_of. cbn. apply T_update. intros; split; reflexivity.
  Qed.

  Lemma handle_pubrel_T s a : Th s (handle_pubrel s a).
  Proof.
    unfold Model.handle_pubrel. dm; [thsame|]. unfold Th, Ts, ost_of, Model.create_operation. cbn. apply T_create. reflexivity.
  Qed.

  Lemma handle_pubcomp_T s a : Th s (handle_pubcomp s a).
  Proof.
    unfold Model.handle_pubcomp. dm; [thsame|]. destruct (lookup (ack_pid a) (s_ppub s)) as [id|]; [|thsame].
    repeat dm; try thsame. apply Th_of. apply succeed_ack_T. exact I.
  Qed.

  Lemma handle_publish_T s pb : Th s (handle_publish s pb).
  Proof.
    unfold Model.handle_publish. dm; [thsame|]. dm; [thsame|].
    dm; unfold Th, Ts, ost_of, Model.create_operation; cbn; [apply T_create; reflexivity|].
    destruct (mem (pub_pid pb) (s_q2in s)); cbn; apply T_create; reflexivity.
  Qed.

  Lemma handle_disconnect_T s d : Th s (handle_disconnect s d).
  Proof. unfold Model.handle_disconnect. repeat dm; thsame. Qed.

  Lemma handle_packet_T s now p : Th s (handle_packet s now p).
  Proof.
    destruct p; cbn [Model.handle_packet]; try thsame.
    - apply handle_connack_T. - apply handle_publish_T. - apply handle_puback_T. - apply handle_pubrec_T.
    - apply handle_pubrel_T. - apply handle_pubcomp_T. - apply handle_suback_T. - apply handle_unsuback_T.
    - apply handle_pingresp_T. - apply handle_disconnect_T.
  Qed.

  Definition Thd (s : state) (dn : dones) (h : hres) : Prop := exists d, h_done h = dn ++ d /\ Ts s (h_s h) d.

  Lemma Thd_nil s dn s' ev out : Ts s s' [] -> Thd s dn (Model.mkHres s' dn ev out).
  Proof. intros H. exists []. cbn [h_done h_s]. rewrite app_nil_r. split; [reflexivity|exact H]. Qed.

  Lemma handle_packets_T ps : forall s now dn ev, Thd s dn (handle_packets s now ps dn ev).
  Proof.
    induction ps as [|p rest IH]; intros s now dn ev; cbn [Model.handle_packets]; [apply Thd_nil; apply Ts_same; reflexivity|].
    match goal with |- context [match ?res with Ok _ => _ | Err _ => _ | Panic _ => _ end] =>
      assert (Hres : forall s1 p1, res = Ok (s1, p1) -> s_ops s1 = s_ops s /\ s_next_id s1 = s_next_id s);
      [|destruct res as [[s1 p1]| |] eqn:Eres] end.
    { intros s1 p1. unfold obind. repeat dm; intros H; inversion H; subst; split; reflexivity. }
    2,3: apply Thd_nil; apply Ts_same; reflexivity.
    destruct (Hres s1 p1 eq_refl) as [Ho1 Hn1]. assert (H1 : Ts s s1 []) by (apply Ts_same; assumption).
    destruct (v_in (s_settings s1) p1); [|apply Thd_nil; eapply Ts_trans_r; [exact H1|apply Ts_same; reflexivity]|apply Thd_nil; exact H1].
    pose proof (handle_packet_T s1 now p1) as Hh. unfold Th in Hh.
    destruct (h_out (handle_packet s1 now p1)).
    - destruct (IH (h_s (handle_packet s1 now p1)) now (dn ++ h_done (handle_packet s1 now p1)) (ev ++ h_ev (handle_packet s1 now p1))) as (d2 & Hd2 & Ht2).
      exists (h_done (handle_packet s1 now p1) ++ d2). rewrite Hd2, app_assoc. split; [reflexivity|].
      eapply Ts_trans; [|exact Ht2]. eapply Ts_trans_l; [exact H1|exact Hh].
    - exists (h_done (handle_packet s1 now p1)). cbn [h_done h_s]. split; [reflexivity|].
      eapply Ts_trans_l; [exact H1|]. eapply Ts_trans_r; [exact Hh|apply Ts_same; reflexivity].
    - exists (h_done (handle_packet s1 now p1)). cbn [h_done h_s]. split; [reflexivity|]. eapply Ts_trans_l; [exact H1|exact Hh].
  Qed.

  Lemma net_data_T s now data : Th s (net_data s now data).
  Proof.
    unfold Model.net_data. dm; [thsame|]. dm; [thsame|].
    destruct (dec_feed _ _ _ _) as [[d' ps] r]. destruct r; [|thsame..].
    destruct (handle_packets_T ps (s <| s_dec := d' |>) now [] []) as (d & Hd & Ht). cbn [app] in Hd.
    unfold Th. rewrite Hd. eapply Ts_from; [| |exact Ht]; reflexivity.
  Qed.

  (* ---- reset ---- *)
  Lemma reset_fold_T s0 ids : forall acc, Tr s0 acc ->
    Tr s0 (fold_left (fun (acc : res) (id : N) =>
                        if is_panic (r_out acc) then acc else
                        let r1 := fail_op (r_s acc) id EClientClosed in
                        Model.mkRes (r_s r1) (r_done acc ++ r_done r1) (if is_panic (r_out r1) then r_out r1 else Ok tt))
                     ids acc).
  Proof.
    induction ids as [|id r IH]; intros acc Ha; cbn [fold_left]; [exact Ha|]. apply IH.
    destruct (is_panic (r_out acc)); [exact Ha|]. unfold Tr. cbn [r_s r_done].
    eapply Ts_trans; [exact Ha|]. apply fail_op_T. apply err_fits_other. discriminate.
  Qed.

  Lemma reset_T s : Tr s (reset s).
  Proof.
    unfold Model.reset.
    match goal with |- context [fold_left ?f ?ids (pure ?s0)] =>
      assert (H : Tr s (fold_left f ids (pure s0))); [|set (r := fold_left f ids (pure s0)) in *] end.
    { apply reset_fold_T. destruct (pstate_eqb (s_st s) Disconnected); tsame. }
    destruct (is_panic (r_out r)); [exact H|]. unfold Tr. cbn [r_s r_done].
    eapply Ts_trans_r; [exact H|]. unfold Ts, ost_of. cbn. apply T_clear.
  Qed.

  (* ---- the step function ---- *)
  Lemma out_of_res_T s r halt : Tr s r -> Ts s (fst (out_of_res r halt)) (o_done (snd (out_of_res r halt))).
  Proof.
    intros H. unfold Model.out_of_res. cbn [fst snd o_done]. destruct halt; [apply Ts_halt|]; exact H.
  Qed.

  Definition submit_state (s : state) (p : packet) (t : option N) : state :=
    fst (create_operation s (new_op p (negb (is_disconnect p)) (if is_disconnect p then None else t))).

  Lemma step_T s e :
    match e with
    | EvUser _ p t => ids_ok (ost_of s) -> Ts (submit_state s p t) (fst (step s e)) (o_done (snd (step s e)))
    | _ => Ts s (fst (step s e)) (o_done (snd (step s e)))
    end.
  Proof.
    destruct e; cbn [Model.step].
    - intros H0. pose proof (user_event_T s p timeout H0) as H. unfold Model.out_of_res. cbn [fst snd o_done]. exact H.
    - apply out_of_res_T, net_opened_T.
    - apply out_of_res_T, net_closed_T.
    - cbn [fst snd o_done]. apply Ts_halt. apply net_data_T.
    - apply out_of_res_T, net_write_completion_T.
    - cbn [fst snd o_done]. apply service_T.
    - destruct (next_service_time s now); cbn [fst snd o_done]; apply Ts_same; reflexivity.
    - apply out_of_res_T, reset_T.
  Qed.

End Engine.
