(* C02 at run level, the decoder facts the invariant GI needs (WireValidFrame.in_ok): when the framing decoder of
   Codec/Framing.v + Codec/ImplDecode.v is fed OCTETS (every element of the data below 256), every packet it pushes has
   its 16-bit fields below 65536 - the packet identifier of a PUBLISH / PUBREC / PUBREL, the Topic Alias Maximum of a
   CONNACK - and a CONNACK's Assigned Client Identifier is a valid UTF-8 string (at most 65535 bytes, well-formed, no
   U+0000: decode_optional_length_prefixed_string checks the last two since the fix of D27); a 3.1.1 CONNACK carries
   neither.  (The model's bytes are unbounded N; the bound on two-byte integers is exactly "the input were octets".) *)
From GM Require Import Base.Prelude Base.Outcome Codec.Packets Codec.Prim Codec.SpecDecodeC2S Codec.ValidC2S Codec.ReasonCodes Codec.ImplDecode Codec.Framing.
From GM Require Import CodecProofs.EncFrag EngineProofs.WireValidDefs EngineProofs.WireValidFrame.
Open Scope N_scope.

(* ---- octets ---- *)
Lemma bytes_ok_app a b : bytes_ok (a ++ b) = bytes_ok a && bytes_ok b.
Proof. apply forallb_app. Qed.
Lemma bytes_ok_take n b : bytes_ok b = true -> bytes_ok (take n b) = true.
Proof.
  unfold take. generalize (N.to_nat n). intros k. revert k. induction b as [|x b IH]; intros k H; destruct k; cbn in *; try reflexivity.
  apply andb_true_iff in H as [H1 H2]. rewrite H1. cbn. apply IH. exact H2.
Qed.
Lemma bytes_ok_drop n b : bytes_ok b = true -> bytes_ok (drop n b) = true.
Proof.
  unfold drop. generalize (N.to_nat n). intros k. revert k. induction b as [|x b IH]; intros k H; destruct k; cbn in *; try assumption; try reflexivity.
  apply andb_true_iff in H as [H1 H2]. apply IH. exact H2.
Qed.

Lemma slice_to_inv site n b h : slice_to site n b = Ok h -> h = take n b /\ n <= len b.
Proof. unfold slice_to. destruct (n <=? len b) eqn:E; intros H; inversion H. split; [reflexivity|lia]. Qed.
Lemma slice_from_inv site n b h : slice_from site n b = Ok h -> h = drop n b.
Proof. unfold slice_from. destruct (n <=? len b); intros H; inversion H. reflexivity. Qed.

Lemma be16_of_le site h v : bytes_ok h = true -> be16_of site h = Ok v -> v <= 65535.
Proof.
  destruct h as [|x [|y [|z h]]]; cbn; try discriminate. unfold byte_ok. intros H E. inversion E; subst.
  repeat (apply andb_true_iff in H as [H ?]). lia.
Qed.

Ltac ok_inv H :=
  repeat match type of H with
  | (if ?c then _ else _) = Ok _ => let E := fresh "E" in destruct c eqn:E; try discriminate H
  | obind ?x _ = Ok _ => let E := fresh "E" in destruct x eqn:E; cbn [obind] in H; try discriminate H
  | (let (_, _) := ?x in _) = Ok _ => destruct x
  | match ?x with _ => _ end = Ok _ => let E := fresh "E" in destruct x eqn:E; try discriminate H
  end.

Ltac slices :=
  repeat match goal with
  | H : slice_to _ _ _ = Ok _ |- _ => apply slice_to_inv in H as [-> ?]
  | H : slice_from _ _ _ = Ok _ |- _ => apply slice_from_inv in H as ->
  end.

Lemma decode_u16_le b v r : bytes_ok b = true -> decode_u16 b = Ok (v, r) -> v <= 65535 /\ bytes_ok r = true.
Proof.
  intros Hb H. unfold decode_u16 in H. ok_inv H. inversion H; subst. slices.
  split; [eapply be16_of_le; [|eassumption]; apply bytes_ok_take; exact Hb|apply bytes_ok_drop; exact Hb].
Qed.

Lemma decode_optional_u16_le b o v r : bytes_ok b = true -> decode_optional_u16 b o = Ok (v, r) ->
  (forall x, v = Some x -> x <= 65535) /\ bytes_ok r = true.
Proof.
  intros Hb H. unfold decode_optional_u16 in H. ok_inv H. inversion H; subst. slices.
  split; [|apply bytes_ok_drop; exact Hb]. intros x Hx. inversion Hx; subst.
  eapply be16_of_le; [|eassumption]. apply bytes_ok_take; exact Hb.
Qed.

Lemma contains_nul_no_nul s : str_contains_nul s = false -> SpecDecodeC2S.no_nul s = true.
Proof.
  unfold str_contains_nul, SpecDecodeC2S.no_nul. induction s as [|x s IH]; [reflexivity|]. cbn. intros H.
  apply orb_false_iff in H as [H1 H2]. rewrite H1. cbn. apply IH. exact H2.
Qed.

Lemma decode_optional_string_valid b o v r : bytes_ok b = true -> decode_optional_length_prefixed_string b o = Ok (v, r) ->
  opt_ok str_valid v = true /\ bytes_ok r = true.
Proof.
  intros Hb H. unfold decode_optional_length_prefixed_string in H. ok_inv H. inversion H; subst. slices.
  split; [|repeat apply bytes_ok_drop; exact Hb]. cbn [opt_ok]. unfold str_valid, SpecDecodeC2S.str_ok, U16_MAX.
  match goal with E : be16_of _ _ = Ok ?n |- _ => assert (Hn : n <= 65535) by (eapply be16_of_le; [|exact E]; apply bytes_ok_take; exact Hb) end.
  match goal with E : negb (utf8_ok ?s) = false |- _ => apply negb_false_iff in E; rewrite E end.
  match goal with E : str_contains_nul ?s = false |- _ => rewrite (contains_nul_no_nul _ E) end.
  rewrite len_take_le by lia. rewrite andb_true_r. lia.
Qed.

Lemma decode_string_rest b s r : bytes_ok b = true -> decode_length_prefixed_string b = Ok (s, r) -> bytes_ok r = true.
Proof. intros Hb H. unfold decode_length_prefixed_string in H. ok_inv H. inversion H; subst. slices. repeat apply bytes_ok_drop. exact Hb. Qed.

(* every other primitive hands back a suffix of its input *)
Lemma rest_u32 b o v r : bytes_ok b = true -> decode_optional_u32 b o = Ok (v, r) -> bytes_ok r = true.
Proof. intros Hb H. unfold decode_optional_u32 in H. ok_inv H. inversion H; subst. slices. apply bytes_ok_drop. exact Hb. Qed.
Lemma rest_bool b o v r : bytes_ok b = true -> decode_optional_u8_as_bool b o = Ok (v, r) -> bytes_ok r = true.
Proof. intros Hb H. unfold decode_optional_u8_as_bool in H. ok_inv H; inversion H; subst; slices; apply bytes_ok_drop; exact Hb. Qed.
Lemma rest_enum b o cv v r : bytes_ok b = true -> decode_optional_u8_as_enum b o cv = Ok (v, r) -> bytes_ok r = true.
Proof. intros Hb H. unfold decode_optional_u8_as_enum in H. ok_inv H. inversion H; subst. slices. apply bytes_ok_drop. exact Hb. Qed.
Lemma rest_bytes b o v r : bytes_ok b = true -> decode_optional_length_prefixed_bytes b o = Ok (v, r) -> bytes_ok r = true.
Proof. intros Hb H. unfold decode_optional_length_prefixed_bytes in H. ok_inv H. inversion H; subst. slices. repeat apply bytes_ok_drop. exact Hb. Qed.
Lemma rest_up b o v r : bytes_ok b = true -> decode_user_property b o = Ok (v, r) -> bytes_ok r = true.
Proof.
  intros Hb H. unfold decode_user_property in H. ok_inv H. inversion H; subst.
  eapply decode_string_rest; [|eassumption]. eapply decode_string_rest; eassumption.
Qed.

Lemma decode_vli_rest n : forall sh val b v rest, bytes_ok b = true -> decode_vli_aux n sh val b = VliValue v rest -> bytes_ok rest = true.
Proof.
  induction n as [|n IH]; intros sh val b v rest Hb H; cbn [decode_vli_aux] in H; [discriminate|].
  destruct b as [|x b]; [discriminate|]. cbn in Hb. apply andb_true_iff in Hb as [_ Hb].
  destruct (x <? 128); [inversion H; subst; exact Hb|exact (IH _ _ _ _ _ Hb H)].
Qed.

(* ---- property loops ---- *)
Lemma prop_loop_inv {St} (arm : N -> bytes -> St -> outcome (St * bytes)) (P : St -> Prop) :
  (forall key b s s' r, bytes_ok b = true -> P s -> arm key b s = Ok (s', r) -> P s' /\ bytes_ok r = true) ->
  forall fuel b s s', bytes_ok b = true -> P s -> prop_loop arm fuel b s = Ok s' -> P s'.
Proof.
  intros Harm. induction fuel as [|f IH]; intros b s s' Hb Hp H; destruct b as [|x b]; cbn [prop_loop] in H; try (inversion H; subst; exact Hp); try discriminate.
  cbn [index0 obind] in H. unfold slice_from in H. change (1 <=? len (x :: b)) with (1 <=? len (x :: b)) in H.
  destruct (1 <=? len (x :: b)); cbn [obind] in H; [|discriminate].
  change (drop 1 (x :: b)) with b in H. apply andb_true_iff in Hb as [_ Hb].
  destruct (arm x b s) as [[s1 r1]| |] eqn:Ea; cbn [obind] in H; try discriminate.
  destruct (Harm _ _ _ _ _ Hb Hp Ea) as [Hp1 Hr1]. exact (IH _ _ _ Hr1 Hp1 H).
Qed.

(* a loop whose arms never touch a projection *)
Lemma prop_loop_keep {St A} (arm : N -> bytes -> St -> outcome (St * bytes)) (f : St -> A) :
  (forall key b s s' r, arm key b s = Ok (s', r) -> f s' = f s) ->
  forall fuel b s s', prop_loop arm fuel b s = Ok s' -> f s' = f s.
Proof.
  intros Harm. induction fuel as [|f0 IH]; intros b s s' H; destruct b as [|x b]; cbn [prop_loop] in H; try (inversion H; reflexivity); try discriminate.
  cbn [index0 obind] in H. destruct (slice_from 41 1 (x :: b)) as [rest| |]; cbn [obind] in H; try discriminate.
  destruct (arm x rest s) as [[s1 r1]| |] eqn:Ea; cbn [obind] in H; try discriminate.
  rewrite (IH _ _ _ H). exact (Harm _ _ _ _ _ Ea).
Qed.

(* ---- acks ---- *)
Lemma ack_arm_pid key b a a' r : ack_arm key b a = Ok (a', r) -> ack_pid a' = ack_pid a.
Proof. unfold ack_arm. intros H. ok_inv H; inversion H; reflexivity. Qed.

Lemma decode_ack5_pid efb ok fb body a : bytes_ok body = true -> decode_ack5 efb ok fb body = Ok a -> ack_pid a <= 65535.
Proof.
  intros Hb H. unfold decode_ack5 in H. destruct (negb (fb =? efb)); [discriminate|].
  destruct (decode_u16 body) as [[pid b1]| |] eqn:E1; cbn [obind] in H; try discriminate.
  destruct (decode_u16_le _ _ _ Hb E1) as [Hp _].
  destruct (len b1 =? 0); [inversion H; exact Hp|].
  destruct (decode_u8_as_enum b1 (conv_table ok)) as [[rc b2]| |]; cbn [obind] in H; try discriminate.
  destruct (len b2 =? 0); [inversion H; exact Hp|].
  destruct (decode_vli_into_mutable b2) as [[pl b3]| |]; cbn [obind] in H; try discriminate.
  destruct (negb (pl =? len b3)); [discriminate|]. unfold decode_properties in H.
  rewrite (prop_loop_keep ack_arm ack_pid ack_arm_pid _ _ _ _ H). exact Hp.
Qed.

Lemma decode_ack311_pid efb fb body a : bytes_ok body = true -> decode_ack311 efb fb body = Ok a -> ack_pid a <= 65535.
Proof.
  intros Hb H. unfold decode_ack311 in H. destruct (negb (fb =? efb)); [discriminate|]. destruct (negb (len body =? 2)); [discriminate|].
  destruct (decode_u16 body) as [[pid b1]| |] eqn:E1; cbn [obind] in H; try discriminate. inversion H. exact (proj1 (decode_u16_le _ _ _ Hb E1)).
Qed.

(* ---- PUBLISH ---- *)
Lemma publish_arm_pid key b p p' r : publish_arm key b p = Ok (p', r) -> pub_pid p' = pub_pid p.
Proof. unfold publish_arm. intros H. ok_inv H; inversion H; reflexivity. Qed.

Lemma publish_flags_pid fb p : publish_flags fb = Ok p -> pub_pid p = 0.
Proof. unfold publish_flags. intros H. ok_inv H. inversion H. reflexivity. Qed.

Lemma publish_head_pid p1 b1 p2 b2 : bytes_ok b1 = true -> pub_pid p1 = 0 ->
  (if negb (pub_qos p1 =? 0) then (do (pid, r) <- decode_u16 b1; Ok (pub_set_pid p1 pid, r)) else Ok (p1, b1)) = Ok (p2, b2) ->
  pub_pid p2 <= 65535.
Proof.
  intros Hb H0 H. destruct (negb (pub_qos p1 =? 0)); [|inversion H; subst; lia].
  destruct (decode_u16 b1) as [[pid r]| |] eqn:E; cbn [obind] in H; try discriminate. inversion H; subst. cbn.
  exact (proj1 (decode_u16_le _ _ _ Hb E)).
Qed.

Lemma decode_publish5_pid fb body pb : bytes_ok body = true -> decode_publish_packet5 fb body = Ok (Publish pb) -> pub_pid pb <= 65535.
Proof.
  intros Hb H. unfold decode_publish_packet5 in H.
  destruct (publish_flags fb) as [p0| |] eqn:E0; cbn [obind] in H; try discriminate.
  destruct (decode_length_prefixed_string body) as [[topic b1]| |] eqn:E1; cbn [obind] in H; try discriminate.
  pose proof (decode_string_rest _ _ _ Hb E1) as Hb1.
  match type of H with obind ?x _ = _ => destruct x as [[p2 b2]| |] eqn:E2; cbn [obind] in H; try discriminate end.
  apply publish_head_pid in E2; [|exact Hb1|cbn; exact (publish_flags_pid _ _ E0)].
  destruct (decode_vli_into_mutable b2) as [[pl b3]| |]; cbn [obind] in H; try discriminate.
  destruct (len b3 <? pl); [discriminate|].
  destruct (slice_to 54 pl b3) as [pbytes| |]; cbn [obind] in H; try discriminate.
  destruct (slice_from 55 pl b3) as [payload| |]; cbn [obind] in H; try discriminate.
  destruct (decode_properties publish_arm pbytes p2) as [p3| |] eqn:E3; cbn [obind] in H; try discriminate.
  unfold decode_properties in E3. pose proof (prop_loop_keep publish_arm pub_pid publish_arm_pid _ _ _ _ E3) as Hk.
  inversion H. destruct (negb (len payload =? 0)); cbn; lia.
Qed.

Lemma decode_publish311_pid fb body pb : bytes_ok body = true -> decode_publish_packet311 fb body = Ok (Publish pb) -> pub_pid pb <= 65535.
Proof.
  intros Hb H. unfold decode_publish_packet311 in H.
  destruct (publish_flags fb) as [p0| |] eqn:E0; cbn [obind] in H; try discriminate.
  destruct (decode_length_prefixed_string body) as [[topic b1]| |] eqn:E1; cbn [obind] in H; try discriminate.
  pose proof (decode_string_rest _ _ _ Hb E1) as Hb1.
  match type of H with obind ?x _ = _ => destruct x as [[p2 b2]| |] eqn:E2; cbn [obind] in H; try discriminate end.
  apply publish_head_pid in E2; [|exact Hb1|cbn; exact (publish_flags_pid _ _ E0)].
  inversion H. destruct (negb (len b2 =? 0)); cbn; lia.
Qed.

(* ---- CONNACK ---- *)
Definition ca_ok (c : connack) : Prop :=
  (forall m, ca_tam c = Some m -> m <= 65535) /\ opt_ok str_valid (ca_assigned_id c) = true.

Lemma connack_arm_ok key b c c' r : bytes_ok b = true -> ca_ok c -> connack_arm key b c = Ok (c', r) -> ca_ok c' /\ bytes_ok r = true.
Proof.
  intros Hb [C1 C2] H. unfold connack_arm in H.
  repeat match type of H with (if ?k then _ else _) = Ok _ => destruct k end; try discriminate;
    match type of H with obind ?x _ = _ => destruct x as [[v0 r0]| |] eqn:E; cbn [obind] in H; try discriminate end; inversion H; subst; clear H;
    try (split; [split; [exact C1|exact C2]|]; eauto using rest_u32, rest_bool, rest_enum, rest_bytes, rest_up, (fun b o v r Hb H => proj2 (decode_optional_u16_le b o v r Hb H)),
           (fun b o v r Hb H => proj2 (decode_optional_string_valid b o v r Hb H))).
  - destruct (decode_optional_string_valid _ _ _ _ Hb E) as [A B0]. split; [split; [exact C1|exact A]|exact B0].
  - destruct (decode_optional_u16_le _ _ _ _ Hb E) as [A B0]. split; [split; [exact A|exact C2]|exact B0].
Qed.

Lemma decode_connack5_ok fb body c : bytes_ok body = true -> decode_connack_packet5 fb body = Ok (Connack c) -> ca_ok c.
Proof.
  intros Hb H. unfold decode_connack_packet5 in H. destruct (negb (fb =? 32)); [discriminate|]. destruct (len body =? 0); [discriminate|].
  destruct (index0 50 body) as [flags| |]; cbn [obind] in H; try discriminate.
  destruct (slice_from 51 1 body) as [b1| |] eqn:E1; cbn [obind] in H; try discriminate. apply slice_from_inv in E1. subst b1.
  destruct (negb (flags =? 1) && negb (flags =? 0)); [discriminate|].
  destruct (decode_u8_as_enum (drop 1 body) (conv_table impl_connack_code_ok)) as [[rc b2]| |] eqn:E2; cbn [obind] in H; try discriminate.
  assert (Hb2 : bytes_ok b2 = true).
  { unfold decode_u8_as_enum in E2. ok_inv E2. inversion E2; subst. slices. repeat apply bytes_ok_drop. exact Hb. }
  destruct (decode_vli_into_mutable b2) as [[pl b3]| |] eqn:E3; cbn [obind] in H; try discriminate.
  destruct (negb (pl =? len b3)) eqn:E4; [discriminate|].
  destruct (decode_properties connack_arm b3 _) as [c'| |] eqn:E5; cbn [obind] in H; try discriminate. inversion H; subst c'.
  assert (Hb3 : bytes_ok b3 = true).
  { unfold decode_vli_into_mutable in E3. destruct (decode_vli b2) as [|v0 rest|] eqn:Ev; try discriminate. inversion E3; subst.
    exact (decode_vli_rest _ _ _ _ _ _ Hb2 Ev). }
  unfold decode_properties in E5. refine (prop_loop_inv connack_arm ca_ok connack_arm_ok _ _ _ _ Hb3 _ E5).
  split; [intros m Hm; discriminate|reflexivity].
Qed.

Lemma decode_connack311_none fb body c : decode_connack_packet311 fb body = Ok (Connack c) -> ca_tam c = None /\ ca_assigned_id c = None.
Proof.
  unfold decode_connack_packet311. intros H. ok_inv H. inversion H. split; reflexivity.
Qed.

(* ---- every packet the body decoder returns on octets ---- *)
Lemma omap_inv {A B} (f : A -> B) (o : outcome A) y : omap f o = Ok y -> exists x, o = Ok x /\ y = f x.
Proof. unfold omap. destruct o as [x| |]; cbn; intros H; inversion H. eauto. Qed.

Theorem decode_packet_in_ok v fb body p : bytes_ok body = true -> impl_decode_packet v fb body = Ok p -> in_ok v p.
Proof.
  intros Hb H. destruct p as [c|c|pb|a|a|a|a|sb|s0|un|u| | |d|au]; try exact I; destruct v; cbn [impl_decode_packet] in H;
    unfold decode_packet5, decode_packet311, unimplemented in H; cbv zeta in H;
    repeat match type of H with (if ?k then _ else _) = Ok _ => destruct k end; try discriminate;
    try (apply omap_inv in H; destruct H as (x & H & E); try discriminate E; inversion E; subst);
    cbn [in_ok Bv].
  all: try (match type of H with
            | decode_suback_packet5 _ _ = _ => unfold decode_suback_packet5 in H
            | decode_unsuback_packet5 _ _ = _ => unfold decode_unsuback_packet5 in H
            | decode_suback_packet311 _ _ = _ => unfold decode_suback_packet311 in H
            | decode_unsuback_packet311 _ _ = _ => unfold decode_unsuback_packet311 in H
            | decode_pingresp_packet _ _ = _ => unfold decode_pingresp_packet in H
            | decode_disconnect_packet5 _ _ = _ => unfold decode_disconnect_packet5 in H
            | decode_disconnect_packet311 _ _ = _ => unfold decode_disconnect_packet311 in H
            | decode_auth_packet5 _ _ = _ => unfold decode_auth_packet5 in H
            | decode_connack_packet5 _ _ = _ => unfold decode_connack_packet5 in H
            | decode_connack_packet311 _ _ = _ => unfold decode_connack_packet311 in H
            | decode_publish_packet5 _ _ = _ => unfold decode_publish_packet5 in H
            | decode_publish_packet311 _ _ = _ => unfold decode_publish_packet311 in H
            end; ok_inv H; discriminate H).
  all: try (eapply decode_ack5_pid; eassumption); try (eapply decode_ack311_pid; eassumption);
       try (eapply decode_publish5_pid; eassumption); try (eapply decode_publish311_pid; eassumption).
  - destruct (decode_connack5_ok _ _ _ Hb H) as [A B0]. split; [destruct (ca_tam c); [apply A; reflexivity|exact I]|exact B0].
  - destruct (decode_connack311_none _ _ _ H) as [-> ->]. split; [exact I|reflexivity].
Qed.

(* ---- the framing loop ---- *)
Definition dgood (d : decoder) : Prop := bytes_ok (d_scratch d) = true.

Section Loop.
  Variable v : version.
  Variable max_size : N.
  Notation body := (impl_decode_packet v).

  Lemma turn_good d b d' dir b' pk :
    dgood d -> bytes_ok b = true -> turn body max_size d b = (d', dir, b', pk) ->
    dgood d' /\ bytes_ok b' = true /\ (forall p, pk = Some p -> in_ok v p).
  Proof.
    intros Hd Hb H. unfold turn in H. destruct (d_state d).
    - unfold process_read_packet_type in H. destruct b as [|x rest]; inversion H; subst; (split; [exact Hd|split; [|intros p Hp; discriminate]]); [reflexivity|].
      cbn in Hb. apply andb_true_iff in Hb as [_ Hb]. exact Hb.
    - unfold process_read_total_remaining_length in H. destruct b as [|x rest]; [inversion H; subst; split; [exact Hd|split; [reflexivity|intros p Hp; discriminate]]|].
      cbn in Hb. apply andb_true_iff in Hb as [Hx Hb].
      assert (Hs : bytes_ok (d_scratch d ++ [x]) = true) by (rewrite bytes_ok_app; unfold dgood in Hd; rewrite Hd; cbn; rewrite Hx; reflexivity).
      cbv zeta in H. destruct (decode_vli (d_scratch d ++ [x])) as [|rl r0|].
      + destruct (4 <=? _); [|destruct (negb _)]; inversion H; subst; (split; [exact Hs|split; [exact Hb|intros p Hp; discriminate]]).
      + destruct (_ <=? _); inversion H; subst; (split; [first [reflexivity|exact Hs]|split; [exact Hb|intros p Hp; discriminate]]).
      + destruct (4 <=? _); [|destruct (negb _)]; inversion H; subst; (split; [exact Hs|split; [exact Hb|intros p Hp; discriminate]]).
    - unfold process_read_packet_body in H. destruct (d_remaining_length d) as [rl|]; [|inversion H; subst; split; [exact Hd|split; [exact Hb|intros p Hp; discriminate]]].
      destruct (rl <? len (d_scratch d)); [inversion H; subst; split; [exact Hd|split; [exact Hb|intros p Hp; discriminate]]|].
      destruct (len b <? rl - len (d_scratch d)).
      { inversion H; subst. split; [unfold dgood; cbn; rewrite bytes_ok_app, Hb; unfold dgood in Hd; rewrite Hd; reflexivity|split; [reflexivity|intros p Hp; discriminate]]. }
      destruct (slice_to 62 (rl - len (d_scratch d)) b) as [head| |] eqn:Eh; try (inversion H; subst; split; [exact Hd|split; [exact Hb|intros p Hp; discriminate]]).
      apply slice_to_inv in Eh as [-> _]. pose proof (bytes_ok_take (rl - len (d_scratch d)) b Hb) as Hh.
      assert (Hsl : bytes_ok (d_scratch d ++ take (rl - len (d_scratch d)) b) = true) by (rewrite bytes_ok_app, Hh; unfold dgood in Hd; rewrite Hd; reflexivity).
      destruct (negb (is_empty (d_scratch d))).
      + destruct (d_first_byte d) as [fb|]; [|inversion H; subst; split; [exact Hsl|split; [exact Hb|intros p Hp; discriminate]]].
        destruct (body fb _) as [pkt| |] eqn:Ep.
        * pose proof (decode_packet_in_ok _ _ _ _ Hsl Ep) as Hin.
          destruct (slice_from 64 _ b) as [rest| |] eqn:Er; inversion H; subst;
            (split; [reflexivity|split; [|intros p Hp; inversion Hp; subst; exact Hin]]); try exact Hb.
          apply slice_from_inv in Er as ->. apply bytes_ok_drop. exact Hb.
        * inversion H; subst. split; [exact Hsl|split; [reflexivity|intros p Hp; discriminate]].
        * inversion H; subst. split; [exact Hsl|split; [reflexivity|intros p Hp; discriminate]].
      + destruct (d_first_byte d) as [fb|]; [|inversion H; subst; split; [exact Hd|split; [exact Hb|intros p Hp; discriminate]]].
        destruct (body fb _) as [pkt| |] eqn:Ep.
        * pose proof (decode_packet_in_ok _ _ _ _ Hh Ep) as Hin.
          destruct (slice_from 64 _ b) as [rest| |] eqn:Er; inversion H; subst;
            (split; [reflexivity|split; [|intros p Hp; inversion Hp; subst; exact Hin]]); try exact Hb.
          apply slice_from_inv in Er as ->. apply bytes_ok_drop. exact Hb.
        * inversion H; subst. split; [exact Hd|split; [reflexivity|intros p Hp; discriminate]].
        * inversion H; subst. split; [exact Hd|split; [reflexivity|intros p Hp; discriminate]].
    - inversion H; subst. split; [exact Hd|split; [exact Hb|intros p Hp; discriminate]].
  Qed.

  Lemma cons_opt_good pk ps : (forall p, pk = Some p -> in_ok v p) -> Forall (in_ok v) ps -> Forall (in_ok v) (cons_opt pk ps).
  Proof. intros H1 H2. destruct pk as [p|]; cbn; [constructor; [apply H1; reflexivity|exact H2]|exact H2]. Qed.

  Lemma loop_good : forall fuel d b, dgood d -> bytes_ok b = true ->
    dgood (fst (fst (loop body max_size fuel d b))) /\ Forall (in_ok v) (snd (fst (loop body max_size fuel d b))).
  Proof.
    induction fuel as [|f IH]; intros d b Hd Hb; cbn [loop]; [split; [exact Hd|constructor]|].
    destruct (turn body max_size d b) as [[[d' dir] b'] pk] eqn:Et. destruct (turn_good _ _ _ _ _ _ Hd Hb Et) as (A & B0 & C).
    destruct dir.
    - cbn [fst snd]. split; [exact A|apply cons_opt_good; [exact C|constructor]].
    - specialize (IH d' b' A B0). destruct (loop body max_size f d' b') as [[d2 ps] r]. cbn [fst snd] in *.
      split; [apply IH|apply cons_opt_good; [exact C|apply IH]].
    - cbn [fst snd]. split; [exact A|apply cons_opt_good; [exact C|constructor]].
    - cbn [fst snd]. split; [exact A|apply cons_opt_good; [exact C|constructor]].
  Qed.
End Loop.

Theorem decode_bytes_good v m d b : dgood d -> bytes_ok b = true ->
  dgood (fst (fst (decode_bytes v m d b))) /\ Forall (in_ok v) (snd (fst (decode_bytes v m d b))).
Proof. intros Hd Hb. unfold decode_bytes, decode_bytes_with. apply loop_good; assumption. Qed.

Lemma decoder_init_good : dgood decoder_init.
Proof. reflexivity. Qed.
