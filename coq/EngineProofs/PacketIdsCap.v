(* Packet-id allocator, capacity and cursor (C06 "over any number of operations, identifier wrap-around"):
   - acquire_succeeds_below_capacity: while fewer than 65535 identifiers are reserved the allocator SUCCEEDS, for every
     cursor position (so exhaustion is the only failure and needs all 65535 ids in flight: pigeonhole over 1..65535);
   - acquire_cursor: the cursor after a success is the successor of the chosen id, wrapping 65535 -> 1, and nothing but
     the cursor and the reservation table changes;
   - acquire_seq_*: any number of consecutive allocations (nothing released in between) yields pairwise distinct ids in
     1..65535, none of which was reserved before, and the table afterwards holds exactly the old and the new ids. *)
From GM Require Import Base.Prelude Base.Outcome Engine.Model EngineProofs.PacketIds.
From RecordUpdate Require Import RecordSet.
Import RecordSetNotations.
From Coq Require Import FinFun.
Open Scope N_scope.

(* the identifier space 1..65535 as a duplicate-free list (the nat bound is kept symbolic: N.to_nat 65535) *)
Definition id_space : list N := map N.of_nat (seq 1 (N.to_nat 65535)).

Lemma id_space_length : length id_space = N.to_nat 65535.
Proof. unfold id_space. rewrite map_length, seq_length. reflexivity. Qed.

Lemma id_space_nodup : NoDup id_space.
Proof.
  unfold id_space. apply Injective_map_NoDup; [|apply seq_NoDup].
  intros a b H. apply Nat2N.inj. exact H.
Qed.

Lemma id_space_in x : 1 <= x <= 65535 -> In x id_space.
Proof.
  intros Hx. unfold id_space. apply in_map_iff. exists (N.to_nat x). split; [apply N2Nat.id|].
  apply in_seq. lia.
Qed.

(* a list containing every identifier has at least 65535 entries *)
Lemma full_table_length (keys : list N) :
  (forall x, 1 <= x <= 65535 -> In x keys) -> (N.to_nat 65535 <= length keys)%nat.
Proof.
  intros H. rewrite <- id_space_length. apply NoDup_incl_length; [apply id_space_nodup|].
  intros x Hx. apply H. unfold id_space in Hx. apply in_map_iff in Hx. destruct Hx as (n & <- & Hn).
  apply in_seq in Hn. lia.
Qed.

Section AcquireCap.
  Context (enc dec ores ires : Type).
  Notation state := (state enc dec ores ires).
  Notation acquire := (acquire_free_pid enc dec ores ires).

  Theorem acquire_succeeds_below_capacity (s : state) id :
    pids_ok s -> N.of_nat (length (s_alloc s)) < 65535 -> exists s' c, acquire s id = Ok (s', c).
  Proof.
    intros Hok Hlen. destruct (acquire s id) as [[s' c]|k|site] eqn:E.
    - exists s', c. reflexivity.
    - exfalso. pose proof (full_table_length _ (acquire_err s id k Hok E)) as Hfull.
      rewrite map_length in Hfull. lia.
    - exfalso. exact (acquire_never_panics s id site E).
  Qed.

  (* the cursor moves to the successor of the chosen id (65535 wraps to 1); only cursor and table change *)
  Theorem acquire_cursor (s s' : state) id c :
    acquire s id = Ok (s', c) ->
    s_next_pid s' = (if c =? 65535 then 1 else c + 1) /\
    s' = s <| s_next_pid := s_next_pid s' |> <| s_alloc := s_alloc s' |>.
  Proof.
    intros H. unfold acquire_free_pid in H.
    destruct (first_gap (map fst (s_alloc s)) (s_next_pid s) 65535) as [c1|].
    - inversion H; subst; clear H. split; reflexivity.
    - destruct (first_gap (map fst (s_alloc s)) 1 (s_next_pid s - 1)) as [c2|]; [|discriminate].
      inversion H; subst; clear H. split; reflexivity.
  Qed.

  (* consecutive allocations for the operations ids, nothing released in between *)
  Fixpoint acquire_seq (s : state) (ids : list N) : outcome (state * list N) :=
    match ids with
    | [] => Ok (s, [])
    | id :: r => match acquire s id with
                 | Ok (s1, c) => match acquire_seq s1 r with
                                 | Ok (s2, cs) => Ok (s2, c :: cs)
                                 | Err k => Err k
                                 | Panic n => Panic n
                                 end
                 | Err k => Err k
                 | Panic n => Panic n
                 end
    end.

  Theorem acquire_seq_distinct : forall ids (s s' : state) cs,
    pids_ok s -> acquire_seq s ids = Ok (s', cs) ->
    length cs = length ids /\ NoDup cs /\ Forall (fun c => 1 <= c <= 65535 /\ ~ In c (map fst (s_alloc s))) cs /\
    (forall x, In x (map fst (s_alloc s')) <-> In x cs \/ In x (map fst (s_alloc s))) /\ pids_ok s'.
  Proof.
    induction ids as [|id r IH]; intros s s' cs Hok H; cbn [acquire_seq] in H.
    - inversion H; subst; clear H. split; [reflexivity|]. split; [constructor|]. split; [constructor|].
      split; [|exact Hok]. intros x. cbn [In]. tauto.
    - destruct (acquire s id) as [[s1 c]|k|n] eqn:E1; try discriminate.
      destruct (acquire_seq s1 r) as [[s2 cs2]|k|n] eqn:E2; try discriminate.
      inversion H; subst; clear H.
      destruct (acquire_ok s s1 id c Hok E1) as (Hr & Hfree & Hkeys & _ & Hok1).
      destruct (IH s1 s' cs2 Hok1 E2) as (Hlen & Hnd & Hall & Hk2 & Hok2).
      rewrite Forall_forall in Hall.
      split; [cbn; lia|]. split.
      + constructor; [|exact Hnd]. intros Hin. destruct (Hall c Hin) as [_ Hn]. apply Hn. apply Hkeys. left; reflexivity.
      + split; [|split; [|exact Hok2]].
        * constructor; [split; assumption|]. rewrite Forall_forall. intros x Hx. destruct (Hall x Hx) as [Hxr Hxn].
          split; [exact Hxr|]. intros Hin. apply Hxn. apply Hkeys. right; exact Hin.
        * intros x. rewrite Hk2, Hkeys. cbn [In]. intuition (subst; auto).
  Qed.

  (* and they all succeed while the table has room for them *)
  Theorem acquire_seq_succeeds : forall ids (s : state),
    pids_ok s -> N.of_nat (length (s_alloc s)) + N.of_nat (length ids) <= 65535 ->
    exists s' cs, acquire_seq s ids = Ok (s', cs).
  Proof.
    induction ids as [|id r IH]; intros s Hok Hroom; cbn [acquire_seq].
    - exists s, []. reflexivity.
    - cbn [length] in Hroom.
      destruct (acquire_succeeds_below_capacity s id Hok ltac:(lia)) as (s1 & c & E1). rewrite E1.
      destruct (acquire_ok s s1 id c Hok E1) as (_ & Hfree & Hkeys & _ & Hok1).
      assert (Hlen1 : length (s_alloc s1) = S (length (s_alloc s))).
      { unfold acquire_free_pid in E1.
        assert (Hins : s_alloc s1 = insert c id (s_alloc s)).
        { destruct (first_gap (map fst (s_alloc s)) (s_next_pid s) 65535);
            [|destruct (first_gap (map fst (s_alloc s)) 1 (s_next_pid s - 1)); [|discriminate]];
            inversion E1; subst; reflexivity. }
        rewrite Hins. clear - Hfree. induction (s_alloc s) as [|[k v] l IHl]; [reflexivity|].
        cbn [insert]. cbn [map fst In] in Hfree.
        destruct (c <? k); [reflexivity|]. destruct (k =? c) eqn:Ekc; [exfalso; apply Hfree; left; lia|].
        cbn [length]. rewrite IHl; [reflexivity|]. intros Hin. apply Hfree. right; exact Hin. }
      destruct (IH s1 Hok1 ltac:(rewrite Hlen1; lia)) as (s2 & cs & E2). rewrite E2.
      exists s2, (c :: cs). reflexivity.
  Qed.
End AcquireCap.

(* non-vacuity: cursor at 65535 with 65535 and 1 reserved: the allocation wraps to 2 and the cursor moves to 3 *)
Example acquire_wrap_example :
  forall (enc dec ores ires : Type) (s : state enc dec ores ires),
    s_alloc s = [(1, 7); (65535, 8)] -> s_next_pid s = 65535 ->
    exists s', acquire_free_pid enc dec ores ires s 9 = Ok (s', 2) /\ s_next_pid s' = 3 /\
               s_alloc s' = [(1, 7); (2, 9); (65535, 8)].
Proof.
  intros enc dec ores ires s Ha Hn. unfold acquire_free_pid. rewrite Ha, Hn. cbn.
  eexists; split; [reflexivity|]. split; reflexivity.
Qed.
