(* Well-formedness through the service path, part 3: the per-state facts through seat_current
   and fully_written, service_loop, service_queue. *)
From GM Require Import Base.Prelude Base.Outcome Codec.Packets Codec.Settings Engine.Model
  EngineProofs.AssocLemmas EngineProofs.PacketIds EngineProofs.WFLemmas EngineProofs.WFDefs EngineProofs.WFCore
  EngineProofs.WFComplete EngineProofs.WFClose EngineProofs.WFService EngineProofs.WFService2 EngineProofs.WFTrack.
From Coq Require Import Sorting.Sorted Sorting.Permutation.
From RecordUpdate Require Import RecordSet.
Import RecordSetNotations.
Open Scope N_scope.

(* the four component types are implicit in the engine functions, locally to this file *)
#[local] Arguments init {enc dec} _ {ores ires} _ _.
#[local] Arguments release {enc dec ores ires} _ _ _ _.
#[local] Arguments disconnect_completion {enc dec ores ires} _ _.
#[local] Arguments fail_op {enc dec ores ires} _ _ _ _.
#[local] Arguments ping_extension {enc dec ores ires} _ _.
#[local] Arguments succeed_op {enc dec ores ires} _ _ _ _.
#[local] Arguments fail_all {enc dec ores ires} _ _ _ _.
#[local] Arguments succeed_all {enc dec ores ires} _ _ _.
#[local] Arguments andthen {enc dec ores ires} _ _.
#[local] Arguments try_ {enc dec ores ires} _ _.
#[local] Arguments pure {enc dec ores ires} _.
#[local] Arguments create_operation {enc dec ores ires} _ _.
#[local] Arguments passes_now {enc dec ores ires} _ _ _.
#[local] Arguments user_event {enc dec ores ires} _ _ _ _.
#[local] Arguments create_connect {enc dec ores ires} _ _.
#[local] Arguments net_opened {enc dec} _ {ores ires} _ _ _.
#[local] Arguments op_exists {enc dec ores ires} _ _.
#[local] Arguments op_passes {enc dec ores ires} _ _ _.
#[local] Arguments partition_policy {enc dec ores ires} _ _ _.
#[local] Arguments closed_current {enc dec ores ires} _ _.
#[local] Arguments slow_start_init {enc dec ores ires} _ _.
#[local] Arguments update_retries {enc dec ores ires} _ _.
#[local] Arguments fail_exceeding {enc dec ores ires} _ _.
#[local] Arguments has_pubrel {enc dec ores ires} _ _.
#[local] Arguments net_closed_raw {enc dec ores ires} _ _.
#[local] Arguments net_closed {enc dec ores ires} _ _.
#[local] Arguments net_write_completion {enc dec ores ires} _ _.
#[local] Arguments acquire_free_pid {enc dec ores ires} _ _.
#[local] Arguments acquire_pid_for {enc dec ores ires} _ _.
#[local] Arguments unbind {enc dec ores ires} _ _.
#[local] Arguments passes_receive_max {enc dec ores ires} _ _.
#[local] Arguments throttled {enc dec ores ires} _ _.
#[local] Arguments has_pending_ack {enc dec ores ires} _.
#[local] Arguments dequeue {enc dec ores ires} _ _ _.
#[local] Arguments fully_written {enc dec ores ires} _ _.
#[local] Arguments service_keep_alive {enc dec ores ires} _ _ _.
#[local] Arguments process_ack_timeouts {enc dec ores ires} _ _ _.
#[local] Arguments halt_on_error {enc dec ores ires} _ _.
#[local] Arguments next_service_time {enc dec ores ires} _ _ _.
#[local] Arguments build_settings {enc dec ores ires} _ _ _.
#[local] Arguments apply_session {enc dec ores ires} _ _ _.
#[local] Arguments hres_of {enc dec ores ires} _ _.
#[local] Arguments pre_connack {enc dec ores ires} _.
#[local] Arguments sum_ss {enc dec ores ires} _.
#[local] Arguments handle_pingresp {enc dec ores ires} _.
#[local] Arguments handle_suback {enc dec ores ires} _ _ _.
#[local] Arguments handle_unsuback {enc dec ores ires} _ _ _.
#[local] Arguments publish_qos_of {enc dec ores ires} _ _.
#[local] Arguments handle_puback {enc dec ores ires} _ _ _.
#[local] Arguments handle_pubrec {enc dec ores ires} _ _ _.
#[local] Arguments handle_pubrel {enc dec ores ires} _ _.
#[local] Arguments handle_pubcomp {enc dec ores ires} _ _ _.
#[local] Arguments handle_publish {enc dec ores ires} _ _.
#[local] Arguments handle_disconnect {enc dec ores ires} _ _ _.
#[local] Arguments is_connect_op {enc dec ores ires} _ _.
#[local] Arguments connect_in_queue {enc dec ores ires} _.
#[local] Arguments reset {enc dec ores ires} _ _.
#[local] Arguments out_of_res {enc dec ores ires} _ _.
#[local] Arguments nst_queue {enc dec ores ires} _ _ _ _.
#[local] Arguments earliest_tmo {enc dec ores ires} _.
#[local] Arguments SeatStop {enc dec ores ires} _.
#[local] Arguments SeatContinue {enc dec ores ires} _ _.
#[local] Arguments SeatEncode {enc dec ores ires} _.


Lemma NoDup_move_last {A} (x : A) (l m : list A) : NoDup (x :: l ++ m) -> NoDup (l ++ m ++ [x]).
Proof.
  intros H. rewrite app_assoc. eapply Permutation_NoDup; [apply Permutation_cons_append|exact H].
Qed.

Section Loop.
  Variable enc : Type.
  Variable enc_reset : version -> packet -> resolution -> outcome enc.
  Variable enc_call : enc -> N -> N -> outcome (bytes * enc).
  Variable enc_done : enc -> bool.
  Variable dec : Type.
  Variable dec_init : dec.
  Variable dec_feed : version -> N -> dec -> bytes -> dec * list packet * outcome unit.
  Variable ores : Type.
  Variable ores_reset : ores -> N -> ores.
  Variable ores_resolve : ores -> option N -> bytes -> outcome (ores * resolution).
  Variable ires : Type.
  Variable ires_reset : ires -> ires.
  Variable ires_resolve : ires -> option N -> bytes -> outcome (ires * bytes).
  Variable v_out : option settings -> connect_opts -> resolution -> packet -> outcome unit.
  Variable v_in : option settings -> packet -> outcome unit.
  Variable cfg : config.
  Variable HC : comps_ok enc enc_reset enc_call dec dec_init dec_feed ores ores_reset ores_resolve ires ires_reset ires_resolve v_out v_in.

  Notation state := (state enc dec ores ires).
  Notation seat_current := (seat_current enc enc_reset dec ores ores_reset ores_resolve ires v_out cfg).
  Notation service_loop := (service_loop enc enc_reset enc_call enc_done dec ores ores_reset ores_resolve ires v_out cfg).

  Ltac splits := repeat match goal with |- _ /\ _ => split end.
  Ltac tuple_eqs H := repeat (apply pair_equal_spec in H; destruct H as [H ?]).

  (* WFP only looks at these fields (and at whether an encoder is present) *)
  Definition wfp_view (s : state) :=
    (s_st s, s_ppub s, s_pnon s, s_pwco s, s_hq s, s_tmo s, s_cur s, s_connack_to s, s_settings s, s_ss_count s, s_ops s).

  Lemma WFP_view (s s' : state) :
    wfp_view s' = wfp_view s -> (s_enc s <> None -> s_enc s' <> None) -> WFP cfg s -> WFP cfg s'.
  Proof.
    intros H He. unfold wfp_view in H. tuple_eqs H.
    unfold WFP, cur_ok, is_conn_op, ss_ok, getop.
    repeat match goal with E : _ s' = _ s |- _ => rewrite E; clear E end.
    destruct (s_st s); try tauto.
    - intros (A1 & A2 & A3 & A4 & A5 & A6 & A7 & A8). splits; auto. intros i o Hi Ho. destruct (A7 i o Hi Ho). split; auto.
    - intros (A1 & A2 & A3). splits; auto. intros i o Hi Ho. destruct (A2 i o Hi Ho). split; auto.
  Qed.

  Definition live (s : state) : Prop := s_st s = PendingConnack \/ s_st s = Connected.

  Lemma dq_rel_pc (s s' : state) id : dq_rel false s s' id -> s_hq s = id :: s_hq s' /\ s_rq s' = s_rq s /\ s_uq s' = s_uq s.
  Proof. intros [H|(H & _)]; [exact H|discriminate]. Qed.

  Lemma dq_rel_qlen m (s s' : state) id : dq_rel m s s' id -> qlen s = S (qlen s').
  Proof.
    unfold qlen. intros [(D1 & D2 & D3)|(D0 & D1 & D2 & [(D3 & D4)|(D3 & D4)])]; rewrite ?D1, ?D2, ?D3, ?D4; cbn [length]; lia.
  Qed.

  (* (A) a stale id was skipped *)
  Lemma WFP_skip m (s s' : state) id :
    WFP cfg s -> s_cur s = None -> (s_st s = PendingConnack -> m = false) ->
    seat_keep s' = seat_keep s -> dq_rel m s s' id -> s_ops s' = s_ops s -> s_enc s' = s_enc s -> s_cur s' = None ->
    WFP cfg s'.
  Proof.
    intros HP Hc Hm K D Eo Ee Hc'. unfold seat_keep in K. tuple_eqs K.
    unfold WFP in *. replace (s_st s') with (s_st s) by congruence. destruct (s_st s) eqn:Est; try tauto.
    - (* Disconnected: the queues only shrink *)
      destruct HP as (A1 & A2 & A3 & A4 & A5 & A6). splits; try congruence.
      destruct D as [(D1 & _)|(_ & _ & D2 & _)]; congruence.
    - destruct HP as (A1 & A2 & A3 & A4 & A5 & A6 & A7 & A8). rewrite (Hm eq_refl) in D.
      destruct (dq_rel_pc _ _ _ D) as (D1 & D2 & D3).
      splits; try congruence.
      + intros i Hi. unfold is_conn_op, getop. rewrite Eo. apply A5. rewrite D1. replace (s_pwco s) with (s_pwco s') by congruence.
        destruct Hi; [left; right; assumption|right; assumption].
      + rewrite Hc'. rewrite D1, Hc in A8. cbn in A8. inversion A8; subst. replace (s_pwco s') with (s_pwco s) by congruence. assumption.
    - destruct HP as (A1 & A2 & A3). splits; try congruence.
      unfold ss_ok in *. rewrite Eo. replace (s_ss_count s') with (s_ss_count s) by congruence. exact A3.
    - congruence.
  Qed.

  (* (C) an operation was seated *)
  Lemma WFP_seated m (s s' : state) id :
    WFS s -> WFP cfg s -> live s -> s_cur s = None -> (s_st s = PendingConnack -> m = false) ->
    seated m s s' id -> s_cur s' = Some id -> s_enc s' <> None -> WFP cfg s'.
  Proof.
    intros HW HP Hl Hc Hm [K D Hoth (o & o' & Ho & Ho' & Hrel & Hbound) Hsum] Hc' He.
    unfold seat_keep in K. tuple_eqs K.
    destruct Hrel as (R1 & R2 & R3 & R4 & R5 & R6 & R7 & R8).
    unfold WFP in *. replace (s_st s') with (s_st s) by congruence.
    destruct Hl as [Est|Est]; rewrite Est in *.
    - destruct HP as (A1 & A2 & A3 & A4 & A5 & A6 & A7 & A8). rewrite (Hm eq_refl) in D.
      destruct (dq_rel_pc _ _ _ D) as (D1 & D2 & D3).
      rewrite D1, Hc in A8. cbn in A8. rewrite app_nil_r in A8.
      assert (Hnotin : ~ In id (s_hq s' ++ s_pwco s)) by (inversion A8; assumption).
      destruct (A5 id) as (o0 & Ho0 & Hcon & Husr); [left; rewrite D1; left; reflexivity|].
      assert (o0 = o) by congruence. subst o0.
      splits; try congruence.
      + intros i Hi. assert (Hne : i <> id).
        { intros ->. apply Hnotin. apply in_or_app. replace (s_pwco s) with (s_pwco s') by congruence. tauto. }
        unfold is_conn_op. rewrite (Hoth i Hne). apply A5. rewrite D1. replace (s_pwco s) with (s_pwco s') by congruence.
        destruct Hi; [left; right; assumption|right; assumption].
      + intros i o1 Hi Hi1. rewrite Hc' in Hi. inversion Hi; subst i. assert (o1 = o') by congruence. subst o1.
        split; congruence.
      + intros i o1 Hi Hi1. rewrite Hc' in Hi. inversion Hi; subst i. assert (o1 = o') by congruence. subst o1.
        split; [exact He|exact Hbound].
      + rewrite Hc'. cbn. replace (s_pwco s') with (s_pwco s) by congruence. apply NoDup_move_last. exact A8.
    - destruct HP as (A1 & A2 & A3). splits; try congruence.
      + intros i o1 Hi Hi1. rewrite Hc' in Hi. inversion Hi; subst i. assert (o1 = o') by congruence. subst o1.
        split; [exact He|exact Hbound].
      + unfold ss_ok in *. rewrite Hsum. replace (s_ss_count s') with (s_ss_count s) by congruence. exact A3.
  Qed.

  (* (B) the seated operation failed validation and was completed with an error *)
  Lemma WFP_failed m (s s4 s' : state) id :
    WFP cfg s -> live s -> s_cur s = None -> (s_st s = PendingConnack -> m = false) ->
    seated m s s4 id -> frame_c [id] s4 s' -> s_cur s4 = None -> W9 cfg s' -> getop s' id = None ->
    WFP cfg s'.
  Proof.
    intros HP Hl Hc Hm [K D Hoth _ Hsum] F Hc4 H9 Hgone.
    unfold seat_keep in K. tuple_eqs K.
    destruct (rest_fields _ _ (fc_rest _ _ _ F)) as (R1 & R2 & R3 & R4 & R5 & R6 & R7 & R8 & R9 & R10 & R11 & R12 & R13).
    assert (Hst : s_st s' = s_st s).
    { destruct (fc_st _ _ _ F) as [E|[E _]]; [congruence|]. destruct Hl; congruence. }
    unfold WFP in *. rewrite Hst. destruct Hl as [Est|Est]; rewrite Est in *.
    - destruct HP as (A1 & A2 & A3 & A4 & A5 & A6 & A7 & A8). rewrite (Hm eq_refl) in D.
      destruct (dq_rel_pc _ _ _ D) as (D1 & D2 & D3).
      rewrite D1, Hc in A8. cbn in A8. rewrite app_nil_r in A8.
      assert (Hnotin : ~ In id (s_hq s4 ++ s_pwco s)) by (inversion A8; assumption).
      splits; try congruence.
      + eapply subset_nil; [apply (fc_ppub _ _ _ F)|congruence].
      + eapply subset_nil; [apply (fc_pnon _ _ _ F)|congruence].
      + intros i Hi. rewrite R3, R5 in Hi. assert (Hne : i <> id).
        { intros ->. apply Hnotin. apply in_or_app. replace (s_pwco s) with (s_pwco s4) by congruence. tauto. }
        unfold is_conn_op. rewrite (fc_keep _ _ _ F i) by (intros [Hx|[]]; congruence). rewrite (Hoth i Hne).
        apply A5. rewrite D1. replace (s_pwco s) with (s_pwco s4) by congruence. destruct Hi; [left; right; assumption|right; assumption].
      + rewrite R4, Hc4. cbn. rewrite app_nil_r. rewrite R3, R5. replace (s_pwco s4) with (s_pwco s) by congruence. inversion A8; assumption.
    - destruct HP as (A1 & A2 & A3). splits; try congruence. apply H9. congruence.
  Qed.

  (* (D) the seated operation was fully written *)
  Lemma WFP_written (s s' : state) id o now :
    WFP cfg s -> live s -> s_cur s = Some id -> getop s id = Some o ->
    but_fw s' = but_fw s -> s_cur s' = None ->
    s_ops s' = update id (fun o => o <| op_ext := Some now |>) (s_ops s) ->
    s_st s' = (if is_disconnect (op_packet o) then PendingDisconnect else s_st s) ->
    (op_user o = false -> s_tmo s' = s_tmo s) ->
    (needs_pid (op_packet o) = false -> s_pwco s' = s_pwco s ++ [id] /\ s_ppub s' = s_ppub s /\ s_pnon s' = s_pnon s) ->
    WFP cfg s'.
  Proof.
    intros HP Hl Hc Hid K Hc' Eo Est' Htmo Hpw. unfold but_fw in K. tuple_eqs K.
    assert (Hget : forall i o1, getop s i = Some o1 -> exists o2, getop s' i = Some o2 /\ op_packet o2 = op_packet o1 /\ op_user o2 = op_user o1).
    { intros i o1 Hi. unfold getop in *. rewrite Eo, (lookup_update_fwd _ _ _ _ _ Hi). eexists. split; [reflexivity|].
      destruct (i =? id); cbn; tauto. }
    unfold WFP in *. destruct Hl as [Est|Est]; rewrite Est in *.
    - destruct HP as (A1 & A2 & A3 & A4 & A5 & A6 & A7 & A8).
      destruct (A6 id o Hc Hid) as (Hcon & Husr).
      assert (Hnd : is_disconnect (op_packet o) = false) by (destruct (op_packet o); try discriminate; reflexivity).
      assert (Hnn : needs_pid (op_packet o) = false) by (destruct (op_packet o); try discriminate; reflexivity).
      destruct (Hpw Hnn) as (P1 & P2 & P3). rewrite Hnd in Est'. rewrite Est'.
      splits; try congruence.
      + rewrite (Htmo Husr). exact A3.
      + intros i Hi. rewrite P1 in Hi. replace (s_hq s') with (s_hq s) in Hi by congruence.
        assert (Hi0 : is_conn_op s i).
        { destruct Hi as [Hi|Hi]; [apply A5; tauto|]. apply in_app_or in Hi. destruct Hi as [Hi|[<-|[]]]; [apply A5; tauto|].
          exists o. tauto. }
        destruct Hi0 as (o1 & Ho1 & C1 & C2). destruct (Hget _ _ Ho1) as (o2 & Ho2 & E1 & E2). exists o2. splits; congruence.
      + rewrite Hc'. cbn. rewrite app_nil_r. rewrite P1. replace (s_hq s') with (s_hq s) by congruence. rewrite Hc in A8. cbn in A8. exact A8.
    - destruct HP as (A1 & A2 & A3). rewrite Est'. destruct (is_disconnect (op_packet o)).
      + congruence.
      + splits; try congruence. unfold ss_ok in *. rewrite Eo, sumss_update by reflexivity.
        replace (s_ss_count s') with (s_ss_count s) by congruence. exact A3.
  Qed.

  (* ---- the encode half of one loop iteration, with the recursive call abstracted ---- *)
  Definition encode_step (k : state -> bytes -> sres enc dec ores ires) (now cap fill : N)
             (s5 : state) (acc : bytes) (dn : dones) : sres enc dec ores ires :=
    match s_cur s5 with
    | None => mkSres s5 acc dn (Panic 1433)
    | Some id =>
        if negb (op_exists s5 id) then mkSres s5 acc dn (Err EInternalStateError) else
        match s_enc s5 with
        | None => mkSres s5 acc dn (Panic 1436)
        | Some e =>
            match enc_call e (fill + len acc) cap with
            | Err k => mkSres s5 acc dn (Err k)
            | Panic site => mkSres s5 acc dn (Panic site)
            | Ok (out, e') =>
                let s6 := s5 <| s_enc := Some e' |> in
                if enc_done e' then
                  match fully_written s6 now with
                  | Ok s7 => k s7 (acc ++ out)
                  | Err k => mkSres s6 (acc ++ out) dn (Err k)
                  | Panic site => mkSres s6 (acc ++ out) dn (Panic site)
                  end
                else mkSres s6 (acc ++ out) dn (Ok tt)
            end
        end
    end.

  (* [T] stands for "the tracking invariant held in the state the loop started from" *)
  Definition lp (st0 : pstate) (T : Prop) (r : sres enc dec ores ires) : Prop :=
    (forall site, sr_out r <> Panic site) /\ WFS (sr_s r) /\ (sr_out r = Ok tt -> WFP cfg (sr_s r)) /\
    (s_st (sr_s r) = st0 \/ s_st (sr_s r) = PendingDisconnect) /\ cinv HC (sr_s r) /\ (T -> TR (sr_s r)).

  Lemma lp_err (s : state) acc dn k : WFS s -> cinv HC s -> lp (s_st s) (TR s) (mkSres s acc dn (Err k)).
  Proof. intros H HI. unfold lp. cbn. splits; auto; intros; discriminate. Qed.

  Lemma lp_weaken st0 st1 (T T' : Prop) r : lp st1 T' r -> st1 = st0 \/ st1 = PendingDisconnect -> (T -> T') -> lp st0 T r.
  Proof. intros (A & B & C & D & E & G) H HT. unfold lp. splits; auto. destruct D as [D|D]; [|tauto]. rewrite D. exact H. Qed.

  Lemma encode_step_spec k now cap fill (s5 : state) acc dn :
    WF cfg s5 -> cinv HC s5 -> live s5 -> s_cur s5 <> None -> 4 <= cap ->
    (forall s7 acc', WF cfg s7 -> cinv HC s7 -> s_cur s7 = None -> qlen s7 = qlen s5 ->
                     (s_st s7 = s_st s5 \/ s_st s7 = PendingDisconnect) -> lp (s_st s7) (TR s7) (k s7 acc')) ->
    lp (s_st s5) (TR s5) (encode_step k now cap fill s5 acc dn).
  Proof.
    intros [HW HP] HI Hl Hc Hcap Hk. unfold encode_step. destruct (s_cur s5) as [id|] eqn:Ec; [|congruence].
    destruct (op_exists s5 id) eqn:Eex; cbn [negb]; [|apply lp_err; assumption].
    assert (Hex : exists o, getop s5 id = Some o).
    { unfold op_exists in Eex. unfold getop. destruct (lookup id (s_ops s5)) as [o|]; [eauto|discriminate]. }
    destruct Hex as (o & Ho).
    assert (Hcok : cur_ok s5).
    { unfold WFP in HP. destruct Hl as [E|E]; rewrite E in HP; tauto. }
    destruct (Hcok id o Ec Ho) as (Henc & Hbound).
    destruct (s_enc s5) as [e|] eqn:Ee; [|congruence].
    destruct (co_enc_call HC e (fill + len acc) cap (proj1 HI e Ee) Hcap) as (Hnpc & Hinvc).
    destruct (enc_call e (fill + len acc) cap) as [[out e']|kk|site] eqn:Ecall; [|apply lp_err; assumption|].
    2:{ exfalso. eapply Hnpc. reflexivity. }
    cbv zeta. set (s6 := s5 <| s_enc := Some e' |>).
    assert (HI6 : cinv HC s6).
    { destruct HI as (_ & B & C & D). unfold cinv. cbn. splits; auto. intros e0 He0. inversion He0; subst. eapply Hinvc. reflexivity. }
    assert (HW6 : WFS s6) by exact HW.
    assert (HP6 : WFP cfg s6).
    { eapply (WFP_view s5 s6); [reflexivity| |exact HP]. intros _. cbn. discriminate. }
    destruct (enc_done e').
    2:{ unfold lp. cbn. splits; auto. intros; discriminate. }
    change (s_st s5) with (s_st s6).
    destruct (fully_written_spec [] s6 now id o HW6 Ec Ho Hbound) as (s7 & E7 & HW7 & K7 & C7 & O7 & S7 & T7 & M7 & P7).
    rewrite E7.
    assert (Hst7 : s_st s7 = s_st s6 \/ s_st s7 = PendingDisconnect).
    { rewrite S7. destruct (is_disconnect (op_packet o)); tauto. }
    assert (HT7 : TR s5 -> TR s7).
    { intros T5. assert (T6 : TR s6) by (apply (TR_queues s5); [reflexivity|unfold inQ; cbn; tauto|exact T5]).
      apply (TR_gen s6 s7 T6). intros i o1 Hi Hp. right. unfold getop in Hi. rewrite O7 in Hi. apply lookup_update_inv in Hi.
      destruct Hi as (o0 & Ho0 & Hcase).
      assert (E0 : op_pid o1 = op_pid o0 /\ op_packet o1 = op_packet o0 /\ op_pubrel o1 = op_pubrel o0).
      { destruct Hcase as [[_ ->]|[_ ->]]; cbn; tauto. }
      destruct E0 as (E01 & E02 & E03). exists o0. splits; auto; [congruence|].
      pose proof K7 as Kt. unfold but_fw in Kt. tuple_eqs Kt.
      unfold inQ. replace (s_uq s7) with (s_uq s6) by congruence. replace (s_rq s7) with (s_rq s6) by congruence.
      replace (s_hq s7) with (s_hq s6) by congruence. rewrite C7. change (s_cur s6) with (s_cur s5). rewrite Ec.
      intros [Q|[Q|[Q|[Q|Q]]]]; auto 6.
      inversion Q; subst i. unfold getop in Ho. change (s_ops s6) with (s_ops s5) in Ho0. assert (o0 = o) by congruence. subst o0.
      destruct (needs_pid (op_packet o)) eqn:En; [exfalso; apply (Hbound eq_refl); congruence|].
      destruct (P7 eq_refl) as (P71 & _). rewrite P71. right; right; right; right. apply in_or_app. right. left. reflexivity. }
    eapply lp_weaken; [|exact Hst7|exact HT7]. apply Hk.
    - split; [exact HW7|]. eapply (WFP_written s6 s7 id o now); eauto.
    - eapply cinv_comp; [|exact HI6]. unfold comp_of. pose proof K7 as Kt. unfold but_fw in Kt. tuple_eqs Kt. congruence.
    - exact C7.
    - unfold but_fw in K7. tuple_eqs K7. unfold qlen. cbn in *. congruence.
    - exact Hst7.
  Qed.

  Lemma service_loop_S f (s : state) m now cap fill acc dn :
    service_loop (S f) s m now cap fill acc dn =
    if negb (pstate_eqb (s_st s) PendingConnack || pstate_eqb (s_st s) Connected) then mkSres s acc dn (Ok tt) else
    match seat_current s m acc dn with
    | SeatStop r => r
    | SeatContinue s5 dn' => service_loop f s5 m now cap fill acc dn'
    | SeatEncode s5 => encode_step (fun s7 acc' => service_loop f s7 m now cap fill acc' dn) now cap fill s5 acc dn
    end.
  Proof. reflexivity. Qed.

  Definition mu (s : state) : nat := (qlen s + match s_cur s with Some _ => 1 | None => 0 end)%nat.

  Lemma live_guard (s : state) :
    negb (pstate_eqb (s_st s) PendingConnack || pstate_eqb (s_st s) Connected) = false -> live s.
  Proof. unfold live. destruct (s_st s); cbn; intros H; try discriminate; tauto. Qed.

  Lemma service_loop_spec : forall f (s : state) m now cap fill acc dn,
    WF cfg s -> cinv HC s -> (s_st s = PendingConnack -> m = false) -> (mu s < f)%nat -> 4 <= cap ->
    lp (s_st s) (TR s) (service_loop f s m now cap fill acc dn).
  Proof.
    induction f as [|f IH]; intros s m now cap fill acc dn [HW HP] HI Hm Hmu Hcap; [lia|].
    rewrite service_loop_S.
    destruct (negb (pstate_eqb (s_st s) PendingConnack || pstate_eqb (s_st s) Connected)) eqn:Eg.
    { unfold lp. cbn. splits; auto. intros; discriminate. }
    pose proof (live_guard s Eg) as Hl.
    destruct (s_cur s) as [id0|] eqn:Ec.
    - (* an operation is already seated *)
      assert (Es : seat_current s m acc dn = SeatEncode s) by (unfold Model.seat_current; rewrite Ec; reflexivity).
      rewrite Es. apply encode_step_spec; auto; [split; assumption|congruence|].
      intros s7 acc' HW7 HI7 Hc7 Hq Hst.
      apply IH; [exact HW7|exact HI7|intros E; apply Hm; destruct Hst; congruence| |exact Hcap]. unfold mu in *. rewrite Hc7, Hq, Ec in *. lia.
    - assert (H9 : W9 cfg s).
      { intros E. unfold WFP in HP. rewrite E in HP. tauto. }
      assert (Hv : s_settings s <> None \/
                   (m = false /\ forall id o, In id (s_hq s) -> getop s id = Some o -> is_connect (op_packet o) = true)).
      { unfold WFP in HP. destruct Hl as [E|E]; rewrite E in HP.
        - right. split; [auto|]. intros id o Hi Ho. destruct HP as (_ & _ & _ & _ & A5 & _).
          destruct (A5 id (or_introl Hi)) as (o1 & Ho1 & C1 & _). congruence.
        - left. tauto. }
      pose proof (seat_gen _ _ _ _ _ _ _ _ _ _ _ _ _ _ _ HC s m acc dn HW Ec H9 Hv HI) as Hpost.
      destruct (seat_current s m acc dn) as [r|s5 dn'|s5]; cbn [seat_post] in Hpost.
      + destruct Hpost as (P0 & PT & P1 & P2 & P3 & P4 & P5). unfold lp. splits; auto; [intros E; rewrite (P3 E); exact HP|].
        destruct P5 as [P5|P5]; [left; exact P5|destruct Hl; congruence].
      + destruct Hpost as (HI5 & HT5 & HW5 & Hc5 & id & Hcase).
        assert (H5 : WFP cfg s5 /\ s_st s5 = s_st s /\ qlen s = S (qlen s5)).
        { destruct Hcase as [(G & K & D & Eo & Ee)|(s4 & Hsd & F & Hc4 & H95 & Hg)].
          - split; [eapply WFP_skip; eauto|]. split; [|eapply dq_rel_qlen; eauto].
            unfold seat_keep in K. tuple_eqs K. congruence.
          - split; [eapply WFP_failed; eauto|].
            destruct Hsd as [K D _ _ _]. unfold seat_keep in K. tuple_eqs K.
            destruct (rest_fields _ _ (fc_rest _ _ _ F)) as (R1 & R2 & R3 & _).
            split.
            + destruct (fc_st _ _ _ F) as [E|[E _]]; [congruence|]. destruct Hl; congruence.
            + rewrite (dq_rel_qlen _ _ _ _ D). unfold qlen. congruence. }
        destruct H5 as (HP5 & Hst5 & Hq5).
        rewrite <- Hst5. eapply lp_weaken; [|left; reflexivity|exact HT5].
        apply IH; [split; assumption|exact HI5|rewrite Hst5; exact Hm| |exact Hcap]. unfold mu in *. rewrite Hc5, Ec in *. lia.
      + destruct Hpost as (HI5 & HT5 & HW5 & id & Hsd & Hc5 & He5).
        assert (HP5 : WFP cfg s5) by exact (WFP_seated m s s5 id HW HP Hl Ec Hm Hsd Hc5 He5).
        assert (Hst5 : s_st s5 = s_st s) by (destruct Hsd as [K _ _ _ _]; unfold seat_keep in K; tuple_eqs K; congruence).
        assert (Hq5 : qlen s = S (qlen s5)) by (destruct Hsd as [_ D _ _ _]; eapply dq_rel_qlen; eauto).
        rewrite <- Hst5. eapply lp_weaken; [|left; reflexivity|exact HT5].
        apply encode_step_spec; auto; [split; assumption|unfold live in *; rewrite Hst5; exact Hl|congruence|].
        intros s7 acc' HW7 HI7 Hc7 Hq Hst.
        apply IH; [exact HW7|exact HI7|intros E; apply Hm; rewrite <- Hst5; destruct Hst; congruence| |exact Hcap].
        unfold mu in *. rewrite Hc7, Hq, Ec in *. lia.
  Qed.
End Loop.

Arguments WFP_view {enc dec ores ires} cfg s s' _ _ _.
Arguments lp {enc enc_reset enc_call dec dec_init dec_feed ores ores_reset ores_resolve ires ires_reset ires_resolve v_out v_in} cfg HC st0 T r.
Arguments live {enc dec ores ires} s.
Arguments wfp_view {enc dec ores ires} s.
