(* C18 / C14 run level, part 5: the invariants hold in every reachable state.

   TM (epoch h) : armed / sound ack-timeout records (C18), E = times of the service calls since the
                  last close / reset;
   KI           : keep-alive deadlines (C14);
   intr_count   : the interruption count of an operation is the number of closes that caught it in
                  s_ppub / s_pnon (ghost counter defined by recursion over the history). *)
From GM Require Import Base.Prelude Base.Outcome Codec.Packets Codec.Settings Engine.Model
  EngineProofs.AssocLemmas EngineProofs.WFLemmas EngineProofs.SvcTimeout
  EngineProofs.WFDefs EngineProofs.WFCore EngineProofs.WFComplete EngineProofs.WFClose EngineProofs.WFClose2 EngineProofs.WFEvents
  EngineProofs.WFStep EngineProofs.WFProps
  EngineProofs.TimersRunDefs EngineProofs.TimersRunSvc EngineProofs.TimersRunData EngineProofs.TimersRunClose.
From RecordUpdate Require Import RecordSet.
Import RecordSetNotations.
Open Scope N_scope.

Definition epoch_step (E : list N) (e : event) : list N :=
  match e with EvClose _ | EvReset _ => [] | EvService now _ _ => now :: E | _ => E end.
Definition epoch (h : list event) : list N := fold_left epoch_step h [].

Section Run.
  Variable enc : Type.
  Variable enc_reset : version -> packet -> resolution -> outcome enc.
  Variable enc_call : enc -> N -> N -> outcome (bytes * enc).
  Variable enc_done : enc -> bool.
  Variable dec : Type.
  Variable dec_init : dec.
  Variable dec_feed : version -> N -> dec -> bytes -> dec * list packet * outcome unit.
  Variable ores : Type.
  Variable ores_reset : ores -> N -> ores.
  Variable ores_resolve : ores -> option N -> bytes -> outcome (ores * resolution).
  Variable ires : Type.
  Variable ires_reset : ires -> ires.
  Variable ires_resolve : ires -> option N -> bytes -> outcome (ires * bytes).
  Variable v_out : option settings -> connect_opts -> resolution -> packet -> outcome unit.
  Variable v_in : option settings -> packet -> outcome unit.
  Variable cfg : config.

  Notation state := (Model.state enc dec ores ires).
  Notation init := (Model.init enc dec dec_init ores ires).
  Notation res := (Model.res enc dec ores ires).
  Notation release := (Model.release enc dec ores ires cfg).
  Notation disconnect_completion := (Model.disconnect_completion enc dec ores ires).
  Notation fail_op := (Model.fail_op enc dec ores ires cfg).
  Notation ping_extension := (Model.ping_extension enc dec ores ires).
  Notation succeed_op := (Model.succeed_op enc dec ores ires cfg).
  Notation fail_all := (Model.fail_all enc dec ores ires cfg).
  Notation succeed_all := (Model.succeed_all enc dec ores ires cfg).
  Notation andthen := (Model.andthen enc dec ores ires).
  Notation try_ := (Model.try_ enc dec ores ires).
  Notation pure := (Model.pure enc dec ores ires).
  Notation create_operation := (Model.create_operation enc dec ores ires).
  Notation passes_now := (Model.passes_now enc dec ores ires cfg).
  Notation user_event := (Model.user_event enc dec ores ires cfg).
  Notation create_connect := (Model.create_connect enc dec ores ires cfg).
  Notation net_opened := (Model.net_opened enc dec dec_init ores ires cfg).
  Notation op_exists := (Model.op_exists enc dec ores ires).
  Notation op_passes := (Model.op_passes enc dec ores ires cfg).
  Notation partition_policy := (Model.partition_policy enc dec ores ires cfg).
  Notation closed_current := (Model.closed_current enc dec ores ires cfg).
  Notation slow_start_init := (Model.slow_start_init enc dec ores ires cfg).
  Notation update_retries := (Model.update_retries enc dec ores ires cfg).
  Notation fail_exceeding := (Model.fail_exceeding enc dec ores ires cfg).
  Notation has_pubrel := (Model.has_pubrel enc dec ores ires).
  Notation net_closed_raw := (Model.net_closed_raw enc dec ores ires cfg).
  Notation net_closed := (Model.net_closed enc dec ores ires cfg).
  Notation net_write_completion := (Model.net_write_completion enc dec ores ires cfg).
  Notation acquire_free_pid := (Model.acquire_free_pid enc dec ores ires).
  Notation acquire_pid_for := (Model.acquire_pid_for enc dec ores ires).
  Notation unbind := (Model.unbind enc dec ores ires).
  Notation passes_receive_max := (Model.passes_receive_max enc dec ores ires).
  Notation throttled := (Model.throttled enc dec ores ires cfg).
  Notation has_pending_ack := (Model.has_pending_ack enc dec ores ires).
  Notation dequeue := (Model.dequeue enc dec ores ires cfg).
  Notation fully_written := (Model.fully_written enc dec ores ires).
  Notation sres := (Model.sres enc dec ores ires).
  Notation seat := (Model.seat enc dec ores ires).
  Notation seat_current := (Model.seat_current enc enc_reset dec ores ores_reset ores_resolve ires v_out cfg).
  Notation service_loop := (Model.service_loop enc enc_reset enc_call enc_done dec ores ores_reset ores_resolve ires v_out cfg).
  Notation service_queue := (Model.service_queue enc enc_reset enc_call enc_done dec ores ores_reset ores_resolve ires v_out cfg).
  Notation service_keep_alive := (Model.service_keep_alive enc dec ores ires cfg).
  Notation process_ack_timeouts := (Model.process_ack_timeouts enc dec ores ires cfg).
  Notation halt_on_error := (Model.halt_on_error enc dec ores ires).
  Notation service := (Model.service enc enc_reset enc_call enc_done dec ores ores_reset ores_resolve ires v_out cfg).
  Notation earliest_tmo := (Model.earliest_tmo enc dec ores ires).
  Notation nst_queue := (Model.nst_queue enc dec ores ires cfg).
  Notation next_service_time := (Model.next_service_time enc dec ores ires cfg).
  Notation build_settings := (Model.build_settings enc dec ores ires cfg).
  Notation apply_session := (Model.apply_session enc dec ores ires cfg).
  Notation hres := (Model.hres enc dec ores ires).
  Notation hres_of := (Model.hres_of enc dec ores ires).
  Notation pre_connack := (Model.pre_connack enc dec ores ires).
  Notation sum_ss := (Model.sum_ss enc dec ores ires).
  Notation handle_connack := (Model.handle_connack enc dec ores ores_reset ires ires_reset v_in cfg).
  Notation handle_pingresp := (Model.handle_pingresp enc dec ores ires).
  Notation handle_suback := (Model.handle_suback enc dec ores ires cfg).
  Notation handle_unsuback := (Model.handle_unsuback enc dec ores ires cfg).
  Notation publish_qos_of := (Model.publish_qos_of enc dec ores ires).
  Notation handle_puback := (Model.handle_puback enc dec ores ires cfg).
  Notation handle_pubrec := (Model.handle_pubrec enc dec ores ires cfg).
  Notation handle_pubrel := (Model.handle_pubrel enc dec ores ires).
  Notation handle_pubcomp := (Model.handle_pubcomp enc dec ores ires cfg).
  Notation handle_publish := (Model.handle_publish enc dec ores ires).
  Notation handle_disconnect := (Model.handle_disconnect enc dec ores ires cfg).
  Notation handle_packet := (Model.handle_packet enc dec ores ores_reset ires ires_reset v_in cfg).
  Notation handle_packets := (Model.handle_packets enc dec ores ores_reset ires ires_reset ires_resolve v_in cfg).
  Notation is_connect_op := (Model.is_connect_op enc dec ores ires).
  Notation connect_in_queue := (Model.connect_in_queue enc dec ores ires).
  Notation max_incoming_size := (Model.max_incoming_size cfg).
  Notation net_data := (Model.net_data enc dec dec_feed ores ores_reset ires ires_reset ires_resolve v_in cfg).
  Notation reset := (Model.reset enc dec ores ires cfg).
  Notation out_of_res := (Model.out_of_res enc dec ores ires).
  Notation step := (Model.step enc enc_reset enc_call enc_done dec dec_init dec_feed ores ores_reset ores_resolve ires ires_reset ires_resolve v_out v_in cfg).
  Notation run := (Model.run enc enc_reset enc_call enc_done dec dec_init dec_feed ores ores_reset ores_resolve ires ires_reset ires_resolve v_out v_in cfg).
  Notation SeatStop := (Model.SeatStop enc dec ores ires).
  Notation SeatContinue := (Model.SeatContinue enc dec ores ires).
  Notation SeatEncode := (Model.SeatEncode enc dec ores ires).
  Notation mkState := (Model.mkState enc dec ores ires).

  Ltac slia := try clear v_in; try clear v_out; try clear ires_resolve; try clear ires_reset; try clear ores_resolve;
    try clear ores_reset; try clear dec_feed; try clear dec_init; try clear enc_done; try clear enc_call; try clear enc_reset; lia.
  Ltac dm := match goal with
    | |- context [match ?x with _ => _ end] => destruct x eqn:?
    end.

  Ltac dmh H := match type of H with
    | context [match ?x with _ => _ end] => destruct x eqn:?
    end.
  Notation FR := (TimersRunDefs.FR enc dec ores ires).
  Notation NW := (TimersRunDefs.NW enc dec ores ires).
  Notation KR := (TimersRunDefs.KR enc dec ores ires).
  Notation ORi := (TimersRunDefs.OR enc dec ores ires isame TimersRunDefs.fresh_i).
  Notation ORt := (TimersRunDefs.OR enc dec ores ires tsame fresh_op).
  Notation fv := (TimersRunDefs.fv enc dec ores ires).
  Notation FR_refl := (TimersRunDefs.FR_refl enc dec ores ires).
  Notation FR_trans := (TimersRunDefs.FR_trans enc dec ores ires).
  Notation NW_refl := (TimersRunDefs.NW_refl enc dec ores ires).
  Notation NW_trans := (TimersRunDefs.NW_trans enc dec ores ires).
  Notation KR_refl := (TimersRunDefs.KR_refl enc dec ores ires).
  Notation KR_trans := (TimersRunDefs.KR_trans enc dec ores ires).
  Notation FR_view := (TimersRunDefs.FR_view enc dec ores ires).
  Notation KR_view := (TimersRunDefs.KR_view enc dec ores ires).
  Notation NW_view := (TimersRunDefs.NW_view enc dec ores ires).
  Notation FR_sub := (TimersRunDefs.FR_sub enc dec ores ires).
  Notation FR_from := (TimersRunDefs.FR_from enc dec ores ires).
  Notation FR_ops := (TimersRunDefs.FR_ops enc dec ores ires).
  Notation FR_update := (TimersRunDefs.FR_update enc dec ores ires).
  Notation FR_fold := (TimersRunDefs.FR_fold enc dec ores ires).
  Notation ORt_ORi := (TimersRunDefs.ORt_ORi enc dec ores ires).
  Notation ORi_refl := (TimersRunDefs.ORi_refl enc dec ores ires).
  Notation ORi_trans := (TimersRunDefs.ORi_trans enc dec ores ires).
  Notation create_FR := (TimersRunDefs.create_FR enc dec ores ires).
  Notation halt_on_error_FR := (TimersRunDefs.halt_on_error_FR enc dec ores ires).
  Notation unbind_FR := (TimersRunDefs.unbind_FR enc dec ores ires).
  Notation fold_unbind_FR := (TimersRunDefs.fold_unbind_FR enc dec ores ires).
  Notation andthen_R := (TimersRunDefs.andthen_R enc dec ores ires).
  Notation try_R := (TimersRunDefs.try_R enc dec ores ires).
  Notation fail_all_R := (TimersRunDefs.fail_all_R enc dec ores ires cfg).
  Notation fail_op_FR := (TimersRunDefs.fail_op_FR enc dec ores ires cfg).
  Notation succeed_op_FR := (TimersRunDefs.succeed_op_FR enc dec ores ires cfg).
  Notation fail_all_FR := (TimersRunDefs.fail_all_FR enc dec ores ires cfg).
  Notation succeed_all_FR := (TimersRunDefs.succeed_all_FR enc dec ores ires cfg).
  Notation user_event_FR := (TimersRunDefs.user_event_FR enc dec ores ires cfg).
  Notation net_opened_NW := (TimersRunDefs.net_opened_NW enc dec dec_init ores ires cfg).
  Notation net_write_completion_FR := (TimersRunDefs.net_write_completion_FR enc dec ores ires cfg).
  Notation service_keep_alive_NW := (TimersRunDefs.service_keep_alive_NW enc dec ores ires cfg).
  Notation seat_current_FR := (TimersRunDefs.seat_current_FR enc enc_reset dec ores ores_reset ores_resolve ires v_out cfg).
  Ltac splits := repeat match goal with |- _ /\ _ => split end.
  Ltac frv := apply FR_view; reflexivity.
  Notation service_queue_inv := (TimersRunSvc.service_queue_inv enc enc_reset enc_call enc_done dec ores ores_reset ores_resolve ires v_out cfg).
  Notation service_TM := (TimersRunSvc.service_TM enc enc_reset enc_call enc_done dec ores ores_reset ores_resolve ires v_out cfg).
  Notation service_ORi := (TimersRunSvc.service_ORi enc enc_reset enc_call enc_done dec ores ores_reset ores_resolve ires v_out cfg).
  Notation TM_FR := (TimersRunSvc.TM_FR enc dec ores ires).
  Notation TM_NW := (TimersRunSvc.TM_NW enc dec ores ires).
  Notation TM_weaken := (TimersRunSvc.TM_weaken enc dec ores ires).
  Notation TM_written := (TimersRunSvc.TM_written enc dec ores ires).
  Notation TM_timeouts := (TimersRunSvc.TM_timeouts enc dec ores ires cfg).
  Notation fully_written_shape := (TimersRunSvc.fully_written_shape enc dec ores ires).
  Notation fully_written_KR := (TimersRunSvc.fully_written_KR enc dec ores ires).
  Notation fully_written_ORi := (TimersRunSvc.fully_written_ORi enc dec ores ires).
  Notation process_ack_timeouts_KR := (TimersRunSvc.process_ack_timeouts_KR enc dec ores ires cfg).
  Notation process_ack_timeouts_ORi := (TimersRunSvc.process_ack_timeouts_ORi enc dec ores ires cfg).
  Notation net_data_inv := (TimersRunData.net_data_inv enc dec dec_feed ores ores_reset ires ires_reset ires_resolve v_in cfg).
  Notation net_data_TM := (TimersRunData.net_data_TM enc dec dec_feed ores ores_reset ires ires_reset ires_resolve v_in cfg).
  Notation net_data_ORi := (TimersRunData.net_data_ORi enc dec dec_feed ores ores_reset ires ires_reset ires_resolve v_in cfg).
  Notation net_data_KI := (TimersRunData.net_data_KI enc dec dec_feed ores ores_reset ires ires_reset ires_resolve v_in cfg).
  Notation handle_connack_NW := (TimersRunData.handle_connack_NW enc dec ores ores_reset ires ires_reset v_in cfg).
  Notation KI_connack := (TimersRunData.KI_connack enc dec ores ores_reset ires ires_reset v_in cfg).
  Notation KI_FR := (TimersRunData.KI_FR enc dec ores ires cfg).
  Notation KI_KR := (TimersRunData.KI_KR enc dec ores ires cfg).
  Notation KI_keep_alive := (TimersRunData.KI_keep_alive enc dec ores ires cfg).
  Notation apply_session_FR := (TimersRunData.apply_session_FR enc dec ores ires cfg).
  Notation ka_final := (TimersRunData.ka_final cfg).
  Notation close_intr := (TimersRunClose.close_intr enc dec ores ires cfg).
  Notation close_nid := (TimersRunClose.close_nid enc dec ores ires cfg).
  Notation close_phases := (TimersRunClose.close_phases enc dec ores ires cfg).
  Notation net_closed_ka := (TimersRunClose.net_closed_ka enc dec ores ires cfg).
  Notation net_closed_rs := (TimersRunClose.net_closed_rs enc dec ores ires cfg).
  Notation net_closed_done := (TimersRunClose.net_closed_done enc dec ores ires cfg).
  Notation PC2 := (TimersRunClose.PC2 enc dec ores ires).
  Notation R0 := (TimersRunClose.R0 enc dec ores ires).
  Notation R0_old := (TimersRunClose.R0_old enc dec ores ires).
  Notation WFS_PC2 := (TimersRunClose.WFS_PC2 enc dec ores ires).
  Notation fail_all_keeps := (TimersRunClose.fail_all_keeps enc dec ores ires cfg).
  Notation fail_all_R0 := (TimersRunClose.fail_all_R0 enc dec ores ires cfg).
  Notation fail_exceeding_R0 := (TimersRunClose.fail_exceeding_R0 enc dec ores ires cfg).
  Notation phaseA_R0 := (TimersRunClose.phaseA_R0 enc dec ores ires cfg).
  Notation phaseB_R0 := (TimersRunClose.phaseB_R0 enc dec ores ires cfg).
  Notation phaseC_R0 := (TimersRunClose.phaseC_R0 enc dec ores ires cfg).
  Notation pending_nodup := (TimersRunClose.pending_nodup enc dec ores ires).
  Variable HC : comps_ok enc enc_reset enc_call dec dec_init dec_feed ores ores_reset ores_resolve ires ires_reset ires_resolve v_out v_in.
  Hypothesis Hcfg : ok_cfg cfg.
  Notation WFX := (WFStep.WFX enc enc_reset enc_call dec dec_init dec_feed ores ores_reset ores_resolve ires ires_reset ires_resolve v_out v_in cfg HC).
  Notation step_spec := (WFStep.step_spec enc enc_reset enc_call enc_done dec dec_init dec_feed ores ores_reset ores_resolve ires ires_reset ires_resolve v_out v_in cfg HC Hcfg).
  Notation WF_init := (WFStep.WF_init enc enc_reset enc_call dec dec_init dec_feed ores ores_reset ores_resolve ires ires_reset ires_resolve v_out v_in cfg HC).
  Notation WFS := (@WFDefs.WFS enc dec ores ires).
  Notation TM := (TimersRunSvc.TM enc dec ores ires).
  Notation KI := (TimersRunData.KI enc dec ores ires cfg).
  Notation pending_ids := (SvcTimeout.pending_ids enc dec ores ires).
  Notation caught_inc := (TimersRunClose.caught_inc enc dec ores ires cfg).

  Lemma WFS_lt s : WFS s -> forall i o, lookup i (s_ops s) = Some o -> i < s_next_id s.
  Proof. intros HW i o Hl. apply (w_lt _ _ HW). eapply lookup_in_keys. exact Hl. Qed.

  Lemma TM_cleared E s : s_tmo s = [] -> s_ppub s = [] -> s_pnon s = [] ->
    (forall i o, lookup i (s_ops s) = Some o -> i < s_next_id s) -> TM E s.
  Proof.
    intros A B C D. constructor; [exact D| |].
    - intros p i o T w [H|H]; [rewrite B in H|rewrite C in H]; destruct H.
    - intros i t H. rewrite A in H. destruct H.
  Qed.

  Lemma reset_cleared s : is_panic (r_out (reset s)) = false ->
    s_tmo (r_s (reset s)) = [] /\ s_ppub (r_s (reset s)) = [] /\ s_pnon (r_s (reset s)) = [] /\ s_ops (r_s (reset s)) = [] /\
    s_next_ping (r_s (reset s)) = None /\ s_ping_to (r_s (reset s)) = None.
  Proof.
    unfold Model.reset. match goal with |- context [fold_left ?f ?l ?a] => set (r := fold_left f l a) end.
    destruct (is_panic (r_out r)) eqn:E; [intros H; congruence|]. intros _. cbn. repeat split.
  Qed.

  (* ---- C18: the timer invariant, one step ---- *)
  Theorem TM_step E s e : WFX s -> ok_event e -> TM E s -> TM (epoch_step E e) (fst (step s e)).
  Proof.
    intros HX Hev HT. destruct (step_spec s e HX Hev) as [Hnp HX']. destruct HX as [[HW HP] HI].
    destruct e as [now p t|now dl|now|now data|now|now cap fill|now|now]; cbn [Model.step epoch_step] in *.
    - unfold Model.out_of_res. cbn [fst]. eapply TM_FR; [apply user_event_FR|exact HT].
    - unfold Model.out_of_res. cbn [fst]. eapply TM_FR; [apply halt_on_error_FR|]. eapply TM_NW; [apply net_opened_NW|exact HT].
    - unfold Model.out_of_res. cbn [fst]. destruct (pstate_eqb (s_st s) Disconnected) eqn:Est.
      + apply pstate_eqb_eq in Est. rewrite (net_closed_disconnected cfg s Est). cbn.
        unfold WFP in HP. rewrite Est in HP. destruct HP as (P1 & P2 & _ & _ & P5 & _).
        apply TM_cleared; cbn; auto. apply HT.
      + apply pstate_eqb_neq in Est. destruct (net_closed_spec cfg s HW Est) as (Eo & W1 & S1 & (F1 & F2 & F3 & F4 & F5 & F6) & _).
        rewrite Eo. cbn [Model.halt_on_error]. apply TM_cleared; auto. apply WFS_lt. exact W1.
    - cbn [fst]. eapply TM_FR; [apply halt_on_error_FR|]. apply net_data_TM. exact HT.
    - unfold Model.out_of_res. cbn [fst]. eapply TM_FR; [apply halt_on_error_FR|]. eapply TM_FR; [apply net_write_completion_FR|exact HT].
    - cbn [fst snd o_res] in *. apply service_TM; [|exact HT]. apply nopanic_is_panic. exact Hnp.
    - destruct (next_service_time s now); exact HT.
    - unfold Model.out_of_res in *. cbn [fst snd o_res] in *.
      destruct (reset_cleared s (nopanic_is_panic _ Hnp)) as (R1 & R2 & R3 & R4 & _).
      apply TM_cleared; auto. rewrite R4. intros i o Hl. discriminate.
  Qed.

  (* ---- C14: the keep-alive invariant, one step ---- *)
  Lemma service_KI s now cap fill : KI s -> KI (sr_s (service s now cap fill)).
  Proof.
    intros HK.
    assert (HQ : forall s1 m, KI s1 -> KI (sr_s (service_queue s1 m now cap fill))).
    { intros s1 m. apply (service_queue_inv KI now).
      - exact KI_FR.
      - intros a b Hw. apply KI_KR. eapply fully_written_KR. exact Hw. }
    unfold Model.service. cbn [sr_s sr_out].
    match goal with |- context [halt_on_error (sr_s ?r) (sr_out ?r)] => set (r0 := r) end.
    eapply KI_FR; [apply halt_on_error_FR|]. unfold r0. clear r0. destruct (s_st s) eqn:Est; try exact HK.
    - destruct (s_connack_to s) as [t|]; [|exact HK]. destruct (t <=? now); [exact HK|]. apply HQ. exact HK.
    - destruct (service_keep_alive s now) as [s1| |] eqn:Ek; [|exact HK..].
      assert (H1 : KI s1) by (eapply KI_keep_alive; eassumption).
      specialize (HQ s1 true H1). destruct (sr_out (service_queue s1 true now cap fill)); [|exact HQ..].
      cbn [sr_s]. eapply KI_KR; [apply process_ack_timeouts_KR|exact HQ].
    - cbn [sr_s]. eapply KI_KR; [apply process_ack_timeouts_KR|exact HK].
  Qed.

  Theorem KI_step s e : WFX s -> ok_event e -> KI s -> KI (fst (step s e)).
  Proof.
    intros HX Hev HK. destruct (step_spec s e HX Hev) as [Hnp HX']. destruct HX as [[HW HP] HI].
    destruct e as [now p t|now dl|now|now data|now|now cap fill|now|now]; cbn [Model.step] in *.
    - unfold Model.out_of_res. cbn [fst]. eapply KI_FR; [apply user_event_FR|exact HK].
    - unfold Model.out_of_res. cbn [fst]. eapply KI_FR; [apply halt_on_error_FR|].
      destruct (net_opened_NW s dl) as (_ & A1 & A2 & A3 & [[B1 B2]|B]); unfold TimersRunData.KI in *; [rewrite B2; rewrite B1 in HK|rewrite B; exact I].
      rewrite A2, A3. exact HK.
    - unfold Model.out_of_res. cbn [fst]. destruct (pstate_eqb (s_st s) Disconnected) eqn:Est.
      + apply pstate_eqb_eq in Est. rewrite (net_closed_disconnected cfg s Est). cbn. exact I.
      + apply pstate_eqb_neq in Est. destruct (net_closed_spec cfg s HW Est) as (E & W1 & S1 & _).
        rewrite E. cbn [Model.halt_on_error]. unfold TimersRunData.KI. rewrite S1. apply net_closed_ka. exact Est.
    - cbn [fst]. eapply KI_FR; [apply halt_on_error_FR|]. apply net_data_KI. exact HK.
    - unfold Model.out_of_res. cbn [fst]. eapply KI_FR; [apply halt_on_error_FR|]. eapply KI_FR; [apply net_write_completion_FR|exact HK].
    - cbn [fst]. apply service_KI. exact HK.
    - destruct (next_service_time s now); exact HK.
    - unfold Model.out_of_res in *. cbn [fst snd o_res] in *.
      destruct (reset_cleared s (nopanic_is_panic _ Hnp)) as (_ & _ & _ & _ & R5 & R6).
      destruct (reset_spec cfg s HW) as (_ & _ & S1 & _). unfold TimersRunData.KI. rewrite S1.
      destruct (pstate_eqb (s_st s) Disconnected); [split; assumption|exact I].
  Qed.

  (* ---- C18: the interruption count, one step ---- *)
  Definition caught (s : state) (e : event) (i : N) : N :=
    match e with
    | EvClose _ => if pstate_eqb (s_st s) Disconnected then 0 else caught_inc s i
    | _ => 0
    end.

  Lemma ORi_intr s s' : ORi s s' ->
    s_next_id s <= s_next_id s' /\
    forall i o', lookup i (s_ops s') = Some o' ->
      (exists o, lookup i (s_ops s) = Some o /\ op_intr o' = op_intr o + 0) \/ (s_next_id s <= i /\ op_intr o' = 0).
  Proof.
    intros [A B]. split; [exact A|]. intros i o' Hl. destruct (B _ _ Hl) as [(o & Ho & _ & _ & R)|[[Hn _] F]].
    - left. exists o. split; [exact Ho|slia].
    - right. split; [exact Hn|exact F].
  Qed.

  Theorem intr_step s e : WFX s -> ok_event e ->
    s_next_id s <= s_next_id (fst (step s e)) /\
    forall i o', lookup i (s_ops (fst (step s e))) = Some o' ->
      (exists o, lookup i (s_ops s) = Some o /\ op_intr o' = op_intr o + caught s e i) \/ (s_next_id s <= i /\ op_intr o' = 0).
  Proof.
    intros HX Hev. destruct (step_spec s e HX Hev) as [Hnp HX']. destruct HX as [[HW HP] HI].
    assert (Hfr : forall a b, FR a b -> ORi a b) by (intros a b [[_ N _ _] _]; apply ORt_ORi; exact N).
    destruct e as [now p t|now dl|now|now data|now|now cap fill|now|now]; cbn [Model.step caught] in *.
    - unfold Model.out_of_res. cbn [fst]. apply ORi_intr, Hfr, user_event_FR.
    - unfold Model.out_of_res. cbn [fst]. apply ORi_intr. eapply ORi_trans; [|apply Hfr, halt_on_error_FR].
      destruct (net_opened_NW s dl) as ([_ N _ _] & _). apply ORt_ORi. exact N.
    - unfold Model.out_of_res. cbn [fst]. destruct (pstate_eqb (s_st s) Disconnected) eqn:Est.
      + apply pstate_eqb_eq in Est. rewrite (net_closed_disconnected cfg s Est). cbn. split; [slia|].
        intros i o' Hl. left. exists o'. split; [exact Hl|slia].
      + apply pstate_eqb_neq in Est. destruct (net_closed_spec cfg s HW Est) as (E & _).
        rewrite E. cbn [Model.halt_on_error]. split; [rewrite (close_nid s HW Est); slia|].
        intros i o' Hl. left. destruct (close_intr s HW Est i o' Hl) as (o & Ho & _ & _ & _ & Hi). exists o. split; assumption.
    - cbn [fst]. apply ORi_intr. eapply ORi_trans; [apply net_data_ORi|apply Hfr, halt_on_error_FR].
    - unfold Model.out_of_res. cbn [fst]. apply ORi_intr. eapply ORi_trans; [apply Hfr, net_write_completion_FR|apply Hfr, halt_on_error_FR].
    - cbn [fst]. apply ORi_intr. apply service_ORi.
    - destruct (next_service_time s now); cbn [fst]; apply ORi_intr, ORi_refl.
    - unfold Model.out_of_res in *. cbn [fst snd o_res] in *.
      destruct (reset_spec cfg s HW) as (_ & _ & _ & S1 & _). rewrite S1. split; [|intros i o' Hl; discriminate].
      unfold Model.reset. match goal with |- context [fold_left ?f ?l ?a] => set (r := fold_left f l a) end.
      assert (Hr : s_next_id s <= s_next_id (r_s r)).
      { unfold r. match goal with |- context [fold_left ?f ?l (pure ?a)] => generalize l; assert (Ha : s_next_id s <= s_next_id (r_s (pure a))) by (destruct (pstate_eqb (s_st s) Disconnected); cbn; slia); revert Ha; generalize (pure a) end.
        intros acc Ha l. revert acc Ha. induction l as [|k l IH]; intros acc Ha; cbn [fold_left]; [exact Ha|]. apply IH.
        destruct (is_panic (r_out acc)); [exact Ha|]. cbn [r_s]. destruct (Hfr _ _ (fail_op_FR (r_s acc) k EClientClosed)) as [Hn _]. slia. }
      destruct (is_panic (r_out r)); [exact Hr|]. cbn. exact Hr.
  Qed.

  (* the ghost counter: the number of closes of the history that caught operation i sent but unacknowledged *)
  Fixpoint intr_count (s : state) (h : list event) (i : N) : N :=
    match h with
    | [] => 0
    | e :: r => caught s e i + intr_count (fst (step s e)) r i
    end.

  Lemma caught_lt s e i : WFS s -> caught s e i <> 0 -> i < s_next_id s.
  Proof.
    intros HW. destruct e; cbn [caught]; try congruence. destruct (pstate_eqb (s_st s) Disconnected); [congruence|].
    unfold TimersRunClose.caught_inc. destruct (cf_retry cfg); [|congruence]. destruct (mem i (pending_ids s)) eqn:Em; [|congruence].
    intros _. apply mem_In in Em. destruct (pend_exist [] s HW i Em) as (o & Ho). eapply WFS_lt; eassumption.
  Qed.

  Theorem run_intr : forall h s, WFX s -> Forall ok_event h ->
    forall i o', lookup i (s_ops (fst (run s h))) = Some o' ->
      (exists o, lookup i (s_ops s) = Some o /\ op_intr o' = op_intr o + intr_count s h i) \/
      (s_next_id s <= i /\ op_intr o' = intr_count s h i).
  Proof.
    induction h as [|e r IH]; intros s HX Hall i o' Hl; cbn [Model.run intr_count] in *.
    - cbn [fst] in Hl. left. exists o'. split; [exact Hl|slia].
    - inversion Hall as [|? ? He Hr]; subst.
      destruct (step_spec s e HX He) as [_ HX1]. destruct (intr_step s e HX He) as [Hn Hs].
      assert (Hc : s_next_id s <= i -> caught s e i = 0).
      { intros Hi. destruct (N.eq_dec (caught s e i) 0) as [E|E]; [exact E|]. apply caught_lt in E; [slia|apply HX]. }
      destruct (step s e) as [s1 o1] eqn:Es. cbn [fst] in *. destruct (run s1 r) as [s2 os] eqn:Er.
      specialize (IH s1 HX1 Hr i o'). rewrite Er in IH. cbn [fst] in *. specialize (IH Hl).
      destruct IH as [(o1' & H1 & E1)|[Hn1 E1]].
      + destruct (Hs _ _ H1) as [(o & Ho & E0)|[Hn0 E0]].
        * left. exists o. split; [exact Ho|slia].
        * right. split; [exact Hn0|]. rewrite (Hc Hn0). slia.
      + right. assert (Hi : s_next_id s <= i) by slia. split; [exact Hi|]. rewrite (Hc Hi). slia.
  Qed.

  (* ---- the run-level invariants ---- *)
  Lemma epoch_app : forall h E e, fold_left epoch_step (h ++ [e]) E = epoch_step (fold_left epoch_step h E) e.
  Proof. intros h E e. rewrite fold_left_app. reflexivity. Qed.

  Theorem run_inv : forall h s E, WFX s -> Forall ok_event h -> TM E s -> KI s ->
    WFX (fst (run s h)) /\ TM (fold_left epoch_step h E) (fst (run s h)) /\ KI (fst (run s h)).
  Proof.
    induction h as [|e r IH]; intros s E HX Hall HT HK; cbn [Model.run fold_left]; [auto|].
    inversion Hall as [|? ? He Hr]; subst.
    destruct (step_spec s e HX He) as [_ HX1]. pose proof (TM_step E s e HX He HT) as HT1. pose proof (KI_step s e HX He HK) as HK1.
    destruct (step s e) as [s1 o1]. cbn [fst] in *. specialize (IH s1 _ HX1 Hr HT1 HK1). destruct (run s1 r) as [s2 os]. exact IH.
  Qed.

  Lemma init_inv (o : ores) (i : ires) : TM [] (init o i) /\ KI (init o i).
  Proof.
    split; [apply TM_cleared; try reflexivity; intros k x H; discriminate|]. unfold TimersRunData.KI. cbn. split; reflexivity.
  Qed.

  Theorem reachable_inv (o : ores) (i : ires) h : ores_inv HC o -> ires_inv HC i -> Forall ok_event h ->
    WFX (fst (run (init o i) h)) /\ TM (epoch h) (fst (run (init o i) h)) /\ KI (fst (run (init o i) h)).
  Proof.
    intros Ho Hi Hall. destruct (init_inv o i) as [HT HK]. apply run_inv; auto. apply WF_init; assumption.
  Qed.
End Run.
