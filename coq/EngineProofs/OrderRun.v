(* C10 at run level, part 1 (no well-formedness needed): the queue frame.
   [QF s s'] = neither intake queue (user queue s_uq, resubmit queue s_rq) changes and the protocol state
   moves at most PendingDisconnect -> Halted.  Proved for the completions, the write completion and every
   packet handler other than CONNACK by direct unfolding (skeletons of HandshakeRunFrame*.v).
   [OS s] = while Connected both intake queues are sorted by operation id; preserved by inbound data
   (the CONNACK handler sorts, every other handler is a queue frame, errors and panics halt).
   [service_seats_legal]: the operations seated by one service call are a legal priority-ordered
   draining (HandshakeRunTrace.seats) of the queues of the start state, leaving the queues of the result. *)
From GM Require Import Base.Prelude Base.Outcome Codec.Packets Codec.Settings Engine.Model
  EngineProofs.AssocLemmas EngineProofs.WFLemmas EngineProofs.HandshakeRunTrace EngineProofs.HandshakeRunSt EngineProofs.Order.
From Coq Require Import Sorting.Sorted.
From RecordUpdate Require Import RecordSet.
Import RecordSetNotations.
Open Scope N_scope.

(* the four component types are implicit in the engine functions, locally to this file *)
(* the four component types are implicit in the engine functions, locally to this file *)
#[local] Arguments init {enc dec} _ {ores ires} _ _.
#[local] Arguments release {enc dec ores ires} _ _ _ _.
#[local] Arguments disconnect_completion {enc dec ores ires} _ _.
#[local] Arguments fail_op {enc dec ores ires} _ _ _ _.
#[local] Arguments ping_extension {enc dec ores ires} _ _.
#[local] Arguments succeed_op {enc dec ores ires} _ _ _ _.
#[local] Arguments fail_all {enc dec ores ires} _ _ _ _.
#[local] Arguments succeed_all {enc dec ores ires} _ _ _.
#[local] Arguments andthen {enc dec ores ires} _ _.
#[local] Arguments try_ {enc dec ores ires} _ _.
#[local] Arguments pure {enc dec ores ires} _.
#[local] Arguments create_operation {enc dec ores ires} _ _.
#[local] Arguments passes_now {enc dec ores ires} _ _ _.
#[local] Arguments user_event {enc dec ores ires} _ _ _ _.
#[local] Arguments create_connect {enc dec ores ires} _ _.
#[local] Arguments net_opened {enc dec} _ {ores ires} _ _ _.
#[local] Arguments op_exists {enc dec ores ires} _ _.
#[local] Arguments op_passes {enc dec ores ires} _ _ _.
#[local] Arguments partition_policy {enc dec ores ires} _ _ _.
#[local] Arguments closed_current {enc dec ores ires} _ _.
#[local] Arguments slow_start_init {enc dec ores ires} _ _.
#[local] Arguments update_retries {enc dec ores ires} _ _.
#[local] Arguments fail_exceeding {enc dec ores ires} _ _.
#[local] Arguments has_pubrel {enc dec ores ires} _ _.
#[local] Arguments net_closed_raw {enc dec ores ires} _ _.
#[local] Arguments net_closed {enc dec ores ires} _ _.
#[local] Arguments net_write_completion {enc dec ores ires} _ _.
#[local] Arguments acquire_free_pid {enc dec ores ires} _ _.
#[local] Arguments acquire_pid_for {enc dec ores ires} _ _.
#[local] Arguments unbind {enc dec ores ires} _ _.
#[local] Arguments passes_receive_max {enc dec ores ires} _ _.
#[local] Arguments throttled {enc dec ores ires} _ _.
#[local] Arguments has_pending_ack {enc dec ores ires} _.
#[local] Arguments dequeue {enc dec ores ires} _ _ _.
#[local] Arguments fully_written {enc dec ores ires} _ _.
#[local] Arguments service_keep_alive {enc dec ores ires} _ _ _.
#[local] Arguments process_ack_timeouts {enc dec ores ires} _ _ _.
#[local] Arguments halt_on_error {enc dec ores ires} _ _.
#[local] Arguments next_service_time {enc dec ores ires} _ _ _.
#[local] Arguments build_settings {enc dec ores ires} _ _ _.
#[local] Arguments apply_session {enc dec ores ires} _ _ _.
#[local] Arguments hres_of {enc dec ores ires} _ _.
#[local] Arguments pre_connack {enc dec ores ires} _.
#[local] Arguments sum_ss {enc dec ores ires} _.
#[local] Arguments handle_pingresp {enc dec ores ires} _.
#[local] Arguments handle_suback {enc dec ores ires} _ _ _.
#[local] Arguments handle_unsuback {enc dec ores ires} _ _ _.
#[local] Arguments publish_qos_of {enc dec ores ires} _ _.
#[local] Arguments handle_puback {enc dec ores ires} _ _ _.
#[local] Arguments handle_pubrec {enc dec ores ires} _ _ _.
#[local] Arguments handle_pubrel {enc dec ores ires} _ _.
#[local] Arguments handle_pubcomp {enc dec ores ires} _ _ _.
#[local] Arguments handle_publish {enc dec ores ires} _ _.
#[local] Arguments handle_disconnect {enc dec ores ires} _ _ _.
#[local] Arguments is_connect_op {enc dec ores ires} _ _.
#[local] Arguments connect_in_queue {enc dec ores ires} _.
#[local] Arguments reset {enc dec ores ires} _ _.
#[local] Arguments out_of_res {enc dec ores ires} _ _.
#[local] Arguments nst_queue {enc dec ores ires} _ _ _ _.
#[local] Arguments earliest_tmo {enc dec ores ires} _.
#[local] Arguments SeatStop {enc dec ores ires} _.
#[local] Arguments SeatContinue {enc dec ores ires} _ _.
#[local] Arguments SeatEncode {enc dec ores ires} _.

(* ---- sorted lists ---- *)
Lemma sorted_le_app a : forall b,
  sorted_le (a ++ b) <-> sorted_le a /\ sorted_le b /\ (forall x y, In x a -> In y b -> x <= y).
Proof.
  unfold sorted_le. induction a as [|x a IH]; intros b; cbn [app].
  - split; [intros H; split; [constructor|split; [exact H|intros x y []]]|intros (_ & H & _); exact H].
  - split.
    + intros H. inversion H as [|? ? Hs Hf]; subst. apply IH in Hs. destruct Hs as (S1 & S2 & S3).
      apply Forall_app in Hf. destruct Hf as [F1 F2]. split; [constructor; assumption|]. split; [exact S2|].
      intros u v [<-|Hu] Hv; [rewrite Forall_forall in F2; apply F2; exact Hv|apply S3; assumption].
    + intros (S1 & S2 & S3). inversion S1 as [|? ? Hs Hf]; subst. constructor.
      * apply IH. split; [exact Hs|]. split; [exact S2|]. intros u v Hu Hv. apply S3; [right; exact Hu|exact Hv].
      * apply Forall_app. split; [exact Hf|]. apply Forall_forall. intros v Hv. apply S3; [left; reflexivity|exact Hv].
Qed.

Lemma sorted_le_suffix a b : sorted_le (a ++ b) -> sorted_le b.
Proof. intros H. apply sorted_le_app in H. tauto. Qed.

Lemma sorted_le_snoc l k : sorted_le l -> (forall x, In x l -> x <= k) -> sorted_le (l ++ [k]).
Proof.
  intros H1 H2. apply sorted_le_app. split; [exact H1|]. split; [repeat constructor|].
  intros x y Hx [<-|[]]. apply H2. exact Hx.
Qed.

Section QFrame.
  Variable enc : Type.
  Variable enc_reset : version -> packet -> resolution -> outcome enc.
  Variable enc_call : enc -> N -> N -> outcome (bytes * enc).
  Variable enc_done : enc -> bool.
  Variable dec : Type.
  Variable dec_init : dec.
  Variable dec_feed : version -> N -> dec -> bytes -> dec * list packet * outcome unit.
  Variable ores : Type.
  Variable ores_reset : ores -> N -> ores.
  Variable ores_resolve : ores -> option N -> bytes -> outcome (ores * resolution).
  Variable ires : Type.
  Variable ires_reset : ires -> ires.
  Variable ires_resolve : ires -> option N -> bytes -> outcome (ires * bytes).
  Variable v_out : option settings -> connect_opts -> resolution -> packet -> outcome unit.
  Variable v_in : option settings -> packet -> outcome unit.
  Variable cfg : config.

  Notation state := (state enc dec ores ires).
  Notation res := (res enc dec ores ires).
  Notation service_loop_t := (service_loop_t enc enc_reset enc_call enc_done dec ores ores_reset ores_resolve ires v_out cfg).
  Notation service_queue := (service_queue enc enc_reset enc_call enc_done dec ores ores_reset ores_resolve ires v_out cfg).
  Notation service_queue_seats := (service_queue_seats enc enc_reset enc_call enc_done dec ores ores_reset ores_resolve ires v_out cfg).
  Notation service_seats := (service_seats enc enc_reset enc_call enc_done dec ores ores_reset ores_resolve ires v_out cfg).
  Notation service := (service enc enc_reset enc_call enc_done dec ores ores_reset ores_resolve ires v_out cfg).
  Notation handle_connack := (handle_connack enc dec ores ores_reset ires ires_reset v_in cfg).
  Notation handle_packet := (handle_packet enc dec ores ores_reset ires ires_reset v_in cfg).
  Notation handle_packets := (handle_packets enc dec ores ores_reset ires ires_reset ires_resolve v_in cfg).
  Notation net_data := (net_data enc dec dec_feed ores ores_reset ires ires_reset ires_resolve v_in cfg).
  Notation ST := (ST enc dec ores ires).
  Notation qs := (qs enc dec ores ires).

  (* the queue frame: the protocol state moves at most PendingDisconnect -> Halted and neither intake queue changes *)
  Definition QF (s s' : state) : Prop := ST s s' /\ s_uq s' = s_uq s /\ s_rq s' = s_rq s.

  Lemma QF_refl s : QF s s.
  Proof. split; [apply ST_refl|split; reflexivity]. Qed.
  Lemma QF_trans s1 s2 s3 : QF s1 s2 -> QF s2 s3 -> QF s1 s3.
  Proof. intros (A & B & C) (A' & B' & C'). split; [eapply ST_trans; eauto|split; congruence]. Qed.
  Lemma QF_mk (s s' : state) : ST s s' -> qs s' = qs s -> QF s s'.
  Proof. intros H E. apply qs_fields in E. split; [exact H|tauto]. Qed.

  Ltac qf_id := first [apply QF_refl | split; [apply ST_eq; reflexivity|split; reflexivity]].

  (* ---- completions ---- *)
  Lemma fail_op_QF (s : state) id e : QF s (r_s (fail_op cfg s id e)).
  Proof. apply QF_mk; [apply fail_op_ST|apply fail_op_qs]. Qed.

  Lemma release_qs (s s' : state) id o : release cfg s id o = Ok s' -> qs s' = qs s.
  Proof.
    unfold release. destruct (op_pid o); cbn;
      repeat match goal with |- context [if ?b then _ else _] => destruct b; cbn end; intros H; inversion H; reflexivity.
  Qed.

  Lemma disconnect_completion_qs (s : state) o : qs (fst (disconnect_completion s o)) = qs s.
  Proof. unfold disconnect_completion. repeat match goal with |- context [if ?b then _ else _] => destruct b; cbn end; reflexivity. Qed.

  Lemma ping_extension_qs (s : state) o : qs (ping_extension s o) = qs s.
  Proof.
    unfold ping_extension. destruct (match op_packet o with Subscribe _ | Unsubscribe _ => op_ext o | Publish pb => _ | _ => None end);
      [|reflexivity]. destruct (s_settings s); [|reflexivity]. destruct (s_next_ping s); [|reflexivity].
    destruct (_ <? _); reflexivity.
  Qed.

  Lemma succeed_op_qs (s : state) id resp : qs (r_s (succeed_op cfg s id resp)) = qs s.
  Proof.
    unfold succeed_op. destruct (lookup id (s_ops s)) as [o|]; [|reflexivity].
    destruct (release cfg s id o) as [s1|k|site] eqn:Er; [|reflexivity|reflexivity].
    apply release_qs in Er. pose proof (disconnect_completion_qs (ping_extension s1 o) o) as Hd.
    destruct (disconnect_completion (ping_extension s1 o) o) as [s2 r]. cbn [fst] in Hd.
    assert (H : qs s2 = qs s) by (rewrite Hd, ping_extension_qs; exact Er).
    destruct r; [destruct (op_user o); [destruct (success_value o resp)|]|..]; exact H.
  Qed.

  Lemma succeed_op_QF (s : state) id resp : QF s (r_s (succeed_op cfg s id resp)).
  Proof. apply QF_mk; [apply succeed_op_ST|apply succeed_op_qs]. Qed.

  Lemma fail_all_QF ids : forall (s : state) e, QF s (r_s (fail_all cfg s ids e)).
  Proof.
    induction ids as [|a r IH]; intros s e; cbn [fail_all]; [qf_id|].
    pose proof (fail_op_QF s a e) as H1. destruct (is_panic (r_out (fail_op cfg s a e))); [exact H1|].
    specialize (IH (r_s (fail_op cfg s a e)) e).
    destruct (is_panic (r_out (fail_all cfg (r_s (fail_op cfg s a e)) r e))); cbn [r_s]; eapply QF_trans; eauto.
  Qed.

  Lemma succeed_all_QF ids : forall (s : state), QF s (r_s (succeed_all cfg s ids)).
  Proof.
    induction ids as [|a r IH]; intros s; cbn [succeed_all]; [qf_id|].
    pose proof (succeed_op_QF s a None) as H1. destruct (is_panic (r_out (succeed_op cfg s a None))); [exact H1|].
    specialize (IH (r_s (succeed_op cfg s a None))).
    destruct (is_panic (r_out (succeed_all cfg (r_s (succeed_op cfg s a None)) r))); cbn [r_s]; eapply QF_trans; eauto.
  Qed.

  Lemma process_ack_timeouts_QF (s : state) now : QF s (r_s (process_ack_timeouts cfg s now)).
  Proof. unfold process_ack_timeouts. eapply QF_trans; [|apply fail_all_QF]. qf_id. Qed.

  Theorem net_write_completion_QF (s : state) : QF s (r_s (net_write_completion cfg s)) \/ s_st (r_s (net_write_completion cfg s)) = Halted.
  Proof.
    unfold net_write_completion. destruct (_ || _); [left; qf_id|]. destruct (negb (s_pwc s)); [right; reflexivity|].
    left. eapply QF_trans; [|apply succeed_all_QF]. qf_id.
  Qed.

  (* ---- user submissions: at most an append of the fresh operation id to the user queue ---- *)
  Lemma user_event_q (s : state) p t :
    s_rq (r_s (user_event cfg s p t)) = s_rq s /\
    (s_uq (r_s (user_event cfg s p t)) = s_uq s \/ s_uq (r_s (user_event cfg s p t)) = s_uq s ++ [s_next_id s]).
  Proof.
    unfold user_event, create_operation.
    set (o := new_op p _ _).
    set (s1 := s <| s_next_id := s_next_id s + 1 |> <| s_ops := s_ops s ++ [(s_next_id s, o)] |>).
    destruct (negb (passes_now cfg s1 p)).
    - cbn [r_s]. destruct (qs_fields _ _ _ _ _ _ (fail_op_qs enc dec ores ires cfg s1 (s_next_id s) EOfflineQueuePolicyFailed)) as (_ & E2 & E3).
      rewrite E2, E3. split; [reflexivity|left; reflexivity].
    - destruct (is_disconnect p); cbn; split; auto.
  Qed.

  (* ---- packet handlers other than CONNACK ---- *)
  Lemma hres_of_QF (s : state) (r : res) ev : QF s (r_s r) -> QF s (h_s (hres_of r ev)).
  Proof. intros H. exact H. Qed.

  Lemma handle_packet_QF (s : state) now p :
    match p with Connack _ => True | _ => QF s (h_s (handle_packet s now p)) end.
  Proof.
    destruct p as [c|c|p|a|a|a|a|sb|s0|un|u| | |d|au]; cbn [Model.handle_packet h_s]; try exact I; try qf_id.
    - unfold handle_publish. destruct (pre_connack s); [qf_id|]. destruct (pub_qos p =? 0); [qf_id|].
      destruct (pub_qos p =? 1); unfold create_operation; cbn; [qf_id|]. destruct (mem (pub_pid p) (s_q2in s)); qf_id.
    - unfold handle_puback. destruct (pre_connack s); [qf_id|]. destruct (lookup (ack_pid a) (s_ppub s)) as [id|]; [|qf_id].
      destruct (publish_qos_of s id) as [[|q]|]; try qf_id. destruct q; try qf_id. apply hres_of_QF, succeed_op_QF.
    - unfold handle_pubrec. destruct (pre_connack s); [qf_id|]. destruct (lookup (ack_pid a) (s_ppub s)) as [id|]; [|qf_id].
      destruct (lookup id (s_ops s)) as [o|]; [|qf_id]. destruct (op_packet o); try qf_id.
      destruct (pub_qos p =? 2); [|qf_id]. destruct (128 <=? ack_rc a); [apply hres_of_QF, succeed_op_QF|qf_id].
    - unfold handle_pubrel. destruct (pre_connack s); [qf_id|]. unfold create_operation. cbn. qf_id.
    - unfold handle_pubcomp. destruct (pre_connack s); [qf_id|]. destruct (lookup (ack_pid a) (s_ppub s)) as [id|]; [|qf_id].
      destruct (lookup id (s_ops s)) as [o|]; [|qf_id]. destruct (op_packet o); try qf_id.
      destruct (pub_qos p =? 2); [|qf_id]. destruct (op_pubrel o); [|qf_id]. apply hres_of_QF, succeed_op_QF.
    - unfold handle_suback. destruct (pre_connack s); [qf_id|]. destruct (lookup (sa_pid s0) (s_pnon s)) as [id|]; [|qf_id].
      destruct (lookup id (s_ops s)) as [o|]; [|qf_id]. destruct (op_packet o); try qf_id.
      destruct (negb _); [qf_id|]. apply hres_of_QF, succeed_op_QF.
    - unfold handle_unsuback. destruct (pre_connack s); [qf_id|]. destruct (lookup (ua_pid u) (s_pnon s)) as [id|]; [|qf_id].
      destruct (lookup id (s_ops s)) as [o|]; [|qf_id]. destruct (op_packet o); try qf_id.
      destruct (version_eqb _ _); [apply hres_of_QF, succeed_op_QF|]. destruct (negb _); [qf_id|]. apply hres_of_QF, succeed_op_QF.
    - unfold handle_pingresp. destruct (s_st s); try qf_id; destruct (s_ping_to s); qf_id.
    - unfold handle_disconnect. destruct (pre_connack s); [qf_id|]. destruct (version_eqb _ _); qf_id.
  Qed.

  Lemma fail_all_qs ids : forall (s : state) e, qs (r_s (fail_all cfg s ids e)) = qs s.
  Proof.
    induction ids as [|a r IH]; intros s e; cbn [fail_all]; [reflexivity|].
    pose proof (fail_op_qs enc dec ores ires cfg s a e) as H1. destruct (is_panic (r_out (fail_op cfg s a e))); [exact H1|].
    specialize (IH (r_s (fail_op cfg s a e)) e).
    destruct (is_panic (r_out (fail_all cfg (r_s (fail_op cfg s a e)) r e))); cbn [r_s]; congruence.
  Qed.

  Lemma process_ack_timeouts_qs (s : state) now : qs (r_s (process_ack_timeouts cfg s now)) = qs s.
  Proof. unfold process_ack_timeouts. rewrite fail_all_qs. reflexivity. Qed.

  (* ---- the order invariant: while Connected both intake queues are sorted by operation id ---- *)
  Definition OS (s : state) : Prop := s_st s = Connected -> sorted_le (s_rq s) /\ sorted_le (s_uq s).

  Lemma QF_OS (s s' : state) : QF s s' -> OS s -> OS s'.
  Proof. intros (H & E1 & E2) Ho Hc. rewrite E1, E2. apply Ho. eapply ST_connected; eauto. Qed.

  (* the CONNACK handler sorts (sort_operation_deque); its panic outcomes halt the engine *)
  Lemma handle_connack_OS (s : state) now c :
    match h_out (handle_connack s now c) with Ok _ => OS (h_s (handle_connack s now c)) | _ => True end.
  Proof.
    unfold Model.handle_connack. destruct (negb (pstate_eqb (s_st s) PendingConnack)); [exact I|].
    destruct (negb (ca_rc c =? 0)); [exact I|]. destruct (v_in None (Connack c)); [|exact I|exact I].
    cbv zeta.
    match goal with |- context [apply_session cfg ?sx ?sp] =>
      pose proof (session_sorts enc dec ores ires cfg sx sp) as Ha; set (r := apply_session cfg sx sp) in * end.
    clearbody r. destruct (r_out r) as [[]|k|site] eqn:Eo; cbn [h_s h_out]; try exact I. intros _. apply Ha. reflexivity.
  Qed.

  Lemma handle_packet_OS (s : state) now p :
    OS s -> match h_out (handle_packet s now p) with Ok _ => OS (h_s (handle_packet s now p)) | _ => True end.
  Proof.
    intros Ho. pose proof (handle_packet_QF s now p) as Hq.
    destruct p as [c0|c|p|a|a|a|a|sb|s0|un|u| | |d|au]; cbv beta iota in Hq;
      try (apply QF_OS in Hq; [|exact Ho]; destruct (h_out _); [exact Hq|exact I|exact I]).
    exact (handle_connack_OS s now c).
  Qed.

  Lemma handle_packets_OS now : forall ps (s : state) dn ev,
    OS s -> match h_out (handle_packets s now ps dn ev) with Ok _ => OS (h_s (handle_packets s now ps dn ev)) | _ => True end.
  Proof.
    induction ps as [|p rest IH]; intros s dn ev Ho; cbn [Model.handle_packets]; [exact Ho|].
    assert (Hres : forall x : outcome (state * packet),
              x = match p with
                  | Publish pb => do (i', t) <- ires_resolve (s_ires s) (pub_alias pb) (pub_topic pb) ;
                                  Ok (s <| s_ires := i' |>, Publish (with_topic pb t))
                  | _ => Ok (s, p) end ->
              match x with Ok (s1, _) => QF s s1 | _ => True end).
    { intros x ->. destruct p; try exact (QF_refl s). destruct (ires_resolve _ _ _) as [[i' t]| |]; cbn; try exact I. qf_id. }
    specialize (Hres _ eq_refl).
    destruct (match p with Publish pb => _ | _ => _ end) as [[s1 p1]|k|site]; [|exact I|exact I].
    assert (H1 : OS s1) by (eapply QF_OS; eauto).
    destruct (v_in (s_settings s1) p1); [|exact I|exact I].
    pose proof (handle_packet_OS s1 now p1 H1) as Hh.
    destruct (h_out (handle_packet s1 now p1)); try exact I.
    apply IH. exact Hh.
  Qed.

  Theorem net_data_OS (s : state) now data :
    OS s -> OS (halt_on_error (h_s (net_data s now data)) (h_out (net_data s now data))).
  Proof.
    intros Ho.
    assert (Hg : forall h : hres enc dec ores ires,
              match h_out h with Ok _ => OS (h_s h) | _ => True end -> OS (halt_on_error (h_s h) (h_out h))).
    { intros h. destruct (h_out h); cbn [halt_on_error]; [auto|intros _ Hc; cbn in Hc; discriminate|intros _ Hc; cbn in Hc; discriminate]. }
    apply Hg. unfold Model.net_data. destruct (_ || _); [exact I|]. destruct (_ && _); [exact I|].
    destruct (dec_feed _ _ _ _) as [[d' ps] r]. destruct r; [|exact I|exact I].
    apply handle_packets_OS. intros Hc. exact (Ho Hc).
  Qed.

  (* ---- service: the intake queues lose exactly the operations seated, from the head ---- *)
  Lemma halt_on_error_q (s : state) r :
    s_hq (halt_on_error s r) = s_hq s /\ s_rq (halt_on_error s r) = s_rq s /\ s_uq (halt_on_error s r) = s_uq s.
  Proof. destruct r; cbn; auto. Qed.

  Lemma service_keep_alive_q (s s' : state) now :
    service_keep_alive cfg s now = Ok s' ->
    s_rq s' = s_rq s /\ s_uq s' = s_uq s /\ (s_hq s' = s_hq s \/ s_hq s' = s_next_id s :: s_hq s).
  Proof.
    unfold service_keep_alive. destruct (s_ping_to s) as [pt|]; [destruct (pt <=? now); [discriminate|intros H; inversion H; auto]|].
    destruct (s_next_ping s) as [np|]; [|intros H; inversion H; auto].
    destruct (np <=? now); [|intros H; inversion H; auto].
    unfold create_operation. cbn. destruct (s_settings s) as [st|]; [|discriminate].
    unfold add_time. destruct (IMAX <? _); cbn; [discriminate|].
    destruct (0 <? st_server_keep_alive st); intros H; inversion H; cbn; auto.
  Qed.

  Lemma service_queue_q (s : state) m now cap fill :
    seats (s_hq s) (s_rq s) (s_uq s) (service_queue_seats s m now cap fill)
          (s_hq (sr_s (service_queue s m now cap fill))) (s_rq (sr_s (service_queue s m now cap fill)))
          (s_uq (sr_s (service_queue s m now cap fill))).
  Proof.
    rewrite service_queue_loop. unfold HandshakeRunTrace.service_queue_seats. cbv zeta.
    match goal with |- context [service_loop_t ?f s m now cap fill [] []] =>
      pose proof (service_loop_seats enc enc_reset enc_call enc_done dec ores ores_reset ores_resolve ires v_out cfg f s m now cap fill [] []) as [H _] end.
    cbv zeta in H.
    match goal with |- context [match sr_bytes ?r with [] => _ | _ => _ end] => destruct (sr_bytes r) end; exact H.
  Qed.

  (* the seats of one service call are a legal priority-ordered draining of the queues; [h] is the
     high-priority queue after the keep-alive step (which may push a PINGREQ) *)
  Theorem service_seats_legal (s : state) now cap fill :
    exists h, (h = s_hq s \/ h = s_next_id s :: s_hq s) /\
      seats h (s_rq s) (s_uq s) (service_seats s now cap fill)
            (s_hq (sr_s (service s now cap fill))) (s_rq (sr_s (service s now cap fill))) (s_uq (sr_s (service s now cap fill))).
  Proof.
    unfold Model.service, HandshakeRunTrace.service_seats. cbv zeta. cbn [sr_s].
    match goal with |- context [halt_on_error ?a ?b] => destruct (halt_on_error_q a b) as (E1 & E2 & E3); rewrite E1, E2, E3; clear E1 E2 E3 end.
    assert (Hnil : exists h, (h = s_hq s \/ h = s_next_id s :: s_hq s) /\ seats h (s_rq s) (s_uq s) [] (s_hq s) (s_rq s) (s_uq s)).
    { exists (s_hq s). split; [left; reflexivity|constructor]. }
    destruct (s_st s).
    - exact Hnil.
    - destruct (s_connack_to s) as [t|]; [|exact Hnil]. destruct (t <=? now); [exact Hnil|].
      exists (s_hq s). split; [left; reflexivity|apply service_queue_q].
    - destruct (service_keep_alive cfg s now) as [s1|k|site] eqn:Ek; [|exact Hnil|exact Hnil].
      apply service_keep_alive_q in Ek. destruct Ek as (K1 & K2 & K3).
      pose proof (service_queue_q s1 true now cap fill) as Hq. rewrite K1, K2 in Hq.
      exists (s_hq s1). split; [exact K3|].
      destruct (sr_out (service_queue s1 true now cap fill)); cbn [sr_s]; [|exact Hq|exact Hq].
      destruct (qs_fields _ _ _ _ _ _ (process_ack_timeouts_qs (sr_s (service_queue s1 true now cap fill)) now)) as (T1 & T2 & T3).
      rewrite T1, T2, T3. exact Hq.
    - cbn [sr_s]. destruct (qs_fields _ _ _ _ _ _ (process_ack_timeouts_qs s now)) as (T1 & T2 & T3).
      rewrite T1, T2, T3. exact Hnil.
    - exact Hnil.
  Qed.
End QFrame.
