(* Well-formedness through the inbound path, part 1: unbind and apply_session. *)
From GM Require Import Base.Prelude Base.Outcome Codec.Packets Codec.Settings Engine.Model
  EngineProofs.AssocLemmas EngineProofs.PacketIds EngineProofs.WFLemmas EngineProofs.WFDefs EngineProofs.WFCore
  EngineProofs.WFComplete EngineProofs.WFClose EngineProofs.WFClose2 EngineProofs.WFService EngineProofs.WFService4
  EngineProofs.WFEvents.
From Coq Require Import Sorting.Sorted Sorting.Permutation.
From RecordUpdate Require Import RecordSet.
Import RecordSetNotations.
Open Scope N_scope.

(* the four component types are implicit in the engine functions, locally to this file *)
#[local] Arguments init {enc dec} _ {ores ires} _ _.
#[local] Arguments release {enc dec ores ires} _ _ _ _.
#[local] Arguments disconnect_completion {enc dec ores ires} _ _.
#[local] Arguments fail_op {enc dec ores ires} _ _ _ _.
#[local] Arguments ping_extension {enc dec ores ires} _ _.
#[local] Arguments succeed_op {enc dec ores ires} _ _ _ _.
#[local] Arguments fail_all {enc dec ores ires} _ _ _ _.
#[local] Arguments succeed_all {enc dec ores ires} _ _ _.
#[local] Arguments andthen {enc dec ores ires} _ _.
#[local] Arguments try_ {enc dec ores ires} _ _.
#[local] Arguments pure {enc dec ores ires} _.
#[local] Arguments create_operation {enc dec ores ires} _ _.
#[local] Arguments passes_now {enc dec ores ires} _ _ _.
#[local] Arguments user_event {enc dec ores ires} _ _ _ _.
#[local] Arguments create_connect {enc dec ores ires} _ _.
#[local] Arguments net_opened {enc dec} _ {ores ires} _ _ _.
#[local] Arguments op_exists {enc dec ores ires} _ _.
#[local] Arguments op_passes {enc dec ores ires} _ _ _.
#[local] Arguments partition_policy {enc dec ores ires} _ _ _.
#[local] Arguments closed_current {enc dec ores ires} _ _.
#[local] Arguments slow_start_init {enc dec ores ires} _ _.
#[local] Arguments update_retries {enc dec ores ires} _ _.
#[local] Arguments fail_exceeding {enc dec ores ires} _ _.
#[local] Arguments has_pubrel {enc dec ores ires} _ _.
#[local] Arguments net_closed_raw {enc dec ores ires} _ _.
#[local] Arguments net_closed {enc dec ores ires} _ _.
#[local] Arguments net_write_completion {enc dec ores ires} _ _.
#[local] Arguments acquire_free_pid {enc dec ores ires} _ _.
#[local] Arguments acquire_pid_for {enc dec ores ires} _ _.
#[local] Arguments unbind {enc dec ores ires} _ _.
#[local] Arguments passes_receive_max {enc dec ores ires} _ _.
#[local] Arguments throttled {enc dec ores ires} _ _.
#[local] Arguments has_pending_ack {enc dec ores ires} _.
#[local] Arguments dequeue {enc dec ores ires} _ _ _.
#[local] Arguments fully_written {enc dec ores ires} _ _.
#[local] Arguments service_keep_alive {enc dec ores ires} _ _ _.
#[local] Arguments process_ack_timeouts {enc dec ores ires} _ _ _.
#[local] Arguments halt_on_error {enc dec ores ires} _ _.
#[local] Arguments next_service_time {enc dec ores ires} _ _ _.
#[local] Arguments build_settings {enc dec ores ires} _ _ _.
#[local] Arguments apply_session {enc dec ores ires} _ _ _.
#[local] Arguments hres_of {enc dec ores ires} _ _.
#[local] Arguments pre_connack {enc dec ores ires} _.
#[local] Arguments sum_ss {enc dec ores ires} _.
#[local] Arguments handle_pingresp {enc dec ores ires} _.
#[local] Arguments handle_suback {enc dec ores ires} _ _ _.
#[local] Arguments handle_unsuback {enc dec ores ires} _ _ _.
#[local] Arguments publish_qos_of {enc dec ores ires} _ _.
#[local] Arguments handle_puback {enc dec ores ires} _ _ _.
#[local] Arguments handle_pubrec {enc dec ores ires} _ _ _.
#[local] Arguments handle_pubrel {enc dec ores ires} _ _.
#[local] Arguments handle_pubcomp {enc dec ores ires} _ _ _.
#[local] Arguments handle_publish {enc dec ores ires} _ _.
#[local] Arguments handle_disconnect {enc dec ores ires} _ _ _.
#[local] Arguments is_connect_op {enc dec ores ires} _ _.
#[local] Arguments connect_in_queue {enc dec ores ires} _.
#[local] Arguments reset {enc dec ores ires} _ _.
#[local] Arguments out_of_res {enc dec ores ires} _ _.
#[local] Arguments nst_queue {enc dec ores ires} _ _ _ _.
#[local] Arguments earliest_tmo {enc dec ores ires} _.
#[local] Arguments SeatStop {enc dec ores ires} _.
#[local] Arguments SeatContinue {enc dec ores ires} _ _.
#[local] Arguments SeatEncode {enc dec ores ires} _.


Section Session.
  Context {enc dec ores ires : Type}.
  Notation state := (state enc dec ores ires).
  Notation res := (res enc dec ores ires).
  Variable cfg : config.

  Ltac splits := repeat match goal with |- _ /\ _ => split end.
  Ltac tuple_eqs H := repeat (apply pair_equal_spec in H; destruct H as [H ?]).
  Ltac core_cbn := unfold tracked, inq; cbn [core_of c_ops c_uq c_rq c_hq c_cur c_alloc c_ppub c_pnon c_pwco c_nid c_npid].

  (* fields untouched by unbind *)
  Definition but_oa (s : state) :=
    (s_st s, s_pwc s, s_tmo s, s_uq s, s_rq s, s_hq s, s_cur s, s_enc s, s_q2in s, s_ppub s, s_pnon s, s_pwco s,
     s_settings s, s_next_id s, s_next_pid s, s_connected_before s, s_dec s, s_next_ping s, s_ping_to s, s_connack_to s,
     s_ores s, s_ires s, s_ss_count s).

  (* what unbind does to an operation *)
  Definition unb_rel (id i : N) (o o' : op) : Prop :=
    (i <> id -> o' = o) /\ (op_pid o = None -> op_pid o' = None) /\ (op_pubrel o = None -> op_pubrel o' = None) /\
    (i = id -> op_pid o' = None /\ op_pubrel o' = None) /\ op_ss o' = op_ss o.

  Lemma unbind_spec X (s : state) id :
    WFSx X s -> s_ppub s = [] -> s_pnon s = [] ->
    let s' := unbind s id in
    WFSx X s' /\ but_oa s' = but_oa s /\ keys (s_ops s') = keys (s_ops s) /\ sumss (s_ops s') = sumss (s_ops s) /\
    (forall i o', getop s' i = Some o' -> exists o, getop s i = Some o /\ unb_rel id i o o') /\
    (forall i, getop s i = None -> getop s' i = None).
  Proof.
    intros HW Epp Epn. unfold unbind. destruct (lookup id (s_ops s)) as [o|] eqn:Hid.
    2:{ cbv zeta. splits; auto. intros i o' Hi. exists o'. split; [exact Hi|]. unfold unb_rel. splits; auto.
        intros ->. unfold getop in Hi. congruence. }
    (* first step: drop the packet id *)
    set (s1 := match op_pid o with
               | Some pid => match with_pid 0 (op_packet o) with
                             | Ok p' => s <| s_alloc := remove pid (s_alloc s) |>
                                          <| s_ops := update id (fun o => o <| op_pid := None |> <| op_packet := p' |>) (s_ops s) |>
                             | _ => s end
               | None => s end).
    assert (H1 : WFSx X s1 /\ but_oa s1 = but_oa s /\ keys (s_ops s1) = keys (s_ops s) /\
                 sumss (s_ops s1) = sumss (s_ops s) /\ (forall i, i <> id -> getop s1 i = getop s i) /\
                 exists o1, getop s1 id = Some o1 /\ op_pid o1 = None /\ op_pubrel o1 = op_pubrel o /\ op_ss o1 = op_ss o).
    { unfold s1. destruct (op_pid o) as [pid|] eqn:Hp.
      - destruct (w_bound _ _ HW _ _ _ Hid Hp) as (_ & _ & Hn). destruct (with_pid_needs 0 _ Hn) as (p' & Hwp). rewrite Hwp.
        splits.
        + eapply WFc_unbind_pid; [exact HW|exact Hid|exact Hp|exact Hwp|exact Epp|exact Epn|reflexivity].
        + reflexivity.
        + cbn. apply keys_update.
        + cbn. apply sumss_update. intros o1. reflexivity.
        + intros i Hne. unfold getop. cbn. apply lookup_update_neq. exact Hne.
        + eexists. split; [unfold getop; cbn; apply lookup_update_eq; exact Hid|]. cbn. tauto.
      - splits; auto. exists o. tauto. }
    clearbody s1. destruct H1 as (HW1 & B1 & K1 & S1 & O1 & o1 & Ho1 & P1 & P2 & P3).
    cbv zeta. splits.
    - eapply WFc_update; [exact HW1| |reflexivity]. intros o2 _. apply upd_ok_clear_pubrel.
    - unfold but_oa in *. cbn. exact B1.
    - transitivity (keys (update id (fun o => o <| op_pubrel := None |>) (s_ops s1))); [reflexivity|]. rewrite keys_update. exact K1.
    - cbn. rewrite sumss_update by reflexivity. exact S1.
    - intros i o' Hi. unfold getop in Hi. cbn in Hi. apply lookup_update_inv in Hi.
      destruct Hi as (o2 & Ho2 & [[Hne ->]|[-> ->]]).
      + exists o2. split; [rewrite <- (O1 i Hne); exact Ho2|]. unfold unb_rel. splits; auto; intros; congruence.
      + assert (o2 = o1) by (unfold getop in Ho1; congruence). subst o2. exists o. split; [exact Hid|].
        unfold unb_rel. cbn. splits; auto; try congruence.
    - intros i Hi. unfold getop in *.
      change (lookup i (update id (fun o => o <| op_pubrel := None |>) (s_ops s1)) = None).
      apply lookup_none_not_in. rewrite keys_update, K1. apply lookup_none_not_in. exact Hi.
  Qed.

  Definition unb_all_rel (ids : list N) (i : N) (o o' : op) : Prop :=
    (op_pid o = None -> op_pid o' = None) /\ (op_pubrel o = None -> op_pubrel o' = None) /\
    (In i ids -> op_pid o' = None /\ op_pubrel o' = None) /\ (~ In i ids -> o' = o).

  Lemma unbind_all_spec X ids : forall (s : state),
    WFSx X s -> s_ppub s = [] -> s_pnon s = [] ->
    let s' := fold_left unbind ids s in
    WFSx X s' /\ but_oa s' = but_oa s /\ keys (s_ops s') = keys (s_ops s) /\ sumss (s_ops s') = sumss (s_ops s) /\
    (forall i o', getop s' i = Some o' -> exists o, getop s i = Some o /\ unb_all_rel ids i o o') /\
    (forall i, getop s i = None -> getop s' i = None).
  Proof.
    induction ids as [|a rest IH]; intros s HW Epp Epn; cbn [fold_left].
    - cbv zeta. splits; auto. intros i o' Hi. exists o'. split; [exact Hi|]. unfold unb_all_rel. splits; auto. intros [].
    - destruct (unbind_spec X s a HW Epp Epn) as (U1 & U2 & U3 & U4 & U5 & U6).
      assert (Epp1 : s_ppub (unbind s a) = []) by (unfold but_oa in U2; tuple_eqs U2; congruence).
      assert (Epn1 : s_pnon (unbind s a) = []) by (unfold but_oa in U2; tuple_eqs U2; congruence).
      destruct (IH (unbind s a) U1 Epp1 Epn1) as (I1 & I2 & I3 & I4 & I5 & I6).
      cbv zeta. splits; try congruence; auto.
      intros i o' Hi. destruct (I5 i o' Hi) as (o1 & Ho1 & R1 & R2 & R3 & R4).
      destruct (U5 i o1 Ho1) as (o & Ho & Q1 & Q2 & Q3 & Q4 & Q5). exists o. split; [exact Ho|].
      unfold unb_all_rel. splits.
      + intros Hp. apply R1. apply Q2. exact Hp.
      + intros Hp. apply R2. apply Q3. exact Hp.
      + intros [<-|Hin]; [|apply R3; exact Hin]. destruct (Q4 eq_refl) as (Q6 & Q7). split; [apply R1; exact Q6|apply R2; exact Q7].
      + intros Hn. rewrite R4 by (intros Hx; apply Hn; right; exact Hx). apply Q1. intros ->. apply Hn. left. reflexivity.
  Qed.

  (* what unbinding does to packets: unbound operations keep theirs, newly unbound ones carry packet id 0 *)
  Definition unb_pkt (o o' : op) : Prop :=
    (op_pid o = None -> op_pid o' = None /\ op_packet o' = op_packet o) /\
    (op_pid o' = None -> op_pid o <> None -> forall pb', op_packet o' = Publish pb' -> pub_pid pb' = 0).

  Lemma unbind_packet (s : state) id i o' :
    getop (unbind s id) i = Some o' -> exists o, getop s i = Some o /\ unb_pkt o o'.
  Proof.
    unfold unbind, getop. destruct (lookup id (s_ops s)) as [o|] eqn:Hid.
    2:{ intros H. exists o'. split; [exact H|]. unfold unb_pkt. split; [tauto|congruence]. }
    set (s1 := match op_pid o with
               | Some pid => match with_pid 0 (op_packet o) with
                             | Ok p' => s <| s_alloc := remove pid (s_alloc s) |>
                                          <| s_ops := update id (fun o => o <| op_pid := None |> <| op_packet := p' |>) (s_ops s) |>
                             | _ => s end
               | None => s end).
    assert (H1 : forall j o1, lookup j (s_ops s1) = Some o1 -> exists o0, lookup j (s_ops s) = Some o0 /\ unb_pkt o0 o1).
    { intros j o1 Hj. unfold s1 in Hj. destruct (op_pid o) as [pid|] eqn:Hp.
      - destruct (with_pid 0 (op_packet o)) as [p'|k|site] eqn:Hwp.
        + cbn in Hj. apply lookup_update_inv in Hj. destruct Hj as (o0 & Ho0 & [[Hne ->]|[-> ->]]).
          * exists o0. split; [exact Ho0|]. unfold unb_pkt. split; [tauto|congruence].
          * assert (o0 = o) by congruence. subst o0. exists o. split; [exact Hid|]. unfold unb_pkt. cbn. split; [congruence|].
            intros _ _ pb' Hpb. destruct (with_pid_ok _ _ _ Hwp) as (P1 & _). rewrite Hpb in P1. cbn in P1. congruence.
        + exists o1. split; [exact Hj|]. unfold unb_pkt. split; [tauto|congruence].
        + exists o1. split; [exact Hj|]. unfold unb_pkt. split; [tauto|congruence].
      - exists o1. split; [exact Hj|]. unfold unb_pkt. split; [tauto|congruence]. }
    clearbody s1. cbn. intros H. apply lookup_update_inv in H. destruct H as (o1 & Ho1 & Hcase).
    destruct (H1 i o1 Ho1) as (o0 & Ho0 & U1 & U2). exists o0. split; [exact Ho0|].
    assert (E : op_pid o' = op_pid o1 /\ op_packet o' = op_packet o1) by (destruct Hcase as [[_ ->]|[_ ->]]; cbn; tauto).
    destruct E as (E1 & E2). unfold unb_pkt. rewrite E1, E2. split; assumption.
  Qed.

  Lemma unb_pkt_trans o o1 o' : unb_pkt o o1 -> unb_pkt o1 o' -> unb_pkt o o'.
  Proof.
    intros (A1 & A2) (B1 & B2). unfold unb_pkt. split.
    - intros Hp. destruct (A1 Hp) as (A3 & A4). destruct (B1 A3) as (B3 & B4). split; congruence.
    - intros Hp' Hp pb' Hpb. destruct (op_pid o1) eqn:E1.
      + apply (B2 Hp'); [congruence|exact Hpb].
      + destruct (B1 eq_refl) as (_ & B4). apply (A2 eq_refl Hp). congruence.
  Qed.

  Lemma unbind_all_packet ids : forall (s : state) i o',
    getop (fold_left unbind ids s) i = Some o' -> exists o, getop s i = Some o /\ unb_pkt o o'.
  Proof.
    induction ids as [|a rest IH]; intros s i o' H; cbn [fold_left] in H.
    - exists o'. split; [exact H|]. unfold unb_pkt. split; [tauto|congruence].
    - destruct (IH _ _ _ H) as (o1 & Ho1 & U1). destruct (unbind_packet s a i o1 Ho1) as (o & Ho & U0).
      exists o. split; [exact Ho|]. eapply unb_pkt_trans; eauto.
  Qed.

  (* clearing the packet-id table commutes with unbinding *)
  Definition but_aq2 (s : state) :=
    (s_st s, s_pwc s, s_ops s, s_tmo s, s_uq s, s_rq s, s_hq s, s_cur s, s_enc s, s_ppub s, s_pnon s, s_pwco s,
     s_settings s, s_next_id s, s_next_pid s, s_connected_before s, s_dec s, s_next_ping s, s_ping_to s, s_connack_to s,
     s_ores s, s_ires s, s_ss_count s).

  Lemma unbind_comm (a b : state) id :
    but_aq2 b = but_aq2 a -> s_alloc b = [] ->
    but_aq2 (unbind b id) = but_aq2 (unbind a id) /\ s_alloc (unbind b id) = [].
  Proof.
    intros H Hal. pose proof H as H'. unfold but_aq2 in H'. tuple_eqs H'.
    unfold unbind. replace (s_ops b) with (s_ops a) by congruence.
    destruct (lookup id (s_ops a)) as [o|]; [|split; assumption].
    destruct (op_pid o) as [pid|].
    - destruct (with_pid 0 (op_packet o)) as [p'|k|site]; unfold but_aq2; cbn; rewrite ?Hal; cbn;
        (split; [repeat (apply pair_equal_spec; split); congruence|reflexivity]).
    - unfold but_aq2; cbn. split; [repeat (apply pair_equal_spec; split); congruence|exact Hal].
  Qed.

  Lemma unbind_all_comm ids : forall (a b : state),
    but_aq2 b = but_aq2 a -> s_alloc b = [] ->
    but_aq2 (fold_left unbind ids b) = but_aq2 (fold_left unbind ids a) /\ s_alloc (fold_left unbind ids b) = [].
  Proof.
    induction ids as [|x rest IH]; intros a b H Hal; cbn [fold_left]; [split; assumption|].
    destruct (unbind_comm a b x H Hal) as (H1 & H2). apply IH; assumption.
  Qed.
End Session.
