(* C18: ack timeouts and the interrupted-retry limit, single-step contracts
   (protocol.rs process_ack_timeouts 1255-1275, start_operation_ack_timeout 1367-1371,
   update_interrupted_retries / fail_operations_exceeding_max_interruption_limit 947-986). *)
From GM Require Import Base.Prelude Base.Outcome Codec.Packets Codec.Settings Engine.Model EngineProofs.AssocLemmas.
From RecordUpdate Require Import RecordSet.
Import RecordSetNotations.
Open Scope N_scope.

Lemma mem_cons k id rest : mem k (id :: rest) = (k =? id) || mem k rest.
Proof. reflexivity. Qed.

Lemma in_remove_neq {A} (l : list (N * A)) k v k' : In (k, v) l -> k <> k' -> In (k, v) (remove k' l).
Proof.
  induction l as [|[a b] r IH]; cbn [remove In]; [tauto|]. intros [H|H] Hne.
  - inversion H; subst. destruct (k =? k') eqn:E; [lia|]. left. reflexivity.
  - destruct (a =? k'); [apply IH; assumption|]. right. apply IH; assumption.
Qed.

Set Default Proof Using "Type".
Section Engine.
  Variable enc : Type.
  Variable enc_reset : version -> packet -> resolution -> outcome enc.
  Variable enc_call : enc -> N -> N -> outcome (bytes * enc).
  Variable enc_done : enc -> bool.
  Variable dec : Type.
  Variable dec_init : dec.
  Variable dec_feed : version -> N -> dec -> bytes -> dec * list packet * outcome unit.
  Variable ores : Type.
  Variable ores_reset : ores -> N -> ores.
  Variable ores_resolve : ores -> option N -> bytes -> outcome (ores * resolution).
  Variable ires : Type.
  Variable ires_reset : ires -> ires.
  Variable ires_resolve : ires -> option N -> bytes -> outcome (ires * bytes).
  Variable v_out : option settings -> connect_opts -> resolution -> packet -> outcome unit.
  Variable v_in : option settings -> packet -> outcome unit.
  Variable cfg : config.

  Notation state := (Model.state enc dec ores ires).
  Notation init := (Model.init enc dec dec_init ores ires).
  Notation res := (Model.res enc dec ores ires).
  Notation release := (Model.release enc dec ores ires cfg).
  Notation disconnect_completion := (Model.disconnect_completion enc dec ores ires).
  Notation fail_op := (Model.fail_op enc dec ores ires cfg).
  Notation ping_extension := (Model.ping_extension enc dec ores ires).
  Notation succeed_op := (Model.succeed_op enc dec ores ires cfg).
  Notation fail_all := (Model.fail_all enc dec ores ires cfg).
  Notation succeed_all := (Model.succeed_all enc dec ores ires cfg).
  Notation andthen := (Model.andthen enc dec ores ires).
  Notation try_ := (Model.try_ enc dec ores ires).
  Notation pure := (Model.pure enc dec ores ires).
  Notation create_operation := (Model.create_operation enc dec ores ires).
  Notation passes_now := (Model.passes_now enc dec ores ires cfg).
  Notation user_event := (Model.user_event enc dec ores ires cfg).
  Notation create_connect := (Model.create_connect enc dec ores ires cfg).
  Notation net_opened := (Model.net_opened enc dec dec_init ores ires cfg).
  Notation op_exists := (Model.op_exists enc dec ores ires).
  Notation op_passes := (Model.op_passes enc dec ores ires cfg).
  Notation partition_policy := (Model.partition_policy enc dec ores ires cfg).
  Notation closed_current := (Model.closed_current enc dec ores ires cfg).
  Notation slow_start_init := (Model.slow_start_init enc dec ores ires cfg).
  Notation update_retries := (Model.update_retries enc dec ores ires cfg).
  Notation fail_exceeding := (Model.fail_exceeding enc dec ores ires cfg).
  Notation has_pubrel := (Model.has_pubrel enc dec ores ires).
  Notation net_closed_raw := (Model.net_closed_raw enc dec ores ires cfg).
  Notation net_closed := (Model.net_closed enc dec ores ires cfg).
  Notation net_write_completion := (Model.net_write_completion enc dec ores ires cfg).
  Notation acquire_free_pid := (Model.acquire_free_pid enc dec ores ires).
  Notation acquire_pid_for := (Model.acquire_pid_for enc dec ores ires).
  Notation unbind := (Model.unbind enc dec ores ires).
  Notation passes_receive_max := (Model.passes_receive_max enc dec ores ires).
  Notation throttled := (Model.throttled enc dec ores ires cfg).
  Notation has_pending_ack := (Model.has_pending_ack enc dec ores ires).
  Notation dequeue := (Model.dequeue enc dec ores ires cfg).
  Notation fully_written := (Model.fully_written enc dec ores ires).
  Notation sres := (Model.sres enc dec ores ires).
  Notation seat := (Model.seat enc dec ores ires).
  Notation seat_current := (Model.seat_current enc enc_reset dec ores ores_reset ores_resolve ires v_out cfg).
  Notation service_loop := (Model.service_loop enc enc_reset enc_call enc_done dec ores ores_reset ores_resolve ires v_out cfg).
  Notation service_queue := (Model.service_queue enc enc_reset enc_call enc_done dec ores ores_reset ores_resolve ires v_out cfg).
  Notation service_keep_alive := (Model.service_keep_alive enc dec ores ires cfg).
  Notation process_ack_timeouts := (Model.process_ack_timeouts enc dec ores ires cfg).
  Notation halt_on_error := (Model.halt_on_error enc dec ores ires).
  Notation service := (Model.service enc enc_reset enc_call enc_done dec ores ores_reset ores_resolve ires v_out cfg).
  Notation earliest_tmo := (Model.earliest_tmo enc dec ores ires).
  Notation nst_queue := (Model.nst_queue enc dec ores ires cfg).
  Notation next_service_time := (Model.next_service_time enc dec ores ires cfg).
  Notation build_settings := (Model.build_settings enc dec ores ires cfg).
  Notation apply_session := (Model.apply_session enc dec ores ires cfg).
  Notation hres := (Model.hres enc dec ores ires).
  Notation hres_of := (Model.hres_of enc dec ores ires).
  Notation pre_connack := (Model.pre_connack enc dec ores ires).
  Notation sum_ss := (Model.sum_ss enc dec ores ires).
  Notation handle_connack := (Model.handle_connack enc dec ores ores_reset ires ires_reset v_in cfg).
  Notation handle_pingresp := (Model.handle_pingresp enc dec ores ires).
  Notation handle_suback := (Model.handle_suback enc dec ores ires cfg).
  Notation handle_unsuback := (Model.handle_unsuback enc dec ores ires cfg).
  Notation publish_qos_of := (Model.publish_qos_of enc dec ores ires).
  Notation handle_puback := (Model.handle_puback enc dec ores ires cfg).
  Notation handle_pubrec := (Model.handle_pubrec enc dec ores ires cfg).
  Notation handle_pubrel := (Model.handle_pubrel enc dec ores ires).
  Notation handle_pubcomp := (Model.handle_pubcomp enc dec ores ires cfg).
  Notation handle_publish := (Model.handle_publish enc dec ores ires).
  Notation handle_disconnect := (Model.handle_disconnect enc dec ores ires cfg).
  Notation handle_packet := (Model.handle_packet enc dec ores ores_reset ires ires_reset v_in cfg).
  Notation handle_packets := (Model.handle_packets enc dec ores ores_reset ires ires_reset ires_resolve v_in cfg).
  Notation is_connect_op := (Model.is_connect_op enc dec ores ires).
  Notation connect_in_queue := (Model.connect_in_queue enc dec ores ires).
  Notation max_incoming_size := (Model.max_incoming_size cfg).
  Notation net_data := (Model.net_data enc dec dec_feed ores ores_reset ires ires_reset ires_resolve v_in cfg).
  Notation reset := (Model.reset enc dec ores ires cfg).
  Notation out_of_res := (Model.out_of_res enc dec ores ires).
  Notation step := (Model.step enc enc_reset enc_call enc_done dec dec_init dec_feed ores ores_reset ores_resolve ires ires_reset ires_resolve v_out v_in cfg).
  Notation run := (Model.run enc enc_reset enc_call enc_done dec dec_init dec_feed ores ores_reset ores_resolve ires ires_reset ires_resolve v_out v_in cfg).
  Notation SeatStop := (Model.SeatStop enc dec ores ires).
  Notation SeatContinue := (Model.SeatContinue enc dec ores ires).
  Notation SeatEncode := (Model.SeatEncode enc dec ores ires).
  Notation mkState := (Model.mkState enc dec ores ires).
  (* lia generalises over every hypothesis mentioning N, including the Section variables: clear them first *)
  Ltac slia := try clear v_in; try clear v_out; try clear ires_resolve; try clear ires_reset; try clear ores_resolve;
    try clear ores_reset; try clear dec_feed; try clear dec_init; try clear enc_done; try clear enc_call; try clear enc_reset; lia.
  Ltac dm := match goal with
    | |- context [match ?x with _ => _ end] => destruct x eqn:?
    end.

  (* ---- what a failure leaves alone ---- *)
  Definition queue_fields (s : state) :=
    (s_pwc s, s_tmo s, s_uq s, s_rq s, s_hq s, s_cur s, s_q2in s, s_pwco s, s_settings s,
     (s_next_id s, s_next_pid s, s_connected_before s, s_next_ping s, s_ping_to s, s_connack_to s),
     (s_enc s, s_dec s, s_ores s, s_ires s)).

  Lemma release_fields s id o s1 : release s id o = Ok s1 -> queue_fields s1 = queue_fields s /\ s_st s1 = s_st s.
  Proof. unfold Model.release. destruct (op_pid o); cbn; repeat dm; intros H; inversion H; split; reflexivity. Qed.

  Lemma release_no_err s id o k : release s id o <> Err k.
  Proof. unfold Model.release. destruct (op_pid o); cbn; repeat dm; discriminate. Qed.

  Lemma release_ops_exact s id o s1 : release s id o = Ok s1 -> s_ops s1 = remove id (s_ops s).
  Proof. unfold Model.release. destruct (op_pid o); cbn; repeat dm; intros H; inversion H; reflexivity. Qed.

  Lemma disconnect_completion_fields s o :
    queue_fields (fst (disconnect_completion s o)) = queue_fields s /\ s_ops (fst (disconnect_completion s o)) = s_ops s.
  Proof. unfold Model.disconnect_completion. repeat dm; split; reflexivity. Qed.

  Lemma fail_op_fields s id e : queue_fields (r_s (fail_op s id e)) = queue_fields s.
  Proof.
    unfold Model.fail_op. destruct (lookup id (s_ops s)) as [o|]; [|reflexivity].
    destruct (release s id o) as [s1| |] eqn:Er; [|reflexivity..]. destruct (release_fields _ _ _ _ Er) as [<- _].
    destruct (disconnect_completion_fields s1 o) as [Hd _].
    destruct (disconnect_completion s1 o) as [s2 r]. cbn [fst] in Hd. repeat dm; cbn [r_s]; exact Hd.
  Qed.

  Lemma fail_all_fields ids : forall s e, queue_fields (r_s (fail_all s ids e)) = queue_fields s.
  Proof.
    induction ids as [|id r IH]; intros s e; cbn [Model.fail_all]; [reflexivity|].
    destruct (is_panic _); [apply fail_op_fields|]. destruct (is_panic _); cbn [r_s]; rewrite IH; apply fail_op_fields.
  Qed.

  (* ---- exact effect of a failure when it does not panic ---- *)
  Definition completes (o : op) : bool := op_user o && negb (is_disconnect (op_packet o)).

  Lemma fail_op_exact s id e : is_panic (r_out (fail_op s id e)) = false ->
    match lookup id (s_ops s) with
    | None => fail_op s id e = Model.mkRes s [] (Ok tt)
    | Some o => s_ops (r_s (fail_op s id e)) = remove id (s_ops s) /\
                r_done (fail_op s id e) = (if completes o then [(id, CompErr e)] else [])
    end.
  Proof.
    unfold Model.fail_op, completes. destruct (lookup id (s_ops s)) as [o|]; [|reflexivity].
    destruct (release s id o) as [s1|k|site] eqn:Er; [|exfalso; exact (release_no_err _ _ _ _ Er)|cbn; discriminate].
    pose proof (release_ops_exact _ _ _ _ Er) as Ho. destruct (disconnect_completion_fields s1 o) as [_ Hd].
    unfold Model.disconnect_completion in *. destruct (is_disconnect (op_packet o)).
    - rewrite andb_false_r. destruct (pstate_eqb (s_st s1) PendingDisconnect); cbn in *; intros _; split; congruence.
    - rewrite andb_true_r. cbn in *. destruct (op_user o); cbn; intros _; split; congruence.
  Qed.

  Lemma fail_op_lookup s id e k : is_panic (r_out (fail_op s id e)) = false ->
    lookup k (s_ops (r_s (fail_op s id e))) = if k =? id then None else lookup k (s_ops s).
  Proof.
    intros Hp. pose proof (fail_op_exact s id e Hp) as H. destruct (lookup id (s_ops s)) as [o|] eqn:El.
    - destruct H as [-> _]. destruct (k =? id) eqn:E.
      + assert (k = id) by slia. subst. apply lookup_remove_eq.
      + apply lookup_remove_neq. slia.
    - rewrite H. cbn [r_s]. destruct (k =? id) eqn:E; [|reflexivity]. assert (k = id) by slia. subst. exact El.
  Qed.

  Lemma fail_all_exact ids : forall s e, is_panic (r_out (fail_all s ids e)) = false ->
    (forall k, lookup k (s_ops (r_s (fail_all s ids e))) = if mem k ids then None else lookup k (s_ops s)) /\
    (forall id c, In (id, c) (r_done (fail_all s ids e)) <->
       c = CompErr e /\ In id ids /\ exists o, lookup id (s_ops s) = Some o /\ completes o = true).
  Proof.
    induction ids as [|id r IH]; intros s e; cbn [Model.fail_all].
    - intros _. split; [reflexivity|]. cbn. intros id c. split; [intros []|intros (_ & [] & _)].
    - destruct (is_panic (r_out (fail_op s id e))) eqn:Hp1; [intros H; rewrite H in Hp1; discriminate|].
      destruct (is_panic (r_out (fail_all (r_s (fail_op s id e)) r e))) eqn:Hp2; cbn [r_out]; [intros H; rewrite H in Hp2; discriminate|].
      intros _. destruct (IH _ _ Hp2) as [IHl IHd]. cbn [r_s r_done]. split.
      + intros k. rewrite IHl, mem_cons, (fail_op_lookup s id e k Hp1). destruct (k =? id), (mem k r); reflexivity.
      + intros id' c. rewrite in_app_iff, IHd. pose proof (fail_op_exact s id e Hp1) as Hx. split.
        * intros [Hin|(-> & Hin & o & Hl & Hc)].
          -- destruct (lookup id (s_ops s)) as [o|] eqn:El; [|rewrite Hx in Hin; destruct Hin].
             destruct Hx as [_ Hx]. rewrite Hx in Hin. destruct (completes o) eqn:Ec; [|destruct Hin].
             destruct Hin as [Hin|[]]. inversion Hin; subst. split; [reflexivity|]. split; [left; reflexivity|]. exists o. split; assumption.
          -- split; [reflexivity|]. split; [right; exact Hin|]. exists o. split; [|exact Hc].
             rewrite (fail_op_lookup s id e id' Hp1) in Hl. destruct (id' =? id); [discriminate|exact Hl].
        * intros (-> & [<-|Hin] & o & Hl & Hc).
          -- left. rewrite Hl in Hx. destruct Hx as [_ ->]. rewrite Hc. left. reflexivity.
          -- destruct (N.eq_dec id' id) as [->|Hne].
             ++ left. rewrite Hl in Hx. destruct Hx as [_ ->]. rewrite Hc. left. reflexivity.
             ++ right. split; [reflexivity|]. split; [exact Hin|]. exists o. split; [|exact Hc].
                rewrite (fail_op_lookup s id e id' Hp1). destruct (id' =? id) eqn:E; [slia|exact Hl].
  Qed.

  (* ---- process_ack_timeouts ---- *)
  Definition due (now : N) (x : N * N) : bool := snd x <=? now.

  Theorem ack_timeouts_exact (s : state) (now : N) :
    let r := process_ack_timeouts s now in
    is_panic (r_out r) = false ->
    (* exactly the due records leave the heap *)
    s_tmo (r_s r) = filter (fun x => negb (due now x)) (s_tmo s) /\
    (* exactly the due, still existing user operations are failed, with AckTimeout *)
    (forall id c, In (id, c) (r_done r) <->
       c = CompErr EAckTimeout /\ (exists t, In (id, t) (s_tmo s) /\ t <= now) /\
       exists o, lookup id (s_ops s) = Some o /\ completes o = true) /\
    (* exactly the due operations leave the table *)
    (forall k, lookup k (s_ops (r_s r)) =
               if existsb (fun x => (fst x =? k) && due now x) (s_tmo s) then None else lookup k (s_ops s)) /\
    (* queues, current operation, settings, timers: untouched *)
    (s_uq (r_s r) = s_uq s /\ s_rq (r_s r) = s_rq s /\ s_hq (r_s r) = s_hq s /\ s_cur (r_s r) = s_cur s /\
     s_pwco (r_s r) = s_pwco s /\ s_pwc (r_s r) = s_pwc s /\ s_next_ping (r_s r) = s_next_ping s /\
     s_ping_to (r_s r) = s_ping_to s /\ s_settings (r_s r) = s_settings s /\ s_next_id (r_s r) = s_next_id s).
  Proof.
    unfold Model.process_ack_timeouts. cbv zeta.
    replace (filter (fun '(_, t) => t <=? now) (s_tmo s)) with (filter (due now) (s_tmo s))
      by (apply filter_ext; intros [? ?]; reflexivity).
    replace (filter (fun '(_, t) => negb (t <=? now)) (s_tmo s)) with (filter (fun x => negb (due now x)) (s_tmo s))
      by (apply filter_ext; intros [? ?]; reflexivity).
    set (s0 := s <| s_tmo := filter (fun x => negb (due now x)) (s_tmo s) |>).
    set (ids := map fst (filter (due now) (s_tmo s))). intros Hp.
    destruct (fail_all_exact ids s0 EAckTimeout Hp) as [Hl Hd].
    pose proof (fail_all_fields ids s0 EAckTimeout) as Hf. unfold queue_fields in Hf. inversion Hf.
    assert (Hids : forall id, In id ids <-> exists t, In (id, t) (s_tmo s) /\ t <= now).
    { intros id. unfold ids. rewrite in_map_iff. split.
      - intros ([id' t] & Heq & Hin). cbn [fst] in Heq. subst id'. apply filter_In in Hin. destruct Hin as [Hin Hdue].
        exists t. split; [exact Hin|]. unfold due in Hdue. cbn [snd] in Hdue. slia.
      - intros (t & Hin & Hle). exists (id, t). split; [reflexivity|]. apply filter_In. split; [exact Hin|]. unfold due. cbn [snd]. slia. }
    split; [reflexivity|]. split; [|split].
    - intros id c. rewrite Hd, Hids. reflexivity.
    - intros k. rewrite Hl. replace (mem k ids) with (existsb (fun x => (fst x =? k) && due now x) (s_tmo s)); [reflexivity|].
      unfold ids, mem. clear. induction (s_tmo s) as [|[id t] r IH]; cbn [filter existsb map fst]; [reflexivity|].
      unfold due at 1 3. cbn [fst snd]. destruct (t <=? now); cbn [map fst existsb]; rewrite IH.
      + rewrite andb_true_r, (N.eqb_sym k id). reflexivity.
      + rewrite andb_false_r. reflexivity.
    - repeat split; assumption.
  Qed.

  (* soundness without the no-panic premise: whatever is completed here is a due AckTimeout *)
  Lemma fail_all_sound ids : forall s e id c, In (id, c) (r_done (fail_all s ids e)) ->
    c = CompErr e /\ In id ids /\ exists o, lookup id (s_ops s) = Some o /\ op_user o = true.
  Proof.
    induction ids as [|k r IH]; intros s e id c; cbn [Model.fail_all]; [intros []|].
    assert (H1 : In (id, c) (r_done (fail_op s k e)) -> c = CompErr e /\ In id (k :: r) /\ exists o, lookup id (s_ops s) = Some o /\ op_user o = true).
    { unfold Model.fail_op. destruct (lookup k (s_ops s)) as [o|] eqn:El; [|intros []].
      destruct (release s k o) as [s1| |]; [|intros []..]. destruct (disconnect_completion s1 o) as [s2 r0].
      destruct r0 as [[]| |]; [|intros []..]. destruct (op_user o) eqn:Eu; [|intros []].
      intros [H|[]]. inversion H; subst. split; [reflexivity|]. split; [left; reflexivity|]. exists o. split; assumption. }
    assert (H2 : In (id, c) (r_done (fail_all (r_s (fail_op s k e)) r e)) -> c = CompErr e /\ In id (k :: r) /\ exists o, lookup id (s_ops s) = Some o /\ op_user o = true).
    { intros Hin. destruct (IH _ _ _ _ Hin) as (-> & Hi & o & Hl & Hu). split; [reflexivity|]. split; [right; exact Hi|]. exists o. split; [|exact Hu].
      revert Hl. unfold Model.fail_op. destruct (lookup k (s_ops s)) as [o'|] eqn:El; [|exact (fun H => H)].
      destruct (release s k o') as [s1| |] eqn:Er; [|exact (fun H => H)..].
      pose proof (release_ops_exact _ _ _ _ Er) as Ho. destruct (disconnect_completion_fields s1 o') as [_ Hd].
      destruct (disconnect_completion s1 o') as [s2 r0]. cbn [fst] in Hd.
      assert (Hsub : lookup id (s_ops s2) = Some o -> lookup id (s_ops s) = Some o).
      { rewrite Hd, Ho. destruct (N.eq_dec id k) as [->|Hne]; [rewrite lookup_remove_eq; discriminate|].
        rewrite (lookup_remove_neq _ _ _ Hne). exact (fun H => H). }
      repeat dm; cbn [r_s]; exact Hsub. }
    destruct (is_panic _); [exact H1|]. destruct (is_panic _); cbn [r_done]; intros Hin; apply in_app_or in Hin; tauto.
  Qed.

  Theorem ack_timeouts_sound (s : state) (now : N) id c :
    In (id, c) (r_done (process_ack_timeouts s now)) ->
    c = CompErr EAckTimeout /\ (exists t, In (id, t) (s_tmo s) /\ t <= now) /\
    exists o, lookup id (s_ops s) = Some o /\ op_user o = true.
  Proof.
    unfold Model.process_ack_timeouts. intros Hin. destruct (fail_all_sound _ _ _ _ _ Hin) as (-> & Hi & Ho).
    split; [reflexivity|]. split; [|exact Ho]. apply in_map_iff in Hi. destruct Hi as ([id' t] & Heq & Hi). cbn [fst] in Heq. subst id'.
    apply filter_In in Hi. destruct Hi as [Hi Hd]. exists t. split; [exact Hi|slia].
  Qed.

  (* ---- arming: when the packet is completely written ---- *)
  Theorem deadline_armed (s : state) (now : N) s' id o :
    fully_written s now = Ok s' -> s_cur s = Some id -> lookup id (s_ops s) = Some o ->
    s_tmo s' = s_tmo s ++
      match (if op_user o then op_timeout o else None) with
      | Some d => if IMAX <? now + d then [] else [(id, now + d)]
      | None => []
      end.
  Proof.
    unfold Model.fully_written. intros H Hc Hl. rewrite Hc, Hl in H.
    assert (Ht : forall (s1 : state), s_tmo s1 = s_tmo s ->
      forall f, s_tmo (s1 <| s_ops := f |>) = s_tmo s) by (intros; assumption).
    revert H. match goal with |- context [update id ?f (s_ops ?s1)] => set (s1v := s1); set (fv := f) end.
    assert (H1 : s_tmo s1v = s_tmo s) by (unfold s1v; repeat dm; reflexivity).
    destruct (if op_user o then op_timeout o else None) as [d|]; cbn [obind].
    - destruct (IMAX <? now + d); cbn [obind]; intros H; inversion H; subst; cbn; rewrite H1, ?app_nil_r; reflexivity.
    - intros H; inversion H; subst; cbn. rewrite H1, app_nil_r. reflexivity.
  Qed.

  Corollary deadline_armed_user (s : state) (now d : N) s' id o :
    fully_written s now = Ok s' -> s_cur s = Some id -> lookup id (s_ops s) = Some o ->
    op_user o = true -> op_timeout o = Some d -> now + d <= IMAX ->
    s_tmo s' = s_tmo s ++ [(id, now + d)].
  Proof.
    intros H Hc Hl Hu Ht Hle. rewrite (deadline_armed s now s' id o H Hc Hl), Hu, Ht.
    assert (E : IMAX <? now + d = false) by slia. rewrite E. reflexivity.
  Qed.

  (* operations without a timeout, and internal operations, never get a record *)
  Corollary deadline_not_armed (s : state) (now : N) s' id o :
    fully_written s now = Ok s' -> s_cur s = Some id -> lookup id (s_ops s) = Some o ->
    (op_user o = false \/ op_timeout o = None) -> s_tmo s' = s_tmo s.
  Proof.
    intros H Hc Hl Hn. rewrite (deadline_armed s now s' id o H Hc Hl).
    destruct Hn as [-> | Hn]; [apply app_nil_r|]. rewrite Hn. destruct (op_user o); apply app_nil_r.
  Qed.

  (* ---- interrupted retries: counting at close ---- *)
  Lemma lookup_fold_update_nodup (f : op -> op) ids : NoDup ids -> forall ops k,
    lookup k (fold_left (fun ops id => update id f ops) ids ops) =
    if mem k ids then option_map f (lookup k ops) else lookup k ops.
  Proof.
    induction ids as [|id r IH]; intros Hnd ops k; cbn [fold_left]; [reflexivity|].
    inversion Hnd as [|? ? Hnin Hnd']; subst. rewrite (IH Hnd'), mem_cons.
    destruct (k =? id) eqn:E; cbn [orb].
    - assert (k = id) by slia. subst. destruct (mem id r) eqn:Em; [exfalso; apply Hnin; apply mem_In; exact Em|].
      destruct (lookup id ops) as [o|] eqn:El; [rewrite (lookup_update_eq _ _ _ _ El)|rewrite (lookup_update_none _ _ _ El)]; reflexivity.
    - assert (k <> id) by slia. rewrite (lookup_update_neq _ _ _ _ H). reflexivity.
  Qed.

  Definition pending_ids (s : state) : list N := map snd (s_pnon s) ++ map snd (s_ppub s).

  (* every operation caught sent-but-unacknowledged gets interruption count + 1, nothing else changes *)
  Theorem update_retries_exact (s s' : state) :
    update_retries s = Ok s' -> NoDup (pending_ids s) ->
    match cf_retry cfg with
    | None => s' = s
    | Some _ =>
        s' = s <| s_ops := s_ops s' |> /\
        forall k, lookup k (s_ops s') = if mem k (pending_ids s) then option_map bump_intr (lookup k (s_ops s)) else lookup k (s_ops s)
    end.
  Proof.
    unfold Model.update_retries, pending_ids. destruct (cf_retry cfg); [|intros H; inversion H; reflexivity].
    destruct (forallb _ _); [|discriminate]. intros H Hnd. inversion H; subst. split; [reflexivity|]. intros k. cbn.
    apply lookup_fold_update_nodup. exact Hnd.
  Qed.

  (* ---- failing the operations over the limit ---- *)
  Lemma fail_op_sub s id e k o : lookup k (s_ops (r_s (fail_op s id e))) = Some o -> lookup k (s_ops s) = Some o.
  Proof.
    unfold Model.fail_op. destruct (lookup id (s_ops s)) as [o'|] eqn:El; [|exact (fun H => H)].
    destruct (release s id o') as [s1| |] eqn:Er; [|exact (fun H => H)..].
    pose proof (release_ops_exact _ _ _ _ Er) as Ho. destruct (disconnect_completion_fields s1 o') as [_ Hd].
    destruct (disconnect_completion s1 o') as [s2 r0]. cbn [fst] in Hd.
    assert (Hsub : lookup k (s_ops s2) = Some o -> lookup k (s_ops s) = Some o).
    { rewrite Hd, Ho. destruct (N.eq_dec k id) as [->|Hne]; [rewrite lookup_remove_eq; discriminate|].
      rewrite (lookup_remove_neq _ _ _ Hne). exact (fun H => H). }
    repeat dm; cbn [r_s]; exact Hsub.
  Qed.

  Lemma fail_all_sub ids : forall s e k o, lookup k (s_ops (r_s (fail_all s ids e))) = Some o -> lookup k (s_ops s) = Some o.
  Proof.
    induction ids as [|id r IH]; intros s e k o; cbn [Model.fail_all]; [exact (fun H => H)|].
    destruct (is_panic _); [apply fail_op_sub|]. destruct (is_panic _); cbn [r_s]; intros H; apply IH in H; eapply fail_op_sub; exact H.
  Qed.

  (* the pending-publish table only loses entries; the entry removed is the failed operation's packet id *)
  Lemma release_ppub s id o s1 : release s id o = Ok s1 ->
    s_ppub s1 = match op_pid o with Some p => remove p (s_ppub s) | None => s_ppub s end.
  Proof. unfold Model.release. destruct (op_pid o); cbn; repeat dm; intros H; inversion H; reflexivity. Qed.

  Lemma disconnect_completion_ppub s o : s_ppub (fst (disconnect_completion s o)) = s_ppub s.
  Proof. unfold Model.disconnect_completion. repeat dm; reflexivity. Qed.

  Lemma fail_op_ppub s id e :
    s_ppub (r_s (fail_op s id e)) = s_ppub s \/
    exists o p, lookup id (s_ops s) = Some o /\ op_pid o = Some p /\ s_ppub (r_s (fail_op s id e)) = remove p (s_ppub s).
  Proof.
    unfold Model.fail_op. destruct (lookup id (s_ops s)) as [o|] eqn:El; [|left; reflexivity].
    destruct (release s id o) as [s1| |] eqn:Er; [|left; reflexivity..].
    pose proof (release_ppub _ _ _ _ Er) as Hp. pose proof (disconnect_completion_ppub s1 o) as Hd.
    destruct (disconnect_completion s1 o) as [s2 r0]. cbn [fst] in Hd.
    assert (H : s_ppub s2 = s_ppub s \/ exists o0 p, Some o = Some o0 /\ op_pid o0 = Some p /\ s_ppub s2 = remove p (s_ppub s)).
    { rewrite Hd, Hp. destruct (op_pid o) as [p|] eqn:Ep; [right; exists o, p; auto|left; reflexivity]. }
    repeat dm; cbn [r_s]; exact H.
  Qed.

  Lemma fail_op_ppub_sub s id e x : In x (s_ppub (r_s (fail_op s id e))) -> In x (s_ppub s).
  Proof.
    destruct (fail_op_ppub s id e) as [->|(o & p & _ & _ & ->)]; [exact (fun H => H)|apply in_remove_values].
  Qed.

  Lemma fail_all_ppub_sub ids : forall s e x, In x (s_ppub (r_s (fail_all s ids e))) -> In x (s_ppub s).
  Proof.
    induction ids as [|id r IH]; intros s e x; cbn [Model.fail_all]; [exact (fun H => H)|].
    destruct (is_panic _); [apply fail_op_ppub_sub|].
    destruct (is_panic _); cbn [r_s]; intros H; apply IH in H; eapply fail_op_ppub_sub; exact H.
  Qed.

  (* a packet id of the pending-publish table is held by the operation recorded there only *)
  Definition pid_consistent (s : state) : Prop :=
    forall p id, In (p, id) (s_ppub s) -> forall id' o', lookup id' (s_ops s) = Some o' -> op_pid o' = Some p -> id' = id.

  Lemma fail_op_keeps_ppub s k e : pid_consistent s ->
    pid_consistent (r_s (fail_op s k e)) /\
    forall p id, In (p, id) (s_ppub s) -> id <> k -> In (p, id) (s_ppub (r_s (fail_op s k e))).
  Proof.
    intros Hc. split.
    - intros p id Hin id' o' Hl Hp. apply fail_op_ppub_sub in Hin. apply fail_op_sub in Hl. eapply Hc; eassumption.
    - intros p id Hin Hne. destruct (fail_op_ppub s k e) as [->|(o & p' & Hl & Hp & ->)]; [exact Hin|].
      apply in_remove_neq; [exact Hin|]. intros ->. apply Hne. symmetry. eapply Hc; eassumption.
  Qed.

  Lemma fail_all_keeps_ppub ids : forall s e, pid_consistent s ->
    forall p id, In (p, id) (s_ppub s) -> ~ In id ids -> In (p, id) (s_ppub (r_s (fail_all s ids e))).
  Proof.
    induction ids as [|k r IH]; intros s e Hc p id Hin Hn; cbn [Model.fail_all]; [exact Hin|].
    destruct (fail_op_keeps_ppub s k e Hc) as [Hc1 Hk].
    assert (H1 : In (p, id) (s_ppub (r_s (fail_op s k e)))) by (apply Hk; [exact Hin|intros ->; apply Hn; left; reflexivity]).
    destruct (is_panic _); [exact H1|].
    assert (H2 : In (p, id) (s_ppub (r_s (fail_all (r_s (fail_op s k e)) r e)))).
    { apply IH; [exact Hc1|exact H1|]. intros Hr. apply Hn. right. exact Hr. }
    destruct (is_panic _); cbn [r_s]; exact H2.
  Qed.

  Definition over (limit : N) (s : state) (id : N) : bool :=
    match lookup id (s_ops s) with Some o => limit <? op_intr o | None => false end.

  (* soundness: whatever fail_exceeding completes was pending and is over the limit *)
  Theorem fail_exceeding_sound (s : state) id c :
    In (id, c) (r_done (fail_exceeding s)) ->
    exists limit, cf_retry cfg = Some limit /\ c = CompErr EMaxInterruptedRetriesExceeded /\
      In id (pending_ids s) /\ exists o, lookup id (s_ops s) = Some o /\ op_user o = true /\ limit < op_intr o.
  Proof.
    unfold Model.fail_exceeding, pending_ids. destruct (cf_retry cfg) as [limit|]; [|intros []].
    destruct (negb (forallb (op_exists s) (map snd (s_pnon s)))); [intros []|].
    fold (over limit s).
    set (r1 := fail_all s (filter (over limit s) (map snd (s_pnon s))) EMaxInterruptedRetriesExceeded).
    intros Hin. exists limit. split; [reflexivity|].
    assert (H1 : In (id, c) (r_done r1) -> c = CompErr EMaxInterruptedRetriesExceeded /\
      In id (map snd (s_pnon s) ++ map snd (s_ppub s)) /\ exists o, lookup id (s_ops s) = Some o /\ op_user o = true /\ limit < op_intr o).
    { intros H. destruct (fail_all_sound _ _ _ _ _ H) as (-> & Hi & o & Hl & Hu). apply filter_In in Hi. destruct Hi as [Hi Ho].
      split; [reflexivity|]. split; [apply in_or_app; left; exact Hi|]. exists o. unfold over in Ho. rewrite Hl in Ho.
      repeat split; try assumption. slia. }
    unfold Model.andthen in Hin. destruct (is_panic (r_out r1)); [exact (H1 Hin)|].
    assert (H2 : forall r2, r2 = (if negb (forallb (op_exists (r_s r1)) (map snd (s_ppub (r_s r1)))) then Model.mkRes (r_s r1) [] (Panic 978)
                   else fail_all (r_s r1) (filter (fun id => match lookup id (s_ops (r_s r1)) with Some o => limit <? op_intr o | None => false end)
                          (map snd (s_ppub (r_s r1)))) EMaxInterruptedRetriesExceeded) ->
              In (id, c) (r_done r2) -> c = CompErr EMaxInterruptedRetriesExceeded /\
      In id (map snd (s_pnon s) ++ map snd (s_ppub s)) /\ exists o, lookup id (s_ops s) = Some o /\ op_user o = true /\ limit < op_intr o).
    { intros r2 -> H. destruct (negb _); [destruct H|].
      destruct (fail_all_sound _ _ _ _ _ H) as (-> & Hi & o & Hl & Hu). apply filter_In in Hi. destruct Hi as [Hi Ho].
      split; [reflexivity|]. split.
      - apply in_or_app. right. apply in_map_iff in Hi. destruct Hi as (x & Hx & Hi). apply in_map_iff. exists x. split; [exact Hx|].
        unfold r1 in Hi. eapply fail_all_ppub_sub. exact Hi.
      - exists o. rewrite Hl in Ho. repeat split; [unfold r1 in Hl; eapply fail_all_sub; exact Hl|exact Hu|slia]. }
    destruct (is_panic _); cbn [r_done] in Hin; apply in_app_or in Hin; destruct Hin as [Hin|Hin]; try (exact (H1 Hin)); eapply H2; try reflexivity; exact Hin.
  Qed.

  (* completeness: without a panic, every pending user operation over the limit is failed *)
  Theorem fail_exceeding_complete (s : state) limit id o :
    cf_retry cfg = Some limit -> is_panic (r_out (fail_exceeding s)) = false -> pid_consistent s ->
    In id (pending_ids s) -> lookup id (s_ops s) = Some o -> completes o = true -> limit < op_intr o ->
    In (id, CompErr EMaxInterruptedRetriesExceeded) (r_done (fail_exceeding s)).
  Proof.
    unfold Model.fail_exceeding, pending_ids. intros -> Hp Hc Hin Hl Hco Hlt.
    destruct (negb (forallb (op_exists s) (map snd (s_pnon s)))); [discriminate|].
    fold (over limit s) in *.
    set (ids1 := filter (over limit s) (map snd (s_pnon s))) in *.
    set (r1 := fail_all s ids1 EMaxInterruptedRetriesExceeded) in *.
    unfold Model.andthen in *. destruct (is_panic (r_out r1)) eqn:Hp1; [congruence|].
    destruct (fail_all_exact ids1 s EMaxInterruptedRetriesExceeded Hp1) as [Hl1 Hd1]. fold r1 in Hl1, Hd1.
    assert (Hover : over limit s id = true) by (unfold over; rewrite Hl; slia).
    destruct (in_dec N.eq_dec id ids1) as [Hi1|Hn1].
    { (* failed in the first phase *)
      assert (In (id, CompErr EMaxInterruptedRetriesExceeded) (r_done r1)).
      { apply Hd1. split; [reflexivity|]. split; [exact Hi1|]. exists o. split; assumption. }
      match goal with |- context [if is_panic ?x then _ else _] => destruct (is_panic x) end; cbn [r_done]; apply in_or_app; left; assumption. }
    apply in_app_or in Hin. destruct Hin as [Hin|Hin]; [exfalso; apply Hn1; apply filter_In; split; assumption|].
    apply in_map_iff in Hin. destruct Hin as ([p id'] & Heq & Hin). cbn [snd] in Heq. subst id'.
    assert (Hin1 : In (p, id) (s_ppub (r_s r1))) by (apply fail_all_keeps_ppub; assumption).
    assert (Hl1' : lookup id (s_ops (r_s r1)) = Some o).
    { rewrite Hl1. destruct (mem id ids1) eqn:Em; [exfalso; apply Hn1; apply mem_In; exact Em|exact Hl]. }
    revert Hp. destruct (negb (forallb (op_exists (r_s r1)) (map snd (s_ppub (r_s r1))))); [cbn; discriminate|].
    match goal with |- context [fail_all (r_s r1) ?l ?e] => set (ids2 := l) end.
    destruct (is_panic (r_out (fail_all (r_s r1) ids2 EMaxInterruptedRetriesExceeded))) eqn:Hp2; cbn [r_out r_done]; [intros H; rewrite H in Hp2; discriminate|].
    intros _. apply in_or_app. right.
    apply (fail_all_exact ids2 (r_s r1) EMaxInterruptedRetriesExceeded Hp2). split; [reflexivity|]. split; [|exists o; split; assumption].
    unfold ids2. apply filter_In. split; [apply in_map_iff; exists (p, id); split; [reflexivity|exact Hin1]|].
    rewrite Hl1'. slia.
  Qed.

  (* together: a pending user operation is failed with MaxInterruptedRetriesExceeded iff its count exceeds the limit *)
  Corollary retry_limit_iff (s : state) limit id o :
    cf_retry cfg = Some limit -> is_panic (r_out (fail_exceeding s)) = false -> pid_consistent s ->
    In id (pending_ids s) -> lookup id (s_ops s) = Some o -> completes o = true ->
    (In (id, CompErr EMaxInterruptedRetriesExceeded) (r_done (fail_exceeding s)) <-> limit < op_intr o).
  Proof.
    intros Hr Hp Hc Hin Hl Hco. split.
    - intros H. destruct (fail_exceeding_sound s id _ H) as (limit' & Hr' & _ & _ & o' & Hl' & _ & Hlt).
      assert (limit' = limit) by congruence. assert (o' = o) by congruence. subst. exact Hlt.
    - intros Hlt. eapply fail_exceeding_complete; eassumption.
  Qed.

  (* without a limit nothing is counted and nothing is failed *)
  Theorem no_retry_limit (s : state) : cf_retry cfg = None -> update_retries s = Ok s /\ fail_exceeding s = pure s.
  Proof. intros H. unfold Model.update_retries, Model.fail_exceeding. rewrite H. split; reflexivity. Qed.

End Engine.
