(* C17, engine level, for the CONCRETE engine of Engine/Instance.v (the functions the correspondence check
   executes): the run-level theorems of AliasRun.v / AliasRunPcc.v with the component hypotheses discharged
   by WFInstance.instance_comps_ok, combined with the resolver-level theorems of AliasProofs/*.v. *)
From GM Require Import Base.Prelude Base.Outcome Codec.Packets Codec.Settings Codec.Steps Codec.ImplEncode Codec.ImplDecode
  Codec.Framing Alias.Outbound Alias.Inbound AliasProofs.OutboundP AliasProofs.InboundP Validate.Rules Engine.Model Engine.Instance
  EngineProofs.WFDefs EngineProofs.WFInstance EngineProofs.AliasRunFrames EngineProofs.AliasRunLog EngineProofs.AliasRunOut
  EngineProofs.AliasRunIn EngineProofs.AliasRun EngineProofs.AliasRunPcc EngineProofs.AliasRunWire EngineProofs.AliasRunGrammar.
Open Scope N_scope.

Definition i_olog (cfg : config) : istate -> list event -> list oev :=
  run_olog enc impl_steps encode_call enc_done decoder decoder_init decode_bytes ores ores_reset ores_resolve ires ires_reset ires_resolve
    validate_outbound_internal validate_inbound_internal cfg.
Definition i_ilog (cfg : config) : istate -> list event -> list iev :=
  run_ilog enc impl_steps encode_call enc_done decoder decoder_init decode_bytes ores ores_reset ores_resolve ires ires_reset ires_resolve
    validate_outbound_internal validate_inbound_internal cfg.
Definition i_step_ilog (cfg : config) : istate -> event -> list iev :=
  step_ilog enc decoder decode_bytes ores ores_reset ires ires_reset ires_resolve validate_inbound_internal cfg.

Notation irunsI := (iruns ires ires_reset ires_resolve).
Notation mkGiI := (mkGi ires).

(* the LRU resolver is configured with a u16 *)
Definition kind_ok (k : resolver_kind) : Prop := match k with RLru m => m <= 65535 | _ => True end.

Lemma kind_run_check k ops : kind_ok k -> run_check (ores_init k) [] 0 ops = true.
Proof. destruct k as [| |m]; intros H; [apply null_inv|apply manual_run|apply lru_run; exact H]. Qed.

(* the inbound log as a history of the inbound resolver (AliasProofs/InboundP.v) *)
Definition iops_ev (e : iev) : list iop :=
  match e with
  | IConnack => [IReset]
  | AliasRunLog.IResolve pb _ => [InboundP.IResolve (pub_alias pb) (pub_topic pb)]
  | ISurface _ => []
  end.
Definition iops (l : list iev) : list iop := flat_map iops_ev l.

Lemma iops_app a b : iops (a ++ b) = iops a ++ iops b.
Proof. unfold iops. apply flat_map_app. Qed.

Lemma ireplay_irun l : forall i, ireplay ires ires_reset ires_resolve i l = irun i (iops l).
Proof.
  induction l as [|e l IH]; intros i; [reflexivity|]. cbn [ireplay fold_left]. fold (ireplay ires ires_reset ires_resolve (ireplay_step ires ires_reset ires_resolve i e) l).
  rewrite IH. destruct e; reflexivity.
Qed.

(* the last thing the inbound machine did when it holds a resolved publish *)
Lemma iruns_last l : forall g g' pb t, irunsI g l g' -> gi_last ires g = None -> gi_last ires g' = Some (pb, t) ->
  exists l0, l = l0 ++ [AliasRunLog.IResolve pb (Ok t)].
Proof.
  induction l as [|e l IH] using rev_ind; intros g g' pb t H Hn Hs; [cbn in H; subst; congruence|].
  apply iruns_app_inv in H. destruct H as (g1 & H1 & H2). cbn in H2. destruct H2 as (g2 & S & ->).
  destruct e as [|pb0 res|pb0]; cbn in S.
  - subst g2. discriminate.
  - destruct S as [-> ->]. destruct (ires_resolve (gi_res ires g1) (pub_alias pb0) (pub_topic pb0)) as [[i' t0]|k|site]; cbn in Hs; [|discriminate..].
    inversion Hs; subst. exists l. reflexivity.
  - destruct S as (pb1 & t1 & _ & _ & ->). discriminate.
Qed.

(* a 3.1.1 CONNACK carries no Topic Alias Maximum: the decoded packet has none *)
Lemma connack311_no_tam fb body c : decode_connack_packet311 fb body = Ok (Connack c) -> ca_tam c = None.
Proof.
  unfold decode_connack_packet311. destruct (negb (fb =? 32)); [discriminate|]. destruct (negb (len body =? 2)); [discriminate|].
  destruct (index0 52 body) as [flags| |]; cbn [obind]; [|discriminate..].
  destruct (slice_from 53 1 body) as [b1| |]; cbn [obind]; [|discriminate..].
  destruct (negb (flags =? 1) && negb (flags =? 0)); [discriminate|].
  destruct (decode_u8_as_enum b1 conv_connack311) as [[rc b2]| |]; cbn [obind]; [|discriminate..].
  intros H. inversion H. reflexivity.
Qed.

Section Instance.
  Variable cfg : config.
  Hypothesis Hcfg : ok_cfg cfg.
  Variable k : resolver_kind.
  Hypothesis Hk : kind_ok k.
  Variable h : list event.
  Hypothesis Hh : Forall ok_event h.

  Let o0 := ores_init k.
  Let imax := match co_tam (cf_connect cfg) with Some m => m | None => 0 end.
  Let i0 := ires_init imax.
  Let s := fst (i_run cfg (i_init cfg k) h).
  Let L := i_olog cfg (i_init cfg k) h.
  Let LI := i_ilog cfg (i_init cfg k) h.

  (* A on the instance: the outbound log is accepted by the reference machine; the engine's resolver is
     the replay of the logged calls; the current operation and the negotiated maximum are the machine's *)
  Theorem instance_outbound_alias_run :
    exists g', grunsO (mkG ores o0 PIdle 0) L g' /\
               s_ores s = g_ores ores g' /\ s_ores s = replay ores ores_reset ores_resolve o0 L /\
               g_ph ores g' = (match s_cur s with None => PIdle | Some id => PBusy id end) /\
               g_cm ores g' = cmax 0 L /\ tam_ok (s_settings s) (cmax 0 L).
  Proof.
    exact (outbound_alias_run enc impl_steps encode_call enc_done decoder decoder_init decode_bytes ores ores_reset ores_resolve
             ires ires_reset ires_resolve validate_outbound_internal validate_inbound_internal cfg instance_comps_ok Hcfg o0 i0 h I I Hh).
  Qed.

  Theorem instance_publish_only_on_live_connection : pcc false L.
  Proof.
    exact (publish_only_on_live_connection enc impl_steps encode_call enc_done decoder decoder_init decode_bytes ores ores_reset ores_resolve
             ires ires_reset ires_resolve validate_outbound_internal validate_inbound_internal cfg instance_comps_ok Hcfg o0 i0 h I I Hh).
  Qed.

  (* B: every PUBLISH handed to the encoder carries a resolution that is safe for a server that cleared its
     table at the last accepted CONNACK and saw exactly the PUBLISH packets handed to the encoder since *)
  Theorem instance_wire_ok : wire_ok ([], 0) L.
  Proof.
    destruct instance_outbound_alias_run as (g' & G & _).
    eapply (wire_sim L (mkG ores o0 PIdle 0) g' [] 0 ([], 0) false); [exact G|apply kind_run_check; exact Hk|exact instance_publish_only_on_live_connection|].
    intros H. discriminate.
  Qed.

  Theorem instance_alias_on_wire :
    forall l1 id pb r l2, L = l1 ++ OEncode id (Publish pb) r true :: l2 ->
      match r_alias r with
      | None => r_skip_topic r = false
      | Some a =>
          1 <= a <= cmax 0 l1 /\
          (r_skip_topic r = true ->
           exists la id' pb' r' lb, l1 = la ++ OEncode id' (Publish pb') r' true :: lb /\
                                    r_alias r' = Some a /\ r_skip_topic r' = false /\ pub_topic pb' = pub_topic pb /\ quiet a lb)
      end.
  Proof. exact (wire_explicit L instance_wire_ok). Qed.

  Theorem instance_no_alias_when_max_zero :
    forall l1 id pb r l2, L = l1 ++ OEncode id (Publish pb) r true :: l2 -> cmax 0 l1 = 0 ->
      r_alias r = None /\ r_skip_topic r = false.
  Proof. exact (wire_no_alias_when_zero L instance_wire_ok). Qed.

  (* C on the instance: the inbound log is accepted by the inbound machine, the resolver is the replay of
     the logged calls = the resolver-level history of AliasProofs/InboundP.v, and the PUBLISH events
     handed to the application are exactly the logged surfacings *)
  Theorem instance_inbound_alias_run :
    exists gi', irunsI (mkGiI i0 None) LI gi' /\ s_ires s = gi_res ires gi' /\ s_ires s = irun i0 (iops LI) /\
                run_publishes (snd (i_run cfg (i_init cfg k) h)) = surfaced LI.
  Proof.
    destruct (inbound_alias_run enc impl_steps encode_call enc_done decoder decoder_init decode_bytes ores ores_reset ores_resolve
                ires ires_reset ires_resolve validate_outbound_internal validate_inbound_internal cfg instance_comps_ok Hcfg o0 i0 h I I Hh)
      as (gi' & A1 & A2 & A3 & A4).
    exists gi'. split; [exact A1|]. split; [exact A2|]. split; [|exact A4]. exact (eq_trans A3 (ireplay_irun _ _)).
  Qed.

  (* what every call to the inbound resolver returned: the answer of AliasProofs/InboundP.inbound_resolve on the
     bindings made since the last accepted CONNACK ([latest]) *)
  Theorem instance_inbound_resolution :
    forall l1 pb res l2, LI = l1 ++ AliasRunLog.IResolve pb res :: l2 ->
      match pub_alias pb with
      | None => res = Ok (pub_topic pb)
      | Some a =>
          match pub_topic pb with
          | [] => match latest imax (iops l1) a with
                  | Some t => res = Ok t
                  | None => res = Err EInvalidInboundTopicAlias
                  end
          | _ => if (1 <=? a) && (a <=? imax) then res = Ok (pub_topic pb) else res = Err EInvalidInboundTopicAlias
          end
      end.
  Proof.
    intros l1 pb res l2 E. destruct instance_inbound_alias_run as (gi' & A1 & _).
    rewrite E in A1. apply iruns_app_inv in A1. destruct A1 as (g1 & R1 & R2). cbn in R2. destruct R2 as (g2 & (Hres & _) & _).
    pose proof (iruns_replay _ _ _ _ _ _ R1) as Eg. cbn in Eg. rewrite ireplay_irun in Eg. rewrite Eg in Hres.
    pose proof (inbound_resolve imax (iops l1) (pub_alias pb) (pub_topic pb)) as HR. cbv zeta in HR. fold i0 in HR.
    destruct (pub_alias pb) as [a|]; [|rewrite HR in Hres; exact Hres].
    destruct (pub_topic pb) as [|b tp].
    - destruct (latest imax (iops l1) a); rewrite HR in Hres; exact Hres.
    - destruct ((1 <=? a) && (a <=? imax)); [destruct HR as (s' & HR)|]; rewrite HR in Hres; exact Hres.
  Qed.

  (* a PUBLISH is surfaced only right after its resolver call succeeded, with the topic that call returned *)
  Theorem instance_surfaced_topic :
    forall l1 pb' l2, LI = l1 ++ ISurface pb' :: l2 ->
      exists l0 pb t, l1 = l0 ++ [AliasRunLog.IResolve pb (Ok t)] /\ pb' = with_topic pb t.
  Proof.
    intros l1 pb' l2 E. destruct instance_inbound_alias_run as (gi' & A1 & _).
    rewrite E in A1. apply iruns_app_inv in A1. destruct A1 as (g1 & R1 & R2). cbn in R2. destruct R2 as (g2 & (pb & t & Hl & -> & _) & _).
    destruct (iruns_last l1 _ _ pb t R1 eq_refl Hl) as (l0 & ->). exists l0, pb, t. auto.
  Qed.
End Instance.

(* a failing inbound resolver call fails the data call with that error, halts the engine, and is the last
   event of the step's log: nothing is surfaced for that packet (every state of the concrete engine) *)
Theorem instance_inbound_error_fails (cfg : config) (s : istate) now data pb k :
  In (AliasRunLog.IResolve pb (Err k)) (i_step_ilog cfg s (EvData now data)) ->
  o_res (snd (i_step cfg s (EvData now data))) = Err k /\ s_st (fst (i_step cfg s (EvData now data))) = Halted /\
  err_last (i_step_ilog cfg s (EvData now data)).
Proof.
  exact (inbound_error_fails enc impl_steps encode_call enc_done decoder decoder_init decode_bytes ores ores_reset ores_resolve
           ires ires_reset ires_resolve validate_outbound_internal validate_inbound_internal cfg s now data pb k).
Qed.

(* the log grammar spelled out for the concrete engine (EngineProofs/AliasRunGrammar.v) *)
Section InstanceGrammar.
  Variable cfg : config.
  Hypothesis Hcfg : ok_cfg cfg.
  Variable k : resolver_kind.
  Variable h : list event.
  Hypothesis Hh : Forall ok_event h.
  Let L := i_olog cfg (i_init cfg k) h.

  Lemma instance_accepted : exists g', grunsO (mkG ores (ores_init k) PIdle 0) L g'.
  Proof.
    destruct (outbound_alias_run enc impl_steps encode_call enc_done decoder decoder_init decode_bytes ores ores_reset ores_resolve
             ires ires_reset ires_resolve validate_outbound_internal validate_inbound_internal cfg instance_comps_ok Hcfg (ores_init k)
             (ires_init (match co_tam (cf_connect cfg) with Some m => m | None => 0 end)) h I I Hh) as (g' & G & _).
    exists g'. exact G.
  Qed.

  Theorem instance_encode_after_validation :
    forall l1 id p r ok l2, L = l1 ++ OEncode id p r ok :: l2 ->
      (exists pb l0, p = Publish pb /\
         l1 = l0 ++ [OPick id; OResolve id (pub_alias pb) (pub_topic pb) (Ok r); OValid id p r (Ok tt)]) \/
      ((forall pb, p <> Publish pb) /\ r = no_resolution /\ exists l0, l1 = l0 ++ [OPick id; OValid id p r (Ok tt)]).
  Proof. destruct instance_accepted as (g' & G). exact (encode_after_validation _ _ _ _ _ _ G (or_introl eq_refl)). Qed.

  Theorem instance_resolve_after_pick :
    forall l1 id a t res l2, L = l1 ++ OResolve id a t res :: l2 ->
      (exists l0, l1 = l0 ++ [OPick id]) /\ res = res_of (ores_resolve (replay ores ores_reset ores_resolve (ores_init k) l1) a t).
  Proof. destruct instance_accepted as (g' & G). exact (resolve_after_pick _ _ _ _ _ _ G (or_introl eq_refl)). Qed.

  Theorem instance_reset_after_rejection :
    forall l1 m l2, L = l1 ++ OReset m :: l2 ->
      exists l0 id p r e, l1 = l0 ++ [OValid id p r (Err e)] /\ r_alias r <> None /\ (m = cmax 0 l1 \/ m = 0) /\
                          exists l3, l2 = ORejected id e :: l3 \/ l2 = [].
  Proof. destruct instance_accepted as (g' & G). exact (reset_after_rejection _ _ _ _ _ _ G (or_introl eq_refl)). Qed.

  Theorem instance_rejection_shape :
    forall l1 id e l2, L = l1 ++ ORejected id e :: l2 ->
      (exists l0 p r, l1 = l0 ++ [OValid id p r (Err e)] /\ r_alias r = None) \/
      (exists l0 p r m, l1 = l0 ++ [OValid id p r (Err e); OReset m] /\ r_alias r <> None).
  Proof. destruct instance_accepted as (g' & G). exact (rejection_shape _ _ _ _ _ _ G (or_introl eq_refl)). Qed.

  Theorem instance_pick_only_when_slot_free :
    forall l1 id l2, L = l1 ++ OPick id :: l2 -> slot None l1 = None.
  Proof. destruct instance_accepted as (g' & G). exact (pick_only_when_slot_free _ _ _ _ _ _ G). Qed.
End InstanceGrammar.

(* a PUBLISH is surfaced only when the engine was past the handshake before the data call, or accepted the
   CONNACK (which reset the inbound resolver) earlier in the same call: bindings made on an earlier
   connection are never used (every state of the concrete engine; that the engine waits for the CONNACK
   from the opening of a connection until a CONNACK is accepted is C07) *)
Theorem instance_surface_needs_connack (cfg : config) (s : istate) now data pb :
  In (ISurface pb) (i_step_ilog cfg s (EvData now data)) ->
  s_st s = Connected \/ s_st s = PendingDisconnect \/
  (s_st s = PendingConnack /\
   exists l1 l2, i_step_ilog cfg s (EvData now data) = l1 ++ IConnack :: l2 /\ In (ISurface pb) l2).
Proof.
  exact (surface_needs_connack enc decoder decode_bytes ores ores_reset ires ires_reset ires_resolve validate_inbound_internal cfg s now data pb).
Qed.
