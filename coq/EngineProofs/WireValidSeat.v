(* C02 at run level: the service call.  Every encoder the service loop constructs ([OEncode] in the log of
   AliasRunLog.v) is constructed for the seated packet of a good operation, right after the send-time validator
   accepted exactly this packet with exactly this resolution, and the resolution is one a resolver can return
   ([evgood]); the invariant GI is a loop invariant of the service loop. *)
From GM Require Import Base.Prelude Base.Outcome Codec.Packets Codec.Prim Codec.Settings Codec.ValidC2S.
From GM Require Import ValidateProofs.BridgeDefs ValidateProofs.BridgeConnect.
From GM Require Import Engine.Model EngineProofs.AssocLemmas EngineProofs.WFLemmas EngineProofs.Frames EngineProofs.HandshakeRunTrace
  EngineProofs.HandshakeRunFrame EngineProofs.AliasRunLog EngineProofs.WireValidDefs EngineProofs.WireValidFrame.
From RecordUpdate Require Import RecordSet.
Import RecordSetNotations.
Open Scope N_scope.

(* the four component types are implicit in the engine functions, locally to this file *)
#[local] Arguments init {enc dec} _ {ores ires} _ _.
#[local] Arguments release {enc dec ores ires} _ _ _ _.
#[local] Arguments disconnect_completion {enc dec ores ires} _ _.
#[local] Arguments fail_op {enc dec ores ires} _ _ _ _.
#[local] Arguments ping_extension {enc dec ores ires} _ _.
#[local] Arguments succeed_op {enc dec ores ires} _ _ _ _.
#[local] Arguments fail_all {enc dec ores ires} _ _ _ _.
#[local] Arguments succeed_all {enc dec ores ires} _ _ _.
#[local] Arguments andthen {enc dec ores ires} _ _.
#[local] Arguments try_ {enc dec ores ires} _ _.
#[local] Arguments pure {enc dec ores ires} _.
#[local] Arguments create_operation {enc dec ores ires} _ _.
#[local] Arguments passes_now {enc dec ores ires} _ _ _.
#[local] Arguments user_event {enc dec ores ires} _ _ _ _.
#[local] Arguments create_connect {enc dec ores ires} _ _.
#[local] Arguments net_opened {enc dec} _ {ores ires} _ _ _.
#[local] Arguments op_exists {enc dec ores ires} _ _.
#[local] Arguments op_passes {enc dec ores ires} _ _ _.
#[local] Arguments partition_policy {enc dec ores ires} _ _ _.
#[local] Arguments closed_current {enc dec ores ires} _ _.
#[local] Arguments slow_start_init {enc dec ores ires} _ _.
#[local] Arguments update_retries {enc dec ores ires} _ _.
#[local] Arguments fail_exceeding {enc dec ores ires} _ _.
#[local] Arguments has_pubrel {enc dec ores ires} _ _.
#[local] Arguments net_closed_raw {enc dec ores ires} _ _.
#[local] Arguments net_closed {enc dec ores ires} _ _.
#[local] Arguments net_write_completion {enc dec ores ires} _ _.
#[local] Arguments acquire_free_pid {enc dec ores ires} _ _.
#[local] Arguments acquire_pid_for {enc dec ores ires} _ _.
#[local] Arguments unbind {enc dec ores ires} _ _.
#[local] Arguments passes_receive_max {enc dec ores ires} _ _.
#[local] Arguments throttled {enc dec ores ires} _ _.
#[local] Arguments has_pending_ack {enc dec ores ires} _.
#[local] Arguments dequeue {enc dec ores ires} _ _ _.
#[local] Arguments fully_written {enc dec ores ires} _ _.
#[local] Arguments service_keep_alive {enc dec ores ires} _ _ _.
#[local] Arguments process_ack_timeouts {enc dec ores ires} _ _ _.
#[local] Arguments halt_on_error {enc dec ores ires} _ _.
#[local] Arguments next_service_time {enc dec ores ires} _ _ _.
#[local] Arguments build_settings {enc dec ores ires} _ _ _.
#[local] Arguments apply_session {enc dec ores ires} _ _ _.
#[local] Arguments hres_of {enc dec ores ires} _ _.
#[local] Arguments pre_connack {enc dec ores ires} _.
#[local] Arguments sum_ss {enc dec ores ires} _.
#[local] Arguments handle_pingresp {enc dec ores ires} _.
#[local] Arguments handle_suback {enc dec ores ires} _ _ _.
#[local] Arguments handle_unsuback {enc dec ores ires} _ _ _.
#[local] Arguments publish_qos_of {enc dec ores ires} _ _.
#[local] Arguments handle_puback {enc dec ores ires} _ _ _.
#[local] Arguments handle_pubrec {enc dec ores ires} _ _ _.
#[local] Arguments handle_pubrel {enc dec ores ires} _ _.
#[local] Arguments handle_pubcomp {enc dec ores ires} _ _ _.
#[local] Arguments handle_publish {enc dec ores ires} _ _.
#[local] Arguments handle_disconnect {enc dec ores ires} _ _ _.
#[local] Arguments is_connect_op {enc dec ores ires} _ _.
#[local] Arguments connect_in_queue {enc dec ores ires} _.
#[local] Arguments reset {enc dec ores ires} _ _.
#[local] Arguments out_of_res {enc dec ores ires} _ _.
#[local] Arguments nst_queue {enc dec ores ires} _ _ _ _.
#[local] Arguments earliest_tmo {enc dec ores ires} _.
#[local] Arguments SeatStop {enc dec ores ires} _.
#[local] Arguments SeatContinue {enc dec ores ires} _ _.
#[local] Arguments SeatEncode {enc dec ores ires} _.

Section WVSeat.
  Variable enc : Type.
  Variable enc_reset : version -> packet -> resolution -> outcome enc.
  Variable enc_call : enc -> N -> N -> outcome (bytes * enc).
  Variable enc_done : enc -> bool.
  Variable dec : Type.
  Variable dec_init : dec.
  Variable dec_feed : version -> N -> dec -> bytes -> dec * list packet * outcome unit.
  Variable ores : Type.
  Variable ores_reset : ores -> N -> ores.
  Variable ores_resolve : ores -> option N -> bytes -> outcome (ores * resolution).
  Variable ires : Type.
  Variable ires_reset : ires -> ires.
  Variable ires_resolve : ires -> option N -> bytes -> outcome (ires * bytes).
  Variable v_out : option settings -> connect_opts -> resolution -> packet -> outcome unit.
  Variable v_in : option settings -> packet -> outcome unit.
  Variable cfg : config.

  Notation state := (state enc dec ores ires).
  Notation res := (res enc dec ores ires).
  Notation step := (step enc enc_reset enc_call enc_done dec dec_init dec_feed ores ores_reset ores_resolve
                         ires ires_reset ires_resolve v_out v_in cfg).
  Notation run := (run enc enc_reset enc_call enc_done dec dec_init dec_feed ores ores_reset ores_resolve
                       ires ires_reset ires_resolve v_out v_in cfg).
  Notation seat_current := (seat_current enc enc_reset dec ores ores_reset ores_resolve ires v_out cfg).
  Notation service_loop := (service_loop enc enc_reset enc_call enc_done dec ores ores_reset ores_resolve ires v_out cfg).
  Notation service_queue := (service_queue enc enc_reset enc_call enc_done dec ores ores_reset ores_resolve ires v_out cfg).
  Notation service := (service enc enc_reset enc_call enc_done dec ores ores_reset ores_resolve ires v_out cfg).
  Notation handle_connack := (handle_connack enc dec ores ores_reset ires ires_reset v_in cfg).
  Notation handle_packet := (handle_packet enc dec ores ores_reset ires ires_reset v_in cfg).
  Notation handle_packets := (handle_packets enc dec ores ores_reset ires ires_reset ires_resolve v_in cfg).
  Notation net_data := (net_data enc dec dec_feed ores ores_reset ires ires_reset ires_resolve v_in cfg).
  Notation encode_next := (encode_next enc enc_call enc_done dec ores ires).
  Notation SUB := (SUB enc dec ores ires).
  Notation same_static := (same_static enc dec ores ires).
  Notation v := (cf_version cfg).
  Variable HW : wv_comps dec ores dec_init dec_feed ores_reset ores_resolve v_in v (cf_connect cfg).

  Notation GI := (GI enc dec dec_init dec_feed ores ores_reset ores_resolve ires v_in cfg HW).
  Notation FR := (FR enc dec dec_init dec_feed ores ores_reset ores_resolve ires v_in cfg HW).
  Notation SI := (SI enc dec ores ires cfg).
  Notation seat_current_a := (seat_current_a enc enc_reset dec ores ores_reset ores_resolve ires v_out cfg).
  Notation service_loop_a := (service_loop_a enc enc_reset enc_call enc_done dec ores ores_reset ores_resolve ires v_out cfg).
  Notation service_log := (service_log enc enc_reset enc_call enc_done dec ores ores_reset ores_resolve ires v_out cfg).
  Notation service_queue_log := (service_queue_log enc enc_reset enc_call enc_done dec ores ores_reset ores_resolve ires v_out cfg).
  Notation seat_state := (seat_state enc dec ores ires).

  (* what is known of a packet when the encoder is constructed for it: the send-time validator accepted this packet
     with this resolution, it is the seated packet of a good operation, the resolution is a resolver's *)
  Definition evgood (e : oev) : Prop :=
    match e with
    | OEncode _ p r _ => (exists sto, v_out sto (cf_connect cfg) r p = Ok tt) /\ gseat v p /\ res_le (Bv v) r
    | _ => True
    end.

  Lemma GI_rest (s s' : state) : s_ops s' = s_ops s -> rest_of enc dec ores ires s' = rest_of enc dec ores ires s -> GI s -> GI s'.
  Proof. intros A B0. exact (FR_same enc dec dec_init dec_feed ores ores_reset ores_resolve ires v_in cfg HW s s' A B0). Qed.

  Lemma dequeue_core (s : state) m :
    s_ops (fst (dequeue cfg s m)) = s_ops s /\ rest_of enc dec ores ires (fst (dequeue cfg s m)) = rest_of enc dec ores ires s.
  Proof.
    unfold dequeue. repeat match goal with |- context [if ?b then _ else _] => destruct b; cbn end;
      repeat match goal with |- context [match ?l with [] => _ | _ :: _ => _ end] => destruct l; cbn end;
      repeat match goal with |- context [if ?b then _ else _] => destruct b; cbn end; split; reflexivity.
  Qed.

  Lemma seat_current_a_good (s : state) m acc dn :
    GI s -> GI (seat_state (fst (seat_current_a s m acc dn))) /\ Forall evgood (snd (seat_current_a s m acc dn)).
  Proof.
    intros G. unfold AliasRunLog.seat_current_a. destruct (s_cur s); [split; [exact G|constructor]|].
    destruct (dequeue_core s m) as [Hd1 Hd2].
    destruct (dequeue cfg s m) as [s1 next]. cbn [fst] in Hd1, Hd2.
    assert (G1 : GI s1) by (eapply GI_rest; eassumption).
    destruct next as [id|]; [|split; [exact G1|constructor]].
    set (s2 := s1 <| s_cur := Some id |>).
    assert (G2 : GI s2) by (apply (GI_rest s1 s2); [reflexivity|reflexivity|exact G1]).
    destruct (negb (op_exists s2 id)).
    { split; [apply (GI_rest s2); [reflexivity|reflexivity|exact G2]|repeat constructor]. }
    destruct (acquire_pid_for s2 id) as [s3|k|site] eqn:Ea; [|split; [exact G2|repeat constructor]|split; [exact G2|repeat constructor]].
    assert (G3 : GI s3) by (exact (acquire_pid_for_FR enc enc_reset enc_call dec dec_init dec_feed ores ores_reset ores_resolve ires v_in cfg HW _ _ _ Ea G2)).
    destruct (lookup id (s_ops s3)) as [o|] eqn:Eo; [|split; [exact G3|repeat constructor]].
    set (packet := match op_pubrel o with Some pr => pr | None => op_packet o end).
    assert (Hseat : gseat v packet) by (apply goodop_seat; destruct G3 as (G3 & _); exact (G3 _ _ Eo)).
    set (lr := match packet with
               | Publish pb => [OResolve id (pub_alias pb) (pub_topic pb) (AliasRunLog.res_of (ores_resolve (s_ores s3) (pub_alias pb) (pub_topic pb)))]
               | _ => [] end).
    assert (Hlr : Forall evgood lr) by (unfold lr; destruct packet; repeat constructor). clearbody lr.
    assert (Hres : forall x : outcome (state * resolution),
              x = match packet with
                  | Publish pb => do (o', r) <- ores_resolve (s_ores s3) (pub_alias pb) (pub_topic pb) ; Ok (s3 <| s_ores := o' |>, r)
                  | _ => Ok (s3, no_resolution) end ->
              match x with Ok (s4, r) => GI s4 /\ res_le (Bv v) r | _ => True end).
    { intros x ->. destruct packet; try (split; [exact G3|apply res_le_none]).
      destruct (ores_resolve _ _ _) as [[o' r]| |] eqn:Er; cbn; try exact I.
      destruct G3 as (A1 & A2 & A3 & A4 & A5). destruct (wv_res HW _ _ _ _ _ A5 Er) as [B1 B2].
      split; [|exact B2]. split; [exact A1|split; [exact A2|split; [exact A3|split; [exact A4|exact B1]]]]. }
    specialize (Hres _ eq_refl).
    destruct (match packet with Publish pb => _ | _ => _ end) as [[s4 r]|k|site];
      [|split; [exact G3|constructor; [exact I|exact Hlr]]|split; [exact G3|constructor; [exact I|exact Hlr]]].
    destruct Hres as [G4 Hr].
    destruct (v_out (s_settings s4) (cf_connect cfg) r packet) as [u|k|site] eqn:Ev.
    - assert (Hev : evgood (OEncode id packet r true) /\ evgood (OEncode id packet r false)).
      { destruct u. split; (split; [exists (s_settings s4); exact Ev|split; assumption]). }
      destruct Hev as [He1 He2].
      destruct (enc_reset (cf_version cfg) packet r); cbn [fst snd seat_state sr_s].
      + split; [apply (GI_rest s4); [reflexivity|reflexivity|exact G4]|].
        constructor; [exact I|]. apply Forall_app. split; [exact Hlr|constructor; [exact I|constructor; [exact He1|constructor]]].
      + split; [exact G4|]. constructor; [exact I|]. apply Forall_app. split; [exact Hlr|constructor; [exact I|constructor; [exact He2|constructor]]].
      + split; [exact G4|]. constructor; [exact I|]. apply Forall_app. split; [exact Hlr|constructor; [exact I|constructor; [exact He2|constructor]]].
    - cbv zeta.
      set (mx := match s_settings s4 with Some st => st_topic_alias_maximum_to_server st | None => 0 end).
      set (s4' := match r_alias r with Some _ => s4 <| s_ores := ores_reset (s_ores s4) mx |> | None => s4 end).
      assert (Hmx : mx <= Bv v).
      { unfold mx. destruct G4 as (_ & _ & A3 & _). destruct (s_settings s4) as [st|] eqn:Es; [apply (A3 st Es)|lia]. }
      assert (G4' : GI s4').
      { unfold s4'. destruct (r_alias r); [|exact G4]. destruct G4 as (A1 & A2 & A3 & A4 & A5).
        split; [exact A1|split; [exact A2|split; [exact A3|split; [exact A4|apply (wv_reset HW); exact Hmx]]]]. }
      set (rf := fail_op cfg (s4' <| s_cur := None |>) id k).
      assert (Gf : GI (r_s rf)).
      { apply (fail_op_FR enc dec dec_init dec_feed ores ores_reset ores_resolve ires v_in cfg HW).
        apply (GI_rest s4'); [reflexivity|reflexivity|exact G4']. }
      assert (Hl : Forall evgood (OPick id :: lr ++ OValid id packet r (Err k)
                                   :: match r_alias r with Some _ => [OReset mx] | None => [] end ++ [ORejected id k])).
      { constructor; [exact I|]. apply Forall_app. split; [exact Hlr|]. constructor; [exact I|].
        destruct (r_alias r); cbn [app]; repeat (constructor; try exact I). }
      destruct (r_out rf); cbn [fst snd seat_state sr_s]; split; assumption.
    - split; [exact G4|]. constructor; [exact I|]. apply Forall_app. split; [exact Hlr|constructor; [exact I|constructor]].
  Qed.

  Lemma seat_current_FR (s : state) m acc dn : FR s (seat_state (seat_current s m acc dn)).
  Proof. intros G. rewrite <- seat_current_a_fst. apply seat_current_a_good. exact G. Qed.

  Lemma service_loop_a_good : forall f (s : state) m now cap fill acc dn,
    GI s -> GI (sr_s (fst (service_loop_a f s m now cap fill acc dn))) /\ Forall evgood (snd (service_loop_a f s m now cap fill acc dn)).
  Proof.
    induction f as [|f IH]; intros s m now cap fill acc dn G; cbn [AliasRunLog.service_loop_a]; [split; [exact G|constructor]|].
    destruct (negb (pstate_eqb (s_st s) PendingConnack || pstate_eqb (s_st s) Connected)); [split; [exact G|constructor]|].
    destruct (seat_current_a_good s m acc dn G) as [Gs Hs].
    destruct (seat_current_a s m acc dn) as [[r|s5 dn'|s5] l]; cbn [seat_state fst snd] in *.
    - split; assumption.
    - destruct (IH s5 m now cap fill acc dn' Gs) as [A B0]. split; [exact A|apply Forall_app; split; assumption].
    - pose proof (encode_next_FR enc enc_call enc_done dec dec_init dec_feed ores ores_reset ores_resolve ires v_in cfg HW now cap fill s5 acc dn) as He.
      destruct (encode_next now cap fill s5 acc dn) as [r|[s7 acc']]; cbn [fst snd].
      + split; [exact (He Gs)|exact Hs].
      + destruct (IH s7 m now cap fill acc' dn (He Gs)) as [A B0]. split; [exact A|].
        apply Forall_app. split; [exact Hs|]. apply Forall_app. split; [destruct (s_cur s5); repeat constructor|exact B0].
  Qed.

  Lemma service_queue_good (s : state) m now cap fill :
    GI s -> GI (sr_s (service_queue s m now cap fill)) /\ Forall evgood (service_queue_log s m now cap fill).
  Proof.
    intros G. rewrite service_queue_a. cbv zeta. unfold AliasRunLog.service_queue_log.
    destruct (service_loop_a_good (queue_fuel enc dec ores ires s) s m now cap fill [] [] G) as [A B0]. split; [|exact B0].
    destruct (sr_bytes _); [exact A|]. cbn [sr_s]. apply (GI_rest (sr_s (fst (service_loop_a (queue_fuel enc dec ores ires s) s m now cap fill [] [])))); [reflexivity|reflexivity|exact A].
  Qed.

  Theorem service_good (s : state) now cap fill :
    GI s -> GI (sr_s (service s now cap fill)) /\ Forall evgood (service_log s now cap fill).
  Proof.
    intros G. unfold Model.service, AliasRunLog.service_log. cbv zeta. cbn [sr_s].
    assert (Hh : forall (r : sres enc dec ores ires), GI (sr_s r) -> GI (halt_on_error (sr_s r) (sr_out r))).
    { intros r. apply (halt_on_error_FR enc dec dec_init dec_feed ores ores_reset ores_resolve ires v_in cfg HW). }
    destruct (s_st s).
    - split; [apply Hh; exact G|constructor].
    - destruct (s_connack_to s) as [t|]; [|split; [apply Hh; exact G|constructor]].
      destruct (t <=? now); [split; [apply Hh; exact G|constructor]|].
      destruct (service_queue_good s false now cap fill G) as [A B0]. split; [apply Hh; exact A|exact B0].
    - destruct (service_keep_alive cfg s now) as [s1|k|site] eqn:Ek; [|split; [apply Hh; exact G|constructor]|split; [apply Hh; exact G|constructor]].
      pose proof (service_keep_alive_FR enc dec dec_init dec_feed ores ores_reset ores_resolve ires v_in cfg HW _ _ _ Ek G) as G1.
      destruct (service_queue_good s1 true now cap fill G1) as [A B0]. split; [|exact B0].
      destruct (sr_out (service_queue s1 true now cap fill)); [|apply Hh; exact A|apply Hh; exact A].
      match goal with |- GI (halt_on_error (sr_s ?r) (sr_out ?r)) => apply (Hh r) end. cbn [sr_s].
      apply (process_ack_timeouts_FR enc dec dec_init dec_feed ores ores_reset ores_resolve ires v_in cfg HW). exact A.
    - split; [|constructor]. match goal with |- GI (halt_on_error (sr_s ?r) (sr_out ?r)) => apply (Hh r) end. cbn [sr_s].
      apply (process_ack_timeouts_FR enc dec dec_init dec_feed ores ores_reset ores_resolve ires v_in cfg HW). exact G.
    - split; [apply Hh; exact G|constructor].
  Qed.
End WVSeat.
