(* C10 — ordering: what the engine's queue discipline guarantees, as theorems about the model.
   - dequeue priority: high-priority queue, then resubmit queue, then user queue, always the HEAD
     (a blocked head blocks everything behind it and every lower queue);
   - submissions are appended to the back of the user queue with strictly increasing ids;
   - after a CONNACK both intake queues are sorted by operation id (sort_operation_deque), so
     retransmissions (resubmit queue) go first, in submission order, then everything else in
     submission order. *)
From GM Require Import Base.Prelude Base.Outcome Codec.Packets Codec.Settings Engine.Model EngineProofs.AssocLemmas.
From Coq Require Import Sorting.Sorted Sorting.Permutation.
From RecordUpdate Require Import RecordSet.
Import RecordSetNotations.
Open Scope N_scope.

Section Order.
  Variable enc : Type.
  Variable dec : Type.
  Variable ores : Type.
  Variable ires : Type.
  Variable cfg : config.
  Notation state := (state enc dec ores ires).
  Notation dequeue := (dequeue enc dec ores ires cfg).
  Notation apply_session := (apply_session enc dec ores ires cfg).
  Notation user_event := (user_event enc dec ores ires cfg).

  (* the operation handed out is the head of the first non-empty eligible queue; nothing is
     removed from any other queue and nothing overtakes a head *)
  Theorem dequeue_priority (s s' : state) mode id :
    dequeue s mode = (s', Some id) ->
    s_pwc s = false /\
    ((exists r, s_hq s = id :: r /\ s_hq s' = r /\ s_rq s' = s_rq s /\ s_uq s' = s_uq s) \/
     (mode = true /\ s_hq s = [] /\ exists r, s_rq s = id :: r /\ s_rq s' = r /\ s_hq s' = [] /\ s_uq s' = s_uq s) \/
     (mode = true /\ s_hq s = [] /\ s_rq s = [] /\ exists r, s_uq s = id :: r /\ s_uq s' = r /\ s_hq s' = [] /\ s_rq s' = [])).
  Proof.
    unfold Model.dequeue. intros Hd. destruct (s_pwc s) eqn:Ep; [discriminate|]. split; [reflexivity|].
    destruct (s_hq s) as [|h r] eqn:Eh.
    - destruct mode; cbn [negb] in Hd; [|discriminate].
      destruct (throttled enc dec ores ires cfg s && has_pending_ack enc dec ores ires s); [discriminate|].
      destruct (s_rq s) as [|h2 r2] eqn:Er.
      + destruct (s_uq s) as [|h3 r3] eqn:Eu; [discriminate|].
        destruct (passes_receive_max enc dec ores ires s h3); [|discriminate].
        inversion Hd; subst; clear Hd. right. right. cbn. rewrite Eh, Er. repeat split; try reflexivity.
        exists r3. repeat split; reflexivity.
      + destruct (passes_receive_max enc dec ores ires s h2); [|discriminate].
        inversion Hd; subst; clear Hd. right. left. cbn. rewrite Eh. repeat split; try reflexivity.
        exists r2. repeat split; reflexivity.
    - inversion Hd; subst; clear Hd. left. exists r. cbn. repeat split; reflexivity.
  Qed.

  (* when nothing is handed out no queue changes *)
  Theorem dequeue_none_unchanged (s s' : state) mode : dequeue s mode = (s', None) -> s' = s.
  Proof.
    unfold Model.dequeue. destruct (s_pwc s); [intros H; inversion H; reflexivity|].
    destruct (s_hq s); [|discriminate].
    destruct mode; cbn [negb]; [|intros H; inversion H; reflexivity].
    destruct (throttled enc dec ores ires cfg s && has_pending_ack enc dec ores ires s); [intros H; inversion H; reflexivity|].
    destruct (s_rq s) as [|h2 r2].
    - destruct (s_uq s) as [|h3 r3]; [intros H; inversion H; reflexivity|].
      destruct (passes_receive_max enc dec ores ires s h3); [discriminate|intros H; inversion H; reflexivity].
    - destruct (passes_receive_max enc dec ores ires s h2); [discriminate|intros H; inversion H; reflexivity].
  Qed.

  (* a submission that is kept goes to the BACK of the user queue under the next operation id *)
  Theorem submit_appends (s : state) p t :
    is_disconnect p = false -> passes_now enc dec ores ires cfg s p = true ->
    s_uq (r_s (user_event s p t)) = s_uq s ++ [s_next_id s] /\
    s_next_id (r_s (user_event s p t)) = s_next_id s + 1 /\
    s_rq (r_s (user_event s p t)) = s_rq s /\ s_hq (r_s (user_event s p t)) = s_hq s.
  Proof.
    intros Hd Hp. unfold Model.user_event. rewrite Hd. cbn [negb].
    unfold create_operation. cbn.
    assert (Hp' : passes_now enc dec ores ires cfg
              (s <| s_next_id := s_next_id s + 1 |> <| s_ops := s_ops s ++ [(s_next_id s, new_op p true t)] |>) p = true).
    { unfold passes_now in *. cbn. exact Hp. }
    rewrite Hp'. cbn. repeat split; reflexivity.
  Qed.
End Order.

(* sorting: the session handling at CONNACK leaves both intake queues sorted by operation id and
   holding the same operations (up to the moves the session rules prescribe) *)
Section Session.
  Variable enc : Type.
  Variable dec : Type.
  Variable ores : Type.
  Variable ires : Type.
  Variable cfg : config.
  Notation state := (state enc dec ores ires).
  Notation apply_session := (apply_session enc dec ores ires cfg).

  Lemma unbind_queues (s : state) id :
    s_uq (unbind enc dec ores ires s id) = s_uq s /\ s_rq (unbind enc dec ores ires s id) = s_rq s.
  Proof.
    unfold unbind. destruct (lookup id (s_ops s)) as [o|]; [|split; reflexivity].
    destruct (op_pid o) as [pid|]; [|cbn; split; reflexivity].
    destruct (with_pid 0 (op_packet o)); cbn; split; reflexivity.
  Qed.

  Lemma fold_unbind_queues l (s : state) :
    s_uq (fold_left (unbind enc dec ores ires) l s) = s_uq s /\ s_rq (fold_left (unbind enc dec ores ires) l s) = s_rq s.
  Proof.
    revert s. induction l as [|x r IH]; intros s; cbn [fold_left]; [split; reflexivity|].
    destruct (IH (unbind enc dec ores ires s x)) as [H1 H2]. destruct (unbind_queues s x) as [H3 H4].
    split; congruence.
  Qed.

  Theorem session_sorts (s : state) sp :
    is_panic (r_out (apply_session s sp)) = false ->
    sorted_le (s_rq (r_s (apply_session s sp))) /\ sorted_le (s_uq (r_s (apply_session s sp))).
  Proof.
    unfold Model.apply_session.
    set (r1 := if sp then _ else _).
    destruct (is_panic (r_out r1)) eqn:Ep; [intros H; cbn in H; congruence|].
    set (s2 := fold_left _ _ _). set (s3 := s2 <| s_rq := Model.sort (s_rq s2) |> <| s_uq := Model.sort (s_uq s2) |>).
    assert (Hs3 : sorted_le (s_rq s3) /\ sorted_le (s_uq s3)).
    { subst s3. cbn. split; apply sort_sorted. }
    intros Hnp.
    repeat match goal with
    | |- context [if ?b then _ else _] => destruct b; cbn [r_s r_out is_panic] in *; try discriminate
    end; exact Hs3.
  Qed.

  (* with a resumed session the resubmit queue keeps exactly its operations (a permutation) *)
  Theorem session_present_keeps_resubmits (s : state) :
    is_panic (r_out (apply_session s true)) = false ->
    Permutation (s_rq (r_s (apply_session s true))) (s_rq s) /\
    Permutation (s_uq (r_s (apply_session s true))) (s_uq s).
  Proof.
    unfold Model.apply_session. cbn [pure r_out r_s is_panic r_done].
    set (s2 := fold_left _ _ _).
    destruct (fold_unbind_queues (s_uq s) s) as [Hu Hr]. fold s2 in Hu, Hr.
    intros Hnp.
    assert (H : Permutation (Model.sort (s_rq s2)) (s_rq s) /\ Permutation (Model.sort (s_uq s2)) (s_uq s)).
    { rewrite <- Hu, <- Hr. split; apply sort_perm. }
    repeat match goal with
    | |- context [if ?b then _ else _] => destruct b; cbn [r_s r_out is_panic] in *; try discriminate
    end; cbn; exact H.
  Qed.
End Session.
