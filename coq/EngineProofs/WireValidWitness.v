(* C02 at run level: the premises of WireValidInstance.instance_wire_wellformed are satisfiable (the two-connection history
   of WireRunWitness.v), and the two premises that speak about what the library does NOT check are necessary, by
   computation on the instantiated engine:
   - a PUBLISH with an empty topic that by-passes the submission-time validator is seated, passes the send-time
     validator and is put on the wire, where the specification decoder rejects it;
   - connect options with a password and no user name (MQTT 3.1.1, D29) produce a CONNECT the specification rejects. *)
From GM Require Import Base.Prelude Base.Outcome Codec.Prim Codec.Packets Codec.Settings Codec.Steps Codec.ImplEncode
  Codec.SpecDecodeC2S Codec.ValidC2S Alias.Outbound Validate.Rules Validate.Spec Engine.Model Engine.Instance.
From GM Require Import ValidateProofs.BridgeDefs ValidateProofs.BridgeConnect.
From GM Require Import EngineProofs.WFDefs EngineProofs.IdsWitness EngineProofs.AliasRunLog EngineProofs.AliasRunInstance
  EngineProofs.WireRunLog EngineProofs.WireRunConn EngineProofs.WireRunCodec EngineProofs.WireRunInstance EngineProofs.WireRunWitness
  EngineProofs.WireValidDefs EngineProofs.WireValidFrame EngineProofs.WireValidRun EngineProofs.WireValidInstance.
Open Scope N_scope.

Lemma small_all p : (forall sk oa, (spec_remaining p {| r_skip_topic := sk; r_alias := oa |} <? 4294967296) = true) -> forall r, small p r.
Proof. intros H [sk oa]. unfold small. specialize (H sk oa). lia. Qed.

Ltac sub_good_tac := split; [reflexivity|split; [reflexivity|split; [reflexivity|apply small_all; intros [|] [a|]; vm_compute; reflexivity]]].

Lemma ww_hist_sub : Forall sub_ev ww_hist.
Proof.
  unfold ww_hist, ww_conn1, ww_conn2. cbn [app].
  repeat (apply Forall_cons; [cbn [sub_ev]; first [exact I | reflexivity | sub_good_tac]|]). apply Forall_nil.
Qed.

Lemma ww_cfg_ok : ok_cfg ww_cfg.
Proof. unfold ok_cfg, TMAX. cbn. lia. Qed.

Lemma ww_connect_ok : connect_opts_ok (cf_version ww_cfg) (cf_connect ww_cfg).
Proof. apply (connect_opts_ok_configured _ _ [97; 97]); vm_compute; reflexivity. Qed.

(* the theorem applies to the second connection of the witness history: all three packets (CONNECT, the retransmitted
   publish, the re-encoded publish) are valid and the stream decodes to them *)
Example ww_wellformed :
  Forall (pr_valid V5) (encodes (i_olog ww_cfg ww_s2 ww_conn2)) /\
  exists frames part,
    concat (map o_bytes (snd (i_run ww_cfg ww_s2 ww_conn2))) = frames ++ part /\
    spec_decode_all (length (fst (packets_of (i_olog ww_cfg ww_s2 ww_conn2)))) V5 frames =
      Some (map (pr_canon V5) (fst (packets_of (i_olog ww_cfg ww_s2 ww_conn2)))) /\
    match snd (packets_of (i_olog ww_cfg ww_s2 ww_conn2)) with
    | None => part = []
    | Some x => exists bs rest, impl_encode_all V5 (fst x) (snd x) = Ok bs /\ bs = part ++ rest /\ spec_decode V5 bs = Some (pr_canon V5 x, [])
    end.
Proof.
  destruct ww_hist_ok as (H1 & _ & H3).
  exact (instance_wire_wellformed ww_cfg ww_cfg_ok Outbound.RNull ww_connect_ok (EvOpen 0 1000 :: ww_conn1) 4 1000 ww_conn2 H1 ww_hist_sub H3).
Qed.

(* ---- necessity of "submissions passed the submission-time validator" ---- *)
Definition wv_bad_pub : packet :=
  Publish {| pub_pid := 0; pub_topic := []; pub_qos := 0; pub_dup := false; pub_retain := false;
             pub_payload := Some [1]; pub_pfi := None; pub_mei := None; pub_alias := None; pub_response_topic := None;
             pub_correlation := None; pub_subids := None; pub_content_type := None; pub_up := None |}.
Definition wv_bad_hist : list event :=
  [EvService 0 4096 0; EvWriteComplete 0; EvData 0 x_connack_bytes; EvUser 1 wv_bad_pub None; EvService 1 4096 0].

Example unvalidated_submission_reaches_the_wire :
  is_ok (validate_outbound wv_bad_pub) = false /\
  map (fun x => valid V5 (snd x) (fst x)) (encodes (i_olog ww_cfg ww_s1 wv_bad_hist)) = [true; false] /\
  last (map o_bytes (snd (i_run ww_cfg ww_s1 wv_bad_hist))) [] = [48; 4; 0; 0; 0; 1] /\
  spec_decode V5 [48; 4; 0; 0; 0; 1] = None.
Proof. vm_compute. repeat split; reflexivity. Qed.

(* ---- necessity of connect_opts_ok: MQTT 3.1.1, password without user name ---- *)
Definition wv_bad_connect : connect_opts :=
  {| co_keep_alive := Some 0; co_rejoin := 0; co_client_id := Some [97; 97]; co_username := None; co_password := Some [112];
     co_sei := None; co_rri := None; co_rpi := None; co_receive_max := None; co_tam := None; co_max_packet := None;
     co_will_delay := None; co_will := None; co_up := None |}.
Definition wv_bad_cfg : config := mkConfig V311 0 false None 10000 wv_bad_connect.

Example unchecked_connect_options_reach_the_wire :
  let s1 := fst (i_run wv_bad_cfg (x_init wv_bad_cfg) [EvOpen 0 1000]) in
  map (fun x => valid V311 (snd x) (fst x)) (encodes (i_olog wv_bad_cfg s1 [EvService 0 4096 0])) = [false] /\
  spec_decode V311 (concat (map o_bytes (snd (i_run wv_bad_cfg s1 [EvService 0 4096 0])))) = None /\
  connect_typed wv_bad_connect (Some [97; 97]) = true /\ connect_checked V311 wv_bad_connect false (Some [97; 97]) = false.
Proof. vm_compute. repeat split; reflexivity. Qed.

Example bad_connect_options_excluded : ~ connect_opts_ok V311 wv_bad_connect.
Proof. apply (connect_opts_ok_necessary V311 wv_bad_connect false (Some [97; 97]) no_resolution); vm_compute; reflexivity. Qed.
