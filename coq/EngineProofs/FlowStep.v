(* C09, part 3: the flow invariant through the event handlers other than service. *)
From GM Require Import Base.Prelude Base.Outcome Codec.Packets Codec.Settings Engine.Model.
From GM Require Import EngineProofs.AssocLemmas EngineProofs.PacketIds EngineProofs.IdsFrame EngineProofs.SvcTimeout EngineProofs.Flow EngineProofs.FlowInv.
From RecordUpdate Require Import RecordSet.
From Coq Require Import Sorting.Sorted.
Import RecordSetNotations.
Open Scope N_scope.

Set Default Proof Using "Type".
Section Engine.
  Variable enc : Type.
  Variable enc_reset : version -> packet -> resolution -> outcome enc.
  Variable enc_call : enc -> N -> N -> outcome (bytes * enc).
  Variable enc_done : enc -> bool.
  Variable dec : Type.
  Variable dec_init : dec.
  Variable dec_feed : version -> N -> dec -> bytes -> dec * list packet * outcome unit.
  Variable ores : Type.
  Variable ores_reset : ores -> N -> ores.
  Variable ores_resolve : ores -> option N -> bytes -> outcome (ores * resolution).
  Variable ires : Type.
  Variable ires_reset : ires -> ires.
  Variable ires_resolve : ires -> option N -> bytes -> outcome (ires * bytes).
  Variable v_out : option settings -> connect_opts -> resolution -> packet -> outcome unit.
  Variable v_in : option settings -> packet -> outcome unit.
  Variable cfg : config.

  Notation state := (Model.state enc dec ores ires).
  Notation init := (Model.init enc dec dec_init ores ires).
  Notation res := (Model.res enc dec ores ires).
  Notation release := (Model.release enc dec ores ires cfg).
  Notation disconnect_completion := (Model.disconnect_completion enc dec ores ires).
  Notation fail_op := (Model.fail_op enc dec ores ires cfg).
  Notation ping_extension := (Model.ping_extension enc dec ores ires).
  Notation succeed_op := (Model.succeed_op enc dec ores ires cfg).
  Notation fail_all := (Model.fail_all enc dec ores ires cfg).
  Notation succeed_all := (Model.succeed_all enc dec ores ires cfg).
  Notation andthen := (Model.andthen enc dec ores ires).
  Notation try_ := (Model.try_ enc dec ores ires).
  Notation pure := (Model.pure enc dec ores ires).
  Notation create_operation := (Model.create_operation enc dec ores ires).
  Notation passes_now := (Model.passes_now enc dec ores ires cfg).
  Notation user_event := (Model.user_event enc dec ores ires cfg).
  Notation create_connect := (Model.create_connect enc dec ores ires cfg).
  Notation net_opened := (Model.net_opened enc dec dec_init ores ires cfg).
  Notation op_exists := (Model.op_exists enc dec ores ires).
  Notation op_passes := (Model.op_passes enc dec ores ires cfg).
  Notation partition_policy := (Model.partition_policy enc dec ores ires cfg).
  Notation closed_current := (Model.closed_current enc dec ores ires cfg).
  Notation slow_start_init := (Model.slow_start_init enc dec ores ires cfg).
  Notation update_retries := (Model.update_retries enc dec ores ires cfg).
  Notation fail_exceeding := (Model.fail_exceeding enc dec ores ires cfg).
  Notation has_pubrel := (Model.has_pubrel enc dec ores ires).
  Notation net_closed_raw := (Model.net_closed_raw enc dec ores ires cfg).
  Notation net_closed := (Model.net_closed enc dec ores ires cfg).
  Notation net_write_completion := (Model.net_write_completion enc dec ores ires cfg).
  Notation acquire_free_pid := (Model.acquire_free_pid enc dec ores ires).
  Notation acquire_pid_for := (Model.acquire_pid_for enc dec ores ires).
  Notation unbind := (Model.unbind enc dec ores ires).
  Notation passes_receive_max := (Model.passes_receive_max enc dec ores ires).
  Notation throttled := (Model.throttled enc dec ores ires cfg).
  Notation has_pending_ack := (Model.has_pending_ack enc dec ores ires).
  Notation dequeue := (Model.dequeue enc dec ores ires cfg).
  Notation fully_written := (Model.fully_written enc dec ores ires).
  Notation sres := (Model.sres enc dec ores ires).
  Notation seat := (Model.seat enc dec ores ires).
  Notation seat_current := (Model.seat_current enc enc_reset dec ores ores_reset ores_resolve ires v_out cfg).
  Notation service_loop := (Model.service_loop enc enc_reset enc_call enc_done dec ores ores_reset ores_resolve ires v_out cfg).
  Notation service_queue := (Model.service_queue enc enc_reset enc_call enc_done dec ores ores_reset ores_resolve ires v_out cfg).
  Notation service_keep_alive := (Model.service_keep_alive enc dec ores ires cfg).
  Notation process_ack_timeouts := (Model.process_ack_timeouts enc dec ores ires cfg).
  Notation halt_on_error := (Model.halt_on_error enc dec ores ires).
  Notation service := (Model.service enc enc_reset enc_call enc_done dec ores ores_reset ores_resolve ires v_out cfg).
  Notation earliest_tmo := (Model.earliest_tmo enc dec ores ires).
  Notation nst_queue := (Model.nst_queue enc dec ores ires cfg).
  Notation next_service_time := (Model.next_service_time enc dec ores ires cfg).
  Notation build_settings := (Model.build_settings enc dec ores ires cfg).
  Notation apply_session := (Model.apply_session enc dec ores ires cfg).
  Notation hres := (Model.hres enc dec ores ires).
  Notation hres_of := (Model.hres_of enc dec ores ires).
  Notation pre_connack := (Model.pre_connack enc dec ores ires).
  Notation sum_ss := (Model.sum_ss enc dec ores ires).
  Notation handle_connack := (Model.handle_connack enc dec ores ores_reset ires ires_reset v_in cfg).
  Notation handle_pingresp := (Model.handle_pingresp enc dec ores ires).
  Notation handle_suback := (Model.handle_suback enc dec ores ires cfg).
  Notation handle_unsuback := (Model.handle_unsuback enc dec ores ires cfg).
  Notation publish_qos_of := (Model.publish_qos_of enc dec ores ires).
  Notation handle_puback := (Model.handle_puback enc dec ores ires cfg).
  Notation handle_pubrec := (Model.handle_pubrec enc dec ores ires cfg).
  Notation handle_pubrel := (Model.handle_pubrel enc dec ores ires).
  Notation handle_pubcomp := (Model.handle_pubcomp enc dec ores ires cfg).
  Notation handle_publish := (Model.handle_publish enc dec ores ires).
  Notation handle_disconnect := (Model.handle_disconnect enc dec ores ires cfg).
  Notation handle_packet := (Model.handle_packet enc dec ores ores_reset ires ires_reset v_in cfg).
  Notation handle_packets := (Model.handle_packets enc dec ores ores_reset ires ires_reset ires_resolve v_in cfg).
  Notation is_connect_op := (Model.is_connect_op enc dec ores ires).
  Notation connect_in_queue := (Model.connect_in_queue enc dec ores ires).
  Notation max_incoming_size := (Model.max_incoming_size cfg).
  Notation net_data := (Model.net_data enc dec dec_feed ores ores_reset ires ires_reset ires_resolve v_in cfg).
  Notation reset := (Model.reset enc dec ores ires cfg).
  Notation out_of_res := (Model.out_of_res enc dec ores ires).
  Notation step := (Model.step enc enc_reset enc_call enc_done dec dec_init dec_feed ores ores_reset ores_resolve ires ires_reset ires_resolve v_out v_in cfg).
  Notation run := (Model.run enc enc_reset enc_call enc_done dec dec_init dec_feed ores ores_reset ores_resolve ires ires_reset ires_resolve v_out v_in cfg).
  Notation SeatStop := (Model.SeatStop enc dec ores ires).
  Notation SeatContinue := (Model.SeatContinue enc dec ores ires).
  Notation SeatEncode := (Model.SeatEncode enc dec ores ires).
  Notation mkState := (Model.mkState enc dec ores ires).
  (* lia generalises over every hypothesis mentioning N, including the Section variables: clear them first *)
  Ltac slia := try clear v_in; try clear v_out; try clear ires_resolve; try clear ires_reset; try clear ores_resolve;
    try clear ores_reset; try clear dec_feed; try clear dec_init; try clear enc_done; try clear enc_call; try clear enc_reset; lia.
  Ltac dm := match goal with
    | |- context [match ?x with _ => _ end] => destruct x eqn:?
    end.
  Notation flow_m := (FlowInv.flow_m enc dec ores ires).
  Notation flow_inv := (FlowInv.flow_inv enc dec ores ires).
  Notation extra := (FlowInv.extra enc dec ores ires).

  Ltac feq := eapply flow_eq; [..|eassumption]; reflexivity.

  (* ---- user events ---- *)
  Lemma flow_user_event m s p t : flow_m m s -> flow_m m (r_s (user_event s p t)).
  Proof.
    intros H. unfold Model.user_event.
    set (o := new_op p (negb (is_disconnect p)) (if is_disconnect p then None else t)).
    unfold Model.create_operation. cbn [fst snd].
    set (s1 := s <| s_next_id := s_next_id s + 1 |> <| s_ops := s_ops s ++ [(s_next_id s, o)] |>).
    assert (H1 : flow_m m s1).
    { eapply flow_create with (o := o); [..|exact H]; try reflexivity; [left; reflexivity|left; reflexivity|]. intros id Hid. left. exact Hid. }
    destruct (negb (passes_now s1 p)); [cbn [r_s]; apply flow_fail_op; exact H1|].
    destruct (is_disconnect p) eqn:Ed; cbn [Model.pure r_s].
    - eapply flow_create with (o := o); [..|exact H]; try reflexivity; [left; reflexivity|left; reflexivity|].
      cbn. intros id [<-|Hid]; [right|left; exact Hid]. split; [reflexivity|]. unfold o. cbn. destruct p; try discriminate; reflexivity.
    - eapply flow_eq; [..|exact H1]; reflexivity.
  Qed.

  (* ---- connection opened ---- *)
  Lemma flow_net_opened s d : flow_inv s -> flow_inv (halt_on_error (r_s (net_opened s d)) (r_out (net_opened s d))).
  Proof.
    unfold FlowInv.flow_inv, Model.net_opened. intros H. destruct (s_st s) eqn:Est; cbn [pstate_eqb negb r_s r_out Model.halt_on_error].
    2-5: cbn; eapply flow_halted; eapply flow_eq; [..|exact H]; reflexivity.
    unfold Model.create_operation, Model.pure. cbn [fst snd r_s r_out Model.halt_on_error]. cbn.
    eapply flow_create with (m := Disconnected) (o := new_op (create_connect (s <| s_st := PendingConnack |> <| s_cur := None |> <| s_pwc := false |> <| s_dec := dec_init |>)) false None);
      [..|exact H]; try reflexivity.
    - right. reflexivity.
    - right. split; [left|right]; reflexivity.
    - cbn. intros id [<-|Hid]; [right; split; [reflexivity|]|left; exact Hid].
      unfold Model.create_connect. cbn. repeat dm; reflexivity.
  Qed.

  (* ---- write completion ---- *)
  Lemma flow_write_completion m s : flow_m m s -> flow_m m (r_s (net_write_completion s)).
  Proof.
    intros H. unfold Model.net_write_completion. repeat dm; cbn [r_s]; try (eapply flow_eq; [..|exact H]; reflexivity).
    apply flow_succeed_all. eapply flow_eq; [..|exact H]; reflexivity.
  Qed.

  (* ---- connection closed ---- *)
  (* outside the offline states the high-priority queue is unconstrained *)
  Lemma flow_noff m (s s' : state) : ~ offline m ->
    s_ops s' = s_ops s -> s_next_id s' = s_next_id s -> s_ppub s' = s_ppub s -> s_alloc s' = s_alloc s ->
    s_cur s' = s_cur s \/ s_cur s' = None -> s_settings s' = s_settings s -> flow_m m s -> flow_m m s'.
  Proof.
    intros Hno Ho Hn Hp Ha Hc Hs [H1 H2 H3 H4 H5 H6].
    assert (Hcur : forall k, s_cur s' = Some k -> s_cur s = Some k) by (intros k Hk; destruct Hc as [E|E]; rewrite E in Hk; [exact Hk|discriminate]).
    constructor; rewrite ?Ho, ?Hn, ?Hp, ?Ha, ?Hs; try assumption.
    - intros k Hk. apply H4, Hcur, Hk.
    - intros Hm. destruct (H5 Hm) as (st & Hst & Hle). exists st. split; [exact Hst|].
      assert (extra s' <= extra s); [|slia]. unfold FlowInv.extra. rewrite Ho, Hp.
      destruct (s_cur s') as [c|] eqn:Ec; [rewrite (Hcur c eq_refl); slia|]. repeat dm; slia.
    - intros Hoff. contradiction.
  Qed.

  Lemma halted_noff : ~ offline Halted.
  Proof. intros [?|?]; discriminate. Qed.

  Lemma flow_offline_intro m0 m (s : state) : flow_m m0 s -> s_cur s = None -> s_hq s = [] -> offline m -> flow_m m s.
  Proof.
    intros [H1 H2 H3 H4 H5 H6] Hc Hq Hoff. constructor; try assumption.
    - intros Hm. destruct Hoff as [E|E]; rewrite E in Hm; discriminate.
    - intros _ id [Hid|Hid]; [rewrite Hc in Hid; discriminate|rewrite Hq in Hid; destruct Hid].
  Qed.

  Definition closedP (s : state) : Prop := flow_m Halted s /\ s_st s = Disconnected /\ s_cur s = None.
  Definition closedQ (s : state) : Prop := closedP s /\ s_hq s = [].

  Lemma fail_op_st s id e : s_st (r_s (fail_op s id e)) = s_st s \/ s_st (r_s (fail_op s id e)) = Halted.
  Proof.
    unfold Model.fail_op. destruct (lookup id (s_ops s)) as [o|]; [|left; reflexivity].
    destruct (release s id o) as [s1| |] eqn:Er; [|left; reflexivity..].
    destruct (release_core _ _ _ _ _ _ _ _ _ Er) as (_ & _ & _ & _ & _ & _ & _ & Hst).
    pose proof (disconnect_completion_core enc dec ores ires s1 o) as Hd. cbv zeta in Hd.
    destruct (disconnect_completion s1 o) as [s2 r]. cbn [fst] in Hd. destruct Hd as (_ & _ & _ & _ & _ & _ & _ & Hs2).
    assert (H : s_st s2 = s_st s \/ s_st s2 = Halted) by (destruct Hs2 as [E|E]; [left; congruence|right; exact E]).
    repeat dm; cbn [r_s]; exact H.
  Qed.

  Lemma fail_op_st_disc s id e : s_st s = Disconnected -> s_st (r_s (fail_op s id e)) = Disconnected.
  Proof.
    intros Hst. unfold Model.fail_op. destruct (lookup id (s_ops s)) as [o|]; [|exact Hst].
    destruct (release s id o) as [s1| |] eqn:Er; [|exact Hst..].
    destruct (release_core _ _ _ _ _ _ _ _ _ Er) as (_ & _ & _ & _ & _ & _ & _ & Hst1).
    unfold Model.disconnect_completion. rewrite Hst1, Hst. cbn [pstate_eqb]. destruct (is_disconnect (op_packet o)); cbn; repeat dm; cbn [r_s]; congruence.
  Qed.

  Lemma fail_op_closedP s id e : closedP s -> closedP (r_s (fail_op s id e)).
  Proof.
    intros (Hf & Hst & Hc). split; [apply flow_fail_op; exact Hf|]. split; [apply fail_op_st_disc; exact Hst|].
    pose proof (fail_op_fields enc dec ores ires cfg s id e) as Hq. unfold queue_fields in Hq. inversion Hq. congruence.
  Qed.

  Lemma fail_op_hq s id e : s_hq (r_s (fail_op s id e)) = s_hq s.
  Proof. pose proof (fail_op_fields enc dec ores ires cfg s id e) as Hq. unfold queue_fields in Hq. inversion Hq. reflexivity. Qed.

  Lemma fail_op_closedQ s id e : closedQ s -> closedQ (r_s (fail_op s id e)).
  Proof. intros [Hp Hq]. split; [apply fail_op_closedP; exact Hp|]. rewrite fail_op_hq. exact Hq. Qed.

  Lemma fail_all_closedQ ids : forall s e, closedQ s -> closedQ (r_s (fail_all s ids e)).
  Proof.
    induction ids as [|id r IH]; intros s e H; cbn [Model.fail_all]; [exact H|].
    pose proof (fail_op_closedQ s id e H) as H1. destruct (is_panic _); [exact H1|].
    destruct (is_panic _); cbn [r_s]; apply IH; exact H1.
  Qed.

  Lemma closedQ_eq (s s' : state) :
    s_ops s' = s_ops s -> s_next_id s' = s_next_id s -> s_ppub s' = s_ppub s -> s_alloc s' = s_alloc s ->
    s_settings s' = s_settings s -> s_st s' = s_st s -> s_cur s' = s_cur s -> s_hq s' = s_hq s -> closedQ s -> closedQ s'.
  Proof.
    intros Ho Hn Hp Ha Hs Hst Hc Hq [(Hf & H1 & H2) H3]. split; [split; [|split]|]; try congruence.
    eapply flow_noff; [apply halted_noff|..|exact Hf]; auto.
  Qed.

  Lemma fail_exceeding_closedQ s : closedQ s -> closedQ (r_s (fail_exceeding s)).
  Proof.
    intros H. unfold Model.fail_exceeding. destruct (cf_retry cfg); [|exact H]. dm; [exact H|].
    apply andthen_pres; [apply fail_all_closedQ; exact H|]. intros s1 H1. dm; [exact H1|]. apply fail_all_closedQ. exact H1.
  Qed.

  Lemma fail_op_out_plain s id e o : lookup id (s_ops s) = Some o -> is_disconnect (op_packet o) = false ->
    r_out (fail_op s id e) = Ok tt \/ is_panic (r_out (fail_op s id e)) = true.
  Proof.
    intros Hl Hd. unfold Model.fail_op. rewrite Hl. destruct (release s id o) as [s1|k|site] eqn:Er.
    - unfold Model.disconnect_completion. rewrite Hd. destruct (op_user o); left; reflexivity.
    - exfalso. exact (release_no_err enc dec ores ires cfg _ _ _ _ Er).
    - right. reflexivity.
  Qed.

  (* the current operation at close: never an error; the state stays Disconnected, the current
     operation is cleared *)
  Lemma closed_current_spec s : flow_m Halted s -> s_st s = Disconnected ->
    is_panic (r_out (closed_current s)) = true \/ closedP (r_s (closed_current s)).
  Proof.
    intros Hf Hst. unfold Model.closed_current. destruct (s_cur s) as [id|] eqn:Ec.
    2: { right. cbn. split; [|split; [exact Hst|reflexivity]]. eapply flow_noff; [apply halted_noff|..|exact Hf]; auto. }
    match goal with |- context [try_ ?r ?f] => set (rv := r); set (fv := f) end.
    assert (Hr : (r_out rv = Ok tt \/ is_panic (r_out rv) = true) /\ flow_m Halted (r_s rv) /\ s_st (r_s rv) = Disconnected).
    { unfold rv. destruct (lookup id (s_ops s)) as [o|] eqn:El; [|cbn; auto].
      assert (Hpush : forall s', s_ops s' = s_ops s -> s_next_id s' = s_next_id s -> s_ppub s' = s_ppub s -> s_alloc s' = s_alloc s ->
                 s_cur s' = s_cur s -> s_settings s' = s_settings s -> s_st s' = s_st s ->
                 (r_out (pure s') = Ok tt \/ is_panic (r_out (pure s')) = true) /\ flow_m Halted (r_s (pure s')) /\ s_st (r_s (pure s')) = Disconnected).
      { intros s' A B C D E F G. cbn. split; [left; reflexivity|]. split; [|congruence].
        eapply flow_noff; [apply halted_noff|..|exact Hf]; auto. }
      assert (Hfail : forall e, is_disconnect (op_packet o) = false ->
                 (r_out (fail_op s id e) = Ok tt \/ is_panic (r_out (fail_op s id e)) = true) /\
                 flow_m Halted (r_s (fail_op s id e)) /\ s_st (r_s (fail_op s id e)) = Disconnected).
      { intros e Hd. split; [eapply fail_op_out_plain; eassumption|]. split; [apply flow_fail_op; exact Hf|apply fail_op_st_disc; exact Hst]. }
      destruct (op_packet o) eqn:Ep;
        try (cbn [r_s r_out r_done]; split; [destruct (is_panic (r_out (fail_op s id EConnectionClosed))) eqn:E; [right; exact E|left; reflexivity]|];
             split; [apply flow_fail_op; exact Hf|apply fail_op_st_disc; exact Hst]).
      - repeat dm; try (apply Hpush; reflexivity); apply Hfail; reflexivity.
      - repeat dm; try (apply Hpush; reflexivity); apply Hfail; reflexivity.
      - repeat dm; try (apply Hpush; reflexivity); apply Hfail; reflexivity. }
    destruct Hr as ([Hok|Hpan] & Hfl & Hs).
    - right. unfold Model.try_. rewrite Hok. unfold fv. cbn. split; [|split; [exact Hs|reflexivity]].
      eapply flow_noff; [apply halted_noff|..|exact Hfl]; auto.
    - left. unfold Model.try_. destruct (r_out rv) eqn:Eo; try discriminate. rewrite Eo. reflexivity.
  Qed.


  Lemma andthen_closedQ (r : res) f :
    is_panic (r_out r) = true \/ closedQ (r_s r) ->
    (forall s1, closedQ s1 -> is_panic (r_out (f s1)) = true \/ closedQ (r_s (f s1))) ->
    is_panic (r_out (andthen r f)) = true \/ closedQ (r_s (andthen r f)).
  Proof.
    intros H1 H2. unfold Model.andthen. destruct (is_panic (r_out r)) eqn:Ep; [left; exact Ep|].
    destruct H1 as [H1|H1]; [congruence|]. specialize (H2 _ H1).
    destruct (is_panic (r_out (f (r_s r)))) eqn:Ep2; cbn [r_s r_out]; [left; exact Ep2|].
    destruct H2 as [H2|H2]; [congruence|]. right. exact H2.
  Qed.

  Lemma closed_current_out s : r_out (closed_current s) = Ok tt \/ is_panic (r_out (closed_current s)) = true.
  Proof.
    unfold Model.closed_current. destruct (s_cur s) as [id|]; [|left; reflexivity].
    match goal with |- context [try_ ?r ?f] => assert (Hr : r_out r = Ok tt \/ is_panic (r_out r) = true) end.
    { destruct (lookup id (s_ops s)) as [o|] eqn:El; [|left; reflexivity].
      destruct (op_packet o) eqn:Ep;
        try (cbn [r_out]; destruct (is_panic (r_out (fail_op s id EConnectionClosed))) eqn:E; [right; exact E|left; reflexivity]).
      all: repeat dm; try (left; reflexivity); eapply fail_op_out_plain; [exact El|rewrite Ep; reflexivity]. }
    unfold Model.try_. destruct Hr as [Hr|Hr]; [rewrite Hr; left; reflexivity|].
    match goal with |- context [match r_out ?r with _ => _ end] => destruct (r_out r) eqn:E2; try (cbn in Hr; discriminate Hr) end. right. rewrite E2. reflexivity.
  Qed.

  Lemma try_closed (r : res) K :
    (r_out r = Ok tt \/ is_panic (r_out r) = true) ->
    (is_panic (r_out r) = true \/ closedP (r_s r)) ->
    (forall s1, closedP s1 -> is_panic (r_out (K s1)) = true \/ closedQ (r_s (K s1))) ->
    is_panic (r_out (try_ r K)) = true \/ closedQ (r_s (try_ r K)).
  Proof.
    intros Ho Hc HK. unfold Model.try_. destruct Ho as [Ho|Ho].
    - rewrite Ho. cbn [r_s r_out]. destruct Hc as [Hc|Hc]; [rewrite Ho in Hc; discriminate|]. apply HK. exact Hc.
    - destruct (r_out r) eqn:E; try discriminate. left. rewrite E. reflexivity.
  Qed.

  Lemma net_closed_raw_spec m s : flow_m m s -> s_st s <> Disconnected ->
    is_panic (r_out (net_closed_raw s)) = true \/ closedQ (r_s (net_closed_raw s)).
  Proof.
    intros Hf Hst. unfold Model.net_closed_raw.
    destruct (pstate_eqb (s_st s) Disconnected) eqn:E; [destruct (s_st s); try discriminate; congruence|].
    match goal with |- context [closed_current ?s0] => set (s0v := s0) end.
    assert (H0 : flow_m Halted s0v) by (eapply flow_eq; [..|eapply flow_halted; exact Hf]; reflexivity).
    apply try_closed; [apply closed_current_out|apply closed_current_spec; [exact H0|reflexivity]|].
    intros s1 Hc.
    destruct (slow_start_init s1) as [s2| |] eqn:E2; [|exfalso; revert E2; unfold Model.slow_start_init; repeat dm; discriminate|left; reflexivity].
    destruct (update_retries s2) as [s3| |] eqn:E3; [|exfalso; revert E3; unfold Model.update_retries; repeat dm; discriminate|left; reflexivity].
    (* the two bookkeeping passes only rewrite operations in place *)
    assert (H2 : closedP s2).
    { destruct Hc as (A & B & C). revert E2. unfold Model.slow_start_init. repeat dm; intros H; inversion H; subst; try (split; [|split]; assumption).
      split; [|split; [exact B|exact C]]. eapply flow_fold_update; [apply keeps_set_ss|..|exact A]; try reflexivity. intros id Hid. exact Hid. }
    assert (H3 : closedP s3).
    { destruct H2 as (A & B & C). revert E3. unfold Model.update_retries. repeat dm; intros H; inversion H; subst; try (split; [|split]; assumption).
      split; [|split; [exact B|exact C]]. eapply flow_fold_update; [apply keeps_bump_intr|..|exact A]; try reflexivity. intros id Hid. exact Hid. }
    assert (H4 : closedQ (s3 <| s_hq := [] |>)).
    { destruct H3 as (A & B & C). split; [split; [|split; assumption]|reflexivity]. eapply flow_noff; [apply halted_noff|..|exact A]; auto. }
    cbv zeta.
    apply andthen_closedQ; [right; apply fail_all_closedQ; exact H4|].
    intros s5 H5. destruct (partition_policy s5 (s_pwco s5)) as [kept rejected].
    apply andthen_closedQ; [right; apply fail_all_closedQ; eapply closedQ_eq; [..|exact H5]; reflexivity|].
    intros s7 H7. apply andthen_closedQ; [right; apply fail_exceeding_closedQ; exact H7|].
    intros s8 H8.
    match goal with |- context [partition_policy ?s10 ?q] => set (s10v := s10); destruct (partition_policy s10v q) as [kept_u rejected_u] end.
    assert (H10 : closedQ s10v).
    { destruct H8 as [(A & B & C) D]. split; [split; [|split; assumption]|exact D].
      assert (A' : flow_m Halted (s8 <| s_ops := fold_left (fun ops id => update id (set_dup true) ops) (map snd (s_ppub s8)) (s_ops s8) |>)).
      { eapply flow_fold_update; [apply keeps_set_dup|..|exact A]; try reflexivity. intros id Hid. exact Hid. }
      destruct A' as [F1 F2 F3 F4 F5 F6]. constructor; try assumption.
      - cbn. constructor.
      - intros Hm. discriminate. }
    apply andthen_closedQ; [right; apply fail_all_closedQ; eapply closedQ_eq; [..|exact H10]; reflexivity|].
    intros s12 H12. right. cbn. eapply closedQ_eq; [..|exact H12]; reflexivity.
  Qed.

  Lemma flow_net_closed s : flow_inv s ->
    is_panic (r_out (net_closed s)) = true \/ flow_inv (halt_on_error (r_s (net_closed s)) (r_out (net_closed s))).
  Proof.
    unfold FlowInv.flow_inv. intros Hf. unfold Model.net_closed.
    destruct (pstate_eqb (s_st s) Disconnected) eqn:E.
    - right. unfold Model.net_closed_raw. rewrite E. cbn. eapply flow_halted. eapply flow_eq; [..|exact Hf]; reflexivity.
    - destruct (net_closed_raw_spec _ s Hf) as [Hp|[(A & B & C) D]]; [destruct (s_st s); try discriminate; congruence| |].
      + left. destruct (r_out (net_closed_raw s)) as [|k|] eqn:Eo; cbn in Hp; try discriminate Hp. rewrite Eo. reflexivity.
      + right. assert (Hd : flow_m Disconnected (r_s (net_closed_raw s))) by (eapply flow_offline_intro; [exact A|exact C|exact D|left; reflexivity]).
        destruct (r_out (net_closed_raw s)) as [u|k|] eqn:Eo.
        * cbn [r_s r_out]. rewrite Eo. cbn [Model.halt_on_error]. rewrite B. exact Hd.
        * destruct k; cbn [r_s r_out]; rewrite ?Eo; cbn [Model.halt_on_error];
            try (cbn; eapply flow_halted; eapply flow_eq; [..|exact Hd]; reflexivity).
          rewrite B. exact Hd.
        * cbn [r_s r_out]. rewrite Eo. cbn. eapply flow_halted. eapply flow_eq; [..|exact Hd]; reflexivity.
  Qed.

  (* ---- reset ---- *)
  Lemma flow_reset s : flow_inv (r_s (reset s)) \/ is_panic (r_out (reset s)) = true.
  Proof.
    unfold Model.reset.
    set (s0 := if pstate_eqb (s_st s) Disconnected then s else s <| s_st := Halted |>).
    assert (H0 : s_st s0 = Disconnected \/ s_st s0 = Halted).
    { unfold s0. destruct (s_st s) eqn:E; cbn; rewrite ?E; auto. }
    match goal with |- context [fold_left ?f ?l ?a] => set (fv := f); set (lv := l) end.
    assert (Hfold : forall l acc, (s_st (r_s acc) = Disconnected \/ s_st (r_s acc) = Halted) ->
               s_st (r_s (fold_left fv l acc)) = Disconnected \/ s_st (r_s (fold_left fv l acc)) = Halted).
    { induction l as [|id r IH]; intros acc Ha; cbn [fold_left]; [exact Ha|]. apply IH. unfold fv.
      destruct (is_panic (r_out acc)); [exact Ha|]. cbn [r_s].
      destruct (fail_op_st (r_s acc) id EClientClosed) as [E|E]; rewrite E; auto. }
    specialize (Hfold lv (pure s0) H0). set (r := fold_left fv lv (pure s0)) in *.
    destruct (is_panic (r_out r)) eqn:Ep; [right; exact Ep|]. left. unfold FlowInv.flow_inv. cbn.
    constructor; cbn.
    - split; cbn; constructor.
    - constructor.
    - constructor.
    - intros id H. discriminate.
    - intros Hm. destruct Hfold as [E|E]; rewrite E in Hm; discriminate.
    - intros _ id [H|[]]. discriminate.
  Qed.

  (* ---- CONNACK: session handling, reasoned about in the offline mode ---- *)
  Lemma flow_nc m (s s' : state) : m <> Connected ->
    keys (s_ops s') = keys (s_ops s) ->
    (forall id o', lookup id (s_ops s') = Some o' -> exists o, lookup id (s_ops s) = Some o /\ qpub (op_packet o') = qpub (op_packet o)) ->
    s_next_id s' = s_next_id s -> s_ppub s' = s_ppub s -> inc (keys (s_alloc s')) ->
    s_cur s' = s_cur s -> (forall id, In id (s_hq s') -> In id (s_hq s)) -> flow_m m s -> flow_m m s'.
  Proof.
    intros Hm Hk Hrel Hn Hp Ha Hc Hq [H1 H2 H3 H4 H5 H6]. constructor.
    - unfold ids_ok in *. cbn [fst snd] in *. rewrite Hk, Hn. exact H1.
    - rewrite Hp. exact H2.
    - exact Ha.
    - intros k. rewrite Hc, Hn. apply H4.
    - intros E. contradiction.
    - intros Hoff k Hk'. rewrite Hc in Hk'. assert (Hk2 : s_cur s = Some k \/ In k (s_hq s)) by (destruct Hk'; [left|right; apply Hq]; assumption).
      destruct (H6 Hoff k Hk2) as [Hlt Hcl]. rewrite Hn. split; [exact Hlt|]. intros o' Hl.
      destruct (Hrel _ _ Hl) as (o & Hlo & ->). apply Hcl. exact Hlo.
  Qed.

  Lemma flow_nc_same m (s s' : state) : m <> Connected ->
    s_ops s' = s_ops s -> s_next_id s' = s_next_id s -> s_ppub s' = s_ppub s -> inc (keys (s_alloc s')) ->
    s_cur s' = s_cur s -> (forall id, In id (s_hq s') -> In id (s_hq s)) -> flow_m m s -> flow_m m s'.
  Proof.
    intros Hm Ho. apply flow_nc; [exact Hm|rewrite Ho; reflexivity|]. intros id o' Hl. rewrite Ho in Hl. exists o'. auto.
  Qed.

  Lemma flow_unbind m s id : m <> Connected -> flow_m m s -> flow_m m (unbind s id).
  Proof.
    intros Hm H. unfold Model.unbind. destruct (lookup id (s_ops s)) as [o|] eqn:El; [|exact H].
    match goal with |- flow_m m (?s1 <| s_ops := update id ?f (s_ops ?s1') |>) => assert (H1 : flow_m m s1) end.
    { destruct (op_pid o) as [pid|]; [|exact H]. destruct (with_pid 0 (op_packet o)) as [p'| |] eqn:Ew; [|exact H..].
      assert (Hq : qpub p' = qpub (op_packet o)) by (destruct (op_packet o); cbn in Ew; inversion Ew; reflexivity).
      eapply flow_nc; [exact Hm| | | | | | | |exact H]; cbn; try reflexivity.
      - apply keys_update.
      - intros k x Hl. destruct (lookup_update_rel _ _ _ _ _ Hl) as (x0 & Hl0 & [->| ->]); [exists x0; auto|].
        destruct (N.eq_dec k id) as [->|Hne]; [|rewrite (lookup_update_neq _ _ _ _ Hne) in Hl; exists x0; split; [exact Hl0|]; congruence].
        exists o. split; [exact El|]. replace x0 with o by congruence. exact Hq.
      - apply inc_remove. apply H.
      - intros k Hk. exact Hk. }
    eapply flow_nc; [exact Hm| | | | | | | |exact H1]; cbn; try reflexivity.
    - apply keys_update.
    - intros k x Hl. destruct (lookup_update_rel _ _ _ _ _ Hl) as (x0 & Hl0 & [->| ->]); exists x0; auto.
    - apply H1.
    - intros k Hk. exact Hk.
  Qed.

  Lemma flow_fold_unbind m ids : forall s, m <> Connected -> flow_m m s -> flow_m m (fold_left unbind ids s).
  Proof. induction ids as [|id r IH]; intros s Hm H; cbn [fold_left]; [exact H|]. apply IH; [exact Hm|]. apply flow_unbind; assumption. Qed.

  Lemma unbind_ppub s id : s_ppub (unbind s id) = s_ppub s /\ s_settings (unbind s id) = s_settings s /\ s_st (unbind s id) = s_st s.
  Proof. unfold Model.unbind. repeat dm; cbn; auto. Qed.

  Lemma fold_unbind_ppub ids : forall s, s_ppub (fold_left unbind ids s) = s_ppub s /\
    s_settings (fold_left unbind ids s) = s_settings s /\ s_st (fold_left unbind ids s) = s_st s.
  Proof.
    induction ids as [|id r IH]; intros s; cbn [fold_left]; [auto|]. destruct (IH (unbind s id)) as (A & B & C).
    destruct (unbind_ppub s id) as (A' & B' & C'). repeat split; congruence.
  Qed.

  Lemma flow_connected s st : flow_m PendingConnack s -> s_ppub s = [] -> s_settings s = Some st -> flow_m Connected s.
  Proof.
    intros [H1 H2 H3 H4 H5 H6] Hp Hs. constructor; try assumption.
    - intros _. exists st. split; [exact Hs|]. rewrite Hp. unfold FlowInv.extra.
      destruct (s_cur s) as [c|] eqn:Ec; [|cbn; slia]. destruct (lookup c (s_ops s)) as [o|] eqn:El; [|cbn; slia].
      destruct (H6 (or_intror eq_refl) c (or_introl eq_refl)) as [_ Hcl]. rewrite (Hcl o El). cbn. slia.
    - intros [E|E]; discriminate.
  Qed.

  Lemma fail_all_st ids : forall s e, s_st (r_s (fail_all s ids e)) = s_st s \/ s_st (r_s (fail_all s ids e)) = Halted.
  Proof.
    induction ids as [|id r IH]; intros s e; cbn [Model.fail_all]; [left; reflexivity|].
    destruct (is_panic _); [apply fail_op_st|].
    assert (H : s_st (r_s (fail_all (r_s (fail_op s id e)) r e)) = s_st s \/ s_st (r_s (fail_all (r_s (fail_op s id e)) r e)) = Halted).
    { destruct (IH (r_s (fail_op s id e)) e) as [E|E]; [|right; exact E]. rewrite E. apply fail_op_st. }
    destruct (is_panic _); cbn [r_s]; exact H.
  Qed.

  Lemma fail_all_settings ids s e : s_settings (r_s (fail_all s ids e)) = s_settings s.
  Proof. pose proof (fail_all_fields enc dec ores ires cfg ids s e) as Hq. unfold queue_fields in Hq. inversion Hq. reflexivity. Qed.

  (* result: in the offline mode the invariant is kept; the protocol state stays as it was (or Halted)
     and the settings are kept; when the checks pass the pending-publish table is empty *)
  Lemma flow_apply_session s sp : flow_m PendingConnack s ->
    let r := apply_session s sp in
    is_panic (r_out r) = true \/
    (flow_m PendingConnack (r_s r) /\ s_ppub (r_s r) = [] /\ s_settings (r_s r) = s_settings s /\
     (s_st (r_s r) = s_st s \/ s_st (r_s r) = Halted)).
  Proof.
    intros Hf. cbv zeta. unfold Model.apply_session.
    assert (Hnc : PendingConnack <> Connected) by discriminate.
    match goal with |- context [if is_panic (r_out ?r1) then _ else _] => set (r1v := r1) end.
    assert (H1 : flow_m PendingConnack (r_s r1v) /\ s_settings (r_s r1v) = s_settings s /\ (s_st (r_s r1v) = s_st s \/ s_st (r_s r1v) = Halted)).
    { unfold r1v. destruct sp; [cbn; auto|]. destruct (partition_policy s (s_rq s)) as [kept rejected].
      match goal with |- context [fail_all ?s1 rejected _] => set (s1v := s1) end.
      assert (Hs1 : flow_m PendingConnack s1v).
      { eapply flow_fold_update; [apply (keeps_set_dup false)|..|exact Hf]; try reflexivity. intros id Hid. exact Hid. }
      pose proof (flow_fail_all enc dec ores ires cfg PendingConnack rejected s1v EOfflineQueuePolicyFailed Hs1) as Hfa.
      pose proof (fail_all_st rejected s1v EOfflineQueuePolicyFailed) as Hst.
      pose proof (fail_all_settings rejected s1v EOfflineQueuePolicyFailed) as Hse.
      destruct (is_panic _); [auto|]. cbn [r_s]. split; [|cbn; auto].
      eapply flow_nc_same; [exact Hnc|..|exact Hfa]; cbn; try reflexivity; [constructor|intros id Hid; exact Hid]. }
    destruct (is_panic (r_out r1v)) eqn:Ep; [left; exact Ep|].
    destruct H1 as (H1 & Hse1 & Hst1).
    match goal with |- context [Model.mkRes ?s3 (r_done r1v) (r_out r1v)] => set (s3v := s3) end.
    destruct (fold_unbind_ppub (s_uq (r_s r1v)) (r_s r1v)) as (Hp2 & Hse2 & Hst2).
    assert (H3 : flow_m PendingConnack s3v).
    { unfold s3v. eapply flow_eq; [..|apply (flow_fold_unbind PendingConnack (s_uq (r_s r1v)) (r_s r1v) Hnc H1)]; reflexivity. }
    assert (Hrest : s_settings s3v = s_settings s /\ (s_st s3v = s_st s \/ s_st s3v = Halted)).
    { unfold s3v. cbn. rewrite Hse2, Hst2. auto. }
    destruct (s_hq s3v); [|left; reflexivity]. destruct (s_ppub s3v) eqn:Epp; [|left; reflexivity].
    destruct (s_pnon s3v); [|left; reflexivity]. destruct (s_tmo s3v); [|left; reflexivity]. destruct (s_pwco s3v); [|left; reflexivity].
    right. cbn [r_s]. tauto.
  Qed.


  (* ---- packet handlers ---- *)
  Lemma flow_inv_of m (s' : state) : flow_m m s' -> (s_st s' = m \/ s_st s' = Halted) -> flow_inv s'.
  Proof. unfold FlowInv.flow_inv. intros H [->| ->]; [exact H|eapply flow_halted; exact H]. Qed.

  Lemma flow_set_halted m (s : state) : flow_m m s -> flow_inv (s <| s_st := Halted |>).
  Proof. intros H. unfold FlowInv.flow_inv. cbn. eapply flow_halted. eapply flow_eq; [..|exact H]; reflexivity. Qed.

  Lemma succeed_op_st s id resp : s_st (r_s (succeed_op s id resp)) = s_st s \/ s_st (r_s (succeed_op s id resp)) = Halted.
  Proof.
    unfold Model.succeed_op. destruct (lookup id (s_ops s)) as [o|]; [|left; reflexivity].
    destruct (release s id o) as [s1| |] eqn:Er; [|left; reflexivity..].
    destruct (release_core _ _ _ _ _ _ _ _ _ Er) as (_ & _ & _ & _ & _ & _ & _ & Hst).
    pose proof (ping_extension_core enc dec ores ires s1 o) as Hp. cbv zeta in Hp. destruct Hp as (_ & _ & _ & _ & _ & _ & _ & Hst').
    pose proof (disconnect_completion_core enc dec ores ires (ping_extension s1 o) o) as Hd. cbv zeta in Hd.
    destruct (disconnect_completion (ping_extension s1 o) o) as [s2 r]. cbn [fst] in Hd. destruct Hd as (_ & _ & _ & _ & _ & _ & _ & Hs2).
    assert (H : s_st s2 = s_st s \/ s_st s2 = Halted) by (destruct Hs2 as [E|E]; [left; congruence|right; exact E]).
    repeat dm; cbn [r_s]; exact H.
  Qed.

  Lemma flow_succeed_inv s id resp : flow_inv s -> flow_inv (r_s (succeed_op s id resp)).
  Proof. intros H. eapply flow_inv_of; [apply flow_succeed_op; exact H|apply succeed_op_st]. Qed.

  Lemma flow_handle_connack s now c : flow_inv s ->
    is_panic (h_out (handle_connack s now c)) = true \/ flow_inv (h_s (handle_connack s now c)).
  Proof.
    intros H. unfold Model.handle_connack. destruct (pstate_eqb (s_st s) PendingConnack) eqn:E; cbn [negb]; [|right; exact H].
    assert (Hst : s_st s = PendingConnack) by (destruct (s_st s); try discriminate; reflexivity).
    dm; [right; exact H|]. destruct (v_in None (Connack c)); [|right; exact H|left; reflexivity].
    unfold FlowInv.flow_inv in H. rewrite Hst in H.
    match goal with |- context [apply_session ?s2 ?sp] => set (s2v := s2) end.
    assert (H2 : flow_m PendingConnack s2v).
    { unfold s2v. destruct (cf_drain_one cfg); (eapply flow_nc_same; [discriminate|..|exact H]; cbn; try reflexivity; [apply H|intros id Hid; exact Hid]). }
    assert (Hs2 : s_settings s2v = Some (build_settings s c) /\ s_st s2v = Connected).
    { unfold s2v. destruct (cf_drain_one cfg); cbn; auto. }
    destruct Hs2 as [Hse Hsc].
    destruct (flow_apply_session s2v (ca_session_present c) H2) as [Hp|(Hf & Hpp & Hs & Hst3)]; cbv zeta in *.
    - left. destruct (r_out (apply_session s2v (ca_session_present c))); try discriminate. reflexivity.
    - right. assert (Hfi : flow_inv (r_s (apply_session s2v (ca_session_present c)))).
      { rewrite Hsc in Hst3. eapply flow_inv_of; [|exact Hst3]. eapply flow_connected; [exact Hf|exact Hpp|]. rewrite Hs. exact Hse. }
      destruct (r_out (apply_session s2v (ca_session_present c))); cbn [h_s]; exact Hfi.
  Qed.

  Lemma pre_connack_noff s : pre_connack s = false -> ~ offline (s_st s).
  Proof. unfold Model.pre_connack. intros H [E|E]; rewrite E in H; discriminate. Qed.

  Lemma flow_handle_packet s now p : flow_inv s ->
    is_panic (h_out (handle_packet s now p)) = true \/ flow_inv (h_s (handle_packet s now p)).
  Proof.
    intros H. destruct p; cbn [Model.handle_packet]; try (right; exact H).
    - apply flow_handle_connack. exact H.
    - (* PUBLISH *) right. unfold Model.handle_publish. dm; [exact H|]. dm; [exact H|].
      unfold Model.create_operation. dm; cbn [fst snd h_s].
      + unfold FlowInv.flow_inv. cbn. eapply flow_create with (m := s_st s) (o := new_op (Puback (default_ack (pub_pid p))) false None); [..|exact H]; cbn; try reflexivity.
        * left; reflexivity. * left; reflexivity.
        * intros id Hid. apply in_app_or in Hid. destruct Hid as [Hid|[<-|[]]]; [left; exact Hid|right; auto].
      + destruct (mem (pub_pid p) (s_q2in s)); unfold FlowInv.flow_inv; cbn;
          (eapply flow_create with (m := s_st s) (o := new_op (Pubrec (default_ack (pub_pid p))) false None); [..|exact H]; cbn; try reflexivity;
           [left; reflexivity|left; reflexivity|intros id Hid; apply in_app_or in Hid; destruct Hid as [Hid|[<-|[]]]; [left; exact Hid|right; auto]]).
    - (* PUBACK *) right. unfold Model.handle_puback. repeat dm; try exact H. apply flow_succeed_inv. exact H.
    - (* PUBREC *) right. unfold Model.handle_pubrec. destruct (pre_connack s) eqn:Epc; [exact H|].
      destruct (lookup (ack_pid p) (s_ppub s)) as [id|]; [|exact H]. destruct (lookup id (s_ops s)) as [o|]; [|exact H].
      destruct (op_packet o); try exact H. dm; [|exact H]. dm; [apply flow_succeed_inv; exact H|].
      set (fv := fun o0 : op => o0 <| op_pubrel := Some (Pubrel (default_ack (ack_pid p))) |>).
      assert (H1 : flow_m (s_st s) (s <| s_ops := update id fv (s_ops s) |>)).
      { eapply flow_update with (f := fv) (id := id); [..|exact H]; try reflexivity; [intros x; split; reflexivity|intros k Hk; exact Hk]. }
      unfold FlowInv.flow_inv. cbn [h_s]. cbn.
      eapply flow_noff with (s := s <| s_ops := update id fv (s_ops s) |>); [apply pre_connack_noff; exact Epc|..|exact H1]; try reflexivity.
      left. reflexivity.
    - (* PUBREL *) right. unfold Model.handle_pubrel. dm; [exact H|]. unfold Model.create_operation. cbn [fst snd h_s].
      unfold FlowInv.flow_inv. cbn. eapply flow_create with (m := s_st s) (o := new_op (Pubcomp (default_ack (ack_pid p))) false None); [..|exact H]; cbn; try reflexivity.
      + left; reflexivity. + left; reflexivity.
      + intros id Hid. apply in_app_or in Hid. destruct Hid as [Hid|[<-|[]]]; [left; exact Hid|right; auto].
    - (* PUBCOMP *) right. unfold Model.handle_pubcomp. repeat dm; try exact H. apply flow_succeed_inv. exact H.
    - (* SUBACK *) right. unfold Model.handle_suback. repeat dm; try exact H. apply flow_succeed_inv. exact H.
    - (* UNSUBACK *) right. unfold Model.handle_unsuback. repeat dm; try exact H; apply flow_succeed_inv; exact H.
    - (* PINGRESP *) right. unfold Model.handle_pingresp. repeat dm; try exact H; (eapply flow_inv_of; [eapply flow_eq; [..|exact H]; reflexivity|left; reflexivity]).
    - (* DISCONNECT *) right. unfold Model.handle_disconnect. repeat dm; exact H.
  Qed.

  Lemma flow_handle_packets ps : forall s now dn ev, flow_inv s ->
    is_panic (h_out (handle_packets s now ps dn ev)) = true \/ flow_inv (h_s (handle_packets s now ps dn ev)).
  Proof.
    induction ps as [|p rest IH]; intros s now dn ev H; cbn [Model.handle_packets]; [right; exact H|].
    match goal with |- context [match ?res with Ok _ => _ | Err _ => _ | Panic _ => _ end] =>
      assert (Hres : forall s1 p1, res = Ok (s1, p1) -> flow_inv s1); [|destruct res as [[s1 p1]| |] eqn:Eres] end.
    { intros s1 p1. unfold obind. repeat dm; intros E; inversion E; subst; try exact H.
      eapply flow_inv_of; [eapply flow_eq; [..|exact H]; reflexivity|left; reflexivity]. }
    2: right; exact H. 2: left; reflexivity.
    specialize (Hres s1 p1 eq_refl).
    destruct (v_in (s_settings s1) p1); [|right; apply (flow_set_halted (s_st s1)); exact Hres|left; reflexivity].
    destruct (flow_handle_packet s1 now p1 Hres) as [Hp|Hf].
    - left. destruct (h_out (handle_packet s1 now p1)); try discriminate. reflexivity.
    - destruct (h_out (handle_packet s1 now p1)); [apply IH; exact Hf|right; apply (flow_set_halted (s_st (h_s (handle_packet s1 now p1)))); exact Hf|left; reflexivity].
  Qed.

  Lemma flow_net_data s now data : flow_inv s ->
    is_panic (h_out (net_data s now data)) = true \/ flow_inv (halt_on_error (h_s (net_data s now data)) (h_out (net_data s now data))).
  Proof.
    intros H. unfold Model.net_data.
    dm; [right; cbn; apply (flow_set_halted (s_st s)); exact H|].
    dm; [right; cbn; apply (flow_set_halted (s_st s)); eapply flow_eq; [..|exact H]; reflexivity|].
    destruct (dec_feed _ _ _ _) as [[d' ps] r].
    assert (H1 : flow_inv (s <| s_dec := d' |>)) by (eapply flow_inv_of; [eapply flow_eq; [..|exact H]; reflexivity|left; reflexivity]).
    destruct r; [|right; cbn; apply (flow_set_halted (s_st s)); eapply flow_eq; [..|exact H]; reflexivity|left; reflexivity].
    destruct (flow_handle_packets ps (s <| s_dec := d' |>) now [] [] H1) as [Hp|Hf]; [left; exact Hp|right].
    destruct (h_out (handle_packets (s <| s_dec := d' |>) now ps [] [])); cbn [Model.halt_on_error]; [exact Hf| |];
      apply (flow_set_halted (s_st (h_s (handle_packets (s <| s_dec := d' |>) now ps [] [])))); exact Hf.
  Qed.

End Engine.
