(* C05, run level: the ABSTRACT SPECIFICATION of inbound PUBLISH handling, as pure functions over
   a processing log (no engine state, no component).

   A log [item] is written for every packet the engine hands to its packet dispatcher
   (handle_packet): the packet (a PUBLISH carries the topic as resolved by the inbound alias
   resolver), the protocol state at that moment, the handler's result ([Ok] = the packet was
   PROCESSED; an [Err]/[Panic] item is always the last one of its data call because the loop stops
   there), the operation id an acknowledgement created now would receive, whether the packet was a
   CONNACK on which the session rules were run, and (PUBREC only) the outbound QoS 2 operation whose
   PUBREL it queues.  Engine resets are logged as [EReset].  The log of a run is extracted by
   InboundLoop.plog / InboundRun.run_log from the inputs and the PRE-states only.

   Specification:
     q2_spec : the set of inbound QoS 2 packet ids received and not yet released
               (+ processed QoS 2 PUBLISH, - processed PUBREL, cleared by a session-absent CONNACK and by reset);
     ev_spec : the packet events surfaced, in order;
     hq_item : what is appended to the back of the high-priority queue.
   This file also proves, on the specification alone, that between two releases of an id at most
   one QoS 2 publish with that id is surfaced (spec_surfaced_once). *)
From GM Require Import Base.Prelude Base.Outcome Codec.Packets Codec.Settings Engine.Model.
Open Scope N_scope.

Record item := mkItem {
  it_p : packet;            (* packet handed to the dispatcher; PUBLISH: topic already resolved *)
  it_st : pstate;           (* protocol state when it was handled *)
  it_out : outcome unit;    (* the handler's result; Ok = processed *)
  it_id : N;                (* next operation id at that moment *)
  it_sess : bool;           (* CONNACK only: awaited, reason code 0, valid: the session rules were applied *)
  it_rel : option N }.      (* PUBREC only: the outbound QoS 2 operation that now carries a PUBREL *)

Inductive entry := EPkt (i : item) | EReset.

Definition it_ok (i : item) : bool := match it_out i with Ok _ => true | _ => false end.
(* the engine treats every QoS other than 0 and 1 as 2 (the decoder only produces 0, 1, 2) *)
Definition is_q2 (pb : publish) : bool := negb (pub_qos pb =? 0) && negb (pub_qos pb =? 1).
Definition q2_add (p : N) (q : list N) : list N := if mem p q then q else set_insert p q.

(* ---- A: the set of unreleased inbound QoS 2 ids ---- *)
Definition q2_item (q : list N) (i : item) : list N :=
  match it_p i with
  | Publish pb => if it_ok i && is_q2 pb then q2_add (pub_pid pb) q else q
  | Pubrel a => if it_ok i then set_remove (ack_pid a) q else q
  | Connack c => if it_sess i && negb (ca_session_present c) then [] else q
  | _ => q
  end.
Definition q2_entry (q : list N) (e : entry) : list N :=
  match e with EPkt i => q2_item q i | EReset => [] end.
Definition q2_spec (q : list N) (log : list entry) : list N := fold_left q2_entry log q.

(* ---- B: packet events surfaced to the application ---- *)
Definition ev_item (q : list N) (i : item) : list packet :=
  match it_p i with
  | Publish pb => if it_ok i then (if is_q2 pb && mem (pub_pid pb) q then [] else [Publish pb]) else []
  | Connack c =>
      (* a successful CONNACK, and a refusing one (non-zero reason code) while one is awaited *)
      if it_ok i || (pstate_eqb (it_st i) PendingConnack && negb (ca_rc c =? 0)) then [Connack c] else []
  | Disconnect d =>
      (* a server DISCONNECT accepted by the engine (MQTT 5, after the CONNACK): reported, and the
         handler returns ConnectionClosed, which halts the engine *)
      match it_out i with Err EConnectionClosed => [Disconnect d] | _ => [] end
  | _ => []
  end.
Definition ev_entry (q : list N) (e : entry) : list packet :=
  match e with EPkt i => ev_item q i | EReset => [] end.
Fixpoint ev_spec (q : list N) (log : list entry) : list packet :=
  match log with
  | [] => []
  | e :: r => ev_entry q e ++ ev_spec (q2_entry q e) r
  end.

(* ---- C: acknowledgements owed ---- *)
Definition ack_of (i : item) : option packet :=
  match it_p i with
  | Publish pb =>
      if it_ok i then
        if pub_qos pb =? 0 then None
        else if pub_qos pb =? 1 then Some (Puback (default_ack (pub_pid pb)))
        else Some (Pubrec (default_ack (pub_pid pb)))       (* first delivery or duplicate alike *)
      else None
  | Pubrel a => if it_ok i then Some (Pubcomp (default_ack (ack_pid a))) else None   (* known id or not *)
  | _ => None
  end.
(* ids appended to the BACK of the high-priority queue by the handler of this item *)
Definition hq_item (i : item) : list N :=
  match ack_of i with
  | Some _ => [it_id i]
  | None => match it_rel i with Some id => [id] | None => [] end
  end.

Definition pkts (l : list item) : list entry := map EPkt l.

(* ---- compositionality ---- *)
Lemma q2_spec_app q a b : q2_spec q (a ++ b) = q2_spec (q2_spec q a) b.
Proof. unfold q2_spec. apply fold_left_app. Qed.

Lemma ev_spec_app a : forall q b, ev_spec q (a ++ b) = ev_spec q a ++ ev_spec (q2_spec q a) b.
Proof.
  induction a as [|e r IH]; intros q b; [reflexivity|].
  cbn [app ev_spec]. rewrite IH, <- app_assoc. reflexivity.
Qed.

Lemma q2_spec_pkts_cons q i r : q2_spec q (EPkt i :: r) = q2_spec (q2_item q i) r.
Proof. reflexivity. Qed.

(* an item whose handler failed changes the set only if it is a CONNACK on which the session rules
   were run (InboundLoop.failed_session_kind: only when they fail with UserInitiatedDisconnect); so,
   barring that, the set is the fold over the PROCESSED items *)
Lemma q2_failed_noop q i : it_ok i = false -> it_sess i = false -> q2_item q i = q.
Proof.
  intros Ho Hs. unfold q2_item. rewrite Ho, Hs. cbn [andb]. destruct (it_p i); reflexivity.
Qed.

Lemma q2_spec_processed l : forall q,
  Forall (fun i => it_ok i = false -> it_sess i = false) l ->
  q2_spec q (pkts l) = q2_spec q (pkts (filter it_ok l)).
Proof.
  induction l as [|i r IH]; intros q H; [reflexivity|]. inversion H as [|? ? Hi Hr]; subst.
  cbn [filter pkts map]. fold (pkts r). destruct (it_ok i) eqn:Eo.
  - cbn [pkts map]. fold (pkts (filter it_ok r)). rewrite !q2_spec_pkts_cons. apply IH, Hr.
  - rewrite q2_spec_pkts_cons, (q2_failed_noop q i Eo (Hi eq_refl)). apply IH, Hr.
Qed.

(* ---- set lemmas (for arbitrary lists: no sortedness needed) ---- *)
Lemma mem_set_insert_same k l : mem k (set_insert k l) = true.
Proof.
  induction l as [|x r IH]; cbn [set_insert]; [unfold mem; cbn; rewrite N.eqb_refl; reflexivity|].
  destruct (k <? x); [unfold mem; cbn; rewrite N.eqb_refl; reflexivity|].
  destruct (x =? k) eqn:E.
  - unfold mem. cbn [existsb]. rewrite (N.eqb_sym k x), E. reflexivity.
  - unfold mem in *. cbn [existsb]. rewrite IH. apply orb_true_r.
Qed.

Lemma mem_set_insert_keep p k l : mem p l = true -> mem p (set_insert k l) = true.
Proof.
  induction l as [|x r IH]; [discriminate|]. cbn [set_insert]. intros H.
  destruct (k <? x); [unfold mem in *; cbn [existsb] in *; rewrite H; apply orb_true_r|].
  destruct (x =? k); [exact H|].
  unfold mem in *. cbn [existsb] in *. destruct (p =? x); [reflexivity|]. cbn [orb] in *. apply IH, H.
Qed.

Lemma mem_q2_add_keep p k l : mem p l = true -> mem p (q2_add k l) = true.
Proof. intros H. unfold q2_add. destruct (mem k l); [exact H|apply mem_set_insert_keep, H]. Qed.

Lemma mem_q2_add_same k l : mem k (q2_add k l) = true.
Proof. unfold q2_add. destruct (mem k l) eqn:E; [exact E|apply mem_set_insert_same]. Qed.

Lemma mem_set_remove_other p k l : p <> k -> mem p (set_remove k l) = mem p l.
Proof.
  intros Hne. unfold set_remove, mem. induction l as [|x r IH]; [reflexivity|]. cbn [filter existsb].
  destruct (x =? k) eqn:E; cbn [negb existsb].
  - rewrite IH. destruct (p =? x) eqn:E2; [lia|reflexivity].
  - rewrite IH. reflexivity.
Qed.

Lemma mem_set_remove_same k l : mem k (set_remove k l) = false.
Proof.
  unfold set_remove, mem. induction l as [|x r IH]; [reflexivity|]. cbn [filter].
  destruct (x =? k) eqn:E; cbn [negb existsb]; [exact IH|].
  rewrite IH. rewrite N.eqb_sym, E. reflexivity.
Qed.

(* ---- exactly-once surfacing, on the specification ---- *)
(* a surfaced QoS 2 publish with packet id [p] *)
Definition surfaced (p : N) (pk : packet) : bool :=
  match pk with Publish pb => is_q2 pb && (pub_pid pb =? p) | _ => false end.
(* log entries that release id [p]: a processed PUBREL p, a CONNACK that drops the session, a reset *)
Definition releases (p : N) (e : entry) : bool :=
  match e with
  | EReset => true
  | EPkt i =>
      match it_p i with
      | Pubrel a => it_ok i && (ack_pid a =? p)
      | Connack c => it_sess i && negb (ca_session_present c)
      | _ => false
      end
  end.
Definition count (f : packet -> bool) (l : list packet) : nat := length (filter f l).

Lemma count_app f a b : count f (a ++ b) = (count f a + count f b)%nat.
Proof. unfold count. rewrite filter_app, app_length. reflexivity. Qed.

(* while [p] is not released: it stays in the set once it is there ... *)
Lemma unreleased_stays p e q : releases p e = false -> mem p q = true -> mem p (q2_entry q e) = true.
Proof.
  destruct e as [i|]; [|discriminate]. unfold releases, q2_entry, q2_item.
  destruct (it_p i) as [x|c|pb|x|x|a|x|x|x|x|x| | |d|x]; intros Hr Hm; try exact Hm.
  - destruct (it_sess i && negb (ca_session_present c)); [discriminate|exact Hm].
  - destruct (it_ok i && is_q2 pb); [apply mem_q2_add_keep, Hm|exact Hm].
  - destruct (it_ok i); [|exact Hm]. cbn [andb] in Hr.
    rewrite mem_set_remove_other; [exact Hm|]. intros ->. rewrite N.eqb_refl in Hr. discriminate.
Qed.

(* ... an entry surfaces at most one publish, none with a QoS 2 id that is in the set, and a QoS 2
   publish that is surfaced is in the set afterwards *)
Lemma entry_surfaces p e q :
  (count (surfaced p) (ev_entry q e) <= 1)%nat /\
  (mem p q = true -> count (surfaced p) (ev_entry q e) = 0%nat) /\
  (count (surfaced p) (ev_entry q e) = 1%nat -> mem p (q2_entry q e) = true).
Proof.
  destruct e as [i|]; [|cbn; repeat split; try lia; discriminate].
  unfold ev_entry, ev_item, q2_entry, q2_item.
  destruct (it_p i) as [x|c|pb|x|x|x|x|x|x|x|x| | |d|x]; try (cbn; repeat split; try lia; discriminate).
  - destruct (_ || _); cbn; repeat split; try lia; discriminate.
  - destruct (it_ok i); [|cbn; repeat split; try lia; discriminate]. cbn [andb].
    destruct (is_q2 pb) eqn:Eq; cbn [andb].
    + destruct (mem (pub_pid pb) q) eqn:Em; [cbn; repeat split; try lia; discriminate|].
      unfold count. cbn [filter surfaced]. rewrite Eq. cbn [andb].
      destruct (pub_pid pb =? p) eqn:Ep; cbn [length]; repeat split; try lia; try discriminate.
      * intros Hm. assert (pub_pid pb = p) by lia. subst p. congruence.
      * intros _. assert (pub_pid pb = p) by lia. subst p. apply mem_q2_add_same.
    + unfold count. cbn [filter surfaced]. rewrite Eq. cbn. repeat split; try lia; discriminate.
  - destruct (it_out i) as [|k|]; try (cbn; repeat split; try lia; discriminate).
    destruct k; cbn; repeat split; try lia; discriminate.
Qed.

(* the segment theorem: over any stretch of the log that does not release [p], at most one QoS 2
   publish with id [p] is surfaced, and none at all if [p] was already in the set *)
Theorem spec_surfaced_once p seg : forall q,
  forallb (fun e => negb (releases p e)) seg = true ->
  (count (surfaced p) (ev_spec q seg) <= (if mem p q then 0 else 1))%nat.
Proof.
  induction seg as [|e r IH]; intros q Hr; [cbn; destruct (mem p q); lia|].
  cbn [forallb] in Hr. apply andb_prop in Hr. destruct Hr as [He Hr]. apply negb_true_iff in He.
  cbn [ev_spec]. rewrite count_app. specialize (IH (q2_entry q e) Hr).
  destruct (entry_surfaces p e q) as (H1 & H0 & Hin).
  destruct (mem p q) eqn:Em.
  - rewrite (H0 eq_refl). rewrite (unreleased_stays p e q He Em) in IH. lia.
  - destruct (count (surfaced p) (ev_entry q e)) as [|[|n]] eqn:Ec; [destruct (mem p (q2_entry q e)); lia| |lia].
    rewrite (Hin eq_refl) in IH. lia.
Qed.

(* a release really releases: afterwards [p] is not in the set (so the next QoS 2 publish with this
   id is a new message and is surfaced) *)
Lemma pubrel_releases q i a : it_p i = Pubrel a -> it_ok i = true -> mem (ack_pid a) (q2_item q i) = false.
Proof. intros Hp Ho. unfold q2_item. rewrite Hp, Ho. apply mem_set_remove_same. Qed.

Lemma new_id_surfaced q i pb :
  it_p i = Publish pb -> it_ok i = true -> is_q2 pb = true -> mem (pub_pid pb) q = false ->
  ev_item q i = [Publish pb] /\ mem (pub_pid pb) (q2_item q i) = true.
Proof.
  intros Hp Ho Hq Hm. unfold ev_item, q2_item. rewrite Hp, Ho, Hq, Hm. cbn [andb]. split; [reflexivity|apply mem_q2_add_same].
Qed.

(* the PUBCOMP the engine owes for a PUBREL always carries reason code 0 (Success), also for an id
   it never saw (MQTT 5 would allow 0x92 Packet Identifier Not Found; the code does not use it) *)
Lemma pubcomp_reason_code i a pk : it_p i = Pubrel a -> ack_of i = Some pk ->
  pk = Pubcomp (default_ack (ack_pid a)) /\ ack_rc (default_ack (ack_pid a)) = 0.
Proof. unfold ack_of. intros ->. destruct (it_ok i); [|discriminate]. intros H; inversion H. split; reflexivity. Qed.
