(* The component hypotheses of the well-formedness development (WFDefs.comps_ok) discharged for
   the concrete engine instance of Engine/Instance.v: the step encoder, the framing decoder,
   the alias resolvers and the internal validators never panic (the decoder on well-formed
   decoder states, which is what the engine feeds it).  Hence the closed theorems about
   i_init / i_step / i_run, the very functions the correspondence check executes. *)
From GM Require Import Base.Prelude Base.Outcome Codec.Packets Codec.Settings Codec.Prim Codec.Steps Codec.ImplEncode
  Codec.ImplDecode Codec.Framing Alias.Outbound Alias.Inbound Validate.Topic Validate.Rules Engine.Model Engine.Instance
  CodecProofs.FramingP CodecProofs.DecNoPanic EngineProofs.WFDefs EngineProofs.WFStep EngineProofs.WFTrack EngineProofs.WFProps.
Open Scope N_scope.

(* ---- never-panics, compositionally ---- *)
Definition np {A} (o : outcome A) : Prop := forall site, o <> Panic site.

Lemma np_ok {A} (a : A) : np (Ok a).
Proof. intros site; discriminate. Qed.
Lemma np_err {A} k : np (@Err A k).
Proof. intros site; discriminate. Qed.
Lemma np_bind {A B} (o : outcome A) (f : A -> outcome B) :
  np o -> (forall a, o = Ok a -> np (f a)) -> np (obind o f).
Proof.
  intros Ho Hf. destruct o as [x|k|st]; cbn.
  - apply Hf. reflexivity.
  - apply np_err.
  - exfalso. exact (Ho st eq_refl).
Qed.
Lemma np_is_panic {A} (o : outcome A) : is_panic o = false -> np o.
Proof. destruct o as [x|k|st]; cbn; intros H s0; congruence. Qed.

Ltac np_step :=
  match goal with
  | |- np (Ok _) => apply np_ok
  | |- np (Err _) => apply np_err
  | |- np vfail => apply np_err
  | |- np (obind _ _) => apply np_bind; [|intros ? ?]
  | |- np (if ?b then _ else _) => destruct b
  | |- np (match ?x with _ => _ end) => destruct x
  | |- np (let (_, _) := ?x in _) => destruct x
  end.
Ltac np_tac := repeat np_step.

(* ---- the step encoder ---- *)
Lemma np_vli_size v : np (vli_size v).
Proof. unfold vli_size. np_tac. Qed.
Lemma np_encode_vli v : np (encode_vli v).
Proof. unfold encode_vli. np_tac. Qed.

Lemma vli_size_small v sz : vli_size v = Ok sz -> v < 268435456.
Proof. unfold vli_size. repeat match goal with |- context [if ?b then _ else _] => destruct b eqn:? end; intros H; try discriminate; lia. Qed.

Lemma np_step_bytes s : np (step_bytes s).
Proof. destruct s; cbn; try apply np_ok. apply np_encode_vli. Qed.

Lemma np_encode_loop : forall steps l cap, np (encode_loop steps l cap).
Proof.
  induction steps as [|s rest IH]; intros l cap; cbn [encode_loop]; [apply np_ok|].
  destruct (l + 4 <=? cap); [|apply np_ok].
  destruct s; try (apply np_bind; [apply np_step_bytes|intros bs _; apply np_bind; [apply IH|intros [out r'] _; apply np_ok]]).
  cbv zeta. destruct (_ <? _); [apply np_ok|]. apply np_bind; [apply IH|intros [out r'] _; apply np_ok].
Qed.

Lemma np_encode_call steps fill cap : 4 <= cap -> np (encode_call steps fill cap).
Proof.
  intros Hc. unfold encode_call. destruct (cap <? 4) eqn:E; [lia|].
  apply np_bind; [apply np_encode_loop|intros [out r'] _; apply np_ok].
Qed.

Lemma np_subid_lengths : forall l acc, np (subid_lengths l acc).
Proof. induction l as [|v r IH]; intros acc; cbn; [apply np_ok|]. apply np_bind; [apply np_vli_size|intros sz _; apply IH]. Qed.

Lemma np_ack_lengths a : np (ack_lengths a).
Proof. unfold ack_lengths. np_tac. apply np_vli_size. Qed.

Lemma ack_lengths_zero a total pl : ack_lengths a = Ok (total, pl) -> pl = 0 -> total = (if ack_rc a =? 0 then 2 else 3).
Proof.
  unfold ack_lengths. destruct (_ =? 0) eqn:E.
  - destruct (ack_rc a =? 0); intros H; inversion H; reflexivity.
  - destruct (vli_size _) as [sz| |] eqn:Ev; cbn; try discriminate. intros H Hz. inversion H as [[Ht Hp]].
    apply vli_size_small in Ev. exfalso. unfold u32 in Hp. lia.
Qed.

Lemma np_ack_steps5 fb a : np (ack_steps5 fb a).
Proof.
  unfold ack_steps5. apply np_bind; [apply np_ack_lengths|]. intros [total pl] Hl.
  destruct (ack_rc a =? 0) eqn:Erc; destruct (pl =? 0) eqn:Epl; cbn [andb]; try apply np_ok.
  - assert (pl = 0) by lia. rewrite (ack_lengths_zero _ _ _ Hl H), Erc. cbn. apply np_ok.
  - assert (pl = 0) by lia. rewrite (ack_lengths_zero _ _ _ Hl H), Erc. cbn. apply np_ok.
Qed.

Lemma np_disconnect_lengths d : np (disconnect_lengths d).
Proof. unfold disconnect_lengths. np_tac. apply np_vli_size. Qed.

Lemma disconnect_lengths_zero d total pl :
  disconnect_lengths d = Ok (total, pl) -> pl = 0 -> total = (if d_rc d =? 0 then 0 else 1).
Proof.
  unfold disconnect_lengths. cbv zeta. destruct (_ =? 0) eqn:E.
  - destruct (d_rc d =? 0); intros H; inversion H; reflexivity.
  - destruct (vli_size _) as [sz| |] eqn:Ev; cbn; try discriminate. intros H Hz. inversion H as [[Ht Hp]].
    apply vli_size_small in Ev. exfalso. unfold u32 in Hp. lia.
Qed.

Lemma np_disconnect_steps5 d : np (disconnect_steps5 d).
Proof.
  unfold disconnect_steps5. apply np_bind; [apply np_disconnect_lengths|]. intros [total pl] Hl.
  destruct (pl =? 0) eqn:Epl; destruct (d_rc d =? 0) eqn:Erc; cbn [andb]; try apply np_ok.
  - assert (pl = 0) by lia. rewrite (disconnect_lengths_zero _ _ _ Hl H), Erc. cbn. apply np_ok.
  - assert (pl = 0) by lia. rewrite (disconnect_lengths_zero _ _ _ Hl H), Erc. cbn. apply np_ok.
Qed.

Lemma np_publish_lengths5 p r : np (publish_lengths5 p r).
Proof. unfold publish_lengths5. cbv zeta. np_tac; try apply np_subid_lengths; apply np_vli_size. Qed.
Lemma np_connect_lengths5 c : np (connect_lengths5 c).
Proof. unfold connect_lengths5. cbv zeta. np_tac; apply np_vli_size. Qed.
Lemma np_subscribe_lengths5 s : np (subscribe_lengths5 s).
Proof. unfold subscribe_lengths5. cbv zeta. np_tac; apply np_vli_size. Qed.
Lemma np_unsubscribe_lengths5 u : np (unsubscribe_lengths5 u).
Proof. unfold unsubscribe_lengths5. cbv zeta. np_tac; apply np_vli_size. Qed.
Lemma np_auth_lengths a : np (auth_lengths a).
Proof. unfold auth_lengths. cbv zeta. np_tac; apply np_vli_size. Qed.

Lemma np_impl_lengths5 p r : np (impl_lengths5 p r).
Proof.
  destruct p; cbn [impl_lengths5]; try apply np_err;
    auto using np_publish_lengths5, np_ack_lengths, np_subscribe_lengths5, np_unsubscribe_lengths5, np_disconnect_lengths, np_auth_lengths.
  apply np_bind; [apply np_connect_lengths5|]. intros [[t c] w] _. apply np_ok.
Qed.

Lemma np_impl_steps v p r : np (impl_steps v p r).
Proof.
  destruct v, p; cbn [impl_steps impl_steps5 impl_steps311]; try apply np_err; try apply np_ok;
    try apply np_ack_steps5; try apply np_disconnect_steps5.
  all: try (unfold connect_steps311, connect_length311; cbv zeta; np_tac; fail).
  all: try (unfold connect_steps5; apply np_bind; [apply np_connect_lengths5|]; intros [[t c] w] _; apply np_ok).
  all: try (unfold publish_steps5; apply np_bind; [apply np_publish_lengths5|]; intros [t c] _; apply np_ok).
  all: try (unfold subscribe_steps5; apply np_bind; [apply np_subscribe_lengths5|]; intros [t c] _; apply np_ok).
  all: try (unfold unsubscribe_steps5; apply np_bind; [apply np_unsubscribe_lengths5|]; intros [t c] _; apply np_ok).
  all: try (unfold auth_steps5; apply np_bind; [apply np_auth_lengths|]; intros [t c] _; np_tac; fail).
  all: try (unfold publish_steps311, subscribe_steps311, unsubscribe_steps311, ack_steps311, disconnect_steps311, auth_steps311, pingreq_steps;
            first [apply np_ok|apply np_err]).
Qed.

(* ---- the internal validators ---- *)
Lemma np_check_packet_size s p r : np (check_packet_size (Some s) p r).
Proof.
  unfold check_packet_size. apply np_bind; [apply np_impl_lengths5|]. intros [t c] _.
  apply np_bind; [apply np_vli_size|]. intros sz _. np_tac.
Qed.

Lemma np_topic_filter f caps nl : caps <> None -> np (is_valid_topic_filter_internal f caps nl).
Proof.
  intros Hc. unfold is_valid_topic_filter_internal. cbv zeta. destruct caps as [[a b]|]; [|congruence]. np_tac.
Qed.

Lemma np_validate_subscriptions s : forall l, np (validate_subscriptions (Some s) l).
Proof.
  induction l as [|x r IH]; cbn [validate_subscriptions]; [apply np_ok|].
  apply np_bind; [apply np_topic_filter; discriminate|]. intros ok _. destruct (negb ok); [apply np_err|exact IH].
Qed.

Lemma np_validate_unsubscribe_filters s : forall l, np (validate_unsubscribe_filters (Some s) l).
Proof.
  induction l as [|x r IH]; cbn [validate_unsubscribe_filters]; [apply np_ok|].
  apply np_bind; [apply np_topic_filter; discriminate|]. intros ok _. destruct (negb ok); [apply np_err|exact IH].
Qed.

Lemma np_v_out_some s co r p : np (validate_outbound_internal (Some s) co r p).
Proof.
  destruct p; cbn [validate_outbound_internal]; try apply np_ok; try apply np_err.
  - unfold validate_publish_packet_outbound_internal. apply np_bind; [apply np_check_packet_size|]. intros st _. np_tac.
  - unfold validate_ack_outbound_internal. apply np_bind; [apply np_check_packet_size|]. intros st _. np_tac.
  - unfold validate_ack_outbound_internal. apply np_bind; [apply np_check_packet_size|]. intros st _. np_tac.
  - unfold validate_ack_outbound_internal. apply np_bind; [apply np_check_packet_size|]. intros st _. np_tac.
  - unfold validate_ack_outbound_internal. apply np_bind; [apply np_check_packet_size|]. intros st _. np_tac.
  - unfold validate_subscribe_packet_outbound_internal. apply np_bind; [apply np_check_packet_size|]. intros st _.
    destruct (_ =? 0); [apply np_err|apply np_validate_subscriptions].
  - unfold validate_unsubscribe_packet_outbound_internal. apply np_bind; [apply np_check_packet_size|]. intros st _.
    destruct (_ =? 0); [apply np_err|apply np_validate_unsubscribe_filters].
  - unfold validate_disconnect_packet_outbound_internal. apply np_bind; [apply np_check_packet_size|]. intros st _. cbv zeta. np_tac.
  - unfold validate_auth_packet_outbound_internal. apply np_bind; [apply np_check_packet_size|]. intros st _. apply np_ok.
Qed.

Lemma np_v_in st p : np (validate_inbound_internal st p).
Proof.
  destruct p; cbn [validate_inbound_internal]; try apply np_ok; try apply np_err;
    try (unfold validate_pid_nonzero; np_tac; fail).
  - unfold validate_connack_packet_inbound_internal, validate_optional_integer_non_zero. np_tac.
  - unfold validate_publish_packet_inbound_internal. np_tac.
  - unfold validate_disconnect_packet_inbound_internal. np_tac.
  - unfold validate_auth_packet_inbound_internal. np_tac.
Qed.

(* ---- the alias resolvers ---- *)
Lemma np_lru_resolve cur c t : np (lru_resolve_topic_alias cur c t).
Proof.
  unfold lru_resolve_topic_alias. destruct (cur =? 0) eqn:E0; [apply np_ok|].
  destruct (lru_peek c t); [apply np_ok|]. cbv zeta. destruct (cur <=? len c) eqn:El; [|apply np_ok].
  destruct c as [|x r]; [cbn in El; unfold len in El; cbn in El; lia|].
  unfold lru_peek_lru. destruct (last (x :: r) ([], 0)). apply np_ok.
Qed.

Lemma np_ores_resolve s a t : np (ores_resolve s a t).
Proof.
  destruct s; cbn [ores_resolve]; [apply np_ok| |].
  - cbv zeta. np_tac.
  - apply np_bind; [apply np_lru_resolve|]. intros r _. np_tac.
Qed.

Lemma np_ires_resolve s a t : np (ires_resolve s a t).
Proof. unfold ires_resolve. np_tac. Qed.

(* ---- the record ---- *)
Definition instance_comps_ok :
  comps_ok enc impl_steps encode_call decoder decoder_init decode_bytes ores ores_reset ores_resolve
           ires ires_reset ires_resolve validate_outbound_internal validate_inbound_internal.
Proof.
  refine (mkCompsOk _ _ _ _ _ _ _ _ _ _ _ _ _ _
            (fun _ => True) Framing.wf (fun _ => True) (fun _ => True) _ _ _ _ _ _ _ _ _ _ _).
  - intros v p r. split; [apply np_impl_steps|auto].
  - intros e fill cap _ Hc. split; [apply np_encode_call; exact Hc|auto].
  - exact wf_init.
  - intros v m d b Hw. pose proof (decode_bytes_no_panic v m d b Hw) as H.
    destruct (decode_bytes v m d b) as [[d' ps] r]. cbn [fst snd]. destruct H as [Hp Hw']. split; [apply np_is_panic; exact Hp|exact Hw'].
  - intros o a t _. split; [apply np_ores_resolve|auto].
  - auto.
  - intros i a t _. split; [apply np_ires_resolve|auto].
  - auto.
  - intros st co r p. apply np_v_out_some.
  - intros co r c site. cbn. discriminate.
  - intros st p. apply np_v_in.
Defined.

(* ---- closed theorems about the concrete engine i_init / i_step / i_run ---- *)
Section Instance.
  Variable cfg : config.
  Hypothesis Hcfg : ok_cfg cfg.
  Variable k : resolver_kind.
  Variable h : list event.
  Hypothesis Hh : Forall ok_event h.

  Let o0 := ores_init k.
  Let i0 := ires_init (match co_tam (cf_connect cfg) with Some m => m | None => 0 end).

  Theorem instance_reachable_wf : WF cfg (fst (i_run cfg (i_init cfg k) h)).
  Proof. exact (proj1 (reachable_wf _ _ _ enc_done _ _ _ _ _ _ _ _ _ _ _ cfg instance_comps_ok Hcfg o0 i0 h I I Hh)). Qed.

  Theorem instance_decoder_wf : Framing.wf (s_dec (fst (i_run cfg (i_init cfg k) h))).
  Proof.
    pose proof (proj2 (reachable_wf _ _ _ enc_done _ _ _ _ _ _ _ _ _ _ _ cfg instance_comps_ok Hcfg o0 i0 h I I Hh)) as H.
    exact (proj1 (proj2 H)).
  Qed.

  Theorem instance_no_panic : forall out, In out (snd (i_run cfg (i_init cfg k) h)) -> forall site, o_res out <> Panic site.
  Proof. exact (no_panic _ _ _ enc_done _ _ _ _ _ _ _ _ _ _ _ cfg instance_comps_ok Hcfg o0 i0 h I I Hh). Qed.

  Theorem instance_close_clean now :
    s_st (fst (i_run cfg (i_init cfg k) h)) <> Disconnected ->
    o_res (snd (i_step cfg (fst (i_run cfg (i_init cfg k) h)) (EvClose now))) = Ok tt /\
    s_st (fst (i_step cfg (fst (i_run cfg (i_init cfg k) h)) (EvClose now))) = Disconnected.
  Proof. exact (close_clean _ _ _ enc_done _ _ _ _ _ _ _ _ _ _ _ cfg instance_comps_ok Hcfg o0 i0 h now I I Hh). Qed.

  Theorem instance_nonzero_unique :
    forall i o p, lookup i (s_ops (fst (i_run cfg (i_init cfg k) h))) = Some o -> op_pid o = Some p ->
      1 <= p <= 65535 /\ lookup p (s_alloc (fst (i_run cfg (i_init cfg k) h))) = Some i /\
      forall j o', lookup j (s_ops (fst (i_run cfg (i_init cfg k) h))) = Some o' -> op_pid o' = Some p -> j = i.
  Proof. exact (nonzero_unique _ _ _ enc_done _ _ _ _ _ _ _ _ _ _ _ cfg instance_comps_ok Hcfg o0 i0 h I I Hh). Qed.

  Theorem instance_no_leak :
    (forall p i, lookup p (s_alloc (fst (i_run cfg (i_init cfg k) h))) = Some i ->
       exists o, lookup i (s_ops (fst (i_run cfg (i_init cfg k) h))) = Some o /\ op_pid o = Some p) /\
    (s_ops (fst (i_run cfg (i_init cfg k) h)) = [] -> s_alloc (fst (i_run cfg (i_init cfg k) h)) = []).
  Proof. exact (no_leak _ _ _ enc_done _ _ _ _ _ _ _ _ _ _ _ cfg instance_comps_ok Hcfg o0 i0 h I I Hh). Qed.

  Theorem instance_retransmission_same_id now :
    s_st (fst (i_run cfg (i_init cfg k) h)) <> Disconnected ->
    forall i o', lookup i (s_ops (fst (i_step cfg (fst (i_run cfg (i_init cfg k) h)) (EvClose now)))) = Some o' ->
      exists o, lookup i (s_ops (fst (i_run cfg (i_init cfg k) h))) = Some o /\ op_pid o' = op_pid o.
  Proof. exact (retransmission_same_id _ _ _ enc_done _ _ _ _ _ _ _ _ _ _ _ cfg instance_comps_ok Hcfg o0 i0 h now I I Hh). Qed.
End Instance.

(* ---- no operation is silently dropped, for the concrete engine ---- *)
(* the clients' submission-time validator (validate_packet_outbound) guarantees ok_submit *)
Lemma validate_outbound_sub_ok p : validate_outbound p = Ok tt -> sub_ok p.
Proof.
  destruct p; cbn; try exact (fun _ => I). unfold validate_publish_packet_outbound.
  destruct (negb (pub_pid p =? 0)); [discriminate|]. destruct (pub_dup p); [discriminate|reflexivity].
Qed.

Definition valid_submission (e : event) : Prop :=
  match e with EvUser _ p _ => validate_outbound p = Ok tt | _ => True end.

Lemma valid_submission_ok h : Forall valid_submission h -> Forall ok_submit h.
Proof.
  induction 1 as [|e r He Hr IH]; constructor; [|exact IH].
  destruct e; cbn in *; try exact I. apply validate_outbound_sub_ok. exact He.
Qed.

Theorem instance_no_silent_drop (cfg : config) (k : resolver_kind) (h : list event) :
  ok_cfg cfg -> Forall ok_event h -> Forall valid_submission h ->
  forall id op, lookup id (s_ops (fst (i_run cfg (i_init cfg k) h))) = Some op ->
    In id (s_uq (fst (i_run cfg (i_init cfg k) h))) \/ In id (s_rq (fst (i_run cfg (i_init cfg k) h))) \/
    In id (s_hq (fst (i_run cfg (i_init cfg k) h))) \/ s_cur (fst (i_run cfg (i_init cfg k) h)) = Some id \/
    In id (s_pwco (fst (i_run cfg (i_init cfg k) h))) \/
    In id (map snd (s_ppub (fst (i_run cfg (i_init cfg k) h)))) \/ In id (map snd (s_pnon (fst (i_run cfg (i_init cfg k) h)))).
Proof.
  intros Hcfg Hall Hval.
  exact (no_silent_drop _ _ _ enc_done _ _ _ _ _ _ _ _ _ _ _ cfg instance_comps_ok Hcfg _ _ h I I Hall (valid_submission_ok h Hval)).
Qed.
