(* Preservation of the structural invariant [WFc] by the primitive mutations of the engine,
   stated on cores (pure list reasoning, no engine function appears here).  Every lemma has the
   relational form  WFc X c -> ... -> c' = mkCore ... -> WFc X c'  so that it can be applied
   to [core_of s] / [core_of s'] with the equation solved by [reflexivity]. *)
From GM Require Import Base.Prelude Base.Outcome Codec.Packets Codec.Settings Engine.Model
  EngineProofs.AssocLemmas EngineProofs.WFLemmas EngineProofs.WFDefs.
From Coq Require Import Sorting.Sorted.
From RecordUpdate Require Import RecordSet.
Import RecordSetNotations.
Open Scope N_scope.

Definition rmo {A} (p : option N) (l : list (N * A)) : list (N * A) :=
  match p with Some k => remove k l | None => l end.

Lemma gop_in_keys c i o : gop c i = Some o -> In i (keys (c_ops c)).
Proof. apply lookup_in_keys. Qed.

(* two operations never hold the same packet id *)
Lemma wfc_unique X c i j o o' p :
  WFc X c -> gop c i = Some o -> gop c j = Some o' -> op_pid o = Some p -> op_pid o' = Some p -> i = j.
Proof.
  intros H Hi Hj Hp Hp'. destruct (w_bound _ _ H _ _ _ Hi Hp) as (A1 & _). destruct (w_bound _ _ H _ _ _ Hj Hp') as (A2 & _).
  congruence.
Qed.

Lemma wfc_ppub_owner X c i j o p :
  WFc X c -> In (p, i) (c_ppub c) -> gop c j = Some o -> op_pid o = Some p -> i = j.
Proof.
  intros H Hin Hj Hp. destruct (w_ppub _ _ H _ _ Hin) as (o' & Ho' & Hp' & _). eapply wfc_unique; eauto.
Qed.

Lemma wfc_pnon_owner X c i j o p :
  WFc X c -> In (p, i) (c_pnon c) -> gop c j = Some o -> op_pid o = Some p -> i = j.
Proof.
  intros H Hin Hj Hp. destruct (w_pnon _ _ H _ _ Hin) as (o' & Ho' & Hp' & _). eapply wfc_unique; eauto.
Qed.

Lemma wfc_ppub_pid X c i o p p' :
  WFc X c -> In (p, i) (c_ppub c) -> gop c i = Some o -> op_pid o = Some p' -> p = p'.
Proof. intros H Hin Hi Hp. destruct (w_ppub _ _ H _ _ Hin) as (o' & Ho' & Hp' & _). congruence. Qed.

Lemma wfc_pnon_pid X c i o p p' :
  WFc X c -> In (p, i) (c_pnon c) -> gop c i = Some o -> op_pid o = Some p' -> p = p'.
Proof. intros H Hin Hi Hp. destruct (w_pnon _ _ H _ _ Hin) as (o' & Ho' & Hp' & _). congruence. Qed.

(* ---- queue-only changes ---- *)
Lemma WFc_mono X X' c c' :
  WFc X c ->
  c_ops c' = c_ops c -> c_alloc c' = c_alloc c -> c_ppub c' = c_ppub c ->
  c_nid c <= c_nid c' -> c_npid c' = c_npid c ->
  inc (keys (c_pnon c')) -> (forall p i, In (p, i) (c_pnon c') -> In (p, i) (c_pnon c)) ->
  (forall p i o, gop c i = Some o -> op_pid o = Some p -> tracked X c p i -> tracked X' c' p i) ->
  (forall i, In i X -> In i X') ->
  (forall i, inq c' i -> inq c i \/ In i (keys (c_ops c)) \/ i < c_nid c) ->
  (forall i, In i (c_hq c') -> In i (c_hq c) \/
             (forall o, gop c i = Some o -> needs_pid (op_packet o) = true -> exists p, In (p, i) (c_ppub c))) ->
  (forall i, In i (c_pwco c') -> In i (c_pwco c) \/ (forall o, gop c i = Some o -> needs_pid (op_packet o) = false)) ->
  WFc X' c'.
Proof.
  intros H Eops Ealloc Eppub Hnid Enpid Hpninc Hpn Htr HX Hq Hhq Hpw.
  assert (Eg : forall i, gop c' i = gop c i) by (intros; unfold gop; rewrite Eops; reflexivity).
  constructor.
  - rewrite Eops. apply H.
  - rewrite Eops. intros i Hi. pose proof (w_lt _ _ H _ Hi). lia.
  - rewrite Ealloc, Enpid. apply H.
  - rewrite Eppub. apply H.
  - rewrite Eppub. intros p i Hi. setoid_rewrite Eg. eapply w_ppub; eauto.
  - exact Hpninc.
  - intros p i Hi. setoid_rewrite Eg. eapply w_pnon; eauto.
  - intros i o p. rewrite Eg, Ealloc. apply H.
  - intros p i. rewrite Ealloc. setoid_rewrite Eg. apply H.
  - intros i o p Hi Hp. rewrite Eg in Hi. eapply Htr; [exact Hi|exact Hp|]. eapply w_tracked; eauto.
  - intros i Hi. destruct (Hq _ Hi) as [Hold|[Hk|Hk]].
    + pose proof (w_qlt _ _ H _ Hold). lia.
    + pose proof (w_lt _ _ H _ Hk). lia.
    + lia.
  - intros i o Hin Hi. rewrite Eg in Hi. destruct (Hpw _ Hin) as [Hold|Hnew]; [eapply w_pwco; eauto|eauto].
  - intros i o Hi Hpr. rewrite Eg in Hi. destruct (w_pubrel _ _ H _ _ Hi Hpr) as (pb & Hpb & Hd).
    exists pb. split; [exact Hpb|]. rewrite Eppub. destruct Hd as [Hd|Hd]; [left; auto|right; exact Hd].
  - intros i o Hin Hi Hn. rewrite Eg in Hi. rewrite Eppub. destruct (Hhq _ Hin) as [Hold|Hnew]; [eapply w_hq; eauto|eauto].
Qed.

(* ---- removing an operation together with its packet id (release) ---- *)
Lemma In_rmo {A} (po : option N) (l : list (N * A)) k v :
  In (k, v) (rmo po l) <-> In (k, v) l /\ po <> Some k.
Proof.
  destruct po as [p|]; cbn [rmo].
  - rewrite In_remove. split; intros [H1 H2]; split; auto; congruence.
  - split; [intros H; split; [exact H|discriminate]|tauto].
Qed.

Lemma lookup_rmo {A} (po : option N) (l : list (N * A)) k : po <> Some k -> lookup k (rmo po l) = lookup k l.
Proof. destruct po as [p|]; cbn [rmo]; [|reflexivity]. intros H. apply lookup_remove_neq. congruence. Qed.

Lemma lookup_rmo_inv {A} (po : option N) (l : list (N * A)) k v :
  lookup k (rmo po l) = Some v -> lookup k l = Some v /\ po <> Some k.
Proof.
  destruct po as [p|]; cbn [rmo]; [|intros H; split; [exact H|discriminate]].
  intros H. apply lookup_remove_inv in H. destruct H; split; [assumption|congruence].
Qed.

Lemma inc_rmo {A} (po : option N) (l : list (N * A)) : inc (keys l) -> inc (keys (rmo po l)).
Proof. destruct po; cbn [rmo]; [apply inc_remove|tauto]. Qed.

Lemma keys_rmo {A} (po : option N) (l : list (N * A)) x : In x (keys (rmo po l)) -> In x (keys l).
Proof. destruct po; cbn [rmo]; [|tauto]. intros H. apply keys_remove in H. tauto. Qed.

Lemma WFc_release X c c' id o :
  WFc X c -> gop c id = Some o ->
  c' = mkCore (remove id (c_ops c)) (c_uq c) (c_rq c) (c_hq c) (c_cur c) (rmo (op_pid o) (c_alloc c))
              (rmo (op_pid o) (c_ppub c)) (rmo (op_pid o) (c_pnon c)) (c_pwco c) (c_nid c) (c_npid c) ->
  WFc X c'.
Proof.
  intros H Hid ->.
  assert (Eg : forall i o', lookup i (remove id (c_ops c)) = Some o' -> gop c i = Some o' /\ i <> id)
    by (intros i o'; apply lookup_remove_inv).
  (* an operation other than id holds another packet id *)
  assert (Hother : forall i o' p, gop c i = Some o' -> i <> id -> op_pid o' = Some p -> op_pid o <> Some p).
  { intros i o' p Hi Hne Hp Hq. apply Hne. eapply wfc_unique; eauto. }
  constructor; unfold gop; cbn [c_ops c_uq c_rq c_hq c_cur c_alloc c_ppub c_pnon c_pwco c_nid c_npid].
  - apply inc_remove, H.
  - intros i Hi. apply keys_remove in Hi. apply (w_lt _ _ H). tauto.
  - destruct (w_pids _ _ H) as (A1 & A2 & A3). split; [apply inc_rmo; exact A1|]. split; [|exact A3].
    rewrite Forall_forall in *. intros x Hx. apply A2. eapply keys_rmo; eauto.
  - apply inc_rmo, H.
  - intros p i Hi. apply In_rmo in Hi. destruct Hi as [Hi Hne].
    destruct (w_ppub _ _ H _ _ Hi) as (o' & Ho' & Hp' & Hk). exists o'. split; [|tauto].
    rewrite lookup_remove_neq; [exact Ho'|]. intros ->. unfold gop in *. congruence.
  - apply inc_rmo, H.
  - intros p i Hi. apply In_rmo in Hi. destruct Hi as [Hi Hne].
    destruct (w_pnon _ _ H _ _ Hi) as (o' & Ho' & Hp' & Hk). exists o'. split; [|tauto].
    rewrite lookup_remove_neq; [exact Ho'|]. intros ->. unfold gop in *. congruence.
  - intros i o' p Hi Hp. destruct (Eg _ _ Hi) as [Hi' Hne].
    destruct (w_bound _ _ H _ _ _ Hi' Hp) as (B1 & B2 & B3). split; [|tauto].
    rewrite lookup_rmo; [exact B1|]. eapply Hother; eauto.
  - intros p i Hi. apply lookup_rmo_inv in Hi. destruct Hi as [Hi Hne].
    destruct (w_alloc _ _ H _ _ Hi) as (o' & Ho' & Hp'). exists o'. split; [|exact Hp'].
    rewrite lookup_remove_neq; [exact Ho'|]. intros ->. unfold gop in *. congruence.
  - intros i o' p Hi Hp. destruct (Eg _ _ Hi) as [Hi' Hne].
    pose proof (Hother _ _ _ Hi' Hne Hp) as Hop.
    destruct (w_tracked _ _ H _ _ _ Hi' Hp) as [T|[T|[T|[T|[T|T]]]]]; unfold tracked;
      cbn [c_ops c_uq c_rq c_hq c_cur c_alloc c_ppub c_pnon c_pwco c_nid c_npid]; auto.
    + right; right; right; right; left. apply In_rmo. tauto.
    + right; right; right; right; right. apply In_rmo. tauto.
  - intros i Hi. apply (w_qlt _ _ H). exact Hi.
  - intros i o' Hin Hi. destruct (Eg _ _ Hi) as [Hi' Hne]. eapply w_pwco; eauto.
  - intros i o' Hi Hpr. destruct (Eg _ _ Hi) as [Hi' Hne].
    destruct (w_pubrel _ _ H _ _ Hi' Hpr) as (pb & Hpb & Hd). exists pb. split; [exact Hpb|].
    destruct Hd as [Hd|[Hd|(p & Hd)]]; [tauto|tauto|]. right; right. exists p. apply In_rmo. split; [exact Hd|].
    destruct (w_ppub _ _ H _ _ Hd) as (o2 & Ho2 & Hp2 & _). eapply Hother; eauto; congruence.
  - intros i o' Hin Hi Hn. destruct (Eg _ _ Hi) as [Hi' Hne].
    destruct (w_hq _ _ H _ _ Hin Hi' Hn) as (p & Hd). exists p. apply In_rmo. split; [exact Hd|].
    destruct (w_ppub _ _ H _ _ Hd) as (o2 & Ho2 & Hp2 & _). eapply Hother; eauto; congruence.
Qed.

(* ---- updating one operation in place ---- *)
Definition upd_ok (X : list N) (id : N) (o o' : op) : Prop :=
  op_pid o' = op_pid o /\ pkt_pid (op_packet o') = pkt_pid (op_packet o) /\
  pubq (op_packet o') = pubq (op_packet o) /\ nonk (op_packet o') = nonk (op_packet o) /\
  (op_pubrel o' <> None -> op_pubrel o <> None /\
     forall pb, op_packet o = Publish pb ->
       exists pb', op_packet o' = Publish pb' /\ (In id X \/ pub_dup pb' = true \/ pub_dup pb' = pub_dup pb)).

Lemma upd_ok_refl X id o : upd_ok X id o o.
Proof. unfold upd_ok. repeat split; auto. intros pb ->. eauto. Qed.

Lemma WFc_update X c c' id f :
  WFc X c -> (forall o, gop c id = Some o -> upd_ok X id o (f o)) ->
  c' = mkCore (update id f (c_ops c)) (c_uq c) (c_rq c) (c_hq c) (c_cur c) (c_alloc c) (c_ppub c) (c_pnon c)
              (c_pwco c) (c_nid c) (c_npid c) ->
  WFc X c'.
Proof.
  intros H Hf ->.
  assert (Eg : forall i o', lookup i (update id f (c_ops c)) = Some o' -> exists o, gop c i = Some o /\ upd_ok X i o o').
  { intros i o' Hi. apply lookup_update_inv in Hi. destruct Hi as (o & Ho & [[Hne ->]|[-> ->]]).
    - exists o. split; [exact Ho|apply upd_ok_refl].
    - exists o. split; [exact Ho|apply Hf; exact Ho]. }
  assert (Ef : forall i o, gop c i = Some o -> exists o', lookup i (update id f (c_ops c)) = Some o' /\ upd_ok X i o o').
  { intros i o Hi. rewrite (lookup_update_fwd _ _ _ _ _ Hi). eexists. split; [reflexivity|].
    destruct (i =? id) eqn:E; [|apply upd_ok_refl]. assert (i = id) by lia. subst. apply Hf. exact Hi. }
  assert (Hnp : forall o o' i, upd_ok X i o o' -> needs_pid (op_packet o') = needs_pid (op_packet o)).
  { intros o o' i (_ & _ & U3 & U4 & _). rewrite !needs_pid_split. congruence. }
  constructor; unfold gop; cbn [c_ops c_uq c_rq c_hq c_cur c_alloc c_ppub c_pnon c_pwco c_nid c_npid].
  - rewrite keys_update. apply H.
  - rewrite keys_update. apply H.
  - apply H.
  - apply H.
  - intros p i Hi. destruct (w_ppub _ _ H _ _ Hi) as (o & Ho & Hp & Hk).
    destruct (Ef _ _ Ho) as (o' & Ho' & U1 & U2 & U3 & U4 & U5). exists o'. split; [exact Ho'|]. split; congruence.
  - apply H.
  - intros p i Hi. destruct (w_pnon _ _ H _ _ Hi) as (o & Ho & Hp & Hk).
    destruct (Ef _ _ Ho) as (o' & Ho' & U1 & U2 & U3 & U4 & U5). exists o'. split; [exact Ho'|]. split; congruence.
  - intros i o' p Hi Hp. destruct (Eg _ _ Hi) as (o & Ho & U). pose proof (Hnp _ _ _ U) as Hn.
    destruct U as (U1 & U2 & U3 & U4 & U5). rewrite U1 in Hp.
    destruct (w_bound _ _ H _ _ _ Ho Hp) as (B1 & B2 & B3). split; [exact B1|]. split; congruence.
  - intros p i Hi. destruct (w_alloc _ _ H _ _ Hi) as (o & Ho & Hp).
    destruct (Ef _ _ Ho) as (o' & Ho' & U1 & _). exists o'. split; [exact Ho'|congruence].
  - intros i o' p Hi Hp. destruct (Eg _ _ Hi) as (o & Ho & U1 & _). rewrite U1 in Hp.
    exact (w_tracked _ _ H _ _ _ Ho Hp).
  - apply H.
  - intros i o' Hin Hi. destruct (Eg _ _ Hi) as (o & Ho & U). rewrite (Hnp _ _ _ U). eapply w_pwco; eauto.
  - intros i o' Hi Hpr. destruct (Eg _ _ Hi) as (o & Ho & U1 & U2 & U3 & U4 & U5).
    destruct (U5 Hpr) as (Hpr0 & Hpb'). destruct (w_pubrel _ _ H _ _ Ho Hpr0) as (pb & Hpb & Hd).
    destruct (Hpb' _ Hpb) as (pb' & Epb' & Hd'). exists pb'. split; [exact Epb'|].
    destruct Hd' as [Hd'|[Hd'|Hd']]; [tauto|tauto|]. rewrite Hd'. exact Hd.
  - intros i o' Hin Hi Hn. destruct (Eg _ _ Hi) as (o & Ho & U). rewrite (Hnp _ _ _ U) in Hn. eapply w_hq; eauto.
Qed.

(* common instances of [upd_ok] *)
Lemma upd_ok_neutral X id o o' :
  op_pid o' = op_pid o -> op_packet o' = op_packet o -> op_pubrel o' = op_pubrel o -> upd_ok X id o o'.
Proof.
  intros E1 E2 E3. unfold upd_ok. rewrite E1, E2, E3. repeat split; auto. intros pb ->. eauto.
Qed.

Lemma set_dup_packet v o :
  (exists pb pb', op_packet o = Publish pb /\ op_packet (set_dup v o) = Publish pb' /\ pub_dup pb' = v /\
     pub_pid pb' = pub_pid pb /\ pub_qos pb' = pub_qos pb) \/
  (is_publish (op_packet o) = false /\ set_dup v o = o).
Proof.
  unfold set_dup. destruct (op_packet o) eqn:E; try (right; split; reflexivity).
  left. eexists. eexists. split; [reflexivity|]. cbn. split; [reflexivity|]. cbn. tauto.
Qed.

Lemma set_dup_fields v o :
  op_pid (set_dup v o) = op_pid o /\ op_pubrel (set_dup v o) = op_pubrel o /\ op_user (set_dup v o) = op_user o /\
  op_ss (set_dup v o) = op_ss o /\ op_timeout (set_dup v o) = op_timeout o /\ op_intr (set_dup v o) = op_intr o.
Proof. unfold set_dup. destruct (op_packet o); cbn; tauto. Qed.

Lemma upd_ok_set_dup X id v o : v = true \/ In id X -> upd_ok X id o (set_dup v o).
Proof.
  intros Hv. destruct (set_dup_fields v o) as (F1 & F2 & _).
  destruct (set_dup_packet v o) as [(pb & pb' & E1 & E2 & E3 & E4 & E5)|[E1 E2]].
  - unfold upd_ok. rewrite F1, F2, E1, E2. cbn. rewrite E4, E5. repeat split; auto.
    intros pb0 Hpb0. inversion Hpb0; subst pb0. exists pb'. split; [reflexivity|]. destruct Hv; [subst; tauto|tauto].
  - rewrite E2. apply upd_ok_refl.
Qed.

Lemma upd_ok_clear_pubrel X id o : upd_ok X id o (o <| op_pubrel := None |>).
Proof. unfold upd_ok. cbn. repeat split; auto; congruence. Qed.

(* iterated update *)
Lemma WFc_upd_all X f ids : forall c c',
  WFc X c -> (forall i o, In i ids -> upd_ok X i o (f o)) ->
  c' = mkCore (upd_all f ids (c_ops c)) (c_uq c) (c_rq c) (c_hq c) (c_cur c) (c_alloc c) (c_ppub c) (c_pnon c)
              (c_pwco c) (c_nid c) (c_npid c) ->
  WFc X c'.
Proof.
  unfold upd_all. induction ids as [|a r IH]; intros c c' H Hf ->; cbn [fold_left].
  - destruct c; exact H.
  - eapply (IH (mkCore (update a f (c_ops c)) (c_uq c) (c_rq c) (c_hq c) (c_cur c) (c_alloc c) (c_ppub c) (c_pnon c)
                       (c_pwco c) (c_nid c) (c_npid c))); [| |reflexivity].
    + eapply WFc_update; [exact H| |reflexivity]. intros o _. apply Hf. left. reflexivity.
    + intros i o Hi. apply Hf. right. exact Hi.
Qed.

(* ---- creating an operation ---- *)
Lemma WFc_add_op X c c' o :
  WFc X c -> op_pid o = None -> op_pubrel o = None ->
  c' = mkCore (c_ops c ++ [(c_nid c, o)]) (c_uq c) (c_rq c) (c_hq c) (c_cur c) (c_alloc c) (c_ppub c) (c_pnon c)
              (c_pwco c) (c_nid c + 1) (c_npid c) ->
  WFc X c'.
Proof.
  intros H Hpid Hpr ->.
  assert (Hfresh : lookup (c_nid c) (c_ops c) = None).
  { apply lookup_none_not_in. intros Hin. pose proof (w_lt _ _ H _ Hin). lia. }
  assert (Eg : forall i o', lookup i (c_ops c ++ [(c_nid c, o)]) = Some o' -> gop c i = Some o' \/ (i = c_nid c /\ o' = o)).
  { intros i o'. rewrite lookup_app. unfold gop. destruct (lookup i (c_ops c)); [tauto|]. cbn [lookup].
    destruct (c_nid c =? i) eqn:E; [|discriminate]. intros Hx. inversion Hx. right. split; [lia|reflexivity]. }
  assert (Ef : forall i o', gop c i = Some o' -> lookup i (c_ops c ++ [(c_nid c, o)]) = Some o').
  { intros i o' Hi. rewrite lookup_app. unfold gop in Hi. rewrite Hi. reflexivity. }
  constructor; unfold gop; cbn [c_ops c_uq c_rq c_hq c_cur c_alloc c_ppub c_pnon c_pwco c_nid c_npid].
  - apply inc_keys_app_last; [apply H|]. apply (w_lt _ _ H).
  - intros i Hi. rewrite keys_app in Hi. apply in_app_or in Hi. destruct Hi as [Hi|[<-|[]]].
    + pose proof (w_lt _ _ H _ Hi). lia.
    + cbn. lia.
  - apply H.
  - apply H.
  - intros p i Hi. destruct (w_ppub _ _ H _ _ Hi) as (o' & Ho' & R). exists o'. split; [apply Ef; exact Ho'|exact R].
  - apply H.
  - intros p i Hi. destruct (w_pnon _ _ H _ _ Hi) as (o' & Ho' & R). exists o'. split; [apply Ef; exact Ho'|exact R].
  - intros i o' p Hi Hp. destruct (Eg _ _ Hi) as [Hi'|[-> ->]]; [|congruence]. eapply w_bound; eauto.
  - intros p i Hi. destruct (w_alloc _ _ H _ _ Hi) as (o' & Ho' & R). exists o'. split; [apply Ef; exact Ho'|exact R].
  - intros i o' p Hi Hp. destruct (Eg _ _ Hi) as [Hi'|[-> ->]]; [|congruence]. exact (w_tracked _ _ H _ _ _ Hi' Hp).
  - intros i Hi. pose proof (w_qlt _ _ H i Hi). lia.
  - intros i o' Hin Hi. destruct (Eg _ _ Hi) as [Hi'|[-> ->]]; [eapply w_pwco; eauto|].
    assert (c_nid c < c_nid c); [|lia]. apply (w_qlt _ _ H). unfold inq. tauto.
  - intros i o' Hi Hp. destruct (Eg _ _ Hi) as [Hi'|[-> ->]]; [|congruence]. exact (w_pubrel _ _ H _ _ Hi' Hp).
  - intros i o' Hin Hi Hn. destruct (Eg _ _ Hi) as [Hi'|[-> ->]]; [eapply w_hq; eauto|].
    assert (c_nid c < c_nid c); [|lia]. apply (w_qlt _ _ H). unfold inq. tauto.
Qed.

(* ---- binding a packet id (acquire_pid_for) ---- *)
Lemma with_pid_ok pid p p' :
  with_pid pid p = Ok p' ->
  pkt_pid p' = Some pid /\ pubq p' = pubq p /\ nonk p' = nonk p /\
  (forall pb, p = Publish pb -> exists pb', p' = Publish pb' /\ pub_dup pb' = pub_dup pb).
Proof.
  destruct p; cbn; intros Hx; inversion Hx; subst; cbn; repeat split; try discriminate.
  intros pb Hpb. inversion Hpb; subst. eexists. split; reflexivity.
Qed.

Lemma with_pid_needs pid p : needs_pid p = true -> exists p', with_pid pid p = Ok p'.
Proof. destruct p; cbn; try discriminate; eauto. Qed.

Lemma WFc_acquire X c c' id o pid p' npid' :
  WFc X c -> gop c id = Some o -> op_pid o = None -> needs_pid (op_packet o) = true ->
  ~ In pid (keys (c_alloc c)) -> with_pid pid (op_packet o) = Ok p' ->
  In id X \/ In id (c_uq c) \/ In id (c_rq c) \/ c_cur c = Some id ->
  pids_ok' (insert pid id (c_alloc c)) npid' ->
  c' = mkCore (update id (fun o => o <| op_pid := Some pid |> <| op_packet := p' |>) (c_ops c)) (c_uq c) (c_rq c) (c_hq c)
              (c_cur c) (insert pid id (c_alloc c)) (c_ppub c) (c_pnon c) (c_pwco c) (c_nid c) npid' ->
  WFc X c'.
Proof.
  intros H Hid Hnone Hneeds Hfree Hwp Htr Hpids ->.
  destruct (with_pid_ok _ _ _ Hwp) as (P1 & P2 & P3 & P4).
  set (f := fun o : op => o <| op_pid := Some pid |> <| op_packet := p' |>).
  assert (Eg : forall i o', lookup i (update id f (c_ops c)) = Some o' ->
                 (i <> id /\ gop c i = Some o') \/ (i = id /\ o' = f o)).
  { intros i o' Hi. apply lookup_update_inv in Hi. destruct Hi as (o0 & Ho0 & [[Hne ->]|[-> ->]]); [tauto|].
    right. split; [reflexivity|]. unfold gop in Hid. congruence. }
  assert (Ef : forall i o0, gop c i = Some o0 -> i <> id -> lookup i (update id f (c_ops c)) = Some o0).
  { intros i o0 Hi Hne. rewrite lookup_update_neq by exact Hne. exact Hi. }
  assert (Efid : lookup id (update id f (c_ops c)) = Some (f o)) by (apply lookup_update_eq; exact Hid).
  assert (Hnotpid : forall i o0, gop c i = Some o0 -> op_pid o0 <> Some pid).
  { intros i o0 Hi Hp. destruct (w_bound _ _ H _ _ _ Hi Hp) as (B1 & _). apply Hfree. eapply lookup_in_keys; eauto. }
  assert (Hnp : needs_pid (op_packet (f o)) = true) by (cbn; rewrite needs_pid_split, P2, P3, <- needs_pid_split; exact Hneeds).
  constructor; unfold gop; cbn [c_ops c_uq c_rq c_hq c_cur c_alloc c_ppub c_pnon c_pwco c_nid c_npid].
  - rewrite keys_update. apply H.
  - rewrite keys_update. apply H.
  - exact Hpids.
  - apply H.
  - intros p i Hi. destruct (w_ppub _ _ H _ _ Hi) as (o0 & Ho0 & Hp0 & Hk). exists o0. split; [|tauto].
    apply Ef; [exact Ho0|]. intros ->. unfold gop in *. congruence.
  - apply H.
  - intros p i Hi. destruct (w_pnon _ _ H _ _ Hi) as (o0 & Ho0 & Hp0 & Hk). exists o0. split; [|tauto].
    apply Ef; [exact Ho0|]. intros ->. unfold gop in *. congruence.
  - intros i o' p Hi Hp. destruct (Eg _ _ Hi) as [[Hne Hi']|[-> ->]].
    + destruct (w_bound _ _ H _ _ _ Hi' Hp) as (B1 & B2 & B3). split; [|tauto].
      rewrite lookup_insert_neq; [exact B1|]. intros ->. eapply Hnotpid; eauto.
    + cbn in Hp. inversion Hp; subst p. split; [apply lookup_insert_eq|]. split; [exact P1|exact Hnp].
  - intros p i Hi. destruct (N.eq_dec p pid) as [->|Hne].
    + rewrite lookup_insert_eq in Hi. inversion Hi; subst i. exists (f o). split; [exact Efid|reflexivity].
    + rewrite lookup_insert_neq in Hi by exact Hne. destruct (w_alloc _ _ H _ _ Hi) as (o0 & Ho0 & Hp0).
      exists o0. split; [|exact Hp0]. apply Ef; [exact Ho0|]. intros ->. unfold gop in *. congruence.
  - intros i o' p Hi Hp. destruct (Eg _ _ Hi) as [[Hne Hi']|[-> ->]].
    + exact (w_tracked _ _ H _ _ _ Hi' Hp).
    + unfold tracked. cbn [c_ops c_uq c_rq c_hq c_cur c_alloc c_ppub c_pnon c_pwco c_nid c_npid]. tauto.
  - apply H.
  - intros i o' Hin Hi. destruct (Eg _ _ Hi) as [[Hne Hi']|[-> ->]]; [eapply w_pwco; eauto|].
    pose proof (w_pwco _ _ H _ _ Hin Hid). congruence.
  - intros i o' Hi Hpr. destruct (Eg _ _ Hi) as [[Hne Hi']|[-> ->]]; [exact (w_pubrel _ _ H _ _ Hi' Hpr)|].
    cbn in Hpr. destruct (w_pubrel _ _ H _ _ Hid Hpr) as (pb & Hpb & Hd).
    destruct (P4 _ Hpb) as (pb' & E1 & E2). exists pb'. cbn. split; [exact E1|]. rewrite E2. exact Hd.
  - intros i o' Hin Hi Hn. destruct (Eg _ _ Hi) as [[Hne Hi']|[-> ->]]; [eapply w_hq; eauto|].
    exact (w_hq _ _ H _ _ Hin Hid Hneeds).
Qed.

(* ---- unbinding a packet id (unbind_operation_packet_id); only used when nothing is pending ---- *)
Lemma WFc_unbind_pid X c c' id o pid p' :
  WFc X c -> gop c id = Some o -> op_pid o = Some pid -> with_pid 0 (op_packet o) = Ok p' ->
  c_ppub c = [] -> c_pnon c = [] ->
  c' = mkCore (update id (fun o => o <| op_pid := None |> <| op_packet := p' |>) (c_ops c)) (c_uq c) (c_rq c) (c_hq c)
              (c_cur c) (remove pid (c_alloc c)) (c_ppub c) (c_pnon c) (c_pwco c) (c_nid c) (c_npid c) ->
  WFc X c'.
Proof.
  intros H Hid Hpid Hwp Epp Epn ->.
  destruct (with_pid_ok _ _ _ Hwp) as (P1 & P2 & P3 & P4).
  set (f := fun o : op => o <| op_pid := None |> <| op_packet := p' |>).
  assert (Eg : forall i o', lookup i (update id f (c_ops c)) = Some o' ->
                 (i <> id /\ gop c i = Some o') \/ (i = id /\ o' = f o)).
  { intros i o' Hi. apply lookup_update_inv in Hi. destruct Hi as (o0 & Ho0 & [[Hne ->]|[-> ->]]); [tauto|].
    right. split; [reflexivity|]. unfold gop in Hid. congruence. }
  assert (Ef : forall i o0, gop c i = Some o0 -> i <> id -> lookup i (update id f (c_ops c)) = Some o0).
  { intros i o0 Hi Hne. rewrite lookup_update_neq by exact Hne. exact Hi. }
  assert (Hother : forall i o0 p, gop c i = Some o0 -> i <> id -> op_pid o0 = Some p -> p <> pid).
  { intros i o0 p Hi Hne Hp ->. apply Hne. eapply wfc_unique; eauto. }
  destruct (w_bound _ _ H _ _ _ Hid Hpid) as (Bid1 & Bid2 & Bid3).
  constructor; unfold gop; cbn [c_ops c_uq c_rq c_hq c_cur c_alloc c_ppub c_pnon c_pwco c_nid c_npid].
  - rewrite keys_update. apply H.
  - rewrite keys_update. apply H.
  - destruct (w_pids _ _ H) as (A1 & A2 & A3). split; [apply inc_remove; exact A1|]. split; [|exact A3].
    rewrite Forall_forall in *. intros x Hx. apply A2. apply keys_remove in Hx. tauto.
  - apply H.
  - rewrite Epp. intros p i [].
  - apply H.
  - rewrite Epn. intros p i [].
  - intros i o' p Hi Hp. destruct (Eg _ _ Hi) as [[Hne Hi']|[-> ->]]; [|discriminate].
    destruct (w_bound _ _ H _ _ _ Hi' Hp) as (B1 & B2 & B3). split; [|tauto].
    rewrite lookup_remove_neq; [exact B1|]. eapply Hother; eauto.
  - intros p i Hi. apply lookup_remove_inv in Hi. destruct Hi as [Hi Hne].
    destruct (w_alloc _ _ H _ _ Hi) as (o0 & Ho0 & Hp0). exists o0. split; [|exact Hp0].
    apply Ef; [exact Ho0|]. intros ->. unfold gop in *. congruence.
  - intros i o' p Hi Hp. destruct (Eg _ _ Hi) as [[Hne Hi']|[-> ->]]; [|discriminate].
    exact (w_tracked _ _ H _ _ _ Hi' Hp).
  - apply H.
  - intros i o' Hin Hi. destruct (Eg _ _ Hi) as [[Hne Hi']|[-> ->]]; [eapply w_pwco; eauto|].
    pose proof (w_pwco _ _ H _ _ Hin Hid). congruence.
  - intros i o' Hi Hpr. destruct (Eg _ _ Hi) as [[Hne Hi']|[-> ->]]; [exact (w_pubrel _ _ H _ _ Hi' Hpr)|].
    cbn in Hpr. destruct (w_pubrel _ _ H _ _ Hid Hpr) as (pb & Hpb & Hd).
    destruct (P4 _ Hpb) as (pb' & E1 & E2). exists pb'. cbn. split; [exact E1|]. rewrite E2. exact Hd.
  - intros i o' Hin Hi Hn. rewrite Epp. destruct (Eg _ _ Hi) as [[Hne Hi']|[-> ->]].
    + destruct (w_hq _ _ H _ _ Hin Hi' Hn) as (p & Hp). rewrite Epp in Hp. destruct Hp.
    + destruct (w_hq _ _ H _ _ Hin Hid Bid3) as (p & Hp). rewrite Epp in Hp. destruct Hp.
Qed.

(* ---- PUBREC received: the operation (pending under p) now carries a PUBREL ---- *)
Lemma WFc_set_pubrel X c c' id p pr :
  WFc X c -> In (p, id) (c_ppub c) ->
  c' = mkCore (update id (fun o => o <| op_pubrel := Some pr |>) (c_ops c)) (c_uq c) (c_rq c) (c_hq c)
              (c_cur c) (c_alloc c) (c_ppub c) (c_pnon c) (c_pwco c) (c_nid c) (c_npid c) ->
  WFc X c'.
Proof.
  intros H Hin ->.
  set (f := fun o : op => o <| op_pubrel := Some pr |>).
  assert (Eg : forall i o', lookup i (update id f (c_ops c)) = Some o' ->
             exists o, gop c i = Some o /\ op_pid o' = op_pid o /\ op_packet o' = op_packet o /\
                       (i <> id -> op_pubrel o' = op_pubrel o)).
  { intros i o' Hi. apply lookup_update_inv in Hi. destruct Hi as (o0 & Ho0 & [[Hne ->]|[-> ->]]); exists o0; cbn; tauto. }
  assert (Ef : forall i o, gop c i = Some o -> exists o', lookup i (update id f (c_ops c)) = Some o' /\
                 op_pid o' = op_pid o /\ op_packet o' = op_packet o).
  { intros i o Hi. rewrite (lookup_update_fwd _ _ _ _ _ Hi). eexists. split; [reflexivity|]. destruct (i =? id); cbn; tauto. }
  constructor; unfold gop; cbn [c_ops c_uq c_rq c_hq c_cur c_alloc c_ppub c_pnon c_pwco c_nid c_npid].
  - rewrite keys_update. apply H.
  - rewrite keys_update. apply H.
  - apply H.
  - apply H.
  - intros q i Hi. destruct (w_ppub _ _ H _ _ Hi) as (o & Ho & Hp & Hk).
    destruct (Ef _ _ Ho) as (o' & Ho' & U1 & U2). exists o'. rewrite U1, U2. tauto.
  - apply H.
  - intros q i Hi. destruct (w_pnon _ _ H _ _ Hi) as (o & Ho & Hp & Hk).
    destruct (Ef _ _ Ho) as (o' & Ho' & U1 & U2). exists o'. rewrite U1, U2. tauto.
  - intros i o' q Hi Hp. destruct (Eg _ _ Hi) as (o & Ho & U1 & U2 & _). rewrite U1 in Hp. rewrite U2.
    eapply w_bound; eauto.
  - intros q i Hi. destruct (w_alloc _ _ H _ _ Hi) as (o & Ho & Hp).
    destruct (Ef _ _ Ho) as (o' & Ho' & U1 & U2). exists o'. rewrite U1. tauto.
  - intros i o' q Hi Hp. destruct (Eg _ _ Hi) as (o & Ho & U1 & _). rewrite U1 in Hp. exact (w_tracked _ _ H _ _ _ Ho Hp).
  - apply H.
  - intros i o' Hi0 Hi. destruct (Eg _ _ Hi) as (o & Ho & U1 & U2 & _). rewrite U2. eapply w_pwco; eauto.
  - intros i o' Hi Hpr. destruct (Eg _ _ Hi) as (o & Ho & U1 & U2 & U3). rewrite U2.
    destruct (N.eq_dec i id) as [->|Hne].
    + destruct (w_ppub _ _ H _ _ Hin) as (o2 & Ho2 & Hp2 & Hk2). assert (o2 = o) by congruence. subst o2.
      unfold pubq in Hk2. destruct (op_packet o) as [| |pb| | | | | | | | | | | |]; try discriminate.
      exists pb. split; [reflexivity|]. right; right. eauto.
    + rewrite (U3 Hne) in Hpr. exact (w_pubrel _ _ H _ _ Ho Hpr).
  - intros i o' Hi0 Hi Hn. destruct (Eg _ _ Hi) as (o & Ho & U1 & U2 & _). rewrite U2 in Hn. eapply w_hq; eauto.
Qed.

(* ---- a fully written PUBLISH (QoS>0) / SUBSCRIBE / UNSUBSCRIBE becomes pending ---- *)
Lemma WFc_insert_ppub X c c' id o p cur' :
  WFc X c -> gop c id = Some o -> op_pid o = Some p -> pubq (op_packet o) = true ->
  cur' = c_cur c \/ (cur' = None /\ c_cur c = Some id) ->
  c' = mkCore (c_ops c) (c_uq c) (c_rq c) (c_hq c) cur' (c_alloc c) (insert p id (c_ppub c)) (c_pnon c) (c_pwco c)
              (c_nid c) (c_npid c) ->
  WFc X c'.
Proof.
  intros H Hid Hpid Hk Hcur ->.
  assert (Hkeep : forall q i, In (q, i) (c_ppub c) -> In (q, i) (insert p id (c_ppub c))).
  { intros q i Hi. destruct (N.eq_dec q p) as [->|Hne]; [|apply In_insert_other; assumption].
    assert (i = id) by (eapply wfc_ppub_owner; eauto). subst. apply In_insert_same. }
  constructor; unfold gop; cbn [c_ops c_uq c_rq c_hq c_cur c_alloc c_ppub c_pnon c_pwco c_nid c_npid]; try apply H.
  - apply inc_insert, H.
  - intros q i Hi. apply in_insert_values in Hi. destruct Hi as [Hi|Hi]; [|eapply w_ppub; eauto].
    inversion Hi; subst. eauto.
  - intros i o' q Hi Hp. destruct (w_tracked _ _ H _ _ _ Hi Hp) as [T|[T|[T|[T|[T|T]]]]]; unfold tracked;
      cbn [c_ops c_uq c_rq c_hq c_cur c_alloc c_ppub c_pnon c_pwco c_nid c_npid]; try tauto.
    + destruct Hcur as [->|[-> Hc]]; [tauto|]. assert (i = id) by congruence. subst i.
      assert (q = p) by (unfold gop in *; congruence). subst q.
      right; right; right; right; left. apply In_insert_same.
    + right; right; right; right; left. apply Hkeep. exact T.
  - intros i Hi. apply (w_qlt _ _ H). unfold inq in *.
    cbn [c_ops c_uq c_rq c_hq c_cur c_alloc c_ppub c_pnon c_pwco c_nid c_npid] in Hi.
    destruct Hcur as [->|[-> Hc]]; [exact Hi|]. destruct Hi as [Hi|[Hi|[Hi|[Hi|Hi]]]]; try tauto. discriminate.
  - intros i o' Hi Hpr. destruct (w_pubrel _ _ H _ _ Hi Hpr) as (pb & Hpb & Hd). exists pb. split; [exact Hpb|].
    destruct Hd as [Hd|[Hd|(q & Hd)]]; [tauto|tauto|]. right; right. exists q. apply Hkeep. exact Hd.
  - intros i o' Hin Hi Hn. destruct (w_hq _ _ H _ _ Hin Hi Hn) as (q & Hq). exists q. apply Hkeep. exact Hq.
Qed.

Lemma WFc_insert_pnon X c c' id o p cur' :
  WFc X c -> gop c id = Some o -> op_pid o = Some p -> nonk (op_packet o) = true ->
  cur' = c_cur c \/ (cur' = None /\ c_cur c = Some id) ->
  c' = mkCore (c_ops c) (c_uq c) (c_rq c) (c_hq c) cur' (c_alloc c) (c_ppub c) (insert p id (c_pnon c)) (c_pwco c)
              (c_nid c) (c_npid c) ->
  WFc X c'.
Proof.
  intros H Hid Hpid Hk Hcur ->.
  assert (Hkeep : forall q i, In (q, i) (c_pnon c) -> In (q, i) (insert p id (c_pnon c))).
  { intros q i Hi. destruct (N.eq_dec q p) as [->|Hne]; [|apply In_insert_other; assumption].
    assert (i = id) by (eapply wfc_pnon_owner; eauto). subst. apply In_insert_same. }
  constructor; unfold gop; cbn [c_ops c_uq c_rq c_hq c_cur c_alloc c_ppub c_pnon c_pwco c_nid c_npid]; try apply H.
  - apply inc_insert, H.
  - intros q i Hi. apply in_insert_values in Hi. destruct Hi as [Hi|Hi]; [|eapply w_pnon; eauto].
    inversion Hi; subst. eauto.
  - intros i o' q Hi Hp. destruct (w_tracked _ _ H _ _ _ Hi Hp) as [T|[T|[T|[T|[T|T]]]]]; unfold tracked;
      cbn [c_ops c_uq c_rq c_hq c_cur c_alloc c_ppub c_pnon c_pwco c_nid c_npid]; try tauto.
    + destruct Hcur as [->|[-> Hc]]; [tauto|]. assert (i = id) by congruence. subst i.
      assert (q = p) by (unfold gop in *; congruence). subst q.
      right; right; right; right; right. apply In_insert_same.
    + right; right; right; right; right. apply Hkeep. exact T.
  - intros i Hi. apply (w_qlt _ _ H). unfold inq in *.
    cbn [c_ops c_uq c_rq c_hq c_cur c_alloc c_ppub c_pnon c_pwco c_nid c_npid] in Hi.
    destruct Hcur as [->|[-> Hc]]; [exact Hi|]. destruct Hi as [Hi|[Hi|[Hi|[Hi|Hi]]]]; try tauto. discriminate.
Qed.

(* ---- connection closed: every pending publish goes to the back of the resubmit queue ---- *)
Lemma WFc_clear_ppub X c c' :
  WFc X c ->
  (forall p i o pb, In (p, i) (c_ppub c) -> gop c i = Some o -> op_packet o = Publish pb -> pub_dup pb = true) ->
  c' = mkCore (c_ops c) (c_uq c) (c_rq c ++ map snd (c_ppub c)) [] (c_cur c) (c_alloc c) [] (c_pnon c) (c_pwco c)
              (c_nid c) (c_npid c) ->
  WFc X c'.
Proof.
  intros H Hdup ->.
  constructor; unfold gop; cbn [c_ops c_uq c_rq c_hq c_cur c_alloc c_ppub c_pnon c_pwco c_nid c_npid]; try apply H.
  - constructor.
  - intros p i [].
  - intros i o p Hi Hp. destruct (w_tracked _ _ H _ _ _ Hi Hp) as [T|[T|[T|[T|[T|T]]]]]; unfold tracked;
      cbn [c_ops c_uq c_rq c_hq c_cur c_alloc c_ppub c_pnon c_pwco c_nid c_npid]; try tauto.
    + right; right; left. apply in_or_app. tauto.
    + right; right; left. apply in_or_app. right. eapply In_snd; eauto.
  - intros i Hi. unfold inq in Hi. cbn [c_ops c_uq c_rq c_hq c_cur c_alloc c_ppub c_pnon c_pwco c_nid c_npid] in Hi.
    destruct Hi as [Hi|[Hi|[[]|Hi]]]; try (apply (w_qlt _ _ H); unfold inq; tauto).
    apply in_app_or in Hi. destruct Hi as [Hi|Hi]; [apply (w_qlt _ _ H); unfold inq; tauto|].
    apply In_snd_inv in Hi. destruct Hi as (p & Hi). destruct (w_ppub _ _ H _ _ Hi) as (o & Ho & _).
    apply (w_lt _ _ H). eapply gop_in_keys; eauto.
  - intros i o Hi Hpr. destruct (w_pubrel _ _ H _ _ Hi Hpr) as (pb & Hpb & Hd). exists pb. split; [exact Hpb|].
    destruct Hd as [Hd|[Hd|(q & Hd)]]; [tauto|tauto|]. right; left. eapply Hdup; eauto.
  - intros i o [].
Qed.

(* ---- session not resumed: the whole packet-id table is dropped once nothing is bound ---- *)
Lemma WFc_clear_alloc X c c' :
  WFc X c -> (forall i o, gop c i = Some o -> op_pid o = None) ->
  c' = mkCore (c_ops c) (c_uq c) (c_rq c) (c_hq c) (c_cur c) [] (c_ppub c) (c_pnon c) (c_pwco c) (c_nid c) (c_npid c) ->
  WFc X c'.
Proof.
  intros H Hnone ->.
  constructor; unfold gop; cbn [c_ops c_uq c_rq c_hq c_cur c_alloc c_ppub c_pnon c_pwco c_nid c_npid]; try apply H.
  - destruct (w_pids _ _ H) as (_ & _ & A3). split; [constructor|]. split; [constructor|exact A3].
  - intros i o p Hi Hp. rewrite (Hnone _ _ Hi) in Hp. discriminate.
  - intros p i Hi. discriminate.
Qed.

(* ---- dropping the exemption ---- *)
Lemma WFc_unexempt X c :
  WFc X c ->
  (forall i o p, In i X -> gop c i = Some o -> op_pid o = Some p -> tracked [] c p i) ->
  (forall i o, In i X -> gop c i = Some o -> op_pubrel o <> None ->
     exists pb, op_packet o = Publish pb /\ (pub_dup pb = true \/ exists p, In (p, i) (c_ppub c))) ->
  WFc [] c.
Proof.
  intros H Ht Hp. constructor; try apply H.
  - intros i o p Hi Hpid. destruct (w_tracked _ _ H _ _ _ Hi Hpid) as [T|T]; [eapply Ht; eauto|right; exact T].
  - intros i o Hi Hpr. destruct (w_pubrel _ _ H _ _ Hi Hpr) as (pb & Hpb & [Hd|Hd]).
    + destruct (Hp _ _ Hd Hi Hpr) as (pb' & Hpb' & Hd'). exists pb'. split; [exact Hpb'|right; exact Hd'].
    + exists pb. split; [exact Hpb|right; exact Hd].
Qed.

Lemma WFc_exempt X X' c : WFc X c -> (forall i, In i X -> In i X') -> WFc X' c.
Proof.
  intros H HX. constructor; try apply H.
  - intros i o p Hi Hpid. destruct (w_tracked _ _ H _ _ _ Hi Hpid) as [T|T]; [left; auto|right; exact T].
  - intros i o Hi Hpr. destruct (w_pubrel _ _ H _ _ Hi Hpr) as (pb & Hpb & [Hd|Hd]); exists pb; (split; [exact Hpb|]); auto.
Qed.

(* ---- reset: everything is dropped, ids are never reused ---- *)
Lemma WFc_reset X c' nid :
  c' = mkCore [] [] [] [] None [] [] [] [] nid 1 -> WFc X c'.
Proof.
  intros ->. constructor; unfold gop, inq;
    cbn [c_ops c_uq c_rq c_hq c_cur c_alloc c_ppub c_pnon c_pwco c_nid c_npid lookup keys map].
  - constructor.
  - intros i [].
  - split; [constructor|]. split; [constructor|lia].
  - constructor.
  - intros p i [].
  - constructor.
  - intros p i [].
  - intros i o p Hi. discriminate.
  - intros p i Hi. discriminate.
  - intros i o p Hi. discriminate.
  - intros i [[]|[[]|[[]|[Hx|[]]]]]. discriminate.
  - intros i o [].
  - intros i o Hi. discriminate.
  - intros i o [].
Qed.
