(* The internal outbound validator of the instance never answers with the AckTimeout error kind (its errors are
   PacketValidationFailure / ProtocolError / encoding-size errors), so the premise of the run-level
   "AckTimeout is never early" theorem (TimersRunSound.v) holds for the concrete engine. *)
From GM Require Import Base.Prelude Base.Outcome Codec.Packets Codec.Settings Codec.Prim Codec.Steps Codec.ImplEncode
  Codec.Framing Alias.Outbound Alias.Inbound Validate.Topic Validate.Rules Engine.Model Engine.Instance
  EngineProofs.WFDefs EngineProofs.WFInstance EngineProofs.TimersRun EngineProofs.TimersRunSound.
Open Scope N_scope.

Definition nak {A} (o : outcome A) : Prop := o <> Err EAckTimeout.

Lemma nak_ok {A} (a : A) : nak (Ok a).
Proof. discriminate. Qed.
Lemma nak_panic {A} site : nak (@Panic A site).
Proof. discriminate. Qed.
Lemma nak_err {A} k : k <> EAckTimeout -> nak (@Err A k).
Proof. intros H E. inversion E. contradiction. Qed.
Lemma nak_bind {A B} (o : outcome A) (f : A -> outcome B) :
  nak o -> (forall a, o = Ok a -> nak (f a)) -> nak (obind o f).
Proof.
  intros Ho Hf. destruct o as [x|k|st]; cbn.
  - apply Hf. reflexivity.
  - intros E. apply Ho. inversion E. reflexivity.
  - apply nak_panic.
Qed.

Ltac nak_step :=
  match goal with
  | |- nak (Ok _) => apply nak_ok
  | |- nak (Err _) => apply nak_err; discriminate
  | |- nak vfail => apply nak_err; discriminate
  | |- nak (Panic _) => apply nak_panic
  | |- nak (obind _ _) => apply nak_bind; [|intros ? ?]
  | |- nak (if ?b then _ else _) => destruct b
  | |- nak (match ?x with _ => _ end) => destruct x
  | |- nak (let (_, _) := ?x in _) => destruct x
  end.
Ltac nak_tac := repeat nak_step.

Lemma nak_vli_size v : nak (vli_size v).
Proof. unfold vli_size. nak_tac. Qed.
Lemma nak_subid_lengths : forall l acc, nak (subid_lengths l acc).
Proof. induction l as [|v r IH]; intros acc; cbn; [apply nak_ok|]. apply nak_bind; [apply nak_vli_size|intros sz _; apply IH]. Qed.
Lemma nak_ack_lengths a : nak (ack_lengths a).
Proof. unfold ack_lengths. nak_tac. apply nak_vli_size. Qed.
Lemma nak_disconnect_lengths d : nak (disconnect_lengths d).
Proof. unfold disconnect_lengths. nak_tac. apply nak_vli_size. Qed.
Lemma nak_publish_lengths5 p r : nak (publish_lengths5 p r).
Proof. unfold publish_lengths5. cbv zeta. nak_tac; try apply nak_subid_lengths; apply nak_vli_size. Qed.
Lemma nak_connect_lengths5 c : nak (connect_lengths5 c).
Proof. unfold connect_lengths5. cbv zeta. nak_tac; apply nak_vli_size. Qed.
Lemma nak_subscribe_lengths5 s : nak (subscribe_lengths5 s).
Proof. unfold subscribe_lengths5. cbv zeta. nak_tac; apply nak_vli_size. Qed.
Lemma nak_unsubscribe_lengths5 u : nak (unsubscribe_lengths5 u).
Proof. unfold unsubscribe_lengths5. cbv zeta. nak_tac; apply nak_vli_size. Qed.
Lemma nak_auth_lengths a : nak (auth_lengths a).
Proof. unfold auth_lengths. cbv zeta. nak_tac; apply nak_vli_size. Qed.

Lemma nak_impl_lengths5 p r : nak (impl_lengths5 p r).
Proof.
  destruct p; cbn [impl_lengths5]; try (apply nak_err; discriminate);
    auto using nak_publish_lengths5, nak_ack_lengths, nak_subscribe_lengths5, nak_unsubscribe_lengths5, nak_disconnect_lengths, nak_auth_lengths.
  apply nak_bind; [apply nak_connect_lengths5|]. intros [[t c] w] _. apply nak_ok.
Qed.

Lemma nak_check_packet_size st p r : nak (check_packet_size st p r).
Proof.
  unfold check_packet_size. apply nak_bind; [apply nak_impl_lengths5|]. intros [t c] _.
  apply nak_bind; [apply nak_vli_size|]. intros sz _. nak_tac.
Qed.

Lemma nak_topic_filter f caps nl : nak (is_valid_topic_filter_internal f caps nl).
Proof. unfold is_valid_topic_filter_internal. cbv zeta. nak_tac. Qed.

Lemma nak_validate_subscriptions st : forall l, nak (validate_subscriptions st l).
Proof.
  induction l as [|x r IH]; cbn [validate_subscriptions]; [apply nak_ok|].
  apply nak_bind; [apply nak_topic_filter|]. intros ok _. destruct (negb ok); [apply nak_err; discriminate|exact IH].
Qed.

Lemma nak_validate_unsubscribe_filters st : forall l, nak (validate_unsubscribe_filters st l).
Proof.
  induction l as [|x r IH]; cbn [validate_unsubscribe_filters]; [apply nak_ok|].
  apply nak_bind; [apply nak_topic_filter|]. intros ok _. destruct (negb ok); [apply nak_err; discriminate|exact IH].
Qed.

Lemma nak_v_out st co r p : nak (validate_outbound_internal st co r p).
Proof.
  destruct p; cbn [validate_outbound_internal]; try apply nak_ok; try (apply nak_err; discriminate).
  - unfold validate_publish_packet_outbound_internal. apply nak_bind; [apply nak_check_packet_size|]. intros s _. nak_tac.
  - unfold validate_ack_outbound_internal. apply nak_bind; [apply nak_check_packet_size|]. intros s _. nak_tac.
  - unfold validate_ack_outbound_internal. apply nak_bind; [apply nak_check_packet_size|]. intros s _. nak_tac.
  - unfold validate_ack_outbound_internal. apply nak_bind; [apply nak_check_packet_size|]. intros s _. nak_tac.
  - unfold validate_ack_outbound_internal. apply nak_bind; [apply nak_check_packet_size|]. intros s _. nak_tac.
  - unfold validate_subscribe_packet_outbound_internal. apply nak_bind; [apply nak_check_packet_size|]. intros s _.
    destruct (_ =? 0); [apply nak_err; discriminate|apply nak_validate_subscriptions].
  - unfold validate_unsubscribe_packet_outbound_internal. apply nak_bind; [apply nak_check_packet_size|]. intros s _.
    destruct (_ =? 0); [apply nak_err; discriminate|apply nak_validate_unsubscribe_filters].
  - unfold validate_disconnect_packet_outbound_internal. apply nak_bind; [apply nak_check_packet_size|]. intros s _. cbv zeta. nak_tac.
  - unfold validate_auth_packet_outbound_internal. apply nak_bind; [apply nak_check_packet_size|]. intros s _. apply nak_ok.
Qed.

(* the concrete engine: an AckTimeout completion of a service call at time now is never early *)
Theorem instance_run_acktimeout_sound (cfg : config) (k : resolver_kind) (h : list event) :
  ok_cfg cfg -> Forall ok_event h ->
  forall now cap fill i,
    In (i, CompErr EAckTimeout) (o_done (snd (i_step cfg (fst (i_run cfg (i_init cfg k) h)) (EvService now cap fill)))) ->
    exists w T, w + T <= now /\ In w (now :: epoch h) /\
      forall o, lookup i (s_ops (fst (i_run cfg (i_init cfg k) h))) = Some o -> op_user o = true /\ op_timeout o = Some T.
Proof.
  intros Hcfg Hh.
  exact (run_acktimeout_sound _ _ _ enc_done _ _ _ _ _ _ _ _ _ _ _ cfg instance_comps_ok Hcfg nak_v_out _ _ h I I Hh).
Qed.
