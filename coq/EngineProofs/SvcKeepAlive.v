(* C14: keep-alive, single-step contracts (protocol.rs service_keep_alive 1474-1502,
   handle_pingresp 1736-1753, CONNACK 1712-1723).  Times are milliseconds; K seconds of negotiated
   keep-alive give a ping every K*1000 ms and a ping timeout of min(configured, K*500) ms. *)
From GM Require Import Base.Prelude Base.Outcome Codec.Packets Codec.Settings Engine.Model EngineProofs.AssocLemmas.
From RecordUpdate Require Import RecordSet.
Import RecordSetNotations.
Open Scope N_scope.

Set Default Proof Using "Type".
Section Engine.
  Variable enc : Type.
  Variable enc_reset : version -> packet -> resolution -> outcome enc.
  Variable enc_call : enc -> N -> N -> outcome (bytes * enc).
  Variable enc_done : enc -> bool.
  Variable dec : Type.
  Variable dec_init : dec.
  Variable dec_feed : version -> N -> dec -> bytes -> dec * list packet * outcome unit.
  Variable ores : Type.
  Variable ores_reset : ores -> N -> ores.
  Variable ores_resolve : ores -> option N -> bytes -> outcome (ores * resolution).
  Variable ires : Type.
  Variable ires_reset : ires -> ires.
  Variable ires_resolve : ires -> option N -> bytes -> outcome (ires * bytes).
  Variable v_out : option settings -> connect_opts -> resolution -> packet -> outcome unit.
  Variable v_in : option settings -> packet -> outcome unit.
  Variable cfg : config.

  Notation state := (Model.state enc dec ores ires).
  Notation init := (Model.init enc dec dec_init ores ires).
  Notation res := (Model.res enc dec ores ires).
  Notation release := (Model.release enc dec ores ires cfg).
  Notation disconnect_completion := (Model.disconnect_completion enc dec ores ires).
  Notation fail_op := (Model.fail_op enc dec ores ires cfg).
  Notation ping_extension := (Model.ping_extension enc dec ores ires).
  Notation succeed_op := (Model.succeed_op enc dec ores ires cfg).
  Notation fail_all := (Model.fail_all enc dec ores ires cfg).
  Notation succeed_all := (Model.succeed_all enc dec ores ires cfg).
  Notation andthen := (Model.andthen enc dec ores ires).
  Notation try_ := (Model.try_ enc dec ores ires).
  Notation pure := (Model.pure enc dec ores ires).
  Notation create_operation := (Model.create_operation enc dec ores ires).
  Notation passes_now := (Model.passes_now enc dec ores ires cfg).
  Notation user_event := (Model.user_event enc dec ores ires cfg).
  Notation create_connect := (Model.create_connect enc dec ores ires cfg).
  Notation net_opened := (Model.net_opened enc dec dec_init ores ires cfg).
  Notation op_exists := (Model.op_exists enc dec ores ires).
  Notation op_passes := (Model.op_passes enc dec ores ires cfg).
  Notation partition_policy := (Model.partition_policy enc dec ores ires cfg).
  Notation closed_current := (Model.closed_current enc dec ores ires cfg).
  Notation slow_start_init := (Model.slow_start_init enc dec ores ires cfg).
  Notation update_retries := (Model.update_retries enc dec ores ires cfg).
  Notation fail_exceeding := (Model.fail_exceeding enc dec ores ires cfg).
  Notation has_pubrel := (Model.has_pubrel enc dec ores ires).
  Notation net_closed_raw := (Model.net_closed_raw enc dec ores ires cfg).
  Notation net_closed := (Model.net_closed enc dec ores ires cfg).
  Notation net_write_completion := (Model.net_write_completion enc dec ores ires cfg).
  Notation acquire_free_pid := (Model.acquire_free_pid enc dec ores ires).
  Notation acquire_pid_for := (Model.acquire_pid_for enc dec ores ires).
  Notation unbind := (Model.unbind enc dec ores ires).
  Notation passes_receive_max := (Model.passes_receive_max enc dec ores ires).
  Notation throttled := (Model.throttled enc dec ores ires cfg).
  Notation has_pending_ack := (Model.has_pending_ack enc dec ores ires).
  Notation dequeue := (Model.dequeue enc dec ores ires cfg).
  Notation fully_written := (Model.fully_written enc dec ores ires).
  Notation sres := (Model.sres enc dec ores ires).
  Notation seat := (Model.seat enc dec ores ires).
  Notation seat_current := (Model.seat_current enc enc_reset dec ores ores_reset ores_resolve ires v_out cfg).
  Notation service_loop := (Model.service_loop enc enc_reset enc_call enc_done dec ores ores_reset ores_resolve ires v_out cfg).
  Notation service_queue := (Model.service_queue enc enc_reset enc_call enc_done dec ores ores_reset ores_resolve ires v_out cfg).
  Notation service_keep_alive := (Model.service_keep_alive enc dec ores ires cfg).
  Notation process_ack_timeouts := (Model.process_ack_timeouts enc dec ores ires cfg).
  Notation halt_on_error := (Model.halt_on_error enc dec ores ires).
  Notation service := (Model.service enc enc_reset enc_call enc_done dec ores ores_reset ores_resolve ires v_out cfg).
  Notation earliest_tmo := (Model.earliest_tmo enc dec ores ires).
  Notation nst_queue := (Model.nst_queue enc dec ores ires cfg).
  Notation next_service_time := (Model.next_service_time enc dec ores ires cfg).
  Notation build_settings := (Model.build_settings enc dec ores ires cfg).
  Notation apply_session := (Model.apply_session enc dec ores ires cfg).
  Notation hres := (Model.hres enc dec ores ires).
  Notation hres_of := (Model.hres_of enc dec ores ires).
  Notation pre_connack := (Model.pre_connack enc dec ores ires).
  Notation sum_ss := (Model.sum_ss enc dec ores ires).
  Notation handle_connack := (Model.handle_connack enc dec ores ores_reset ires ires_reset v_in cfg).
  Notation handle_pingresp := (Model.handle_pingresp enc dec ores ires).
  Notation handle_suback := (Model.handle_suback enc dec ores ires cfg).
  Notation handle_unsuback := (Model.handle_unsuback enc dec ores ires cfg).
  Notation publish_qos_of := (Model.publish_qos_of enc dec ores ires).
  Notation handle_puback := (Model.handle_puback enc dec ores ires cfg).
  Notation handle_pubrec := (Model.handle_pubrec enc dec ores ires cfg).
  Notation handle_pubrel := (Model.handle_pubrel enc dec ores ires).
  Notation handle_pubcomp := (Model.handle_pubcomp enc dec ores ires cfg).
  Notation handle_publish := (Model.handle_publish enc dec ores ires).
  Notation handle_disconnect := (Model.handle_disconnect enc dec ores ires cfg).
  Notation handle_packet := (Model.handle_packet enc dec ores ores_reset ires ires_reset v_in cfg).
  Notation handle_packets := (Model.handle_packets enc dec ores ores_reset ires ires_reset ires_resolve v_in cfg).
  Notation is_connect_op := (Model.is_connect_op enc dec ores ires).
  Notation connect_in_queue := (Model.connect_in_queue enc dec ores ires).
  Notation max_incoming_size := (Model.max_incoming_size cfg).
  Notation net_data := (Model.net_data enc dec dec_feed ores ores_reset ires ires_reset ires_resolve v_in cfg).
  Notation reset := (Model.reset enc dec ores ires cfg).
  Notation out_of_res := (Model.out_of_res enc dec ores ires).
  Notation step := (Model.step enc enc_reset enc_call enc_done dec dec_init dec_feed ores ores_reset ores_resolve ires ires_reset ires_resolve v_out v_in cfg).
  Notation run := (Model.run enc enc_reset enc_call enc_done dec dec_init dec_feed ores ores_reset ores_resolve ires ires_reset ires_resolve v_out v_in cfg).
  Notation SeatStop := (Model.SeatStop enc dec ores ires).
  Notation SeatContinue := (Model.SeatContinue enc dec ores ires).
  Notation SeatEncode := (Model.SeatEncode enc dec ores ires).
  Notation mkState := (Model.mkState enc dec ores ires).
  (* lia generalises over every hypothesis mentioning N, including the Section variables: clear them first *)
  Ltac slia := try clear v_in; try clear v_out; try clear ires_resolve; try clear ires_reset; try clear ores_resolve;
    try clear ores_reset; try clear dec_feed; try clear dec_init; try clear enc_done; try clear enc_call; try clear enc_reset; lia.
  Ltac dm := match goal with
    | |- context [match ?x with _ => _ end] => destruct x eqn:?
    end.

  (* ---- a due ping: PINGREQ queued first, timeout armed, next ping scheduled ---- *)
  Theorem keep_alive_due (s : state) (now np : N) s' :
    service_keep_alive s now = Ok s' -> s_ping_to s = None -> s_next_ping s = Some np -> np <= now ->
    exists st, s_settings s = Some st /\
      let k := st_server_keep_alive st in
      s_ping_to s' = Some (now + N.min (cf_ping_timeout cfg) (k * 500)) /\
      s_next_ping s' = (if 0 <? k then Some (now + k * 1000) else Some np) /\
      s_hq s' = s_next_id s :: s_hq s /\
      s_ops s' = s_ops s ++ [(s_next_id s, new_op Pingreq false None)] /\
      s_next_id s' = s_next_id s + 1.
  Proof.
    unfold Model.service_keep_alive. intros H Hpt Hnp Hle. rewrite Hpt, Hnp in H.
    assert (E : np <=? now = true) by slia. rewrite E in H. unfold Model.create_operation in H. cbn in H.
    destruct (s_settings s) as [st|]; [|discriminate]. exists st. split; [reflexivity|].
    unfold add_time in H. destruct (IMAX <? _); cbn [obind] in H; [discriminate|].
    destruct (0 <? st_server_keep_alive st); inversion H; subst; cbn; rewrite ?Hnp; repeat split; reflexivity.
  Qed.

  (* nothing happens before the ping is due, or while a PINGREQ is outstanding and not timed out,
     or when no ping is scheduled (keep-alive 0) *)
  Theorem keep_alive_idle (s : state) (now : N) :
    (s_ping_to s = None /\ (s_next_ping s = None \/ exists np, s_next_ping s = Some np /\ now < np)) \/
    (exists pt, s_ping_to s = Some pt /\ now < pt) ->
    service_keep_alive s now = Ok s.
  Proof.
    unfold Model.service_keep_alive. intros [[-> [-> | (np & -> & Hlt)]] | (pt & -> & Hlt)]; [reflexivity| |].
    - assert (E : np <=? now = false) by slia. rewrite E. reflexivity.
    - assert (E : pt <=? now = false) by slia. rewrite E. reflexivity.
  Qed.

  (* no PINGREQ is created while no ping is scheduled *)
  Theorem keep_alive_zero_no_ping (s : state) (now : N) s' :
    s_next_ping s = None -> service_keep_alive s now = Ok s' -> s' = s.
  Proof.
    unfold Model.service_keep_alive. intros ->. destruct (s_ping_to s) as [pt|]; [|intros H; inversion H; reflexivity].
    destruct (pt <=? now); intros H; inversion H; reflexivity.
  Qed.

  (* ---- an unanswered PINGREQ fails the connection at its deadline ---- *)
  Theorem ping_timeout_fails (s : state) (now cap fill t : N) :
    s_st s = Connected -> s_ping_to s = Some t -> t <= now ->
    let r := service s now cap fill in
    sr_out r = Err EConnectionClosed /\ sr_bytes r = [] /\ sr_done r = [] /\ sr_s r = s <| s_st := Halted |>.
  Proof.
    intros Hst Hpt Hle. unfold Model.service, Model.service_keep_alive. rewrite Hst, Hpt.
    assert (E : t <=? now = true) by slia. rewrite E. cbn. repeat split.
  Qed.

  (* ... and not before *)
  Theorem ping_timeout_not_early (s : state) (now t : N) :
    s_ping_to s = Some t -> now < t -> service_keep_alive s now = Ok s.
  Proof. intros Hpt Hlt. apply keep_alive_idle. right. exists t. split; assumption. Qed.

  (* ---- PINGRESP clears the timeout ---- *)
  Theorem pingresp_clears (s : state) (t : N) :
    (s_st s = Connected \/ s_st s = PendingDisconnect) -> s_ping_to s = Some t ->
    handle_pingresp s = Model.mkHres (s <| s_ping_to := None |>) [] [] (Ok tt).
  Proof. unfold Model.handle_pingresp. intros [-> | ->] ->; reflexivity. Qed.

  (* a live peer is never timed out: after the PINGRESP no ping timeout is armed, so service's
     keep-alive step cannot fail until the next PINGREQ is sent *)
  Corollary pingresp_then_no_timeout (s : state) (t now : N) :
    (s_st s = Connected \/ s_st s = PendingDisconnect) -> s_ping_to s = Some t ->
    forall k, service_keep_alive (h_s (handle_pingresp s)) now <> Err k.
  Proof.
    intros Hst Hpt k. rewrite (pingresp_clears s t Hst Hpt). cbn [h_s]. unfold Model.service_keep_alive. cbn.
    destruct (s_next_ping s) as [np|]; [|discriminate]. destruct (np <=? now); [|discriminate].
    unfold Model.create_operation. cbn. destruct (s_settings s); [|discriminate].
    unfold add_time. destruct (IMAX <? _); cbn [obind]; [discriminate|]. destruct (0 <? _); discriminate.
  Qed.

  (* ---- CONNACK arms the first ping from the negotiated value; 0 disables pings ---- *)
  (* the session work after the CONNACK does not touch the keep-alive fields *)
  Definition ka_fields (s : state) := (s_next_ping s, s_ping_to s, s_settings s).

  Lemma release_ka s id o s1 : release s id o = Ok s1 -> ka_fields s1 = ka_fields s.
  Proof. unfold Model.release. destruct (op_pid o); cbn; repeat dm; intros H; inversion H; reflexivity. Qed.

  Lemma fail_op_ka s id e : ka_fields (r_s (fail_op s id e)) = ka_fields s.
  Proof.
    unfold Model.fail_op. destruct (lookup id (s_ops s)) as [o|]; [|reflexivity].
    destruct (release s id o) as [s1| |] eqn:Er; [|reflexivity..]. rewrite <- (release_ka _ _ _ _ Er).
    assert (Hd : ka_fields (fst (disconnect_completion s1 o)) = ka_fields s1).
    { unfold Model.disconnect_completion. repeat dm; reflexivity. }
    destruct (disconnect_completion s1 o) as [s2 r]. cbn [fst] in Hd. repeat dm; cbn [r_s]; exact Hd.
  Qed.

  Lemma fail_all_ka ids : forall s e, ka_fields (r_s (fail_all s ids e)) = ka_fields s.
  Proof.
    induction ids as [|id r IH]; intros s e; cbn [Model.fail_all]; [reflexivity|].
    destruct (is_panic _); [apply fail_op_ka|]. destruct (is_panic _); cbn [r_s]; rewrite IH; apply fail_op_ka.
  Qed.

  Lemma unbind_ka s id : ka_fields (unbind s id) = ka_fields s.
  Proof. unfold Model.unbind. repeat dm; reflexivity. Qed.

  Lemma fold_unbind_ka ids : forall s, ka_fields (fold_left unbind ids s) = ka_fields s.
  Proof. induction ids as [|id r IH]; intros s; cbn [fold_left]; [reflexivity|]. rewrite IH. apply unbind_ka. Qed.

  Lemma apply_session_ka s sp : ka_fields (r_s (apply_session s sp)) = ka_fields s.
  Proof.
    unfold Model.apply_session.
    match goal with |- context [if is_panic (r_out ?r1) then _ else _] => set (r1v := r1) end.
    assert (H1 : ka_fields (r_s r1v) = ka_fields s).
    { unfold r1v. destruct sp; [reflexivity|]. destruct (partition_policy s (s_rq s)) as [kept rejected].
      destruct (is_panic _); cbn [r_s]; [rewrite fail_all_ka; reflexivity|].
      transitivity (ka_fields (r_s (fail_all (s <| s_rq := [] |>
                  <| s_ops := fold_left (fun ops id => update id (set_dup false) ops) kept (s_ops s) |>
                  <| s_uq := s_uq s ++ kept |>) rejected EOfflineQueuePolicyFailed))); [reflexivity|].
      rewrite fail_all_ka. reflexivity. }
    destruct (is_panic (r_out r1v)); [exact H1|].
    assert (H3 : ka_fields (fold_left unbind (s_uq (r_s r1v)) (r_s r1v)) = ka_fields s) by (rewrite fold_unbind_ka; exact H1).
    repeat dm; cbn [r_s]; exact H3.
  Qed.

  Theorem connack_arms_ping (s : state) (now : N) (c : connack) :
    h_out (handle_connack s now c) = Ok tt ->
    let s' := h_s (handle_connack s now c) in
    let k := st_server_keep_alive (build_settings s c) in
    s_settings s' = Some (build_settings s c) /\
    s_next_ping s' = (if 0 <? k then Some (now + k * 1000) else None) /\
    s_ping_to s' = None.
  Proof.
    unfold Model.handle_connack. dm; [discriminate|]. dm; [discriminate|]. destruct (v_in None (Connack c)); [|discriminate..].
    match goal with |- context [apply_session ?s2 ?sp] => pose proof (apply_session_ka s2 sp) as Hk; set (s2v := s2) in * end.
    destruct (r_out (apply_session s2v (ca_session_present c))); cbn [h_out h_s]; [|discriminate..]. intros _.
    unfold ka_fields in Hk. inversion Hk as [[H1 H2 H3]]. rewrite H1, H2, H3. unfold s2v.
    destruct (cf_drain_one cfg); cbn; repeat split; reflexivity.
  Qed.

  (* negotiated keep-alive 0: no ping is ever scheduled by the CONNACK *)
  Corollary connack_keep_alive_zero (s : state) (now : N) (c : connack) :
    h_out (handle_connack s now c) = Ok tt -> st_server_keep_alive (build_settings s c) = 0 ->
    s_next_ping (h_s (handle_connack s now c)) = None.
  Proof. intros H Hz. destruct (connack_arms_ping s now c H) as (_ & -> & _). rewrite Hz. reflexivity. Qed.

  (* the negotiated value: the server's keep-alive overrides the client's *)
  Lemma negotiated_keep_alive (s : state) (c : connack) :
    st_server_keep_alive (build_settings s c) =
    match ca_server_keep_alive c with Some k => k | None => match co_keep_alive (cf_connect cfg) with Some k => k | None => 0 end end.
  Proof. reflexivity. Qed.
End Engine.
