(* C02 at run level: the component facts of WireValidFrame.wv_comps for the CONCRETE components of Engine/Instance.v.
   - outbound alias resolvers (Alias/Outbound.v): whatever they were configured with, after a reset with a maximum m <= b
     every resolution carries an alias in 1..b or none, and drops the topic only together with an alias ([og]);
   - the inbound validator (Validate/Rules.validate_inbound_internal) rejects zero packet identifiers;
   - the framing decoder: WireValidDec.v. *)
From GM Require Import Base.Prelude Base.Outcome Codec.Packets Codec.Prim Codec.Settings Codec.Framing Alias.Outbound AliasProofs.OutboundP Validate.Rules.
From GM Require Import EngineProofs.WireValidDefs EngineProofs.WireValidFrame EngineProofs.WireValidDec.
Open Scope N_scope.

(* ---- outbound resolvers ---- *)
Definition og (b : N) (o : ores) : Prop :=
  match o with
  | ONull => True
  | OManual mx m => mx <= b + 1 /\ forall k t, amap_get m k = Some t -> 1 <= k <= b
  | OLru cur conf c => cur <= b /\ forall t a, In (t, a) c -> 1 <= a <= b
  end.

Lemma og_reset b o m : m <= b -> og b (ores_reset o m).
Proof.
  intros Hm. destruct o as [|mx mp|cur conf c]; cbn [ores_reset og]; [exact I| |].
  - split; [lia|]. intros k t H. discriminate.
  - split; [lia|]. intros t a [].
Qed.

Lemma og_init b k : og b (ores_init k).
Proof.
  destruct k as [| |m]; cbn [ores_init og]; [exact I| |]; (split; [lia|]); [intros k t H; discriminate|intros t a []].
Qed.

Lemma in_lru_remove c k t a : In (t, a) (lru_remove c k) -> In (t, a) c.
Proof. unfold lru_remove. intros H. apply filter_In in H. tauto. Qed.

Lemma in_removelast {A} (l : list A) x : In x (removelast l) -> In x l.
Proof.
  induction l as [|y l IH]; [intros []|]. cbn [removelast]. destruct l as [|z l]; [intros []|].
  intros [->|H]; [left; reflexivity|right; apply IH; exact H].
Qed.

Lemma peek_lru_in c x : lru_peek_lru c = Some x -> In x c.
Proof.
  unfold lru_peek_lru. destruct c as [|y c]; [discriminate|]. intros H. inversion H; subst. clear H.
  revert y. induction c as [|z c IH]; intros y; [left; reflexivity|]. right. apply (IH z).
Qed.

Lemma og_resolve b o a t o' r : b <= 65535 -> og b o -> ores_resolve o a t = Ok (o', r) -> og b o' /\ res_le b r.
Proof.
  intros Hb Ho H. destruct o as [|mx m|cur conf c]; cbn [ores_resolve] in H.
  - inversion H; subst. split; [exact I|reflexivity].
  - destruct Ho as [Hm Hk]. unfold manual_resolve_topic_alias in H. destruct a as [av|].
    + destruct (match amap_get m av with Some e => bytes_eqb e t | None => false end) eqn:Ee.
      * cbn in H. inversion H; subst. split; [split; assumption|]. unfold res_le. cbn.
        destruct (amap_get m av) as [e|] eqn:Eg; [|discriminate]. exact (Hk _ _ Eg).
      * destruct ((0 <? av) && (av <? mx)) eqn:Er; cbn in H; inversion H; subst.
        -- split; [|unfold res_le; cbn; lia]. split; [exact Hm|]. intros k t0 Hg. rewrite amap_get_insert in Hg.
           destruct (av =? k) eqn:E; [|exact (Hk _ _ Hg)]. lia.
        -- split; [split; assumption|reflexivity].
    + cbn in H. inversion H; subst. split; [split; assumption|reflexivity].
  - destruct Ho as [Hc Hin]. unfold lru_resolve_topic_alias in H. destruct (cur =? 0) eqn:E0.
    + cbn in H. inversion H; subst. split; [split; assumption|reflexivity].
    + destruct (lru_peek c t) as [av|] eqn:Ep.
      * cbn in H. inversion H; subst. pose proof (Hin _ _ (peek_in _ _ _ Ep)) as Ha. split; [|unfold res_le; cbn; exact Ha].
        split; [exact Hc|]. intros t0 a0 Hi. unfold lru_promote in Hi. rewrite Ep in Hi.
        destruct Hi as [Hi|Hi]; [inversion Hi; subst; exact Ha|exact (Hin _ _ (in_lru_remove _ _ _ _ Hi))].
      * assert (Hpush : forall c1 av, (forall t0 a0, In (t0, a0) c1 -> 1 <= a0 <= b) -> 1 <= av <= b ->
                          forall t0 a0, In (t0, a0) (lru_push (lru_capacity conf) c1 t av) -> 1 <= a0 <= b).
        { intros c1 av H1 Hav t0 a0 Hi. unfold lru_push in Hi. destruct (lru_peek c1 t).
          - destruct Hi as [Hi|Hi]; [inversion Hi; subst; exact Hav|exact (H1 _ _ (in_lru_remove _ _ _ _ Hi))].
          - destruct (len c1 =? lru_capacity conf); (destruct Hi as [Hi|Hi]; [inversion Hi; subst; exact Hav|]);
              [apply in_removelast in Hi|]; exact (H1 _ _ Hi). }
        assert (Hc1 : forall t0 a0, In (t0, a0) (if len c =? cur then lru_pop_lru c else c) -> 1 <= a0 <= b).
        { intros t0 a0 Hi. destruct (len c =? cur); [apply in_removelast in Hi|]; exact (Hin _ _ Hi). }
        destruct (cur <=? len c) eqn:El.
        -- destruct (lru_peek_lru c) as [[tl al]|] eqn:Epl; cbn in H; [|discriminate]. inversion H; subst.
           pose proof (Hin _ _ (peek_lru_in _ _ Epl)) as Ha. split; [|unfold res_le; cbn; exact Ha].
           split; [exact Hc|]. exact (Hpush _ _ Hc1 Ha).
        -- cbn in H. inversion H; subst. assert (Hu : u16 (len c + 1) = len c + 1) by (apply u16_small; lia).
           assert (Ha : 1 <= u16 (len c + 1) <= b) by (rewrite Hu; lia).
           split; [|unfold res_le; cbn; exact Ha]. split; [exact Hc|]. exact (Hpush _ _ Hc1 Ha).
Qed.

(* ---- inbound validator ---- *)
Lemma vin_nz st p : validate_inbound_internal st p = Ok tt -> in_nz p.
Proof.
  destruct p as [c|c|pb|a|a|a|a|sb|s0|un|u| | |d|au]; cbn [validate_inbound_internal in_nz]; try (intros; exact I).
  - unfold validate_publish_packet_inbound_internal. destruct (len (pub_topic pb) =? 0); [discriminate|].
    destruct (pub_pid pb =? 0) eqn:E; cbn [andb]; [|intros _ _; lia]. intros H Hq. rewrite Hq in H. discriminate.
  - unfold validate_pid_nonzero. destruct (ack_pid a =? 0) eqn:E; [discriminate|intros _; lia].
  - unfold validate_pid_nonzero. destruct (ack_pid a =? 0) eqn:E; [discriminate|intros _; lia].
Qed.

(* ---- the record ---- *)
Lemma Bv_le v : Bv v <= 65535.
Proof. destruct v; cbn; lia. Qed.

Definition instance_wv (v : version) (co : connect_opts) (Hco : connect_cfg_ok v co)
  : wv_comps decoder ores decoder_init decode_bytes ores_reset ores_resolve validate_inbound_internal v co :=
  mkWvComps decoder ores decoder_init decode_bytes ores_reset ores_resolve validate_inbound_internal v co
    (og (Bv v)) dgood
    (fun o a t o' r Ho H => og_resolve (Bv v) o a t o' r (Bv_le v) Ho H)
    (fun o m Hm => og_reset (Bv v) o m Hm)
    decoder_init_good
    (fun m d b Hd Hb => decode_bytes_good v m d b Hd Hb)
    vin_nz
    Hco.
