(* Packet-id allocator (protocol.rs acquire_free_packet_id 2154-2177) as modelled by
   Model.first_gap / acquire_free_pid: for EVERY cursor position and EVERY set of allocated ids
   the result is a free id in 1..65535, and failure means all 65535 ids are taken.
   Pure list arithmetic, no enumeration. *)
From GM Require Import Base.Prelude Base.Outcome Engine.Model.
From Coq Require Import Sorting.Sorted.
Open Scope N_scope.

(* strictly increasing keys *)
Definition inc (keys : list N) : Prop := StronglySorted N.lt keys.

Lemma inc_tail k r : inc (k :: r) -> inc r.
Proof. intros H. inversion H; assumption. Qed.

Lemma inc_head_lt k r x : inc (k :: r) -> In x r -> k < x.
Proof. intros H Hin. inversion H as [|? ? _ Hall]; subst. rewrite Forall_forall in Hall. auto. Qed.

(* first_gap finds a non-member of [lo, hi] *)
Lemma first_gap_some keys : forall lo hi c,
  inc keys -> first_gap keys lo hi = Some c -> lo <= c <= hi /\ ~ In c keys.
Proof.
  induction keys as [|k r IH]; intros lo hi c Hinc H; cbn [first_gap] in H.
  - destruct (lo <=? hi) eqn:E; [|discriminate]. inversion H; subst. split; [lia|]. intros [].
  - destruct (hi <? lo) eqn:E1; [discriminate|].
    destruct (k <? lo) eqn:E2.
    + destruct (IH lo hi c (inc_tail _ _ Hinc) H) as [Hr Hn]. split; [exact Hr|].
      intros [Hk|Hin]; [subst; lia|contradiction].
    + destruct (k =? lo) eqn:E3.
      * destruct (IH (lo + 1) hi c (inc_tail _ _ Hinc) H) as [Hr Hn]. split; [lia|].
        intros [Hk|Hin]; [subst; lia|contradiction].
      * inversion H; subst. split; [lia|].
        intros [Hk|Hin]; [lia|]. pose proof (inc_head_lt _ _ _ Hinc Hin). lia.
Qed.

(* first_gap returns None only when every element of [lo, hi] is a key *)
Lemma first_gap_none keys : forall lo hi,
  inc keys -> first_gap keys lo hi = None -> forall x, lo <= x <= hi -> In x keys.
Proof.
  induction keys as [|k r IH]; intros lo hi Hinc H x Hx; cbn [first_gap] in H.
  - destruct (lo <=? hi) eqn:E; [discriminate|]. lia.
  - destruct (hi <? lo) eqn:E1; [lia|].
    destruct (k <? lo) eqn:E2.
    + right. exact (IH lo hi (inc_tail _ _ Hinc) H x Hx).
    + destruct (k =? lo) eqn:E3; [|discriminate].
      destruct (N.eq_dec x lo) as [->|Hne]; [left; lia|].
      right. apply (IH (lo + 1) hi (inc_tail _ _ Hinc) H x). lia.
Qed.

(* the minimal free id at or after lo *)
Lemma first_gap_minimal keys : forall lo hi c,
  inc keys -> first_gap keys lo hi = Some c -> forall x, lo <= x < c -> In x keys.
Proof.
  induction keys as [|k r IH]; intros lo hi c Hinc H x Hx; cbn [first_gap] in H.
  - destruct (lo <=? hi) eqn:E; [|discriminate]. inversion H; subst. lia.
  - destruct (hi <? lo) eqn:E1; [discriminate|].
    destruct (k <? lo) eqn:E2.
    + right. exact (IH lo hi c (inc_tail _ _ Hinc) H x Hx).
    + destruct (k =? lo) eqn:E3.
      * destruct (N.eq_dec x lo) as [->|Hne]; [left; lia|].
        right. apply (IH (lo + 1) hi c (inc_tail _ _ Hinc) H x). lia.
      * inversion H; subst. lia.
Qed.

(* insert keeps keys strictly increasing and adds exactly the key *)
Lemma insert_keys_in {A} k (v : A) l x : In x (map fst (insert k v l)) <-> x = k \/ In x (map fst l).
Proof.
  induction l as [|[k' v'] r IH]; cbn [insert map fst In].
  - intuition congruence.
  - destruct (k <? k') eqn:E1; cbn [map fst In]; [intuition congruence|].
    destruct (k' =? k) eqn:E2; cbn [map fst In].
    + assert (k' = k) by lia. subst. intuition congruence.
    + rewrite IH. intuition congruence.
Qed.

Lemma insert_inc {A} k (v : A) l : inc (map fst l) -> inc (map fst (insert k v l)).
Proof.
  induction l as [|[k' v'] r IH]; intros H; cbn [insert map fst].
  - repeat constructor.
  - destruct (k <? k') eqn:E1; cbn [map fst].
    + constructor; [exact H|]. constructor; [lia|].
      inversion H as [|? ? _ Hall]; subst. rewrite Forall_forall in *. intros x Hx. specialize (Hall x Hx). lia.
    + destruct (k' =? k) eqn:E2; cbn [map fst].
      * assert (k' = k) by lia. subst. exact H.
      * inversion H as [|? ? Hr Hall]; subst. constructor; [apply IH; exact Hr|].
        rewrite Forall_forall in *. intros x Hx. apply insert_keys_in in Hx. destruct Hx as [->|Hx]; [lia|auto].
Qed.

Section Acquire.
  Context {enc dec ores ires : Type}.
  Notation state := (state enc dec ores ires).
  Notation acquire := (acquire_free_pid enc dec ores ires).

  Definition pids_ok (s : state) : Prop :=
    inc (map fst (s_alloc s)) /\ Forall (fun p => 1 <= p <= 65535) (map fst (s_alloc s)) /\ 1 <= s_next_pid s <= 65535.

  (* success: the id is in range, was free, is now reserved for the operation, nothing else changed *)
  Theorem acquire_ok (s s' : state) id c :
    pids_ok s -> acquire s id = Ok (s', c) ->
    1 <= c <= 65535 /\ ~ In c (map fst (s_alloc s)) /\
    (forall x, In x (map fst (s_alloc s')) <-> x = c \/ In x (map fst (s_alloc s))) /\
    lookup c (s_alloc s') = Some id /\ pids_ok s'.
  Proof.
    intros (Hinc & Hrange & Hcur) H. unfold acquire_free_pid in H.
    destruct (first_gap (map fst (s_alloc s)) (s_next_pid s) 65535) as [c1|] eqn:E1.
    - inversion H; subst; clear H.
      destruct (first_gap_some _ _ _ _ Hinc E1) as [Hr Hn].
      split; [lia|]. split; [exact Hn|]. cbn.
      split; [intros x; apply insert_keys_in|].
      split.
      + clear. induction (s_alloc s) as [|[k v] r IH]; cbn [insert lookup].
        * rewrite N.eqb_refl. reflexivity.
        * destruct (c <? k) eqn:E; cbn [lookup]; [rewrite N.eqb_refl; reflexivity|].
          destruct (k =? c) eqn:E2; cbn [lookup]; [rewrite N.eqb_refl; reflexivity|]. rewrite E2. exact IH.
      + unfold pids_ok; cbn. split; [apply insert_inc; exact Hinc|]. split.
        * rewrite Forall_forall in *. intros x Hx. apply insert_keys_in in Hx. destruct Hx as [->|Hx]; [lia|auto].
        * destruct (c =? 65535) eqn:E; lia.
    - destruct (first_gap (map fst (s_alloc s)) 1 (s_next_pid s - 1)) as [c2|] eqn:E2; [|discriminate].
      inversion H; subst; clear H.
      destruct (first_gap_some _ _ _ _ Hinc E2) as [Hr Hn].
      split; [lia|]. split; [exact Hn|]. cbn.
      split; [intros x; apply insert_keys_in|].
      split.
      + clear. induction (s_alloc s) as [|[k v] r IH]; cbn [insert lookup].
        * rewrite N.eqb_refl. reflexivity.
        * destruct (c <? k) eqn:E; cbn [lookup]; [rewrite N.eqb_refl; reflexivity|].
          destruct (k =? c) eqn:E2; cbn [lookup]; [rewrite N.eqb_refl; reflexivity|]. rewrite E2. exact IH.
      + unfold pids_ok; cbn. split; [apply insert_inc; exact Hinc|]. split.
        * rewrite Forall_forall in *. intros x Hx. apply insert_keys_in in Hx. destruct Hx as [->|Hx]; [lia|auto].
        * destruct (c =? 65535) eqn:E; lia.
  Qed.

  (* failure happens only when the whole identifier space 1..65535 is reserved *)
  Theorem acquire_err (s : state) id k :
    pids_ok s -> acquire s id = Err k -> forall x, 1 <= x <= 65535 -> In x (map fst (s_alloc s)).
  Proof.
    intros (Hinc & Hrange & Hcur) H x Hx. unfold acquire_free_pid in H.
    destruct (first_gap (map fst (s_alloc s)) (s_next_pid s) 65535) as [c1|] eqn:E1; [discriminate|].
    destruct (first_gap (map fst (s_alloc s)) 1 (s_next_pid s - 1)) as [c2|] eqn:E2; [discriminate|].
    destruct (N.lt_ge_cases x (s_next_pid s)) as [Hlt|Hge].
    - apply (first_gap_none _ _ _ Hinc E2). lia.
    - apply (first_gap_none _ _ _ Hinc E1). lia.
  Qed.

  Theorem acquire_never_panics (s : state) id site : acquire s id <> Panic site.
  Proof.
    unfold acquire_free_pid.
    destruct (first_gap _ _ 65535); [discriminate|]. destruct (first_gap _ 1 _); discriminate.
  Qed.

  (* rotating search: the id chosen is the first free one at or after the cursor, cyclically *)
  Theorem acquire_rotating (s s' : state) id c :
    pids_ok s -> acquire s id = Ok (s', c) ->
    (s_next_pid s <= c /\ forall x, s_next_pid s <= x < c -> In x (map fst (s_alloc s))) \/
    (c < s_next_pid s /\ (forall x, s_next_pid s <= x <= 65535 -> In x (map fst (s_alloc s))) /\
     forall x, 1 <= x < c -> In x (map fst (s_alloc s))).
  Proof.
    intros (Hinc & Hrange & Hcur) H. unfold acquire_free_pid in H.
    destruct (first_gap (map fst (s_alloc s)) (s_next_pid s) 65535) as [c1|] eqn:E1.
    - inversion H; subst; clear H. left.
      destruct (first_gap_some _ _ _ _ Hinc E1) as [Hr Hn]. split; [lia|].
      apply (first_gap_minimal _ _ _ _ Hinc E1).
    - destruct (first_gap (map fst (s_alloc s)) 1 (s_next_pid s - 1)) as [c2|] eqn:E2; [|discriminate].
      inversion H; subst; clear H. right.
      destruct (first_gap_some _ _ _ _ Hinc E2) as [Hr Hn]. split; [lia|]. split.
      + intros x Hx. apply (first_gap_none _ _ _ Hinc E1). lia.
      + apply (first_gap_minimal _ _ _ _ Hinc E2).
  Qed.
End Acquire.
