(* C02 at run level, the missing premise of WireRunInstance.instance_wire_decodes: every (packet, resolution) the engine
   constructs an encoder for is valid for the wire specification (Codec/ValidC2S.valid).  Definitions.

   [gpk v p]   what is known of the packet of EVERY operation in the table, whatever happened to it since it was created:
               - a user packet (PUBLISH / SUBSCRIBE / UNSUBSCRIBE / DISCONNECT): with packet id and duplicate flag erased it
                 is the packet a client submitted, which passed the submission-time validator ([sub_good]); the packet id
                 is at most 65535 and the duplicate flag is only set on QoS >= 1 ([engine_ok]);
               - CONNECT: valid for the wire specification (a hypothesis on the configuration, BridgeConnect.v);
               - PUBACK / PUBREC / PUBCOMP: [default_ack pid] with pid in 1..65535; PINGREQ;
               - nothing else is ever the packet of an operation.
   [gpr slot]  the PUBREL slot is empty or holds [Pubrel (default_ack pid)], pid in 1..65535.
   [gseat]     the packet seated for a good operation (the PUBREL slot if set, else its own packet).

   The send-time facts (packet id non-zero, lengths, filters) are NOT part of the invariant: they come from the
   send-time validator accepting the very packet the encoder is then constructed for ([seat_valid]). *)
From GM Require Import Base.Prelude Base.Outcome Codec.Packets Codec.Prim Codec.Settings Codec.SpecDecodeC2S Codec.ValidC2S.
From GM Require Import Validate.Rules Validate.Spec ValidateProofs.SizeP ValidateProofs.RulesP ValidateProofs.BridgeDefs ValidateProofs.BridgePackets
  ValidateProofs.BridgeConnect.
From GM Require Import Engine.Model EngineProofs.AssocLemmas EngineProofs.WFLemmas.
From RecordUpdate Require Import RecordSet.
Import RecordSetNotations.
Open Scope N_scope.

(* what a client may hand to the engine: one of the four user kinds, a value of the Rust packet type, accepted by
   validate_packet_outbound, shorter than 4 GiB whatever the alias resolution *)
Definition sub_good (q : packet) : Prop :=
  user_kind q = true /\ typed q = true /\ validate_outbound q = Ok tt /\ forall r, small q r.

Definition gpk (v : version) (p : packet) : Prop :=
  match p with
  | Publish _ | Subscribe _ | Unsubscribe _ | Disconnect _ => sub_good (erase p) /\ engine_ok p = true
  | Connect c => valid_connect v c = true
  | Puback a | Pubrec a | Pubcomp a => a = default_ack (ack_pid a) /\ pid_ok (ack_pid a) = true
  | Pingreq => True
  | _ => False
  end.

Definition gpr (o : option packet) : Prop :=
  forall pr, o = Some pr -> exists pid, pr = Pubrel (default_ack pid) /\ pid_ok pid = true.

Definition goodop (v : version) (o : op) : Prop := gpk v (op_packet o) /\ gpr (op_pubrel o).

Definition gseat (v : version) (p : packet) : Prop :=
  gpk v p \/ exists pid, p = Pubrel (default_ack pid) /\ pid_ok pid = true.

Lemma goodop_seat v o : goodop v o -> gseat v (match op_pubrel o with Some pr => pr | None => op_packet o end).
Proof. intros [H1 H2]. destruct (op_pubrel o) as [pr|]; [right; apply H2; reflexivity|left; exact H1]. Qed.

Lemma gpr_none : gpr None.
Proof. intros pr H. discriminate. Qed.

(* ---- submissions ---- *)
Lemma sub_good_erase q : sub_good q -> erase q = q.
Proof.
  intros (Hk & _ & Hv & _). apply static_of in Hv.
  destruct q as [c|c|pb|a|a|a|a|sb|s0|un|u| | |d|au]; try discriminate Hk; cbn [static_spec erase] in *; try reflexivity.
  - unfold publish_static in Hv. repeat (apply andb_true_iff in Hv as [Hv ?]).
    destruct pb as [pid ? ? dup ? ? ? ? ? ? ? ? ? ?]; cbn in *. assert (pid = 0) as -> by lia. destruct dup; [discriminate|reflexivity].
  - unfold subscribe_static in Hv. repeat (apply andb_true_iff in Hv as [Hv ?]). destruct sb as [pid ? ? ?]; cbn in *.
    assert (pid = 0) as -> by lia. reflexivity.
  - unfold unsubscribe_static in Hv. repeat (apply andb_true_iff in Hv as [Hv ?]). destruct un as [pid ? ?]; cbn in *.
    assert (pid = 0) as -> by lia. reflexivity.
Qed.

(* a freshly submitted packet is a good operation packet *)
Lemma gpk_submitted v p : sub_good p -> gpk v p.
Proof.
  intros H. pose proof (sub_good_erase p H) as E. destruct H as (Hk & Ht & Hv & Hs).
  assert (Hg : sub_good (erase p)) by (rewrite E; repeat split; assumption).
  assert (He : engine_ok p = true).
  { rewrite <- E. destruct p; try reflexivity. cbn. destruct (pub_qos p =? 0); reflexivity. }
  destruct p; try discriminate Hk; cbn [gpk]; split; assumption.
Qed.

(* ---- what the engine does to the packet of an operation ---- *)
Lemma with_pid_gpk v pid p p' : pid <= 65535 -> with_pid pid p = Ok p' -> gpk v p -> gpk v p'.
Proof.
  intros Hp H G. destruct p; cbn [with_pid] in H; inversion H; subst; cbn [gpk erase engine_ok pub_pid pub_qos pub_dup s_pid u_pid] in *;
    destruct G as [G1 G2]; (split; [exact G1|]).
  - apply andb_true_iff in G2 as [_ G2]. rewrite G2. unfold U16_MAX. apply andb_true_iff. split; [lia|reflexivity].
  - unfold U16_MAX. lia.
  - unfold U16_MAX. lia.
Qed.

Definition dup_ok (v : bool) (p : packet) : Prop :=
  match p with Publish pb => v = true -> (pub_qos pb =? 0) = false | _ => True end.

Lemma set_dup_goodop vv v o : dup_ok v (op_packet o) -> goodop vv o -> goodop vv (set_dup v o).
Proof.
  intros Hd [G1 G2]. unfold set_dup. destruct (op_packet o) as [| |pb| | | | | | | | | | | |] eqn:E; try (split; [rewrite E; exact G1|exact G2]).
  split; [|exact G2]. cbn [op_packet set]. cbn. cbn [gpk erase engine_ok] in G1. destruct G1 as [G1 G3].
  split; [exact G1|]. cbn [engine_ok pub_pid pub_qos pub_dup]. apply andb_true_iff in G3 as [G3 G4]. rewrite G3. cbn [andb].
  cbn [dup_ok] in Hd. destruct v; [rewrite (Hd eq_refl); reflexivity|]. destruct (pub_qos pb =? 0); reflexivity.
Qed.

(* ---- tables of good operations ---- *)
Definition OGt (v : version) (l : list (N * op)) : Prop := forall i o, lookup i l = Some o -> goodop v o.

Lemma OGt_sub v l l' : (forall i o, lookup i l' = Some o -> lookup i l = Some o) -> OGt v l -> OGt v l'.
Proof. intros S H i o Hi. apply (H i o). apply S. exact Hi. Qed.

Lemma OGt_update v k f l : (forall o, lookup k l = Some o -> goodop v o -> goodop v (f o)) -> OGt v l -> OGt v (update k f l).
Proof.
  intros Hf H i o' Hi. apply lookup_update_inv in Hi. destruct Hi as (o & Ho & [[_ ->]|[-> ->]]); [|apply Hf; [exact Ho|]]; apply (H _ _ Ho).
Qed.

Lemma OGt_fold_update v f ids : (forall o, goodop v o -> goodop v (f o)) -> forall l, OGt v l -> OGt v (fold_left (fun ops id => update id f ops) ids l).
Proof.
  intros Hf. induction ids as [|a r IH]; intros l H; cbn [fold_left]; [exact H|]. apply IH. apply OGt_update; [intros o _; apply Hf|exact H].
Qed.

Lemma OGt_new v k o l : goodop v o -> OGt v l -> OGt v (l ++ [(k, o)]).
Proof.
  intros Ho H i o' Hi. rewrite lookup_app in Hi. destruct (lookup i l) as [o1|] eqn:E.
  - inversion Hi; subst. apply (H _ _ E).
  - cbn in Hi. destruct (k =? i); [|discriminate]. inversion Hi; subst. exact Ho.
Qed.

Lemma OGt_nil v : OGt v [].
Proof. intros i o H. discriminate. Qed.

(* ---- the outbound alias resolution: alias in 1..bound, topic dropped only with an alias ---- *)
Definition res_le (b : N) (r : resolution) : Prop :=
  match r_alias r with Some a => 1 <= a <= b | None => r_skip_topic r = false end.

(* the bound of a protocol version: topic aliases do not exist in MQTT 3.1.1 *)
Definition Bv (v : version) : N := match v with V5 => 65535 | V311 => 0 end.

Lemma res_le_valid v r : res_le (Bv v) r -> res_valid r = true /\ (v = V311 -> r_skip_topic r = false).
Proof.
  unfold res_le, res_valid. destruct (r_alias r) as [a|]; cbn [opt_ok is_some].
  - intros H. split; [|intros ->; cbn in H; lia]. unfold U16_MAX. destruct v; cbn in H; [|lia].
    destruct (r_skip_topic r); cbn; lia.
  - intros ->. split; [reflexivity|reflexivity].
Qed.

Lemma res_le_none b : res_le b no_resolution.
Proof. reflexivity. Qed.

(* ---- the packet an encoder is constructed for, right after the send-time validator accepted it ---- *)
Lemma small_erase p r : small (erase p) r -> small p r.
Proof. unfold small. destruct p; exact (fun H => H). Qed.

Lemma check_none p r s : check_packet_size None p r <> Ok s.
Proof.
  unfold check_packet_size. destruct (ImplEncode.impl_lengths5 p r) as [[a b]| |]; cbn; try discriminate.
  destruct (vli_size a); cbn; discriminate.
Qed.

Theorem seat_valid v sto co r p :
  gseat v p -> validate_outbound_internal sto co r p = Ok tt -> res_le (Bv v) r -> valid v r p = true.
Proof.
  intros [G|(pid & -> & Hp)] HD HR.
  - assert (Huser : user_kind p = true -> sub_good (erase p) /\ engine_ok p = true -> valid v r p = true).
    { intros Hk [(_ & Ht & Hv & Hs) He]. destruct (res_le_valid v r HR) as [R1 R2].
      destruct sto as [st|].
      - apply (bridge_user v st co r p Hk); try assumption; [rewrite <- typed_erase; exact Ht|apply small_erase, Hs].
      - exfalso. destruct p; try discriminate Hk; cbn in HD; unfold validate_publish_packet_outbound_internal, validate_subscribe_packet_outbound_internal,
          validate_unsubscribe_packet_outbound_internal, validate_disconnect_packet_outbound_internal in HD;
          match type of HD with context [check_packet_size None ?p ?r] =>
            destruct (check_packet_size None p r) as [s0| |] eqn:E; [exact (check_none _ _ _ E)|discriminate HD|discriminate HD] end. }
    destruct p; cbn [gpk] in G; try contradiction; try (apply Huser; [reflexivity|exact G]).
    + exact G.
    + destruct G as [E Hp]. rewrite E, <- Hp. apply (engine_acks_valid v r).
    + destruct G as [E Hp]. rewrite E, <- Hp. apply (engine_acks_valid v r).
    + destruct G as [E Hp]. rewrite E, <- Hp. apply (engine_acks_valid v r).
    + reflexivity.
  - rewrite <- Hp. apply (engine_acks_valid v r).
Qed.
