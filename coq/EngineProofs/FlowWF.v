(* The packet-id facts used by the flow-control development (FlowInv.pid_facts) are conjuncts of
   the engine well-formedness invariant (WFDefs.WFc), so the receive-maximum bound of FlowMain.v
   holds unconditionally over every event history: for abstract components satisfying comps_ok,
   and for the concrete engine of Engine/Instance.v. *)
From GM Require Import Base.Prelude Base.Outcome Codec.Packets Codec.Settings Alias.Outbound Engine.Model Engine.Instance
  EngineProofs.AssocLemmas EngineProofs.WFLemmas EngineProofs.WFDefs EngineProofs.WFCore EngineProofs.WFStep EngineProofs.WFProps
  EngineProofs.WFInstance EngineProofs.Flow EngineProofs.FlowInv EngineProofs.FlowMain.
Open Scope N_scope.

Lemma Forall_firstn_ok {A} (P : A -> Prop) (l : list A) : Forall P l -> forall k, Forall P (firstn k l).
Proof.
  induction 1 as [|x r Hx Hr IH]; intros k; destruct k; cbn; constructor; auto.
Qed.

Lemma WF_pid_facts {enc dec ores ires : Type} (s : state enc dec ores ires) : WFS s -> pid_facts enc dec ores ires s.
Proof.
  intros HW. constructor.
  - intros id o p Ho Hp. exact (proj1 (w_bound _ _ HW id o p Ho Hp)).
  - intros id o Hin Ho Hq.
    assert (Hn : needs_pid (op_packet o) = true).
    { unfold qpub in Hq. destruct (op_packet o); try discriminate. cbn. exact Hq. }
    destruct (w_hq _ _ HW id o Hin Ho Hn) as (p & Hp).
    destruct (w_ppub _ _ HW p id Hp) as (o' & Ho' & Hpid & _).
    assert (o' = o) by (unfold gop in Ho'; cbn in Ho'; congruence). subst o'.
    exists p. split; [exact Hpid|]. split.
    + destruct (w_bound _ _ HW id o p Ho Hpid) as (_ & Hpk & _).
      unfold qpub in Hq. destruct (op_packet o); try discriminate. cbn in Hpk |- *. congruence.
    + unfold haskey. rewrite (In_lookup p id (s_ppub s) (w_ppub_inc _ _ HW) Hp). reflexivity.
Qed.

Section FlowWF.
  Variable enc : Type.
  Variable enc_reset : version -> packet -> resolution -> outcome enc.
  Variable enc_call : enc -> N -> N -> outcome (bytes * enc).
  Variable enc_done : enc -> bool.
  Variable dec : Type.
  Variable dec_init : dec.
  Variable dec_feed : version -> N -> dec -> bytes -> dec * list packet * outcome unit.
  Variable ores : Type.
  Variable ores_reset : ores -> N -> ores.
  Variable ores_resolve : ores -> option N -> bytes -> outcome (ores * resolution).
  Variable ires : Type.
  Variable ires_reset : ires -> ires.
  Variable ires_resolve : ires -> option N -> bytes -> outcome (ires * bytes).
  Variable v_out : option settings -> connect_opts -> resolution -> packet -> outcome unit.
  Variable v_in : option settings -> packet -> outcome unit.
  Variable cfg : config.
  Variable HC : comps_ok enc enc_reset enc_call dec dec_init dec_feed ores ores_reset ores_resolve ires ires_reset ires_resolve v_out v_in.
  Hypothesis Hcfg : ok_cfg cfg.

  Notation init := (Model.init enc dec dec_init ores ires).
  Notation run := (Model.run enc enc_reset enc_call enc_done dec dec_init dec_feed ores ores_reset ores_resolve ires ires_reset ires_resolve v_out v_in cfg).

  (* the receive-maximum bound over all event histories *)
  Theorem receive_max o i h :
    ores_inv HC o -> ires_inv HC i -> Forall ok_event h ->
    s_st (fst (run (init o i) h)) = Connected ->
    exists st, s_settings (fst (run (init o i) h)) = Some st /\
               len (s_ppub (fst (run (init o i) h))) <= st_receive_maximum_from_server st.
  Proof.
    intros Ho Hi Hall.
    apply (receive_max_given enc enc_reset enc_call enc_done dec dec_init dec_feed ores ores_reset ores_resolve
             ires ires_reset ires_resolve v_out v_in cfg o i h).
    - intros k. apply WF_pid_facts.
      exact (proj1 (proj1 (reachable_wf _ _ _ enc_done _ _ _ _ _ _ _ _ _ _ _ cfg HC Hcfg o i (firstn k h) Ho Hi (Forall_firstn_ok _ _ Hall k)))).
    - intros out Hin. pose proof (no_panic _ _ _ enc_done _ _ _ _ _ _ _ _ _ _ _ cfg HC Hcfg o i h Ho Hi Hall out Hin) as Hn.
      destruct (o_res out) as [u|e|site]; try reflexivity. exfalso. eapply Hn. reflexivity.
  Qed.
End FlowWF.

(* ... and for the concrete engine: only the environment guarantees remain *)
Theorem instance_receive_max (cfg : config) (k : resolver_kind) (h : list event) :
  ok_cfg cfg -> Forall ok_event h ->
  s_st (fst (i_run cfg (i_init cfg k) h)) = Connected ->
  exists st, s_settings (fst (i_run cfg (i_init cfg k) h)) = Some st /\
             len (s_ppub (fst (i_run cfg (i_init cfg k) h))) <= st_receive_maximum_from_server st.
Proof.
  intros Hcfg Hall.
  exact (receive_max _ _ _ enc_done _ _ _ _ _ _ _ _ _ _ _ cfg instance_comps_ok Hcfg _ _ h I I Hall).
Qed.
