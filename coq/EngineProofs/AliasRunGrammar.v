(* C17, engine level: what acceptance by the reference machine of AliasRunLog.v says about a log, spelled
   out as statements about positions in the log (no engine here: pure reasoning about [gruns]).
   (2) an encoder is constructed only right after the validator accepted the same packet with the same
       resolution, which for a PUBLISH is the resolution the resolver just returned for that packet;
   (3) the resolver is reset after a rejected packet exactly when its resolution carried an alias, with the
       maximum of the last accepted CONNACK (or 0), before the operation is failed;
   (4) an operation is dequeued (and hence a PUBLISH resolved) only while the encoder slot is free: the
       previously seated operation was completely encoded, failed, gone, or the connection closed. *)
From GM Require Import Base.Prelude Base.Outcome Codec.Packets Codec.Settings Engine.Model EngineProofs.AliasRunLog.
Open Scope N_scope.

(* the encoder slot as a function of the log *)
Definition slot_step (c : option N) (e : oev) : option N :=
  match e with
  | OPick id => Some id
  | OGone _ | ORejected _ _ | ODone _ | OOpen | OClose | OClear => None
  | _ => c
  end.
Definition slot (c : option N) (l : list oev) : option N := fold_left slot_step l c.

Section Grammar.
  Variable ores : Type.
  Variable ores_reset : ores -> N -> ores.
  Variable ores_resolve : ores -> option N -> bytes -> outcome (ores * resolution).
  Notation gst := (gst ores).
  Notation gstep := (gstep ores ores_reset ores_resolve).
  Notation gruns := (gruns ores ores_reset ores_resolve).
  Notation g_ph := (g_ph ores).
  Notation g_cm := (g_cm ores).

  Lemma gruns_snoc g l e g' : gruns g (l ++ [e]) g' -> exists g0, gruns g l g0 /\ gstep g0 e g'.
  Proof.
    intros H. apply gruns_app_inv in H. destruct H as (g0 & A & B). cbn in B. destruct B as (g1 & S & ->). exists g0. auto.
  Qed.

  Lemma not_stable_picked id : ~ stable (PPicked id). Proof. intros [H|(i & H)]; discriminate. Qed.
  Lemma not_stable_resolved id a t r : ~ stable (PResolved id a t r). Proof. intros [H|(i & H)]; discriminate. Qed.
  Lemma not_stable_checked id p r v : ~ stable (PChecked id p r v). Proof. intros [H|(i & H)]; discriminate. Qed.
  Lemma not_stable_undone id k : ~ stable (PUndone id k). Proof. intros [H|(i & H)]; discriminate. Qed.

  (* a phase that is not stable was entered by the last event *)
  Lemma back g l g1 : gruns g l g1 -> stable (g_ph g) -> ~ stable (g_ph g1) ->
    exists l0 e g0, l = l0 ++ [e] /\ gruns g l0 g0 /\ gstep g0 e g1.
  Proof.
    intros H Hs Hn. destruct l as [|a l] using rev_ind; [cbn in H; subst; contradiction|].
    destruct (gruns_snoc _ _ _ _ H) as (g0 & A & B). exists l, a, g0. auto.
  Qed.

  Ltac stab H E := rewrite E in H; first [exfalso; exact (not_stable_picked _ H) | exfalso; exact (not_stable_resolved _ _ _ _ H)
                                         | exfalso; exact (not_stable_checked _ _ _ _ H) | exfalso; exact (not_stable_undone _ _ H)].

  (* how each transitional phase is entered *)
  Lemma enter_picked g0 e g1 id : gstep g0 e g1 -> g_ph g1 = PPicked id -> e = OPick id /\ g_ph g0 = PIdle.
  Proof.
    destruct e as [i|i|i|i a t res|i p r v|m|i k|i p r ok|i|m| | | ]; cbn; intros H E.
    - destruct H as [H ->]. cbn in E. inversion E. auto.
    - destruct H as [_ ->]. discriminate.
    - destruct H as [_ ->]. discriminate.
    - destruct H as (_ & _ & ->). destruct (ores_resolve _ _ _) as [[o' r]| |]; discriminate.
    - destruct H as [_ ->]. destruct v; discriminate.
    - destruct H as (? & ? & ? & ? & _ & _ & _ & ->). discriminate.
    - destruct H as [_ ->]. discriminate.
    - destruct H as [_ ->]. discriminate.
    - destruct H as [_ ->]. discriminate.
    - destruct H as [H ->]. cbn in E. stab H E.
    - destruct H as [_ ->]. discriminate.
    - destruct H as [_ ->]. discriminate.
    - destruct H as [_ ->]. discriminate.
  Qed.

  Lemma enter_resolved g0 e g1 id a t r : gstep g0 e g1 -> g_ph g1 = PResolved id a t r ->
    e = OResolve id a t (Ok r) /\ g_ph g0 = PPicked id.
  Proof.
    destruct e as [i|i|i|i a0 t0 res|i p r0 v|m|i k|i p r0 ok|i|m| | | ]; cbn; intros H E.
    - destruct H as [_ ->]. discriminate.
    - destruct H as [_ ->]. discriminate.
    - destruct H as [_ ->]. discriminate.
    - destruct H as (H & -> & ->). destruct (ores_resolve _ _ _) as [[o' r']| |]; [|discriminate..]. cbn in E. inversion E; subst. auto.
    - destruct H as [_ ->]. destruct v; discriminate.
    - destruct H as (? & ? & ? & ? & _ & _ & _ & ->). discriminate.
    - destruct H as [_ ->]. discriminate.
    - destruct H as [_ ->]. discriminate.
    - destruct H as [_ ->]. discriminate.
    - destruct H as [H ->]. cbn in E. stab H E.
    - destruct H as [_ ->]. discriminate.
    - destruct H as [_ ->]. discriminate.
    - destruct H as [_ ->]. discriminate.
  Qed.

  Lemma enter_checked g0 e g1 id p r v : gstep g0 e g1 -> g_ph g1 = PChecked id p r v ->
    e = OValid id p r v /\
    match p with
    | Publish pb => g_ph g0 = PResolved id (pub_alias pb) (pub_topic pb) r
    | _ => g_ph g0 = PPicked id /\ r = no_resolution
    end.
  Proof.
    destruct e as [i|i|i|i a0 t0 res|i p0 r0 v0|m|i k|i p0 r0 ok|i|m| | | ]; cbn; intros H E.
    - destruct H as [_ ->]. discriminate.
    - destruct H as [_ ->]. discriminate.
    - destruct H as [_ ->]. discriminate.
    - destruct H as (_ & _ & ->). destruct (ores_resolve _ _ _) as [[o' r']| |]; discriminate.
    - destruct H as [H ->]. destruct v0; cbn in E; inversion E; subst; auto.
    - destruct H as (? & ? & ? & ? & _ & _ & _ & ->). discriminate.
    - destruct H as [_ ->]. discriminate.
    - destruct H as [_ ->]. discriminate.
    - destruct H as [_ ->]. discriminate.
    - destruct H as [H ->]. cbn in E. stab H E.
    - destruct H as [_ ->]. discriminate.
    - destruct H as [_ ->]. discriminate.
    - destruct H as [_ ->]. discriminate.
  Qed.

  Lemma enter_undone g0 e g1 id k : gstep g0 e g1 -> g_ph g1 = PUndone id k ->
    exists m p r, e = OReset m /\ g_ph g0 = PChecked id p r (Err k) /\ r_alias r <> None /\ (m = g_cm g0 \/ m = 0).
  Proof.
    destruct e as [i|i|i|i a0 t0 res|i p0 r0 v0|m|i k0|i p0 r0 ok|i|m| | | ]; cbn; intros H E.
    - destruct H as [_ ->]. discriminate.
    - destruct H as [_ ->]. discriminate.
    - destruct H as [_ ->]. discriminate.
    - destruct H as (_ & _ & ->). destruct (ores_resolve _ _ _) as [[o' r']| |]; discriminate.
    - destruct H as [_ ->]. destruct v0; discriminate.
    - destruct H as (i & p & r & k1 & A & B & C & ->). cbn in E. inversion E; subst. exists m, p, r. auto.
    - destruct H as [_ ->]. discriminate.
    - destruct H as [_ ->]. discriminate.
    - destruct H as [_ ->]. discriminate.
    - destruct H as [H ->]. cbn in E. stab H E.
    - destruct H as [_ ->]. discriminate.
    - destruct H as [_ ->]. discriminate.
    - destruct H as [_ ->]. discriminate.
  Qed.

  (* an operation is picked right before it is resolved / validated *)
  Lemma picked_before g l g1 id : gruns g l g1 -> stable (g_ph g) -> g_ph g1 = PPicked id -> exists l0, l = l0 ++ [OPick id].
  Proof.
    intros H Hs E. destruct (back g l g1 H Hs) as (l0 & e & g0 & -> & _ & S); [rewrite E; apply not_stable_picked|].
    destruct (enter_picked _ _ _ _ S E) as [-> _]. exists l0. reflexivity.
  Qed.

  (* (2) *)
  Theorem encode_after_validation g l g' : gruns g l g' -> stable (g_ph g) ->
    forall l1 id p r ok l2, l = l1 ++ OEncode id p r ok :: l2 ->
      (exists pb l0, p = Publish pb /\
         l1 = l0 ++ [OPick id; OResolve id (pub_alias pb) (pub_topic pb) (Ok r); OValid id p r (Ok tt)]) \/
      ((forall pb, p <> Publish pb) /\ r = no_resolution /\ exists l0, l1 = l0 ++ [OPick id; OValid id p r (Ok tt)]).
  Proof.
    intros H Hs l1 id p r ok l2 ->. apply gruns_app_inv in H. destruct H as (g1 & R1 & R2). cbn in R2. destruct R2 as (g2 & (E1 & _) & _).
    destruct (back g l1 g1 R1 Hs) as (la & e & ga & -> & Ra & Sa); [rewrite E1; apply not_stable_checked|].
    destruct (enter_checked _ _ _ _ _ _ _ Sa E1) as [-> Hp].
    destruct p as [c|c|pb|a|a|a|a|sb|a|un|a| | |d|a];
      try (lazymatch type of Hp with _ /\ _ => idtac end; right; destruct Hp as [Hp Hr]; subst r; destruct (picked_before g la ga id Ra Hs Hp) as (l0 & ->);
           split; [intros pb; discriminate|]; split; [reflexivity|]; exists l0; rewrite <- app_assoc; reflexivity).
    left. destruct (back g la ga Ra Hs) as (lb & e & gb & -> & Rb & Sb); [rewrite Hp; apply not_stable_resolved|].
    destruct (enter_resolved _ _ _ _ _ _ _ Sb Hp) as [-> Hq].
    destruct (picked_before g lb gb id Rb Hs Hq) as (l0 & ->).
    exists pb, l0. split; [reflexivity|]. rewrite <- !app_assoc. reflexivity.
  Qed.

  (* a PUBLISH is resolved right after it was dequeued, and the logged answer is the resolver's *)
  Theorem resolve_after_pick g l g' : gruns g l g' -> stable (g_ph g) ->
    forall l1 id a t res l2, l = l1 ++ OResolve id a t res :: l2 ->
      (exists l0, l1 = l0 ++ [OPick id]) /\ res = res_of (ores_resolve (replay ores ores_reset ores_resolve (g_ores ores g) l1) a t).
  Proof.
    intros H Hs l1 id a t res l2 ->. apply gruns_app_inv in H. destruct H as (g1 & R1 & R2). cbn in R2. destruct R2 as (g2 & (E1 & E2 & _) & _).
    split; [exact (picked_before g l1 g1 id R1 Hs E1)|]. rewrite <- (gruns_replay _ _ _ _ _ _ R1). exact E2.
  Qed.

  (* after the reset of a rejected packet the operation is failed *)
  Lemma from_undone g e g' id k : g_ph g = PUndone id k -> gstep g e g' -> e = ORejected id k.
  Proof.
    intros E. destruct e as [i|i|i|i a0 t0 res|i p0 r0 v0|m0|i k0|i p0 r0 ok|i|m0| | | ]; cbn; intros H;
      try (destruct p0);
      repeat match goal with
             | H : _ /\ _ |- _ => destruct H
             | H : exists _, _ |- _ => destruct H
             | H : _ \/ _ |- _ => destruct H
             | H : stable _ |- _ => destruct H
             end; try congruence.
  Qed.

  (* (3) the D7 reset *)
  Theorem reset_after_rejection g l g' : gruns g l g' -> stable (g_ph g) ->
    forall l1 m l2, l = l1 ++ OReset m :: l2 ->
      exists l0 id p r k, l1 = l0 ++ [OValid id p r (Err k)] /\ r_alias r <> None /\ (m = cmax (g_cm g) l1 \/ m = 0) /\
                          exists l3, l2 = ORejected id k :: l3 \/ l2 = [].
  Proof.
    intros H Hs l1 m l2 ->. apply gruns_app_inv in H. destruct H as (g1 & R1 & R2). cbn in R2.
    destruct R2 as (g2 & (id & p & r & k & E1 & E2 & E3 & ->) & R3).
    destruct (back g l1 g1 R1 Hs) as (la & e & ga & -> & Ra & Sa); [rewrite E1; apply not_stable_checked|].
    destruct (enter_checked _ _ _ _ _ _ _ Sa E1) as [-> _].
    exists la, id, p, r, k. split; [reflexivity|]. split; [exact E2|]. split; [rewrite <- (gruns_cm _ _ _ _ _ _ R1); exact E3|].
    destruct l2 as [|e l3]; [exists []; right; reflexivity|]. exists l3. left. cbn in R3. destruct R3 as (g3 & S3 & _).
    assert (Ee : e = ORejected id k) by (eapply from_undone; [|exact S3]; reflexivity). rewrite Ee. reflexivity.
  Qed.

  Theorem rejection_shape g l g' : gruns g l g' -> stable (g_ph g) ->
    forall l1 id k l2, l = l1 ++ ORejected id k :: l2 ->
      (exists l0 p r, l1 = l0 ++ [OValid id p r (Err k)] /\ r_alias r = None) \/
      (exists l0 p r m, l1 = l0 ++ [OValid id p r (Err k); OReset m] /\ r_alias r <> None).
  Proof.
    intros H Hs l1 id k l2 ->. apply gruns_app_inv in H. destruct H as (g1 & R1 & R2). cbn in R2. destruct R2 as (g2 & (E1 & _) & _).
    destruct E1 as [E1|(p & r & E1 & E2)].
    - right. destruct (back g l1 g1 R1 Hs) as (la & e & ga & -> & Ra & Sa); [rewrite E1; apply not_stable_undone|].
      destruct (enter_undone _ _ _ _ _ Sa E1) as (m & p & r & -> & F1 & F2 & _).
      destruct (back g la ga Ra Hs) as (lb & e & gb & -> & Rb & Sb); [rewrite F1; apply not_stable_checked|].
      destruct (enter_checked _ _ _ _ _ _ _ Sb F1) as [-> _]. exists lb, p, r, m. split; [rewrite <- app_assoc; reflexivity|exact F2].
    - left. destruct (back g l1 g1 R1 Hs) as (la & e & ga & -> & Ra & Sa); [rewrite E1; apply not_stable_checked|].
      destruct (enter_checked _ _ _ _ _ _ _ Sa E1) as [-> _]. exists la, p, r. auto.
  Qed.

  (* (4) the encoder slot *)
  Lemma gstep_slot g e g' : gstep g e g' -> cur_of (g_ph g') = slot_step (cur_of (g_ph g)) e.
  Proof.
    destruct e as [i|i|i|i a0 t0 res|i p0 r0 v0|m|i k0|i p0 r0 ok|i|m| | | ]; cbn; intros H.
    - destruct H as [_ ->]. reflexivity.
    - destruct H as [_ ->]. reflexivity.
    - destruct H as [E ->]. rewrite E. reflexivity.
    - destruct H as (E & _ & ->). rewrite E. destruct (ores_resolve _ _ _) as [[o' r']| |]; reflexivity.
    - destruct H as [E ->]. destruct p0; (lazymatch type of E with _ /\ _ => destruct E as [E _] | _ => idtac end); rewrite E; destruct v0; reflexivity.
    - destruct H as (? & ? & ? & ? & E & _ & _ & ->). rewrite E. reflexivity.
    - destruct H as [_ ->]. reflexivity.
    - destruct H as [E ->]. rewrite E. reflexivity.
    - destruct H as [_ ->]. reflexivity.
    - destruct H as [_ ->]. reflexivity.
    - destruct H as [_ ->]. reflexivity.
    - destruct H as [_ ->]. reflexivity.
    - destruct H as [_ ->]. reflexivity.
  Qed.

  Lemma gruns_slot l : forall g g', gruns g l g' -> cur_of (g_ph g') = slot (cur_of (g_ph g)) l.
  Proof.
    induction l as [|e l IH]; intros g g' H; cbn in *; [subst; reflexivity|].
    destruct H as (g1 & S1 & R1). rewrite (IH _ _ R1), (gstep_slot _ _ _ S1). reflexivity.
  Qed.

  Theorem pick_only_when_slot_free g l g' : gruns g l g' ->
    forall l1 id l2, l = l1 ++ OPick id :: l2 -> slot (cur_of (g_ph g)) l1 = None.
  Proof.
    intros H l1 id l2 ->. apply gruns_app_inv in H. destruct H as (g1 & R1 & R2). cbn in R2. destruct R2 as (g2 & (E1 & _) & _).
    rewrite <- (gruns_slot _ _ _ R1), E1. reflexivity.
  Qed.

  (* the operation being encoded is the one picked last: ODone id closes the seat of id *)
  Theorem done_closes_seat g l g' : gruns g l g' ->
    forall l1 id l2, l = l1 ++ ODone id :: l2 -> slot (cur_of (g_ph g)) l1 = Some id.
  Proof.
    intros H l1 id l2 ->. apply gruns_app_inv in H. destruct H as (g1 & R1 & R2). cbn in R2. destruct R2 as (g2 & (E1 & _) & _).
    rewrite <- (gruns_slot _ _ _ R1), E1. reflexivity.
  Qed.
End Grammar.
