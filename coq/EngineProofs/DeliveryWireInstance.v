(* C04, run level, for the CONCRETE engine of Engine/Instance.v (component hypotheses discharged by
   WFInstance.instance_comps_ok): the theorems of DeliveryWireThms.v, and witnesses by computation:
   - dw_qos2: the transmissions of a QoS 2 publish (operation 2) across: PUBLISH sent, PUBREC processed, PUBREL sent,
     close, session-present reconnect (PUBREL re-sent), close, session-absent reconnect (PUBLISH restarted with DUP = 0
     and a different identifier);
   - dw_qos1_dup: a QoS 1 publish written, the connection closed before the PUBACK, a session resumed: the PUBLISH is
     handed to the encoder again with DUP = 1 and the same identifier;
   - dw_pubrel_twice: a repeated PUBREC makes the engine hand the PUBREL to the encoder twice within ONE connection (the
     PUBREL is sent once per processed PUBREC, not once per connection). *)
From GM Require Import Base.Prelude Base.Outcome Codec.Packets Codec.Settings Codec.Steps Codec.ImplEncode
  Codec.Framing Alias.Outbound Alias.Inbound Validate.Rules Engine.Model Engine.Instance
  EngineProofs.WFDefs EngineProofs.WFTrack EngineProofs.WFInstance EngineProofs.IdsFrame EngineProofs.IdsWitness EngineProofs.OrderRunWitness
  EngineProofs.InboundSpec EngineProofs.AliasRunLog
  EngineProofs.DeliveryWireDefs EngineProofs.DeliveryWire EngineProofs.DeliveryWireLang EngineProofs.DeliveryWireThms.
Open Scope N_scope.

(* the delivery log and the transmissions of an operation, for the concrete engine *)
Definition i_dlog (cfg : config) (k : resolver_kind) (h : list event) : list dev :=
  run_dlog enc impl_steps encode_call enc_done decoder decoder_init decode_bytes ores ores_reset ores_resolve ires ires_reset ires_resolve
           validate_outbound_internal validate_inbound_internal cfg (i_init cfg k) h.
Definition i_sends (cfg : config) (k : resolver_kind) (i : N) (h : list event) : list (nat * packet) :=
  sends_from i 0 (i_dlog cfg k h).

Section Instance.
  Variable cfg : config.
  Hypothesis Hcfg : ok_cfg cfg.
  Variable k : resolver_kind.
  Variable h : list event.
  Hypothesis Hh : Forall ok_event h.
  Hypothesis Hs : Forall ok_submit h.
  Variable i : N.

  Let o0 := ores_init k.
  Let i0 := ires_init (match co_tam (cf_connect cfg) with Some m => m | None => 0 end).

  Theorem instance_accepts : accepts i g0 (i_dlog cfg k h).
  Proof. exact (dlog_accepted _ _ _ enc_done _ _ _ _ _ _ _ _ _ _ _ cfg instance_comps_ok Hcfg o0 i0 I I h Hh Hs i). Qed.

  Theorem instance_first_transmission l1 e l2 pb :
    i_dlog cfg k h = l1 ++ e :: l2 -> pub_of i e = Some pb -> submitted i (i_dlog cfg k h) -> (forall x, In x l1 -> pub_of i x = None) ->
    pub_dup pb = false /\ 1 <= pub_pid pb <= 65535 /\ pub_qos pb <> 0 /\
    exists p0, In (DS i p0) l1 /\ pubq p0 = true /\ norm (Publish pb) = norm p0.
  Proof. exact (wire_first_transmission _ _ _ enc_done _ _ _ _ _ _ _ _ _ _ _ cfg instance_comps_ok Hcfg o0 i0 I I h Hh Hs i l1 e l2 pb). Qed.

  Theorem instance_no_second_publish l1 e1 lm e2 l2 pb1 pb2 :
    i_dlog cfg k h = l1 ++ e1 :: lm ++ e2 :: l2 -> submitted i (i_dlog cfg k h) -> pub_of i e1 = Some pb1 -> pub_of i e2 = Some pb2 ->
    exists x, In x lm /\ boundary x = true.
  Proof. exact (wire_no_second_publish _ _ _ enc_done _ _ _ _ _ _ _ _ _ _ _ cfg instance_comps_ok Hcfg o0 i0 I I h Hh Hs i l1 e1 lm e2 l2 pb1 pb2). Qed.

  Theorem instance_pubrel_after_pubrec l1 e1 lm e2 l2 a p :
    i_dlog cfg k h = l1 ++ e1 :: lm ++ e2 :: l2 -> rec_of i e1 = Some a -> enc_of i e2 = Some p ->
    (forall x, In x lm -> sess_item x <> Some false) ->
    p = Pubrel (default_ack (ack_pid a)).
  Proof. exact (wire_pubrel_after_pubrec _ _ _ enc_done _ _ _ _ _ _ _ _ _ _ _ cfg instance_comps_ok Hcfg o0 i0 I I h Hh Hs i l1 e1 lm e2 l2 a p). Qed.

  Theorem instance_retransmission l1 e l2 pb :
    i_dlog cfg k h = l1 ++ e :: l2 -> submitted i (i_dlog cfg k h) -> pub_of i e = Some pb -> pub_dup pb = true ->
    sp_now l1 /\ wrote i (pub_pid pb) l1 /\ pub_qos pb <> 0 /\
    exists p0, In (DS i p0) l1 /\ pubq p0 = true /\ norm (Publish pb) = norm p0.
  Proof. exact (wire_retransmission _ _ _ enc_done _ _ _ _ _ _ _ _ _ _ _ cfg instance_comps_ok Hcfg o0 i0 I I h Hh Hs i l1 e l2 pb). Qed.

  Theorem instance_restart l1 e1 lm e2 l2 p :
    i_dlog cfg k h = l1 ++ e1 :: lm ++ e2 :: l2 -> submitted i (i_dlog cfg k h) -> sess_item e1 = Some false -> enc_of i e2 = Some p ->
    (forall x, In x lm -> enc_of i x = None) ->
    exists pb, p = Publish pb /\ pub_dup pb = false /\ 1 <= pub_pid pb <= 65535 /\ pub_qos pb <> 0.
  Proof. exact (wire_restart _ _ _ enc_done _ _ _ _ _ _ _ _ _ _ _ cfg instance_comps_ok Hcfg o0 i0 I I h Hh Hs i l1 e1 lm e2 l2 p). Qed.
End Instance.

(* ---- witnesses ---- *)
Definition dw_pubrec : bytes := [80; 2; 0; 1].          (* PUBREC, packet id 1 *)
Definition dw_pub (q pid : N) (d : bool) : packet :=
  Publish {| pub_pid := pid; pub_topic := [116]; pub_qos := q; pub_dup := d; pub_retain := false;
             pub_payload := None; pub_pfi := None; pub_mei := None; pub_alias := None; pub_response_topic := None;
             pub_correlation := None; pub_subids := None; pub_content_type := None; pub_up := None |}.

(* QoS 2 across three connections *)
Definition dw_hist : list event :=
  x_connect_events x_connack_bytes ++
  [EvUser 1 (x_pub 2) (Some 5000); EvService 1 4096 0; EvWriteComplete 1; EvData 2 dw_pubrec; EvService 3 4096 0; EvWriteComplete 3;
   EvClose 4] ++ x_connect_events ow_connack_sp_bytes ++ [EvService 7 4096 0; EvWriteComplete 7; EvClose 8] ++
  x_connect_events x_connack_bytes ++ [EvService 11 4096 0; EvWriteComplete 11].

Lemma dw_hist_ok : Forall ok_event dw_hist /\ Forall ok_submit dw_hist.
Proof. unfold dw_hist, x_connect_events. cbn [app]. split; repeat constructor; cbn; unfold TMAX; lia. Qed.

Example dw_qos2 :
  i_sends ow_cfg RNull 2 dw_hist =
    [(1%nat, dw_pub 2 1 false); (1%nat, Pubrel (default_ack 1));      (* first connection: PUBLISH, then PUBREL after the PUBREC *)
     (3%nat, Pubrel (default_ack 1));                                 (* session present: the PUBREL again *)
     (5%nat, dw_pub 2 2 false)] /\                                     (* no session: restarted, DUP = 0, another identifier *)
  map o_res (x_outs ow_cfg dw_hist) = repeat (Ok tt) 24.
Proof. vm_compute. split; reflexivity. Qed.

(* QoS 1: close before the PUBACK, session resumed *)
Definition dw_hist1 : list event :=
  x_connect_events x_connack_bytes ++
  [EvUser 1 (x_pub 1) (Some 5000); EvService 1 4096 0; EvWriteComplete 1; EvClose 2] ++
  x_connect_events ow_connack_sp_bytes ++ [EvService 5 4096 0; EvWriteComplete 5].

Example dw_qos1_dup :
  i_sends ow_cfg RNull 2 dw_hist1 = [(1%nat, dw_pub 1 1 false); (3%nat, dw_pub 1 1 true)] /\
  Forall ok_event dw_hist1 /\ Forall ok_submit dw_hist1.
Proof.
  split; [vm_compute; reflexivity|]. unfold dw_hist1, x_connect_events. cbn [app]. split; repeat constructor; cbn; unfold TMAX; lia.
Qed.

(* a repeated PUBREC: two PUBREL constructions within one connection *)
Definition dw_hist2 : list event :=
  x_connect_events x_connack_bytes ++
  [EvUser 1 (x_pub 2) (Some 5000); EvService 1 4096 0; EvWriteComplete 1; EvData 2 (dw_pubrec ++ dw_pubrec); EvService 3 4096 0; EvWriteComplete 3].

Example dw_pubrel_twice :
  i_sends ow_cfg RNull 2 dw_hist2 = [(1%nat, dw_pub 2 1 false); (1%nat, Pubrel (default_ack 1)); (1%nat, Pubrel (default_ack 1))] /\
  Forall ok_event dw_hist2 /\ Forall ok_submit dw_hist2.
Proof.
  split; [vm_compute; reflexivity|]. unfold dw_hist2, x_connect_events. cbn [app]. split; repeat constructor; cbn; unfold TMAX; lia.
Qed.
